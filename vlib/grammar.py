"""Grammar obligations (C05, C10), decided syntactically on every run:
 * `grammar.g4_equals_ebnf`: tucan.g4 (from which the ANTLR parser was generated) and the published tucan.ebnf
   define the same rules (modulo EOF, the three *_start test rules, quote style);
 * `grammar.lean_transcription`: the grammar proved about in lean/Contracts/Layout.lean is the published EBNF:
   every rule quoted in a doc comment there equals the EBNF rule of that name, the two element lists equal the
   right-hand sides of `with_carbon` / `without_carbon`, and every element rule has the shape `x ::= "X" count?`.
"""
from __future__ import annotations
import os, re


def norm(rhs: str) -> str:
    rhs = rhs.replace("'", '"')
    rhs = re.sub(r"\s+", " ", rhs).strip()
    return rhs


def parse_ebnf(path: str) -> dict[str, str]:
    rules = {}
    for line in open(path).read().splitlines():
        if "::=" in line:
            k, v = line.split("::=", 1)
            rules[k.strip()] = norm(v)
    return rules


def parse_g4(path: str) -> dict[str, str]:
    txt = open(path).read()
    txt = re.sub(r"/\*.*?\*/", "", txt, flags=re.S)
    txt = re.sub(r"//[^\n]*", "", txt)
    txt = re.sub(r"^\s*grammar\s+\w+\s*;", "", txt)
    rules = {}
    for m in re.finditer(r"([A-Za-z_]+)\s*:\s*(.*?)\s*;", txt, flags=re.S):
        name, rhs = m.group(1), norm(m.group(2))
        rhs = re.sub(r"\s*EOF$", "", rhs)
        rules[name] = rhs
    return rules


def check(repo: str, layout_lean: str) -> list[dict]:
    """returns a list of {"obligation", "ok", "detail"}"""
    out = []
    ebnf = parse_ebnf(os.path.join(repo, "tucan/parser/tucan.ebnf"))
    g4 = parse_g4(os.path.join(repo, "tucan/parser/tucan.g4"))
    g4 = {k: v for k, v in g4.items() if not k.endswith("_start")}
    diffs = []
    for k in sorted(set(ebnf) | set(g4)):
        if ebnf.get(k) != g4.get(k):
            diffs.append(f"{k}: ebnf={ebnf.get(k)!r} g4={g4.get(k)!r}")
    out.append({"obligation": "grammar.g4_equals_ebnf", "ok": not diffs, "detail": "; ".join(diffs[:5])})

    src = open(layout_lean).read()
    problems = []
    for m in re.finditer(r"/-- `([A-Za-z_]+) *::= *([^`]*)` -/", src):
        name, rhs = m.group(1), norm(m.group(2))
        if name == "x" or "…" in rhs:
            continue
        if ebnf.get(name) != rhs:
            problems.append(f"rule {name}: Layout.lean quotes {rhs!r}, tucan.ebnf has {ebnf.get(name)!r}")

    def lean_list(defname):
        m = re.search(r"def %s : List Str :=\s*\[(.*?)\]" % defname, src, flags=re.S)
        return re.findall(r'py!"([^"]*)"', m.group(1)) if m else None

    sym_of = {}
    for k, v in ebnf.items():
        mm = re.fullmatch(r'"([A-Z][a-z]?)" count\?', v)
        if mm:
            sym_of[k] = mm.group(1)

    def rhs_syms(rule):
        toks = ebnf.get(rule, "").split()
        res = []
        for i, t in enumerate(toks):
            opt = t.endswith("?")
            name = t.rstrip("?")
            if name not in sym_of:
                return None
            res.append((sym_of[name], opt))
        return res
    wc, woc = rhs_syms("with_carbon"), rhs_syms("without_carbon")
    if wc is None or woc is None:
        problems.append("with_carbon / without_carbon are not sequences of element rules")
    else:
        if not (wc and wc[0] == ("C", False) and all(o for _, o in wc[1:])):
            problems.append("with_carbon is not `c` followed by optional element rules")
        if not all(o for _, o in woc):
            problems.append("without_carbon is not a sequence of optional element rules")
        if lean_list("withCarbonOptSyms") != [s for s, _ in wc[1:]]:
            problems.append("withCarbonOptSyms in Layout.lean differs from the with_carbon rule of tucan.ebnf")
        if lean_list("withoutCarbonSyms") != [s for s, _ in woc]:
            problems.append("withoutCarbonSyms in Layout.lean differs from the without_carbon rule of tucan.ebnf")
    non_element = {"tucan", "sum_formula", "with_carbon", "without_carbon", "count", "tuples", "tuple", "node_index", "node_attributes", "node_attribute",
                   "node_property", "node_property_key", "node_property_value", "greater_than_zero", "greater_than_one", "GREATER_THAN_NINE"}
    for k in ebnf:
        if k not in non_element and k not in sym_of:
            problems.append(f"rule {k} of tucan.ebnf is neither an element rule nor one of the structural rules transcribed in Layout.lean")
    quoted = {m.group(1) for m in re.finditer(r"/-- `([A-Za-z_]+) *::=", src)}
    for k in non_element - {"with_carbon", "without_carbon"}:
        if k not in quoted:
            problems.append(f"structural rule {k} is not transcribed in Layout.lean")
    out.append({"obligation": "grammar.lean_transcription", "ok": not problems, "detail": "; ".join(problems[:5])})
    return out


if __name__ == "__main__":
    import json, sys
    print(json.dumps(check("/repo", os.path.join(os.path.dirname(os.path.dirname(os.path.abspath(__file__))), "lean/Contracts/Layout.lean")), indent=1))
