"""helper: generate and build the equivalence module for the tree in TUCAN_REPO; print which equalities Lean could not prove"""
import os, re, sys, time
from . import baseline, extract, leanbuild

def main():
    repo = os.environ.get("TUCAN_REPO", "/repo")
    ex = extract.write_generated(os.path.join(leanbuild.LEAN_SRC, "Generated"), repo)
    failed_extract = [f"{k[1]}: {m.error}" for k, m in ex.metas.items() if m.error]
    text, names = baseline.equiv_module(ex)
    os.makedirs(os.path.join(leanbuild.LEAN_SRC, "Probe"), exist_ok=True)
    open(os.path.join(leanbuild.LEAN_SRC, "Probe", "Equiv.lean"), "w").write(text)
    t = time.time()
    res = leanbuild.build(["Probe.Equiv"])
    r = res["Probe.Equiv"]
    bad = sorted(set(re.findall(r"Equiv\.lean:(\d+):\d+: error", r.output)))
    lines = text.splitlines()
    names_bad = []
    for b in bad:
        i = int(b) - 1
        while i >= 0 and not lines[i].startswith("theorem"):
            i -= 1
        names_bad.append(lines[i].split()[1])
    print("equiv ok" if r.ok else "equiv FAILED: " + ", ".join(dict.fromkeys(names_bad)), f"({time.time()-t:.0f}s)", "extraction failures:", failed_extract)
    if not r.ok and "--verbose" in sys.argv:
        errs = [l for l in r.output.splitlines() if "error" in l or l.startswith("  ") ]
        print("\n".join(errs)[:4000])

if __name__ == "__main__":
    main()
