"""Python values -> Lean literals of the PyModel types, and normalisation of Python results into the
JSON shape printed by PyModel.Json (for the differential probes V1/V2 and the refuter)."""
from __future__ import annotations
import json, math
import networkx as nx
from .extract import lean_str, lean_key


def val(v) -> str:
    if isinstance(v, bool):
        return f"(Val.bool {'true' if v else 'false'})"
    if isinstance(v, int):
        return f"(Val.int ({v}))"
    if isinstance(v, float):
        return f"(Val.flt ⟨{lean_str(float_tok(v))}⟩)"
    if isinstance(v, str):
        return f"(Val.str {lean_str(v)})"
    if v is None:
        return "Val.none"
    if isinstance(v, tuple):
        return "(Val.tup [" + ", ".join(sc(x) for x in v) + "])"
    raise TypeError(f"no Val literal for {v!r}")


def sc(v) -> str:
    if isinstance(v, bool):
        return f"(Sc.bool {'true' if v else 'false'})"
    if isinstance(v, int):
        return f"(Sc.int ({v}))"
    if isinstance(v, float):
        return f"(Sc.flt ⟨{lean_str(float_tok(v))}⟩)"
    if isinstance(v, str):
        return f"(Sc.str {lean_str(v)})"
    if v is None:
        return "Sc.none"
    raise TypeError(f"no Sc literal for {v!r}")


def float_tok(x: float) -> str:
    """decimal token of a float with at most 6 decimals (harness inputs are chosen that way)"""
    s = f"{x:.6f}".rstrip("0")
    if s.endswith("."):
        s += "0"
    return s


def attrs(d: dict) -> str:
    return "(Dict.mk [" + ", ".join(f"({lean_key(k)}, {val(v)})" for k, v in d.items()) + "] : Attrs)"


def int_(i: int) -> str:
    return f"({i} : Int)"


def list_(xs, f) -> str:
    return "[" + ", ".join(f(x) for x in xs) + "]"


def str_(s: str) -> str:
    return lean_str(s)


def pair(a: str, b: str) -> str:
    return f"({a}, {b})"


def dict_int_attrs(d: dict) -> str:
    return "(Dict.mk [" + ", ".join(f"({int_(k)}, {attrs(v)})" for k, v in d.items()) + "] : Dict Int Attrs)"


def dict_bond_attrs(d: dict) -> str:
    return "(Dict.mk [" + ", ".join(f"(({int_(k[0])}, {int_(k[1])}), {attrs(v)})" for k, v in d.items()) + "] : Dict (Int × Int) Attrs)"


def graph(g: nx.Graph) -> str:
    node = "Dict.mk [" + ", ".join(f"({int_(n)}, {attrs(d)})" for n, d in g._node.items()) + "]"
    adj = "Dict.mk [" + ", ".join(
        f"({int_(u)}, Dict.mk [" + ", ".join(f"({int_(v)}, {attrs(d)})" for v, d in nb.items()) + "])" for u, nb in g._adj.items()) + "]"
    return f"(Graph.mk ({node}) ({adj}))"


# ---------------------------------------------------------------- normalisation of Python results
def jval(v):
    if isinstance(v, bool) or v is None or isinstance(v, (int, str)):
        return v
    if isinstance(v, float):
        return {"f": v}
    if isinstance(v, tuple):
        return {"t": [jval(x) for x in v]}
    raise TypeError(f"jval {v!r}")


def jattrs(d: dict):
    return {"d": [[k, jval(v)] for k, v in d.items()]}


def jgraph(g: nx.Graph):
    return {"node": {"d": [[n, jattrs(d)] for n, d in g._node.items()]},
            "adj": {"d": [[u, {"d": [[v, jattrs(d)] for v, d in nb.items()]}] for u, nb in g._adj.items()]}}


def jdict(d: dict, fk=lambda k: k, fv=lambda v: v):
    return {"d": [[fk(k), fv(v)] for k, v in d.items()]}


def jtuple_key(k):
    return [k[0], k[1]]


def same(a, b) -> bool:
    """structural equality of two JSON values; floats ({"f": …}) compare numerically"""
    if isinstance(a, dict) and isinstance(b, dict):
        if set(a.keys()) == {"f"} and set(b.keys()) == {"f"}:
            try:
                return math.isclose(float(a["f"]), float(b["f"]), rel_tol=0, abs_tol=0) or float(a["f"]) == float(b["f"])
            except (TypeError, ValueError):
                return False
        if a.keys() != b.keys():
            return False
        return all(same(a[k], b[k]) for k in a)
    if isinstance(a, list) and isinstance(b, list):
        return len(a) == len(b) and all(same(x, y) for x, y in zip(a, b))
    if isinstance(a, bool) != isinstance(b, bool):
        return False
    return a == b


PY_EXC_NAMES = {
    "KeyError": "KeyError", "IndexError": "IndexError", "ValueError": "ValueError", "TypeError": "TypeError",
    "AssertionError": "AssertionError", "NetworkXError": "NetworkXError",
    "MolfileParserException": "MolfileParserException", "TucanParserException": "TucanParserException",
    "RecursionError": "RecursionError",
}


def run_py(thunk, norm):
    try:
        r = thunk()
    except Exception as e:  # noqa: BLE001 — the class is the observable
        return {"error": PY_EXC_NAMES.get(type(e).__name__, type(e).__name__)}
    return {"ok": norm(r)}
