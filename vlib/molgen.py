"""Generators shared by the differential probes, the refuter and the bounded stand-ins:
abstract molecules, spec-style molfile renderings (V3000/V2000) with the freedoms the CTfile format
allows, small-scope graph enumeration. Shares no code with /repo."""
from __future__ import annotations
import itertools, random

EXTRA_ATOM_KW = ["CFG=1", "VAL=2", "HCOUNT=1", "STBOX=1", "INVRET=1", "EXACHG=1", "SUBST=2", "UNSAT=1", "RBCNT=2",
                 "ATTCHPT=1", "RGROUPS=(1 1)", "ATTCHORD=(2 3 4)", "CLASS=AA", "SEQID=3"]
EXTRA_BOND_KW = ["CFG=1", "TOPO=1", "RXCTR=1", "STBOX=1", "DISP=COORD"]
SYMS = ["C", "N", "O", "H", "D", "T", "Cl", "Fe", "Og"]
Z = {"H": 1, "D": 1, "T": 1, "C": 6, "N": 7, "O": 8, "Cl": 17, "Fe": 26, "Og": 118, "F": 9, "S": 16, "Br": 35}


class Mol:
    """abstract molecule: atoms = list of dicts(sym, chg, rad, mass, x, y, z), bonds = list of (i, j, type)"""

    def __init__(self, atoms, bonds):
        self.atoms, self.bonds = atoms, bonds

    def expected_atoms(self):
        out = []
        for a in self.atoms:
            sym, mass = a["sym"], a.get("mass", 0)
            if sym == "D":
                sym, mass = "H", 2
            if sym == "T":
                sym, mass = "H", 3
            out.append({"element_symbol": sym, "chg": a.get("chg", 0), "rad": a.get("rad", 0), "mass": mass,
                        "x": a["x"], "y": a["y"], "z": a["z"]})
        return out

    def expected_bonds(self):
        return sorted((min(i, j), max(i, j), t) for i, j, t in self.bonds)

    def __repr__(self):
        return f"Mol(atoms={self.atoms!r}, bonds={self.bonds!r})"


def rand_mol(rnd: random.Random, max_atoms=5, syms=SYMS, zero_values=True, p_bond=0.4) -> Mol:
    n = rnd.randint(1, max_atoms)
    atoms = []
    for _ in range(n):
        a = {"sym": rnd.choice(syms), "x": round(rnd.uniform(-9, 9), 4), "y": round(rnd.uniform(-9, 9), 4), "z": 0.0}
        if rnd.random() < .4:
            a["chg"] = rnd.choice([-3, -1, 0, 1, 2] if zero_values else [-3, -1, 1, 2])
        if rnd.random() < .4:
            a["rad"] = rnd.choice([0, 1, 2, 3] if zero_values else [1, 2, 3])
        if rnd.random() < .4 and a["sym"] not in "DT":
            a["mass"] = rnd.choice([0, 2, 13, 18] if zero_values else [2, 13, 18])
        elif zero_values and a["sym"] in "DT" and rnd.random() < .3:
            a["mass"] = 0   # an explicitly written default on a D/T atom: MASS=0 means the same as omitting it, the symbol still says 2 / 3
        atoms.append(a)
    bonds = []
    for i in range(n):
        for j in range(i + 1, n):
            if rnd.random() < p_bond:
                t = rnd.randint(1, 3)
                bonds.append((i, j, t) if rnd.random() < .5 else (j, i, t))
    return Mol(atoms, bonds)


# ------------------------------------------------------------------ V3000
def v30_phys(rnd: random.Random, tokens, cuts=True, blank_runs=True):
    """one logical V30 line -> physical lines: blank runs between tokens, optional trailing blanks,
    0-3 continuation cuts at arbitrary positions (also inside numbers and before blanks)"""
    body = ""
    for i, t in enumerate(tokens):
        body += ((" " * rnd.choice([1, 1, 1, 2, 3]) if blank_runs else " ") if i else "") + t
    if blank_runs and rnd.random() < .2:
        body += " " * rnd.randint(1, 2)
    if cuts and rnd.random() < .5 and len(body) > 2:
        k = rnd.randint(1, 3)
        pts = sorted(rnd.sample(range(1, len(body)), min(k, len(body) - 1)))
        pieces = [body[a:b] for a, b in zip([0] + pts, pts + [len(body)])]
        if pieces[-1].endswith("-"):
            return ["M  V30 " + body]
        return ["M  V30 " + p + "-" for p in pieces[:-1]] + ["M  V30 " + pieces[-1]]
    return ["M  V30 " + body]


def render_v3000(rnd: random.Random, m: Mol, cuts=True, blank_runs=True, extra_kw=True, index_maps=True, crlf=False,
                 header=("name", "  prog", "comment"), star=None) -> str:
    """star: optional (anchor atom, [endpoint atoms], bond type): adds a star atom line and a multi-attachment bond line
    `k type anchor star ENDPTS=(n e1 … en) ATTACH=ALL`; the reader must expand it to one bond (anchor, e_i) per endpoint"""
    n = len(m.atoms)
    if index_maps:
        idx = rnd.choice([list(range(1, n + 1)), rnd.sample(range(1, 50), n), [10 * (i + 1) for i in range(n)]])
    else:
        idx = list(range(1, n + 1))
    L = list(header) + ["  0  0  0     0  0            999 V3000"]
    L += v30_phys(rnd, ["BEGIN", "CTAB"], cuts=False, blank_runs=False)
    L += v30_phys(rnd, ["COUNTS", str(n + (1 if star is not None else 0)), str(len(m.bonds) + (1 if star is not None else 0)), "0", "0", "0"], cuts=False, blank_runs=blank_runs)
    L += v30_phys(rnd, ["BEGIN", "ATOM"], cuts=False, blank_runs=False)
    for i, a in enumerate(m.atoms):
        kv = []
        if "chg" in a:
            kv.append(f"CHG={a['chg']}")
        if "rad" in a:
            kv.append(f"RAD={a['rad']}")
        if "mass" in a:
            kv.append(f"MASS={a['mass']}")
        if extra_kw:
            kv += rnd.sample(EXTRA_ATOM_KW, rnd.randint(0, 2))
        rnd.shuffle(kv)
        L += v30_phys(rnd, [str(idx[i]), a["sym"], repr(a["x"]), repr(a["y"]), repr(a["z"]), "0"] + kv, cuts, blank_runs)
    star_idx = None
    if star is not None:
        star_idx = max(idx) + 7
        L += v30_phys(rnd, [str(star_idx), "*", "0", "0", "0", "0"], cuts, blank_runs)
    L += v30_phys(rnd, ["END", "ATOM"], cuts=False, blank_runs=False)
    if m.bonds or star is not None:
        L += v30_phys(rnd, ["BEGIN", "BOND"], cuts=False, blank_runs=False)
        for k, (i, j, t) in enumerate(m.bonds, 1):
            L += v30_phys(rnd, [str(k), str(t), str(idx[i]), str(idx[j])] + (rnd.sample(EXTRA_BOND_KW, rnd.randint(0, 1)) if extra_kw else []), cuts, blank_runs)
        if star is not None:
            anchor, ends, t = star
            ends_tok = [f"ENDPTS=({len(ends)}"] + [str(idx[e]) for e in ends]
            ends_tok[-1] += ")"
            pair = [str(idx[anchor]), str(star_idx)] if rnd.random() < .5 else [str(star_idx), str(idx[anchor])]
            L += v30_phys(rnd, [str(len(m.bonds) + 1), str(t)] + pair + ends_tok + ["ATTACH=ALL"], cuts, blank_runs)
        L += v30_phys(rnd, ["END", "BOND"], cuts=False, blank_runs=False)
    L += v30_phys(rnd, ["END", "CTAB"], cuts=False, blank_runs=False)
    L.append("M  END")
    return ("\r\n" if crlf else "\n").join(L)


# ------------------------------------------------------------------ V2000
CHARGE_CODE = {3: 1, 2: 2, 1: 3, -1: 5, -2: 6, -3: 7}


def prop_lines(rnd, tag, entries, full=None):
    """`full`: fill every line with that many entries (the last one takes the rest) instead of a random 1..8"""
    out = []
    entries = list(entries)
    rnd.shuffle(entries)
    while entries:
        k = full or rnd.randint(1, 8)
        chunk, entries = entries[:k], entries[k:]
        out.append(f"M  {tag}{len(chunk):3d}" + "".join(f" {a:3d} {v:3d}" for a, v in chunk))
    return out


def rand_mol_v2000(rnd: random.Random, max_atoms=12, syms=("C", "N", "O", "H", "D", "T", "Cl", "Fe")) -> Mol:
    n = rnd.randint(1, max_atoms)
    atoms = []
    for _ in range(n):
        a = {"sym": rnd.choice(syms), "x": round(rnd.uniform(-9, 9), 4), "y": round(rnd.uniform(-9, 9), 4), "z": 0.0,
             "chg": 0, "rad": 0, "mass": 0}
        if rnd.random() < .3:
            a["chg"] = rnd.choice([-3, -2, -1, 1, 2, 3])
        if rnd.random() < .3:
            a["rad"] = rnd.choice([1, 2, 3])
        if rnd.random() < .3 and a["sym"] not in "DT":
            a["mass"] = rnd.choice([2, 13, 18])
        atoms.append(a)
    bonds = []
    for i in range(n):
        for j in range(i + 1, n):
            if rnd.random() < 2 / n:
                bonds.append((i, j, rnd.randint(1, 3)))
    return Mol(atoms, bonds)


def render_v2000(rnd: random.Random, m: Mol, mode: dict, max_per_line=None) -> str:
    """mode: chg_lines (use M CHG/M RAD instead of the charge code), stale_codes (atom-block codes that must be
    superseded), zeros (explicit zero entries), extras (unrelated property lines)"""
    L = ["name", "  prog", "comment", f"{len(m.atoms):3d}{len(m.bonds):3d}  0  0  0  0  0  0  0  0999 V2000"]
    use_lines = mode["chg_lines"]
    for a in m.atoms:
        code = 0
        if not use_lines:
            if a["chg"]:
                code = CHARGE_CODE[a["chg"]]
            elif a["rad"] == 2:
                code = 4
        elif mode.get("stale_codes"):
            code = rnd.choice([0, 1, 4, 5])
        L.append(f"{a['x']:10.4f}{a['y']:10.4f}{a['z']:10.4f} {a['sym']:<3}{0:2d}{code:3d}" + "  0" * 10)
    for i, j, t in m.bonds:
        L.append(f"{i + 1:3d}{j + 1:3d}{t:3d}  0  0  0  0")
    props = []
    if use_lines:
        chg = [(i + 1, a["chg"]) for i, a in enumerate(m.atoms) if a["chg"]]
        rad = [(i + 1, a["rad"]) for i, a in enumerate(m.atoms) if a["rad"]]
        if mode.get("zeros"):
            chg += [(i + 1, 0) for i, a in enumerate(m.atoms) if not a["chg"] and rnd.random() < .3]
            rad += [(i + 1, 0) for i, a in enumerate(m.atoms) if not a["rad"] and rnd.random() < .3]
        if chg:
            props += prop_lines(rnd, "CHG", chg, max_per_line)
        if rad:
            props += prop_lines(rnd, "RAD", rad, max_per_line)
        if not chg and not rad and mode.get("stale_codes"):
            props += ["M  CHG  0"] if rnd.random() < .5 else ["M  RAD  0"]
    iso = [(i + 1, a["mass"]) for i, a in enumerate(m.atoms) if a["mass"]]
    if mode.get("zeros"):
        iso += [(i + 1, 0) for i, a in enumerate(m.atoms) if not a["mass"] and a["sym"] not in "DT" and rnd.random() < .2]
    if mode.get("iso_on_dt"):
        # an ISO entry naming a D/T atom (any value, also a contradictory one): D and T keep denoting hydrogen-2 / -3
        iso += [(i + 1, rnd.choice([0, 1, 2, 3, 5, 13])) for i, a in enumerate(m.atoms) if a["sym"] in "DT" and rnd.random() < .7]
    if iso:
        props += prop_lines(rnd, "ISO", iso, max_per_line)
    if mode.get("extras"):
        extra = ["M  STY  1   1 SUP", "M  ALS   1  2 F C   N", "G    1  2", "V    1 note", "M  RGP  1   1   1"]
        for e in rnd.sample(extra, rnd.randint(0, 2)):
            props.insert(rnd.randint(0, len(props)), e)
    if rnd.random() < .5:
        rnd.shuffle(props)
    L += props + ["M  END"]
    return "\n".join(L)


def expected_v2000(m: Mol, mode: dict):
    out = []
    for a in m.atoms:
        sym, mass = a["sym"], a["mass"]
        if sym == "D":
            sym, mass = "H", 2
        if sym == "T":
            sym, mass = "H", 3
        chg, rad = a["chg"], a["rad"]
        if not mode["chg_lines"]:
            if chg:
                rad = 0
            elif rad != 2:
                rad = 0
        out.append({"element_symbol": sym, "chg": chg, "rad": rad, "mass": mass, "x": a["x"], "y": a["y"], "z": a["z"]})
    return out, sorted((i, j, t) for i, j, t in m.bonds)


# ------------------------------------------------------------------ small-scope graph enumeration
def all_graphs(n: int):
    """all simple graphs on vertices 0..n-1 (edge sets)"""
    pairs = list(itertools.combinations(range(n), 2))
    for mask in range(1 << len(pairs)):
        yield [p for k, p in enumerate(pairs) if mask >> k & 1]


def labelled_molecules(rnd: random.Random, max_n: int, elements=("C", "O"), per_graph=2, limit=None):
    """graphs n<=max_n with element / isotope / radical labels drawn at random (per_graph labelings each)"""
    out = []
    for n in range(1, max_n + 1):
        for edges in all_graphs(n):
            for _ in range(per_graph):
                atoms = []
                for _i in range(n):
                    a = {"sym": rnd.choice(elements)}
                    if rnd.random() < .2:
                        a["mass"] = rnd.choice([13, 2, 18])
                    if rnd.random() < .15:
                        a["rad"] = rnd.choice([1, 2])
                    atoms.append(a)
                out.append((atoms, edges))
    if limit and len(out) > limit:
        rnd.shuffle(out)
        out = out[:limit]
    return out
