"""bin/check: decide one property on /repo's current working tree (DESIGN.md §9).

exit 0  held on everything explored (KNOWN-FINDING lines possible)
exit 1  `VIOLATION property=<id> replay=<path>[ no-failing-input-found]`
exit 2  undecided (Lean time-out; nothing refuted)
exit 3  machinery broken (probe V1 mismatch, zero obligations, canary accepted, tool crash)
"""
from __future__ import annotations
import argparse, hashlib, json, os, re, subprocess, sys, time, traceback

VERIF = os.path.dirname(os.path.dirname(os.path.abspath(__file__)))
sys.path.insert(0, VERIF)
from vlib import leanbuild, registry, extract as extract_mod, extract_cfg  # noqa: E402

REPO = os.environ.get("TUCAN_REPO", "/repo")
FORBIDDEN = re.compile(r"\b(sorry|admit|native_decide|implemented_by|unsafe)\b|^\s*axiom\b", re.M)

ABSTRACTIONS = [
    "exception messages and tracebacks are dropped (class only)",
    "floats are opaque: float()/f'{x:.6f}' are environment operations with assumed laws (V5)",
    "object identity: values are copied; aliasing is tracked syntactically by the extractor (x = y, x = d[k], loop aliases)",
    "generator laziness: yields are collected into a list",
    "recursion depth and while loops: explicit fuel; contracts hold for every sufficient fuel",
    "datetime.now(), tucan.__version__, nx.kamada_kawai_layout are environment constants/operations",
    "TypeError on comparing differently-shaped attribute values is not modelled (total order by shape instead)",
    "str(int) is total: integers with more than 4300 digits are outside the model except in int(str) where the limit is modelled",
    "memory and time",
]
ASSUMPTIONS = {
    "V1": "extractor + PyModel builtins agree with CPython 3.12 on the extracted functions (differential probe on this run)",
    "V2": "PyModel.Nx agrees with networkx 3.6 for the calls used, incl. iteration orders (same differential probe)",
    "V3": "igraph/bliss: permute_vertices(canonical_permutation(color)) is a canonical form, identical for colour-isomorphic inputs (bounded probe; bliss itself unverified)",
    "V4": "ANTLR runtime + generated tucanParser recognise tucan.g4 and hand the listener the parse tree in document order (bounded differential against an EBNF-derived reader)",
    "V5": "float(f'{x:.6f}') is defined and fmt6 is idempotent through float() for finite doubles; float() ignores leading blanks (FloatIgnoresBlanks)",
    "V6": "random.seed(s); random.shuffle(l) is a deterministic function of s and permutes l",
    "lean": "Lean 4.33 kernel and Mathlib are sound; trusted base also contains vlib/extract.py and lean/PyModel",
}


def sha(s: str) -> str:
    return hashlib.sha256(s.encode()).hexdigest()


# ------------------------------------------------------------------------------------------ lean obligations
def theorems_in(module: str) -> list[str]:
    """fully qualified names of the theorems declared in a Lean module (namespace tracking)"""
    path = leanbuild.module_path(module)
    ns: list[str] = []
    out = []
    for line in open(path).read().splitlines():
        m = re.match(r"\s*namespace\s+([A-Za-z0-9_.]+)", line)
        if m:
            ns.append(m.group(1))
            continue
        m = re.match(r"\s*end\s+([A-Za-z0-9_.]+)\s*$", line)
        if m and ns and ns[-1] == m.group(1):
            ns.pop()
            continue
        m = re.match(r"\s*(?:@\[[^\]]*\]\s*)*(?:private\s+|protected\s+)?(?:theorem|lemma)\s+([^\s({\[:]+)", line)
        if m and not line.lstrip().startswith("private"):
            name = m.group(1)
            out.append(".".join(ns + [name]) if not name.startswith("_root_.") else name[7:])
    return out


def enclosing_theorem(path: str, lineno: int) -> str:
    lines = open(path).read().splitlines()
    for i in range(min(lineno, len(lines)) - 1, -1, -1):
        m = re.match(r"\s*(?:@\[[^\]]*\]\s*)*(?:private\s+|protected\s+)?(?:theorem|lemma|def|instance|example)\s*([A-Za-z0-9_.'!?]*)", lines[i])
        if m:
            return m.group(1) or "<anonymous>"
    return "<top>"


def failed_obligations(res: leanbuild.Result) -> list[str]:
    names = []
    for m in re.finditer(r"^(.*?\.lean):(\d+):(\d+): error", res.output, re.M):
        n = enclosing_theorem(m.group(1), int(m.group(2)))
        if n not in names:
            names.append(n)
    return names or ["<module " + res.mod + ">"]


def axioms_probe(modules: list[str], theorems: list[str], workdir: str) -> dict[str, list[str]]:
    """#print axioms for every theorem; returns name -> axiom list"""
    if not theorems:
        return {}
    os.makedirs(workdir, exist_ok=True)
    path = os.path.join(workdir, "Axioms_%s.lean" % sha(",".join(modules + theorems))[:12])
    src = "\n".join(f"import {m}" for m in modules) + "\n" + "\n".join(f"#print axioms {t}" for t in theorems) + "\n"
    open(path, "w").write(src)
    env = dict(os.environ, LEAN_PATH=leanbuild.OLEAN)
    p = subprocess.run(["lean", path], capture_output=True, text=True, env=env, timeout=900)
    out: dict[str, list[str]] = {}
    text = p.stdout + p.stderr
    for m in re.finditer(r"^'(\S+)' depends on axioms: \[([^\]]*)\]", text, re.S | re.M):
        out[m.group(1)] = [a.strip() for a in m.group(2).replace("\n", " ").split(",") if a.strip()]
    for m in re.finditer(r"^'(\S+)' does not depend on any axioms", text, re.M):
        out[m.group(1)] = []
    for t in theorems:
        if t not in out:
            out[t] = ["<unresolved: " + text[:200].replace("\n", " ") + ">"]
    return out


def source_scan(modules: list[str]) -> list[str]:
    bad = []
    for m in leanbuild.closure(modules):
        if m.startswith("Generated"):
            continue
        txt = open(leanbuild.module_path(m)).read()
        txt = re.sub(r"/-.*?-/", "", txt, flags=re.S)
        txt = re.sub(r"--.*", "", txt)
        for hit in FORBIDDEN.finditer(txt):
            bad.append(f"{m}: {hit.group(0).strip()}")
    return bad


# ------------------------------------------------------------------------------------------ known findings
def load_known():
    path = os.path.join(VERIF, "known_findings.jsonl")
    out = []
    if os.path.exists(path):
        for line in open(path):
            line = line.strip()
            if line:
                out.append(json.loads(line))
    return out


def matches_known(pid: str, viol: dict, known: list[dict]):
    for k in known:
        if k.get("status") != "known" or k.get("property") != pid:
            continue
        mt = k.get("match", {})
        if mt.get("kind") and mt["kind"] != viol.get("kind"):
            continue
        if "field" in mt and "regex" in mt:
            val = viol.get("input", {}).get(mt["field"], "")
            if not isinstance(val, str) or not re.search(mt["regex"], val):
                continue
        if "input" in mt and mt["input"] != viol.get("input"):
            continue
        # a finding is one specific failure on that input, not every failure on it (e.g. C10: an over-long numeral *rejected with the parser's
        # own exception*; the same input escaping as ValueError is another violation and must be reported)
        if "what_regex" in mt and not re.search(mt["what_regex"], str(viol.get("what", ""))):
            continue
        return k
    return None



# ------------------------------------------------------------------------------------------ cones, verdict of the Lean back end
ALLOWED_AXIOMS = {"propext", "Classical.choice", "Quot.sound"}
DECL_RE = re.compile(r"\s*(?:@\[[^\]]*\]\s*)*(?:(?:private|protected|noncomputable|partial|unsafe)\s+)*"
                     r"(theorem|lemma|def|abbrev|instance|structure|inductive|class|example|opaque)\b\s*([^\s({\[:]*)")


def decl_index(module: str) -> list[tuple[int, str]]:
    """(line number, fully qualified name) of every named declaration of a Lean module, in file order"""
    path = leanbuild.module_path(module)
    ns: list[str] = []
    out = []
    for i, line in enumerate(open(path).read().splitlines(), 1):
        m = re.match(r"\s*namespace\s+([A-Za-z0-9_.]+)", line)
        if m:
            ns.append(m.group(1))
            continue
        m = re.match(r"\s*end\s+([A-Za-z0-9_.]+)\s*$", line)
        if m and ns and ns[-1] == m.group(1):
            ns.pop()
            continue
        m = DECL_RE.match(line)
        if m:
            name = m.group(2)
            if not name or m.group(1) == "example":
                out.append((i, "<anonymous at %s:%d>" % (module, i)))
            else:
                out.append((i, name[7:] if name.startswith("_root_.") else ".".join(ns + [name])))
    return out


def failed_decls(module: str, res) -> list[str]:
    """qualified names of the declarations of `module` in which Lean reported an error"""
    idx = decl_index(module)
    base = os.path.basename(leanbuild.module_path(module))
    names = []
    for m in re.finditer(r"^(.*?\.lean):(\d+):(\d+): error", res.output, re.M):
        if os.path.basename(m.group(1)) != base:
            continue
        ln = int(m.group(2))
        cand = [n for (l, n) in idx if l <= ln]
        n = cand[-1] if cand else f"<module {module}>"
        if n not in names:
            names.append(n)
    return names or [f"<module {module}>"]


def lean_probe(import_mods: list[str], top: list[str], wit: list[str], thms: list[str], workdir: str, tag: str):
    """one Lean run over the built modules: the dependency cone of the property-level theorems and what the witnesses need in addition
    (`#cone`, lean/Tools/Cone.lean), and `#print axioms` of every theorem.
    Returns ({"missing": names that do not exist, "top": cone, "wit": additional cone of the witnesses}, axioms, output)"""
    os.makedirs(workdir, exist_ok=True)
    path = os.path.join(workdir, f"Probe_{tag}_{sha(','.join(import_mods + top + wit + thms))[:12]}.lean")
    src = "import Tools.Cone\n" + "\n".join(f"import {m}" for m in import_mods) + "\n"
    src += "#cone [" + " ".join(top) + "] [" + " ".join(wit) + "]\n"
    src += "\n".join(f"#print axioms {t}" for t in thms) + "\n"
    open(path, "w").write(src)
    env = dict(os.environ, LEAN_PATH=leanbuild.OLEAN)
    p = subprocess.run(["lean", path], capture_output=True, text=True, env=env, timeout=1800)
    text = p.stdout + p.stderr
    got = {m.group(1): m.group(2).split() for m in re.finditer(r"^(?:.*?info: )?cone (missing|top|wit):(.*)$", text, re.M)}
    cones = {"missing": got.get("missing", top + wit if "top" not in got else []), "top": got.get("top", []), "wit": got.get("wit", [])}
    ax: dict[str, list[str]] = {}
    for m in re.finditer(r"^'(\S+)' depends on axioms: \[([^\]]*)\]", text, re.S | re.M):
        ax[m.group(1)] = [a.strip() for a in m.group(2).replace("\n", " ").split(",") if a.strip()]
    for m in re.finditer(r"^'(\S+)' does not depend on any axioms", text, re.M):
        ax[m.group(1)] = []
    return cones, ax, text


def load_recorded_cones() -> dict:
    path = os.path.join(VERIF, "vlib", "cones.json")
    return json.load(open(path)) if os.path.exists(path) else {}


def lean_verdict(pid: str, build_mods: list[str], top: list[str], wit: list[str], res: dict, workdir: str, tag: str) -> dict:
    """Decide the Lean part of a property from the (error-tolerant) build results `res`.
    The obligations of a property are the theorems in the dependency cone of its property-level theorems `top` (and of the vacuity
    witnesses `wit`). The Lean part holds iff every theorem of `top` exists and `#print axioms` shows only the three standard axioms
    - a failed proof anywhere in the cone shows up as `sorryAx`, a declaration that no longer elaborates as a missing constant.
    Failures of theorems outside the cone (they belong to other properties) are listed as unrelated and raise no alarm."""
    clos = [m for m in leanbuild.closure(build_mods) if m.split(".")[0] not in ("Generated", "Baseline", "Tools")]
    usable = [m for m in clos if res[m].ok or res[m].degraded]
    thm_mod = {t: m for m in usable for t in theorems_in(m)}
    import_mods = [m for m in build_mods if m in usable]
    cones, ax, probe_out = (lean_probe(import_mods, top, wit, list(thm_mod), workdir, tag) if import_mods
                            else ({"missing": top + wit, "top": [], "wit": []}, {}, ""))
    missing = set(cones["missing"])
    rec = load_recorded_cones().get(pid, {})
    cur_top, cur_wit = set(cones["top"]), set(cones["top"]) | set(cones["wit"])
    cone_top = set(rec.get("top", [])) | cur_top
    cone_wit = set(rec.get("witness", [])) | cur_wit
    failed_by_mod = {m: failed_decls(m, res[m]) for m in clos if not res[m].ok and not res[m].skipped and not res[m].timeout}
    failed_all = [n for names in failed_by_mod.values() for n in names]
    timed_out = [m for m in clos if res[m].timeout]
    clean = lambda t: t in ax and set(ax[t]) <= ALLOWED_AXIOMS  # noqa: E731
    top_bad = [t for t in top if t in missing or not clean(t)]
    relevant = [n for n in failed_all if n in cone_top or n in top]
    # a witness is an alarm only if nothing outside the property's own cone and the witness module is broken in its cone
    wit_rows, wit_bad = [], []
    wit_mods = sorted({m for m, n in registry.WITNESSES.get(pid, []) if n in wit})
    wmod_decls = {n for wm in wit_mods for (_, n) in decl_index(wm)}
    for t in wit:
        if t not in missing and clean(t):
            wit_rows.append({"witness": t, "discharged": True})
            continue
        foreign = [n for n in failed_all if n in cone_wit and n not in cone_top and n not in wmod_decls]
        if foreign or any(wm not in usable for wm in wit_mods):
            wit_rows.append({"witness": t, "discharged": None,
                             "note": "not checkable on this run: a declaration outside this property's cone is rejected: " + ", ".join(foreign[:3])})
        else:
            wit_rows.append({"witness": t, "discharged": False})
            wit_bad.append(t)
            relevant += [n for n in failed_all if n in cone_wit and n not in relevant]
    obligations = [t for t in thm_mod if t in cone_top or (t in cone_wit and t in wmod_decls and t in wit)]
    obligations += [t for t in top + wit_bad if t not in obligations]
    discharged = [t for t in obligations if clean(t) and t not in failed_all]
    unrelated = [n for n in failed_all if n not in relevant]
    fns = sorted(n for n in (cone_top | cone_wit) if n.startswith(("Tucan.", "TucanBase.")))
    detail = []
    if top_bad or wit_bad:
        for m, names in failed_by_mod.items():
            rel = [n for n in names if n in relevant]
            if rel:
                detail.append({"module": m, "obligations": rel, "lean_output": res[m].output[:6000]})
        tainted = [t for t in top_bad + wit_bad if not any(t in d["obligations"] for d in detail)]
        if tainted:
            detail.append({"module": "<property-level theorems>", "obligations": tainted,
                           "lean_output": "; ".join(f"{t}: " + ("does not exist (its statement no longer elaborates)" if t in missing
                                                    else f"depends on {ax.get(t)}") for t in tainted)})
    return {"top_bad": top_bad, "wit_bad": wit_bad, "wit_rows": wit_rows, "obligations": obligations, "discharged": discharged,
            "relevant_failed": relevant, "unrelated_failed": unrelated, "timed_out": timed_out, "axioms": ax, "functions": fns,
            "detail": detail, "usable": usable, "cone_top_current": sorted(cur_top), "cone_wit_current": sorted(cur_wit),
            "cone_stale": bool(rec) and not (top_bad or wit_bad or failed_all) and (set(rec.get("top", [])) != cur_top)}


def lean_name(key) -> str:
    return f"Tucan.{key[0].split('.')[-1]}.{key[1]}"


# ------------------------------------------------------------------------------------------ equivalence rescue (DESIGN.md §13.7)
def equivalence_rescue(pid: str, ex, lean_mods: list[str], top: list[str], workdir: str) -> dict:
    """The contracts are written against the Lean text generated from the tree they were proved on (snapshot lean/Baseline, namespace
    TucanBase). When the property-level theorems no longer check for the current tree: rebuild the contract text against the snapshot
    (ContractsBase.*), take the extracted functions in the cone of the property-level theorems there, and try to prove
    `@Tucan.m.f = @TucanBase.m.f` for each of them and everything they call (and the constants). If Lean accepts all of it, every
    statement in the cone holds for the current functions by substitution of equals."""
    from vlib import baseline
    t = time.time()
    baseline.contracts_base(leanbuild.LEAN_SRC, lean_mods)
    base_top = ["ContractsBase." + m.split(".")[-1] for m in lean_mods if m.startswith("Contracts.")] + [m for m in lean_mods if not m.startswith("Contracts.")]
    res = leanbuild.build(base_top + ["Tools.Cone"], timeout=1800, tolerant=True)
    lv = lean_verdict(pid, base_top, top, [], res, workdir, pid + "_base")
    out = {"attempted": True, "succeeded": False, "unproved": [], "results": res, "verdict": lv, "timeout": bool(lv["timed_out"])}
    if lv["top_bad"]:
        out["error"] = "the contract text does not check against the snapshot lean/Baseline either (stale snapshot?): " + ", ".join(lv["top_bad"][:4])
        return out
    by_lean = {lean_name(k).replace("Tucan.", "TucanBase.", 1): k for k in ex.targets}
    fn_keys = {by_lean[n] for n in lv["functions"] if n in by_lean}
    # every function the cone needs, and everything it calls, must have been extracted: a function without Lean text has no equality
    todo, closure_keys = list(fn_keys), set()
    while todo:
        k = todo.pop()
        if k not in closure_keys:
            closure_keys.add(k)
            todo += [c for c, _ in ex.calls.get(k, [])]
    not_extracted = sorted(f"{k[0]}.{k[1]}" for k in closure_keys if ex.metas.get(k) is None or ex.metas[k].error)
    if not_extracted:
        out["error"] = "functions in the cone could not be extracted: " + ", ".join(not_extracted[:5])
        out["unproved"] = ["extract." + n for n in not_extracted]
        return out
    text, names = baseline.equiv_module(ex, None, fn_keys)
    mod = "Probe.Equiv_" + pid
    os.makedirs(os.path.join(leanbuild.LEAN_SRC, "Probe"), exist_ok=True)
    path = leanbuild.module_path(mod)
    tmp = f"{path}.{os.getpid()}.tmp"
    open(tmp, "w").write(text)
    os.replace(tmp, path)
    res2 = leanbuild.build([mod], timeout=1800)
    r = res2[mod]
    res.update(res2)
    if not r.ok:
        lines = text.splitlines()
        for ln in dict.fromkeys(re.findall(r"Equiv_\w+\.lean:(\d+):\d+: error", r.output)):
            i = min(int(ln), len(lines)) - 1
            while i >= 0 and not lines[i].startswith("theorem"):
                i -= 1
            if i >= 0 and "Equiv." + lines[i].split()[1] not in out["unproved"]:
                out["unproved"].append("Equiv." + lines[i].split()[1])
        out["unproved"] = out["unproved"] or ["<module " + mod + ">"]
        out["timeout"] = out["timeout"] or r.timeout
    ax = axioms_probe([mod], names, workdir) if r.ok else {}
    bad_ax = [n for n in names if not set(ax.get(n, ["?"])) <= ALLOWED_AXIOMS] if r.ok else []
    out.update({"succeeded": r.ok and not bad_ax, "module": mod, "equalities": names, "functions": sorted(lean_name(k) for k in fn_keys),
                "seconds": round(time.time() - t, 1), "lean_output": r.output[:6000]})
    return out


# ------------------------------------------------------------------------------------------ main check
def run_check(pid: str, tier: str, seed: int) -> int:
    t0 = time.time()
    spec = registry.PROPS[pid]
    work = os.path.join(leanbuild.BUILD, "work")
    os.makedirs(work, exist_ok=True)
    os.makedirs(os.path.join(leanbuild.OUT, "evidence"), exist_ok=True)
    os.makedirs(os.path.join(leanbuild.OUT, "replay"), exist_ok=True)
    ev = {"property_id": pid, "tier": tier, "seed": seed, "level": "other", "coverage": {}, "assumptions": [], "wall_s": 0.0, "violations": 0}
    cov = ev["coverage"]
    status = {"broken": [], "undecided": [], "lean_failed": [], "violations": [], "known": []}

    # 1. extraction from the working tree
    gen_dir = os.path.join(leanbuild.LEAN_SRC, "Generated")
    ex = extract_mod.write_generated(gen_dir, REPO)

    # 2. Lean obligations: (error-tolerant) build of the registered contract modules, then the verdict on the property-level theorems
    lean_mods = [registry.LEAN[k] for k in spec.get("lean", [])]
    top = list(registry.TOP.get(pid, {}).get("theorems", []))
    wit_pairs = registry.WITNESSES.get(pid, []) if lean_mods else []
    wit = [n for _, n in wit_pairs]
    build_mods = lean_mods + [m for m in dict.fromkeys(m for m, _ in wit_pairs) if m not in lean_mods]
    gen_needed = sorted({"Generated." + extract_cfg.LEAN_MODULE_NAMES[k[0]] for k in spec["functions"]})
    res = leanbuild.build(build_mods + gen_needed + (["Tools.Cone"] if lean_mods else []), timeout=1800, tolerant=True)
    empty = {"top_bad": [], "wit_bad": [], "wit_rows": [], "obligations": [], "discharged": [], "relevant_failed": [], "unrelated_failed": [],
             "timed_out": [], "axioms": {}, "functions": [], "detail": [], "usable": [], "cone_stale": False}
    lv = lean_verdict(pid, build_mods, top, wit, res, work, pid) if lean_mods else empty
    timings = {m: {"seconds": round(r.seconds, 2), "cached": r.cached, "ok": r.ok, **({"degraded": True} if r.degraded else {})} for m, r in res.items()}

    # functions under contract = the extracted functions in the dependency cone of the property-level theorems
    # (plus, for the frame properties, the registered function set)
    cone_fn = set(lv["functions"])
    fn_keys = [k for k in ex.targets if lean_name(k) in cone_fn]
    if spec.get("frames") == "registered" or not fn_keys:
        fn_keys += [k for k in spec["functions"] if k not in fn_keys]
    fn_rows = []
    not_generated = []
    for key in fn_keys:
        m = ex.metas.get(key)
        if m is None:
            continue
        fn_rows.append({"function": f"{m.module}.{m.qualname}", "file": m.file, "lines": [m.lineno, m.end_lineno], "sha256": m.sha256,
                        "mutated_parameters": m.mutated_params, "globals_written": m.globals_written, "external_state": m.external_state,
                        "extracted": m.error is None})
        if m.error:
            not_generated.append(f"{m.module}.{m.qualname}: {m.error}")
    cov["functions_under_contract"] = fn_rows
    cov["extraction_failures"] = not_generated
    # frame obligations (DESIGN.md §2.1, C12/C14): the set of mutated parameters, written globals and external state
    # (random, clock, igraph, float parsing) of every function under contract equals the recorded frame
    expected_frames = json.load(open(os.path.join(VERIF, "vlib", "frames.json")))
    frame_obl, frame_ok, frame_fail = [], [], []
    for key in fn_keys:
        m = ex.metas.get(key)
        if m is None or m.error:
            continue
        name = f"{m.module}.{m.qualname}"
        now = {"mutated_parameters": m.mutated_params, "globals_written": m.globals_written, "external_state": m.external_state,
               "uses_fuel": m.uses_fuel, "uses_rng": m.uses_rng, "is_generator": m.is_generator}
        frame_obl.append("frame." + name)
        if expected_frames.get(name) == now:
            frame_ok.append("frame." + name)
        else:
            frame_fail.append({"module": "<extractor frame analysis>", "obligations": ["frame." + name],
                               "lean_output": f"frame of {name} changed: recorded {expected_frames.get(name)} now {now}"})

    obligations: list[str] = list(lv["obligations"])
    discharged: list[str] = list(lv["discharged"])
    lean_fail_detail = list(lv["detail"])
    ax = lv["axioms"]
    wit_rows = lv["wit_rows"]
    if lv["timed_out"]:
        status["undecided"] += [f"{m}: Lean time-out" for m in lv["timed_out"]]
        lean_fail_detail = [d for d in lean_fail_detail if d["module"] != "<property-level theorems>"]
    # equivalence rescue: the property-level theorems are rejected although extraction, frames and the generated modules are fine
    rescue = {"attempted": False}
    gen_ok = all(res[m].ok for m in res if m.startswith("Generated."))
    if (lv["top_bad"] and not lv["timed_out"] and not not_generated and not frame_fail and gen_ok
            and all(d["module"].startswith("Contracts.") or d["module"] == "<property-level theorems>" for d in lean_fail_detail)
            and os.environ.get("VERIF_NO_RESCUE") != "1"):
        try:
            rescue = equivalence_rescue(pid, ex, lean_mods, top, work)
        except Exception as e:  # noqa: BLE001
            rescue = {"attempted": True, "succeeded": False, "unproved": [], "error": "".join(traceback.format_exception_only(type(e), e))[:600]}
        r2 = rescue.pop("results", {})
        lvb = rescue.pop("verdict", empty)
        for m, r in r2.items():
            res[m] = r
            timings[m] = {"seconds": round(r.seconds, 2), "cached": r.cached, "ok": r.ok}
        if rescue.get("succeeded"):
            # the obligations in the cone are discharged for the snapshot text and carried over by the equalities
            lean_fail_detail = []
            obligations = list(lvb["obligations"]) + rescue["equalities"]
            discharged = list(lvb["discharged"]) + rescue["equalities"]
            ax = lvb["axioms"]
            wit_rows = [{"witness": t, "discharged": None, "note": "not checked on this run (contracts carried over by the equivalence rescue)"} for t in wit]
            lv = dict(lvb, unrelated_failed=lv["unrelated_failed"])
        elif rescue.get("timeout"):
            status["undecided"].append("equivalence rescue: Lean time-out")
        elif rescue.get("unproved"):
            lean_fail_detail.append({"module": rescue.get("module", "Probe.Equiv"), "obligations": rescue["unproved"],
                                     "lean_output": "the contracts do not check for the current text of these functions and Lean found no proof that they "
                                                    "equal the snapshot the contracts were proved against\n" + rescue.get("lean_output", "")})
    cov["equivalence_rescue"] = {k: v for k, v in rescue.items() if k not in ("lean_output",)} | (
        {"equalities": len(rescue["equalities"])} if rescue.get("equalities") else {})
    cov["obligations_outside_the_cone_rejected"] = lv["unrelated_failed"]
    cov["recorded_cone_stale"] = lv.get("cone_stale", False)
    ok_mods = [m for m in lv["usable"] if res[m].ok]
    thms_ok = [t for t in obligations if t in ax]
    allowed = ALLOWED_AXIOMS
    cov["vacuity_witnesses"] = wit_rows
    scan = source_scan(lean_mods) if lean_mods else []
    if scan:
        status["broken"].append("forbidden constructs in Lean sources: " + "; ".join(scan[:5]))
    lean_fail_detail += frame_fail
    obligations += frame_obl
    discharged += frame_ok
    # grammar and glue obligations (syntactic back ends, see vlib/grammar.py and vlib/glue.py)
    from vlib import grammar as grammar_mod, glue as glue_mod
    extra = []
    if pid in ("C05", "C10"):
        extra += grammar_mod.check(REPO, os.path.join(leanbuild.LEAN_SRC, "Contracts", "Layout.lean"))
    g_all = glue_mod.check(REPO, os.path.join(VERIF, "vlib", "glue.json"))
    needed_files = {ex.modules[k[0]].relpath for k in spec["functions"] if k[0] in ex.modules} | {"tucan/__init__.py", "tucan/graph_attributes.py", "tucan/element_attributes.py"}
    if any(f.startswith("tucan/io/") for f in needed_files):
        needed_files |= {"tucan/io/__init__.py", "tucan/io/exception.py"}
    for x in g_all:
        name = x["obligation"][len("glue."):]
        if name.startswith("module:"):
            if name[len("module:"):] in needed_files:
                extra.append(x)
        elif pid in ("C10", "C14", "C03", "C11") and ("parser" in name):
            extra.append(x)
        elif pid in ("C07", "C06", "C14") and "molfile_reader" in name:
            extra.append(x)
    for x in extra:
        obligations.append(x["obligation"])
        if x["ok"]:
            discharged.append(x["obligation"])
        else:
            lean_fail_detail.append({"module": "<syntactic back end>", "obligations": [x["obligation"]], "lean_output": x["detail"]})
    # constant call depth (C15): the call graph of the extracted functions has no cycle
    acyclic = call_graph_acyclic(ex, fn_keys if pid == "C15" else None)
    if pid == "C15":
        obligations.append("callgraph.acyclic")
        if acyclic:
            discharged.append("callgraph.acyclic")
        else:
            lean_fail_detail.append({"module": "<extractor call graph>", "obligations": ["callgraph.acyclic"],
                                     "lean_output": "a function under contract calls itself (directly or indirectly): call depth is no longer bounded by a constant"})
    if not_generated:
        lean_fail_detail.append({"module": "<extractor>", "obligations": ["extract." + x.split(":")[0] for x in not_generated],
                                 "lean_output": "obligation could not be generated: " + "; ".join(not_generated)})
    for m in gen_needed:
        if not res[m].ok and not res[m].skipped and not res[m].timeout:
            bad = [n for n in failed_decls(m, res[m]) if n in cone_fn or not cone_fn or n.startswith("<")]
            if bad:
                lean_fail_detail.append({"module": m, "obligations": bad, "lean_output": res[m].output[:4000]})
    def back_end(o: str) -> str:
        return ("extractor frame analysis (syntactic)" if o.startswith("frame.") else "glue fingerprint (syntactic)" if o.startswith("glue.")
                else "grammar comparison g4/ebnf/Lean transcription (syntactic)" if o.startswith("grammar.") else "extractor call graph (syntactic)" if o.startswith("callgraph.")
                else "extractor" if o.startswith("extract.") else "Lean 4.33 kernel (equivalence with the baseline snapshot)" if o.startswith("Equiv.") else "Lean 4.33 kernel")
    by_be: dict[str, list[int]] = {}
    for o in obligations:
        r = by_be.setdefault(back_end(o), [0, 0])
        r[0] += 1
        r[1] += o in discharged
    cov["obligations_by_back_end"] = {k: {"obligations": v[0], "discharged": v[1]} for k, v in by_be.items()}
    cov["obligations"] = len(obligations)
    cov["discharged"] = len(discharged)
    cov["obligation_names"] = obligations
    cov["lean_modules"] = timings
    cov["axioms"] = {t: ax.get(t) for t in thms_ok[:400]}
    cov["checker_cmd"] = "lean -o <olean> <module> (Lean 4.33 kernel), `#print axioms` per theorem; thorough: leanchecker"
    cov["solver_time_s"] = round(sum(v["seconds"] for v in timings.values() if not v["cached"]), 2)
    cov["trusted_base"] = ["Lean 4.33 kernel", "Mathlib", "vlib/extract.py", "lean/PyModel/*.lean"]
    cov["frame_obligations"] = {"count": len(frame_obl), "discharged": len(frame_ok), "back_end": "extractor frame analysis (syntactic, vlib/extract.py)"}
    if lean_mods and not obligations:
        status["broken"].append("zero obligations generated")
    status["lean_failed"] = lean_fail_detail

    if tier == "thorough" and ok_mods:
        env = dict(os.environ, LEAN_PATH=leanbuild.OLEAN)
        lc = {}
        for m in ok_mods:
            try:
                p = subprocess.run(["leanchecker", m], capture_output=True, text=True, env=env, timeout=3000)
                lc[m] = p.returncode == 0
                if p.returncode != 0:
                    status["broken"].append(f"leanchecker rejected {m}: {(p.stdout + p.stderr)[:300]}")
            except subprocess.TimeoutExpired:
                lc[m] = None
        cov["leanchecker"] = lc

    # 3. probe V1/V2: extracted Lean vs CPython (only if the generated modules compile)
    from vlib import diff as diffmod
    diff_rows = {}
    if not not_generated:
        try:
            tucan = diffmod.load_tucan(REPO)
            for grp in spec.get("diff", []):
                fn = {"pipeline": diffmod.pipeline_cases, "io": diffmod.io_cases, "parser": diffmod.parser_cases}[grp]
                try:
                    imports, prelude, cases = fn(REPO, tucan, tier, seed)
                except Exception as e:  # noqa: BLE001 - the real code raised on the probe's corpus inputs; the bounded parts of the properties concerned report that
                    diff_rows[grp] = {"skipped": "the code under test raised while the probe inputs were prepared: " + "".join(traceback.format_exception_only(type(e), e))[:300]}
                    continue
                missing_fns = [f"{m.module}.{m.qualname}" for k, m in ex.metas.items()
                               if m.error and "Generated." + extract_cfg.LEAN_MODULE_NAMES[k[0]] in imports]
                if missing_fns:
                    diff_rows[grp] = {"skipped": "functions of the modules this probe group imports could not be extracted for this tree: " + ", ".join(missing_fns[:4])}
                    continue
                try:
                    n, mism, per_fn, secs = diffmod.run_cases(grp, imports, prelude, cases, work)
                except diffmod.ProbeUnavailable as e:
                    diff_rows[grp] = {"skipped": "an extracted module this probe group imports does not compile for this tree: " + str(e)[:300]}
                    continue
                diff_rows[grp] = {"cases": n, "mismatches": len(mism), "per_function": per_fn, "seconds": round(secs, 1)}
                if mism:
                    status["broken"].append(f"probe V1 ({grp}): extracted Lean and CPython disagree on {mism[0]['function']} input {mism[0]['input']}: "
                                            + str(diffmod.first_diff(mism[0]["python"], mism[0]["lean"]))[:400])
        except Exception as e:  # noqa: BLE001
            status["broken"].append("probe V1 crashed: " + "".join(traceback.format_exception_only(type(e), e))[:600])
    cov["probe_V1_V2"] = diff_rows

    # 4. bounded stand-ins / refuter scope on the real code
    from vlib import bounded as B
    budget = (25 if tier == "quick" else 400) * (3 if lean_fail_detail else 1)
    b_rows = []
    total_eval, total_nt, samples = 0, 0, []
    try:
        T = B.load(REPO)
        for gen, arg in spec.get("bounded", []):
            out = B.Outcome()
            tb = time.time()
            if gen == "pipeline":
                B.gen_pipeline(T, arg, tier, seed, budget, out)
            elif gen == "c14":
                B.gen_c14(REPO, tier, seed, budget, out, work)
            else:
                getattr(B, "gen_" + gen)(T, tier, seed, budget, out)
            b_rows.append({"part": arg or gen, "label": "bounded", "rule": out.rule, "evaluations": out.evaluations,
                           "distinct_nontrivial": len(out.nontrivial), "violations": len(out.violations), "seconds": round(time.time() - tb, 1)})
            total_eval += out.evaluations
            total_nt += len(out.nontrivial)
            samples += out.samples
            for v in out.violations:
                status["violations"].append(v)
    except Exception as e:  # noqa: BLE001
        status["broken"].append("bounded harness crashed: " + "".join(traceback.format_exception(type(e), e, e.__traceback__))[-900:])
    # probes of assumed dependency contracts (never counted as proved; a failing probe means the Lean model's assumption is wrong)
    probes = []
    try:
        for name in spec.get("probes", []):
            r = getattr(B, "probe_" + name)(tier, seed)
            probes.append(r)
            if r["failures"]:
                status["broken"].append(f"assumption probe {r['probe']} failed: {r['failures'][0]}")
    except Exception as e:  # noqa: BLE001
        status["broken"].append("assumption probe crashed: " + "".join(traceback.format_exception_only(type(e), e))[:400])
    cov["assumption_probes"] = probes
    cov["bounded_parts"] = b_rows
    cov["evaluations"] = total_eval
    cov["distinct_nontrivial"] = total_nt
    cov["samples"] = samples[:6] or [{"note": "no bounded part"}]
    cov["rule"] = " | ".join(r["rule"] for r in b_rows)

    # 4b. mutation self-test (thorough tier only, never when already running against a scratch copy): every stored seeded change that
    # targets this property is applied to a scratch worktree and must make this check report a violation
    if tier == "thorough" and not leanbuild.WORK and os.environ.get("VERIF_NO_SELFTEST") != "1":
        import glob
        rows = []
        for meta_path in sorted(glob.glob(os.path.join(VERIF, "seeded", "*", "meta.json"))):
            try:
                meta = json.load(open(meta_path))
            except Exception:  # noqa: BLE001
                continue
            if meta.get("breaks_property") != pid:
                continue
            patch = os.path.join(os.path.dirname(meta_path), "patch.diff")
            try:
                p = subprocess.run([os.path.join(VERIF, "bin", "with_scratch"), patch, "--", os.path.join(VERIF, "bin", "check"), pid, "--tier", "quick"],
                                   capture_output=True, text=True, timeout=3600, env=dict(os.environ, VERIF_NO_SELFTEST="1"))
                detected = "VIOLATION property=" + pid in p.stdout
                rows.append({"seeded_change": meta["name"], "detected": detected, "with_replayed_input": detected and "no-failing-input-found" not in p.stdout})
                if not detected:
                    status["broken"].append(f"mutation self-test: seeded change {meta['name']} is not detected any more")
            except subprocess.TimeoutExpired:
                rows.append({"seeded_change": meta["name"], "detected": None, "note": "timed out"})
        cov["mutation_self_test"] = rows

    # 5. verdict
    known = load_known()
    new_viol = []
    for v in status["violations"]:
        k = matches_known(pid, v, known)
        if k:
            if k["what"] not in status["known"]:
                status["known"].append(k["what"])
        else:
            new_viol.append(v)
    exit_code = 0
    lines = []
    for kf in status["known"]:
        lines.append(f"KNOWN-FINDING: property={pid} {kf}")
    failed_names = [n for d in lean_fail_detail for n in d["obligations"]]
    if new_viol:
        v = new_viol[0]
        rp = os.path.join(leanbuild.OUT, "replay", f"{pid}-{sha(json.dumps(v['input'], sort_keys=True, default=str))[:10]}.json")
        json.dump({"property": pid, "kind": v["kind"], "input": v["input"], "what": v["what"], "failed_obligations": failed_names,
                   "lean_output": [d["lean_output"][:3000] for d in lean_fail_detail][:3]}, open(rp, "w"), indent=1, default=str)
        lines.append(f"VIOLATION property={pid} replay={rp}")
        exit_code = 1
    elif lean_fail_detail:
        rp = os.path.join(leanbuild.OUT, "replay", f"{pid}-obligation-{sha(json.dumps(failed_names))[:10]}.json")
        json.dump({"property": pid, "kind": "obligation", "failed_obligations": failed_names,
                   "lean_output": [d["lean_output"][:6000] for d in lean_fail_detail][:5],
                   "note": "obligations discharged on the unchanged tree are rejected for this tree; the refuter found no failing input in its scope"},
                  open(rp, "w"), indent=1)
        lines.append(f"VIOLATION property={pid} replay={rp} no-failing-input-found")
        exit_code = 1
    elif status["broken"]:
        exit_code = 3
    elif status["undecided"]:
        exit_code = 2
    ev["violations"] = len(new_viol) + (1 if (lean_fail_detail and not new_viol) else 0)
    cov["failed_obligations"] = failed_names
    cov["machinery_problems"] = status["broken"]
    cov["undecided"] = status["undecided"]
    cov["known_findings_hit"] = status["known"]
    proved_all = bool(obligations) and len(discharged) == len(obligations) and not lean_fail_detail
    top = registry.TOP.get(pid, {})
    missing_top = [t for t in top.get("theorems", []) if t not in discharged]
    cov["property_level_theorems"] = [{"name": t, "discharged": t in discharged} for t in top.get("theorems", [])]
    cov["level_note"] = top.get("note", "")
    if top.get("level") == "proof" and proved_all and not missing_top:
        ev["level"] = "proof"
    cov["explanation"] = explanation(pid, spec, obligations, discharged, b_rows, proved_all, ev["level"], top)
    cov["call_graph_acyclic"] = acyclic
    cov["abstractions"] = ABSTRACTIONS
    ev["assumptions"] = [f"{k}: {v}" for k, v in ASSUMPTIONS.items()]
    ev["wall_s"] = round(time.time() - t0, 2)
    json.dump(ev, open(os.path.join(leanbuild.OUT, "evidence", f"{pid}.json"), "w"), indent=1, default=str)
    for l in lines:
        print(l)
    for b in status["broken"]:
        print("MACHINERY:", b)
    for u in status["undecided"]:
        print("UNDECIDED:", u)
    print(f"{pid} tier={tier} obligations={len(obligations)} discharged={len(discharged)} bounded_evaluations={total_eval} "
          f"exit={exit_code} wall={ev['wall_s']}s")
    return exit_code


def call_graph_acyclic(ex, keys=None) -> bool:
    """no function reachable from `keys` (default: all extracted functions) calls itself directly or indirectly"""
    color = {}

    def visit(k):
        if color.get(k) == 1:
            return False
        if color.get(k) == 2:
            return True
        color[k] = 1
        for callee, _ in ex.calls.get(k, []):
            if not visit(callee):
                return False
        color[k] = 2
        return True
    return all(visit(k) for k in (keys if keys is not None else ex.targets))


def explanation(pid, spec, obligations, discharged, b_rows, proved_all, level="other", top=None) -> str:
    parts = []
    if level == "proof":
        parts.append("Level proof: the property-level theorems " + ", ".join((top or {}).get("theorems", [])) +
                     " and every contract and lemma they rest on are discharged by the Lean kernel over code extracted from /repo on this run. "
                     + (top or {}).get("note", "") + " The bounded part below is the refuter scope / model probe, not part of the argument.")
    if obligations:
        parts.append(f"{len(discharged)}/{len(obligations)} obligations (the theorems in the dependency cone of the property-level theorems over code extracted from /repo on this run, "
                     f"plus frame / glue / grammar obligations of the syntactic back ends) "
                     f"accepted by the Lean kernel with axioms ⊆ {{propext, Classical.choice, Quot.sound}}.")
    else:
        parts.append("No Lean obligation is registered for this property yet: nothing is counted as proved.")
    if b_rows and level == "proof":
        parts.append("Bounded search on the real code (refuter and probe of the model, labelled bounded, never counted as proved): "
                     + "; ".join(f"{r['part']}: {r['evaluations']} evaluations" for r in b_rows) + ".")
    elif b_rows:
        parts.append("The composition up to the property statement is NOT proved; it is covered by bounded stand-ins on the real code, labelled bounded: "
                     + "; ".join(f"{r['part']}: {r['evaluations']} evaluations" for r in b_rows) + ".")
    return " ".join(parts)


def replay(pid: str, path: str) -> int:
    from vlib import bounded as B
    data = json.load(open(path))
    if data.get("kind") == "obligation":
        print("replay file names failed obligations only (no failing input was found):", ", ".join(data.get("failed_obligations", [])))
        return run_check(pid, "quick", 0)
    T = B.load(REPO)
    what = B.run_pred(T, data["kind"], data["input"])
    if what:
        print(f"VIOLATION property={pid} replay={path}")
        print("  " + what)
        return 1
    print(f"replayed input no longer violates {pid}")
    return 0


def record_cones() -> int:
    """write vlib/cones.json: per property the dependency cones of its property-level theorems and of its witnesses on the current
    (unchanged) tree. The record is only used to attribute failures when a cone cannot be computed because a theorem is missing."""
    extract_mod.write_generated(os.path.join(leanbuild.LEAN_SRC, "Generated"), REPO)
    out = {}
    work = os.path.join(leanbuild.BUILD, "work")
    for pid, spec in registry.PROPS.items():
        lean_mods = [registry.LEAN[k] for k in spec.get("lean", [])]
        if not lean_mods:
            continue
        top = list(registry.TOP.get(pid, {}).get("theorems", []))
        wit_pairs = registry.WITNESSES.get(pid, [])
        wit = [n for _, n in wit_pairs]
        build_mods = lean_mods + [m for m in dict.fromkeys(m for m, _ in wit_pairs) if m not in lean_mods]
        res = leanbuild.build(build_mods + ["Tools.Cone"], timeout=1800)
        bad = [m for m, r in res.items() if not r.ok]
        if bad:
            print("cannot record cones:", pid, bad)
            return 1
        cones, _, _ = lean_probe(build_mods, top, wit, [], work, pid + "_rec")
        if cones["missing"] or not cones["top"]:
            print("cannot record cones: missing", pid, cones["missing"])
            return 1
        out[pid] = {"top": sorted(cones["top"]), "witness": sorted(set(cones["top"]) | set(cones["wit"]))}
        print(pid, len(out[pid]["top"]), len(out[pid]["witness"]))
    json.dump(out, open(os.path.join(VERIF, "vlib", "cones.json"), "w"), indent=0, sort_keys=True)
    return 0


def main():
    ap = argparse.ArgumentParser()
    ap.add_argument("property")
    ap.add_argument("--tier", default=os.environ.get("VERIF_TIER", "quick"), choices=["quick", "thorough"])
    ap.add_argument("--replay")
    a = ap.parse_args()
    seed = int(os.environ.get("VERIF_SEED", "1"))
    if a.property == "record-cones":
        return record_cones()
    try:
        if a.replay:
            return replay(a.property, a.replay)
        return run_check(a.property, a.tier, seed)
    except Exception:  # noqa: BLE001
        traceback.print_exc()
        print("MACHINERY: checker crashed")
        return 3


if __name__ == "__main__":
    sys.exit(main())
