"""bin/check: decide one property on /repo's current working tree (DESIGN.md §9).

exit 0  held on everything explored (KNOWN-FINDING lines possible)
exit 1  `VIOLATION property=<id> replay=<path>[ no-failing-input-found]`
exit 2  undecided (Lean time-out; nothing refuted)
exit 3  machinery broken (probe V1 mismatch, zero obligations, canary accepted, tool crash)
"""
from __future__ import annotations
import argparse, hashlib, json, os, re, subprocess, sys, time, traceback

VERIF = os.path.dirname(os.path.dirname(os.path.abspath(__file__)))
sys.path.insert(0, VERIF)
from vlib import leanbuild, registry, extract as extract_mod, extract_cfg  # noqa: E402

REPO = os.environ.get("TUCAN_REPO", "/repo")
FORBIDDEN = re.compile(r"\b(sorry|admit|native_decide|implemented_by|unsafe)\b|^\s*axiom\b", re.M)

ABSTRACTIONS = [
    "exception messages and tracebacks are dropped (class only)",
    "floats are opaque: float()/f'{x:.6f}' are environment operations with assumed laws (V5)",
    "object identity: values are copied; aliasing is tracked syntactically by the extractor (x = y, x = d[k], loop aliases)",
    "generator laziness: yields are collected into a list",
    "recursion depth and while loops: explicit fuel; contracts hold for every sufficient fuel",
    "datetime.now(), tucan.__version__, nx.kamada_kawai_layout are environment constants/operations",
    "TypeError on comparing differently-shaped attribute values is not modelled (total order by shape instead)",
    "str(int) is total: integers with more than 4300 digits are outside the model except in int(str) where the limit is modelled",
    "memory and time",
]
ASSUMPTIONS = {
    "V1": "extractor + PyModel builtins agree with CPython 3.12 on the extracted functions (differential probe on this run)",
    "V2": "PyModel.Nx agrees with networkx 3.6 for the calls used, incl. iteration orders (same differential probe)",
    "V3": "igraph/bliss: permute_vertices(canonical_permutation(color)) is a canonical form, identical for colour-isomorphic inputs (bounded probe; bliss itself unverified)",
    "V4": "ANTLR runtime + generated tucanParser recognise tucan.g4 and hand the listener the parse tree in document order (bounded differential against an EBNF-derived reader)",
    "V5": "float(f'{x:.6f}') is defined and fmt6 is idempotent through float() for finite doubles",
    "V6": "random.seed(s); random.shuffle(l) is a deterministic function of s and permutes l",
    "lean": "Lean 4.33 kernel and Mathlib are sound; trusted base also contains vlib/extract.py and lean/PyModel",
}


def sha(s: str) -> str:
    return hashlib.sha256(s.encode()).hexdigest()


# ------------------------------------------------------------------------------------------ lean obligations
def theorems_in(module: str) -> list[str]:
    """fully qualified names of the theorems declared in a Lean module (namespace tracking)"""
    path = leanbuild.module_path(module)
    ns: list[str] = []
    out = []
    for line in open(path).read().splitlines():
        m = re.match(r"\s*namespace\s+([A-Za-z0-9_.]+)", line)
        if m:
            ns.append(m.group(1))
            continue
        m = re.match(r"\s*end\s+([A-Za-z0-9_.]+)\s*$", line)
        if m and ns and ns[-1] == m.group(1):
            ns.pop()
            continue
        m = re.match(r"\s*(?:@\[[^\]]*\]\s*)*(?:private\s+|protected\s+)?(?:theorem|lemma)\s+([^\s({\[:]+)", line)
        if m and not line.lstrip().startswith("private"):
            name = m.group(1)
            out.append(".".join(ns + [name]) if not name.startswith("_root_.") else name[7:])
    return out


def enclosing_theorem(path: str, lineno: int) -> str:
    lines = open(path).read().splitlines()
    for i in range(min(lineno, len(lines)) - 1, -1, -1):
        m = re.match(r"\s*(?:@\[[^\]]*\]\s*)*(?:private\s+|protected\s+)?(?:theorem|lemma|def|instance|example)\s*([A-Za-z0-9_.'!?]*)", lines[i])
        if m:
            return m.group(1) or "<anonymous>"
    return "<top>"


def failed_obligations(res: leanbuild.Result) -> list[str]:
    names = []
    for m in re.finditer(r"^(.*?\.lean):(\d+):(\d+): error", res.output, re.M):
        n = enclosing_theorem(m.group(1), int(m.group(2)))
        if n not in names:
            names.append(n)
    return names or ["<module " + res.mod + ">"]


def axioms_probe(modules: list[str], theorems: list[str], workdir: str) -> dict[str, list[str]]:
    """#print axioms for every theorem; returns name -> axiom list"""
    if not theorems:
        return {}
    os.makedirs(workdir, exist_ok=True)
    path = os.path.join(workdir, "Axioms_%s.lean" % sha(",".join(modules + theorems))[:12])
    src = "\n".join(f"import {m}" for m in modules) + "\n" + "\n".join(f"#print axioms {t}" for t in theorems) + "\n"
    open(path, "w").write(src)
    env = dict(os.environ, LEAN_PATH=leanbuild.OLEAN)
    p = subprocess.run(["lean", path], capture_output=True, text=True, env=env, timeout=900)
    out: dict[str, list[str]] = {}
    text = p.stdout + p.stderr
    for m in re.finditer(r"^'(\S+)' depends on axioms: \[([^\]]*)\]", text, re.S | re.M):
        out[m.group(1)] = [a.strip() for a in m.group(2).replace("\n", " ").split(",") if a.strip()]
    for m in re.finditer(r"^'(\S+)' does not depend on any axioms", text, re.M):
        out[m.group(1)] = []
    for t in theorems:
        if t not in out:
            out[t] = ["<unresolved: " + text[:200].replace("\n", " ") + ">"]
    return out


def source_scan(modules: list[str]) -> list[str]:
    bad = []
    for m in leanbuild.closure(modules):
        if m.startswith("Generated"):
            continue
        txt = open(leanbuild.module_path(m)).read()
        txt = re.sub(r"/-.*?-/", "", txt, flags=re.S)
        txt = re.sub(r"--.*", "", txt)
        for hit in FORBIDDEN.finditer(txt):
            bad.append(f"{m}: {hit.group(0).strip()}")
    return bad


# ------------------------------------------------------------------------------------------ known findings
def load_known():
    path = os.path.join(VERIF, "known_findings.jsonl")
    out = []
    if os.path.exists(path):
        for line in open(path):
            line = line.strip()
            if line:
                out.append(json.loads(line))
    return out


def matches_known(pid: str, viol: dict, known: list[dict]):
    for k in known:
        if k.get("status") != "known" or k.get("property") != pid:
            continue
        mt = k.get("match", {})
        if mt.get("kind") and mt["kind"] != viol.get("kind"):
            continue
        if "field" in mt and "regex" in mt:
            val = viol.get("input", {}).get(mt["field"], "")
            if not isinstance(val, str) or not re.search(mt["regex"], val):
                continue
        if "input" in mt and mt["input"] != viol.get("input"):
            continue
        return k
    return None



# ------------------------------------------------------------------------------------------ equivalence rescue (DESIGN.md §13.7)
def equivalence_rescue(ex, lean_mods: list[str], tag: str) -> dict:
    """The contracts are written against the Lean text generated from the tree they were proved on (snapshot lean/Baseline, namespace
    TucanBase). When they no longer check for the current tree, try to prove `@Tucan.m.f = @TucanBase.m.f` for every function (and
    constant) of the Generated modules the contract modules import, and rebuild the contract text against the snapshot
    (ContractsBase.*). If Lean accepts both, every contract statement holds for the current functions by substitution of equals."""
    from vlib import baseline
    gen_in_closure = {m for m in leanbuild.closure(lean_mods) if m.startswith("Generated.")}
    text, names = baseline.equiv_module(ex, gen_in_closure)
    mod = "Probe.Equiv_" + tag
    os.makedirs(os.path.join(leanbuild.LEAN_SRC, "Probe"), exist_ok=True)
    path = leanbuild.module_path(mod)
    tmp = f"{path}.{os.getpid()}.tmp"
    open(tmp, "w").write(text)
    os.replace(tmp, path)
    base_mods = baseline.contracts_base(leanbuild.LEAN_SRC, lean_mods)
    base_top = ["ContractsBase." + m.split(".")[-1] for m in lean_mods if m.startswith("Contracts.")]
    t = time.time()
    res = leanbuild.build([mod] + base_top, timeout=1800)
    r = res[mod]
    unproved = []
    if not r.ok:
        lines = text.splitlines()
        for ln in dict.fromkeys(re.findall(r"Equiv_\w+\.lean:(\d+):\d+: error", r.output)):
            i = min(int(ln), len(lines)) - 1
            while i >= 0 and not lines[i].startswith("theorem"):
                i -= 1
            if i >= 0 and "Equiv." + lines[i].split()[1] not in unproved:
                unproved.append("Equiv." + lines[i].split()[1])
        unproved = unproved or ["<module " + mod + ">"]
    base_bad = [m for m in res if m.startswith("ContractsBase.") and not res[m].ok]
    changed = []
    for g in sorted(gen_in_closure):
        b = os.path.join(leanbuild.LEAN_SRC, "Baseline", g.split(".")[-1] + ".lean")
        cur = open(leanbuild.module_path(g)).read()
        if not os.path.exists(b) or open(b).read() != baseline.rename_to_base(cur):
            changed.append(g)
    return {"attempted": True, "succeeded": r.ok and not base_bad, "module": mod, "equalities": names, "unproved": unproved,
            "baseline_contract_modules_failed": base_bad, "generated_modules_differing_from_baseline": changed,
            "seconds": round(time.time() - t, 1), "results": res, "lean_output": r.output[:6000],
            "timeout": bool(getattr(r, "timeout", False))}

# ------------------------------------------------------------------------------------------ main check
def run_check(pid: str, tier: str, seed: int) -> int:
    t0 = time.time()
    spec = registry.PROPS[pid]
    work = os.path.join(leanbuild.BUILD, "work")
    os.makedirs(work, exist_ok=True)
    os.makedirs(os.path.join(leanbuild.OUT, "evidence"), exist_ok=True)
    os.makedirs(os.path.join(leanbuild.OUT, "replay"), exist_ok=True)
    ev = {"property_id": pid, "tier": tier, "seed": seed, "level": "other", "coverage": {}, "assumptions": [], "wall_s": 0.0, "violations": 0}
    cov = ev["coverage"]
    status = {"broken": [], "undecided": [], "lean_failed": [], "violations": [], "known": []}

    # 1. extraction from the working tree
    gen_dir = os.path.join(leanbuild.LEAN_SRC, "Generated")
    ex = extract_mod.write_generated(gen_dir, REPO)
    fn_rows = []
    not_generated = []
    for key in spec["functions"]:
        m = ex.metas.get(key)
        if m is None:
            continue
        fn_rows.append({"function": f"{m.module}.{m.qualname}", "file": m.file, "lines": [m.lineno, m.end_lineno], "sha256": m.sha256,
                        "mutated_parameters": m.mutated_params, "globals_written": m.globals_written, "external_state": m.external_state,
                        "extracted": m.error is None})
        if m.error:
            not_generated.append(f"{m.module}.{m.qualname}: {m.error}")
    cov["functions_under_contract"] = fn_rows
    cov["extraction_failures"] = not_generated
    # frame obligations (DESIGN.md §2.1, C12/C14): the set of mutated parameters, written globals and external state
    # (random, clock, igraph, float parsing) of every function under contract equals the recorded frame
    expected_frames = json.load(open(os.path.join(VERIF, "vlib", "frames.json")))
    frame_obl, frame_ok, frame_fail = [], [], []
    for key in spec["functions"]:
        m = ex.metas.get(key)
        if m is None or m.error:
            continue
        name = f"{m.module}.{m.qualname}"
        now = {"mutated_parameters": m.mutated_params, "globals_written": m.globals_written, "external_state": m.external_state,
               "uses_fuel": m.uses_fuel, "uses_rng": m.uses_rng, "is_generator": m.is_generator}
        frame_obl.append("frame." + name)
        if expected_frames.get(name) == now:
            frame_ok.append("frame." + name)
        else:
            frame_fail.append({"module": "<extractor frame analysis>", "obligations": ["frame." + name],
                               "lean_output": f"frame of {name} changed: recorded {expected_frames.get(name)} now {now}"})

    # 2. Lean obligations
    lean_mods = [registry.LEAN[k] for k in spec.get("lean", [])]
    gen_needed = sorted({"Generated." + extract_cfg.LEAN_MODULE_NAMES[k[0]] for k in spec["functions"]})
    res = leanbuild.build(lean_mods + gen_needed, timeout=1800)
    obligations: list[str] = []
    discharged: list[str] = []
    timings = {}
    lean_fail_detail = []
    # obligations = every theorem of the registered contract modules and of the project-local lemma
    # libraries they import (Spec.*, PyModel.*); Generated.* contains definitions only
    oblig_mods = [m for m in leanbuild.closure(lean_mods) if not m.startswith("Generated")] if lean_mods else []
    for m in oblig_mods:
        obligations += theorems_in(m)
    for m, r in res.items():
        timings[m] = {"seconds": round(r.seconds, 2), "cached": r.cached, "ok": r.ok}
        if not r.ok:
            if getattr(r, "timeout", False):
                status["undecided"].append(f"{m}: Lean time-out")
            elif r.skipped:
                pass
            else:
                names = failed_obligations(r)
                lean_fail_detail.append({"module": m, "obligations": names, "lean_output": r.output[:6000]})
    # equivalence rescue: contract modules rejected although extraction, frames and the generated modules are fine
    rescue = {"attempted": False}
    contract_fail = [d for d in lean_fail_detail if d["module"].startswith("Contracts.")]
    if (contract_fail and not not_generated and not frame_fail and all(res[m].ok for m in res if m.startswith("Generated."))
            and os.environ.get("VERIF_NO_RESCUE") != "1"):
        try:
            rescue = equivalence_rescue(ex, lean_mods, pid)
        except Exception as e:  # noqa: BLE001
            rescue = {"attempted": True, "succeeded": False, "unproved": [], "error": "".join(traceback.format_exception_only(type(e), e))[:600]}
        r2 = rescue.pop("results", {})
        if rescue.get("succeeded"):
            # the obligations of the contract modules are discharged for the snapshot text and carried over by the equalities
            lean_fail_detail = [d for d in lean_fail_detail if not d["module"].startswith("Contracts.")]
            to_base = lambda m: "ContractsBase." + m.split(".")[-1] if m.startswith("Contracts.") else m  # noqa: E731
            oblig_mods = [to_base(m) for m in oblig_mods] + [rescue["module"]]
            obligations += rescue["equalities"]
            for m, r in r2.items():
                res[m] = r
                timings[m] = {"seconds": round(r.seconds, 2), "cached": r.cached, "ok": r.ok}
        elif rescue.get("timeout"):
            status["undecided"].append("equivalence rescue: Lean time-out")
        elif rescue.get("unproved"):
            lean_fail_detail.append({"module": rescue.get("module", "Probe.Equiv"), "obligations": rescue["unproved"],
                                     "lean_output": "the contracts do not check for the current text of these functions and Lean found no proof that they "
                                                    "equal the snapshot the contracts were proved against\n" + rescue.get("lean_output", "")})
    cov["equivalence_rescue"] = {k: v for k, v in rescue.items() if k not in ("lean_output",)} | (
        {"equalities": len(rescue["equalities"])} if rescue.get("equalities") else {})
    ok_mods = [m for m in oblig_mods if m in res and res[m].ok]
    thms_ok = [t for m in ok_mods for t in theorems_in(m)]
    ax = axioms_probe(ok_mods, thms_ok, work) if thms_ok else {}
    allowed = {"propext", "Classical.choice", "Quot.sound"}
    for t in thms_ok:
        if set(ax.get(t, ["?"])) <= allowed:
            discharged.append(t)
        else:
            lean_fail_detail.append({"module": "<axioms>", "obligations": [t], "lean_output": f"{t} depends on {ax.get(t)}"})
    # vacuity guards (lean/Contracts/Witness.lean): concrete instances satisfying every hypothesis of the property-level theorems
    wit_names = registry.WITNESSES.get(pid, [])
    wit_rows = []
    if wit_names and lean_mods and not rescue.get("attempted") and not lean_fail_detail:
        wres = leanbuild.build([registry.WITNESS_MODULE], timeout=1800)
        wr = wres[registry.WITNESS_MODULE]
        timings[registry.WITNESS_MODULE] = {"seconds": round(wr.seconds, 2), "cached": wr.cached, "ok": wr.ok}
        if wr.ok:
            wax = axioms_probe([registry.WITNESS_MODULE], wit_names, work)
            for t in wit_names:
                obligations.append(t)
                good = set(wax.get(t, ["?"])) <= allowed
                wit_rows.append({"witness": t, "discharged": good})
                if good:
                    discharged.append(t)
                else:
                    lean_fail_detail.append({"module": "<axioms>", "obligations": [t], "lean_output": f"{t} depends on {wax.get(t)}"})
        elif wr.skipped or any(r.skipped or not r.ok for m, r in wres.items() if m != registry.WITNESS_MODULE):
            # a contract module of another property is rejected: the witnesses cannot be checked on this run (not this property's alarm)
            wit_rows = [{"witness": t, "discharged": None, "note": "not checked: a module outside this property's closure is rejected"} for t in wit_names]
        elif getattr(wr, "timeout", False):
            status["undecided"].append("Contracts.Witness: Lean time-out")
        else:
            bad = failed_obligations(wr)
            for t in wit_names:
                obligations.append(t)
                if t.split(".")[-1] in bad:
                    wit_rows.append({"witness": t, "discharged": False})
                    lean_fail_detail.append({"module": registry.WITNESS_MODULE, "obligations": [t], "lean_output": wr.output[:4000]})
                else:
                    wit_rows.append({"witness": t, "discharged": None, "note": "module rejected at another theorem"})
                    obligations.pop()
    cov["vacuity_witnesses"] = wit_rows
    scan = source_scan(lean_mods) if lean_mods else []
    if scan:
        status["broken"].append("forbidden constructs in Lean sources: " + "; ".join(scan[:5]))
    lean_fail_detail += frame_fail
    obligations += frame_obl
    discharged += frame_ok
    # grammar and glue obligations (syntactic back ends, see vlib/grammar.py and vlib/glue.py)
    from vlib import grammar as grammar_mod, glue as glue_mod
    extra = []
    if pid in ("C05", "C10"):
        extra += grammar_mod.check(REPO, os.path.join(leanbuild.LEAN_SRC, "Contracts", "Layout.lean"))
    g_all = glue_mod.check(REPO, os.path.join(VERIF, "vlib", "glue.json"))
    needed_files = {ex.modules[k[0]].relpath for k in spec["functions"] if k[0] in ex.modules} | {"tucan/__init__.py", "tucan/graph_attributes.py", "tucan/element_attributes.py"}
    if any(f.startswith("tucan/io/") for f in needed_files):
        needed_files |= {"tucan/io/__init__.py", "tucan/io/exception.py"}
    for x in g_all:
        name = x["obligation"][len("glue."):]
        if name.startswith("module:"):
            if name[len("module:"):] in needed_files:
                extra.append(x)
        elif pid in ("C10", "C14", "C03", "C11") and ("parser" in name):
            extra.append(x)
        elif pid in ("C07", "C06", "C14") and "molfile_reader" in name:
            extra.append(x)
    for x in extra:
        obligations.append(x["obligation"])
        if x["ok"]:
            discharged.append(x["obligation"])
        else:
            lean_fail_detail.append({"module": "<syntactic back end>", "obligations": [x["obligation"]], "lean_output": x["detail"]})
    # constant call depth (C15): the call graph of the extracted functions has no cycle
    acyclic = call_graph_acyclic(ex)
    if pid == "C15":
        obligations.append("callgraph.acyclic")
        if acyclic:
            discharged.append("callgraph.acyclic")
        else:
            lean_fail_detail.append({"module": "<extractor call graph>", "obligations": ["callgraph.acyclic"],
                                     "lean_output": "a function under contract calls itself (directly or indirectly): call depth is no longer bounded by a constant"})
    if not_generated:
        lean_fail_detail.append({"module": "<extractor>", "obligations": ["extract." + x.split(":")[0] for x in not_generated],
                                 "lean_output": "obligation could not be generated: " + "; ".join(not_generated)})
    for m in gen_needed:
        if not res[m].ok and not res[m].skipped:
            pass  # already recorded through lean_fail_detail
    cov["obligations"] = len(obligations)
    cov["discharged"] = len(discharged)
    cov["obligation_names"] = obligations
    cov["lean_modules"] = timings
    cov["axioms"] = {t: ax.get(t) for t in thms_ok[:400]}
    cov["checker_cmd"] = "lean -o <olean> <module> (Lean 4.33 kernel), `#print axioms` per theorem; thorough: leanchecker"
    cov["solver_time_s"] = round(sum(v["seconds"] for v in timings.values() if not v["cached"]), 2)
    cov["trusted_base"] = ["Lean 4.33 kernel", "Mathlib", "vlib/extract.py", "lean/PyModel/*.lean"]
    cov["frame_obligations"] = {"count": len(frame_obl), "discharged": len(frame_ok), "back_end": "extractor frame analysis (syntactic, vlib/extract.py)"}
    if lean_mods and not obligations:
        status["broken"].append("zero obligations generated")
    status["lean_failed"] = lean_fail_detail

    if tier == "thorough" and ok_mods:
        env = dict(os.environ, LEAN_PATH=leanbuild.OLEAN)
        lc = {}
        for m in ok_mods:
            try:
                p = subprocess.run(["leanchecker", m], capture_output=True, text=True, env=env, timeout=3000)
                lc[m] = p.returncode == 0
                if p.returncode != 0:
                    status["broken"].append(f"leanchecker rejected {m}: {(p.stdout + p.stderr)[:300]}")
            except subprocess.TimeoutExpired:
                lc[m] = None
        cov["leanchecker"] = lc

    # 3. probe V1/V2: extracted Lean vs CPython (only if the generated modules compile)
    from vlib import diff as diffmod
    diff_rows = {}
    if all(res[m].ok for m in gen_needed) and not not_generated:
        try:
            tucan = diffmod.load_tucan(REPO)
            for grp in spec.get("diff", []):
                fn = {"pipeline": diffmod.pipeline_cases, "io": diffmod.io_cases, "parser": diffmod.parser_cases}[grp]
                imports, prelude, cases = fn(REPO, tucan, tier, seed)
                n, mism, per_fn, secs = diffmod.run_cases(grp, imports, prelude, cases, work)
                diff_rows[grp] = {"cases": n, "mismatches": len(mism), "per_function": per_fn, "seconds": round(secs, 1)}
                if mism:
                    status["broken"].append(f"probe V1 ({grp}): extracted Lean and CPython disagree on {mism[0]['function']} input {mism[0]['input']}: "
                                            + str(diffmod.first_diff(mism[0]["python"], mism[0]["lean"]))[:400])
        except Exception as e:  # noqa: BLE001
            status["broken"].append("probe V1 crashed: " + "".join(traceback.format_exception_only(type(e), e))[:600])
    cov["probe_V1_V2"] = diff_rows

    # 4. bounded stand-ins / refuter scope on the real code
    from vlib import bounded as B
    budget = (25 if tier == "quick" else 400) * (3 if lean_fail_detail else 1)
    b_rows = []
    total_eval, total_nt, samples = 0, 0, []
    try:
        T = B.load(REPO)
        for gen, arg in spec.get("bounded", []):
            out = B.Outcome()
            tb = time.time()
            if gen == "pipeline":
                B.gen_pipeline(T, arg, tier, seed, budget, out)
            elif gen == "c14":
                B.gen_c14(REPO, tier, seed, budget, out, work)
            else:
                getattr(B, "gen_" + gen)(T, tier, seed, budget, out)
            b_rows.append({"part": arg or gen, "label": "bounded", "rule": out.rule, "evaluations": out.evaluations,
                           "distinct_nontrivial": len(out.nontrivial), "violations": len(out.violations), "seconds": round(time.time() - tb, 1)})
            total_eval += out.evaluations
            total_nt += len(out.nontrivial)
            samples += out.samples
            for v in out.violations:
                status["violations"].append(v)
    except Exception as e:  # noqa: BLE001
        status["broken"].append("bounded harness crashed: " + "".join(traceback.format_exception(type(e), e, e.__traceback__))[-900:])
    # probes of assumed dependency contracts (never counted as proved; a failing probe means the Lean model's assumption is wrong)
    probes = []
    try:
        for name in spec.get("probes", []):
            r = getattr(B, "probe_" + name)(tier, seed)
            probes.append(r)
            if r["failures"]:
                status["broken"].append(f"assumption probe {r['probe']} failed: {r['failures'][0]}")
    except Exception as e:  # noqa: BLE001
        status["broken"].append("assumption probe crashed: " + "".join(traceback.format_exception_only(type(e), e))[:400])
    cov["assumption_probes"] = probes
    cov["bounded_parts"] = b_rows
    cov["evaluations"] = total_eval
    cov["distinct_nontrivial"] = total_nt
    cov["samples"] = samples[:6] or [{"note": "no bounded part"}]
    cov["rule"] = " | ".join(r["rule"] for r in b_rows)

    # 4b. mutation self-test (thorough tier only, never when already running against a scratch copy): every stored seeded change that
    # targets this property is applied to a scratch worktree and must make this check report a violation
    if tier == "thorough" and not leanbuild.WORK and os.environ.get("VERIF_NO_SELFTEST") != "1":
        import glob
        rows = []
        for meta_path in sorted(glob.glob(os.path.join(VERIF, "seeded", "*", "meta.json"))):
            try:
                meta = json.load(open(meta_path))
            except Exception:  # noqa: BLE001
                continue
            if meta.get("breaks_property") != pid:
                continue
            patch = os.path.join(os.path.dirname(meta_path), "patch.diff")
            try:
                p = subprocess.run([os.path.join(VERIF, "bin", "with_scratch"), patch, "--", os.path.join(VERIF, "bin", "check"), pid, "--tier", "quick"],
                                   capture_output=True, text=True, timeout=3600, env=dict(os.environ, VERIF_NO_SELFTEST="1"))
                detected = "VIOLATION property=" + pid in p.stdout
                rows.append({"seeded_change": meta["name"], "detected": detected, "with_replayed_input": detected and "no-failing-input-found" not in p.stdout})
                if not detected:
                    status["broken"].append(f"mutation self-test: seeded change {meta['name']} is not detected any more")
            except subprocess.TimeoutExpired:
                rows.append({"seeded_change": meta["name"], "detected": None, "note": "timed out"})
        cov["mutation_self_test"] = rows

    # 5. verdict
    known = load_known()
    new_viol = []
    for v in status["violations"]:
        k = matches_known(pid, v, known)
        if k:
            if k["what"] not in status["known"]:
                status["known"].append(k["what"])
        else:
            new_viol.append(v)
    exit_code = 0
    lines = []
    for kf in status["known"]:
        lines.append(f"KNOWN-FINDING: property={pid} {kf}")
    failed_names = [n for d in lean_fail_detail for n in d["obligations"]]
    if new_viol:
        v = new_viol[0]
        rp = os.path.join(leanbuild.OUT, "replay", f"{pid}-{sha(json.dumps(v['input'], sort_keys=True, default=str))[:10]}.json")
        json.dump({"property": pid, "kind": v["kind"], "input": v["input"], "what": v["what"], "failed_obligations": failed_names,
                   "lean_output": [d["lean_output"][:3000] for d in lean_fail_detail][:3]}, open(rp, "w"), indent=1, default=str)
        lines.append(f"VIOLATION property={pid} replay={rp}")
        exit_code = 1
    elif lean_fail_detail:
        rp = os.path.join(leanbuild.OUT, "replay", f"{pid}-obligation-{sha(json.dumps(failed_names))[:10]}.json")
        json.dump({"property": pid, "kind": "obligation", "failed_obligations": failed_names,
                   "lean_output": [d["lean_output"][:6000] for d in lean_fail_detail][:5],
                   "note": "obligations discharged on the unchanged tree are rejected for this tree; the refuter found no failing input in its scope"},
                  open(rp, "w"), indent=1)
        lines.append(f"VIOLATION property={pid} replay={rp} no-failing-input-found")
        exit_code = 1
    elif status["broken"]:
        exit_code = 3
    elif status["undecided"]:
        exit_code = 2
    ev["violations"] = len(new_viol) + (1 if (lean_fail_detail and not new_viol) else 0)
    cov["failed_obligations"] = failed_names
    cov["machinery_problems"] = status["broken"]
    cov["undecided"] = status["undecided"]
    cov["known_findings_hit"] = status["known"]
    proved_all = bool(obligations) and len(discharged) == len(obligations) and not lean_fail_detail
    top = registry.TOP.get(pid, {})
    missing_top = [t for t in top.get("theorems", []) if t not in discharged]
    cov["property_level_theorems"] = [{"name": t, "discharged": t in discharged} for t in top.get("theorems", [])]
    cov["level_note"] = top.get("note", "")
    if top.get("level") == "proof" and proved_all and not missing_top:
        ev["level"] = "proof"
    cov["explanation"] = explanation(pid, spec, obligations, discharged, b_rows, proved_all, ev["level"], top)
    cov["call_graph_acyclic"] = acyclic
    cov["abstractions"] = ABSTRACTIONS
    ev["assumptions"] = [f"{k}: {v}" for k, v in ASSUMPTIONS.items()]
    ev["wall_s"] = round(time.time() - t0, 2)
    json.dump(ev, open(os.path.join(leanbuild.OUT, "evidence", f"{pid}.json"), "w"), indent=1, default=str)
    for l in lines:
        print(l)
    for b in status["broken"]:
        print("MACHINERY:", b)
    for u in status["undecided"]:
        print("UNDECIDED:", u)
    print(f"{pid} tier={tier} obligations={len(obligations)} discharged={len(discharged)} bounded_evaluations={total_eval} "
          f"exit={exit_code} wall={ev['wall_s']}s")
    return exit_code


def call_graph_acyclic(ex) -> bool:
    color = {}

    def visit(k):
        if color.get(k) == 1:
            return False
        if color.get(k) == 2:
            return True
        color[k] = 1
        for callee, _ in ex.calls.get(k, []):
            if not visit(callee):
                return False
        color[k] = 2
        return True
    return all(visit(k) for k in ex.targets)


def explanation(pid, spec, obligations, discharged, b_rows, proved_all, level="other", top=None) -> str:
    parts = []
    if level == "proof":
        parts.append("Level proof: the property-level theorems " + ", ".join((top or {}).get("theorems", [])) +
                     " and every contract and lemma they rest on are discharged by the Lean kernel over code extracted from /repo on this run. "
                     + (top or {}).get("note", "") + " The bounded part below is the refuter scope / model probe, not part of the argument.")
    if obligations:
        parts.append(f"{len(discharged)}/{len(obligations)} Lean obligations (function contracts and lemmas over code extracted from /repo on this run) "
                     f"accepted by the Lean kernel with axioms ⊆ {{propext, Classical.choice, Quot.sound}}.")
    else:
        parts.append("No Lean obligation is registered for this property yet: nothing is counted as proved.")
    if b_rows:
        parts.append("The composition up to the property statement is NOT proved; it is covered by bounded stand-ins on the real code, labelled bounded: "
                     + "; ".join(f"{r['part']}: {r['evaluations']} evaluations" for r in b_rows) + ".")
    return " ".join(parts)


def replay(pid: str, path: str) -> int:
    from vlib import bounded as B
    data = json.load(open(path))
    if data.get("kind") == "obligation":
        print("replay file names failed obligations only (no failing input was found):", ", ".join(data.get("failed_obligations", [])))
        return run_check(pid, "quick", 0)
    T = B.load(REPO)
    what = B.run_pred(T, data["kind"], data["input"])
    if what:
        print(f"VIOLATION property={pid} replay={path}")
        print("  " + what)
        return 1
    print(f"replayed input no longer violates {pid}")
    return 0


def main():
    ap = argparse.ArgumentParser()
    ap.add_argument("property")
    ap.add_argument("--tier", default=os.environ.get("VERIF_TIER", "quick"), choices=["quick", "thorough"])
    ap.add_argument("--replay")
    a = ap.parse_args()
    seed = int(os.environ.get("VERIF_SEED", "1"))
    try:
        if a.replay:
            return replay(a.property, a.replay)
        return run_check(a.property, a.tier, seed)
    except Exception:  # noqa: BLE001
        traceback.print_exc()
        print("MACHINERY: checker crashed")
        return 3


if __name__ == "__main__":
    sys.exit(main())
