"""Mechanical extraction: Python `ast` of /repo's functions -> Lean 4 `do` programs in `Except Err`.

Run on every check from /repo's current working tree (DESIGN.md §2.1). The translation is
syntax-directed; overloaded operators are resolved by Lean type classes (PyModel.Ops), so only a
small table of type hints (vlib/extract_cfg.py) is needed. A construct outside the tables raises
`Unsupported` for that function only.
"""
from __future__ import annotations
import ast, hashlib, os, re, sys, importlib.util
from dataclasses import dataclass, field

from . import extract_cfg as cfg

LEAN_KEYWORDS = {
    "attribute", "at", "in", "from", "end", "open", "instance", "structure", "fun", "show", "have", "then",
    "else", "do", "by", "let", "if", "match", "with", "where", "variable", "universe", "section", "namespace",
    "private", "partial", "mutual", "theorem", "def", "example", "class", "prefix", "infix", "local", "macro",
    "syntax", "deriving", "extends", "import", "export", "using", "calc", "for", "unless", "return", "try",
    "catch", "finally", "mut", "break", "continue", "nomatch", "this", "abbrev", "axiom", "inductive", "type",
    "Type", "Prop", "Sort", "set_option", "noncomputable", "unsafe", "protected", "omit", "include", "suffices",
    "obtain",
}


def mangle(n: str) -> str:
    return n + "_" if n in LEAN_KEYWORDS else n


class Unsupported(Exception):
    pass


def lean_str(s: str) -> str:
    """Python str literal -> `py!"…"` (List Char literal)."""
    out = []
    for ch in s:
        o = ord(ch)
        if ch == '"':
            out.append('\\"')
        elif ch == "\\":
            out.append("\\\\")
        elif ch == "\n":
            out.append("\\n")
        elif ch == "\t":
            out.append("\\t")
        elif ch == "\r":
            out.append("\\r")
        elif o < 32 or o > 126:
            out.append("\\u{%x}" % o)
        else:
            out.append(ch)
    return 'py!"' + "".join(out) + '"'


def lean_key(s: str) -> str:
    assert all(32 <= ord(c) < 127 and c not in '"\\' for c in s), s
    return '"' + s + '"'


@dataclass
class FnMeta:
    module: str
    qualname: str
    file: str
    lineno: int
    end_lineno: int
    sha256: str
    lean_name: str
    mutated_params: list[str] = field(default_factory=list)
    globals_read: list[str] = field(default_factory=list)
    globals_written: list[str] = field(default_factory=list)
    external_state: list[str] = field(default_factory=list)
    uses_fuel: bool = False
    uses_rng: bool = False
    is_generator: bool = False
    error: str | None = None
    lean_text: str = ""


class Module:
    def __init__(self, repo: str, relpath: str):
        self.repo = repo
        self.relpath = relpath
        self.path = os.path.join(repo, relpath)
        self.src = open(self.path).read()
        self.tree = ast.parse(self.src)
        self.pyname = relpath[:-3].replace("/", ".")
        self.short = self.pyname.split(".")[-1]
        self.imports: dict[str, tuple[str, str]] = {}  # local name -> (module pyname, original name)
        self.functions: dict[str, ast.FunctionDef] = {}
        self.classes: dict[str, ast.ClassDef] = {}
        self.assigned_globals: dict[str, ast.AST] = {}
        for node in self.tree.body:
            if isinstance(node, ast.ImportFrom) and node.module:
                for a in node.names:
                    self.imports[a.asname or a.name] = (node.module, a.name)
            elif isinstance(node, ast.FunctionDef):
                self.functions[node.name] = node
            elif isinstance(node, ast.ClassDef):
                self.classes[node.name] = node
                for sub in node.body:
                    if isinstance(sub, ast.FunctionDef):
                        self.functions[f"{node.name}.{sub.name}"] = sub
            elif isinstance(node, (ast.Assign, ast.AnnAssign)):
                tgts = node.targets if isinstance(node, ast.Assign) else [node.target]
                for t in tgts:
                    if isinstance(t, ast.Name):
                        self.assigned_globals[t.id] = node

    def segment(self, node) -> str:
        return ast.get_source_segment(self.src, node) or ""


class Extractor:
    def __init__(self, repo: str = "/repo"):
        self.repo = repo
        self.modules: dict[str, Module] = {}
        for rel in cfg.MODULE_FILES:
            m = Module(repo, rel)
            self.modules[m.pyname] = m
        self.targets: list[tuple[str, str]] = list(cfg.TARGETS)  # (module pyname, qualname)
        self.needs_extra: set[str] = set()  # modules whose extracted code uses PyModel.Extra
        self.metas: dict[tuple[str, str], FnMeta] = {}
        self._analyse()

    # ------------------------------------------------------------------ names
    def lean_fn_name(self, module: str, qualname: str) -> str:
        short = module.split(".")[-1]
        return f"Tucan.{short}.{qualname}"

    def resolve_call(self, mod: Module, name: str):
        """Python name used as a callee in `mod` -> (module pyname, qualname) of an extracted function."""
        if name in mod.functions and (mod.pyname, name) in self.target_set:
            return (mod.pyname, name)
        if name in mod.imports:
            m, orig = mod.imports[name]
            if (m, orig) in self.target_set:
                return (m, orig)
        return None

    # --------------------------------------------------------------- analysis
    def _analyse(self):
        self.target_set = set(self.targets)
        # direct facts per function
        self.direct_mut: dict[tuple[str, str], set[str]] = {}
        self.calls: dict[tuple[str, str], list[tuple[tuple[str, str], ast.Call]]] = {}
        self.has_while: dict[tuple[str, str], bool] = {}
        self.has_rng: dict[tuple[str, str], bool] = {}
        for key in self.targets:
            mod = self.modules[key[0]]
            fn = mod.functions.get(key[1])
            if fn is None:
                continue
            params = [a.arg for a in fn.args.args]
            self.direct_mut[key] = direct_mutations(fn, params)
            cl = []
            for n in ast.walk(fn):
                if isinstance(n, ast.Call):
                    callee = None
                    if isinstance(n.func, ast.Name):
                        callee = self.resolve_call(mod, n.func.id)
                    elif isinstance(n.func, ast.Attribute) and isinstance(n.func.value, ast.Name) and n.func.value.id == "self":
                        cls = key[1].split(".")[0]
                        if (key[0], f"{cls}.{n.func.attr}") in self.target_set:
                            callee = (key[0], f"{cls}.{n.func.attr}")
                    if callee:
                        cl.append((callee, n))
            self.calls[key] = cl
            self.has_while[key] = any(isinstance(n, ast.While) for n in ast.walk(fn))
            self.has_rng[key] = any(isinstance(n, ast.Attribute) and isinstance(n.value, ast.Name) and n.value.id == "random"
                                    for n in ast.walk(fn))
        # fixpoints: mutated params, fuel, rng
        self.mut: dict[tuple[str, str], list[str]] = {}
        self.fuel = {k for k, v in self.has_while.items() if v}
        self.rng = {k for k, v in self.has_rng.items() if v}
        mutsets = {k: set(v) for k, v in self.direct_mut.items()}
        changed = True
        while changed:
            changed = False
            for key, cl in self.calls.items():
                fn = self.modules[key[0]].functions[key[1]]
                params = [a.arg for a in fn.args.args]
                for callee, call in cl:
                    if callee in self.fuel and key not in self.fuel:
                        self.fuel.add(key); changed = True
                    if callee in self.rng and key not in self.rng:
                        self.rng.add(key); changed = True
                    cfn = self.modules[callee[0]].functions.get(callee[1])
                    if cfn is None:
                        continue
                    cparams = [a.arg for a in cfn.args.args]
                    if cparams and cparams[0] == "self" and isinstance(call.func, ast.Attribute):
                        actuals = [call.func.value] + list(call.args)
                    else:
                        actuals = list(call.args)
                    for p, a in zip(cparams, actuals):
                        if p in mutsets.get(callee, ()) and isinstance(a, ast.Name) and a.id in params and a.id not in mutsets[key]:
                            mutsets[key].add(a.id); changed = True
        for key in self.targets:
            fn = self.modules[key[0]].functions.get(key[1])
            if fn is None:
                continue
            params = [a.arg for a in fn.args.args]
            self.mut[key] = [p for p in params if p in mutsets.get(key, ())]

    # -------------------------------------------------------------- extraction
    def extract_all(self) -> dict[str, str]:
        """Returns {lean module name -> text}; fills self.metas."""
        by_mod: dict[str, list[tuple[str, str]]] = {}
        for key in self.targets:
            by_mod.setdefault(key[0], []).append(key)
        out: dict[str, str] = {}
        out["Generated.Consts"] = self.emit_consts()
        for pyname, keys in by_mod.items():
            mod = self.modules[pyname]
            lean_mod = "Generated." + cfg.LEAN_MODULE_NAMES[pyname]
            imports = ["Generated.Consts"] + (["Spec.Records"] if cfg.STRUCTS.get(pyname) else [])
            for key in keys:
                for callee, _ in self.calls.get(key, []):
                    if callee[0] != pyname:
                        imp = "Generated." + cfg.LEAN_MODULE_NAMES[callee[0]]
                        if imp not in imports:
                            imports.append(imp)
            parts = ["-- GENERATED by vlib/extract.py from " + mod.relpath + " — do not edit",
                     *[f"import {i}" for i in imports],
                     "open Py", "set_option autoImplicit false", "set_option linter.unusedVariables false", ""]
            ns = f"Tucan.{mod.short}"
            parts.append(f"namespace {ns}\n")
            # classes that are state records
            for cname, sdef in cfg.STRUCTS.get(pyname, {}).items():
                parts.append(sdef + "\n")
            # order functions by call graph (callees first) within module
            ordered = self.order_in_module(keys)
            for key in ordered:
                meta = self.extract_fn(key)
                parts.append(meta.lean_text + "\n")
            if pyname in cfg.LISTENERS:
                parts.append(self.emit_listener_glue(pyname, keys))
            parts.append(f"end {ns}")
            text = "\n".join(parts) + "\n"
            if "PSet.add" in text or "(mkSet [])" in text:
                text = text.replace("import Generated.Consts\n", "import Generated.Consts\nimport PyModel.Extra\n", 1)
            out[lean_mod] = text
        return out

    def emit_listener_glue(self, pyname, keys) -> str:
        """dispatch table of the ANTLR listener (rule name -> overridden `enter*` method), generated
        from the class's method names, plus the composition `walk; to_graph` of `graph_from_tucan`."""
        cls = cfg.LISTENERS[pyname]
        mod = self.modules[pyname]
        cdef = mod.classes[cls]
        lines = [f"-- listener dispatch generated from the method names of class {cls}",
                 f"def {cls}.dispatchEnter (env : DepEnv) (self : {cls}) (ctx : PCtx) : M {cls} :=",
                 "  match ctx.self.rule with"]
        for sub in cdef.body:
            if isinstance(sub, ast.FunctionDef) and sub.name.startswith("exit"):
                raise Unsupported("listener overrides an exit* method")
            if isinstance(sub, ast.FunctionDef) and sub.name.startswith("enter"):
                rule = sub.name[5].lower() + sub.name[6:]
                if (pyname, f"{cls}.{sub.name}") not in self.target_set or self.metas[(pyname, f"{cls}.{sub.name}")].error:
                    raise Unsupported(f"listener method {sub.name} is not extracted")
                lines.append(f"  | \"{rule}\" => {cls}.{sub.name} env self ctx")
        lines.append("  | _ => pure self")
        lines.append("")
        lines.append(f"-- `_walk_tree` + `to_graph`: the hand-written part of graph_from_tucan after ANTLR has produced the tree")
        lines.append(f"def graph_from_tree (env : DepEnv) (tree : PTree) : M Graph := do")
        lines.append(f"  let listener ← PTree.walk ({cls}.dispatchEnter env) Option.none tree ({{}} : {cls})")
        lines.append(f"  let r ← {cls}.to_graph env listener")
        lines.append("  return r.1" if self.mut.get((pyname, f"{cls}.to_graph")) else "  return r")
        return "\n".join(lines) + "\n"

    def order_in_module(self, keys):
        keyset = set(keys)
        order, seen = [], set()

        def visit(k):
            if k in seen:
                return
            seen.add(k)
            for callee, _ in self.calls.get(k, []):
                if callee in keyset and callee != k:
                    visit(callee)
            order.append(k)

        for k in keys:
            visit(k)
        return order

    def extract_fn(self, key) -> FnMeta:
        mod = self.modules[key[0]]
        fn = mod.functions.get(key[1])
        lean_name = self.lean_fn_name(*key)
        if fn is None:
            meta = FnMeta(key[0], key[1], mod.relpath, 0, 0, "", lean_name, error="function not found in source")
            meta.lean_text = f"-- MISSING: {key[1]} not found in {mod.relpath}"
            self.metas[key] = meta
            return meta
        seg = mod.segment(fn)
        meta = FnMeta(key[0], key[1], mod.relpath, fn.lineno, fn.end_lineno, hashlib.sha256(seg.encode()).hexdigest(), lean_name)
        meta.mutated_params = self.mut.get(key, [])
        meta.uses_fuel = key in self.fuel
        meta.uses_rng = key in self.rng
        try:
            tr = FnTranslator(self, mod, key, fn, meta)
            meta.lean_text = tr.emit()
            meta.globals_read = sorted(tr.globals_read)
            meta.globals_written = sorted(tr.globals_written)
            meta.external_state = sorted(tr.external_state)
            meta.is_generator = tr.is_gen
        except Unsupported as e:
            meta.error = f"unsupported construct: {e}"
            meta.lean_text = f"-- EXTRACTION FAILED for {key[1]}: {meta.error}"
        except Exception as e:  # noqa: BLE001 — code outside the translation tables must not crash the checker
            meta.error = f"construct outside the translation tables ({type(e).__name__}: {e})"
            meta.lean_text = f"-- EXTRACTION FAILED for {key[1]}: {meta.error}".replace("\n", " ")
        self.metas[key] = meta
        return meta

    # ---------------------------------------------------------------- consts
    def emit_consts(self) -> str:
        """Module-level constants, evaluated by importing the modules from the working tree."""
        vals = load_constants(self.repo)
        lines = ["-- GENERATED by vlib/extract.py: module-level constants of /repo/tucan — do not edit",
                 "import PyModel.Ops", "open Py", "set_option autoImplicit false", "", "namespace Tucan.Consts", ""]
        self.const_names = {}
        for (pymod, name), ty in cfg.CONSTS.items():
            v = vals[(pymod, name)]
            lean = const_to_lean(v, ty)
            lines.append(f"def {mangle(name)} : {ty} := {lean}\n")
            self.const_names[(pymod, name)] = f"Tucan.Consts.{mangle(name)}"
        lines.append("end Tucan.Consts")
        return "\n".join(lines) + "\n"


def load_constants(repo: str) -> dict:
    """Evaluate the constant tables by executing the (pure-data) modules from the working tree."""
    out = {}
    saved = {k: v for k, v in sys.modules.items() if k == "tucan" or k.startswith("tucan.")}
    for k in saved:
        del sys.modules[k]
    sys.path.insert(0, repo)
    try:
        import importlib
        for (pymod, name) in cfg.CONSTS:
            m = importlib.import_module(pymod)
            out[(pymod, name)] = getattr(m, name)
    finally:
        sys.path.remove(repo)
        for k in [k for k in sys.modules if k == "tucan" or k.startswith("tucan.")]:
            del sys.modules[k]
        sys.modules.update(saved)
    return out


def const_to_lean(v, ty: str) -> str:
    ty = ty.strip()
    if ty == "String":
        return lean_key(v)
    if ty == "Str":
        return lean_str(v)
    if ty == "Int":
        return f"({v} : Int)"
    if ty == "Val":
        return val_to_lean(v)
    if ty == "Attrs":
        return "Dict.mk [" + ", ".join(f"({lean_key(k)}, {val_to_lean(x)})" for k, x in v.items()) + "]"
    m = re.fullmatch(r"List (.+)", ty)
    if m:
        inner = m.group(1).strip("()")
        return "[" + ", ".join(const_to_lean(x, inner) for x in v) + "]"
    m = re.fullmatch(r"Dict (\S+|\(.+?\)) (.+)", ty)
    if m:
        kt, vt = m.group(1).strip("()"), m.group(2).strip("()")
        return "Dict.mk [" + ",\n  ".join(f"({const_to_lean(k, kt)}, {const_to_lean(x, vt)})" for k, x in v.items()) + "]"
    raise Unsupported(f"constant type {ty}")


def val_to_lean(v) -> str:
    if isinstance(v, bool):
        return f"Val.bool {'true' if v else 'false'}"
    if isinstance(v, int):
        return f"Val.int ({v})"
    if isinstance(v, str):
        return f"Val.str ({lean_str(v)})"
    if v is None:
        return "Val.none"
    raise Unsupported(f"value {v!r}")


# ---------------------------------------------------------------------------
# (allowed numbers of positional arguments, allowed keyword names) of every builtin / library call the translation tables
# cover; a call outside its row is not silently approximated but refused (obligation cannot be generated)
CALL_SHAPES = {
    "sorted": ({1}, {"key", "reverse"}), "tuple": ({0, 1}, set()), "list": ({0, 1}, set()), "set": ({0, 1}, set()), "dict": ({0, 1}, set()),
    "zip": ({1, 2}, set()), "range": ({1, 2}, set()), "len": ({1}, set()), "max": ({1}, set()), "int": ({1}, set()), "float": ({1}, set()),
    "str": ({1}, set()), "enumerate": ({1, 2}, {"start"}), "reversed": ({1}, set()), "deque": ({0, 1}, set()), "Counter": ({1}, set()),
    ".get": ({1, 2}, set()), ".items": ({0}, set()), ".values": ({0}, set()), ".keys": ({0}, set()), ".copy": ({0}, set()),
    ".startswith": ({1}, set()), ".endswith": ({1}, set()), ".join": ({1}, set()), ".split": ({0, 1}, set()), ".splitlines": ({0}, set()),
    ".rstrip": ({0}, set()), ".strip": ({1}, set()), ".replace": ({2}, set()), ".append": ({1}, set()), ".extend": ({1}, set()),
    ".sort": ({0}, {"reverse"}), ".appendleft": ({1}, set()), ".extendleft": ({1}, set()), ".update": ({1}, set()), ".pop": ({0, 2}, set()), ".popleft": ({0}, set()),
    ".setdefault": ({2}, set()), ".add": ({1}, set()), ".neighbors": ({1}, set()), ".number_of_nodes": ({0}, set()), ".number_of_edges": ({0}, set()),
    ".edges": ({0}, {"data"}), ".nodes": ({0}, {"data"}), ".data": ({1}, set()), ".search": ({1}, set()), ".group": ({0}, set()),
    ".canonical_permutation": ({0}, {"color"}), ".permute_vertices": ({1}, set()), ".add_nodes_from": ({1}, set()), ".add_edges_from": ({1}, set()),
    "nx.Graph": ({0}, set()), "nx.get_node_attributes": ({2}, set()), "nx.relabel_nodes": ({2}, {"copy"}), "nx.convert_node_labels_to_integers": ({1}, set()),
    "nx.density": ({1}, set()), "nx.set_node_attributes": ({2, 3}, set()), "nx.set_edge_attributes": ({2}, set()), "iGraph.from_networkx": ({1}, set()),
    "random.seed": ({1}, set()), "random.shuffle": ({1}, set()), "re.compile": ({1}, set()), "nx.kamada_kawai_layout": ({1}, {"dim"}),
    ".getText": ({0}, set()), ".getChildCount": ({0}, set()), ".getChild": ({1}, set()), ".format": (set(range(0, 10)), set()), ".strftime": ({1}, set()),
}


def check_call_shape(e: ast.Call):
    f = e.func
    full = ast.unparse(f)
    key = None
    if isinstance(f, ast.Name) and f.id in CALL_SHAPES:
        key = f.id
    elif full in CALL_SHAPES:
        key = full
    elif isinstance(f, ast.Attribute) and "." + f.attr in CALL_SHAPES:
        key = "." + f.attr
    if key is None:
        return
    npos, kws = CALL_SHAPES[key]
    if any(isinstance(x, ast.Starred) for x in e.args):
        if key == "zip":
            return
        raise Unsupported(f"starred arguments in call of {full}")
    if len(e.args) not in npos or any((k.arg is None or k.arg not in kws) for k in e.keywords):
        raise Unsupported(f"call shape of {full} is outside the translation table: {len(e.args)} positional, keywords {[k.arg for k in e.keywords]}")


MUTATING_METHODS = {"append", "extend", "update", "pop", "popleft", "appendleft", "extendleft", "setdefault",
                    "add_nodes_from", "add_edges_from", "clear", "insert", "remove", "sort"}


def root_name(e):
    while isinstance(e, (ast.Subscript, ast.Attribute)):
        e = e.value
    return e.id if isinstance(e, ast.Name) else None


def direct_mutations(fn: ast.FunctionDef, params: list[str]) -> set[str]:
    """Parameters mutated directly in `fn` (syntactic)."""
    muts: set[str] = set()
    alias: dict[str, str] = {}  # loop variable -> container parameter it aliases
    for n in ast.walk(fn):
        if isinstance(n, ast.For):
            it = n.iter
            if isinstance(it, ast.Call) and isinstance(it.func, ast.Attribute) and it.func.attr in ("items", "values"):
                r = root_name(it.func.value)
                if r in params:
                    t = n.target
                    if it.func.attr == "items" and isinstance(t, ast.Tuple) and len(t.elts) == 2 and isinstance(t.elts[1], ast.Name):
                        alias[t.elts[1].id] = r
                    elif it.func.attr == "values" and isinstance(t, ast.Name):
                        alias[t.id] = r
    same: dict[str, str] = {}  # x = y (plain name aliasing)
    for n in ast.walk(fn):
        if isinstance(n, ast.Assign) and len(n.targets) == 1 and isinstance(n.targets[0], ast.Name) and isinstance(n.value, ast.Name):
            same[n.targets[0].id] = n.value.id

    def mark(name, depth=0):
        if name in params:
            muts.add(name)
        elif name in alias:
            muts.add(alias[name])
        elif name in same and depth < 10:
            mark(same[name], depth + 1)
    for n in ast.walk(fn):
        if isinstance(n, (ast.Assign, ast.AugAssign)):
            tgts = n.targets if isinstance(n, ast.Assign) else [n.target]
            for t in tgts:
                if isinstance(t, ast.Subscript):
                    r = root_name(t)
                    if r:
                        mark(r)
                elif isinstance(n, ast.AugAssign) and isinstance(t, ast.Name) and isinstance(n.op, ast.BitOr):
                    mark(t.id)  # dict |= is in-place
                elif isinstance(t, ast.Attribute) and isinstance(t.value, ast.Name) and t.value.id == "self":
                    mark("self")
        if isinstance(n, ast.Call) and isinstance(n.func, ast.Attribute) and n.func.attr in MUTATING_METHODS:
            r = root_name(n.func.value)
            if r:
                mark(r)
        if isinstance(n, ast.Call) and ast.unparse(n.func) in ("nx.set_node_attributes", "nx.set_edge_attributes"):
            if n.args and isinstance(n.args[0], ast.Name):
                mark(n.args[0].id)
    return muts


class FnTranslator:
    def __init__(self, ex: Extractor, mod: Module, key, fn: ast.FunctionDef, meta: FnMeta):
        self.ex, self.mod, self.key, self.fn, self.meta = ex, mod, key, fn, meta
        self.hints = cfg.HINTS.get(f"{mod.short}.{key[1]}", {})
        self.params = [a.arg for a in fn.args.args]
        self.is_method = bool(self.params) and self.params[0] == "self"
        self.is_gen = any(isinstance(n, (ast.Yield, ast.YieldFrom)) for n in ast.walk(fn))
        self.mutated = list(meta.mutated_params)
        self.declared: set[str] = set(self.params)
        self.graphs: set[str] = set()
        self.sets: set[str] = set()
        self.views: dict[str, tuple[str, ast.AST]] = {}  # name -> (graph var, attribute expr) for G.nodes.data(K)
        self.pre: list[str] = []
        self.tmp = 0
        self.globals_read: set[str] = set()
        self.globals_written: set[str] = set()
        self.external_state: set[str] = set()
        self.loop_alias: dict[str, tuple[str, str]] = {}  # value var -> (container, key var)
        self.alias: dict[str, ast.AST] = {}  # local name -> subscript expression it aliases (mutable element)
        self.name_alias: dict[str, str] = {}  # `x = y`: x refers to the same object as y
        self._writing_back = False
        self.expected: str | None = None
        self.in_lambda = 0
        for a in fn.args.args:
            if a.annotation is not None and ast.unparse(a.annotation) == "nx.Graph":
                self.graphs.add(a.arg)
        for g in self.hints.get("graphs", []):
            self.graphs.add(g)
        for n in ast.walk(fn):
            if isinstance(n, ast.Global):
                self.globals_written.update(n.names)

    # ---- helpers
    def fresh(self, base="t"):
        self.tmp += 1
        return f"{base}_{self.tmp}"

    def atom(self, s: str) -> str:
        s = s.strip()
        if re.fullmatch(r"[A-Za-z_][A-Za-z0-9_.!?']*", s) or (s.startswith("(") and matching_paren(s)) or \
           (s.startswith("[") and s.endswith("]") and matching_paren(s)) or s.startswith('py!"') and s.count('"') == 2 \
           or re.fullmatch(r'"[^"]*"', s):
            return s
        return f"({s})"

    def e(self, node) -> str:
        return self.atom(self.expr(node))

    def is_graph(self, e) -> bool:
        if isinstance(e, ast.Name):
            return e.id in self.graphs
        if isinstance(e, ast.Call):
            s = ast.unparse(e.func)
            if s in ("nx.relabel_nodes", "nx.Graph", "nx.convert_node_labels_to_integers") or s.endswith(".copy") and self.is_graph(e.func.value):
                return True
            if isinstance(e.func, ast.Name):
                callee = self.ex.resolve_call(self.mod, e.func.id)
                if callee:
                    cfn = self.ex.modules[callee[0]].functions.get(callee[1])
                    if cfn is not None and cfn.returns is not None and ast.unparse(cfn.returns) == "nx.Graph":
                        return True
        return False

    def const_ref(self, name: str):
        """Name -> Lean term if it is a known module-level constant visible in this module."""
        # graph attribute keys
        if name in self.mod.imports:
            m, orig = self.mod.imports[name]
        elif name in self.mod.assigned_globals:
            m, orig = self.mod.pyname, name
        else:
            return None
        if m == "tucan.graph_attributes":
            v = cfg.graph_attribute_value(self.ex.repo, orig)
            if v is not None:
                self.globals_read.add(f"{m}.{orig}")
                return lean_key(v)
        if (m, orig) in cfg.CONSTS:
            self.globals_read.add(f"{m}.{orig}")
            return f"Tucan.Consts.{mangle(orig)}"
        return None

    # ---- expressions
    def expr(self, e) -> str:
        w = self.hints.get("wrap", {}).get(ast.unparse(e)) if not isinstance(e, ast.Name) else None
        if w and not getattr(e, "_wrapped", False):
            e._wrapped = True
            return f"({w} {self.e(e)})"
        return self.expr0(e)

    def expr0(self, e) -> str:
        if isinstance(e, ast.Name):
            if e.id in self.declared:
                return mangle(e.id)
            c = self.const_ref(e.id)
            if c is not None:
                return c
            if e.id in ("True", "False"):
                return e.id.lower()
            if e.id in ("lt", "gt", "eq") :
                return {"lt": "(fun a b => pyLt a b)", "gt": "(fun a b => pyGt a b)", "eq": "(fun a b => pyEq a b)"}[e.id]
            if e.id in self.mod.assigned_globals or e.id in self.mod.imports:
                raise Unsupported(f"module-level name {e.id} is not in the constants table")
            return mangle(e.id)
        if isinstance(e, ast.Constant):
            v = e.value
            if isinstance(v, bool):
                return "true" if v else "false"
            if isinstance(v, int):
                return f"({v} : Int)"
            if isinstance(v, str):
                return lean_str(v)
            if v is None:
                return "Option.none"
            raise Unsupported(f"constant {v!r}")
        if isinstance(e, ast.JoinedStr):
            parts = []
            for v in e.values:
                if isinstance(v, ast.Constant):
                    if v.value != "":
                        parts.append(lean_str(v.value))
                elif isinstance(v, ast.FormattedValue):
                    parts.append(self.formatted(v))
            if not parts:
                return 'py!""'
            return "(" + " ++ ".join(parts) + ")"
        if isinstance(e, ast.Tuple) and len(e.elts) == 2 and isinstance(e.elts[1], ast.Starred) and not isinstance(e.elts[0], ast.Starred):
            # `(a, *b)` is the same tuple as `tuple([a] + b)`: same translation
            return self.expr(ast.Call(func=ast.Name(id="tuple", ctx=ast.Load()),
                                      args=[ast.BinOp(left=ast.List(elts=[e.elts[0]], ctx=ast.Load()), op=ast.Add(), right=e.elts[1].value)], keywords=[]))
        if isinstance(e, ast.Tuple):
            if len(e.elts) == 1:
                return f"[{self.expr(e.elts[0])}]"
            return "(" + ", ".join(self.expr(x) for x in e.elts) + ")"
        if isinstance(e, ast.List):
            ty = self.hints.get("empty_list")
            return "[" + ", ".join(self.expr(x) for x in e.elts) + "]"
        if isinstance(e, ast.Dict):
            return self.dict_literal(e)
        if isinstance(e, ast.BinOp):
            l, r = self.e(e.left), self.e(e.right)
            if isinstance(e.op, ast.Add):
                return f"(pyAdd {l} {r})"
            if isinstance(e.op, ast.Sub):
                return f"({l} - {r})"
            if isinstance(e.op, ast.Mult):
                return f"({l} * {r})"
            raise Unsupported("binop " + type(e.op).__name__)
        if isinstance(e, ast.UnaryOp):
            if isinstance(e.op, ast.Not):
                o = e.operand
                flip = {ast.Eq: ast.NotEq, ast.NotEq: ast.Eq, ast.Lt: ast.GtE, ast.GtE: ast.Lt, ast.Gt: ast.LtE, ast.LtE: ast.Gt,
                        ast.In: ast.NotIn, ast.NotIn: ast.In, ast.Is: ast.IsNot, ast.IsNot: ast.Is}
                if isinstance(o, ast.Compare) and len(o.ops) == 1 and type(o.ops[0]) in flip:
                    # `not a == b` and `a != b` (etc.) are the same test: one canonical translation for both spellings
                    return self.compare(ast.Compare(left=o.left, ops=[flip[type(o.ops[0])]()], comparators=o.comparators))
                return f"(!{self.cond(e.operand)})"
            if isinstance(e.op, ast.USub):
                if isinstance(e.operand, ast.Constant) and isinstance(e.operand.value, int):
                    return f"(-{e.operand.value} : Int)"
                return f"(-{self.e(e.operand)})"
            raise Unsupported("unaryop")
        if isinstance(e, ast.BoolOp):
            return self.boolop(e)
        if isinstance(e, ast.Compare):
            return self.compare(e)
        if isinstance(e, ast.IfExp):
            c = self.cond(e.test)
            a, b = self.expr(e.body), self.expr(e.orelse)
            if self.hints.get("ifexp_toVal") and not isinstance(e.body, ast.JoinedStr):
                a, b = f"(toVal {self.atom(a)})", f"(toVal {self.atom(b)})"
            if "←" in a or "←" in b:
                return f"(← (if {c} then (do pure {self.atom(a)}) else (do pure {self.atom(b)})))"
            return f"(if {c} then {a} else {b})"
        if isinstance(e, ast.NamedExpr):
            name = e.target.id
            v = self.expr(e.value)
            kw = "" if name in self.declared else "let mut "
            self.declared.add(name)
            self.pre.append(f"{kw}{mangle(name)} := {v}")
            return mangle(name)
        if isinstance(e, ast.Subscript):
            return self.subscript(e)
        if isinstance(e, (ast.ListComp, ast.GeneratorExp)):
            return self.comprehension(e)
        if isinstance(e, ast.DictComp):
            return self.dictcomp(e)
        if isinstance(e, ast.Call):
            return self.call(e)
        if isinstance(e, ast.Attribute):
            return self.attribute(e)
        if isinstance(e, ast.Lambda):
            args = " ".join(mangle(a.arg) for a in e.args.args)
            old = set(self.declared)
            self.declared |= {a.arg for a in e.args.args}
            body = self.expr(e.body)
            self.declared = old
            if "←" in body:
                raise Unsupported("effectful lambda")
            return f"(fun {args} => {body})"
        raise Unsupported(type(e).__name__ + ": " + ast.unparse(e)[:80])

    def formatted(self, v: ast.FormattedValue) -> str:
        spec = None
        if v.format_spec is not None:
            spec = "".join(x.value for x in v.format_spec.values if isinstance(x, ast.Constant))
        inner = self.e(v.value)
        if spec is None:
            return f"pyStr {inner}"
        if spec == ".6f":
            return f"env.fmt6 (toVal {inner})"
        m = re.fullmatch(r"(.)([<>])(\d+)", spec)
        if m:
            fn = "padRight" if m.group(2) == "<" else "padLeft"
            return f"{fn} (pyStr {inner}) {m.group(3)} {lean_char(m.group(1))}"
        raise Unsupported(f"format spec {spec!r}")

    def dict_literal(self, e: ast.Dict) -> str:
        if not e.keys:
            ty = self.hints.get("dict_literal_type")
            return f"(Dict.empty : {ty})" if ty else "Dict.empty"
        pairs = []
        attrs_like = all(self.is_attr_key(k) for k in e.keys) and (self.expected in (None, "Attrs"))
        for k, v in zip(e.keys, e.values):
            vs = self.e(v)
            if attrs_like:
                vs = f"toVal {vs}"
            pairs.append(f"({self.expr(k)}, {vs})")
        s = "Dict.ofPairs [" + ", ".join(pairs) + "]"
        return f"({s} : Attrs)" if attrs_like else f"({s})"

    def is_attr_key(self, k) -> bool:
        if isinstance(k, ast.Name) and k.id not in self.declared:
            c = self.const_ref(k.id)
            return c is not None and c.startswith('"')
        if isinstance(k, ast.Name) and k.id in self.hints.get("attr_key_vars", []):
            return True
        return False

    def cond(self, e) -> str:
        """expression in boolean context"""
        if isinstance(e, ast.Compare) or (isinstance(e, ast.UnaryOp) and isinstance(e.op, ast.Not)) or isinstance(e, ast.BoolOp):
            return self.expr(e)
        if isinstance(e, ast.Constant) and isinstance(e.value, bool):
            return "true" if e.value else "false"
        if isinstance(e, ast.Call):
            f = e.func
            if isinstance(f, ast.Attribute) and f.attr in ("startswith", "endswith"):
                return self.expr(e)
            if isinstance(f, ast.Name) and f.id in ("priority",) :
                return self.expr(e)
        return f"(truthy {self.e(e)})"

    def boolop(self, e: ast.BoolOp) -> str:
        op = "&&" if isinstance(e.op, ast.And) else "||"
        parts = [self.cond(v) for v in e.values]
        if any("←" in p for p in parts[1:]):
            # keep short-circuit evaluation of effectful operands
            acc = parts[-1]
            for p in reversed(parts[:-1]):
                if op == "&&":
                    acc = f"(← (if {p} then (do pure {self.atom(acc)}) else pure false))"
                else:
                    acc = f"(← (if {p} then pure true else (do pure {self.atom(acc)})))"
            return acc
        return "(" + f" {op} ".join(parts) + ")"

    def compare(self, e: ast.Compare) -> str:
        parts = []
        left = e.left
        for op, right in zip(e.ops, e.comparators):
            l, r = self.e(left), self.e(right)
            if isinstance(op, (ast.Is, ast.IsNot)) and isinstance(right, ast.Constant) and right.value is None:
                s = f"(isNone {l})"
                parts.append(s if isinstance(op, ast.Is) else f"(!{s})")
            elif isinstance(op, ast.In):
                parts.append(self.contains(left, right))
            elif isinstance(op, ast.NotIn):
                parts.append(f"(!{self.contains(left, right)})")
            else:
                fn = {ast.Eq: "pyEq", ast.NotEq: "pyNe", ast.Lt: "pyLt", ast.LtE: "pyLe", ast.Gt: "pyGt", ast.GtE: "pyGe"}.get(type(op))
                if fn is None:
                    raise Unsupported("compare op " + type(op).__name__)
                # nx.density(G) != 1
                if isinstance(left, ast.Call) and ast.unparse(left.func) == "nx.density" and isinstance(right, ast.Constant) and right.value == 1 and fn in ("pyNe", "pyEq"):
                    s = f"(Graph.densityNeOne {self.e(left.args[0])})"
                    parts.append(s if fn == "pyNe" else f"(!{s})")
                    left = right
                    continue
                # edge views
                if isinstance(left, ast.Attribute) and left.attr == "edges" and isinstance(right, ast.Attribute) and right.attr == "edges":
                    s = f"(Graph.edgesEq {self.e(left.value)} {self.e(right.value)})"
                    parts.append(s if fn == "pyEq" else f"(!{s})")
                elif fn in ("pyEq", "pyNe") and (re.fullmatch(r'"[^"]*"', l) or re.fullmatch(r'"[^"]*"', r)):
                    # comparison with an attribute key (keys are Lean `String`s, not Python strings of the model)
                    s = f"(decide ({l} = {r}))"
                    parts.append(s if fn == "pyEq" else f"(!{s})")
                else:
                    parts.append(f"({fn} {l} {r})")
            left = right
        return parts[0] if len(parts) == 1 else "(" + " && ".join(parts) + ")"

    def contains(self, left, right) -> str:
        return f"(pyContains {self.e(left)} {self.e(right)})"

    def graph_nodes_subscript(self, e: ast.Subscript):
        """m.nodes[a]  -> node attrs;  view[a] for view = m.nodes.data(K)"""
        v = e.value
        if isinstance(v, ast.Attribute) and v.attr == "nodes" and self.is_graph(v.value):
            return f"(← Graph.nodeAttrs {self.e(v.value)} {self.e(e.slice)})"
        if isinstance(v, ast.Name) and v.id in self.views:
            g, k = self.views[v.id]
            return f"(← Graph.nodeDataGet {mangle(g)} {self.e(k)} {self.e(e.slice)})"
        return None

    def subscript(self, e: ast.Subscript) -> str:
        s = self.graph_nodes_subscript(e)
        if s:
            return s
        v = e.value
        if isinstance(v, ast.Attribute) and v.attr == "vs":
            key = e.slice
            if isinstance(key, ast.Constant) and key.value == "_nx_name":
                return f"(IGraph.vsNames {self.e(v.value)})"
            return f"(IGraph.vsAttr {self.e(v.value)} {self.e(key)})"
        if isinstance(e.slice, ast.Slice):
            sl = e.slice
            if sl.step is not None:
                raise Unsupported("slice step")
            lo = f"(some {self.e(sl.lower)})" if sl.lower is not None else "Option.none"
            hi = f"(some {self.e(sl.upper)})" if sl.upper is not None else "Option.none"
            return f"(slice {self.e(v)} {lo} {hi})"
        return f"(← getItem {self.e(v)} {self.e(e.slice)})"

    def pattern(self, t) -> str:
        if isinstance(t, ast.Name):
            return "_" if t.id == "_" else mangle(t.id)
        if isinstance(t, ast.Tuple):
            return "(" + ", ".join(self.pattern(x) for x in t.elts) + ")"
        raise Unsupported("pattern " + ast.unparse(t))

    def pattern_names(self, t) -> list[str]:
        """names bound by a target pattern, in source order (deterministic: never iterate a Python set here)"""
        out: list[str] = []
        for n in ast.walk(t):
            if isinstance(n, ast.Name) and n.id != "_" and n.id not in out:
                out.append(n.id)
        return out

    def iter_expr(self, e) -> str:
        """iterable -> Lean list"""
        if isinstance(e, ast.Name) and e.id in self.sets:
            return f"(env.setOrder (PSet.elems {mangle(e.id)}))"
        if isinstance(e, ast.Call) and isinstance(e.func, ast.Name) and e.func.id == "reversed":
            return f"(List.reverse {self.atom(self.iter_expr(e.args[0]))})"
        if isinstance(e, ast.Call) and isinstance(e.func, ast.Name) and e.func.id == "set":
            return f"(env.setOrder (PSet.elems {self.e(e)}))"
        if isinstance(e, ast.Call) and isinstance(e.func, ast.Attribute) and e.func.attr == "items":
            return f"(Dict.items {self.e(e.func.value)})"
        if isinstance(e, ast.Call) and isinstance(e.func, ast.Attribute) and e.func.attr == "values":
            return f"(Dict.values {self.e(e.func.value)})"
        if isinstance(e, ast.Call) and isinstance(e.func, ast.Attribute) and e.func.attr == "keys":
            return f"(Dict.keys {self.e(e.func.value)})"
        if isinstance(e, ast.Attribute) and e.attr == "children":
            return self.expr(e)
        if isinstance(e, (ast.Name, ast.Attribute, ast.Subscript)) or isinstance(e, ast.Call):
            return f"(pyIter {self.e(e)})"
        return f"(pyIter {self.e(e)})"

    def comprehension(self, e) -> str:
        if len(e.generators) > 1:
            # [elt for a in A for b in B(a)] is the concatenation of the inner comprehensions
            inner = ast.ListComp(elt=e.elt, generators=e.generators[1:])
            outer = ast.ListComp(elt=inner, generators=[e.generators[0]])
            return f"(List.flatten {self.comprehension(outer)})"
        g = e.generators[0]
        it = self.iter_expr(g.iter)
        tgt = self.pattern(g.target)
        saved_pre, saved_decl = self.pre, set(self.declared)
        self.pre = []
        self.declared |= set(self.pattern_names(g.target))
        self.in_lambda += 1
        conds = [self.cond(c) for c in g.ifs]
        cond_pre = self.pre
        self.pre = []
        elt = self.expr(e.elt)
        elt_pre = self.pre
        self.in_lambda -= 1
        self.pre, self.declared = saved_pre, saved_decl
        body = "; ".join(elt_pre + [f"return some {self.atom(elt)}"])
        if conds:
            c = " && ".join(conds)
            body = "; ".join(cond_pre + [f"if {c} then (do {body}) else return Option.none"])
        elif cond_pre:
            body = "; ".join(cond_pre + [body])
        return f"(← listComp {it} (fun {tgt} => do {body}))"

    def dictcomp(self, e: ast.DictComp) -> str:
        if len(e.generators) != 1:
            raise Unsupported("nested dict comprehension")
        g = e.generators[0]
        if not g.ifs and isinstance(g.target, ast.Tuple) and len(g.target.elts) == 2 and all(isinstance(x, ast.Name) for x in g.target.elts) \
                and isinstance(e.key, ast.Name) and isinstance(e.value, ast.Name) and e.key.id == g.target.elts[0].id and e.value.id == g.target.elts[1].id \
                and e.key.id != e.value.id:
            # `{k: v for k, v in pairs}` is `dict(pairs)`: same translation
            return self.expr(ast.Call(func=ast.Name(id="dict", ctx=ast.Load()), args=[g.iter], keywords=[]))
        fake = ast.ListComp(elt=ast.Tuple(elts=[e.key, e.value], ctx=ast.Load()), generators=e.generators)
        # value coercion for attribute dicts is left to hints
        ty = self.hints.get("dictcomp_type")
        s = f"(Dict.ofPairs {self.comprehension(fake)})"
        return f"({s} : {ty})" if ty else s

    def attribute(self, e: ast.Attribute) -> str:
        v = e.value
        if isinstance(v, ast.Name) and v.id == "self":
            return f"self.{mangle(e.attr)}"
        if e.attr == "nodes" and self.is_graph(v):
            return f"(Graph.nodeList {self.e(v)})"
        if e.attr == "edges" and self.is_graph(v):
            return f"(Graph.edges {self.e(v)})"
        if e.attr in ("key", "default_value") :
            return f"{self.e(v)}.{mangle(e.attr)}"
        if e.attr == "children":
            return f"(PCtx.children {self.e(v)})"
        if e.attr == "parentCtx":
            return f"(← PCtx.parentCtx {self.e(v)})"
        if ast.unparse(e) == "tucan.__version__":
            self.external_state.add("tucan.__version__")
            return "env.version"
        raise Unsupported("attribute " + ast.unparse(e))

    # ---- calls
    def call(self, e: ast.Call) -> str:
        check_call_shape(e)
        f = ast.unparse(e.func)
        a = e.args
        kw = {k.arg: k.value for k in e.keywords}
        # extracted functions
        callee = None
        actuals = list(a)
        if isinstance(e.func, ast.Name):
            callee = self.ex.resolve_call(self.mod, e.func.id)
        elif isinstance(e.func, ast.Attribute) and isinstance(e.func.value, ast.Name) and e.func.value.id == "self":
            cls = self.key[1].split(".")[0]
            if (self.key[0], f"{cls}.{e.func.attr}") in self.ex.target_set:
                callee = (self.key[0], f"{cls}.{e.func.attr}")
                actuals = [e.func.value] + actuals
        if callee:
            return self.call_extracted(callee, actuals, kw)
        if isinstance(e.func, ast.Name):
            return self.call_builtin(e.func.id, e, a, kw)
        if isinstance(e.func, ast.Attribute):
            return self.call_method(e, a, kw)
        raise Unsupported("call " + f)

    def call_extracted(self, callee, actuals, kw) -> str:
        cfn = self.ex.modules[callee[0]].functions[callee[1]]
        cparams = [x.arg for x in cfn.args.args]
        # defaults
        args = list(actuals)
        defaults = cfn.args.defaults
        ndef = len(defaults)
        for i, p in enumerate(cparams):
            if i < len(args):
                continue
            if p in kw:
                args.append(kw[p])
            else:
                d = defaults[i - (len(cparams) - ndef)]
                args.append(d)
        lean = self.ex.lean_fn_name(*callee)
        pieces = [lean, "env"]
        if callee in self.ex.fuel:
            pieces.append("fuel")
        if callee in self.ex.rng:
            pieces.append("rng")
        # default-argument expressions are translated in the callee's module context; only simple ones occur
        chints = cfg.HINTS.get(f"{callee[0].split('.')[-1]}.{callee[1]}", {}).get("params", {})
        for p, x in zip(cparams, args):
            if isinstance(x, ast.Tuple) and "List" in chints.get(p, ""):
                pieces.append("[" + ", ".join(self.expr(y) for y in x.elts) + "]")
            else:
                pieces.append(self.e(x))
        call = " ".join(pieces)
        cmut = self.ex.mut.get(callee, [])
        returns_none = cfn.returns is None and not any(isinstance(n, ast.Return) and n.value is not None for n in ast.walk(cfn)) \
            or (cfn.returns is not None and ast.unparse(cfn.returns) == "None")
        outs = []
        if not returns_none:
            outs.append("ret")
        for p in cmut:
            outs.append(p)
        if callee in self.ex.rng:
            outs.append("rng")
        if not cmut and callee not in self.ex.rng:
            return f"(← {call})"
        if self.in_lambda:
            raise Unsupported("call of a mutating function inside a comprehension")
        # bind results, write back mutated actuals
        names = []
        for o in outs:
            if o == "ret":
                names.append(self.fresh("r"))
            elif o == "rng":
                names.append("rng'")
            else:
                names.append(self.fresh(o))
        pat = names[0] if len(names) == 1 else "(" + ", ".join(names) + ")"
        self.pre.append(f"let {pat} ← {call}")
        for o, n in zip(outs, names):
            if o == "ret":
                continue
            if o == "rng":
                self.pre.append("rng := rng'")
                continue
            actual = args[cparams.index(o)]
            self.pre.extend(self.assign_to(actual, n))
        return names[0] if outs and outs[0] == "ret" else "()"

    def assign_to(self, target, value: str, rebind: bool = False) -> list[str]:
        """statements for `target = value` where target is a Name / Subscript / self.attr.
        `rebind=True`: a Python assignment statement (the name is bound to a new object); otherwise the
        update models an in-place mutation of the object the name refers to, which is propagated to
        every name known to refer to the same object (`x = y` aliases)."""
        if isinstance(target, ast.Name):
            if rebind:
                self.name_alias.pop(target.id, None)
                for k in [k for k, v in self.name_alias.items() if v == target.id]:
                    del self.name_alias[k]
            if target.id not in self.declared:
                if not rebind and (target.id in self.mod.assigned_globals or target.id in self.mod.imports):
                    raise Unsupported(f"in-place mutation of module-level object {target.id}")
                if target.id in self.globals_written:
                    raise Unsupported(f"assignment to global {target.id}")
                self.declared.add(target.id)
                return [f"let mut {mangle(target.id)} := {value}"]
            if rebind and target.id in getattr(self, "val_lifted", set()):
                value = f"(toVal {value})"
            out = [f"{mangle(target.id)} := {value}"]
            if not rebind:
                seen = {target.id}
                cur = target.id
                while cur in self.name_alias and self.name_alias[cur] not in seen:
                    cur = self.name_alias[cur]
                    seen.add(cur)
                    out.append(f"{mangle(cur)} := {mangle(target.id)}")
                for k, v in self.name_alias.items():
                    if v in seen and k not in seen:
                        seen.add(k)
                        out.append(f"{mangle(k)} := {mangle(target.id)}")
            if target.id in self.loop_alias:
                cont, keyv = self.loop_alias[target.id]
                out.append(f"{mangle(cont)} ← setItem {mangle(cont)} {mangle(keyv)} {mangle(target.id)}")
            elif target.id in self.alias and not self._writing_back:
                self._writing_back = True
                out += self.assign_to(self.alias[target.id], mangle(target.id))
                self._writing_back = False
            return out
        if isinstance(target, ast.Attribute) and isinstance(target.value, ast.Name) and target.value.id == "self":
            return [f"self := {{ self with {mangle(target.attr)} := {value} }}"]
        if isinstance(target, ast.Subscript):
            v = target.value
            # m.nodes[a][K] = x
            if isinstance(v, ast.Subscript) and isinstance(v.value, ast.Attribute) and v.value.attr == "nodes" and self.is_graph(v.value.value):
                g = v.value.value
                assert isinstance(g, ast.Name)
                return [f"{mangle(g.id)} ← Graph.setNodeAttr1 {mangle(g.id)} {self.e(v.slice)} {self.e(target.slice)} (toVal {self.atom(value)})"]
            inner = f"(← setItem {self.e(v)} {self.e(target.slice)} {self.atom(value)})"
            return self.assign_to(v, inner)
        raise Unsupported("assignment target " + ast.unparse(target))

    def call_builtin(self, name: str, e, a, kw) -> str:
        if name == "sorted":
            inner = a[0]
            rev = kw.get("reverse") is not None and ast.unparse(kw["reverse"]) == "True"
            if "key" in kw:
                if rev:
                    raise Unsupported("sorted key+reverse")
                k = kw["key"]
                if isinstance(k, ast.Lambda):
                    old = set(self.declared)
                    self.declared |= {x.arg for x in k.args.args}
                    body = self.expr(k.body)
                    self.declared = old
                    args = " ".join(mangle(x.arg) for x in k.args.args)
                    return f"(← sortedByKeyM {self.atom(self.as_list(inner))} (fun {args} => do pure {self.atom(body)}))"
                return f"(sortedKey {self.e(k)} {self.atom(self.as_list(inner))})"
            return f"({'sortedRev' if rev else 'sorted'} {self.atom(self.as_list(inner))})"
        if name in ("tuple", "list"):
            if not a:
                return "[]"
            x = a[0]
            if name == "tuple" and isinstance(x, ast.GeneratorExp) and self.hints.get("tuple_is_val"):
                return f"(Val.mkTup {self.atom(self.comprehension(x))})"
            return self.as_list(x)
        if name == "set":
            if not a:
                return "(mkSet [])"
            return f"(mkSet {self.atom(self.as_list(a[0]))})"
        if name == "dict":
            if not a:
                return self.dict_literal(ast.Dict(keys=[], values=[]))
            x = a[0]
            return f"(Dict.ofPairs {self.atom(self.as_list(x))})"
        if name == "zip":
            if len(a) == 1 and isinstance(a[0], ast.Starred):
                return f"(List.unzip {self.atom(self.as_list(a[0].value))})"
            if len(a) == 2:
                return f"(zip {self.atom(self.as_list(a[0]))} {self.atom(self.as_list(a[1]))})"
            raise Unsupported("zip arity")
        if name == "range":
            if len(a) == 1:
                return f"(range {self.e(a[0])})"
            if len(a) == 2:
                return f"(range2 {self.e(a[0])} {self.e(a[1])})"
            raise Unsupported("range step")
        if name == "len":
            x = a[0]
            if isinstance(x, ast.Attribute) and x.attr == "nodes" and self.is_graph(x.value):
                return f"(Graph.numberOfNodes {self.e(x.value)})"
            return f"(pyLen {self.e(x)})"
        if name == "max":
            return f"(← maxOf {self.atom(self.as_list(a[0]))})"
        if name == "int":
            return f"(← parseInt {self.e(a[0])})"
        if name == "float":
            self.external_state.add("float parsing (DepEnv.parseFloat)")
            return f"(← env.parseFloat {self.e(a[0])})"
        if name == "str":
            return f"(pyStr {self.e(a[0])})"
        if name == "enumerate":
            start = self.e(kw["start"]) if "start" in kw else (self.e(a[1]) if len(a) == 2 else "(0 : Int)")
            return f"(enumerate {self.atom(self.as_list(a[0]))} {start})"
        if name == "reversed":
            return f"(List.reverse {self.atom(self.as_list(a[0]))})"
        if name == "deque":
            return self.as_list(a[0]) if a else "[]"
        if name == "Counter":
            return f"(counter {self.atom(self.as_list(a[0]))})"
        if name in cfg.RECORD_CTORS:
            fields = cfg.RECORD_CTORS[name]
            vals = []
            for i, (fname, dflt) in enumerate(fields):
                if i < len(a):
                    vals.append(f"{fname} := {self.wrap_field(fname, a[i], name)}")
                elif fname in kw:
                    vals.append(f"{fname} := {self.wrap_field(fname, kw[fname], name)}")
                else:
                    vals.append(f"{fname} := {dflt}")
            return "({ " + ", ".join(vals) + f" }} : {name})"
        if name in cfg.EXCEPTIONS:
            return f'(Err.custom "{name}")'
        if name in self.declared:
            # call of a local function value (e.g. `priority(a, b)`)
            return f"({mangle(name)} {' '.join(self.e(x) for x in a)})"
        raise Unsupported("builtin/callee " + name)

    def wrap_field(self, fname, node, ctor) -> str:
        w = cfg.RECORD_FIELD_WRAP.get((ctor, fname))
        s = self.e(node)
        return f"{w} {s}" if w else s

    def as_list(self, x) -> str:
        """translate an iterable-valued expression into a Lean list"""
        w = self.hints.get("wrap", {}).get(ast.unparse(x)) if not isinstance(x, ast.Name) else None
        if w and not getattr(x, "_wrapped", False):
            x._wrapped = True
            return f"({w} {self.atom(self.as_list(x))})"
        return self.as_list0(x)

    def as_list0(self, x) -> str:
        if isinstance(x, (ast.ListComp, ast.GeneratorExp)):
            return self.comprehension(x)
        if isinstance(x, ast.Call):
            f = x.func
            if isinstance(f, ast.Name) and f.id in ("list", "tuple", "sorted", "zip", "range", "enumerate", "reversed", "deque"):
                return self.expr(x)
            if isinstance(f, ast.Name) and f.id == "set":
                return f"(env.setOrder (PSet.elems {self.e(x)}))"
            if isinstance(f, ast.Attribute) and f.attr in ("items", "values", "keys", "neighbors", "edges", "nodes", "data", "split", "splitlines"):
                return self.iter_expr(x) if f.attr in ("items", "values", "keys") else self.expr(x)
        if isinstance(x, ast.Name) and x.id in self.sets:
            return f"(env.setOrder (PSet.elems {mangle(x.id)}))"
        if self.is_graph(x):
            return f"(Graph.nodeList {self.e(x)})"
        if isinstance(x, ast.Attribute) and x.attr in ("nodes", "edges"):
            return self.expr(x)
        return self.iter_expr(x)

    def call_method(self, e: ast.Call, a, kw) -> str:
        f = e.func
        recv = f.value
        attr = f.attr
        full = ast.unparse(f)
        # --- networkx module functions
        if full == "nx.Graph":
            return "Graph.empty"
        if full == "nx.get_node_attributes":
            return f"(Graph.getNodeAttributes {self.e(a[0])} {self.e(a[1])})"
        if full == "nx.relabel_nodes":
            if ast.unparse(kw.get("copy", ast.Constant(True))) != "True":
                raise Unsupported("relabel_nodes(copy=False)")
            return f"(Graph.relabelCopy {self.e(a[0])} {self.e(a[1])})"
        if full == "nx.convert_node_labels_to_integers":
            if len(a) != 1 or kw:
                raise Unsupported("convert_node_labels_to_integers with options")
            return f"(Graph.convertNodeLabelsToIntegers {self.e(a[0])})"
        if full == "nx.density":
            return f"(Graph.density1 {self.e(a[0])})"
        if full == "iGraph.from_networkx":
            self.external_state.add("igraph")
            return f"(IGraph.fromNetworkx {self.e(a[0])})"
        if full == "random.seed":
            return "RNGSEED"
        if full in ("re.compile",):
            raise Unsupported("re.compile outside the ENDPTS idiom")
        # --- graph methods
        if self.is_graph(recv):
            g = self.e(recv)
            if attr == "neighbors":
                return f"(← Graph.neighbors {g} {self.e(a[0])})"
            if attr == "copy":
                return f"(Graph.copy {g})"
            if attr == "number_of_nodes":
                return f"(Graph.numberOfNodes {g})"
            if attr == "number_of_edges":
                return f"(Graph.numberOfEdges {g})"
            if attr == "edges":
                if ast.unparse(kw.get("data", ast.Constant(False))) == "True":
                    return f"(Graph.edgesData {g})"
                if kw or a:
                    raise Unsupported("edges(...) options")
                return f"(Graph.edges {g})"
            if attr == "nodes":
                d = kw.get("data")
                if d is None and not a:
                    return f"(Graph.nodeList {g})"
                if d is not None and ast.unparse(d) == "True":
                    return f"(Graph.nodesData {g})"
                if d is not None:
                    return f"(Graph.nodesDataKey {g} {self.e(d)})"
                raise Unsupported("nodes(...) options")
            raise Unsupported("graph method " + attr)
        if isinstance(recv, ast.Attribute) and recv.attr == "nodes" and self.is_graph(recv.value) and attr == "data":
            return f"(Graph.nodesDataKey {self.e(recv.value)} {self.e(a[0])})"
        if isinstance(recv, ast.Attribute) and recv.attr == "nodes" and self.is_graph(recv.value) and attr == "items":
            return f"(Graph.nodesData {self.e(recv.value)})"
        # --- igraph
        if attr == "canonical_permutation":
            self.external_state.add("igraph/bliss")
            return f"(env.canonicalPermutation {self.e(recv)} {self.e(kw['color'])})"
        if attr == "permute_vertices":
            return f"(env.permuteVertices {self.e(recv)} {self.e(a[0])})"
        if attr == "format" and isinstance(recv, ast.Constant) and isinstance(recv.value, str) and not kw:
            import string
            values, k = [], 0
            for lit, field, spec, conv in string.Formatter().parse(recv.value):
                if lit:
                    values.append(ast.Constant(value=lit))
                if field is not None:
                    if field != "" or conv:
                        raise Unsupported("str.format with named/indexed fields or conversions")
                    if k >= len(a):
                        raise Unsupported("str.format with too few arguments")
                    fs = ast.JoinedStr(values=[ast.Constant(value=spec)]) if spec else None
                    values.append(ast.FormattedValue(value=a[k], conversion=-1, format_spec=fs))
                    k += 1
            return self.expr(ast.JoinedStr(values=values))
        if attr == "strftime":
            # the model's `nowStamp` is the clock read as the 10-character stamp MMDDYYHHmm of the molfile header: pin receiver and format
            if ast.unparse(recv) != "datetime.now()" or not (isinstance(a[0], ast.Constant) and a[0].value == "%m%d%y%H%M"):
                raise Unsupported("strftime on another receiver or with another format than datetime.now().strftime('%m%d%y%H%M')")
            self.external_state.add("datetime.now()")
            return "env.nowStamp"
        if full == "nx.kamada_kawai_layout":
            # the model's `layout` is the two-dimensional layout: pin the keyword
            if not (set(kw) == {"dim"} and isinstance(kw["dim"], ast.Constant) and kw["dim"].value == 2):
                raise Unsupported("nx.kamada_kawai_layout with other arguments than (graph, dim=2)")
            self.external_state.add("nx.kamada_kawai_layout")
            return f"(env.layout {self.e(a[0])})"
        # --- dict / list / str methods (pure)
        r = self.e(recv)
        if attr == "get":
            if len(a) == 1:
                return f"(Dict.get? {r} {self.e(a[0])})"
            if isinstance(a[1], ast.Constant) and a[1].value is not None:
                return f"(Dict.getD {r} {self.e(a[0])} (toVal {self.e(a[1])}))"
            if isinstance(a[1], ast.Name) and self.hints.get("tuple_is_val"):
                return f"(Dict.getD {r} {self.e(a[0])} (toVal {self.e(a[1])}))"
            return f"(Dict.getD {r} {self.e(a[0])} {self.e(a[1])})"
        if attr in ("items", "values", "keys"):
            return self.iter_expr(e)
        if attr == "copy":
            return r
        if attr == "startswith":
            return f"(startswith {r} {self.e(a[0])})"
        if attr == "endswith":
            return f"(endswith {r} {self.e(a[0])})"
        if attr == "join":
            return f"(join {r} {self.atom(self.as_list(a[0]))})"
        if attr == "split":
            if not a:
                return f"(splitWs {r})"
            return f"(split {r} {self.e(a[0])})"
        if attr == "splitlines":
            return f"(splitlines {r})"
        if attr == "rstrip":
            if a:
                raise Unsupported("rstrip(chars)")
            return f"(rstrip {r})"
        if attr == "strip":
            if len(a) == 1 and isinstance(a[0], ast.Constant) and isinstance(a[0].value, str) and len(a[0].value) == 1:
                return f"(stripChar {r} {lean_char(a[0].value)})"
            raise Unsupported("strip() variant")
        if attr == "replace":
            return f"(replaceAll {r} {self.e(a[0])} {self.e(a[1])})"
        if attr == "getText":
            return f"(PCtx.getText {r})"
        if attr == "getChildCount":
            return f"(PCtx.getChildCount {r})"
        if attr == "getChild":
            return f"(← PCtx.getChild {r} {self.e(a[0])})"
        if attr in cfg.CTX_ACCESSORS:
            if a:
                return f"(← PCtx.childRuleAt {r} \"{attr}\" {self.e(a[0])})"
            return f"(← PCtx.childRule {r} \"{attr}\")"
        # --- mutating methods in expression position
        if attr == "pop":
            return self.pop_expr(recv, a)
        if attr == "popleft":
            tmp, rest = self.fresh("x"), self.fresh("rest")
            self.pre.append(f"let ({tmp}, {rest}) ← popFirst {r}")
            self.pre.extend(self.assign_to(recv, rest))
            return tmp
        if attr == "setdefault":
            tmp = self.fresh("sd")
            self.pre.append(f"let {tmp} := Dict.getD {r} {self.e(a[0])} {self.e(a[1])}")
            self.pre.extend(self.assign_to(recv, f"(Dict.set {r} {self.e(a[0])} {tmp})"))
            self.setdefault_alias = (tmp, recv, a[0])
            return tmp
        raise Unsupported("method " + full)

    def pop_expr(self, recv, a) -> str:
        if self.in_lambda:
            raise Unsupported("pop() inside a comprehension")
        r = self.e(recv)
        if len(a) == 0:
            tmp, rest = self.fresh("x"), self.fresh("rest")
            self.pre.append(f"let ({tmp}, {rest}) ← popLast {r}")
            self.pre.extend(self.assign_to(recv, rest))
            return tmp
        if len(a) == 2 and isinstance(a[1], ast.Constant) and a[1].value is None:
            tmp, rest = self.fresh("x"), self.fresh("rest")
            self.pre.append(f"let ({tmp}, {rest}) := Dict.pop? {r} {self.e(a[0])}")
            self.pre.extend(self.assign_to(recv, rest))
            return tmp
        raise Unsupported("pop variant")

    # ---- statements
    def block(self, body, ind) -> list[str]:
        out = []
        for i, s in enumerate(body):
            if isinstance(s, ast.If):
                # names first assigned inside the branches and read afterwards: declare before the `if`
                later = loaded_names(body[i + 1:])
                for n in sorted(assigned_names([s]) & later - self.declared):
                    ty = self.hints.get("types", {}).get(n)
                    if not ty and self.hints.get("ifexp_toVal"):
                        # same policy as for conditional expressions in this function: the branches may give values of different
                        # Python types (int literal / attribute value); the variable holds a `Val` and assignments are lifted
                        ty = "Val"
                        self.val_lifted = getattr(self, "val_lifted", set()) | {n}
                    out.append("  " * ind + (f"let mut {mangle(n)} : {ty} := default" if ty else f"let mut {mangle(n)} := default"))
                    self.declared.add(n)
            out += self.stmt(s, ind)
        if not out:
            out = ["  " * ind + "pure ()"]
        return out

    def flush(self, lines: list[str], ind) -> list[str]:
        p = "  " * ind
        out = [p + x for x in self.pre] + [p + x for x in lines]
        self.pre = []
        return out

    def stmt(self, s, ind) -> list[str]:
        p = "  " * ind
        self.pre = []
        if isinstance(s, ast.Expr) and isinstance(s.value, ast.Constant):
            return []
        if isinstance(s, ast.Pass):
            return []
        if isinstance(s, ast.AnnAssign):
            if s.value is None:
                return []
            ann = ast.unparse(s.annotation)
            if isinstance(s.value, ast.Call) and isinstance(s.value.func, ast.Name) and s.value.func.id == "set" and isinstance(s.target, ast.Name):
                self.sets.add(s.target.id)
            ty = cfg.lean_type(ann, self.hints.get("types", {}).get(s.target.id))
            val = self.expr(s.value)
            if ty:
                val = f"({val} : {ty})"
            return self.flush(self.assign_to(s.target, val, rebind=True), ind)
        if isinstance(s, ast.Assign) and len(s.targets) == 1:
            t, v = s.targets[0], s.value
            # live view: partitions = m.nodes.data(PARTITION)
            if isinstance(t, ast.Name) and isinstance(v, ast.Call) and isinstance(v.func, ast.Attribute) and v.func.attr == "data" \
                    and isinstance(v.func.value, ast.Attribute) and v.func.value.attr == "nodes" and isinstance(v.func.value.value, ast.Name) \
                    and self.is_graph(v.func.value.value):
                self.views[t.id] = (v.func.value.value.id, v.args[0])
                return [f"{p}-- live view `{t.id}` = {ast.unparse(v)} is expanded at each use"]
            if isinstance(t, ast.Name) and self.is_graph(v):
                self.graphs.add(t.id)
            if isinstance(t, ast.Name) and isinstance(v, ast.Call) and isinstance(v.func, ast.Name) and v.func.id == "set":
                self.sets.add(t.id)
            # ENDPTS regex idiom (v3000 reader)
            if isinstance(v, ast.Call) and ast.unparse(v.func) == "re.compile":
                pat = v.args[0].value
                if pat != cfg.ENDPTS_REGEX:
                    raise Unsupported(f"regular expression {pat!r}")
                self.regex_var = t.id
                return [f"{p}-- regular expression {pat!r}: modelled by `searchEndpts`"]
            if isinstance(v, ast.Call) and isinstance(v.func, ast.Attribute) and v.func.attr == "search" and isinstance(v.func.value, ast.Name) \
                    and v.func.value.id == getattr(self, "regex_var", None):
                val = f"(searchEndpts {self.e(v.args[0])})"
                return self.flush(self.assign_to(t, val, rebind=True), ind)
            if isinstance(v, ast.Call) and isinstance(v.func, ast.Attribute) and v.func.attr == "group":
                val = f"(optGet {self.e(v.func.value)})"
                return self.flush(self.assign_to(t, val, rebind=True), ind)
            ty = self.hints.get("types", {}).get(t.id) if isinstance(t, ast.Name) else None
            if isinstance(t, ast.Name) and isinstance(v, ast.Subscript) and not isinstance(v.slice, ast.Slice) \
                    and self.var_mutated_in(t.id, self.fn.body, inplace_only=True) and not self.graph_nodes_subscript_q(v):
                val = self.expr(v)
                lines = self.assign_to(t, val, rebind=True)
                self.alias[t.id] = v
                return self.flush(lines, ind)
            if isinstance(t, ast.Name) and isinstance(v, ast.Call) and isinstance(v.func, ast.Attribute) and v.func.attr == "setdefault":
                val = self.expr(v)
                lines = self.assign_to(t, val, rebind=True)
                self.alias[t.id] = ast.Subscript(value=v.func.value, slice=v.args[0], ctx=ast.Load())
                return self.flush(lines, ind)
            if isinstance(t, ast.Tuple):
                val = self.expr(v)
                names = self.pattern_names(t)
                if set(names) & self.declared:
                    tmps = {n: self.fresh(n) for n in names}
                    pat = self.pattern_renamed(t, tmps)
                    lines = [f"let {pat} := {val}"]
                    for n, tm in tmps.items():
                        lines += self.assign_to(ast.Name(id=n), tm, rebind=True)
                    return self.flush(lines, ind)
                self.declared |= set(names)
                # tuple patterns cannot be `let mut`-destructured together with effects; bind then re-declare
                lines = [f"let {self.pattern(t)} := {val}"]
                lines += [f"let mut {mangle(n)} := {mangle(n)}" for n in sorted(names)]
                return self.flush(lines, ind)
            self.expected = ty
            val = self.expr(v)
            self.expected = None
            if ty:
                val = f"({val} : {ty})"
            lines = self.assign_to(t, val, rebind=True)
            if isinstance(t, ast.Name) and isinstance(v, ast.Name) and v.id in self.declared and v.id != t.id:
                self.name_alias[t.id] = v.id
            return self.flush(lines, ind)
        if isinstance(s, ast.AugAssign):
            t = s.target
            cur = self.expr(t)
            v = self.e(s.value)
            if isinstance(s.op, ast.Add):
                # `x += y` rebinds x for numbers and strings but changes a list in place, which every other name of that list sees.
                # The translation is the rebinding one; it is only right if no other reference to the object can exist.
                if isinstance(t, ast.Name):
                    aliased = (t.id in self.alias or t.id in self.loop_alias or t.id in self.name_alias or t.id in self.name_alias.values())
                    ann = next((ast.unparse(a.annotation) for a in self.fn.args.args if a.arg == t.id and a.annotation is not None), None)
                    if aliased or (t.id in self.params and (ann is None or not re.fullmatch(r"(str|int|float|bool)", ann))):
                        raise Unsupported(f"augmented assignment `{t.id} += …` to a name that may share its object (alias of a container element, "
                                          "another name, or a non-scalar parameter)")
                val = f"(pyAdd {self.atom(cur)} {v})"
            elif isinstance(s.op, ast.BitOr):
                val = f"(Dict.update {self.atom(cur)} {v})"
            else:
                raise Unsupported("augassign op")
            return self.flush(self.assign_to(t, val, rebind=isinstance(s.op, ast.Add)), ind)
        if isinstance(s, ast.Expr) and isinstance(s.value, ast.Call):
            return self.flush(self.call_stmt(s.value), ind)
        if isinstance(s, ast.Expr) and isinstance(s.value, ast.Yield):
            v = self.e(s.value.value)
            return self.flush([f"out := out ++ [{v}]"], ind)
        if isinstance(s, ast.Expr) and isinstance(s.value, ast.YieldFrom):
            v = self.e(s.value.value)
            return self.flush([f"out := out ++ {v}"], ind)
        if isinstance(s, ast.Return):
            return self.flush([self.return_stmt(s.value)], ind)
        if isinstance(s, ast.If):
            c = self.cond(s.test)
            head = self.flush([f"if {c} then"], ind)
            out = head + self.block(s.body, ind + 1)
            if s.orelse:
                out += [f"{p}else"] + self.block(s.orelse, ind + 1)
            return out
        if isinstance(s, ast.For):
            return self.for_stmt(s, ind)
        if isinstance(s, ast.While):
            return self.while_stmt(s, ind)
        if isinstance(s, ast.Raise):
            exc = s.exc
            name = exc.func.id if isinstance(exc, ast.Call) and isinstance(exc.func, ast.Name) else (exc.id if isinstance(exc, ast.Name) else None)
            if name is None:
                raise Unsupported("raise form")
            err = cfg.BUILTIN_EXCEPTIONS.get(name, f'Err.custom "{name}"')
            return [f"{p}throw ({err})"]
        if isinstance(s, ast.Assert):
            c = self.cond(s.test)
            return self.flush([f"pyAssert {c}"], ind)
        if isinstance(s, ast.Break):
            flag = self.loop_stack[-1] if self.loop_stack else None
            if flag:
                return [f"{p}{flag} := true", f"{p}break"]
            return [f"{p}break"]
        if isinstance(s, ast.Continue):
            return [f"{p}continue"]
        if isinstance(s, ast.Try):
            if s.finalbody or s.orelse:
                raise Unsupported("try with else/finally")
            out = [f"{p}try"] + self.block(s.body, ind + 1)
            out.append(f"{p}catch exc_ =>")
            out.append(f"{p}  match exc_ with")
            for h in s.handlers:
                if not isinstance(h.type, ast.Name):
                    raise Unsupported("except clause form")
                err = cfg.BUILTIN_EXCEPTIONS.get(h.type.id, f'Err.custom "{h.type.id}"')
                out.append(f"{p}  | {err.replace('Err.', '.')} => do")
                out += self.block(h.body, ind + 3)
            out.append(f"{p}  | e_ => throw e_")
            return out
        if isinstance(s, ast.With):
            raise Unsupported("with statement")
        raise Unsupported(type(s).__name__ + ": " + ast.unparse(s)[:80])

    def pattern_renamed(self, t, tmps) -> str:
        if isinstance(t, ast.Name):
            return tmps.get(t.id, "_")
        return "(" + ", ".join(self.pattern_renamed(x, tmps) for x in t.elts) + ")"

    def return_value(self, v: str | None) -> str:
        outs = []
        if v is not None:
            outs.append(v)
        for m in self.mutated:
            outs.append(mangle(m))
        if self.meta.uses_rng:
            outs.append("rng")
        if not outs:
            return "()"
        return outs[0] if len(outs) == 1 else "(" + ", ".join(outs) + ")"

    def return_stmt(self, value) -> str:
        if self.is_gen:
            return f"return {self.return_value('out')}"
        v = None
        if value is not None and not (isinstance(value, ast.Constant) and value.value is None and self.returns_none):
            v = self.expr(value)
            if self.ret_type == "Val":
                v = f"(toVal {self.atom(v)})"
        return f"return {self.return_value(v)}"

    def call_stmt(self, c: ast.Call) -> list[str]:
        check_call_shape(c)
        f = ast.unparse(c.func)
        a = c.args
        if f == "nx.set_node_attributes":
            g = a[0]
            if len(a) == 3:
                vals, name = a[1], a[2]
                if isinstance(vals, ast.Constant):
                    return self.assign_to(g, f"(Graph.setNodeAttrScalar {self.e(g)} (toVal {self.e(vals)}) {self.e(name)})")
                if isinstance(vals, ast.Call) and ast.unparse(vals.func) == "dict" and isinstance(vals.args[0], ast.Call) and ast.unparse(vals.args[0].func) == "zip":
                    z = vals.args[0].args
                    pairs = f"(List.map (fun p => (p.1, toVal p.2)) (zip {self.atom(self.as_list(z[0]))} {self.atom(self.as_list(z[1]))}))"
                    return self.assign_to(g, f"(Graph.setNodeAttrNamed {self.e(g)} (Dict.ofPairs {pairs}) {self.e(name)})")
                return self.assign_to(g, f"(Graph.setNodeAttrNamed {self.e(g)} {self.e(vals)} {self.e(name)})")
            if len(a) == 2:
                return self.assign_to(g, f"(Graph.setNodeAttrDicts {self.e(g)} {self.e(a[1])})")
        if f == "nx.set_edge_attributes" and len(a) == 2:
            return self.assign_to(a[0], f"(Graph.setEdgeAttrDicts {self.e(a[0])} {self.e(a[1])})")
        if f == "random.seed":
            self.external_state.add("random (global state)")
            return [f"rng := Rng.ofSeed (toVal {self.e(a[0])})"]
        if f == "random.shuffle":
            self.external_state.add("random (global state)")
            t = a[0]
            return self.assign_to(t, f"(env.shuffle rng.seed rng.count {self.e(t)})") + ["rng := rng.next"]
        if isinstance(c.func, ast.Attribute):
            recv, attr = c.func.value, c.func.attr
            if self.is_graph(recv):
                g = self.e(recv)
                if attr == "add_nodes_from":
                    x = a[0]
                    data = self.hints.get("add_nodes_from_data", False)
                    fn = "Graph.addNodesFromData" if data else "Graph.addNodesFrom"
                    return self.assign_to(recv, f"({fn} {g} {self.atom(self.as_list(x))})")
                if attr == "add_edges_from":
                    x = a[0]
                    data = self.hints.get("add_edges_from_data", False)
                    fn = "Graph.addEdgesFromData" if data else "Graph.addEdgesFrom"
                    return self.assign_to(recv, f"({fn} {g} {self.atom(self.as_list(x))})")
            if attr == "add" and isinstance(recv, ast.Name) and recv.id in self.sets:
                return self.assign_to(recv, f"(PSet.add {self.e(recv)} {self.e(a[0])})")
            if attr == "sort":
                kws = {k.arg: k.value for k in c.keywords}
                if a or set(kws) - {"reverse"} or ("reverse" in kws and not isinstance(kws["reverse"], ast.Constant)):
                    raise Unsupported("list.sort variant")
                rev = bool(kws["reverse"].value) if "reverse" in kws else False
                return self.assign_to(recv, f"({'sortedRev' if rev else 'sorted'} {self.e(recv)})")
            if attr == "append":
                return self.assign_to(recv, f"(pyAdd {self.e(recv)} [{self.expr(a[0])}])")
            if attr == "extend":
                return self.assign_to(recv, f"(pyAdd {self.e(recv)} {self.atom(self.as_list(a[0]))})")
            if attr == "appendleft":
                return self.assign_to(recv, f"({self.expr(a[0])} :: {self.e(recv)})")
            if attr == "extendleft":
                return self.assign_to(recv, f"(List.reverse {self.atom(self.as_list(a[0]))} ++ {self.e(recv)})")
            if attr == "update":
                x = a[0]
                if isinstance(x, ast.Dict) or (isinstance(x, ast.Name)) or isinstance(x, ast.DictComp):
                    return self.assign_to(recv, f"(Dict.update {self.e(recv)} {self.e(x)})")
                return self.assign_to(recv, f"(Dict.updatePairs {self.e(recv)} {self.atom(self.as_list(x))})")
            if attr == "pop":
                self.pop_expr(recv, a)
                return []
        # plain call evaluated for effects (e.g. validators that raise, or extracted mutators)
        v = self.expr(c)
        if v == "()":
            return []
        if v.startswith("(← ") and v.endswith(")"):
            return [f"let _ ← {v[3:-1]}"]
        return [f"let _ := {v}"]

    def for_stmt(self, s: ast.For, ind) -> list[str]:
        p = "  " * ind
        it = s.iter
        tgt = s.target
        alias = None
        hidden_key = None
        if isinstance(it, ast.Call) and isinstance(it.func, ast.Attribute) and it.func.attr in ("items", "values"):
            r = it.func.value
            # the loop variable refers to the very objects stored in the dict: in-place changes of it are written back to the dict.
            # For parameters this is always done; for local dicts when the body changes the loop variable in place.
            if isinstance(r, ast.Name) and (r.id in self.mutated or (r.id in self.declared and self.live_after(r.id, s))):
                if it.func.attr == "items" and isinstance(tgt, ast.Tuple) and isinstance(tgt.elts[1], ast.Name) and (
                        r.id in self.mutated or self.var_mutated_in(tgt.elts[1].id, s.body, inplace_only=True)):
                    alias = (tgt.elts[1].id, r.id, tgt.elts[0].id)
                elif it.func.attr == "values" and isinstance(tgt, ast.Name) and (
                        r.id in self.mutated or self.var_mutated_in(tgt.id, s.body, inplace_only=True)):
                    hidden_key = self.fresh("k")
                    alias = (tgt.id, r.id, hidden_key)
        if alias is None:
            # a loop variable that is changed in place refers to an element of the iterated container (a name, or the items/values
            # of a name): without a write-back the change would be lost in the translation - harmless only if the container is dead
            src = it.func.value if (isinstance(it, ast.Call) and isinstance(it.func, ast.Attribute) and it.func.attr in ("items", "values")) else it
            if isinstance(src, ast.Name) and self.live_after(src.id, s):
                for n in self.pattern_names(tgt):
                    if self.var_mutated_in(n, s.body, inplace_only=True):
                        raise Unsupported(f"in-place change of loop variable {n}, which refers to an element of {src.id}")
        if hidden_key:
            itexpr = f"(Dict.items {self.e(it.func.value)})"
            pat = f"({hidden_key}, {mangle(tgt.id)})"
        else:
            itexpr = self.iter_expr(it)
            pat = self.pattern(tgt)
        head_pre = self.pre
        self.pre = []
        names = self.pattern_names(tgt)
        saved_decl = set(self.declared)
        self.declared |= set(names)
        if hidden_key:
            self.declared.add(hidden_key)
        out = [p + x for x in head_pre]
        has_else = bool(s.orelse)
        flag = None
        if has_else:
            flag = self.fresh("broke")
            out.append(f"{p}let mut {flag} := false")
        self.loop_stack.append(flag)
        out.append(f"{p}for {pat} in {itexpr} do")
        body_pre = []
        mutated_loop_vars = [n for n in names if self.var_mutated_in(n, s.body)]
        for n in mutated_loop_vars:
            body_pre.append(f"{p}  let mut {mangle(n)} := {mangle(n)}")
        if alias:
            self.loop_alias[alias[0]] = (alias[1], alias[2])
        body = self.block(s.body, ind + 1)
        if alias:
            del self.loop_alias[alias[0]]
        self.loop_stack.pop()
        out += body_pre + body
        if has_else:
            out.append(f"{p}if !{flag} then")
            out += self.block(s.orelse, ind + 1)
        self.declared = saved_decl | (self.declared - set(names))
        return out

    def graph_nodes_subscript_q(self, e) -> bool:
        v = e.value
        return (isinstance(v, ast.Attribute) and v.attr == "nodes" and self.is_graph(v.value)) or (isinstance(v, ast.Name) and v.id in self.views)

    def live_after(self, name: str, loop: ast.AST) -> bool:
        """the variable is read after the loop statement (or, when the loop is nested in another loop, anywhere outside it)"""
        inside = {id(n) for n in ast.walk(loop)}
        nested = bool(self.loop_stack)
        for n in ast.walk(self.fn):
            if isinstance(n, ast.Name) and n.id == name and isinstance(n.ctx, ast.Load) and id(n) not in inside:
                if nested or n.lineno > loop.end_lineno:
                    return True
        return name in self.params

    def var_mutated_in(self, name, body, inplace_only: bool = False) -> bool:
        for st in body:
            for n in ast.walk(st):
                if isinstance(n, ast.AugAssign) and isinstance(n.target, ast.Name) and n.target.id == name and (not inplace_only or isinstance(n.op, ast.BitOr)):
                    return True
                if not inplace_only and isinstance(n, ast.Assign) and any(isinstance(t, ast.Name) and t.id == name for t in n.targets):
                    return True
                if isinstance(n, ast.Assign) and any(isinstance(t, ast.Subscript) and root_name(t) == name for t in n.targets):
                    return True
                if isinstance(n, ast.Call) and isinstance(n.func, ast.Attribute) and n.func.attr in MUTATING_METHODS and root_name(n.func.value) == name:
                    return True
        return False

    def while_stmt(self, s: ast.While, ind) -> list[str]:
        p = "  " * ind
        done = self.fresh("done")
        out = [f"{p}let mut {done} := false", f"{p}for _ in List.range fuel do"]
        self.pre = []
        test = s.test
        always = isinstance(test, ast.Constant) and test.value is True
        if not always:
            c = self.cond(test)
            out += self.flush([f"if !{c} then", f"  {done} := true", "  break"], ind + 1)
        self.loop_stack.append(done)
        body = self.block(s.body, ind + 1)
        self.loop_stack.pop()
        out += body
        out.append(f"{p}if !{done} then throw Err.fuel")
        if s.orelse:
            raise Unsupported("while-else")
        return out

    def emit(self) -> str:
        fn = self.fn
        self.loop_stack: list[str | None] = []
        self.returns_none = (fn.returns is None and not any(isinstance(n, ast.Return) and n.value is not None for n in ast.walk(fn))) \
            or (fn.returns is not None and ast.unparse(fn.returns) == "None")
        params = []
        overrides = self.hints.get("params", {})
        for a in fn.args.args:
            if a.arg == "self":
                params.append(f"(self : {self.key[1].split('.')[0]})")
                continue
            ann = ast.unparse(a.annotation) if a.annotation else None
            ty = overrides.get(a.arg) or cfg.lean_type(ann, None)
            if not ty:
                raise Unsupported(f"no type for parameter {a.arg} ({ann})")
            params.append(f"({mangle(a.arg)} : {ty})")
        pre = []
        reassigned = set()
        for n in ast.walk(fn):
            if isinstance(n, (ast.Assign, ast.AugAssign, ast.AnnAssign)):
                tgts = n.targets if isinstance(n, ast.Assign) else [n.target]
                for t in tgts:
                    for nm in ([t] if isinstance(t, ast.Name) else (t.elts if isinstance(t, ast.Tuple) else [])):
                        if isinstance(nm, ast.Name):
                            reassigned.add(nm.id)
        for a in fn.args.args:
            if a.arg in self.mutated or a.arg in reassigned:
                pre.append(f"  let mut {mangle(a.arg)} := {mangle(a.arg)}")
        if self.meta.uses_rng:
            pre.append("  let mut rng := rng")
        if self.is_gen:
            pre.append(f"  let mut out : {self.hints.get('yield_type', 'List Graph')} := []")
        for name, ty in self.hints.get("predeclare", {}).items():
            pre.append(f"  let mut {mangle(name)} : {ty} := default")
            self.declared.add(name)
        # rewrite break statements: python `break` in while => done flag; handled by patching body text
        if fn.decorator_list:
            raise Unsupported("decorated function: " + ", ".join(ast.unparse(d) for d in fn.decorator_list))
        ndef = len(fn.args.defaults)
        for a, d in zip(fn.args.args[len(fn.args.args) - ndef:], fn.args.defaults):
            if isinstance(d, (ast.List, ast.Dict, ast.Set, ast.Call, ast.ListComp, ast.DictComp)) and a.arg in self.mutated:
                raise Unsupported(f"mutable default argument {a.arg} is mutated (state shared between calls)")
        if fn.args.vararg or fn.args.kwarg or fn.args.kwonlyargs:
            raise Unsupported("*args/**kwargs/keyword-only parameters")
        self.ret_type = self.hints.get("returns") or (cfg.lean_type(ast.unparse(fn.returns), None) if fn.returns else None)
        body = self.block(fn.body, 1)
        if not ends_with_exit(fn.body):
            body.append("  " + self.return_stmt(None))
        ret = self.hints.get("returns")
        if not ret:
            if self.is_gen:
                ret = self.hints.get("yield_type", "List Graph")
            elif self.returns_none:
                ret = None
            else:
                ret = cfg.lean_type(ast.unparse(fn.returns) if fn.returns else None, None)
                if not ret:
                    raise Unsupported(f"no return type ({ast.unparse(fn.returns) if fn.returns else None})")
        outs = []
        if ret:
            outs.append(ret)
        ptypes = {}
        for a, ptxt in zip(fn.args.args, params):
            ptypes[a.arg] = ptxt[ptxt.index(":") + 1:-1].strip()
        for m in self.mutated:
            outs.append(ptypes[m])
        if self.meta.uses_rng:
            outs.append("Rng")
        rty = "Unit" if not outs else (outs[0] if len(outs) == 1 else "(" + " × ".join(outs) + ")")
        extra = " (fuel : Nat)" if self.meta.uses_fuel else ""
        extra += " (rng : Rng)" if self.meta.uses_rng else ""
        name = self.key[1]
        hdr = f"def {name} (env : DepEnv){extra} " + " ".join(params) + f" : M ({rty}) := do"
        # (line numbers and the source hash go into the evidence, not into the generated text: a comment-only or
        #  formatting-only edit of /repo then leaves the generated modules byte-identical and the build cache valid)
        src = f"-- extracted from {self.mod.relpath}::{self.key[1]}\n"
        src += f"-- frame: mutated parameters = {self.mutated}\n"
        text = src + hdr + "\n" + "\n".join(pre + body)
        text = text.replace("RNGSEED", "()")
        return text


def ends_with_exit(stmts) -> bool:
    if not stmts:
        return False
    s = stmts[-1]
    if isinstance(s, (ast.Return, ast.Raise)):
        return True
    if isinstance(s, ast.If):
        return bool(s.orelse) and ends_with_exit(s.body) and ends_with_exit(s.orelse)
    if isinstance(s, ast.Try):
        return ends_with_exit(s.body) and all(ends_with_exit(h.body) for h in s.handlers)
    return False


def assigned_names(stmts) -> set[str]:
    out = set()
    for st in stmts:
        for n in ast.walk(st):
            if isinstance(n, (ast.Assign, ast.AnnAssign, ast.AugAssign)):
                tgts = n.targets if isinstance(n, ast.Assign) else [n.target]
                for t in tgts:
                    for x in ast.walk(t):
                        if isinstance(x, ast.Name) and isinstance(x.ctx, ast.Store):
                            out.add(x.id)
    return out


def loaded_names(stmts) -> set[str]:
    return {n.id for st in stmts for n in ast.walk(st) if isinstance(n, ast.Name) and isinstance(n.ctx, ast.Load)}


def lean_char(c: str) -> str:
    if c == "'":
        return "'\\''"
    if c == "\\":
        return "'\\\\'"
    return f"'{c}'"


def matching_paren(s: str) -> bool:
    """s starts with ( or [ and the matching closer is the last character"""
    depth = 0
    in_str = False
    i = 0
    while i < len(s):
        ch = s[i]
        if in_str:
            if ch == "\\":
                i += 1
            elif ch == '"':
                in_str = False
        else:
            if ch == '"':
                in_str = True
            elif ch == "'" and i + 2 < len(s) and (s[i + 2] == "'" or (s[i + 1] == "\\" and i + 3 < len(s) and s[i + 3] == "'")):
                i += 3 if s[i + 1] == "\\" else 2
            elif ch in "([":
                depth += 1
            elif ch in ")]":
                depth -= 1
                if depth == 0:
                    return i == len(s) - 1
        i += 1
    return False


def write_generated(outdir: str, repo: str = "/repo") -> Extractor:
    ex = Extractor(repo)
    mods = ex.extract_all()
    os.makedirs(outdir, exist_ok=True)
    wanted = {name.split(".")[-1] + ".lean" for name in mods}
    for f in os.listdir(outdir):
        if f.endswith(".lean") and f not in wanted:
            os.remove(os.path.join(outdir, f))
    for name, text in mods.items():
        path = os.path.join(outdir, name.split(".")[-1] + ".lean")
        if os.path.exists(path) and open(path).read() == text:
            continue
        tmp = f"{path}.{os.getpid()}.tmp"
        with open(tmp, "w") as f:
            f.write(text)
        os.replace(tmp, path)
    return ex


if __name__ == "__main__":
    out = sys.argv[1] if len(sys.argv) > 1 else os.path.join(os.path.dirname(os.path.dirname(os.path.abspath(__file__))), "lean", "Generated")
    ex = write_generated(out, os.environ.get("TUCAN_REPO", "/repo"))
    for k, m in ex.metas.items():
        print(("FAIL " if m.error else "ok   ") + f"{k[0]}::{k[1]}" + (f"  -- {m.error}" if m.error else ""))
