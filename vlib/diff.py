"""Probe V1/V2: run the extracted Lean definitions (lean --run) and the real Python functions on
the same inputs and compare the results, including iteration orders of the returned graphs.

A mismatch means the extractor or PyModel is wrong for this code (machinery broken, exit 3), never
a property violation."""
from __future__ import annotations
import importlib, json, os, random, subprocess, sys, time, glob
from . import leanlit as L
from . import leanbuild

FUEL = 400


class Case:
    def __init__(self, fn: str, name: str, lean: str, py, norm, unordered: bool = False):
        self.fn, self.name, self.lean, self.py, self.norm = fn, name, lean, py, norm
        self.unordered = unordered  # result is a dict whose key order is unspecified (set iteration)


def load_tucan(repo: str):
    """import the tucan package from `repo` (fresh)"""
    for k in [k for k in sys.modules if k == "tucan" or k.startswith("tucan.")]:
        del sys.modules[k]
    if repo in sys.path:
        sys.path.remove(repo)
    sys.path.insert(0, repo)
    import tucan  # noqa
    assert os.path.realpath(tucan.__file__).startswith(os.path.realpath(repo)), tucan.__file__
    return tucan


class IgraphRecorder:
    """records bliss results of the real igraph so that the Lean harness environment can replay them"""

    def __init__(self):
        import igraph
        self.igraph = igraph
        self.table = []
        self._orig = igraph.Graph.canonical_permutation

    def __enter__(self):
        rec = self

        def patched(self_, *a, **kw):
            p = rec._orig(self_, *a, **kw)
            names = list(self_.vs["_nx_name"]) if "_nx_name" in self_.vs.attributes() else list(range(self_.vcount()))
            rec.table.append((names, list(kw.get("color") or []), [tuple(e) for e in self_.get_edgelist()], list(p)))
            return p

        self.igraph.Graph.canonical_permutation = patched
        return self

    def __exit__(self, *a):
        self.igraph.Graph.canonical_permutation = self._orig

    def lean(self) -> str:
        rows = []
        for names, colors, edges, p in self.table:
            key = "(" + L.list_(names, L.int_) + ", " + L.list_(colors, L.val) + ", " + \
                  L.list_(edges, lambda e: f"({L.int_(e[0])}, {L.int_(e[1])})") + ")"
            rows.append(f"({key}, {L.list_(p, L.int_)})")
        return "[" + ",\n  ".join(rows) + "]"


def small_molecules(repo: str, tucan, max_atoms: int, limit: int, seed: int):
    from tucan.io import graph_from_file
    files = sorted(glob.glob(os.path.join(repo, "tests/molfiles/*/*.mol")))
    rnd = random.Random(seed)
    rnd.shuffle(files)
    out = []
    for f in files:
        try:
            g = graph_from_file(f)
        except Exception:
            continue
        if 1 <= g.number_of_nodes() <= max_atoms:
            out.append((os.path.basename(f), g))
        if len(out) >= limit:
            break
    return out


def scramble(g, rnd):
    """same labelled graph, different node/adjacency insertion order and a relabelling"""
    import networkx as nx
    nodes = list(g.nodes(data=True))
    rnd.shuffle(nodes)
    labels = [n for n, _ in nodes]
    perm = labels[:]
    rnd.shuffle(perm)
    mp = dict(zip(labels, perm))
    h = nx.Graph()
    h.add_nodes_from((mp[n], dict(d)) for n, d in nodes)
    edges = [(mp[u], mp[v], dict(d)) if rnd.random() < 0.5 else (mp[v], mp[u], dict(d)) for u, v, d in g.edges(data=True)]
    rnd.shuffle(edges)
    h.add_edges_from(edges)
    return h


def pipeline_cases(repo: str, tucan, tier: str, seed: int):
    import networkx as nx
    from tucan import graph_utils as gu, canonicalization as ca, serialization as se
    rnd = random.Random(seed)
    n_mol = 12 if tier == "quick" else 60
    mols = small_molecules(repo, tucan, 14 if tier == "quick" else 24, n_mol, seed)
    # add isotope / radical labelled variants and a multi-component one
    cases: list[Case] = []
    graphs = []
    for name, g in mols:
        graphs.append((name, g))
        graphs.append((name + "~", scramble(g, rnd)))
    env = "env"
    rec = IgraphRecorder()
    with rec:
        for name, g in graphs:
            G = L.graph(g)
            some_atom = list(g.nodes)[len(g) // 2]
            cases.append(Case("graph_utils.attribute_sequence", name,
                              f"Tucan.graph_utils.attribute_sequence {env} {G} {L.int_(some_atom)} \"atomic_number\"",
                              lambda g=g, a=some_atom: gu.attribute_sequence(g, a, "atomic_number"),
                              lambda r: [L.jval(x) for x in r]))
            cases.append(Case("canonicalization.partition_molecule_by_attribute", name,
                              f"Tucan.canonicalization.partition_molecule_by_attribute {env} {G} \"invariant_code\"",
                              lambda g=g: ca.partition_molecule_by_attribute(g, "invariant_code"), L.jgraph))
            cases.append(Case("canonicalization.refine_partitions", name,
                              f"Tucan.canonicalization.refine_partitions {env} {FUEL} {G}",
                              lambda g=g: list(ca.refine_partitions(g)), lambda r: [L.jgraph(x) for x in r]))
            cases.append(Case("canonicalization.get_number_of_partitions", name,
                              f"Tucan.canonicalization.get_number_of_partitions {env} {G}",
                              lambda g=g: ca.get_number_of_partitions(g), L.jval))
            gc = ca.canonicalize_molecule(g)
            cases.append(Case("canonicalization.canonicalize_molecule", name,
                              f"Tucan.canonicalization.canonicalize_molecule {env} {FUEL} {G}",
                              lambda g=g: ca.canonicalize_molecule(g), L.jgraph))
            mref = list(ca.refine_partitions(ca.partition_molecule_by_attribute(g, "invariant_code")))[-1]
            cases.append(Case("canonicalization.assign_canonical_labels", name,
                              f"Tucan.canonicalization.assign_canonical_labels {env} {L.graph(mref)}",
                              lambda m=mref: ca.assign_canonical_labels(m), lambda r: L.jdict(r)))
            GC = L.graph(gc)
            cases.append(Case("graph_utils.sort_molecule_by_attribute", name,
                              f"Tucan.graph_utils.sort_molecule_by_attribute {env} {GC} \"atomic_number\"",
                              lambda gc=gc: gu.sort_molecule_by_attribute(gc, "atomic_number"), L.jgraph))
            cases.append(Case("serialization._labels_by_partition", name,
                              f"Tucan.serialization._labels_by_partition {env} {GC}",
                              lambda gc=gc: se._labels_by_partition(gc), lambda r: L.jdict(r, L.jval, lambda v: v), unordered=True))

            def afl(gc=gc):
                m = gc.copy()
                r = se._assign_final_labels(m)
                return (r, m)

            cases.append(Case("serialization._assign_final_labels", name,
                              f"Tucan.serialization._assign_final_labels {env} {FUEL} {GC} [(fun a b => pyLt a b), (fun a b => pyGt a b), (fun a b => pyEq a b)]",
                              afl, lambda r: [L.jgraph(r[0]), L.jgraph(r[1])]))

            def ser(gc=gc):
                m = gc.copy()
                r = se.serialize_molecule(m)
                return (r, m)

            cases.append(Case("serialization.serialize_molecule", name,
                              f"Tucan.serialization.serialize_molecule {env} {FUEL} {GC}",
                              ser, lambda r: [r[0], L.jgraph(r[1])]))
            ms = gu.sort_molecule_by_attribute(se._assign_final_labels(gc.copy()), "atomic_number")
            MS = L.graph(ms)
            for fn in ("_write_sum_formula", "_write_edge_list", "_write_node_attributes"):
                cases.append(Case(f"serialization.{fn}", name, f"Tucan.serialization.{fn} {env} {MS}",
                                  lambda ms=ms, fn=fn: getattr(se, fn)(ms), lambda r: r))
            cases.append(Case("graph_utils._sort_molecule_by_label", name,
                              f"Tucan.graph_utils._sort_molecule_by_label {env} {G}",
                              lambda g=g: gu._sort_molecule_by_label(g), L.jgraph))
    prelude = f"def env : DepEnv := harnessEnv {rec.lean()} []\n"
    imports = ["Generated.Canonicalization", "Generated.Serialization", "Generated.GraphUtils"]
    return imports, prelude, cases


def run_cases(tag: str, imports, prelude: str, cases: list[Case], workdir: str, chunk: int = 60, jobs: int = 16):
    """returns (n_cases, mismatches:list, per-function counts, seconds)"""
    os.makedirs(workdir, exist_ok=True)
    t0 = time.time()
    res = leanbuild.build(["PyModel.Json"] + list(imports))
    bad = [r for r in res.values() if not r.ok]
    if bad:
        raise RuntimeError("cannot build " + ", ".join(r.mod for r in bad) + "\n" + bad[0].output[:3000])
    py_results = [L.run_py(c.py, c.norm) for c in cases]
    chunks = [cases[i:i + chunk] for i in range(0, len(cases), chunk)]
    paths = []
    for ci, ch in enumerate(chunks):
        lines = ["import PyModel.Json"] + [f"import {i}" for i in imports] + ["open Py", "set_option maxRecDepth 100000", prelude, "def main : IO Unit := do"]
        for c in ch:
            lines.append(f"  IO.println (toJ ({c.lean}))")
        path = os.path.join(workdir, f"Diff_{tag}_{ci}.lean")
        open(path, "w").write("\n".join(lines) + "\n")
        paths.append(path)
    from concurrent.futures import ThreadPoolExecutor
    with ThreadPoolExecutor(max_workers=jobs) as ex:
        procs = list(ex.map(lambda p: leanbuild.run_lean(p, timeout=1200), paths))
    lean_results = []
    for p, ch, path in zip(procs, chunks, paths):
        outl = [l for l in p.stdout.splitlines() if l.strip()]
        if p.returncode != 0 or len(outl) != len(ch):
            raise RuntimeError(f"lean --run failed for {path} (exit {p.returncode}, {len(outl)}/{len(ch)} lines):\n{p.stderr[:4000]}\n{p.stdout[-2000:]}")
        lean_results += [json.loads(l) for l in outl]
    mism = []
    per_fn: dict[str, int] = {}
    for c, a, b in zip(cases, py_results, lean_results):
        per_fn[c.fn] = per_fn.get(c.fn, 0) + 1
        if c.unordered and "ok" in a and "ok" in b:
            a = {"ok": sorted(a["ok"]["d"], key=json.dumps)}
            b = {"ok": sorted(b["ok"]["d"], key=json.dumps)}
        if not L.same(a, b):
            mism.append({"function": c.fn, "input": c.name, "python": a, "lean": b})
    return len(cases), mism, per_fn, time.time() - t0


if __name__ == "__main__":
    repo = os.environ.get("TUCAN_REPO", "/repo")
    tucan = load_tucan(repo)
    tier = sys.argv[1] if len(sys.argv) > 1 else "quick"
    imports, prelude, cases = pipeline_cases(repo, tucan, tier, 1)
    n, mism, per_fn, secs = run_cases("pipeline", imports, prelude, cases, os.path.join(leanbuild.BUILD, "work"))
    print(n, "cases", len(mism), "mismatches", f"{secs:.1f}s")
    for k, v in per_fn.items():
        print("  ", k, v)
    for m in mism[:5]:
        print(json.dumps(m)[:3000])


def first_diff(a, b, path=""):
    if isinstance(a, dict) and isinstance(b, dict) and a.keys() == b.keys() and set(a.keys()) != {"f"}:
        for k in a:
            d = first_diff(a[k], b[k], path + "/" + str(k))
            if d:
                return d
        return None
    if isinstance(a, list) and isinstance(b, list) and len(a) == len(b):
        for i, (x, y) in enumerate(zip(a, b)):
            d = first_diff(x, y, path + f"[{i}]")
            if d:
                return d
        return None
    return None if L.same(a, b) else f"{path}: python={json.dumps(a)[:300]} lean={json.dumps(b)[:300]}"
