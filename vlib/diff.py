"""Probe V1/V2: run the extracted Lean definitions (lean --run) and the real Python functions on
the same inputs and compare the results, including iteration orders of the returned graphs.

A mismatch means the extractor or PyModel is wrong for this code (machinery broken, exit 3), never
a property violation."""
from __future__ import annotations
import importlib, json, os, random, subprocess, sys, time, glob
from . import leanlit as L
from . import leanbuild

FUEL = 400


class Case:
    def __init__(self, fn: str, name: str, lean: str, py, norm, unordered: bool = False, lean_post=None):
        self.lean_post = lean_post
        self.fn, self.name, self.lean, self.py, self.norm = fn, name, lean, py, norm
        self.unordered = unordered  # result is a dict whose key order is unspecified (set iteration)


def load_tucan(repo: str):
    """import the tucan package from `repo` (fresh)"""
    for k in [k for k in sys.modules if k == "tucan" or k.startswith("tucan.")]:
        del sys.modules[k]
    if repo in sys.path:
        sys.path.remove(repo)
    sys.path.insert(0, repo)
    import tucan  # noqa
    assert os.path.realpath(tucan.__file__).startswith(os.path.realpath(repo)), tucan.__file__
    return tucan


class IgraphRecorder:
    """records bliss results of the real igraph so that the Lean harness environment can replay them"""

    def __init__(self):
        import igraph
        self.igraph = igraph
        self.table = []
        self._orig = igraph.Graph.canonical_permutation

    def __enter__(self):
        rec = self

        def patched(self_, *a, **kw):
            p = rec._orig(self_, *a, **kw)
            names = list(self_.vs["_nx_name"]) if "_nx_name" in self_.vs.attributes() else list(range(self_.vcount()))
            rec.table.append((names, list(kw.get("color") or []), [tuple(e) for e in self_.get_edgelist()], list(p)))
            return p

        self.igraph.Graph.canonical_permutation = patched
        return self

    def __exit__(self, *a):
        self.igraph.Graph.canonical_permutation = self._orig

    def lean(self) -> str:
        rows = []
        for names, colors, edges, p in self.table:
            key = "(" + L.list_(names, L.int_) + ", " + L.list_(colors, L.val) + ", " + \
                  L.list_(edges, lambda e: f"({L.int_(e[0])}, {L.int_(e[1])})") + ")"
            rows.append(f"({key}, {L.list_(p, L.int_)})")
        return "[" + ",\n  ".join(rows) + "]"


def small_molecules(repo: str, tucan, max_atoms: int, limit: int, seed: int):
    from tucan.io import graph_from_file
    files = sorted(glob.glob(os.path.join(repo, "tests/molfiles/*/*.mol")))
    rnd = random.Random(seed)
    rnd.shuffle(files)
    out = []
    for f in files:
        try:
            g = graph_from_file(f)
        except Exception:
            continue
        if 1 <= g.number_of_nodes() <= max_atoms:
            out.append((os.path.basename(f), g))
        if len(out) >= limit:
            break
    return out


def scramble(g, rnd):
    """same labelled graph, different node/adjacency insertion order and a relabelling"""
    import networkx as nx
    nodes = list(g.nodes(data=True))
    rnd.shuffle(nodes)
    labels = [n for n, _ in nodes]
    perm = labels[:]
    rnd.shuffle(perm)
    mp = dict(zip(labels, perm))
    h = nx.Graph()
    h.add_nodes_from((mp[n], dict(d)) for n, d in nodes)
    edges = [(mp[u], mp[v], dict(d)) if rnd.random() < 0.5 else (mp[v], mp[u], dict(d)) for u, v, d in g.edges(data=True)]
    rnd.shuffle(edges)
    h.add_edges_from(edges)
    return h


def pipeline_cases(repo: str, tucan, tier: str, seed: int):
    import networkx as nx
    from tucan import graph_utils as gu, canonicalization as ca, serialization as se
    rnd = random.Random(seed)
    n_mol = 12 if tier == "quick" else 60
    mols = small_molecules(repo, tucan, 14 if tier == "quick" else 24, n_mol, seed)
    # add isotope / radical labelled variants and a multi-component one
    cases: list[Case] = []
    graphs = []
    for name, g in mols:
        graphs.append((name, g))
        graphs.append((name + "~", scramble(g, rnd)))
    env = "env"
    rec = IgraphRecorder()
    with rec:
        for name, g in graphs:
            G = L.graph(g)
            some_atom = list(g.nodes)[len(g) // 2]
            cases.append(Case("graph_utils.attribute_sequence", name,
                              f"Tucan.graph_utils.attribute_sequence {env} {G} {L.int_(some_atom)} \"atomic_number\"",
                              lambda g=g, a=some_atom: gu.attribute_sequence(g, a, "atomic_number"),
                              lambda r: [L.jval(x) for x in r]))
            cases.append(Case("canonicalization.partition_molecule_by_attribute", name,
                              f"Tucan.canonicalization.partition_molecule_by_attribute {env} {G} \"invariant_code\"",
                              lambda g=g: ca.partition_molecule_by_attribute(g, "invariant_code"), L.jgraph))
            cases.append(Case("canonicalization.refine_partitions", name,
                              f"Tucan.canonicalization.refine_partitions {env} {FUEL} {G}",
                              lambda g=g: list(ca.refine_partitions(g)), lambda r: [L.jgraph(x) for x in r]))
            cases.append(Case("canonicalization.get_number_of_partitions", name,
                              f"Tucan.canonicalization.get_number_of_partitions {env} {G}",
                              lambda g=g: ca.get_number_of_partitions(g), L.jval))
            gc = ca.canonicalize_molecule(g)
            cases.append(Case("canonicalization.canonicalize_molecule", name,
                              f"Tucan.canonicalization.canonicalize_molecule {env} {FUEL} {G}",
                              lambda g=g: ca.canonicalize_molecule(g), L.jgraph))
            mref = list(ca.refine_partitions(ca.partition_molecule_by_attribute(g, "invariant_code")))[-1]
            cases.append(Case("canonicalization.assign_canonical_labels", name,
                              f"Tucan.canonicalization.assign_canonical_labels {env} {L.graph(mref)}",
                              lambda m=mref: ca.assign_canonical_labels(m), lambda r: L.jdict(r)))
            GC = L.graph(gc)
            cases.append(Case("graph_utils.sort_molecule_by_attribute", name,
                              f"Tucan.graph_utils.sort_molecule_by_attribute {env} {GC} \"atomic_number\"",
                              lambda gc=gc: gu.sort_molecule_by_attribute(gc, "atomic_number"), L.jgraph))
            cases.append(Case("serialization._labels_by_partition", name,
                              f"Tucan.serialization._labels_by_partition {env} {GC}",
                              lambda gc=gc: se._labels_by_partition(gc), lambda r: L.jdict(r, L.jval, lambda v: v), unordered=True))

            # the CPython side works on a copy (the functions mutate their argument); nx.Graph.copy() re-inserts the edges, which
            # may change adjacency orders once, so the literal given to Lean is that of a copy (copying a copy changes nothing)
            gcs = gc.copy()
            GCS = L.graph(gcs)

            def afl(gcs=gcs):
                m = gcs.copy()
                r = se._assign_final_labels(m)
                return (r, m)

            cases.append(Case("serialization._assign_final_labels", name,
                              f"Tucan.serialization._assign_final_labels {env} {FUEL} {GCS} [(fun a b => pyLt a b), (fun a b => pyGt a b), (fun a b => pyEq a b)]",
                              afl, lambda r: [L.jgraph(r[0]), L.jgraph(r[1])]))

            def ser(gcs=gcs):
                m = gcs.copy()
                r = se.serialize_molecule(m)
                return (r, m)

            cases.append(Case("serialization.serialize_molecule", name,
                              f"Tucan.serialization.serialize_molecule {env} {FUEL} {GCS}",
                              ser, lambda r: [r[0], L.jgraph(r[1])]))
            ms = gu.sort_molecule_by_attribute(se._assign_final_labels(gc.copy()), "atomic_number")
            MS = L.graph(ms)
            for fn in ("_write_sum_formula", "_write_edge_list", "_write_node_attributes"):
                cases.append(Case(f"serialization.{fn}", name, f"Tucan.serialization.{fn} {env} {MS}",
                                  lambda ms=ms, fn=fn: getattr(se, fn)(ms), lambda r: r))
            cases.append(Case("graph_utils._sort_molecule_by_label", name,
                              f"Tucan.graph_utils._sort_molecule_by_label {env} {G}",
                              lambda g=g: gu._sort_molecule_by_label(g), L.jgraph))
            # frame probe: after all the calls above the CPython argument objects still equal the literals the Lean side was given
            # (the extractor's "no mutated parameter" analysis for these functions, incl. node/adjacency iteration orders)
            cases.append(Case("frame.argument_unchanged", name, f"(Except.ok {G} : Py.M Graph)", lambda g=g: g, L.jgraph))
            cases.append(Case("frame.argument_unchanged", name + "/canonical", f"(Except.ok {GC} : Py.M Graph)", lambda gc=gc: gc, L.jgraph))
            cases.append(Case("frame.argument_unchanged", name + "/sorted", f"(Except.ok {MS} : Py.M Graph)", lambda ms=ms: ms, L.jgraph))
    prelude = f"def env : DepEnv := harnessEnv {rec.lean()} []\n"
    imports = ["Generated.Canonicalization", "Generated.Serialization", "Generated.GraphUtils"]
    return imports, prelude, cases


def jatoms(d):
    return L.jdict(d, lambda k: k, L.jattrs)


def jbonds(d):
    return L.jdict(d, L.jtuple_key, L.jattrs)


def io_cases(repo: str, tucan, tier: str, seed: int):
    from tucan.io import molfile_v3000_reader as r3, molfile_v2000_reader as r2, molfile_reader as rd, molfile_writer as wr
    from tucan.io import graph_from_molfile_text
    from . import molgen
    rnd = random.Random(seed)
    env = "env"
    cases: list[Case] = []
    n = 25 if tier == "quick" else 150
    # --- V3000 reader on spec-style renderings and on corpus files
    texts3 = []
    for _ in range(n):
        m = molgen.rand_mol(rnd, 5)
        texts3.append(molgen.render_v3000(rnd, m, crlf=rnd.random() < .2))
    files = sorted(glob.glob(os.path.join(repo, "tests/molfiles/*/*.mol")))
    rnd.shuffle(files)
    for f in files[: (6 if tier == "quick" else 40)]:
        t = open(f).read()
        if len(t) < 3000:
            texts3.append(t)
    for k, t in enumerate(texts3):
        lines = t.splitlines()
        LL = L.list_(lines, L.str_)
        cases.append(Case("molfile_v3000_reader._concat_lines_with_dash", f"v3k-{k}",
                          f"Tucan.molfile_v3000_reader._concat_lines_with_dash {env} {FUEL} {LL}",
                          lambda lines=lines: r3._concat_lines_with_dash(lines), lambda r: r))
        cases.append(Case("molfile_v3000_reader._tokenize_lines", f"v3k-{k}",
                          f"Tucan.molfile_v3000_reader._tokenize_lines {env} {FUEL} {LL}",
                          lambda lines=lines: r3._tokenize_lines(lines), lambda r: r))
        cases.append(Case("molfile_v3000_reader.graph_attributes_from_molfile_v3000", f"v3k-{k}",
                          f"Tucan.molfile_v3000_reader.graph_attributes_from_molfile_v3000 {env} {FUEL} {LL}",
                          lambda lines=lines: r3.graph_attributes_from_molfile_v3000(lines), lambda r: [jatoms(r[0]), jbonds(r[1])]))
        cases.append(Case("molfile_reader.graph_from_molfile_text", f"v3k-{k}",
                          f"Tucan.molfile_reader.graph_from_molfile_text {env} {FUEL} {L.str_(t)}",
                          lambda t=t: graph_from_molfile_text(t), L.jgraph))
    # star atoms / ENDPTS
    star = ["n", "  p", "c", "  0  0  0     0  0            999 V3000", "M  V30 BEGIN CTAB", "M  V30 COUNTS 4 2 0 0 0", "M  V30 BEGIN ATOM",
            "M  V30 1 C 0 0 0 0", "M  V30 2 C 1 0 0 0", "M  V30 3 * 0 1 0 0", "M  V30 4 Fe 2 0 0 0 CHG=2", "M  V30 END ATOM", "M  V30 BEGIN BOND",
            "M  V30 1 1 1 2", "M  V30 2 9 4 3 ENDPTS=(2 1 2) ATTACH=ALL", "M  V30 END BOND", "M  V30 END CTAB", "M  END"]
    for variant in (star, [l.replace("ENDPTS=(2 1 2)", "ENDPTS=(3 1 2)") for l in star], [l.replace(" ENDPTS=(2 1 2) ATTACH=ALL", "") for l in star],
                    [l.replace("2 9 4 3", "2 9 3 3") for l in star], [l.replace("COUNTS 4 2", "COUNTS 4 3") for l in star],
                    [l.replace("M  V30 1 1 1 2", "M  V30 1 1 1 7") for l in star], star[:9], [l.replace("Fe", "Xx") for l in star]):
        LL = L.list_(variant, L.str_)
        cases.append(Case("molfile_v3000_reader.graph_attributes_from_molfile_v3000", "star",
                          f"Tucan.molfile_v3000_reader.graph_attributes_from_molfile_v3000 {env} {FUEL} {LL}",
                          lambda lines=variant: r3.graph_attributes_from_molfile_v3000(list(lines)), lambda r: [jatoms(r[0]), jbonds(r[1])]))
    # --- V2000
    texts2 = []
    for _ in range(n):
        m = molgen.rand_mol_v2000(rnd, 9)
        mode = {"chg_lines": rnd.random() < .6, "stale_codes": rnd.random() < .5, "zeros": rnd.random() < .3, "extras": True}
        texts2.append(molgen.render_v2000(rnd, m, mode))
    files = sorted(glob.glob(os.path.join(repo, "tests/molfiles_v2000/*/*.mol")) + glob.glob(os.path.join(repo, "tests/molfiles_v2000/*.mol")))
    rnd.shuffle(files)
    for f in files[: (6 if tier == "quick" else 40)]:
        t = open(f).read()
        if len(t) < 3000:
            texts2.append(t)
    for k, t in enumerate(texts2):
        lines = t.splitlines()
        LL = L.list_(lines, L.str_)
        cases.append(Case("molfile_v2000_reader.graph_attributes_from_molfile_v2000", f"v2k-{k}",
                          f"Tucan.molfile_v2000_reader.graph_attributes_from_molfile_v2000 {env} {LL}",
                          lambda lines=lines: r2.graph_attributes_from_molfile_v2000(lines), lambda r: [jatoms(r[0]), jbonds(r[1])]))
        cases.append(Case("molfile_reader.graph_from_molfile_text", f"v2k-{k}",
                          f"Tucan.molfile_reader.graph_from_molfile_text {env} {FUEL} {L.str_(t)}",
                          lambda t=t: graph_from_molfile_text(t), L.jgraph))
    # --- writer: graphs with wide indices / coordinates so that lines wrap
    import networkx as nx

    def wide_graph(k):
        g = nx.Graph()
        big = [0, 7, 10 ** 9, 10 ** 30, 10 ** 60][k % 5]
        nn = rnd.randint(1, 4)
        for i in range(nn):
            d = {"element_symbol": rnd.choice(["C", "Og", "H"]), "x_coord": rnd.choice([0.5, -1125899906842624.5, 2.25, 4503599627370496.0]),
                 "y_coord": rnd.choice([0.0, 1.125, -3.5]), "z_coord": rnd.choice([0.0, 9007199254740992.0])}
            if rnd.random() < .4:
                d["chg"] = rnd.choice([-15, -1, 1, 15, 16, 0])
            if rnd.random() < .4:
                d["rad"] = rnd.choice([1, 2, 3, 4, 0])
            if rnd.random() < .4:
                d["mass"] = rnd.choice([13, 2, 0, 10 ** 20])
            g.add_node(big + i, **d)
        nodes = list(g.nodes)
        for i in range(nn):
            for j in range(i + 1, nn):
                if rnd.random() < .5:
                    g.add_edge(nodes[i], nodes[j], **({"bond_type": rnd.choice([1, 2, 3, 10 ** 70])} if rnd.random() < .8 else {}))
        return g

    def mask(s):
        ls = s.split("\n")
        ls[1] = "<header>"
        return "\n".join(ls)

    for k in range(n):
        g = wide_graph(k)
        cases.append(Case("molfile_writer.graph_to_molfile", f"w-{k}",
                          f"Tucan.molfile_writer.graph_to_molfile {env} {FUEL} {L.graph(g)} false",
                          lambda g=g: wr.graph_to_molfile(g), lambda r: mask(r), lean_post=mask))
    for ln in [0, 1, 71, 72, 73, 142, 143, 144, 300]:
        line = ("abc def-" * 50)[:ln]
        cases.append(Case("molfile_writer._add_v30_line", f"len-{ln}",
                          f"Tucan.molfile_writer._add_v30_line {env} {FUEL} [py!\"x\"] {L.str_(line)}",
                          lambda line=line: (lambda ls: (wr._add_v30_line(ls, line), ls)[1])(["x"]), lambda r: r))
    prelude = "def env : DepEnv := harnessEnv [] []\n"
    imports = ["Generated.Reader", "Generated.Writer"]
    return imports, prelude, cases


def ptree_lean(t, rule_names) -> str:
    from antlr4.tree.Tree import TerminalNode
    if isinstance(t, TerminalNode):
        return f"(PTree.tok {L.str_(t.getText())})"
    kids = [ptree_lean(c, rule_names) for c in (t.children or [])]
    return f"(PTree.node \"{rule_names[t.getRuleIndex()]}\" [" + ", ".join(kids) + "])"


def parser_cases(repo: str, tucan, tier: str, seed: int):
    from tucan.parser import parser as pp
    from tucan.parser.tucanParser import tucanParser
    rnd = random.Random(seed)
    env = "env"
    cases: list[Case] = []
    sentences = ["CH4/(1-2)(1-3)(1-4)(1-5)", "C2H6O/(1-3)(2-3)", "ClH/(1-2)", "H2O/(1-3)(2-3)/(1:mass=2)(3:rad=2)", "CHCl3/(1-2)(2-3)(2-4)(2-5)",
                 "C10H2/(1-12)", "HeNe/", "C/", "CHN/(1-3)(2-3)/(2:mass=13,rad=2)", "BrCl/(1-2)", "CU/(1-2)", "Cu/", "NNa/", "/", "C2/(1-2)(2-1)(1-2)",
                 "C2/(1-1)", "C2/(1-3)", "C2/(1-2)/(3:mass=2)", "C2/(1-2)/(1:mass=2)(1:mass=3)", "C2/(1-2)/(1:mass=2)(1:rad=3)", "C2/(1-2)/(2:rad=3,rad=1)",
                 "OH2/", "C2H6/(1-2)/(2:mass=13)(1:mass=14)", "Og2H/(3-1)(2-3)", "C/(1-" + "1" * 4301 + ")", "C2/(1-2)/(1:mass=" + "9" * 4400 + ")"]
    if tier != "quick":
        toks = ["C", "H", "O", "N", "Cl", "2", "3", "10", "1", "(", ")", "-", "/", ":", ",", "=", "mass", "rad", "(1-2)", "(2:rad=3)"]
        for _ in range(150):
            s = rnd.choice(sentences[:14])
            i = rnd.randrange(len(s) + 1)
            sentences.append(s[:i] + rnd.choice(toks) + s[i:])
    for s in sentences:
        try:
            parser = pp._prepare_parser(s)
            tree = parser.tucan()
        except pp.TucanParserException:
            continue  # rejected by ANTLR: nothing for the hand-written part to do
        T = ptree_lean(tree, tucanParser.ruleNames)
        cases.append(Case("parser.graph_from_tree", s[:60], f"Tucan.parser.graph_from_tree {env} {T}",
                          lambda s=s: pp.graph_from_tucan(s), L.jgraph))
    prelude = "def env : DepEnv := harnessEnv [] []\n"
    return ["Generated.Parser"], prelude, cases


class ProbeUnavailable(Exception):
    """an extracted module the probe needs does not compile for this tree (reported through the Lean obligations where it matters)"""


def run_cases(tag: str, imports, prelude: str, cases: list[Case], workdir: str, chunk: int = 24, jobs: int = 16):
    """returns (n_cases, mismatches:list, per-function counts, seconds)"""
    os.makedirs(workdir, exist_ok=True)
    t0 = time.time()
    res = leanbuild.build(["PyModel.Json"] + list(imports))
    bad = [r for r in res.values() if not r.ok]
    if bad:
        raise ProbeUnavailable("cannot build " + ", ".join(r.mod for r in bad) + "\n" + bad[0].output[:1500])
    py_results = [L.run_py(c.py, c.norm) for c in cases]
    chunks = [cases[i:i + chunk] for i in range(0, len(cases), chunk)]
    paths = []
    for ci, ch in enumerate(chunks):
        lines = ["import PyModel.Json"] + [f"import {i}" for i in imports] + ["open Py", "set_option maxRecDepth 100000", "set_option maxHeartbeats 0", prelude]
        for k, c in enumerate(ch):
            lines.append(f"def case{k} (_ : Unit) : String := toJ ({c.lean})")
        lines.append("def main : IO Unit := do")
        for k, c in enumerate(ch):
            lines.append(f"  IO.println (case{k} ())")
        path = os.path.join(workdir, f"Diff_{tag}_{os.getpid()}_{ci}.lean")  # several checks may run at the same time in one work area
        open(path, "w").write("\n".join(lines) + "\n")
        paths.append(path)
    from concurrent.futures import ThreadPoolExecutor
    with ThreadPoolExecutor(max_workers=jobs) as ex:
        procs = list(ex.map(lambda p: leanbuild.run_lean(p, timeout=1200), paths))
    lean_results = []
    for p, ch, path in zip(procs, chunks, paths):
        outl = [l for l in p.stdout.splitlines() if l.strip()]
        if p.returncode != 0 or len(outl) != len(ch):
            raise RuntimeError(f"lean --run failed for {path} (exit {p.returncode}, {len(outl)}/{len(ch)} lines):\n{p.stderr[:4000]}\n{p.stdout[-2000:]}")
        lean_results += [json.loads(l) for l in outl]
    for pth in paths:
        try:
            os.remove(pth)
        except OSError:
            pass
    mism = []
    per_fn: dict[str, int] = {}
    for c, a, b in zip(cases, py_results, lean_results):
        per_fn[c.fn] = per_fn.get(c.fn, 0) + 1
        if c.lean_post and "ok" in b:
            b = {"ok": c.lean_post(b["ok"])}
        if c.unordered and "ok" in a and "ok" in b:
            a = {"ok": sorted(a["ok"]["d"], key=json.dumps)}
            b = {"ok": sorted(b["ok"]["d"], key=json.dumps)}
        if not L.same(a, b):
            mism.append({"function": c.fn, "input": c.name, "python": a, "lean": b})
    return len(cases), mism, per_fn, time.time() - t0


def first_diff(a, b, path=""):
    if isinstance(a, dict) and isinstance(b, dict) and a.keys() == b.keys() and set(a.keys()) != {"f"}:
        for k in a:
            d = first_diff(a[k], b[k], path + "/" + str(k))
            if d:
                return d
        return None
    if isinstance(a, list) and isinstance(b, list) and len(a) == len(b):
        for i, (x, y) in enumerate(zip(a, b)):
            d = first_diff(x, y, path + f"[{i}]")
            if d:
                return d
        return None
    return None if L.same(a, b) else f"{path}: python={json.dumps(a)[:300]} lean={json.dumps(b)[:300]}"


if __name__ == "__main__":
    repo = os.environ.get("TUCAN_REPO", "/repo")
    tucan = load_tucan(repo)
    tier = sys.argv[1] if len(sys.argv) > 1 else "quick"
    which = sys.argv[2:] or ["pipeline", "io", "parser"]
    for w in which:
        imports, prelude, cases = {"pipeline": pipeline_cases, "io": io_cases, "parser": parser_cases}[w](repo, tucan, tier, 1)
        n, mism, per_fn, secs = run_cases(w, imports, prelude, cases, os.path.join(leanbuild.BUILD, "work"))
        print(w, n, "cases", len(mism), "mismatches", f"{secs:.1f}s")
        for k, v in per_fn.items():
            print("  ", k, v)
        for m in mism[:12]:
            print(m["function"], m["input"], first_diff(m["python"], m["lean"]))


