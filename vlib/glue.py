"""Glue obligations: functions that only wire dependencies together (ANTLR set-up, file IO) are outside the Lean model.
Their text is pinned instead: the alpha-normalised AST (docstrings, comments, local names ignored) must equal the
recorded fingerprint, and the ANTLR-generated files must be byte-identical to the recorded ones. A change is reported
as a failed obligation of the properties that rest on this glue (C10, C14, C07); only the bounded parts can then
produce a failing input."""
from __future__ import annotations
import ast, hashlib, json, os

GLUE = {
    "tucan/parser/parser.py": ["graph_from_tucan", "_prepare_parser", "_walk_tree", "TucanListenerImpl.__init__",
                               "RaisingErrorListener.syntaxError", "LexerErrorListener._underline_error", "ParserErrorListener._underline_error"],
    "tucan/io/molfile_reader.py": ["graph_from_file"],
}
GENERATED_FILES = ["tucan/parser/tucanParser.py", "tucan/parser/tucanLexer.py", "tucan/parser/tucanListener.py"]


class _Alpha(ast.NodeTransformer):
    def __init__(self, local_names):
        self.map = {}
        self.local = local_names

    def _n(self, name):
        if name in self.local:
            return self.map.setdefault(name, f"v{len(self.map)}")
        return name

    def visit_Name(self, node):
        return ast.copy_location(ast.Name(id=self._n(node.id), ctx=node.ctx), node)

    def visit_arg(self, node):
        return ast.copy_location(ast.arg(arg=self._n(node.arg), annotation=None), node)


def fingerprint(fn: ast.FunctionDef) -> str:
    fn = ast.parse(ast.unparse(fn)).body[0]
    body = fn.body
    if body and isinstance(body[0], ast.Expr) and isinstance(body[0].value, ast.Constant) and isinstance(body[0].value.value, str):
        body = body[1:] or [ast.Pass()]
    fn.body = body
    fn.returns = None
    local = {a.arg for a in fn.args.args}
    for n in ast.walk(fn):
        if isinstance(n, ast.Name) and isinstance(n.ctx, ast.Store):
            local.add(n.id)
    fn = _Alpha(local).visit(fn)
    for n in ast.walk(fn):
        if isinstance(n, ast.AnnAssign):
            n.annotation = ast.Constant(value=None)
    return hashlib.sha256(ast.dump(fn, annotate_fields=False, include_attributes=False).encode()).hexdigest()[:24]


def current(repo: str) -> dict:
    out = {}
    for rel, names in GLUE.items():
        tree = ast.parse(open(os.path.join(repo, rel)).read())
        found = {}
        for node in tree.body:
            if isinstance(node, ast.FunctionDef):
                found[node.name] = node
            elif isinstance(node, ast.ClassDef):
                for sub in node.body:
                    if isinstance(sub, ast.FunctionDef):
                        found[f"{node.name}.{sub.name}"] = sub
        for n in names:
            out[f"{rel}::{n}"] = fingerprint(found[n]) if n in found else "<missing>"
    for rel in GENERATED_FILES:
        p = os.path.join(repo, rel)
        out[rel] = hashlib.sha256(open(p, "rb").read()).hexdigest()[:24] if os.path.exists(p) else "<missing>"
    return out


def check(repo: str, recorded_path: str) -> list[dict]:
    rec = json.load(open(recorded_path))
    cur = current(repo)
    out = []
    for k in sorted(set(rec) | set(cur)):
        out.append({"obligation": "glue." + k, "ok": rec.get(k) == cur.get(k),
                    "detail": "" if rec.get(k) == cur.get(k) else f"recorded {rec.get(k)} now {cur.get(k)}"})
    return out


if __name__ == "__main__":
    import sys
    here = os.path.dirname(os.path.abspath(__file__))
    if len(sys.argv) > 1 and sys.argv[1] == "--record":
        json.dump(current("/repo"), open(os.path.join(here, "glue.json"), "w"), indent=1, sort_keys=True)
    print(json.dumps(check("/repo", os.path.join(here, "glue.json")), indent=1)[:1500])
