"""Glue obligations: functions that only wire dependencies together (ANTLR set-up, file IO) are outside the Lean model.
Their text is pinned instead: the alpha-normalised AST (docstrings, comments, local names ignored) must equal the
recorded fingerprint, and the ANTLR-generated files must be byte-identical to the recorded ones. A change is reported
as a failed obligation of the properties that rest on this glue (C10, C14, C07); only the bounded parts can then
produce a failing input."""
from __future__ import annotations
import ast, hashlib, json, os

GLUE = {
    "tucan/parser/parser.py": ["graph_from_tucan", "_prepare_parser", "_walk_tree", "TucanListenerImpl.__init__",
                               "RaisingErrorListener.syntaxError", "LexerErrorListener._underline_error", "ParserErrorListener._underline_error"],
    "tucan/io/molfile_reader.py": ["graph_from_file"],
}
GENERATED_FILES = ["tucan/parser/tucanParser.py", "tucan/parser/tucanLexer.py", "tucan/parser/tucanListener.py"]


def fingerprint(fn: ast.FunctionDef) -> str:
    """name- and order-canonical fingerprint of a straight-line-ish glue function:
    * docstring, annotations and decorators-free header are ignored (decorators ARE part of the fingerprint);
    * every local name is replaced by the signature of the expression it is bound to (value numbering), parameters by their
      position, so renaming locals changes nothing;
    * statements of a block that share no local name commute: each block is put into the least order (by signature) compatible
      with the name-sharing dependencies."""
    fn = ast.parse(ast.unparse(fn)).body[0]
    body = fn.body
    if body and isinstance(body[0], ast.Expr) and isinstance(body[0].value, ast.Constant) and isinstance(body[0].value.value, str):
        body = body[1:] or [ast.Pass()]
    params = [a.arg for a in fn.args.args]
    stores: dict[str, list] = {}
    for n in ast.walk(ast.Module(body=body, type_ignores=[])):
        if isinstance(n, (ast.Assign, ast.AnnAssign)) and (not isinstance(n, ast.AnnAssign) or n.value is not None):
            tgts = n.targets if isinstance(n, ast.Assign) else [n.target]
            for t in tgts:
                if isinstance(t, ast.Name):
                    stores.setdefault(t.id, []).append(n.value)
                else:
                    for x in ast.walk(t):
                        if isinstance(x, ast.Name) and isinstance(x.ctx, ast.Store):
                            stores.setdefault(x.id, []).append(None)
        elif isinstance(n, ast.Name) and isinstance(n.ctx, ast.Store):
            stores.setdefault(n.id, stores.get(n.id, []))
    local = set(params) | set(stores)
    memo: dict[str, str] = {}

    def sig(name: str, depth=0) -> str:
        if name in memo:
            return memo[name]
        if name in params:
            r = f"P{params.index(name)}"
        elif name in stores and len(stores[name]) == 1 and stores[name][0] is not None and depth < 20:
            memo[name] = "?"  # cycle guard
            r = "=" + dump(stores[name][0], depth + 1)
        elif name in local:
            r = "V:" + name
        else:
            r = "G:" + name
        memo[name] = r
        return r

    def dump(node, depth=0) -> str:
        node = ast.parse(ast.unparse(node), mode="eval").body if isinstance(node, ast.expr) else node

        class R(ast.NodeTransformer):
            def visit_Name(self, n):
                return ast.Name(id=sig(n.id, depth) if n.id in local else "G:" + n.id, ctx=ast.Load())

            def visit_arg(self, n):
                return ast.arg(arg=sig(n.arg, depth), annotation=None)

            def visit_AnnAssign(self, n):
                self.generic_visit(n)
                return ast.Assign(targets=[n.target], value=n.value) if n.value is not None else ast.Pass()
        import copy
        return ast.dump(R().visit(copy.deepcopy(node)), annotate_fields=False, include_attributes=False)

    def locals_of(stmt) -> set:
        return {n.id for n in ast.walk(stmt) if isinstance(n, ast.Name) and n.id in local} | \
               {"self." + n.attr for n in ast.walk(stmt) if isinstance(n, ast.Attribute) and isinstance(n.value, ast.Name) and n.value.id == "self"}

    def canon_block(stmts) -> list[str]:
        keys = []
        for st in stmts:
            if isinstance(st, (ast.If, ast.For, ast.While, ast.Try, ast.With)):
                parts = [type(st).__name__]
                for f in ("test", "iter", "target"):
                    if getattr(st, f, None) is not None:
                        parts.append(dump(getattr(st, f)))
                for f in ("body", "orelse", "finalbody"):
                    if getattr(st, f, None):
                        parts.append("[" + ";".join(canon_block(getattr(st, f))) + "]")
                for h in getattr(st, "handlers", []):
                    parts.append("except " + (dump(h.type) if h.type else "") + "[" + ";".join(canon_block(h.body)) + "]")
                keys.append(("|".join(parts), locals_of(st), False))
            else:
                keys.append((dump(st), locals_of(st), isinstance(st, (ast.Assign, ast.AnnAssign, ast.Expr, ast.AugAssign))))
        out, remaining = [], list(range(len(keys)))
        while remaining:
            ready = []
            for i in remaining:
                blockers = [j for j in remaining if j < i and (not keys[i][2] or not keys[j][2] or (keys[j][1] & keys[i][1]))]
                if not blockers:
                    ready.append(i)
            pick = min(ready, key=lambda i: keys[i][0])
            out.append(keys[pick][0])
            remaining.remove(pick)
        return out
    text = "decorators=" + ",".join(ast.dump(d, annotate_fields=False) for d in fn.decorator_list) + ";nparams=%d;" % len(params) + ";".join(canon_block(body))
    return hashlib.sha256(text.encode()).hexdigest()[:24]


MODULE_HEADERS = ["tucan/__init__.py", "tucan/io/__init__.py", "tucan/io/exception.py", "tucan/graph_attributes.py", "tucan/graph_utils.py",
                  "tucan/canonicalization.py", "tucan/serialization.py", "tucan/io/molfile_reader.py", "tucan/io/molfile_v3000_reader.py",
                  "tucan/io/molfile_v2000_reader.py", "tucan/io/molfile_writer.py", "tucan/parser/parser.py", "tucan/element_attributes.py"]


def module_header_fingerprint(path: str) -> str:
    """what a module does at import time besides defining functions/classes: the bindings of every imported name that is
    actually used in the module (so `from operator import lt as gt` or a re-export of a different function is seen, an unused
    new import is not), the class headers (bases), and every other module-level statement; order-insensitive for imports"""
    tree = ast.parse(open(path).read())
    used = {n.id for n in ast.walk(tree) if isinstance(n, ast.Name)} | {n.value.id for n in ast.walk(tree) if isinstance(n, ast.Attribute) and isinstance(n.value, ast.Name)}
    exported_all = path.endswith("__init__.py")
    imports, others = [], []
    for node in tree.body:
        if isinstance(node, ast.Import):
            for a in node.names:
                if exported_all or (a.asname or a.name.split(".")[0]) in used:
                    imports.append(f"import {a.name} as {a.asname or a.name}")
        elif isinstance(node, ast.ImportFrom):
            for a in node.names:
                if exported_all or (a.asname or a.name) in used:
                    imports.append(f"from {'.' * node.level}{node.module} import {a.name} as {a.asname or a.name}")
        elif isinstance(node, ast.FunctionDef):
            others.append("def " + node.name + " decorators=" + ",".join(ast.dump(d, annotate_fields=False) for d in node.decorator_list))
        elif isinstance(node, ast.ClassDef):
            body = [ast.dump(x, annotate_fields=False) for x in node.body if not isinstance(x, (ast.FunctionDef, ast.Expr, ast.Pass))]
            others.append("class " + node.name + "(" + ",".join(ast.unparse(b) for b in node.bases) + ") " + ";".join(body)
                          + " methods=" + ",".join(sorted(x.name + "@" + ",".join(ast.unparse(d) for d in x.decorator_list) for x in node.body if isinstance(x, ast.FunctionDef))))
        elif isinstance(node, ast.Expr) and isinstance(node.value, ast.Constant):
            continue  # docstring
        else:
            if isinstance(node, ast.AnnAssign) and node.value is not None:
                node = ast.Assign(targets=[node.target], value=node.value)
            others.append(ast.dump(node, annotate_fields=False, include_attributes=False))
    text = "|".join(sorted(imports)) + "##" + "|".join(others)
    return hashlib.sha256(text.encode()).hexdigest()[:24]


def current(repo: str) -> dict:
    out = {}
    for rel in MODULE_HEADERS:
        p = os.path.join(repo, rel)
        out["module:" + rel] = module_header_fingerprint(p) if os.path.exists(p) else "<missing>"
    for rel, names in GLUE.items():
        tree = ast.parse(open(os.path.join(repo, rel)).read())
        found = {}
        for node in tree.body:
            if isinstance(node, ast.FunctionDef):
                found[node.name] = node
            elif isinstance(node, ast.ClassDef):
                for sub in node.body:
                    if isinstance(sub, ast.FunctionDef):
                        found[f"{node.name}.{sub.name}"] = sub
        for n in names:
            out[f"{rel}::{n}"] = fingerprint(found[n]) if n in found else "<missing>"
    for rel in GENERATED_FILES:
        p = os.path.join(repo, rel)
        out[rel] = hashlib.sha256(open(p, "rb").read()).hexdigest()[:24] if os.path.exists(p) else "<missing>"
    return out


def check(repo: str, recorded_path: str) -> list[dict]:
    rec = json.load(open(recorded_path))
    cur = current(repo)
    out = []
    for k in sorted(set(rec) | set(cur)):
        out.append({"obligation": "glue." + k, "ok": rec.get(k) == cur.get(k),
                    "detail": "" if rec.get(k) == cur.get(k) else f"recorded {rec.get(k)} now {cur.get(k)}"})
    return out


if __name__ == "__main__":
    import sys
    here = os.path.dirname(os.path.abspath(__file__))
    if len(sys.argv) > 1 and sys.argv[1] == "--record":
        json.dump(current("/repo"), open(os.path.join(here, "glue.json"), "w"), indent=1, sort_keys=True)
    print(json.dumps(check("/repo", os.path.join(here, "glue.json")), indent=1)[:1500])
