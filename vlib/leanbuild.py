"""Build Lean modules without lake: `lean -o`, content-addressed cache, parallel by dependency level.

A module is re-elaborated only if the sha256 of (lean version, its text, the keys of its
project-local imports) has not been seen before; cached .olean files live in build/cache/<key>/.
"""
from __future__ import annotations
import hashlib, os, re, shutil, subprocess, sys, threading, time
from concurrent.futures import ThreadPoolExecutor

VERIF = os.path.dirname(os.path.dirname(os.path.abspath(__file__)))
# VERIF_WORK: private work area (own copy of the Lean sources incl. Generated, own .olean and output
# directories) used when checking a scratch copy of the repository; the content-addressed cache is shared.
WORK = os.environ.get("VERIF_WORK")
LEAN_SRC = os.path.join(WORK or VERIF, "lean")
BUILD = os.path.join(WORK or VERIF, "build")
OLEAN = os.path.join(BUILD, "olean")
CACHE = os.path.join(VERIF, "build", "cache")
OUT = WORK or VERIF  # evidence/ and replay/ are written here
_LEAN_VERSION = None
LOCAL_ROOTS = ("PyModel", "Spec", "Contracts", "Generated", "Probe", "Baseline", "ContractsBase", "Tools")


def lean_version() -> str:
    global _LEAN_VERSION
    if _LEAN_VERSION is None:
        _LEAN_VERSION = subprocess.run(["lean", "--version"], capture_output=True, text=True).stdout.strip()
    return _LEAN_VERSION


def module_path(mod: str) -> str:
    return os.path.join(LEAN_SRC, *mod.split(".")) + ".lean"


def local_imports(text: str) -> list[str]:
    out = []
    for line in text.splitlines():
        m = re.match(r"\s*import\s+([A-Za-z0-9_.]+)", line)
        if m and m.group(1).split(".")[0] in LOCAL_ROOTS:
            out.append(m.group(1))
    return out


def _atomic_copy(src, dst):
    tmp = f"{dst}.{os.getpid()}.{threading.get_ident()}.tmp"
    shutil.copyfile(src, tmp)
    os.replace(tmp, dst)


class Result:
    def __init__(self, mod):
        self.mod = mod
        self.ok = False
        self.cached = False
        self.seconds = 0.0
        self.output = ""
        self.key = ""
        self.skipped = False  # a dependency failed
        self.degraded = False  # the module has errors, but an .olean was written by the error-tolerant driver (Tools/Tolerant.lean):
        #                        failed proofs are `sorryAx`, declarations whose statement failed are absent
        self.timeout = False


def closure(mods: list[str]) -> list[str]:
    order, seen = [], set()

    def visit(m):
        if m in seen:
            return
        seen.add(m)
        with open(module_path(m)) as f:
            for d in local_imports(f.read()):
                visit(d)
        order.append(m)

    for m in mods:
        visit(m)
    return order


def build(mods: list[str], jobs: int = 16, timeout: int = 1500, verbose: bool = False, tolerant: bool = False) -> dict[str, Result]:
    """Compile `mods` and their local dependencies. Returns per-module results.
    tolerant=True: a module that `lean -o` rejects is elaborated again by Tools/Tolerant.lean, which writes the .olean in spite of the
    errors (Result.degraded); modules importing it are then still checked, so that a failure only affects the theorems that depend on it."""
    order = closure(mods)
    texts = {m: open(module_path(m)).read() for m in order}
    deps = {m: local_imports(texts[m]) for m in order}
    keys: dict[str, str] = {}
    for m in order:  # topological
        h = hashlib.sha256()
        h.update(lean_version().encode())
        h.update(texts[m].encode())
        for d in deps[m]:
            h.update(keys[d].encode())
        keys[m] = h.hexdigest()
    results = {m: Result(m) for m in order}
    os.makedirs(OLEAN, exist_ok=True)
    os.makedirs(CACHE, exist_ok=True)
    env = dict(os.environ, LEAN_PATH=OLEAN)

    def olean_of(m):
        return os.path.join(OLEAN, *m.split(".")) + ".olean"

    def one(m):
        r = results[m]
        r.key = keys[m]
        usable = lambda d: results[d].ok or (tolerant and results[d].degraded)  # noqa: E731
        if any(not usable(d) for d in deps[m]):
            r.skipped = True
            r.output = "skipped: a dependency failed: " + ", ".join(d for d in deps[m] if not usable(d))
            return r
        cdir = os.path.join(CACHE, keys[m])
        dst = olean_of(m)
        os.makedirs(os.path.dirname(dst), exist_ok=True)
        if os.path.exists(os.path.join(cdir, "ok")):
            _atomic_copy(os.path.join(cdir, "m.olean"), dst)
            r.ok, r.cached = True, True
            r.output = open(os.path.join(cdir, "out.txt")).read()
            r.seconds = float(open(os.path.join(cdir, "ok")).read() or 0)
            return r
        if tolerant and os.path.exists(os.path.join(cdir, "degraded")):
            _atomic_copy(os.path.join(cdir, "m.olean"), dst)
            r.degraded, r.cached = True, True
            r.output = open(os.path.join(cdir, "out.txt")).read()
            r.seconds = float(open(os.path.join(cdir, "degraded")).read() or 0)
            return r
        t = time.time()
        try:
            tmp_out = f"{dst}.{os.getpid()}.{threading.get_ident()}.tmp"
            p = subprocess.run(["lean", "-o", tmp_out, module_path(m)], capture_output=True, text=True, env=env,
                               cwd=LEAN_SRC, timeout=timeout)
            r.output = p.stdout + p.stderr
            r.ok = p.returncode == 0
            if r.ok:
                os.replace(tmp_out, dst)
            elif os.path.exists(tmp_out):
                os.remove(tmp_out)
        except subprocess.TimeoutExpired:
            r.output = f"TIMEOUT after {timeout}s"
            r.ok = False
            r.timeout = True
        if not r.ok and tolerant and not r.timeout:
            try:
                tmp_out = f"{dst}.{os.getpid()}.{threading.get_ident()}.tol"
                p = subprocess.run(["lean", "--run", os.path.join(VERIF, "lean", "Tools", "Tolerant.lean"), module_path(m), m, tmp_out],
                                   capture_output=True, text=True, env=env, cwd=LEAN_SRC, timeout=timeout * 2)
                if os.path.exists(tmp_out) and os.path.getsize(tmp_out) > 0:
                    os.replace(tmp_out, dst)
                    r.degraded = True
                    r.output = r.output + "\n--- error-tolerant build: " + (p.stderr.strip().splitlines() or ["?"])[-1]
                else:
                    r.output += "\n--- error-tolerant build failed: " + (p.stdout + p.stderr)[-2000:]
            except subprocess.TimeoutExpired:
                r.output += "\n--- error-tolerant build: TIMEOUT"
        r.seconds = time.time() - t
        if r.ok or r.degraded:
            os.makedirs(cdir, exist_ok=True)
            _atomic_copy(dst, os.path.join(cdir, "m.olean"))
            open(os.path.join(cdir, "out.txt"), "w").write(r.output)
            open(os.path.join(cdir, "ok" if r.ok else "degraded"), "w").write(f"{r.seconds:.2f}")
        if verbose:
            print(f"  [{'ok' if r.ok else 'DEGRADED' if r.degraded else 'FAIL'}] {m} {r.seconds:.1f}s", flush=True)
        return r

    # level scheduling
    done: set[str] = set()
    remaining = list(order)
    with ThreadPoolExecutor(max_workers=jobs) as ex:
        while remaining:
            ready = [m for m in remaining if all(d in done for d in deps[m])]
            assert ready, "cyclic imports"
            for r in ex.map(one, ready):
                done.add(r.mod)
            remaining = [m for m in remaining if m not in done]
    return results


def run_lean(path: str, timeout: int = 600) -> subprocess.CompletedProcess:
    env = dict(os.environ, LEAN_PATH=OLEAN)
    return subprocess.run(["lean", "--run", path], capture_output=True, text=True, env=env, timeout=timeout)


if __name__ == "__main__":
    res = build(sys.argv[1:], verbose=True)
    bad = [r for r in res.values() if not r.ok]
    for r in bad:
        print("=====", r.mod)
        print(r.output[:6000])
    sys.exit(1 if bad else 0)
