"""MANIFEST.setup_cmd: pre-compile the code-independent Lean libraries (PyModel, Spec)."""
import sys, os, glob
from . import leanbuild

def main():
    mods = []
    for root in ("PyModel", "Spec"):
        for f in sorted(glob.glob(os.path.join(leanbuild.LEAN_SRC, root, "*.lean"))):
            mods.append(root + "." + os.path.basename(f)[:-5])
    res = leanbuild.build(mods, verbose=True)
    bad = [r for r in res.values() if not r.ok]
    for r in bad:
        print("FAILED", r.mod)
        print(r.output[:4000])
    return 1 if bad else 0

if __name__ == "__main__":
    sys.exit(main())
