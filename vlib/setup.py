"""MANIFEST.setup_cmd: pre-compile the Lean libraries (PyModel, Spec, registered Contracts over the code
extracted from /repo) so that the per-property checks start from a warm content-addressed cache.
Nothing here decides anything: every check re-extracts and rebuilds whatever changed."""
import sys, os, glob
from . import leanbuild, registry, extract


def main():
    extract.write_generated(os.path.join(leanbuild.LEAN_SRC, "Generated"), os.environ.get("TUCAN_REPO", "/repo"))
    mods = ["PyModel.Json"]
    for f in sorted(glob.glob(os.path.join(leanbuild.LEAN_SRC, "Generated", "*.lean"))):
        mods.append("Generated." + os.path.basename(f)[:-5])
    used = sorted({registry.LEAN[k] for p in registry.PROPS.values() for k in p.get("lean", [])})
    mods += used + sorted({m for v in registry.WITNESSES.values() for m, _ in v}) + ["Tools.Cone"]
    # equivalence rescue (DESIGN.md §13.7): the contract text against the committed snapshot lean/Baseline
    from . import baseline
    mods += baseline.contracts_base(leanbuild.LEAN_SRC, used) + ["Spec.Refactor"]
    res = leanbuild.build(mods, verbose=True)
    bad = [r for r in res.values() if not r.ok]
    for r in bad:
        print("FAILED", r.mod)
        print(r.output[:4000])
    return 1 if bad else 0


if __name__ == "__main__":
    sys.exit(main())
