"""Which contracts, functions, probes and bounded parts decide which property (DESIGN.md §6).

Only Lean modules that are completely proved (no `sorry`) on the unchanged tree are registered
under `lean`; everything else a property needs is listed under `bounded` and labelled as such."""
from __future__ import annotations

F = {
    "attribute_sequence": ("tucan.graph_utils", "attribute_sequence"),
    "sort_molecule_by_attribute": ("tucan.graph_utils", "sort_molecule_by_attribute"),
    "graph_from_molecule": ("tucan.graph_utils", "graph_from_molecule"),
    "_add_invariant_code": ("tucan.graph_utils", "_add_invariant_code"),
    "permute_molecule": ("tucan.graph_utils", "permute_molecule"),
    "_permute_molecule": ("tucan.graph_utils", "_permute_molecule"),
    "_sort_molecule_by_label": ("tucan.graph_utils", "_sort_molecule_by_label"),
    "partition_molecule_by_attribute": ("tucan.canonicalization", "partition_molecule_by_attribute"),
    "get_number_of_partitions": ("tucan.canonicalization", "get_number_of_partitions"),
    "refine_partitions": ("tucan.canonicalization", "refine_partitions"),
    "assign_canonical_labels": ("tucan.canonicalization", "assign_canonical_labels"),
    "canonicalize_molecule": ("tucan.canonicalization", "canonicalize_molecule"),
    "serialize_molecule": ("tucan.serialization", "serialize_molecule"),
    "_write_edge_list": ("tucan.serialization", "_write_edge_list"),
    "_write_node_attributes": ("tucan.serialization", "_write_node_attributes"),
    "_write_sum_formula": ("tucan.serialization", "_write_sum_formula"),
    "_assign_final_labels": ("tucan.serialization", "_assign_final_labels"),
    "_labels_by_partition": ("tucan.serialization", "_labels_by_partition"),
}

CANON = [F[k] for k in ("attribute_sequence", "partition_molecule_by_attribute", "get_number_of_partitions", "refine_partitions",
                        "assign_canonical_labels", "canonicalize_molecule", "graph_from_molecule", "_add_invariant_code")]
SERIAL = [F[k] for k in ("serialize_molecule", "_write_edge_list", "_write_node_attributes", "_write_sum_formula", "_assign_final_labels",
                         "_labels_by_partition", "sort_molecule_by_attribute", "attribute_sequence")]
PARSER = [("tucan.parser.parser", n) for n in ("_to_int", "TucanListenerImpl._validate_atom_index", "TucanListenerImpl._add_atoms",
                                               "TucanListenerImpl._add_bond", "TucanListenerImpl._add_node_attribute",
                                               "TucanListenerImpl._parse_sum_formula", "TucanListenerImpl.enterWith_carbon",
                                               "TucanListenerImpl.enterWithout_carbon", "TucanListenerImpl.enterTuple",
                                               "TucanListenerImpl.enterNode_property", "TucanListenerImpl.to_graph")] + [F["graph_from_molecule"], F["_add_invariant_code"]]
V3000 = [("tucan.io.molfile_v3000_reader", n) for n in ("_concat_lines_with_dash", "_tokenize_lines", "_validate_counts_line", "_parse_atom_attributes",
                                                        "_parse_atom_block", "_parse_bond_attributes", "_parse_bond_line_with_star_atom", "_parse_bond_block",
                                                        "_validate_atom_index", "_validate_bond_indices", "graph_attributes_from_molfile_v3000")] + \
        [("tucan.element_attributes", "detect_hydrogen_isotopes"), ("tucan.io.molfile_reader", "graph_from_molfile_text"), ("tucan.io.molfile_reader", "_validate_atom_attributes"),
         ("tucan.io.molfile_reader", "_validate_bonds"), F["graph_from_molecule"], F["_add_invariant_code"]]
V2000 = [("tucan.io.molfile_v2000_reader", n) for n in ("_to_int", "_to_float", "_validate_atom_index", "_parse_atom_line", "_parse_atom_block", "_parse_bond_line",
                                                        "_parse_bond_block", "_parse_atom_value_assignments", "_merge_tuples_into_additional_attributes",
                                                        "_clear_atom_attribute", "_merge_atom_attributes_and_additional_attributes", "_parse_attribute_block",
                                                        "graph_attributes_from_molfile_v2000")] + \
        [("tucan.element_attributes", "detect_hydrogen_isotopes"), ("tucan.io.molfile_reader", "graph_from_molfile_text")]
WRITER = [("tucan.io.molfile_writer", n) for n in ("_add_header", "_add_v30_line", "_add_atom_block", "_add_bond_block", "graph_to_molfile")]

# Lean modules that are registered as fully proved (filled in as proofs are completed)
LEAN = {
    "order": "Spec.Order",
    "v30line": "Contracts.V30Line",
    "serialize": "Contracts.Serialize",
    "partition": "Contracts.Partition",
    "relabel": "Contracts.Relabel",
    "graphlemmas": "Spec.GraphLemmas",
    "parser": "Contracts.Parser",
    "canonicalize": "Contracts.Canonicalize",
    "finallabels": "Contracts.FinalLabels",
    "layout": "Contracts.Layout",
    "writer": "Contracts.Writer",
    "reader": "Contracts.Reader",
    "pipeline": "Contracts.Pipeline",
    "roundtrip": "Contracts.RoundTrip",
    "final": "Contracts.Final",
    "v3000": "Contracts.V3000",
    "v2000": "Contracts.V2000",
    # written after the independent audit (lean/AUDIT.md) to close the gaps it found
    "bonds": "Contracts.Bonds",
    "c07star": "Contracts.C07Star",
    "c07starbonds": "Contracts.C07StarBonds",
    "fileiso": "Contracts.FileIso",
    "writerext": "Contracts.WriterExt",
    "c11ext": "Contracts.C11Ext",
    "v2000file": "Contracts.V2000File",
    "witness2": "Contracts.Witness2",
    "relabeltotal": "Contracts.RelabelTotal",
    "readerpost": "Contracts.ReaderPost",
    "c10full": "Contracts.C10Full",
    # written in the last session: coordinates across the two formats (float ignores blanks), star-atom tables at file level
    "c08coords": "Contracts.C08Coords",
    "fileisostar": "Contracts.FileIsoStar",
    "witness4": "Contracts.Witness4",
}

PROPS = {
    "C01": dict(probes=["v3"], functions=CANON + SERIAL + V3000 + V2000, lean=["pipeline", "canonicalize", "finallabels", "layout", "serialize", "reader", "fileiso", "fileisostar", "v2000file", "witness2", "witness4"], diff=["pipeline", "io"],
                bounded=[("pipeline", "c01"), ("c01_text", None)],
                canary="C01"),
    "C02": dict(probes=["v3"], functions=CANON + SERIAL + PARSER, lean=["roundtrip", "layout", "parser", "canonicalize"], diff=["pipeline", "parser"], bounded=[("c02", None)]),
    "C03": dict(probes=["v3"], functions=CANON + SERIAL + PARSER, lean=["final", "roundtrip", "layout", "parser", "canonicalize", "finallabels"], diff=["pipeline", "parser"], bounded=[("pipeline", "c03")]),
    "C04": dict(probes=["v3"], functions=CANON, lean=["canonicalize"], diff=["pipeline"], bounded=[("pipeline", "c04")]),
    "C05": dict(functions=CANON + SERIAL + V3000 + V2000, lean=["pipeline", "layout", "serialize", "reader", "v2000file", "fileiso", "witness2", "readerpost"], diff=["pipeline"], bounded=[("c05", None)]),
    "C06": dict(functions=CANON + SERIAL + V3000 + V2000, lean=["final", "pipeline", "reader", "v3000", "v2000", "fileiso", "witness2", "fileisostar", "witness4"], diff=["pipeline", "io"], bounded=[("c06", None)]),
    "C07": dict(functions=V3000, lean=["reader", "v30line", "v3000", "bonds", "c07star", "c07starbonds"], diff=["io"], bounded=[("c07", None)]),
    "C08": dict(probes=["v5"], functions=V2000 + V3000 + CANON + SERIAL, lean=["final", "v2000", "reader", "v2000file", "bonds", "fileiso", "c08coords", "witness4"], diff=["io"], bounded=[("c08", None)]),
    "C09": dict(probes=["v5"], functions=WRITER + V3000 + PARSER + CANON + SERIAL, lean=["final", "writer", "v30line", "writerext", "bonds"], diff=["io"], bounded=[("c09", None)]),
    "C10": dict(functions=PARSER, lean=["parser", "c10full"], diff=["parser"], bounded=[("c10", None)]),
    "C11": dict(probes=["v3"], functions=PARSER + CANON + SERIAL, lean=["final", "roundtrip", "parser", "canonicalize", "layout", "finallabels", "c11ext"], diff=["parser", "pipeline"], bounded=[("c11", None)]),
    "C12": dict(functions=CANON + SERIAL, lean=["canonicalize", "relabel", "finallabels"], diff=["pipeline"], bounded=[("pipeline", "c12")]),
    "C13": dict(probes=[], functions=CANON, lean=["canonicalize", "partition", "c11ext"], diff=["pipeline"], bounded=[("pipeline", "c13")]),
    "C14": dict(functions=CANON + SERIAL + PARSER + V3000 + V2000 + WRITER, frames="registered", lean=["pipeline", "finallabels"], diff=[], bounded=[("c14", None)]),
    "C15": dict(functions=CANON + SERIAL + PARSER, lean=["pipeline", "canonicalize", "finallabels", "partition", "parser"], diff=["pipeline"], bounded=[("c15", None)]),
    "C16": dict(probes=["v6"], functions=[F["permute_molecule"], F["_permute_molecule"], F["_sort_molecule_by_label"]], lean=["relabel", "relabeltotal"], diff=["pipeline"], bounded=[("c16", None)]),
}


# Property-level theorems (statement taken from the property text) and the level claimed per property.
# level "proof": every link of the argument is a discharged Lean obligation over code extracted on this run (dependency
# contracts V3-V6 are hypotheses of the theorems); the bounded part then only serves as refuter and as probe of the model.
TOP = {
    "C01": dict(level="proof", theorems=["Contracts.Pipeline.C01_main", "Contracts.Pipeline.C01_tucan", "Contracts.FinalLabels.assign_final_labels_order_independent", "Contracts.FileIso.C01_files", "Contracts.FileIso.C01_C06_files", "Contracts.FileIso.C01_C06_texts", "Contracts.FileIsoStar.C01_C06_files_star", "Contracts.Witness2.C06_v2000_renderings"],
                note="graph level: any renaming, listing order and set order (two different set orders allowed); file level: two V3000 texts with atom lines permuted, indices renumbered, bond lines permuted and endpoints swapped are both read and get one common string (FileIso.C01_files); two V2000 files of one molecule with the atom lines in another order (in V2000 the listing order is the numbering), bond lines in any order and direction, any encoding choices: Witness2.C06_v2000_renderings. Tables with star atoms (multi-attachment bonds, ENDPTS) at file level: FileIsoStar.C01_C06_files_star over the non-star atom lines and the linked relation (a bond may be written as an ordinary bond line in one file and through a star atom in the other); the star-free theorem is its special case (plain_is_special_case). Hypotheses that are assumptions: BlissLawful (bliss contract, probe V3), SetLawful"),
    "C02": dict(level="proof", theorems=["Contracts.RoundTrip.C02_pipeline'", "Contracts.RoundTrip.C02_main'", "Contracts.RoundTrip.render_inj"],
                note="equal strings imply a colour-preserving isomorphism of the input molecules; unconditional on ANTLR (proved through injectivity of the rendering); under BlissLawful/SetLawful only for the pipeline runs to succeed"),
    "C03": dict(level="proof", theorems=["Contracts.Final.C03_fixpoint", "Contracts.Final.C03_fixpoint_ex", "Contracts.RoundTrip.C03_pipeline", "Contracts.RoundTrip.C03_main", "Contracts.Parser.graph_from_tree_ok"],
                note="both clauses proved under assumption V4 (ANTLR returns the tree of the grammar on the emitted string; bounded differential probe), BlissLawful, SetLawful; molecules are reader/parser output (MolOK, InvariantCodeOK)"),
    "C04": dict(level="proof", theorems=["Contracts.Canonicalize.C04_main"], note="under BlissLawful; requires that equal invariant codes imply equal identity attributes (true for reader/parser output)"),
    "C05": dict(level="proof", theorems=["Contracts.Pipeline.C05_pipeline", "Contracts.Layout.Grammar.tucanSpec_in_grammar", "Contracts.Layout.tuples_layout", "Contracts.Layout.blocks_layout", "Contracts.Layout.formula_layout", "Contracts.V2000File.read_v2000_render", "Contracts.Witness2.C05_v2000_rendering", "Contracts.ReaderPost.graph_from_molfile_text_post", "Contracts.ReaderPost.C05_any_reader_output"],
                note="grammar = tucan.ebnf transcribed into Lean at character level (checked against the file every run). The preconditions on the molecule (symbols from the element table, positive mass/rad, no self-loop) are proved as an unconditional postcondition of the reader: whenever graph_from_molfile_text returns a graph, for any text, V2000 or V3000, star atoms included, it satisfies them (ReaderPost.graph_from_molfile_text_post, after fixes D3, D7, D8), hence ReaderPost.C05_any_reader_output; parser output likewise (Final.parsed_ok, under V4)"),
    "C06": dict(level="proof", theorems=["Contracts.Final.C06_reader_text", "Contracts.Final.C06_reader", "Contracts.Final.C08_agree", "Contracts.Pipeline.C06_graph_half", "Contracts.Reader.splitlines_crlf", "Contracts.Reader.graph_from_molfile_text_dress_irrelevant", "Contracts.FileIso.C06_files", "Contracts.FileIso.C06_resonance", "Contracts.FileIso.C01_C06_files", "Contracts.FileIso.C01_C06_texts", "Contracts.Witness2.C06_v2000_renderings", "Contracts.FileIsoStar.C01_C06_files_star"],
                note="two renderings that agree on the normalised identity data (element with D/T = H mass 2/3, mass, radical; 0 = unset) up to a bijection of the atom lines get one common string, both reads succeed: coordinates, bond orders and annotations, charges, headers, index values, foreign keywords, line endings (LF/CRLF mixtures) are free. File-level theorems: two star-free V3000 texts (FileIso.C01_C06_files, C06_files, C06_resonance), two V2000 renderings of abstract molecules with any encoding choices (Witness2.C06_v2000_renderings), V2000 vs V3000 of one molecule (C08). FileIso.C01_C06_v2000 / _v3000_v2000 generalise this over parsed line data and are intermediate only. Tables with star atoms: FileIsoStar.C01_C06_files_star (identity over the non-star atom lines, connectivity = linked, i.e. ENDPTS expanded; number, position and spelling of star atoms free; validity of the second file derived from the isomorphism)"),
    "C07": dict(level="proof", theorems=["Contracts.Reader.graph_from_molfile_text_render_ok", "Contracts.Reader.fileMeaning_plain_graph", "Contracts.V3000._parse_atom_attributes_ok", "Contracts.V30Line.splice_phys", "Contracts.Bonds.graph_from_molfile_text_render_ok_bonds", "Contracts.C07Star.graph_from_molfile_text_render_star", "Contracts.C07Star.graph_from_molfile_text_render_star_bonds", "Contracts.C07Star.graph_from_molfile_text_render_star_reject", "Contracts.C07Star.keyword_order_text", "Contracts.C07Star.wf_of_format", "Contracts.C07Star._parse_atom_attributes_keyword_order"],
                note="V3000 renderer with arbitrary blank runs, cut points, header lines, separators, index values, keyword order (each of CHG/RAD/MASS at most once, shown necessary), foreign keywords; atoms, attributes and bond types on the returned graph; star atoms with ENDPTS expanded at text level (C07Star). float() opaque (V5). Known finding D11: a quoted string value containing a word like CHG=5 is misread (tokenizer not quote-aware)"),
    "C08": dict(level="proof", theorems=["Contracts.Final.C08_agree", "Contracts.Reader.graph_from_molfile_text_v2000", "Contracts.V2000._parse_attribute_block_ok", "Contracts.V2000.specGet_mass_kept", "Contracts.V2000File.read_v2000_render", "Contracts.V2000File.read_v3000_render", "Contracts.V2000File.read_v2000_eq_v3000", "Contracts.V2000File.read_v2000_eq_v3000_lists", "Contracts.C08Coords.read_v2000_eq_v3000_coords", "Contracts.C08Coords.read_v2000_eq_v3000_coords'", "Contracts.C08Coords.read_v2000_eq_v3000_lists_coords", "Contracts.Witness4.read_v2000_eq_v3000_lists_coords'", "Contracts.C08Coords.coordOf_eq_flt"],
                note="an abstract molecule (<= 999 atoms) rendered as V2000 with any choice of charge code vs M CHG/M RAD lines (supersession rule), grouping of 1-8 entries per line, unrelated property lines, atom lists, D/T with or without M ISO is read as exactly that molecule: element, charge, radical, mass, adjacency, bond types (V2000File.read_v2000_render); its V3000 rendering is read with the same values and both get the same TUCAN string (read_v2000_eq_v3000). Coordinates: when both files write the same coordinate token (V2000: right-aligned in its ten columns), every attribute of every node, coordinates included, agrees between the two readings (C08Coords.read_v2000_eq_v3000_coords') under the hypothesis FloatIgnoresBlanks = float() of a blank-padded ten-column field equals float() of the bare token (a law of CPython's float, satisfiable with a non-constant model: floatIgnoresBlanks_satisfiable; probed on CPython in probe V5); without that hypothesis all keys but the coordinates (read_v2000_eq_v3000). Not covered: numerically equal but differently spelled coordinate tokens (1.2 vs 1.2000), blank coordinate fields"),
    "C09": dict(level="proof", theorems=["Contracts.Writer.C09", "Contracts.Final.C09_tucan", "Contracts.Final.C09_string", "Contracts.Writer.C09_line_length", "Contracts.Writer.C09_splice", "Contracts.Writer.C09_atom_roundtrip", "Contracts.WriterExt.C09_coords", "Contracts.WriterExt.C09_tucan'", "Contracts.WriterExt.C09_string'", "Contracts.WriterExt.written_wellformed", "Contracts.WriterExt.written_wellformed_parsed", "Contracts.Bonds.C09_tucan_bonds", "Contracts.Bonds.C09_string_bonds"],
                note="written file satisfies a format-level well-formedness predicate written from the CTfile rules (WriterExt.written_wellformed) incl. <= 80 characters per line; reading back gives the same atoms in order with element, charge, radical, mass, bond types on the graph (Bonds.C09_tucan_bonds) and coordinates equal to six decimals (WriterExt.C09_coords) under FloatLawful = float law V5 as a Lean hypothesis (satisfiable; probed on CPython); string round trip with hypotheses on the string only (C09_string'). Radicals 1..3 and labels >= 0 as in the quantifier"),
    "C10": dict(level="other", theorems=["Contracts.Parser.graph_from_tree_ok", "Contracts.Parser.graph_from_tree_error_is_TPE", "Contracts.Parser.int_total", "Contracts.C10Full.grammar_iff_ast", "Contracts.C10Full.C10_iff", "Contracts.C10Full.C10_accept", "Contracts.C10Full.C10_reject", "Contracts.C10Full.C10_total"],
                note="the whole statement of C10 is a theorem under the two-sided recogniser assumption V4full (ANTLR returns the grammar's tree on sentences and nothing on non-sentences; shown consistent): accepted iff sentence of the character-level grammar (= tucan.ebnf, compared with the file every run) with valid indices, no self-bond, no duplicate attribute (C10Full.C10_iff); the accepted graph is the denoted molecule (C10_accept); every other string is rejected with TucanParserException (C10_reject, C10_total), for all strings without a numeral of more than 4300 digits (the known finding). The recogniser itself (ANTLR runtime and generated parser) cannot be proved here: that half is the assumption, probed by the bounded differential against an EBNF-derived reader - hence level other"),
    "C11": dict(level="proof", theorems=["Contracts.Final.C11_norm", "Contracts.Final.C11_norm_text", "Contracts.Final.C11_idem_text", "Contracts.RoundTrip.C11_main", "Contracts.C11Ext.C11_renumber", "Contracts.C11Ext.C11_renumber_text", "Contracts.C11Ext.C11_norm_ok", "Contracts.C11Ext.C11_norm_text_ok", "Contracts.C11Ext.C11_domain"],
                note="any finite chain of respellings (reorder/swap/repeat tuples, reorder/split attribute blocks, renumbering inside an element block: C11Ext.Spelling) normalises to one common string with .ok conclusions; idempotence; exact domain (C11_domain): norm returns iff the formula has an atom - the accepted sentences '/' and '//' raise ValueError, known finding D10. String level under assumption V4"),
    "C12": dict(level="proof", theorems=["Contracts.Canonicalize.C12_main", "Contracts.FinalLabels.serialize_molecule_frame_eq", "Contracts.FinalLabels.serialize_molecule_repeat"],
                note="'argument unchanged' is the frame obligation of canonicalize_molecule (no mutated parameter) — back end: extractor"),
    "C13": dict(level="proof", theorems=["Contracts.Canonicalize.C13_main", "Contracts.Canonicalize.C13_classes", "Contracts.Canonicalize.C13_automorphism", "Contracts.Partition.refine_equitable", "Contracts.C11Ext.C13_attrs", "Contracts.C11Ext.C13_main_attrs"],
                note="under BlissLawful (only for carrying the classes through the final renaming) and SetLawful; clause (b) also in the property's words: same class implies same element, mass, radical (C11Ext.C13_attrs)"),
    "C14": dict(level="other", theorems=["Contracts.Pipeline.C01_tucan", "Contracts.FinalLabels.assign_final_labels_order_independent", "Contracts.Partition.partition_eq"],
                note="decided: (hash seed) the pipeline result is the same for any two set iteration orders (C01_tucan with g = h; the extractor shows sets are iterated only in canonicalization/serialization), (history) every function under contract is a pure function of its arguments with the recorded frame: no global writes, external state only random/clock/igraph/float as recorded, fresh listener per parse (glue fingerprint). NOT decided: thread schedules and state inside igraph, networkx and the antlr4 runtime (shared DFA cache) — bounded subprocess/thread probe only"),
    "C15": dict(level="proof", theorems=["Contracts.Pipeline.C15_pipeline_total", "Contracts.Partition.refine_ok", "Contracts.FinalLabels.assign_final_labels_total", "Contracts.Parser.graph_from_tree_error_is_TPE"],
                note="total correctness with explicit fuel; call graph of the extracted functions is acyclic (constant call depth); ANTLR/igraph/networkx internals are assumptions"),
    "C16": dict(level="proof", theorems=["Contracts.Relabel.permute_molecule_spec", "Contracts.Relabel.permute_molecule_rng_irrelevant", "Contracts.RelabelTotal.C16_total", "Contracts.RelabelTotal.permute_molecule_returns", "Contracts.RelabelTotal.permute_molecule_returns_iff", "Contracts.RelabelTotal.permute_molecule_total_small"],
                note="total correctness relative to the generator: the call returns exactly the first candidate relabelling (k-th shuffle draw for the seed) that passes the exit test, for every fuel above that index, and diverges (fuel error) iff no draw below the fuel passes (RelabelTotal.permute_molecule_returns, _returns_iff, C16_total); molecules with <= 1 bond or complete graphs return unconditionally. Hence 'same result for the same seed' is a theorem given the random.shuffle contract V6 (shuffle = a function of seed and draw number that permutes; probed); that some draw passes is a hypothesis about the draws (probability 1, not provable); 'argument unchanged' is the frame obligation"),
}

# vacuity guards: for every property-level theorem a concrete instance satisfying all its hypotheses is machine-checked in
# lean/Contracts/Witness.lean (written by an independent reviewer, see lean/AUDIT.md); the check builds it and lists these per property
WITNESS_MODULE = "Contracts.Witness"
_W = {"C01": ["C01_witness"], "C02": ["C02_witness"], "C03": ["C03_pipeline_witness", "C03_fixpoint_witness"], "C04": ["C04_witness"], "C05": ["C05_witness"],
      "C06": ["C06_reader_witness"], "C07": ["render_ok_witness"], "C08": ["v2000_witness", "C08_witness"], "C09": ["C09_witness"], "C11": ["C11_norm_witness"],
      "C12": ["C12_witness"], "C13": ["C13_witness"], "C15": ["C15_witness"], "C16": ["permute_runs", "permute_witness"]}
# (module, theorem) pairs
WITNESSES = {k: [(WITNESS_MODULE, "Contracts.Witness." + n) for n in v] for k, v in _W.items()}
WITNESSES["C01"].append(("Contracts.FileIsoWitness", "Contracts.FileIsoWitness.C01_C06_witness"))
WITNESSES["C06"].append(("Contracts.FileIsoWitness", "Contracts.FileIsoWitness.C01_C06_witness"))
WITNESSES["C07"] += [("Contracts.C07Star", "Contracts.C07Star.star_witness"), ("Contracts.C07StarBonds", "Contracts.C07Star.star_witness_bonds")]
WITNESSES["C08"] += [("Contracts.V2000File", "Contracts.V2000File.exMol_wf"), ("Contracts.V2000File", "Contracts.V2000File.exChoice_ok")]
WITNESSES["C09"] += [("Contracts.WriterExt", "Contracts.WriterExt.C09_coords_witness"), ("Contracts.WriterExt", "Contracts.WriterExt.written_wellformed_witness"),
                     ("Contracts.WriterExt", "Contracts.WriterExt.floatLawful_satisfiable")]
WITNESSES["C11"] += [("Contracts.C11Ext", "Contracts.C11Ext.renumber_water"), ("Contracts.C11Ext", "Contracts.C11Ext.spelling_water")]
# second audit (lean/AUDIT2.md): full instances of the new main theorems
_W2 = "Contracts.Witness2"
WITNESSES["C01"].append((_W2, _W2 + ".C01_files_witness"))
WITNESSES["C06"].append((_W2, _W2 + ".C06_files_witness"))
WITNESSES["C08"] += [(_W2, _W2 + ".read_v2000_render_witness"), (_W2, _W2 + ".read_v2000_eq_v3000_witness")]
WITNESSES["C09"].append((_W2, _W2 + ".C09_tucan'_witness"))
WITNESSES["C08"] += [("Contracts.C08Coords", "Contracts.C08Coords.coords_witness"), ("Contracts.C08Coords", "Contracts.C08Coords.floatIgnoresBlanks_satisfiable"),
                     ("Contracts.Witness4", "Contracts.Witness4.lists_coords_witness")]
for _p in ("C01", "C06"):
    WITNESSES[_p] += [("Contracts.FileIsoStar", "Contracts.FileIsoStar.star_witness"), ("Contracts.FileIsoStar", "Contracts.FileIsoStar.files_star_witness"),
                      ("Contracts.Witness4", "Contracts.Witness4.star_witness4"), ("Contracts.Witness4", "Contracts.Witness4.files_star_witness4")]
WITNESSES["C11"].append((_W2, _W2 + ".C11_renumber_witness"))
WITNESSES["C13"].append((_W2, _W2 + ".C13_attrs_witness"))
WITNESSES["C05"] += [("Contracts.Witness3", "Contracts.Witness3.C05_star_witness"), ("Contracts.Witness3", "Contracts.Witness3.C05_D_iso5_witness")]
WITNESSES["C10"] = [("Contracts.C10Full", "Contracts.C10Full.C10_witness"), ("Contracts.C10Full", "Contracts.C10Full.V4full_satisfiable")]
WITNESSES["C16"] += [("Contracts.RelabelTotal", "Contracts.RelabelTotal.Witness.C16_total_witness"), ("Contracts.RelabelTotal", "Contracts.RelabelTotal.Witness.returns_witness"),
                     ("Contracts.RelabelTotal", "Contracts.RelabelTotal.Witness.diverges_witness")]
