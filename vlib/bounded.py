"""Bounded stand-ins and refuter scopes (DESIGN.md §2.4/§2.5): property-level predicates evaluated
on the REAL code of the repository over small-scope / targeted input families. Every predicate takes
a JSON-serialisable input, so a failing input can be written to a replay file and re-executed.

These are never counted as proof. They (a) stand in for obligations that are not discharged in Lean,
(b) search for a failing input when a Lean obligation is rejected, (c) probe assumed contracts."""
from __future__ import annotations
import itertools, json, os, random, re, subprocess, sys, time, threading
from types import SimpleNamespace
from . import molgen

# --------------------------------------------------------------------------- loading the code under test


def load(repo: str) -> SimpleNamespace:
    for k in [k for k in sys.modules if k == "tucan" or k.startswith("tucan.")]:
        del sys.modules[k]
    if repo in sys.path:
        sys.path.remove(repo)
    sys.path.insert(0, repo)
    import tucan
    assert os.path.realpath(tucan.__file__).startswith(os.path.realpath(repo)), (tucan.__file__, repo)
    from tucan.graph_utils import graph_from_molecule, permute_molecule
    from tucan.canonicalization import canonicalize_molecule
    from tucan.serialization import serialize_molecule
    from tucan.parser.parser import graph_from_tucan, TucanParserException
    from tucan.io import graph_from_molfile_text, graph_to_molfile, MolfileParserException
    from tucan.element_attributes import ELEMENT_ATTRS
    import tucan.graph_attributes as ga
    import networkx as nx
    return SimpleNamespace(repo=repo, graph_from_molecule=graph_from_molecule, permute_molecule=permute_molecule,
                           canonicalize=canonicalize_molecule, serialize=serialize_molecule, parse=graph_from_tucan,
                           TucanParserException=TucanParserException, read=graph_from_molfile_text, write=graph_to_molfile,
                           MolfileParserException=MolfileParserException, ELEMENT_ATTRS=ELEMENT_ATTRS, ga=ga, nx=nx)


def tucan_of(T, g):
    return T.serialize(T.canonicalize(g))


# --------------------------------------------------------------------------- building graphs from abstract molecules
def build(T, atoms, edges, perm=None, order=None, flips=None, edge_order=None, extra=False, post_relabel=None):
    """atoms: [{"sym", "mass"?, "rad"?, "chg"?}], edges: [[u, v]] over 0..n-1.
    perm: new label of atom i; order: listing order of atoms; flips: per edge orientation; edge_order: listing order of bonds.
    extra: attach non-identity data (coordinates derived from the ORIGINAL index, bond type, charge)."""
    ga = T.ga
    n = len(atoms)
    perm = perm or list(range(n))
    order = order or list(range(n))
    atom_attrs = {}
    for i in order:
        a = atoms[i]
        d = {ga.ELEMENT_SYMBOL: a["sym"], ga.ATOMIC_NUMBER: T.ELEMENT_ATTRS[a["sym"]][ga.ATOMIC_NUMBER], ga.PARTITION: 0}
        if a.get("mass"):
            d[ga.MASS] = a["mass"]
        if a.get("rad"):
            d[ga.RAD] = a["rad"]
        if extra:
            d[ga.X_COORD] = float(i) + 0.5
            d[ga.Y_COORD] = 0.0
            d[ga.Z_COORD] = 0.0
            if a.get("chg"):
                d[ga.CHG] = a["chg"]
        atom_attrs[perm[i]] = d
    es = [list(e) for e in edges]
    idx = edge_order or list(range(len(es)))
    bond_attrs = {}
    for k in idx:
        u, v = es[k]
        if flips and flips[k]:
            u, v = v, u
        bond_attrs[(perm[u], perm[v])] = {ga.BOND_TYPE: 1 + (k % 3)} if extra else {ga.BOND_TYPE: 1}
    g = T.graph_from_molecule(atom_attrs, bond_attrs)
    if post_relabel:
        # labels stay 0..n-1 but the node iteration order no longer equals the label order (what nx.relabel_nodes produces)
        g = T.nx.relabel_nodes(g, {i: post_relabel[i] for i in range(n)}, copy=True)
    return g


def ident_key(T, d):
    ga = T.ga
    return (d[ga.ELEMENT_SYMBOL], d.get(ga.MASS, 0) or 0, d.get(ga.RAD, 0) or 0)


def brute_canon(atoms, edges):
    """independent isomorphism oracle for n <= 7: minimum over all permutations of (colour vector, edge list)"""
    n = len(atoms)
    col = [(a["sym"], a.get("mass", 0) or 0, a.get("rad", 0) or 0) for a in atoms]
    best = None
    es = {frozenset(e) for e in edges}
    for p in itertools.permutations(range(n)):
        c = tuple(col[p[i]] for i in range(n))
        if best is not None and c > best[0]:
            continue
        inv = {p[i]: i for i in range(n)}
        e = tuple(sorted(tuple(sorted((inv[u], inv[v]))) for u, v in (tuple(x) for x in es)))
        cand = (c, e)
        if best is None or cand < best:
            best = cand
    return best


def iso(T, g, h):
    nm = lambda a, b: ident_key(T, a) == ident_key(T, b)
    return T.nx.is_isomorphic(g, h, node_match=nm)


# --------------------------------------------------------------------------- predicates (return None or a description)
def pred_c01(T, inp):
    g = build(T, inp["atoms"], inp["edges"])
    h = build(T, inp["atoms"], inp["edges"], inp.get("perm"), inp.get("order"), inp.get("flips"), inp.get("edge_order"), post_relabel=inp.get("post_relabel"))
    s, t = tucan_of(T, g), tucan_of(T, h)
    if s != t:
        return f"tucan differs under relabeling/reordering: {s!r} vs {t!r}"


def pred_c01_text(T, inp):
    """two molfile descriptions of one molecule (atom lines, bond lines, indices, bond directions permuted)"""
    a = tucan_of(T, T.read(inp["text_a"]))
    b = tucan_of(T, T.read(inp["text_b"]))
    if a != b:
        return f"two molfile descriptions of the same molecule get different TUCAN strings: {a!r} vs {b!r}"


def pred_c04(T, inp):
    ga = T.ga
    g = build(T, inp["atoms"], inp["edges"], extra=True)
    h = build(T, inp["atoms"], inp["edges"], inp.get("perm"), inp.get("order"), inp.get("flips"), inp.get("edge_order"), extra=True, post_relabel=inp.get("post_relabel"))
    c, d = T.canonicalize(g), T.canonicalize(h)
    key = lambda x: (x[ga.ELEMENT_SYMBOL], x.get(ga.MASS), x.get(ga.RAD), x[ga.PARTITION])
    if sorted(c.nodes) != list(range(len(inp["atoms"]))) or sorted(d.nodes) != sorted(c.nodes):
        return f"canonical node labels are not 0..n-1: {sorted(c.nodes)} / {sorted(d.nodes)}"
    if {a: key(c.nodes[a]) for a in c} != {a: key(d.nodes[a]) for a in d}:
        return "canonical node -> (element, mass, rad, class) maps differ"
    if {frozenset(e) for e in c.edges} != {frozenset(e) for e in d.edges}:
        return "canonical edge sets differ"
    # multi-step: a canonical graph, renumbered (nx.relabel_nodes / copy keep graph-level attributes), canonicalized again
    n = len(inp["atoms"])
    ren = inp.get("post_relabel") or list(reversed(range(n)))
    e = T.canonicalize(T.nx.relabel_nodes(c, {i: ren[i] for i in range(n)}, copy=True))
    if {a: key(c.nodes[a]) for a in c} != {a: key(e.nodes[a]) for a in e} or {frozenset(x) for x in c.edges} != {frozenset(x) for x in e.edges}:
        return "canonicalizing a renumbered canonical graph again does not give back the canonical labelled graph"


def pred_c13(T, inp):
    ga = T.ga
    n = len(inp["atoms"])
    g = build(T, inp["atoms"], inp["edges"], extra=True)
    h = build(T, inp["atoms"], inp["edges"], inp.get("perm"), inp.get("order"), inp.get("flips"), inp.get("edge_order"), extra=True, post_relabel=inp.get("post_relabel"))
    c, d = T.canonicalize(g), T.canonicalize(h)
    orig = lambda x: int(x[ga.X_COORD] - 0.5)
    cls1 = {orig(c.nodes[a]): c.nodes[a][ga.PARTITION] for a in c}
    cls2 = {orig(d.nodes[a]): d.nodes[a][ga.PARTITION] for a in d}
    if cls1 != cls2:
        return f"partition classes depend on labeling/order: {cls1} vs {cls2}"
    # multi-step: a canonicalized graph (it carries classes) is edited - one atom removed, which can make atoms equivalent that
    # were not - and canonicalized again; the classes must be those of the same molecule canonicalized without that history
    if n >= 2:
        for victim in {0, n - 1}:
            e1 = c.copy()
            e1.remove_node(victim)
            e2 = e1.copy()
            for a in e2:
                e2.nodes[a][ga.PARTITION] = 0
            k1, k2 = T.canonicalize(e1), T.canonicalize(e2)
            m1 = {orig(k1.nodes[a]): k1.nodes[a][ga.PARTITION] for a in k1}
            m2 = {orig(k2.nodes[a]): k2.nodes[a][ga.PARTITION] for a in k2}
            if m1 != m2:
                return f"classes depend on classes left on the graph by an earlier canonicalization (atom {victim} of the canonical graph removed, canonicalized again): {m1} vs {m2} for the same molecule without that history"
    P = {a: c.nodes[a][ga.PARTITION] for a in c}
    for a in c:
        for b in c:
            if P[a] == P[b]:
                if ident_key(T, c.nodes[a]) != ident_key(T, c.nodes[b]):
                    return f"atoms {a},{b} share class {P[a]} but differ in element/mass/radical"
                if sorted(P[x] for x in c[a]) != sorted(P[x] for x in c[b]):
                    return f"partition not equitable: atoms {a},{b} of class {P[a]} see different neighbour classes"
    # symmetry: automorphisms (brute force, n <= 6)
    if n <= 6:
        col = [ident_key(T, {ga.ELEMENT_SYMBOL: a["sym"], ga.MASS: a.get("mass"), ga.RAD: a.get("rad")}) for a in inp["atoms"]]
        es = {frozenset(e) for e in inp["edges"]}
        for p in itertools.permutations(range(n)):
            if all(col[p[i]] == col[i] for i in range(n)) and {frozenset((p[u], p[v])) for u, v in (tuple(e) for e in es)} == es:
                for i in range(n):
                    if cls1[i] != cls1[p[i]]:
                        return f"atoms {i} and {p[i]} are related by a symmetry but have classes {cls1[i]} and {cls1[p[i]]}"


def pred_c12(T, inp):
    ga = T.ga
    import copy
    g = build(T, inp["atoms"], inp["edges"], inp.get("perm"), inp.get("order"), inp.get("flips"), inp.get("edge_order"), extra=True, post_relabel=inp.get("post_relabel"))
    snap = (list(g.nodes(data=True)), list(g.edges(data=True)), {u: list(nb) for u, nb in g.adj.items()})
    snap = copy.deepcopy(snap)
    g.graph["name"] = "molecule under test"   # graph-level data of the molecule (nx.relabel_nodes carries it along)
    g.graph["source"] = {"file": "none"}
    c = T.canonicalize(g)
    now = (list(g.nodes(data=True)), list(g.edges(data=True)), {u: list(nb) for u, nb in g.adj.items()})
    if now != snap or g.graph != {"name": "molecule under test", "source": {"file": "none"}}:
        return "canonicalize_molecule modified its argument"
    if c.graph != g.graph:
        return f"graph-level data of the molecule lost or changed by canonicalize_molecule: {g.graph!r} became {c.graph!r}"
    n = len(inp["atoms"])
    if sorted(c.nodes) != list(range(n)):
        return f"canonical labels are not 0..n-1: {sorted(c.nodes)}"
    if c.number_of_edges() != g.number_of_edges():
        return "number of bonds changed"
    strip = lambda d: {k: v for k, v in d.items() if k != ga.PARTITION}
    # the renaming is recoverable from the unique x coordinate
    by_x_g = {d[ga.X_COORD]: (a, strip(d)) for a, d in g.nodes(data=True)}
    ren = {}
    for a, d in c.nodes(data=True):
        if d[ga.X_COORD] not in by_x_g or by_x_g[d[ga.X_COORD]][1] != strip(d):
            return f"atom {a} of the result does not carry the attributes of an input atom"
        ren[by_x_g[d[ga.X_COORD]][0]] = a
    if len(set(ren.values())) != n:
        return "renaming is not one-to-one"
    ge = {frozenset((ren[u], ren[v])): d for u, v, d in g.edges(data=True)}
    ce = {frozenset((u, v)): d for u, v, d in c.edges(data=True)}
    if ge != ce:
        return "bonds or bond data not carried by the renaming"
    c2 = T.canonicalize(g)
    if list(c2.nodes(data=True)) != list(c.nodes(data=True)) or list(c2.edges(data=True)) != list(c.edges(data=True)):
        return "second canonicalize call on the same object gave a different result"
    snap_c = copy.deepcopy((dict(c.nodes(data=True)), sorted((min(u, v), max(u, v), tuple(sorted(d.items()))) for u, v, d in c.edges(data=True))))
    s1 = T.serialize(c)
    after = (dict(c.nodes(data=True)), sorted((min(u, v), max(u, v), tuple(sorted(d.items()))) for u, v, d in c.edges(data=True)))
    drop = lambda nd: {a: {k: v for k, v in d.items() if k != ga.EXPLORED} for a, d in nd.items()}
    if drop(after[0]) != drop(snap_c[0]) or after[1] != snap_c[1]:
        return "serialize_molecule altered a chemically meaningful attribute of its argument"
    if any(d.get(ga.EXPLORED) for d in after[0].values()):
        return "serialize_molecule left its scratch flag set"
    if T.serialize(c) != s1:
        return "second serialize call on the same object gave a different string"


def pred_c03(T, inp):
    g = build(T, inp["atoms"], inp["edges"], inp.get("perm"), inp.get("order"), inp.get("flips"), inp.get("edge_order"), post_relabel=inp.get("post_relabel"))
    s = tucan_of(T, g)
    try:
        h = T.parse(s)
    except Exception as e:  # noqa: BLE001
        return f"emitted string {s!r} is rejected by the parser: {type(e).__name__}"
    if h.number_of_nodes() != g.number_of_nodes() or h.number_of_edges() != g.number_of_edges():
        return f"parse(tucan(G)) has different atom/bond counts for {s!r}"
    if not iso(T, g, h):
        return f"parse(tucan(G)) is not isomorphic to G for {s!r}"
    t = tucan_of(T, h)
    if t != s:
        return f"not a fixed point: {s!r} -> {t!r}"


_EBNF_CACHE = {}


def grammar_regex(repo):
    """validator built mechanically from tucan.ebnf (shares no code with the library)"""
    if repo in _EBNF_CACHE:
        return _EBNF_CACHE[repo]
    ebnf = open(os.path.join(repo, "tucan/parser/tucan.ebnf")).read()
    rules = {}
    for line in ebnf.splitlines():
        if "::=" in line:
            k, v = line.split("::=", 1)
            rules[k.strip()] = v.strip()
    sym = {}
    for k, v in rules.items():
        m = re.fullmatch(r'"([A-Z][a-z]?)"\s+count\?', v)
        if m:
            sym[k] = m.group(1)
    count = r"(?:[2-9]|[1-9][0-9]+)"
    idx = r"(?:[1-9][0-9]*)"

    def formula(rule):
        out = ""
        order = []
        for p in rules[rule].split():
            opt = p.endswith("?")
            name = p.rstrip("?")
            out += f"(?:{sym[name]}{count}?)" + ("?" if opt else "")
            order.append(sym[name])
        return out, order
    fw, order_w = formula("with_carbon")
    fo, order_o = formula("without_carbon")
    tup = rf"(?:\({idx}-{idx}\))"
    prop = rf"(?:(?:mass|rad)={idx})"
    att = rf"(?:\({idx}:{prop}(?:,{prop})*\))"
    gram = re.compile(rf"(?:{fw}|{fo})/{tup}*(?:/{att}*)?")
    _EBNF_CACHE[repo] = (gram, order_w, order_o)
    return _EBNF_CACHE[repo]


def _big(d: str) -> int:
    """int() without CPython's 4300-digit conversion limit getting in the way of the reference reader"""
    return int(d) if len(d) < 4000 else 10 ** 4000


def ref_read(repo, s):
    """reference reader written from the EBNF + the three semantic conditions of C10.
    returns None if s is not accepted, else (atoms:[symbol], bonds:set of frozenset, attrs:{i:{key:v}})"""
    gram, order_w, order_o = grammar_regex(repo)
    if "\n" in s or not gram.fullmatch(s):
        return None
    parts = s.split("/")
    atoms = []
    for m in re.finditer(r"([A-Z][a-z]?)([0-9]*)", parts[0]):
        atoms += [m.group(1)] * (_big(m.group(2)) if m.group(2) else 1)
    n = len(atoms)
    bonds = set()
    for a, b in re.findall(r"\((\d+)-(\d+)\)", parts[1]):
        a, b = _big(a), _big(b)
        if a == b or a > n or b > n:
            return None
        bonds.add(frozenset((a - 1, b - 1)))
    attrs = {}
    if len(parts) > 2:
        for blk in re.findall(r"\((\d+):([^)]*)\)", parts[2]):
            i = _big(blk[0])
            if i > n:
                return None
            for kv in blk[1].split(","):
                k, v = kv.split("=")
                if k in attrs.setdefault(i - 1, {}):
                    return None
                attrs[i - 1][k] = _big(v)
    return atoms, bonds, attrs


def layout_check(T, g, s):
    """C05 layout rules, judged independently of the library"""
    ga = T.ga
    gram, order_w, order_o = grammar_regex(T.repo)
    if not gram.fullmatch(s):
        return f"emitted string {s!r} is not a sentence of tucan.ebnf"
    parts = s.split("/")
    f = re.findall(r"([A-Z][a-z]?)([0-9]*)", parts[0])
    syms = [x for x, _ in f]
    counts = {x: (int(c) if c else 1) for x, c in f}
    real = {}
    for _, d in g.nodes(data=True):
        real[d[ga.ELEMENT_SYMBOL]] = real.get(d[ga.ELEMENT_SYMBOL], 0) + 1
    if counts != real:
        return f"sum formula {parts[0]!r} does not equal the element counts {real}"
    hill = (["C"] + (["H"] if "H" in real else []) + sorted(x for x in real if x not in ("C", "H"))) if "C" in real else sorted(real)
    if syms != hill:
        return f"sum formula {parts[0]!r} is not in Hill order {hill}"
    n = sum(real.values())
    tuples = [(int(a), int(b)) for a, b in re.findall(r"\((\d+)-(\d+)\)", parts[1])]
    if any(a >= b for a, b in tuples):
        return f"a tuple is not written as (a-b) with a<b in {s!r}"
    if tuples != sorted(set(tuples)) or len(tuples) != g.number_of_edges():
        return f"tuples not strictly ascending / not one per bond in {s!r}"
    if any(b > n for _, b in tuples):
        return f"tuple index exceeds atom count in {s!r}"
    # indices run in blocks of increasing atomic number: index i has the i-th symbol in Z order
    zsorted = sorted((T.ELEMENT_ATTRS[x][ga.ATOMIC_NUMBER], x) for x in real for _ in range(real[x]))
    blocks = re.findall(r"\((\d+):([^)]*)\)", parts[2]) if len(parts) > 2 else []
    idxs = [int(i) for i, _ in blocks]
    if idxs != sorted(set(idxs)):
        return f"attribute blocks not in strictly ascending index order in {s!r}"
    labelled = sorted((ident_key(T, d)) for _, d in g.nodes(data=True) if d.get(ga.MASS) or d.get(ga.RAD))
    got = []
    for i, body in blocks:
        kv = dict(x.split("=") for x in body.split(","))
        if list(kv) != [k for k in ("mass", "rad") if k in kv]:
            return f"attribute keys not in mass,rad order in {s!r}"
        if any(int(v) <= 0 for v in kv.values()):
            return f"non-positive attribute value in {s!r}"
        got.append((zsorted[int(i) - 1][1], int(kv.get("mass", 0)), int(kv.get("rad", 0))))
    if sorted(got) != labelled:
        return f"attribute blocks {sorted(got)} do not match the labelled atoms {labelled} in {s!r}"
    if len(parts) > 2 and not blocks:
        return f"empty attribute section in {s!r}"


def pred_c05(T, inp):
    g = build(T, inp["atoms"], inp["edges"], inp.get("perm"), inp.get("order"), inp.get("flips"), inp.get("edge_order"), post_relabel=inp.get("post_relabel"))
    s = tucan_of(T, g)
    return layout_check(T, g, s)


def pred_c05_text(T, inp):
    """molecule produced by a reader from molfile text (incl. explicitly written defaults, out-of-range values, self-bonds):
    either the reader rejects the file with its own exception or the emitted string obeys grammar and layout"""
    try:
        g = T.read(inp["molfile"])
    except T.MolfileParserException:
        return None
    s = tucan_of(T, g)
    return layout_check(T, g, s)


def pred_c02_pair(T, inp):
    g1 = build(T, inp["a"]["atoms"], inp["a"]["edges"])
    g2 = build(T, inp["b"]["atoms"], inp["b"]["edges"])
    same_string = tucan_of(T, g1) == tucan_of(T, g2)
    if max(len(inp["a"]["atoms"]), len(inp["b"]["atoms"])) <= 7:
        same_mol = brute_canon(inp["a"]["atoms"], inp["a"]["edges"]) == brute_canon(inp["b"]["atoms"], inp["b"]["edges"])
    else:
        same_mol = iso(T, g1, g2)  # VF2 of networkx as independent oracle for larger molecules
    if same_string and not same_mol:
        return f"two non-isomorphic molecules share the TUCAN string {tucan_of(T, g1)!r}"
    if same_mol and not same_string:
        return "two isomorphic molecules have different TUCAN strings"


def pred_c10(T, inp):
    s = inp["s"]
    ga = T.ga
    ref = ref_read(T.repo, s)
    try:
        g = T.parse(s)
        got = "accept"
    except T.TucanParserException:
        got = "reject"
    except RecursionError:
        return None  # resource limit of the ANTLR runtime on absurd inputs is outside the property
    except Exception as e:  # noqa: BLE001
        return f"{s[:80]!r} raised {type(e).__name__} instead of the parser's exception"
    if (ref is not None) != (got == "accept"):
        return f"{s[:80]!r}: parser says {got}, reference reader says {'accept' if ref is not None else 'reject'}"
    if ref is None:
        return None
    atoms, bonds, attrs = ref
    zs = sorted(range(len(atoms)), key=lambda i: T.ELEMENT_ATTRS[atoms[i]][ga.ATOMIC_NUMBER])
    exp_atoms = [atoms[i] for i in zs]
    if sorted(g.nodes) != list(range(len(atoms))):
        return f"{s[:80]!r}: node labels {sorted(g.nodes)}"
    if [g.nodes[i][ga.ELEMENT_SYMBOL] for i in range(len(atoms))] != exp_atoms:
        return f"{s[:80]!r}: atoms not numbered by increasing atomic number"
    if {frozenset(e) for e in g.edges} != bonds:
        return f"{s[:80]!r}: bond set differs from the listed tuples"
    for i in range(len(atoms)):
        exp = {{"mass": ga.MASS, "rad": ga.RAD}[k]: v for k, v in attrs.get(i, {}).items()}
        have = {k: g.nodes[i][k] for k in (ga.MASS, ga.RAD) if k in g.nodes[i]}
        if exp != have:
            return f"{s[:80]!r}: attributes of atom {i + 1} are {have}, listed {exp}"
    # the result must denote the string again after the caller has modified an earlier result
    if len(atoms) >= 1:
        snapshot = (sorted(g.nodes), sorted(tuple(sorted(e)) for e in g.edges), {i: dict(g.nodes[i]) for i in g.nodes})
        g.nodes[0][ga.MASS] = 999
        g.remove_node(max(g.nodes))
        g2 = T.parse(s)
        now = (sorted(g2.nodes), sorted(tuple(sorted(e)) for e in g2.edges), {i: dict(g2.nodes[i]) for i in g2.nodes})
        if now != snapshot:
            return f"{s[:80]!r}: a second parse after the caller modified the first result returns a different graph"


def norm(T, s):
    return tucan_of(T, T.parse(s))


def pred_c11(T, inp):
    try:
        a = norm(T, inp["s"])
        b = norm(T, inp["t"])
    except T.TucanParserException as e:
        return f"respelling {inp['t']!r} of {inp['s']!r} rejected ({inp.get('op')})"
    if a != b:
        return f"norm differs for respelling ({inp.get('op')}): {inp['s']!r} -> {a!r}, {inp['t']!r} -> {b!r}"
    if norm(T, a) != a:
        return f"norm is not idempotent on {inp['s']!r}"


def graph_summary(T, g):
    ga = T.ga
    atoms = [(a, d[ga.ELEMENT_SYMBOL], d.get(ga.CHG, 0), d.get(ga.RAD, 0), d.get(ga.MASS, 0), d.get(ga.X_COORD), d.get(ga.Y_COORD), d.get(ga.Z_COORD))
             for a, d in g.nodes(data=True)]
    bonds = sorted((min(u, v), max(u, v), d.get(ga.BOND_TYPE)) for u, v, d in g.edges(data=True))
    return atoms, bonds


def pred_c07(T, inp):
    """inp: {"mol": {"atoms":[…], "bonds":[[i,j,t]]}, "text": rendering}"""
    ga = T.ga
    m = molgen.Mol(inp["mol"]["atoms"], [tuple(b) for b in inp["mol"]["bonds"]])
    try:
        g = T.read(inp["text"])
    except Exception as e:  # noqa: BLE001
        return f"spec-conformant V3000 rendering rejected with {type(e).__name__}: {e}"
    ea = m.expected_atoms()
    atoms, bonds = graph_summary(T, g)
    if [a[0] for a in atoms] != list(range(len(ea))):
        return f"atoms not numbered consecutively in file order: {[a[0] for a in atoms]}"
    for a, e in zip(atoms, ea):
        got = {"element_symbol": a[1], "chg": a[2], "rad": a[3], "mass": a[4], "x": a[5], "y": a[6], "z": a[7]}
        if got != e:
            return f"atom {a[0] + 1} read as {got}, file states {e}"
    if bonds != m.expected_bonds():
        return f"bonds read as {bonds}, file states {m.expected_bonds()}"
    for _, d in g.nodes(data=True):
        for k in (ga.CHG, ga.RAD, ga.MASS):
            if k in d and d[k] == 0:
                return f"explicitly written default {k}=0 is stored instead of being treated as absent"


def pred_c08(T, inp):
    """inp: {"mol":…, "mode":…, "v2000": text, "v3000": text}"""
    ga = T.ga
    m = molgen.Mol(inp["mol"]["atoms"], [tuple(b) for b in inp["mol"]["bonds"]])
    try:
        g2 = T.read(inp["v2000"])
    except Exception as e:  # noqa: BLE001
        return f"spec-conformant V2000 rendering rejected with {type(e).__name__}: {e}"
    ea, eb = molgen.expected_v2000(m, inp["mode"])
    atoms, bonds = graph_summary(T, g2)
    for a, e in zip(atoms, ea):
        got = {"element_symbol": a[1], "chg": a[2], "rad": a[3], "mass": a[4], "x": a[5], "y": a[6], "z": a[7]}
        if got != e:
            return f"V2000 atom {a[0] + 1} read as {got}, file states {e}"
    if len(atoms) != len(ea) or bonds != eb:
        return f"V2000 bonds/atom count read as {len(atoms)}/{bonds}, file states {len(ea)}/{eb}"
    for _, d in g2.nodes(data=True):
        for k in (ga.CHG, ga.RAD, ga.MASS):
            if k in d and d[k] == 0:
                return f"zero-valued {k} entry is stored instead of being treated as absent"
    g3 = T.read(inp["v3000"])
    if graph_summary(T, g3) != graph_summary(T, g2):
        return "V2000 and V3000 renderings of the same molecule are read differently"
    if tucan_of(T, g2) != tucan_of(T, g3):
        return "V2000 and V3000 renderings get different TUCAN strings"


def graph_from_spec(T, spec):
    """spec: {"nodes": [[label, attrs]], "edges": [[u, v, attrs]]}"""
    g = T.nx.Graph()
    for n, d in spec["nodes"]:
        g.add_node(n, **d)
    for u, v, d in spec["edges"]:
        g.add_edge(u, v, **d)
    return g


def pred_c09(T, inp):
    ga = T.ga
    g = graph_from_spec(T, inp["graph"])
    text = T.write(g)
    lines = text.split("\n")
    for ln in lines:
        if len(ln) > 79:
            return f"written line has {len(ln)} characters (> 79 + newline): {ln[:40]!r}…"
    if lines[3].rstrip().split(" ")[-1] != "V3000" or lines[-1] != "M  END":
        return "written file is not a V3000 molfile"
    try:
        h = T.read(text)
    except Exception as e:  # noqa: BLE001
        return f"written molfile cannot be read back: {type(e).__name__}: {e}"
    if h.number_of_nodes() != g.number_of_nodes():
        return "atom count changed in write/read"
    for (a, d), (b, e) in zip(g.nodes(data=True), h.nodes(data=True)):
        exp = (d[ga.ELEMENT_SYMBOL], d.get(ga.CHG, 0), d.get(ga.RAD, 0), d.get(ga.MASS, 0))
        got = (e[ga.ELEMENT_SYMBOL], e.get(ga.CHG, 0), e.get(ga.RAD, 0), e.get(ga.MASS, 0))
        if exp != got:
            return f"atom {a} written as {exp} read back as {got}"
        for k in (ga.X_COORD, ga.Y_COORD, ga.Z_COORD):
            if f"{d.get(k, 0):.6f}" != f"{e.get(k, 0):.6f}":
                return f"coordinate {k} of atom {a} changed beyond six decimals"
    pos = {a: i for i, a in enumerate(g.nodes)}
    ge = sorted((min(pos[u], pos[v]), max(pos[u], pos[v]), d.get(ga.BOND_TYPE, 1)) for u, v, d in g.edges(data=True))
    he = sorted((min(u, v), max(u, v), d.get(ga.BOND_TYPE)) for u, v, d in h.edges(data=True))
    if ge != he:
        return f"bonds written {ge} read back {he}"


def pred_c09_tucan(T, inp):
    s = inp["s"]
    g = T.parse(s)
    t = tucan_of(T, T.read(T.write(g)))
    if t != tucan_of(T, g):
        return f"string -> graph -> molfile -> graph -> string changed {tucan_of(T, g)!r} into {t!r}"


def pred_c06(T, inp):
    a = tucan_of(T, T.read(inp["text_a"]))
    b = tucan_of(T, T.read(inp["text_b"]))
    if a != b:
        return f"renderings differing only in {inp['dim']} get different TUCAN strings: {a!r} vs {b!r}"


def pred_c15(T, inp):
    ga = T.ga
    kind, n = inp["family"], inp["n"]
    edges = family_edges(kind, n)
    nn = 1 + max([max(e) for e in edges], default=n - 1) if edges else n
    atoms = {i: {ga.ELEMENT_SYMBOL: "C", ga.ATOMIC_NUMBER: 6, ga.PARTITION: 0} for i in range(nn)}
    bonds = {tuple(e): {ga.BOND_TYPE: 1} for e in edges}
    g = T.graph_from_molecule(atoms, bonds)
    try:
        s = tucan_of(T, g)
        if inp.get("parse", True) and len(s) < 200000:
            h = T.parse(s)
            if h.number_of_nodes() != nn:
                return f"{kind}({n}): parse lost atoms"
    except (RecursionError, AssertionError, IndexError, KeyError) as e:
        return f"{kind}({n}) with {nn} atoms fails with {type(e).__name__}"


def family_edges(kind, n):
    if kind == "path":
        return [(i, i + 1) for i in range(n - 1)]
    if kind == "cycle":
        return [(i, (i + 1) % n) for i in range(n)]
    if kind == "ladder":
        return [(2 * i, 2 * i + 1) for i in range(n)] + [(2 * i, 2 * i + 2) for i in range(n - 1)] + [(2 * i + 1, 2 * i + 3) for i in range(n - 1)]
    if kind == "comb":
        return [(2 * i, 2 * i + 2) for i in range(n - 1)] + [(2 * i, 2 * i + 1) for i in range(n)]
    if kind == "star":
        return [(0, i) for i in range(1, n)]
    if kind == "complete":
        return list(itertools.combinations(range(n), 2))
    if kind == "isolated":
        return []
    if kind == "components":
        return [(2 * i, 2 * i + 1) for i in range(n)]
    raise ValueError(kind)


def pred_c16(T, inp):
    import copy
    ga = T.ga
    g = build(T, inp["atoms"], inp["edges"], extra=True)
    if inp.get("relabel"):
        g = T.nx.relabel_nodes(g, {i: l for i, l in enumerate(inp["relabel"])})
    if inp.get("node_order"):
        # same labelled molecule, nodes inserted in another order and bonds added with the larger label first
        h = T.nx.Graph()
        nodes = list(g.nodes(data=True))
        h.add_nodes_from((nodes[i][0], dict(nodes[i][1])) for i in inp["node_order"])
        h.add_edges_from((max(u, v), min(u, v), dict(d)) for u, v, d in g.edges(data=True))
        g = h
    snap = copy.deepcopy((list(g.nodes(data=True)), list(g.edges(data=True))))
    r = T.permute_molecule(g, random_seed=inp["seed"])
    if (list(g.nodes(data=True)), list(g.edges(data=True))) != snap:
        return "permute_molecule modified its argument"
    if list(r.nodes) != sorted(g.nodes):
        return f"result nodes {list(r.nodes)} are not the label set in ascending order"
    # attribute-carrying isomorphism: x coordinate identifies the original atom
    byx = {d[ga.X_COORD]: a for a, d in g.nodes(data=True)}
    ren = {}
    for a, d in r.nodes(data=True):
        o = byx.get(d[ga.X_COORD])
        if o is None or g.nodes[o] != d:
            return "an atom of the result does not carry the attributes of an input atom"
        ren[o] = a
    if {frozenset((ren[u], ren[v])): d for u, v, d in g.edges(data=True)} != {frozenset((u, v)): d for u, v, d in r.edges(data=True)}:
        return "bonds or bond data not carried along"
    random.seed(987654321 + len(inp["atoms"]))  # a different global RNG state before the second call
    random.random()
    r2 = T.permute_molecule(g, random_seed=inp["seed"])
    if list(r2.nodes(data=True)) != list(r.nodes(data=True)) or list(r2.edges(data=True)) != list(r.edges(data=True)):
        return "same seed gave a different result"
    n, m = g.number_of_nodes(), g.number_of_edges()
    if m > 1 and 2 * m != n * (n - 1):
        if {frozenset(e) for e in r.edges} == {frozenset(e) for e in g.edges}:
            return "edge set unchanged although the molecule has >= 2 bonds and is not complete"


PREDICATES = {
    "c01": pred_c01, "c01_text": pred_c01_text, "c02_pair": pred_c02_pair, "c03": pred_c03, "c04": pred_c04, "c05": pred_c05, "c05_text": pred_c05_text,
    "c06": pred_c06, "c07": pred_c07, "c08": pred_c08, "c09": pred_c09, "c09_tucan": pred_c09_tucan, "c10": pred_c10, "c11": pred_c11,
    "c12": pred_c12, "c13": pred_c13, "c15": pred_c15, "c16": pred_c16,
}


class EvaluationTimeout(BaseException):
    pass


EVAL_TIMEOUT_S = {"c15": 900, "default": 120}


def run_pred(T, kind, inp):
    """returns None (holds) or a description. A crash of the code under test is reported as a failure of the
    predicate only where the predicate says so; unexpected exceptions propagate as 'what'. An evaluation that
    does not finish within the per-kind time limit (code under test hangs) is reported as a failure too."""
    import signal
    limit = EVAL_TIMEOUT_S.get(kind, EVAL_TIMEOUT_S["default"])

    def on_alarm(signum, frame):
        raise EvaluationTimeout()
    use_alarm = threading.current_thread() is threading.main_thread()
    if use_alarm:
        old = signal.signal(signal.SIGALRM, on_alarm)
        signal.alarm(limit)
    try:
        return _run_pred(T, kind, inp)
    except EvaluationTimeout:
        return f"the code under test did not return within {limit} s on this input (non-termination)"
    finally:
        if use_alarm:
            signal.alarm(0)
            signal.signal(signal.SIGALRM, old)


def _run_pred(T, kind, inp):
    try:
        return PREDICATES[kind](T, inp)
    except (T.TucanParserException, T.MolfileParserException) as e:
        return f"unexpected rejection: {type(e).__name__}: {str(e)[:200]}"
    except Exception as e:  # noqa: BLE001
        return f"unexpected {type(e).__name__}: {str(e)[:200]}"


# --------------------------------------------------------------------------- generators
class Outcome:
    def __init__(self):
        self.evaluations = 0
        self.nontrivial: set = set()
        self.samples: list = []
        self.violations: list = []
        self.rule = ""
        self.exhaustive = False
        self.bound = ""

    def run(self, T, kind, inp, nontrivial_key=None, deadline=None):
        self.evaluations += 1
        if nontrivial_key is not None:
            self.nontrivial.add(nontrivial_key)
        if len(self.samples) < 3:
            self.samples.append({"kind": kind, "input": _short(inp)})
        what = run_pred(T, kind, inp)
        if what:
            self.violations.append({"kind": kind, "input": inp, "what": what})
        return what


def _short(inp):
    s = json.dumps(inp)
    return inp if len(s) < 600 else {"truncated": s[:600]}


def relabelings(rnd, n, edges, k_all=4, k_random=6):
    """(perm, order, flips, edge_order) variants"""
    perms = list(itertools.permutations(range(n))) if n <= k_all else [tuple(rnd.sample(range(n), n)) for _ in range(k_random)]
    for p in perms:
        order = list(range(n))
        rnd.shuffle(order)
        eo = list(range(len(edges)))
        rnd.shuffle(eo)
        var = {"perm": list(p), "order": order, "flips": [rnd.random() < .5 for _ in edges], "edge_order": eo}
        if rnd.random() < .5:
            var["post_relabel"] = rnd.sample(range(n), n)
        yield var


SYMMETRIC = {
    "K4": (4, list(itertools.combinations(range(4), 2))),
    "C6": (6, [(i, (i + 1) % 6) for i in range(6)]),
    "cube": (8, [(i, i ^ b) for i in range(8) for b in (1, 2, 4) if i < i ^ b]),
    "prism": (6, [(0, 1), (1, 2), (2, 0), (3, 4), (4, 5), (5, 3), (0, 3), (1, 4), (2, 5)]),
    "petersen": (10, [(i, (i + 1) % 5) for i in range(5)] + [(5 + i, 5 + (i + 2) % 5) for i in range(5)] + [(i, i + 5) for i in range(5)]),
    "two_C3": (6, [(0, 1), (1, 2), (2, 0), (3, 4), (4, 5), (5, 3)]),
    "C6_vs_2C3_a": (6, [(i, (i + 1) % 6) for i in range(6)]),
    "K33": (6, [(i, j) for i in range(3) for j in range(3, 6)]),
}


DEEP_REFINEMENT = [
    [(1, 2), (1, 6), (1, 10), (2, 3), (2, 4), (3, 5), (3, 8), (4, 9), (5, 8), (6, 7), (7, 10), (9, 10)],
    [(1, 2), (1, 3), (2, 4), (2, 5), (3, 6), (4, 7), (4, 8), (5, 9), (6, 9), (6, 11), (7, 8), (9, 10), (10, 11)],
    [(1, 2), (1, 3), (1, 7), (2, 4), (3, 5), (3, 10), (4, 11), (4, 12), (5, 6), (6, 8), (6, 9), (7, 12), (8, 9), (10, 11)],
]


def molecules(rnd, tier, max_n_quick=4, max_n_thorough=5, per_graph=1):
    """small-scope molecules (all graphs up to n) + symmetric skeletons with one or two labelled atoms + 2-component graphs"""
    max_n = max_n_quick if tier == "quick" else max_n_thorough
    out = []
    for atoms, edges in molgen.labelled_molecules(rnd, max_n, elements=("C", "O", "H"), per_graph=per_graph if tier == "quick" else 2):
        out.append((atoms, [list(e) for e in edges]))
    for n in (range(5, 11) if tier == "quick" else range(5, 16)):
        # unbranched chains / rings with distinguishable ends or one labelled atom (deep refinement, discrete partitions)
        chain = [[i, i + 1] for i in range(n - 1)]
        for ends in (("O", "Cl"), ("O", "O"), ("C", "N")):
            atoms = [{"sym": "C"} for _ in range(n)]
            atoms[0], atoms[-1] = {"sym": ends[0]}, {"sym": ends[1]}
            out.append((atoms, chain))
        atoms = [{"sym": "C"} for _ in range(n)]
        atoms[rnd.randrange(n)] = {"sym": "C", "mass": 13}
        out.append((atoms, chain + [[n - 1, 0]]))
    # compact polycyclic single-element skeletons on which colour refinement needs more productive rounds than half the atom count
    # (each round splits one or two classes only); found by random search, 1 in ~250 000 polycyclic graphs of 8-14 atoms
    for edges1 in DEEP_REFINEMENT:
        n = max(max(e) for e in edges1)
        out.append(([{"sym": "C"} for _ in range(n)], [[a - 1, b - 1] for a, b in edges1]))
    for _ in range(40 if tier == "quick" else 400):
        # sparse multi-component records (salts, mixtures): few bonds, several unbonded atoms, wide spread of atomic numbers
        n = rnd.randint(4, 8)
        atoms = [{"sym": rnd.choice(["H", "C", "N", "Na", "Cl", "K", "Br", "S", "I"])} for _ in range(n)]
        pairs = [[i, j] for i in range(n) for j in range(i + 1, n)]
        rnd.shuffle(pairs)
        k = rnd.randint(1, max(1, n - 3))
        used, edges = set(), []
        for i, j in pairs:
            if len(edges) < k and i not in used and (j not in used or rnd.random() < .3):
                edges.append([i, j])
                used.update((i, j))
        out.append((atoms, edges))
    # several identical small fragments (2 HCl, 3 H2, 2 OH + 2 HBr, a labelled pair): every multi-atom class consists of terminal atoms only,
    # and which terminal atom is bonded to which is not determined by the classes
    for frag, k in ((("H", "Cl"), 2), (("H", "Cl"), 3), (("H", "H"), 3), (("O", "H"), 2), (("D", "Br"), 2)):
        atoms, edges = [], []
        for _c in range(k):
            edges.append([len(atoms), len(atoms) + 1])
            atoms += [({"sym": "H", "mass": 2} if x == "D" else {"sym": x}) for x in frag]
        if rnd.random() < .5:
            edges += [[len(atoms), len(atoms) + 1], [len(atoms) + 1, len(atoms) + 2]]
            atoms += [{"sym": "C"}, {"sym": "C"}, {"sym": "O"}]
        out.append((atoms, edges))
    # equivalent atoms whose labels differ in kind but not in number: one carries only mass=k, its mate only rad=k (k = 1, 2, 3)
    for k in (1, 2, 3):
        out.append(([{"sym": "C"}] + [{"sym": "H", "mass": k}, {"sym": "H", "rad": k}, {"sym": "H"}, {"sym": "H"}], [[0, 1], [0, 2], [0, 3], [0, 4]]))
        out.append(([{"sym": "H", "mass": k}, {"sym": "H", "rad": k}], []))
        out.append(([{"sym": "O"}, {"sym": "H", "rad": k}, {"sym": "H", "mass": k}], [[0, 1], [0, 2]]))
    for name, (n, edges) in SYMMETRIC.items():
        for variant in range(2 if tier == "quick" else 4):
            atoms = [{"sym": "C"} for _ in range(n)]
            for _ in range(variant):
                i = rnd.randrange(n)
                atoms[i] = rnd.choice([{"sym": "C", "mass": 13}, {"sym": "C", "rad": 2}, {"sym": "N"}])
            out.append((atoms, [list(e) for e in edges]))
    return out


def gen_pipeline(T, kind, tier, seed, budget, out: Outcome):
    rnd = random.Random(seed)
    t0 = time.time()
    mols = molecules(rnd, tier)
    rnd.shuffle(mols)
    out.rule = ("all simple graphs with n<=%d atoms over {C,O,H} with random isotope/radical labels, plus symmetric skeletons (K4, C6, cube, prism, "
                "Petersen, 2xC3, K3,3) with 0-3 labelled atoms, records of 2-3 identical diatomic fragments, equivalent atoms labelled mass=k / rad=k; each with all n! relabelings (n<=4) or 6 random ones, random listing order, bond "
                "orientation and bond order. Non-trivial = distinct (molecule, relabeling) pairs with a non-identity relabeling or order." % (4 if tier == "quick" else 5))
    for atoms, edges in mols:
        n = len(atoms)
        for var in relabelings(rnd, n, edges, k_all=3 if tier == "quick" else 4, k_random=3 if tier == "quick" else 8):
            if time.time() - t0 > budget:
                return
            inp = {"atoms": atoms, "edges": edges, **var}
            key = json.dumps([atoms, edges, var["perm"], var["order"]]) if (var["perm"] != list(range(n)) or var["order"] != list(range(n))) else None
            out.run(T, kind, inp, key)
            if len(out.violations) >= 3:
                return
    out.exhaustive = False


def permuted_rendering(rnd, m: "molgen.Mol"):
    """the same abstract molecule written with atom lines in another order (explicit, unordered indices), bond lines shuffled,
    endpoints swapped"""
    n = len(m.atoms)
    order = list(range(n))
    rnd.shuffle(order)
    pos = {old: new for new, old in enumerate(order)}
    atoms = [m.atoms[i] for i in order]
    bonds = [((pos[i], pos[j], t) if rnd.random() < .5 else (pos[j], pos[i], t)) for i, j, t in m.bonds]
    rnd.shuffle(bonds)
    return molgen.Mol(atoms, bonds)


def gen_c01_text(T, tier, seed, budget, out: Outcome):
    rnd = random.Random(seed + 17)
    t0 = time.time()
    out.rule += (" | text level: abstract molecules (<= 7 atoms) rendered twice as V3000/V2000 with atom lines in different order, explicit unordered "
                 "indices, shuffled bond lines and swapped endpoints; the two TUCAN strings must be equal")
    for _ in range(120 if tier == "quick" else 4000):
        if time.time() - t0 > budget or len(out.violations) >= 3:
            return
        m = molgen.rand_mol(rnd, 7, zero_values=False, p_bond=0.45)
        m2 = permuted_rendering(rnd, m)
        ta = molgen.render_v3000(rnd, m, extra_kw=False)
        tb = molgen.render_v3000(rnd, m2, extra_kw=False)
        out.run(T, "c01_text", {"text_a": ta, "text_b": tb}, (ta, tb))


def gen_c02(T, tier, seed, budget, out: Outcome):
    rnd = random.Random(seed)
    t0 = time.time()
    max_n = 4 if tier == "quick" else 5
    out.rule = ("molecules = all simple graphs n<=%d over {C,O} with random isotope labels; all pairs with equal atom count and formula inside a bucket "
                "are compared: string equality must coincide with isomorphism decided by brute-force canonical form over all n! permutations. "
                "Non-trivial = pairs that are NOT identical as labelled graphs." % max_n)
    buckets = {}
    for atoms, edges in molgen.labelled_molecules(rnd, max_n, elements=("C", "O"), per_graph=1):
        k = (len(atoms), tuple(sorted((a["sym"], a.get("mass", 0), a.get("rad", 0)) for a in atoms)), len(edges))
        buckets.setdefault(k, []).append((atoms, [list(e) for e in edges]))
    keys = list(buckets)
    rnd.shuffle(keys)
    for k in keys:
        ms = buckets[k]
        pairs = list(itertools.combinations(range(len(ms)), 2))
        rnd.shuffle(pairs)
        for i, j in pairs[: (6 if tier == "quick" else 40)]:
            if time.time() - t0 > budget:
                return
            inp = {"a": {"atoms": ms[i][0], "edges": ms[i][1]}, "b": {"atoms": ms[j][0], "edges": ms[j][1]}}
            out.run(T, "c02_pair", inp, json.dumps(inp))
            if len(out.violations) >= 3:
                return
    # positional isotopomers: one or two labels moved over the atoms of one skeleton (the classic collision risk)
    skeletons = [([{"sym": x} for x in "CHHHOH"], [[0, 1], [0, 2], [0, 3], [0, 4], [4, 5]]),          # methanol
                 ([{"sym": x} for x in "CCOHHHHHH"], [[0, 1], [1, 2], [0, 3], [0, 4], [0, 5], [1, 6], [1, 7], [2, 8]]),  # ethanol
                 ([{"sym": x} for x in "CNHHHHH"], [[0, 1], [0, 2], [0, 3], [0, 4], [1, 5], [1, 6]]),     # methylamine
                 ([{"sym": x} for x in "CCCCCC"], [[0, 1], [1, 2], [2, 3], [3, 4], [4, 5]]),
                 ([{"sym": x} for x in "CCOOHHHH"], [[0, 1], [1, 2], [1, 3], [3, 4], [0, 5], [0, 6], [0, 7]])]  # acetic acid
    for atoms0, edges in skeletons[: (3 if tier == "quick" else 5)]:
        variants = []
        for i in range(len(atoms0)):
            for lab in ({"mass": 2 if atoms0[i]["sym"] == "H" else 13 if atoms0[i]["sym"] == "C" else 18}, {"rad": 2}):
                if "rad" in lab and atoms0[i]["sym"] == "H":
                    continue
                atoms = [dict(a) for a in atoms0]
                atoms[i].update(lab)
                variants.append(atoms)
                if "rad" in lab:
                    both = [dict(a) for a in atoms]
                    both[i]["mass"] = 13 if atoms0[i]["sym"] == "C" else 18 if atoms0[i]["sym"] == "O" else 15
                    variants.append(both)
        pairs = list(itertools.combinations(range(len(variants)), 2))
        rnd.shuffle(pairs)
        for i, j in pairs[: (40 if tier == "quick" else 400)]:
            if time.time() - t0 > budget or len(out.violations) >= 3:
                return
            inp = {"a": {"atoms": variants[i], "edges": edges}, "b": {"atoms": variants[j], "edges": edges}}
            out.run(T, "c02_pair", inp, json.dumps(inp))
    # known hard pairs: same degree sequence
    hard = [((6, [(i, (i + 1) % 6) for i in range(6)]), (6, [(0, 1), (1, 2), (2, 0), (3, 4), (4, 5), (5, 3)])),
            ((6, SYMMETRIC["prism"][1]), (6, SYMMETRIC["K33"][1]))]
    for (n1, e1), (n2, e2) in hard:
        inp = {"a": {"atoms": [{"sym": "C"}] * n1, "edges": [list(e) for e in e1]}, "b": {"atoms": [{"sym": "C"}] * n2, "edges": [list(e) for e in e2]}}
        out.run(T, "c02_pair", inp, json.dumps(inp))


VALID_SENTENCES = ["CH4/(1-2)(1-3)(1-4)(1-5)", "C2H6O/(1-3)(2-3)", "ClH/(1-2)", "H2O/(1-3)(2-3)/(1:mass=2)(3:rad=2)", "CHCl3/(1-2)(2-3)(2-4)(2-5)",
                   "C10H2/(1-12)", "HeNe/", "C/", "CHN/(1-3)(2-3)/(2:mass=13,rad=2)", "BrCl/(1-2)", "CU/(1-2)", "Cu/", "NNa/", "C2H6/(1-3)(2-3)(3-4)(4-5)(4-6)(4-7)(3-8)",
                   "C6H6/(1-7)(2-8)(3-9)(4-10)(5-11)(6-12)(7-8)(7-9)(8-10)(9-11)(10-12)(11-12)", "H2/(1-2)/(1:mass=2)(2:mass=3)", "Og2/(1-2)/(2:rad=1)"]
TOKENS = ["C", "H", "O", "N", "Cl", "Cs", "Co", "Cn", "He", "Hf", "Ho", "Na", "No", "Nb", "Os", "Og", "U", "Ac", "Zr", "B", "Br", "I", "In", "2", "3", "10", "1", "0", "12",
          "(", ")", "-", "/", ":", ",", "=", "mass", "rad", "mass=", "rad=", "(1-2)", "(2-1)", "(1:mass=2)", "(2:rad=3)", "/(1-2)", "c", " ", "Cl2", "H4", "\n", "٣"]


def gen_c10(T, tier, seed, budget, out: Outcome):
    rnd = random.Random(seed)
    t0 = time.time()
    out.rule = ("strings = valid sentences, all single-token insertions/replacements/deletions/transpositions of them over a %d-token alphabet, random token "
                "strings of 1..7 tokens, over-long numbers; compared with a reference reader built from tucan.ebnf. Non-trivial = distinct strings." % len(TOKENS))
    def go(s):
        out.run(T, "c10", {"s": s}, s)
    for s in VALID_SENTENCES:
        go(s)
    go("C/(1-" + "1" * 4301 + ")")
    go("C2/(1-2)/(1:mass=" + "9" * 5000 + ")")
    # an over-long numeral in every other index / value position (each goes through its own conversion)
    go("C2H6/(" + "1" * 4301 + "-1)")
    go("C2H6/(1-2)(2-" + "3" * 4301 + ")")
    go("C2/(1-2)/(" + "1" * 4301 + ":mass=2)")
    go("/")
    # sentences with an empty sum formula: every index they mention is out of range
    for t in ["//", "//(1:mass=2)", "//(1:rad=3)", "//(1:mass=2,rad=1)", "//(1:mass=2)(1:rad=1)", "/(1-2)", "/(1-2)/(1:mass=2)", "//(2:mass=2)", "H//(2:mass=2)", "H//(1:mass=2)"]:
        go(t)
    sents = VALID_SENTENCES[:]
    rnd.shuffle(sents)
    for s in sents[: (6 if tier == "quick" else len(sents))]:
        toks = re.findall(r"[A-Z][a-z]?|[0-9]+|mass|rad|.", s)
        for i in range(len(toks) + 1):
            cand = rnd.sample(TOKENS, 6 if tier == "quick" else len(TOKENS))
            for t in cand:
                go("".join(toks[:i] + [t] + toks[i:]))
                if i < len(toks):
                    go("".join(toks[:i] + [t] + toks[i + 1:]))
            if i < len(toks):
                go("".join(toks[:i] + toks[i + 1:]))
            if i + 1 < len(toks):
                go("".join(toks[:i] + [toks[i + 1], toks[i]] + toks[i + 2:]))
            if time.time() - t0 > budget or len(out.violations) >= 3:
                return
    for _ in range(2000 if tier == "quick" else 30000):
        go("".join(rnd.choice(TOKENS) for _ in range(rnd.randint(1, 7))))
        if time.time() - t0 > budget or len(out.violations) >= 3:
            return


def respellings(rnd, s):
    """meaning-preserving respellings of an accepted TUCAN string"""
    parts = s.split("/")
    tuples = re.findall(r"\(\d+-\d+\)", parts[1])
    blocks = re.findall(r"\(\d+:[^)]*\)", parts[2]) if len(parts) > 2 else []
    tail = lambda bl: ("/" + "".join(bl)) if bl else ""
    if len(tuples) > 1:
        t2 = tuples[:]
        rnd.shuffle(t2)
        yield "reorder tuples", parts[0] + "/" + "".join(t2) + tail(blocks)
    if tuples:
        k = rnd.randrange(len(tuples))
        a, b = re.fullmatch(r"\((\d+)-(\d+)\)", tuples[k]).groups()
        t2 = tuples[:]
        t2[k] = f"({b}-{a})"
        yield "swap endpoints", parts[0] + "/" + "".join(t2) + tail(blocks)
        yield "repeat tuple", parts[0] + "/" + "".join(tuples + [tuples[k]]) + tail(blocks)
        yield "repeat swapped tuple", parts[0] + "/" + "".join([f"({b}-{a})"] + tuples) + tail(blocks)
        # heavy repetition: a tuple may be repeated any number of times (more tuples than there are atom pairs)
        yield "repeat one tuple 30 times", parts[0] + "/" + "".join(tuples + [tuples[k], f"({b}-{a})"] * 15) + tail(blocks)
        both = [t for tp in tuples for t in (tp, "(%s-%s)" % tuple(reversed(re.fullmatch(r"\((\d+)-(\d+)\)", tp).groups())))]
        yield "every tuple three times in both orientations", parts[0] + "/" + "".join(both * 3) + tail(blocks)
    if len(blocks) > 1:
        b2 = blocks[:]
        rnd.shuffle(b2)
        yield "reorder attribute blocks", parts[0] + "/" + "".join(tuples) + tail(b2)
    for k, bl in enumerate(blocks):
        i, body = re.fullmatch(r"\((\d+):([^)]*)\)", bl).groups()
        props = body.split(",")
        if len(props) > 1:
            b2 = blocks[:k] + [f"({i}:{props[1]})", f"({i}:{props[0]})"] + blocks[k + 1:]
            yield "split attribute block", parts[0] + "/" + "".join(tuples) + tail(b2)
            b3 = blocks[:k] + [f"({i}:{props[1]},{props[0]})"] + blocks[k + 1:]
            yield "reorder properties", parts[0] + "/" + "".join(tuples) + tail(b3)
    # renumber atoms within an element block
    f = re.findall(r"([A-Z][a-z]?)([0-9]*)", parts[0])
    return


def renumber_within_block(T, rnd, s):
    """swap two indices that belong to the same element block, renaming tuples and attributes"""
    ga = T.ga
    ref = ref_read(T.repo, s)
    if ref is None:
        return None
    atoms, bonds, attrs = ref
    zs = sorted(range(len(atoms)), key=lambda i: T.ELEMENT_ATTRS[atoms[i]][ga.ATOMIC_NUMBER])
    sym_at = [atoms[i] for i in zs]
    groups = {}
    for i, x in enumerate(sym_at):
        groups.setdefault(x, []).append(i + 1)
    cands = [g for g in groups.values() if len(g) > 1]
    if not cands:
        return None
    g = rnd.choice(cands)
    a, b = rnd.sample(g, 2)
    sw = lambda m: {str(a): str(b), str(b): str(a)}.get(m.group(0), m.group(0))
    parts = s.split("/")
    parts[1] = re.sub(r"\d+", sw, parts[1])
    if len(parts) > 2:
        parts[2] = re.sub(r"\((\d+):", lambda m: "(" + {str(a): str(b), str(b): str(a)}.get(m.group(1), m.group(1)) + ":", parts[2])
    return "/".join(parts)


def gen_c11(T, tier, seed, budget, out: Outcome):
    rnd = random.Random(seed)
    t0 = time.time()
    out.rule = ("accepted strings = canonical strings of small-scope molecules and hand-written sentences; respelling operators: reorder tuples, swap "
                "endpoints, repeat a tuple (either orientation; once, 30 times, every tuple three times in both orientations), reorder / split attribute blocks, reorder properties, swap two indices of one element "
                "block. Non-trivial = distinct (string, respelling) pairs with respelling != string.")
    sents = list(VALID_SENTENCES)
    for atoms, edges in molecules(rnd, tier)[: (60 if tier == "quick" else 400)]:
        try:
            sents.append(tucan_of(T, build(T, atoms, edges)))
        except Exception:  # noqa: BLE001
            pass
    rnd.shuffle(sents)
    # the accepted sentence with no atoms (lean/AUDIT.md finding 5; Contracts.Final.tucan_of_empty)
    out.run(T, "c11", {"s": "/", "t": "/", "op": "identity on the empty molecule"}, None)
    for s in sents:
        if time.time() - t0 > budget or len(out.violations) >= 3:
            return
        try:
            T.parse(s)
        except T.TucanParserException:
            continue
        for op, t in list(respellings(rnd, s) or []) + [("swap indices within element block", renumber_within_block(T, rnd, s))]:
            if t is None:
                continue
            out.run(T, "c11", {"s": s, "t": t, "op": op}, (s, t) if s != t else None)


def gen_c07(T, tier, seed, budget, out: Outcome):
    rnd = random.Random(seed)
    t0 = time.time()
    n = 400 if tier == "quick" else 20000
    out.rule = ("abstract molecules (<=5 atoms over C,N,O,H,D,T,Cl,Fe,Og; charges, radicals, masses incl. explicit zeros) rendered as V3000 with random "
                "blank runs (1-3), 0-3 continuation cuts at arbitrary positions, shuffled key=value order, 0-2 foreign spec keywords per line (incl. EXACHG), "
                "3 index maps, optional CRLF. Non-trivial = distinct renderings.")
    # a quoted string value that contains a blank and a word looking like a charge (lean: Contracts.C07Star.quoted_value_misread)
    qm = molgen.Mol([{"sym": "C", "x": 0.0, "y": 0.0, "z": 0.0}], [])
    qtext = ("\n  verif\n\n  0  0  0     0  0            999 V3000\nM  V30 BEGIN CTAB\nM  V30 COUNTS 1 0 0 0 0\nM  V30 BEGIN ATOM\n"
             "M  V30 1 C 0 0 0 0 CLASS=\"x CHG=5 y\"\nM  V30 END ATOM\nM  V30 END CTAB\nM  END\n")
    out.run(T, "c07", {"mol": {"atoms": qm.atoms, "bonds": []}, "text": qtext}, qtext)
    for m, star in star_ring_cases(rnd):
        text = molgen.render_v3000(rnd, m, star=star)
        mol_bonds = [list(b) for b in m.bonds] + [[star[0], e, star[2]] for e in star[1]]
        out.run(T, "c07", {"mol": {"atoms": m.atoms, "bonds": mol_bonds}, "text": text}, text)
    for _ in range(n):
        if time.time() - t0 > budget or len(out.violations) >= 3:
            return
        m = molgen.rand_mol(rnd, 5)
        star = None
        if len(m.atoms) >= 3 and rnd.random() < .25:
            anchor = rnd.randrange(len(m.atoms))
            bonded = {frozenset((i, j)) for i, j, _ in m.bonds}
            cands = [e for e in range(len(m.atoms)) if e != anchor and frozenset((anchor, e)) not in bonded]
            if cands:
                ends = rnd.sample(cands, rnd.randint(1, len(cands)))
                star = (anchor, ends, rnd.randint(1, 3))
        text = molgen.render_v3000(rnd, m, crlf=rnd.random() < .15, star=star)
        mol_bonds = [list(b) for b in m.bonds] + ([[star[0], e, star[2]] for e in star[1]] if star else [])
        out.run(T, "c07", {"mol": {"atoms": m.atoms, "bonds": mol_bonds}, "text": text}, text)


def star_ring_cases(rnd):
    """metal atom multi-attached to all atoms of a carbon ring of n atoms (n incl. two-digit endpoint counts)"""
    for n in (3, 5, 9, 10, 12, 24):
        atoms = [{"sym": "C", "x": float(i), "y": 0.0, "z": 0.0} for i in range(n)] + [{"sym": "Fe", "x": 0.0, "y": 5.0, "z": 0.0}]
        bonds = [(i, (i + 1) % n, 1) for i in range(n)]
        m = molgen.Mol(atoms, bonds)
        ends = list(range(n))
        rnd.shuffle(ends)
        yield m, (n, ends, 9)


def big_v2000_case(rnd):
    """a chain of 100-130 atoms with isotope / charge / radical entries on 7-24 atoms, most of them with three-digit indices, so that full
    property lines (up to 8 entries) carry wide indices in every slot"""
    n = rnd.randint(100, 130)
    atoms = [{"sym": "C", "x": round(i * 1.5, 4), "y": 0.0, "z": 0.0, "chg": 0, "rad": 0, "mass": 0} for i in range(n)]
    for i in rnd.sample(range(n), rnd.randint(7, 24)) + rnd.sample(range(99, n), min(8, n - 99)):
        k = rnd.random()
        if k < .5:
            atoms[i]["mass"] = rnd.choice([13, 14, 11])
        elif k < .75:
            atoms[i]["chg"] = rnd.choice([-1, 1, 2, -15, 15])
        else:
            atoms[i]["rad"] = rnd.choice([1, 2, 3])
    return molgen.Mol(atoms, [(i, i + 1, 1) for i in range(n - 1)])


def gen_c08(T, tier, seed, budget, out: Outcome):
    rnd = random.Random(seed)
    t0 = time.time()
    for _ in range(6 if tier == "quick" else 60):
        m = big_v2000_case(rnd)
        mode = {"chg_lines": True, "stale_codes": False, "zeros": False, "extras": False}
        v2 = molgen.render_v2000(rnd, m, mode, max_per_line=rnd.choice([8, 8, 7]))
        m3 = molgen.Mol([{k: v for k, v in a.items() if k in ("sym", "x", "y", "z") or v} for a in m.atoms], m.bonds)
        v3 = molgen.render_v3000(rnd, m3, cuts=False, extra_kw=False, index_maps=False)
        out.run(T, "c08", {"mol": {"atoms": m.atoms, "bonds": [list(b) for b in m.bonds]}, "mode": mode, "v2000": v2, "v3000": v3}, v2)
        if len(out.violations) >= 3:
            return
    n = 400 if tier == "quick" else 20000
    out.rule = ("abstract molecules (<=12 atoms incl. D/T) rendered as V2000 with charge codes or M CHG/M RAD lines (stale codes that must be superseded, "
                "explicit zero entries, ISO entries with arbitrary values naming D/T atoms, 1-8 entries per line over shuffled lines, unrelated M/G/V lines; a quarter of the "
                "molecules without coordinates, i.e. with byte-identical atom lines) and as V3000; all in one process, so that state carried between reads shows. "
                "Non-trivial = distinct V2000 renderings.")
    for _ in range(n):
        if time.time() - t0 > budget or len(out.violations) >= 3:
            return
        m = molgen.rand_mol_v2000(rnd, 12)
        if rnd.random() < .25:  # a structure without coordinates: atoms of one element have byte-identical atom lines
            for a in m.atoms:
                a["x"] = a["y"] = a["z"] = 0.0
        mode = {"chg_lines": rnd.random() < .6, "stale_codes": rnd.random() < .5, "zeros": rnd.random() < .3, "extras": True, "iso_on_dt": rnd.random() < .4}
        if not mode["chg_lines"]:
            for a in m.atoms:
                if a["chg"]:
                    a["rad"] = 0
                elif a["rad"] != 2:
                    a["rad"] = 0
        v2 = molgen.render_v2000(rnd, m, mode)
        if mode["chg_lines"] and mode["stale_codes"] and not ("M  CHG" in v2 or "M  RAD" in v2):
            continue
        m3 = molgen.Mol([{k: v for k, v in a.items() if k in ("sym", "x", "y", "z") or v} for a in m.atoms], m.bonds)
        v3 = molgen.render_v3000(rnd, m3, cuts=False, extra_kw=False, index_maps=False)
        out.run(T, "c08", {"mol": {"atoms": m.atoms, "bonds": [list(b) for b in m.bonds]}, "mode": mode, "v2000": v2, "v3000": v3}, v2)


def wide_graph_spec(rnd, k):
    syms = ["C", "Og", "H", "Cl"]
    big = [0, 7, 10 ** 3, 10 ** 9, 10 ** 30, 10 ** 62][k % 6]
    nn = rnd.randint(1, 5)
    nodes = []
    for i in range(nn):
        d = {"element_symbol": rnd.choice(syms), "atomic_number": 6, "partition": 0,
             "x_coord": rnd.choice([0.5, -1125899906842624.5, 2.25, 4503599627370496.0, 1e22, -1e-7, 123456.789012]),
             "y_coord": rnd.choice([0.0, 1.125, -3.5, 1e15]), "z_coord": rnd.choice([0.0, 9007199254740992.0, -0.0])}
        if rnd.random() < .4:
            d["chg"] = rnd.choice([-15, -1, 1, 15, 3])
        if rnd.random() < .4:
            d["rad"] = rnd.choice([1, 2, 3])
        if rnd.random() < .4:
            d["mass"] = rnd.choice([13, 2, 250, 10 ** 20])
        nodes.append([big + i, d])
    if k % 3 == 1 and nn >= 2:
        # a label set with gaps (a graph from which atoms were removed): labels keep their order, the gaps grow
        gap = 0
        for i in range(nn):
            gap += rnd.choice([0, 1, 2, 7])
            nodes[i][0] = big + i + gap
    edges = []
    for i in range(nn):
        for j in range(i + 1, nn):
            if rnd.random() < .5:
                edges.append([nodes[i][0], nodes[j][0], {"bond_type": rnd.choice([1, 2, 3, 4, 10 ** 70])} if rnd.random() < .85 else {}])
    return {"nodes": nodes, "edges": edges}


def length_targeted_spec(total_len):
    """one atom whose logical atom line has exactly `total_len` characters (index width is the free parameter)"""
    base = len(" C 0.500000 0.000000 0.000000 0")
    w = total_len - base
    if w < 1:
        return None
    label = int("1" + "0" * (w - 1)) - 1 if w > 1 else 0   # label+1 has w digits
    if len(str(label + 1)) != w:
        return None
    return {"nodes": [[label, {"element_symbol": "C", "atomic_number": 6, "partition": 0, "x_coord": 0.5, "y_coord": 0.0, "z_coord": 0.0}]], "edges": []}


def gen_c09(T, tier, seed, budget, out: Outcome):
    rnd = random.Random(seed)
    t0 = time.time()
    out.rule = ("graphs with index widths 1..63 digits, coordinates up to 1e22, charges/radicals/masses in range, bond types up to 71 digits (lines wrap 0-3 "
                "times); plus one-atom graphs whose logical atom line has every length 60..300; plus one-atom graphs with negative coordinates and charge behind indices of 50..75 digits (a minus sign at every position around the cut); plus string->graph->molfile->graph->string on TUCAN sentences. "
                "Non-trivial = distinct graphs whose molfile contains at least one wrapped line.")
    for total in range(60, 301 if tier != "quick" else 160):
        spec = length_targeted_spec(total)
        if spec is None:
            continue
        out.run(T, "c09", {"graph": spec}, ("len", total) if total > 72 else None)
        if time.time() - t0 > budget or len(out.violations) >= 3:
            return
    # minus signs at every position around the cut: negative coordinates and a negative charge behind indices of 50..75 digits
    for w in range(50, 76):
        label = int("1" + "0" * (w - 1)) - 1
        for xs in ((-0.5, -2.25, -1.0), (1.5, -0.125, -7.0)):
            spec = {"nodes": [[label, {"element_symbol": "C", "atomic_number": 6, "partition": 0, "x_coord": xs[0], "y_coord": xs[1], "z_coord": xs[2], "chg": -1}]], "edges": []}
            out.run(T, "c09", {"graph": spec}, ("minus", w, xs[0]))
        if time.time() - t0 > budget or len(out.violations) >= 3:
            return
    for k in range(150 if tier == "quick" else 5000):
        spec = wide_graph_spec(rnd, k)
        widest = max(len(str(n[0])) for n in spec["nodes"])
        out.run(T, "c09", {"graph": spec}, json.dumps(spec, default=str) if widest > 25 else None)
        if time.time() - t0 > budget or len(out.violations) >= 3:
            return
    for s in VALID_SENTENCES:
        out.run(T, "c09_tucan", {"s": s}, None)


def gen_c06(T, tier, seed, budget, out: Outcome):
    rnd = random.Random(seed)
    t0 = time.time()
    out.rule = ("pairs of V3000/V2000 renderings of one molecule that differ in exactly one non-identity dimension: coordinates, bond types, charges, header "
                "lines, index values, foreign keywords, CRLF vs LF, V2000 vs V3000, order and grouping of V2000 property lines. Non-trivial = distinct pairs with different text.")
    n = 150 if tier == "quick" else 5000
    for _ in range(n):
        if time.time() - t0 > budget or len(out.violations) >= 3:
            return
        m = molgen.rand_mol(rnd, 6, zero_values=False)
        r1 = random.Random(rnd.random())
        base = molgen.render_v3000(random.Random(1), m, cuts=False, blank_runs=False, extra_kw=False, index_maps=False)
        dim = rnd.choice(["coordinates", "bond types", "charges", "header", "index values", "foreign keywords", "CRLF", "continuation/blank runs",
                          "V2000 charge encoding", "comment line looking like a continued V30 line", "V2000 property line order and grouping"])
        if dim == "V2000 property line order and grouping":
            # same identity data (radicals, masses) in both files; the charges, the order of the M CHG / M RAD / M ISO lines and the number of
            # entries per line (1, 2 or 8: several lines of one keyword) differ
            m2k = molgen.rand_mol_v2000(rnd, 10)
            if rnd.random() < .3:
                for a in m2k.atoms:
                    a["rad"] = 2
            mode = {"chg_lines": True, "stale_codes": rnd.random() < .5, "zeros": False, "extras": rnd.random() < .5}
            ta = molgen.render_v2000(rnd, m2k, mode, max_per_line=rnd.choice([1, 2, 8]))
            m3k = molgen.Mol([dict(a, chg=rnd.choice([0, 0, 1, -1, 2])) for a in m2k.atoms], m2k.bonds)
            tb = molgen.render_v2000(rnd, m3k, mode, max_per_line=rnd.choice([1, 8]))
            out.run(T, "c06", {"text_a": ta, "text_b": tb, "dim": dim}, (ta, tb))
            continue
        if dim == "V2000 charge encoding":
            m2k = molgen.rand_mol_v2000(rnd, 8)
            for a in m2k.atoms:
                a["rad"] = 0  # identity data is the same in both files: no radicals, only charges move between encodings
            mode_a = {"chg_lines": True, "stale_codes": True, "zeros": rnd.random() < .3, "extras": True}
            mode_b = {"chg_lines": False, "stale_codes": False, "zeros": False, "extras": False}
            ta = molgen.render_v2000(rnd, m2k, mode_a)
            if "M  CHG" not in ta and "M  RAD" not in ta:
                continue
            tb = molgen.render_v2000(rnd, molgen.Mol([dict(a, chg=0) for a in m2k.atoms], m2k.bonds), mode_b)
            out.run(T, "c06", {"text_a": ta, "text_b": tb, "dim": dim}, (ta, tb))
            continue
        m2 = molgen.Mol([dict(a) for a in m.atoms], list(m.bonds))
        kw = dict(cuts=False, blank_runs=False, extra_kw=False, index_maps=False)
        if dim == "coordinates":
            for a in m2.atoms:
                a["x"], a["y"], a["z"] = round(r1.uniform(-50, 50), 4), round(r1.uniform(-50, 50), 4), round(r1.uniform(-5, 5), 4)
        elif dim == "bond types":
            m2.bonds = [(i, j, r1.choice([1, 2, 3, 4, 5, 6, 7, 8, 9, 10])) for i, j, t in m2.bonds]
        elif dim == "charges":
            for a in m2.atoms:
                a.pop("chg", None)
                if r1.random() < .5:
                    a["chg"] = r1.choice([-2, -1, 1, 3])
        elif dim == "header":
            kw["header"] = ("another name", "  XYZ 01012500002D", "a comment line")
        elif dim == "comment line looking like a continued V30 line":
            kw["header"] = (rnd.choice(["name", "M  V30 x-"]), "  prog", rnd.choice(["M  V30 -", "M  V30 some comment -"]))
        elif dim == "index values":
            kw["index_maps"] = True
        elif dim == "foreign keywords":
            kw["extra_kw"] = True
        elif dim == "CRLF":
            kw["crlf"] = True
            if rnd.random() < .6:  # line endings must not interact with continuation lines either
                kw["cuts"] = True
                kw["blank_runs"] = rnd.random() < .5
        else:
            kw["cuts"] = True
            kw["blank_runs"] = True
        other = molgen.render_v3000(r1, m2, **kw)
        out.run(T, "c06", {"text_a": base, "text_b": other, "dim": dim}, (base, other) if base != other else None)


def gen_c05(T, tier, seed, budget, out: Outcome):
    rnd = random.Random(seed)
    t0 = time.time()
    out.rule = ("molecules from the small-scope family, formulas over all 118 elements with counts 1,2,9,10,11,99,100, and molecules read from molfiles "
                "with explicitly written defaults; each emitted string is judged by a validator generated from tucan.ebnf plus the layout rules of C05. "
                "Non-trivial = distinct emitted strings.")
    gen_pipeline(T, "c05", tier, seed, budget * 0.4, out)
    syms = list(T.ELEMENT_ATTRS)
    for _ in range(60 if tier == "quick" else 600):
        if time.time() - t0 > budget or len(out.violations) >= 3:
            return
        k = rnd.randint(1, 4)
        chosen = rnd.sample(syms, k)
        atoms = []
        for s in chosen:
            for _i in range(rnd.choice([1, 2, 9, 10, 11] if tier == "quick" else [1, 2, 9, 10, 11, 99, 100])):
                a = {"sym": s}
                if rnd.random() < .1:
                    a["mass"] = rnd.choice([1, 2, 13, 250])
                if rnd.random() < .1:
                    a["rad"] = rnd.choice([1, 2, 3])
                atoms.append(a)
        rnd.shuffle(atoms)
        n = len(atoms)
        edges = [[i, i + 1] for i in range(n - 1) if rnd.random() < .7]
        inp = {"atoms": atoms, "edges": edges}
        out.run(T, "c05", inp, json.dumps(sorted(chosen)) + str(n))
    for _ in range(60 if tier == "quick" else 600):
        if time.time() - t0 > budget or len(out.violations) >= 3:
            return
        m = molgen.rand_mol(rnd, 4)
        text = molgen.render_v3000(rnd, m)
        out.run(T, "c05_text", {"molfile": text}, text)
        m2 = molgen.rand_mol_v2000(rnd, 5)
        mode = {"chg_lines": True, "stale_codes": False, "zeros": True, "extras": False}
        text2 = molgen.render_v2000(rnd, m2, mode)
        out.run(T, "c05_text", {"molfile": text2}, text2)
        # files outside the format's value ranges: negative mass / radical, a bond from an atom to itself
        m3 = molgen.rand_mol(rnd, 4)
        a = rnd.choice(m3.atoms)
        a[rnd.choice(["mass", "rad"])] = rnd.choice([-1, -5, -13])
        if a["sym"] in "DT":
            a["sym"] = "C"
        text3 = molgen.render_v3000(rnd, m3, cuts=False)
        out.run(T, "c05_text", {"molfile": text3}, text3)
        m4 = molgen.rand_mol(rnd, 4, zero_values=False)
        i = rnd.randrange(len(m4.atoms))
        m4.bonds.append((i, i, 1))
        text4 = molgen.render_v3000(rnd, m4, cuts=False)
        out.run(T, "c05_text", {"molfile": text4}, text4)
        m5 = molgen.rand_mol(rnd, 4, zero_values=False)
        anchor = rnd.randrange(len(m5.atoms))
        ends = sorted(set([anchor] + [rnd.randrange(len(m5.atoms)) for _ in range(2)]))
        text5 = molgen.render_v3000(rnd, m5, cuts=False, star=(anchor, ends, 1))
        out.run(T, "c05_text", {"molfile": text5}, text5)


def gen_c15(T, tier, seed, budget, out: Outcome):
    t0 = time.time()
    out.rule = ("paths, cycles, ladders, combs, stars, complete graphs, isolated atoms, many 2-atom components with n up to the stated sizes, run through "
                "canonicalize + serialize (+ parse). Non-trivial = families whose refinement depth grows with n (path, cycle, ladder, comb) at n >= 1000.")
    sizes = [("path", 1), ("path", 2), ("path", 3), ("cycle", 3), ("star", 60), ("complete", 30), ("isolated", 1), ("isolated", 300), ("components", 200),
             ("ladder", 150), ("comb", 150), ("cycle", 600), ("isolated", 1700), ("path", 2100)]
    if tier != "quick":
        sizes += [("cycle", 2100), ("ladder", 1100), ("comb", 1100), ("path", 3000), ("isolated", 3000), ("components", 1600), ("star", 2000), ("complete", 70)]
    for fam, n in sizes:
        if time.time() - t0 > budget and n > 600:
            continue
        out.run(T, "c15", {"family": fam, "n": n}, (fam, n) if fam in ("path", "cycle", "ladder", "comb") and n >= 1000 else None)
        if len(out.violations) >= 3:
            return


def gen_c16(T, tier, seed, budget, out: Outcome):
    rnd = random.Random(seed)
    t0 = time.time()
    out.rule = ("small-scope molecules (n<=5, symmetric skeletons) with attributes attached, optionally relabelled to non-consecutive labels and with the nodes "
                "inserted in another order than the label order, x seeds in [0,1); three tiny molecules in reversed node order x a grid of 40 (200) seeds. Non-trivial = distinct (molecule, seed) with >= 2 bonds and not complete.")
    mols = molecules(rnd, tier)
    rnd.shuffle(mols)
    for atoms, edges in mols[: (150 if tier == "quick" else 2000)]:
        n = len(atoms)
        for seed_ in [rnd.choice([0.0, 0.5, 0.999999])] + [rnd.random() for _ in range(2 if tier == "quick" else 10)]:
            if time.time() - t0 > budget or len(out.violations) >= 3:
                return
            relabel = sorted(rnd.sample(range(100), n)) if rnd.random() < .3 else None
            inp = {"atoms": atoms, "edges": edges, "seed": seed_, "relabel": relabel}
            if rnd.random() < .4:
                inp["node_order"] = rnd.sample(range(n), n)
            m = len(edges)
            out.run(T, "c16", inp, json.dumps([atoms, edges, seed_]) if m > 1 and 2 * m != n * (n - 1) else None)
    # very small molecules whose node order differs from the label order, a grid of seeds: a shuffle that maps the edge set onto itself is frequent here
    for atoms, edges in [([{"sym": "C"}, {"sym": "C"}, {"sym": "C"}], [[0, 1], [0, 2]]), ([{"sym": "H"}] * 4 + [{"sym": "C"}], [[0, 4], [1, 4], [2, 4], [3, 4]]),
                         ([{"sym": "H"}, {"sym": "H"}, {"sym": "O"}], [[0, 2], [1, 2]])]:
        n = len(atoms)
        for k in range(40 if tier == "quick" else 200):
            if time.time() - t0 > budget * 1.5 or len(out.violations) >= 3:
                return
            inp = {"atoms": [dict(a) for a in atoms], "edges": edges, "seed": k / (40 if tier == "quick" else 200), "relabel": None, "node_order": list(reversed(range(n)))}
            out.run(T, "c16", inp, json.dumps([atoms, edges, inp["seed"], "reversed"]))


# --------------------------------------------------------------------------- C14 (determinism) — subprocess probe
C14_WORKLOAD = r'''
import sys, json, random, hashlib
sys.path.insert(0, sys.argv[1])
import tucan, os
assert os.path.realpath(tucan.__file__).startswith(os.path.realpath(sys.argv[1]))
from tucan.io import graph_from_molfile_text, graph_to_molfile, graph_from_tucan, TucanParserException
from tucan.canonicalization import canonicalize_molecule
from tucan.serialization import serialize_molecule
items = json.load(open(sys.argv[2]))
mode, seed = sys.argv[3], int(sys.argv[4])
order = list(range(len(items)))
if mode != "plain":
    random.Random(seed).shuffle(order)
def run(it):
    try:
        if it["kind"] == "molfile":
            g = graph_from_molfile_text(it["text"])
            c = canonicalize_molecule(g)
            s = serialize_molecule(c)
            body = "\n".join(graph_to_molfile(c).split("\n")[2:])
            return [s, list(map(str, c.nodes(data=True))), list(map(str, c.edges(data=True))), hashlib.sha256(body.encode()).hexdigest()]
        elif it["kind"] == "layout":
            g = graph_from_molfile_text(it["text"])
            body = "\n".join(graph_to_molfile(g, calc_coordinates=True).split("\n")[2:])
            return [hashlib.sha256(body.encode()).hexdigest()]
        else:
            g = graph_from_tucan(it["text"])
            nodes, edges = list(map(str, g.nodes(data=True))), list(map(str, g.edges(data=True)))
            direct = serialize_molecule(g)  # a parsed graph may be serialized as it is
            return [serialize_molecule(canonicalize_molecule(g)), nodes, edges, direct]
    except TucanParserException as e:
        return ["TucanParserException", str(e)]
    except Exception as e:
        return [type(e).__name__]
res = {}
if mode == "threads":
    import threading
    lock = threading.Lock()
    def worker(idx):
        for i in idx:
            r = run(items[i])
            with lock:
                res.setdefault(i, []).append(r)
    ths = [threading.Thread(target=worker, args=(order[k::4] + order[(k+1) % 4::4],)) for k in range(4)]
    [t.start() for t in ths]; [t.join() for t in ths]
    bad = [i for i, rs in res.items() if any(r != rs[0] for r in rs)]
    out = {str(i): rs[0] for i, rs in res.items()}
    out["__inconsistent__"] = bad
else:
    out = {}
    again = []
    for i in order:
        out[str(i)] = run(items[i])
        if items[i].get("twice", True) and run(items[i]) != out[str(i)]:
            again.append(i)
    out["__history__"] = again
print(json.dumps(out, sort_keys=True))
'''


def gen_c14(repo, tier, seed, budget, out: Outcome, workdir):
    """assumption probe only (DESIGN.md §6 C14): the same workload in subprocesses with different hash seeds, shuffled call order
    (failing parses interleaved) and 4 threads; all results must be identical"""
    import glob
    rnd = random.Random(seed)
    os.makedirs(workdir, exist_ok=True)
    files = sorted(glob.glob(os.path.join(repo, "tests/molfiles/*/*.mol")))
    rnd.shuffle(files)
    items = []
    for f in files[: (25 if tier == "quick" else 120)]:
        t = open(f).read()
        if len(t) < 6000:
            items.append({"kind": "molfile", "text": t})
    co = lambda props: "\n".join(["co", "  prog", "", "  2  1  0  0  0  0  0  0  0  0999 V2000",
                                   "    0.0000    0.0000    0.0000 C   0  0  0  0  0  0  0  0  0  0  0  0",
                                   "    1.2000    0.0000    0.0000 O   0  0  0  0  0  0  0  0  0  0  0  0",
                                   "  1  2  2  0  0  0  0"] + props + ["M  END"])
    for props in ([], ["M  ISO  1   1  13"], ["M  RAD  1   2   2"], ["M  ISO  1   2  -5"], ["M  CHG  1   1   1"], []):
        items.append({"kind": "molfile", "text": co(props)})  # same atom lines, different property blocks, one rejected file
    # V2000 atoms written as D/T with an atom-block charge code, and ordinary atoms with the same codes (state in shared tables shows as a
    # dependence on the call order)
    one = lambda sym, code, props=(): "\n".join(["x", "  prog", "", "  1  0  0  0  0  0  0  0  0  0999 V2000",
                                                   f"    0.0000    0.0000    0.0000 {sym:<3} 0{code:3d}  0  0  0  0  0  0  0  0  0  0"] + list(props) + ["M  END"])
    for code in (1, 3, 4, 5):
        items.append({"kind": "molfile", "text": one("N", code)})
        items.append({"kind": "molfile", "text": one(rnd.choice("DT"), code)})
        items.append({"kind": "molfile", "text": one("O", code, ["M  CHG  1   1  -1"])})
    dup = rnd.sample(VALID_SENTENCES, min(4, len(VALID_SENTENCES)))
    for s in dup:
        items.append({"kind": "tucan", "text": s})  # the same string also occurs below: a second parse must not depend on the first
    chain = lambda n: "\n".join(["chain", "  prog", "", "  0  0  0     0  0            999 V3000", "M  V30 BEGIN CTAB", f"M  V30 COUNTS {n} {n - 1} 0 0 0", "M  V30 BEGIN ATOM"]
                                 + [f"M  V30 {i + 1} C 0 0 0 0" for i in range(n)] + ["M  V30 END ATOM", "M  V30 BEGIN BOND"]
                                 + [f"M  V30 {i + 1} 1 {i + 1} {i + 2}" for i in range(n - 1)] + ["M  V30 END BOND", "M  V30 END CTAB", "M  END", ""])
    items.append({"kind": "layout", "text": chain(12)})
    if tier != "quick":
        items.append({"kind": "layout", "text": chain(101), "twice": False})  # coordinate calculation for a large molecule (seconds per call)
    for s in VALID_SENTENCES + ["C2/(1-1)", "C/(1-2)", "Cx/", "C2/(1-2)/(1:mass=2)(1:mass=3)", "((", "C2H6O/(1-3)(2-3", "H2O/(1-3)(2-3)/(1:mass=2)(3:rad=2"]:
        items.append({"kind": "tucan", "text": s})
    runs = [("plain", "0", 0), ("plain", "1", 0), ("shuffled", "12345", 1), ("shuffled", "987", 2), ("threads", "4242", 3)]
    if tier != "quick":
        runs += [("shuffled", str(1000 + i), 10 + i) for i in range(4)] + [("threads", str(50 + i), 20 + i) for i in range(3)]
    out.rule = ("one workload (%d molfiles + %d TUCAN strings incl. rejected ones) run in %d subprocesses: PYTHONHASHSEED in {0,1,12345,987,…}, "
                "plain / shuffled call order / 4 concurrent threads; every item is computed twice in a row; every result (string, canonical graph, parsed graph, molfile body, "
                "calculated coordinates) must be identical across runs and between the two calls. "
                "Non-trivial = (item, run) pairs beyond the first run." % (sum(i["kind"] != "tucan" for i in items), sum(i["kind"] == "tucan" for i in items), len(runs)))
    viol, evals, nontrivial = c14_compare(repo, items, runs, workdir)
    out.evaluations += evals
    out.nontrivial |= nontrivial
    for v in viol[:3]:
        v["input"]["workload"] = items  # the whole workload is needed to replay a dependence on the call history
        out.violations.append(v)
    out.samples = [{"kind": "c14", "input": {"mode": m, "hashseed": h, "items": len(items)}} for (m, h, s) in runs[:3]]


def c14_compare(repo, items, runs, workdir):
    """run the workload `items` once per entry of `runs` (mode, PYTHONHASHSEED, shuffle seed) in a subprocess each; returns
    (violations, evaluations, non-trivial keys). The first run is the reference."""
    os.makedirs(workdir, exist_ok=True)
    wl = os.path.join(workdir, "c14_workload.py")
    data = os.path.join(workdir, "c14_items_%d.json" % os.getpid())
    open(wl, "w").write(C14_WORKLOAD)
    json.dump(items, open(data, "w"))
    results = []
    for mode, hs, sd in runs:
        env = dict(os.environ, PYTHONHASHSEED=hs)
        p = subprocess.run([sys.executable, wl, repo, data, mode, str(sd)], capture_output=True, text=True, env=env, timeout=1200)
        if p.returncode != 0:
            raise RuntimeError("C14 workload crashed: " + p.stderr[-2000:])
        results.append(((mode, hs, sd), json.loads(p.stdout.strip().splitlines()[-1])))
    base = results[0][1]
    viol, evals, nontrivial = [], 0, set()
    for (mode, hs, sd), r in results:
        for i in r.pop("__history__", []):
            viol.append({"kind": "c14", "input": {"mode": mode, "hashseed": hs, "seed": sd, "item": items[i]},
                         "what": "the same call made twice in a row in one process gives two different results"})
        inc = r.pop("__inconsistent__", [])
        if inc:
            viol.append({"kind": "c14", "input": {"mode": mode, "hashseed": hs, "seed": sd, "item": items[inc[0]]}, "what": "concurrent threads got different results for the same input"})
        for k, v in r.items():
            evals += 1
            if (mode, hs, sd) != results[0][0]:
                nontrivial.add((k, mode, hs, sd))
            if v != base.get(k):
                viol.append({"kind": "c14", "input": {"mode": mode, "hashseed": hs, "seed": sd, "item": items[int(k)]},
                             "what": f"result differs from the reference run (plain order, PYTHONHASHSEED={results[0][0][1]}) in run ({mode}, hash seed {hs}, order seed {sd})"})
                break
    return viol, evals, nontrivial


def pred_c14(T, inp):
    """replay: the recorded workload under the reference run and the run that differed"""
    items = inp.get("workload") or [inp["item"]]
    runs = [("plain", "0", 0), (inp.get("mode", "plain"), str(inp.get("hashseed", "0")), int(inp.get("seed", 0)))]
    import tempfile
    with tempfile.TemporaryDirectory() as d:
        viol, _, _ = c14_compare(T.repo, items, runs, d)
    return viol[0]["what"] + ": " + json.dumps(viol[0]["input"]["item"])[:300] if viol else None


PREDICATES["c14"] = pred_c14
EVAL_TIMEOUT_S["c14"] = 2400


# --------------------------------------------------------------------------- probes of assumed dependency contracts (V3, V5, V6)
def probe_v3(tier, seed):
    """bliss via igraph: permute_vertices(canonical_permutation(color)) is identical for all relabelings of a coloured graph,
    carries vertex attributes, and the returned vector is a permutation"""
    import igraph
    rnd = random.Random(seed)
    max_n = 4 if tier == "quick" else 5
    evals, bad = 0, []
    for n in range(1, max_n + 1):
        for edges in molgen.all_graphs(n):
            for _ in range(2):
                col = [rnd.randint(0, 1) for _ in range(n)]
                forms = set()
                perms = list(itertools.permutations(range(n))) if n <= 4 else [tuple(rnd.sample(range(n), n)) for _ in range(12)]
                for p in perms:
                    g = igraph.Graph(n=n, edges=[(p[u], p[v]) for u, v in edges])
                    c = [0] * n
                    for i in range(n):
                        c[p[i]] = col[i]
                    g.vs["name0"] = list(range(n))
                    g.vs["c"] = c
                    cp = g.canonical_permutation(color=c)
                    evals += 1
                    if sorted(cp) != list(range(n)):
                        bad.append(f"not a permutation: {cp}")
                        continue
                    h = g.permute_vertices(cp)
                    if sorted(h.vs["name0"]) != list(range(n)) or [c[i] for i in h.vs["name0"]] != h.vs["c"]:
                        bad.append("vertex attributes not carried")
                    forms.add((tuple(h.vs["c"]), tuple(sorted(tuple(sorted(e)) for e in h.get_edgelist()))))
                if len(forms) != 1:
                    bad.append(f"{len(forms)} canonical forms for one coloured graph n={n} edges={edges} col={col}")
    return {"probe": "V3", "evaluations": evals, "failures": bad[:3], "bound": f"all graphs n<={max_n}, 2 random 2-colourings each, all (n<=4) or 12 relabelings"}


def probe_v5(tier, seed):
    rnd = random.Random(seed)
    import struct
    evals, bad = 0, []
    xs = [0.0, -0.0, 1e-7, 5e-7, 4.9999995e-7, 1e300, -1e300, 2.0 ** 53 * 1e-6, 123456.7890125, 0.1 + 0.2, 5e-324, 2.2250738585072014e-308]
    for _ in range(2000 if tier == "quick" else 200000):
        k = rnd.random()
        if k < .3:
            xs.append(rnd.uniform(-100, 100))
        elif k < .6:
            xs.append(struct.unpack("<d", struct.pack("<Q", rnd.getrandbits(64)))[0])
        else:
            xs.append(round(rnd.uniform(-1e6, 1e6), rnd.randint(0, 9)))
    for x in xs:
        if x != x or x in (float("inf"), float("-inf")):
            continue
        evals += 1
        s = f"{x:.6f}"
        try:
            y = float(s)
        except ValueError:
            bad.append(f"float({s!r}) raises")
            continue
        if f"{y:.6f}" != s:
            bad.append(f"fmt6 not idempotent through float(): {x!r} -> {s} -> {y!r} -> {y:.6f}")
        # FloatIgnoresBlanks (hypothesis of Contracts.C08Coords): float() of a blank-padded field = float() of the token
        for tok in (s, f"{x:.4f}", repr(x)):
            pad = " " * rnd.randint(0, 10)
            try:
                if struct.pack("<d", float(pad + tok)) != struct.pack("<d", float(tok)) or \
                        struct.pack("<d", float(tok.rjust(10))) != struct.pack("<d", float(tok)):
                    bad.append(f"float() does not ignore leading blanks: {pad + tok!r}")
            except ValueError:
                bad.append(f"float({pad + tok!r}) raises")
    # the rejecting half of FloatIgnoresBlanks: a padded token is rejected iff the bare token is
    for tok in ["", "1.5x", "abc", "--1", "1 2", "1,5", ".", "-", "1e", "0x10", "1_0", "nan", "inf", "\t1", "1\n"]:
        for pad in ("", " ", "      "):
            def acc(t):
                try:
                    float(t)
                    return True
                except ValueError:
                    return False
            evals += 1
            if acc(pad + tok) != acc(tok):
                bad.append(f"float() accepts exactly one of {tok!r} and {pad + tok!r}")
    return {"probe": "V5", "evaluations": evals, "failures": bad[:3], "bound": "random finite doubles incl. raw bit patterns, subnormals, ±0, 1e300; blank-padded renderings of each (float ignores leading blanks), 15 rejected tokens x 3 paddings (rejected iff the bare token is)"}


def probe_v6(tier, seed):
    rnd = random.Random(seed)
    evals, bad = 0, []
    for _ in range(200 if tier == "quick" else 5000):
        s = rnd.random()
        l = list(range(rnd.randint(0, 12)))
        random.seed(s)
        a = list(l)
        random.shuffle(a)
        b = list(l)
        random.shuffle(b)
        random.seed(s)
        a2 = list(l)
        random.shuffle(a2)
        b2 = list(l)
        random.shuffle(b2)
        evals += 1
        if sorted(a) != l or sorted(b) != l or a != a2 or b != b2:
            bad.append(f"seed {s}: shuffle not a deterministic permutation")
    return {"probe": "V6", "evaluations": evals, "failures": bad[:3], "bound": "random seeds in [0,1), lists of length <= 12, two consecutive shuffles"}
