"""Sidecar tables for the extractor: which functions are under contract, type hints the Python
annotations do not give, record types. Nothing here describes behaviour."""
from __future__ import annotations
import ast, os, re

MODULE_FILES = [
    "tucan/graph_attributes.py",
    "tucan/element_attributes.py",
    "tucan/graph_utils.py",
    "tucan/canonicalization.py",
    "tucan/serialization.py",
    "tucan/io/molfile_writer.py",
    "tucan/io/molfile_v3000_reader.py",
    "tucan/io/molfile_v2000_reader.py",
    "tucan/io/molfile_reader.py",
    "tucan/parser/parser.py",
]

LEAN_MODULE_NAMES = {
    "tucan.element_attributes": "ElementAttributes",
    "tucan.graph_utils": "GraphUtils",
    "tucan.canonicalization": "Canonicalization",
    "tucan.serialization": "Serialization",
    "tucan.io.molfile_writer": "Writer",
    "tucan.io.molfile_v3000_reader": "V3000",
    "tucan.io.molfile_v2000_reader": "V2000",
    "tucan.io.molfile_reader": "Reader",
    "tucan.parser.parser": "Parser",
}

# functions under contract (module, qualified name)
TARGETS = [
    ("tucan.element_attributes", "detect_hydrogen_isotopes"),
    ("tucan.graph_utils", "_add_invariant_code"),
    ("tucan.graph_utils", "graph_from_molecule"),
    ("tucan.graph_utils", "attribute_sequence"),
    ("tucan.graph_utils", "sort_molecule_by_attribute"),
    ("tucan.graph_utils", "_sort_molecule_by_label"),
    ("tucan.graph_utils", "_permute_molecule"),
    ("tucan.graph_utils", "permute_molecule"),
    ("tucan.canonicalization", "partition_molecule_by_attribute"),
    ("tucan.canonicalization", "get_number_of_partitions"),
    ("tucan.canonicalization", "refine_partitions"),
    ("tucan.canonicalization", "assign_canonical_labels"),
    ("tucan.canonicalization", "canonicalize_molecule"),
    ("tucan.serialization", "_write_edge_list"),
    ("tucan.serialization", "_write_node_attributes"),
    ("tucan.serialization", "_write_sum_formula"),
    ("tucan.serialization", "_labels_by_partition"),
    ("tucan.serialization", "_assign_final_labels"),
    ("tucan.serialization", "serialize_molecule"),
    ("tucan.io.molfile_writer", "_add_header"),
    ("tucan.io.molfile_writer", "_add_v30_line"),
    ("tucan.io.molfile_writer", "_add_atom_block"),
    ("tucan.io.molfile_writer", "_add_bond_block"),
    ("tucan.io.molfile_writer", "graph_to_molfile"),
    ("tucan.io.molfile_v3000_reader", "_concat_lines_with_dash"),
    ("tucan.io.molfile_v3000_reader", "_tokenize_lines"),
    ("tucan.io.molfile_v3000_reader", "_validate_counts_line"),
    ("tucan.io.molfile_v3000_reader", "_parse_atom_attributes"),
    ("tucan.io.molfile_v3000_reader", "_parse_atom_block"),
    ("tucan.io.molfile_v3000_reader", "_parse_bond_attributes"),
    ("tucan.io.molfile_v3000_reader", "_parse_bond_line_with_star_atom"),
    ("tucan.io.molfile_v3000_reader", "_parse_bond_block"),
    ("tucan.io.molfile_v3000_reader", "_validate_atom_index"),
    ("tucan.io.molfile_v3000_reader", "_validate_bond_indices"),
    ("tucan.io.molfile_v3000_reader", "graph_attributes_from_molfile_v3000"),
    ("tucan.io.molfile_v2000_reader", "_to_int"),
    ("tucan.io.molfile_v2000_reader", "_to_float"),
    ("tucan.io.molfile_v2000_reader", "_validate_atom_index"),
    ("tucan.io.molfile_v2000_reader", "_parse_atom_line"),
    ("tucan.io.molfile_v2000_reader", "_parse_atom_block"),
    ("tucan.io.molfile_v2000_reader", "_parse_bond_line"),
    ("tucan.io.molfile_v2000_reader", "_parse_bond_block"),
    ("tucan.io.molfile_v2000_reader", "_parse_atom_value_assignments"),
    ("tucan.io.molfile_v2000_reader", "_merge_tuples_into_additional_attributes"),
    ("tucan.io.molfile_v2000_reader", "_clear_atom_attribute"),
    ("tucan.io.molfile_v2000_reader", "_merge_atom_attributes_and_additional_attributes"),
    ("tucan.io.molfile_v2000_reader", "_parse_attribute_block"),
    ("tucan.io.molfile_v2000_reader", "graph_attributes_from_molfile_v2000"),
    ("tucan.io.molfile_reader", "_validate_atom_attributes"),
    ("tucan.io.molfile_reader", "_validate_bonds"),
    ("tucan.io.molfile_reader", "graph_from_molfile_text"),
    ("tucan.parser.parser", "_to_int"),
    ("tucan.parser.parser", "TucanListenerImpl._validate_atom_index"),
    ("tucan.parser.parser", "TucanListenerImpl._add_atoms"),
    ("tucan.parser.parser", "TucanListenerImpl._add_bond"),
    ("tucan.parser.parser", "TucanListenerImpl._add_node_attribute"),
    ("tucan.parser.parser", "TucanListenerImpl._parse_sum_formula"),
    ("tucan.parser.parser", "TucanListenerImpl.enterWith_carbon"),
    ("tucan.parser.parser", "TucanListenerImpl.enterWithout_carbon"),
    ("tucan.parser.parser", "TucanListenerImpl.enterTuple"),
    ("tucan.parser.parser", "TucanListenerImpl.enterNode_property"),
    ("tucan.parser.parser", "TucanListenerImpl.to_graph"),
]

# module-level constants emitted into Generated/Consts.lean: (module, name) -> Lean type
CONSTS = {
    ("tucan.element_attributes", "element_symbols"): "List Str",
    ("tucan.element_attributes", "ELEMENT_ATTRS"): "Dict Str Attrs",
    ("tucan.element_attributes", "MOLFILE_V2000_CHARGES"): "Dict Int Attrs",
    ("tucan.serialization", "_SERIALIZER_NODE_ATTRIBUTE_MAPPING"): "Dict String Str",
    ("tucan.parser.parser", "_DESERIALIZER_NODE_ATTRIBUTE_MAPPING"): "Dict Str String",
}

EXCEPTIONS = {"MolfileParserException", "TucanParserException"}
BUILTIN_EXCEPTIONS = {
    "KeyError": "Err.key", "IndexError": "Err.index", "ValueError": "Err.value", "TypeError": "Err.type_",
    "AssertionError": "Err.assertion",
}

ENDPTS_REGEX = r"ENDPTS=\(.+\)"

# NamedTuple / record constructors: name -> [(field, default)]
RECORD_CTORS = {
    "InvariantCodeDefinition": [("key", None), ("default_value", "Option.none")],
}
RECORD_FIELD_WRAP = {("InvariantCodeDefinition", "default_value"): "some <| toVal"}

# record types live in lean/Spec/Records.lean (shared with the baseline snapshot); generated modules re-export them as aliases
STRUCTS = {
    "tucan.graph_utils": {"InvariantCodeDefinition": "abbrev InvariantCodeDefinition := TucanTypes.InvariantCodeDefinition"},
    "tucan.parser.parser": {"TucanListenerImpl": "abbrev TucanListenerImpl := TucanTypes.TucanListenerImpl"},
}

LISTENERS = {"tucan.parser.parser": "TucanListenerImpl"}

CTX_ACCESSORS = {"node_index", "node_property_key", "node_property_value"}

_TYPE_TABLE = {
    "nx.Graph": "Graph",
    "str": "Str",
    "int": "Int",
    "bool": "Bool",
    "list[str]": "List Str",
    "list[list[str]]": "List (List Str)",
    "list[int]": "List Int",
    "list[tuple[int, int]]": "List (Int × Int)",
    "dict[int, dict[str, Any]]": "Dict Int Attrs",
    "dict[tuple[int, int], dict[str, int]]": "Dict (Int × Int) Attrs",
    "dict[tuple[int, int], dict]": "Dict (Int × Int) Attrs",
    "dict[str, Any]": "Attrs",
    "dict[str, int]": "Attrs",
    "dict[int, int]": "Dict Int Int",
    "dict": None,
    "list": None,
    "tuple[str, int]": "(Str × Int)",
    "tuple[str | int | float, ...]": "List Val",
    "tuple[dict[str, Any], bool]": "(Attrs × Bool)",
    "tuple[dict[int, dict[str, Any]], list[int]]": "(Dict Int Attrs × List Int)",
    "tuple[dict[int, dict[str, Any]], dict[tuple[int, int], dict[str, int]]]": "(Dict Int Attrs × Dict (Int × Int) Attrs)",
    "tuple[tuple[int, int], dict[str, int]]": "((Int × Int) × Attrs)",
    "list[InvariantCodeDefinition]": "List InvariantCodeDefinition",
    "float": "Val",
}


def lean_type(ann: str | None, override: str | None) -> str | None:
    if override:
        return override
    if ann is None:
        return None
    return _TYPE_TABLE.get(ann)


_GA_CACHE: dict[str, dict[str, str]] = {}


def graph_attribute_value(repo: str, name: str):
    """value of a constant in tucan/graph_attributes.py (read from the working tree)"""
    if repo not in _GA_CACHE:
        vals = {}
        tree = ast.parse(open(os.path.join(repo, "tucan/graph_attributes.py")).read())
        for node in tree.body:
            if isinstance(node, ast.Assign) and isinstance(node.value, ast.Constant) and isinstance(node.value.value, str):
                for t in node.targets:
                    vals[t.id] = node.value.value
        _GA_CACHE[repo] = vals
    return _GA_CACHE[repo].get(name)


# per-function hints, keyed "<module short name>.<qualname>"
HINTS = {
    "graph_utils.attribute_sequence": {"params": {"attribute": "String"}},
    "graph_utils.sort_molecule_by_attribute": {"params": {"attribute": "String"}},
    "graph_utils._add_invariant_code": {"tuple_is_val": True},
    "graph_utils._sort_molecule_by_label": {"add_nodes_from_data": True, "add_edges_from_data": True},
    "graph_utils.permute_molecule": {"params": {"random_seed": "Val"}},
    "canonicalization.partition_molecule_by_attribute": {"params": {"attribute": "String"}},
    "canonicalization.get_number_of_partitions": {"returns": "Val"},
    "canonicalization.refine_partitions": {"yield_type": "List Graph"},
    "serialization._labels_by_partition": {"returns": "Dict Val (List Int)", "types": {"labels_by_partition": "Dict Val (List Int)"}},
    "serialization._assign_final_labels": {"params": {"traversal_priorities": "(List (Val → Val → Bool))"},
                                           "types": {"final_labels": "Dict Int Int", "neighbor_traversal_order": "List Int"},
                                           "dict_literal_type": "Dict Int Int"},
    "serialization._write_node_attributes": {},
    "serialization._write_sum_formula": {"wrap": {"nx.get_node_attributes(m, ELEMENT_SYMBOL).values()": "List.map Val.asStr"}},
    "molfile_writer.graph_to_molfile": {"params": {"graph": "Graph", "calc_coordinates": "Bool"}, "types": {"lines": "List Str"},
                                        "graphs": ["graph"], "returns": "Str"},
    "molfile_writer._add_header": {"returns": None},
    "molfile_writer._add_v30_line": {},
    "molfile_writer._add_atom_block": {"graphs": ["graph"], "ifexp_toVal": True, "params": {"calc_coordinates": "Bool"},
                                       "predeclare": {"coords": "Dict Int (List Val)"}},
    "molfile_writer._add_bond_block": {"graphs": ["graph"]},
    "molfile_v3000_reader._concat_lines_with_dash": {"types": {"final_lines": "List Str"}},
    "molfile_v3000_reader._parse_atom_block": {"types": {"atom_attrs": "Dict Int Attrs", "star_atoms": "List Int"}},
    "molfile_v3000_reader._parse_bond_block": {"types": {"bonds": "Dict (Int × Int) Attrs"}, "dict_literal_type": "Dict (Int × Int) Attrs",
                                               "predeclare": {"bond_tuples": "List (Int × Int)"}},
    "molfile_v3000_reader._parse_atom_attributes": {"dict_literal_type": "Attrs", "types": {"optional_attrs": "Dict String (List Int)"}},
    "molfile_v2000_reader._parse_attribute_block": {"types": {"additional_attrs": "Dict Int Attrs"}},
    "molfile_v2000_reader._merge_tuples_into_additional_attributes": {"params": {"key": "String", "additional_attrs": "Dict Int Attrs"}, "attr_key_vars": ["key"]},
    "molfile_v2000_reader._clear_atom_attribute": {"params": {"key": "String"}},
    "molfile_v2000_reader._merge_atom_attributes_and_additional_attributes": {"params": {"additional_attrs": "Dict Int Attrs"}},
    "molfile_v2000_reader._to_float": {"returns": "Val"},
    "parser.TucanListenerImpl._validate_atom_index": {"params": {"index": "Int"}},
    "parser.TucanListenerImpl._add_atoms": {"params": {"element": "Str", "count": "Int"}},
    "parser.TucanListenerImpl._add_bond": {"params": {"index1": "Int", "index2": "Int"}},
    "parser.TucanListenerImpl._parse_sum_formula": {"params": {"formula_ctx": "PCtx"}},
    "parser.TucanListenerImpl.enterWith_carbon": {"params": {"ctx": "PCtx"}},
    "parser.TucanListenerImpl.enterWithout_carbon": {"params": {"ctx": "PCtx"}},
    "parser.TucanListenerImpl.enterTuple": {"params": {"ctx": "PCtx"}},
    "parser.TucanListenerImpl.enterNode_property": {"params": {"ctx": "PCtx"}},
    "parser.TucanListenerImpl.to_graph": {"types": {"atoms_dict": "Dict Int Attrs", "bonds_dict": "Dict (Int × Int) Attrs"},
                                          "dict_literal_type": "Attrs"},
    "parser.TucanListenerImpl._add_node_attribute": {"params": {"node_index": "Int", "key": "Str", "value": "Int"}, "dict_literal_type": "Attrs"},
    "parser._to_int": {"params": {"number": "Str"}},
    "molfile_reader.graph_from_molfile_text": {"types": {"atom_attrs": "Dict Int Attrs", "bond_attrs": "Dict (Int × Int) Attrs"}},
}
