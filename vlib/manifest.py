"""regenerate the per-check texts of MANIFEST.json from vlib/registry.py (levels, theorem lists, notes); everything else is kept"""
import json, os, sys
from . import registry

VERIF = os.path.dirname(os.path.dirname(os.path.abspath(__file__)))
TRUST = ("Trusted: Lean kernel + Mathlib, vlib/extract.py (Python->Lean translation, probed differentially against CPython on every run), lean/PyModel "
         "(models of builtins/networkx, same probe), lean/Tools (error-tolerant build driver and dependency-cone command: they decide which obligations are "
         "attributed to the property, the verdict itself is `#print axioms` of the property-level theorems). Assumed and explicit as hypotheses: bliss canonical "
         "form (V3), ANTLR recognition (V4), float format law (V5), random.shuffle (V6), set iteration order = some permutation.")
TECH = ("contract-based deductive verification: Python ast -> Lean 4 extraction on every run, sidecar contracts proved in Lean 4 + Mathlib, verdict = the "
        "property-level theorems exist with clean axioms (obligations = their dependency cone); bounded native search as refuter and stand-in for assumed links")


def main():
    path = os.path.join(VERIF, "MANIFEST.json")
    m = json.load(open(path))
    for c in m["checks"]:
        pid = c["property_id"]
        top = registry.TOP[pid]
        names = ", ".join(t.split(".", 1)[1] for t in top["theorems"])
        if top["level"] == "proof":
            text = (f"Property-level theorems ({names}) and every contract and lemma in their dependency cone are discharged by the Lean 4 kernel over code "
                    f"extracted mechanically from /repo on every run, with only the three standard axioms; the statements were audited against the property text "
                    f"(lean/AUDIT.md, lean/AUDIT2.md) and the main ones have machine-checked witnesses of all their hypotheses (listed per check in the evidence). Scope: {top['note']}. A bounded search on the real code runs "
                    f"alongside as refuter and model probe; it is reported separately and never counted as proved.")
        else:
            text = (f"Mixed, stated per run in the evidence: function contracts and partial property-level theorems ({names}) are discharged by the Lean 4 kernel over "
                    f"code extracted from /repo (counted as obligations/discharged); the remaining link is covered by a bounded stand-in on the real code, labelled "
                    f"bounded and never counted as proved. {top['note']}")
        c["level_claimed"] = {"category": top["level"], "text": text, "design_ref": "DESIGN.md §13.3, §13.4, §13.8, §13.9"}
        c["level_note"] = TRUST
        c["technique"] = TECH
    json.dump(m, open(path, "w"), indent=1)
    print("MANIFEST.json regenerated for", len(m["checks"]), "checks")


if __name__ == "__main__":
    sys.exit(main())
