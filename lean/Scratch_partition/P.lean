/-
Contracts.Partition — property C13: the partition class attached to each atom does not depend on
how the input was numbered or ordered; atoms in one class share the value of the partitioning
attribute and (after refinement) see the same multiset of classes among their neighbours; atoms
related by a symmetry are in the same class.

Contracts for `attribute_sequence`, `partition_molecule_by_attribute`, `get_number_of_partitions`,
`refine_partitions`.
-/
import Generated.Canonicalization
import Spec.GraphView
import Spec.Order
import Spec.PartitionLemmas
set_option autoImplicit false
set_option linter.unusedSimpArgs false
set_option linter.unusedSectionVars false
set_option linter.unusedVariables false
open Py


namespace Contracts.Partition

/-! ## Abstract description of the partitioning key -/

/-- value of attribute `k` at atom `a` (`None` if absent) -/
def attrV (g : Graph) (k : String) (a : Int) : Val := (g.attr a k).getD Val.none

/-- the key of atom `a`: its own value of `k`, then the values at the neighbours in descending order -/
def seq (g : Graph) (k : String) (a : Int) : List Val :=
  attrV g k a :: sortedRev ((g.nbrs a).map (attrV g k))

/-- the keys of all atoms, in node iteration order -/
def seqs (g : Graph) (k : String) : List (List Val) := g.nodeList.map (seq g k)

/-- every atom carries attribute `k` -/
def Carries (g : Graph) (k : String) : Prop := ∀ a ∈ g.nodeList, (g.attr a k).isSome

/-! ## 1. `attribute_sequence` -/

theorem filterMap_some {α β : Type} (f : α → β) (l : List α) :
    l.filterMap (fun n => some (f n)) = l.map f := by
  induction l <;> simp_all

theorem nodeAttrs_getItem (m : Graph) (n : Int) (k : String) (h : (m.attr n k).isSome) :
    ∃ a, Graph.nodeAttrs m n = .ok a ∧ (getItem a k : M Val) = .ok (attrV m k n) := by
  unfold attrV Graph.attr at *
  cases hn : m.node.get? n with
  | none => rw [hn] at h; simp at h
  | some a =>
    rw [hn] at h
    simp only [Option.bind_some] at h ⊢
    refine ⟨a, by simp [Graph.nodeAttrs, hn], ?_⟩
    obtain ⟨v, hv⟩ := Option.isSome_iff_exists.1 h
    simp only [getItem, GetItem.getItem, toKey, ToKey.toKey, id, hv]
    rfl

theorem neighbors_ok {m : Graph} (hw : m.WF) (a : Int) (ha : a ∈ m.nodeList) :
    Graph.neighbors m a = .ok (m.nbrs a) := by
  unfold Graph.neighbors Graph.nbrs
  obtain ⟨d, hd⟩ := Option.isSome_iff_exists.1 ((Graph.adj_get?_isSome hw a).2 ha)
  rw [hd]; rfl

theorem attribute_sequence_ok (env : DepEnv) {m : Graph} (hw : m.WF) (a : Int) (k : String)
    (ha : a ∈ m.nodeList) (hk : (m.attr a k).isSome) (hn : ∀ n ∈ m.nbrs a, (m.attr n k).isSome) :
    Tucan.graph_utils.attribute_sequence env m a k = .ok (seq m k a) := by
  obtain ⟨d, hd1, hd2⟩ := nodeAttrs_getItem m a k hk
  have hl : listComp (m.nbrs a) (fun n => do return some (← getItem (← Graph.nodeAttrs m n) k)) =
      .ok ((m.nbrs a).filterMap (fun n => some (attrV m k n))) := by
    apply listComp_ok
    intro n hn'
    obtain ⟨e, he1, he2⟩ := nodeAttrs_getItem m n k (hn n hn')
    simp only [he1, he2, Py.ok_bind, Py.pure_eq_ok]
  simp only [Py.pure_eq_ok] at hl
  simp only [Tucan.graph_utils.attribute_sequence, hd1, hd2, neighbors_ok hw a ha, Py.ok_bind,
    pyIter_list, hl, pyAdd_list, Py.pure_eq_ok]
  rw [filterMap_some]
  rfl

/-- the key depends only on the abstract graph around `a`: the value at `a` and the multiset of
values at the neighbours -/
theorem seq_congr {g h : Graph} {k : String} {a b : Int} (h1 : attrV h k b = attrV g k a)
    (h2 : ((h.nbrs b).map (attrV h k)).Perm ((g.nbrs a).map (attrV g k))) : seq h k b = seq g k a := by
  unfold seq; rw [h1, sortedRev_perm h2]

theorem attribute_sequence_perm (env : DepEnv) {g h : Graph} (hg : g.WF) (hh : h.WF) (a : Int) (k : String)
    (hag : a ∈ g.nodeList) (hah : a ∈ h.nodeList)
    (hk : (g.attr a k).isSome) (hn : ∀ n ∈ g.nbrs a, (g.attr n k).isSome)
    (hattr : h.attr a k = g.attr a k) (hnb : (h.nbrs a).Perm (g.nbrs a))
    (hnattr : ∀ n ∈ g.nbrs a, h.attr n k = g.attr n k) :
    Tucan.graph_utils.attribute_sequence env h a k = Tucan.graph_utils.attribute_sequence env g a k := by
  rw [attribute_sequence_ok env hg a k hag hk hn,
    attribute_sequence_ok env hh a k hah (by rw [hattr]; exact hk)
      (fun n hn' => by rw [hnattr n (hnb.mem_iff.1 hn')]; exact hn n (hnb.mem_iff.1 hn'))]
  congr 1
  apply seq_congr
  · unfold attrV; rw [hattr]
  · refine (hnb.map _).trans ?_
    rw [List.map_congr_left]
    intro n hn'
    unfold attrV; rw [hnattr n hn']

/-! ## 2. `partition_molecule_by_attribute` -/

/-- the class of atom `a`: rank of its key among the distinct keys -/
def cls (g : Graph) (k : String) (a : Int) : Nat := rankIn (seqs g k) (seq g k a)

/-- the graph returned by `partition_molecule_by_attribute` -/
def partGraph (g : Graph) (k : String) : Graph :=
  Graph.setNodeAttrNamed (Graph.copy g) ⟨g.nodeList.map (fun a => (a, Val.int (cls g k a)))⟩ "partition"

theorem zip_map_self {α β : Type} (l : List α) (f : α → β) : List.zip l (l.map f) = l.map (fun x => (x, f x)) := by
  induction l <;> simp_all

theorem dict_eq_of_items {κ ν : Type} (d : Dict κ ν) (l : List (κ × ν)) (h : d.items = l) : d = ⟨l⟩ := by
  cases d; simp_all

theorem partition_eq (env : DepEnv) (hs : env.SetLawful) {m : Graph} (hw : m.WF) (k : String)
    (hc : Carries m k) :
    Tucan.canonicalization.partition_molecule_by_attribute env m k = .ok (partGraph m k) := by
  have h1 : listComp m.nodeList (fun atom => do
      return some (← Tucan.graph_utils.attribute_sequence env m atom k)) = .ok (seqs m k) := by
    rw [listComp_ok _ _ (fun a => some (seq m k a)), filterMap_some]; rfl
    intro a ha
    rw [attribute_sequence_ok env hw a k ha (hc a ha) (fun n hn => hc n (hw.nbr_mem a n hn))]
    rfl
  have hperm : (env.setOrder (PSet.elems (mkSet (seqs m k)))).Perm (seqs m k).dedup := hs _
  have h2 : listComp (seqs m k) (fun attr_seq => do
      return some (← getItem (Dict.ofPairs (zip (sorted (env.setOrder (PSet.elems (mkSet (seqs m k)))))
        (range (pyLen (sorted (env.setOrder (PSet.elems (mkSet (seqs m k))))))))) attr_seq)) =
      .ok ((seqs m k).map (fun s => Int.ofNat (rankIn (seqs m k) s))) := by
    rw [listComp_ok _ _ (fun s => some (Int.ofNat (rankIn (seqs m k) s))), filterMap_some]
    intro s hs'
    have := rank_dict_lookup (seqs m k) _ hperm s hs'
    simp only [getItem, GetItem.getItem, toKey, ToKey.toKey, id, this]
    rfl
  simp only [Py.pure_eq_ok] at h1 h2
  simp only [Tucan.canonicalization.partition_molecule_by_attribute, pyIter_graph, pyIter_list, h1, h2,
    Py.ok_bind, Py.pure_eq_ok]
  congr 1
  unfold partGraph
  congr 1
  rw [Graph.copy_nodeList hw]
  apply dict_eq_of_items
  have e : List.map (fun p : Int × Int => (p.1, toVal p.2))
      (zip m.nodeList (List.map (fun s => Int.ofNat (rankIn (seqs m k) s)) (seqs m k))) =
      m.nodeList.map (fun a => (a, Val.int (cls m k a))) := by
    unfold seqs zip
    rw [List.map_map, zip_map_self, List.map_map]
    rfl
  rw [e]
  apply Dict.ofPairs_items
  rw [List.map_map]
  have : (Prod.fst ∘ fun a : Int => (a, Val.int (cls m k a))) = id := rfl
  rw [this, List.map_id]
  exact hw.node_wf

/-- what the caller may rely on about the partitioned graph `r` made from `m` with key attribute `k` -/
structure PartSpec (m : Graph) (k : String) (r : Graph) : Prop where
  wf : r.WF
  nodes : r.nodeList = m.nodeList
  cls : ∀ a ∈ m.nodeList, r.attr a "partition" = some (Val.int (rankIn (seqs m k) (seq m k a)))
  frame : ∀ a k', k' ≠ "partition" → r.attr a k' = m.attr a k'
  nbrs : ∀ a, (r.nbrs a).Perm (m.nbrs a)

theorem partGraph_spec {m : Graph} (hw : m.WF) (k : String) : PartSpec m k (partGraph m k) := by
  obtain ⟨h1, h2, h3, h4⟩ := Graph.setNodeAttrNamed_map_spec (Graph.copy_wf hw) m.nodeList
    (fun a => Val.int (cls m k a)) "partition"
  refine ⟨h1, h3.trans (Graph.copy_nodeList hw), ?_, ?_, ?_⟩
  · intro a ha
    have := h4 a "partition"
    rw [Graph.copy_nodeList hw] at this
    simp only [ha, and_self, if_true] at this
    exact this
  · intro a k' hk'
    have := h4 a k'
    simp only [hk', false_and, if_false] at this
    rw [Graph.copy_attr hw] at this
    exact this
  · intro a
    have : (partGraph m k).nbrs a = (Graph.copy m).nbrs a := by
      unfold Graph.nbrs partGraph; rw [h2]
    rw [this]
    exact Graph.copy_nbrs_perm hw a

/-- Contract of `partition_molecule_by_attribute` (total correctness). The argument `m` is not a
mutated parameter of the extracted function, so there is no frame condition on `m` itself. -/
theorem partition_ok (env : DepEnv) (hs : env.SetLawful) {m : Graph} (hw : m.WF) (k : String)
    (hc : Carries m k) :
    ∃ r, Tucan.canonicalization.partition_molecule_by_attribute env m k = .ok r ∧ PartSpec m k r :=
  ⟨partGraph m k, partition_eq env hs hw k hc, partGraph_spec hw k⟩

/-! ## 3. label independence -/

section iso
variable {g h : Graph} {k : String} {π : Int → Int}

theorem iso_attrV (hiso : Graph.IsIsoOn k π g h) {n : Int} (hn : n ∈ g.nodeList) :
    attrV h k (π n) = attrV g k n := by
  unfold attrV; rw [hiso.attr n hn]

theorem iso_seq (hg : g.WF) (hiso : Graph.IsIsoOn k π g h) {a : Int} (ha : a ∈ g.nodeList) :
    seq h k (π a) = seq g k a := by
  apply seq_congr (iso_attrV hiso ha)
  refine ((hiso.nbrs a ha).map _).trans ?_
  rw [List.map_map, List.map_congr_left]
  intro n hn
  exact iso_attrV hiso (hg.nbr_mem a n hn)

theorem iso_mem_nodeList (hiso : Graph.IsIsoOn k π g h) (b : Int) :
    b ∈ h.nodeList ↔ ∃ a ∈ g.nodeList, π a = b := by
  rw [hiso.nodes.mem_iff, List.mem_map]

theorem iso_seqs_mem (hg : g.WF) (hiso : Graph.IsIsoOn k π g h) (x : List Val) :
    x ∈ seqs h k ↔ x ∈ seqs g k := by
  unfold seqs
  simp only [List.mem_map, iso_mem_nodeList hiso]
  constructor
  · rintro ⟨b, ⟨a, ha, rfl⟩, rfl⟩
    exact ⟨a, ha, (iso_seq hg hiso ha).symm⟩
  · rintro ⟨a, ha, rfl⟩
    exact ⟨π a, ⟨a, ha, rfl⟩, iso_seq hg hiso ha⟩

/-- the class of an atom is the same in every relabelled / reordered presentation of the molecule -/
theorem iso_cls (hg : g.WF) (hiso : Graph.IsIsoOn k π g h) {a : Int} (ha : a ∈ g.nodeList) :
    cls h k (π a) = cls g k a := by
  unfold cls
  rw [iso_seq hg hiso ha]
  exact rankIn_congr _ _ (iso_seqs_mem hg hiso) _

/-- label independence at the level of the contract `PartSpec`: whatever graphs satisfy the
contract for two presentations `g`, `h` of the same molecule, the classes correspond -/
theorem partSpec_label_independent (hg : g.WF) (hiso : Graph.IsIsoOn k π g h) {rg rh : Graph}
    (sg : PartSpec g k rg) (sh : PartSpec h k rh) {a : Int} (ha : a ∈ g.nodeList) :
    rh.attr (π a) "partition" = rg.attr a "partition" := by
  have hb : π a ∈ h.nodeList := (iso_mem_nodeList hiso _).2 ⟨a, ha, rfl⟩
  rw [sg.cls a ha, sh.cls _ hb]
  have := iso_cls hg hiso ha
  unfold cls at this
  rw [this]

/-- the partitioned graphs are again isomorphic, now also respecting the new classes -/
theorem partSpec_iso (hg : g.WF) (hiso : Graph.IsIsoOn k π g h) {rg rh : Graph}
    (sg : PartSpec g k rg) (sh : PartSpec h k rh) : Graph.IsIsoOn "partition" π rg rh := by
  refine ⟨?_, ?_, ?_, ?_⟩
  · rw [sg.nodes]; exact hiso.inj
  · rw [sg.nodes, sh.nodes]; exact hiso.nodes
  · intro n hn; rw [sg.nodes] at hn; exact partSpec_label_independent hg hiso sg sh hn
  · intro n hn; rw [sg.nodes] at hn
    exact ((sh.nbrs _).trans (hiso.nbrs n hn)).trans ((sg.nbrs n).map π).symm

end iso

/-- C13, heart: if `h` is `g` renumbered by `π` and/or with different node, adjacency or attribute
iteration orders (`IsIsoOn k π g h`), then atom `π a` of `h` receives the same class as atom `a` of `g`. -/
theorem partition_label_independent (env₁ env₂ : DepEnv) (hs₁ : env₁.SetLawful) (hs₂ : env₂.SetLawful)
    {g h : Graph} {k : String} {π : Int → Int} (hg : g.WF) (hh : h.WF) (cg : Carries g k) (ch : Carries h k)
    (hiso : Graph.IsIsoOn k π g h) :
    ∃ rg rh, Tucan.canonicalization.partition_molecule_by_attribute env₁ g k = .ok rg ∧
      Tucan.canonicalization.partition_molecule_by_attribute env₂ h k = .ok rh ∧
      (∀ a ∈ g.nodeList, rh.attr (π a) "partition" = rg.attr a "partition") ∧
      Graph.IsIsoOn "partition" π rg rh := by
  obtain ⟨rg, e1, sg⟩ := partition_ok env₁ hs₁ hg k cg
  obtain ⟨rh, e2, sh⟩ := partition_ok env₂ hs₂ hh k ch
  exact ⟨rg, rh, e1, e2, fun a ha => partSpec_label_independent hg hiso sg sh ha, partSpec_iso hg hiso sg sh⟩

/-- C13: two atoms that are mapped onto each other by a symmetry `π` of the molecule (an automorphism
respecting attribute `k`) are in the same class. -/
theorem partition_automorphism (env : DepEnv) (hs : env.SetLawful) {g : Graph} {k : String} {π : Int → Int}
    (hg : g.WF) (cg : Carries g k) (hauto : Graph.IsIsoOn k π g g) :
    ∃ r, Tucan.canonicalization.partition_molecule_by_attribute env g k = .ok r ∧
      ∀ a ∈ g.nodeList, r.attr (π a) "partition" = r.attr a "partition" := by
  obtain ⟨r, e, s⟩ := partition_ok env hs hg k cg
  exact ⟨r, e, fun a ha => partSpec_label_independent hg hauto s s ha⟩

/-! ## 4. classes refine the key attribute -/

theorem mem_seqs {g : Graph} {k : String} {a : Int} (ha : a ∈ g.nodeList) : seq g k a ∈ seqs g k :=
  List.mem_map_of_mem ha

/-- two atoms are in the same class exactly if their keys agree -/
theorem partSpec_cls_eq_iff {m r : Graph} {k : String} (s : PartSpec m k r) {a b : Int}
    (ha : a ∈ m.nodeList) (hb : b ∈ m.nodeList) :
    r.attr a "partition" = r.attr b "partition" ↔ seq m k a = seq m k b := by
  rw [s.cls a ha, s.cls b hb]
  constructor
  · intro h
    have h' : (rankIn (seqs m k) (seq m k a) : Int) = rankIn (seqs m k) (seq m k b) := by
      simpa using h
    exact rankIn_inj _ _ _ (mem_seqs ha) (mem_seqs hb) (by exact_mod_cast h')
  · intro h; rw [h]

/-- equal class ⇒ equal own value of `k` and equal sorted neighbour values -/
theorem partSpec_refines {m r : Graph} {k : String} (s : PartSpec m k r) (hc : Carries m k) {a b : Int}
    (ha : a ∈ m.nodeList) (hb : b ∈ m.nodeList) (h : r.attr a "partition" = r.attr b "partition") :
    m.attr a k = m.attr b k ∧
      sortedRev ((m.nbrs a).map (attrV m k)) = sortedRev ((m.nbrs b).map (attrV m k)) := by
  have hseq := (partSpec_cls_eq_iff s ha hb).1 h
  unfold seq at hseq
  obtain ⟨h1, h2⟩ := List.cons.inj hseq
  refine ⟨?_, h2⟩
  unfold attrV at h1
  obtain ⟨va, hva⟩ := Option.isSome_iff_exists.1 (hc a ha)
  obtain ⟨vb, hvb⟩ := Option.isSome_iff_exists.1 (hc b hb)
  rw [hva, hvb] at h1 ⊢
  simpa using h1

/-- C13: atoms in one class share the value of the partitioning attribute (for
`k = "invariant_code"`: element, isotope mass, radical state; for `k = "partition"`: the previous
class) and see the same multiset of `k`-values among their neighbours. -/
theorem partition_refines (env : DepEnv) (hs : env.SetLawful) {m : Graph} (hw : m.WF) (k : String)
    (hc : Carries m k) :
    ∃ r, Tucan.canonicalization.partition_molecule_by_attribute env m k = .ok r ∧
      ∀ a ∈ m.nodeList, ∀ b ∈ m.nodeList, r.attr a "partition" = r.attr b "partition" →
        m.attr a k = m.attr b k ∧
        sortedRev ((m.nbrs a).map (attrV m k)) = sortedRev ((m.nbrs b).map (attrV m k)) := by
  obtain ⟨r, e, s⟩ := partition_ok env hs hw k hc
  exact ⟨r, e, fun a ha b hb h => partSpec_refines s hc ha hb h⟩

/-! ## 6. `get_number_of_partitions` -/

theorem foldl_max_spec {α : Type} [POrd α] [LawfulPOrd α] (xs : List α) (x : α) :
    let r := xs.foldl (fun m y => if POrd.lt m y then y else m) x
    r ∈ x :: xs ∧ ∀ y ∈ x :: xs, POrd.lt r y = false := by
  induction xs generalizing x with
  | nil => simp [LawfulPOrd.irrefl]
  | cons z zs ih =>
    simp only [List.foldl_cons]
    by_cases hlt : POrd.lt x z = true
    · rw [if_pos hlt]
      obtain ⟨h1, h2⟩ := ih z
      refine ⟨List.mem_cons_of_mem _ h1, ?_⟩
      intro y hy
      rcases List.mem_cons.1 hy with rfl | hy
      · cases hr : POrd.lt (zs.foldl (fun m y => if POrd.lt m y then y else m) z) y with
        | false => rfl
        | true =>
          have := LawfulPOrd.trans _ _ _ hr hlt
          rw [h2 z (by simp)] at this; cases this
      · exact h2 y hy
    · rw [if_neg hlt]
      obtain ⟨h1, h2⟩ := ih x
      refine ⟨?_, ?_⟩
      · rcases List.mem_cons.1 h1 with h | h
        · rw [h]; simp
        · exact List.mem_cons_of_mem _ (List.mem_cons_of_mem _ h)
      · intro y hy
        rcases List.mem_cons.1 hy with rfl | hy
        · exact h2 y (by simp)
        · rcases List.mem_cons.1 hy with rfl | hy
          · cases hr : POrd.lt (zs.foldl (fun m y => if POrd.lt m y then y else m) x) y with
            | false => rfl
            | true =>
              exfalso
              rcases List.mem_cons.1 h1 with h | h
              · rw [h] at hr; exact hlt hr
              · have hxr := h2 x (by simp)
                by_cases hxe : zs.foldl (fun m y => if POrd.lt m y then y else m) x = x
                · rw [hxe] at hr; exact hlt hr
                · rcases LawfulPOrd.total _ _ hxe with h' | h'
                  · exact hlt (LawfulPOrd.trans _ _ _ (by
                      rcases LawfulPOrd.total _ _ hxe with h'' | h''
                      · rw [hxr] at h''; cases h''
                      · exact h'') hr)
                  · exact hlt (LawfulPOrd.trans _ _ _ h' hr)
          · exact h2 y (List.mem_cons_of_mem _ hy)

/-- `max(l)`: an element of `l` that no element exceeds; `ValueError` on the empty list -/
theorem maxOf_ok {α : Type} [POrd α] [LawfulPOrd α] (l : List α) (hl : l ≠ []) :
    ∃ x, maxOf l = .ok x ∧ x ∈ l ∧ ∀ y ∈ l, POrd.lt x y = false := by
  cases l with
  | nil => exact absurd rfl hl
  | cons x xs => exact ⟨_, rfl, foldl_max_spec xs x⟩

/-- the values of attribute "partition" in node order (atoms without it are skipped) -/
def partValues (m : Graph) : List Val := m.node.items.filterMap (fun p => p.2.get? "partition")

theorem values_getNodeAttributes (m : Graph) (name : String) :
    Dict.values (Graph.getNodeAttributes m name) = m.node.items.filterMap (fun p => p.2.get? name) := by
  unfold Dict.values Graph.getNodeAttributes
  simp only [List.map_filterMap]
  congr 1
  funext p
  cases p.2.get? name <;> rfl

theorem partValues_eq {m : Graph} (hw : m.WF) (hc : Carries m "partition") :
    partValues m = m.nodeList.map (attrV m "partition") := by
  unfold partValues Graph.nodeList Dict.keys
  rw [List.map_map, ← filterMap_some]
  apply List.filterMap_congr
  intro p hp
  have h1 : m.node.get? p.1 = some p.2 := Dict.get?_of_mem _ hw.node_wf _ _ hp
  have h2 : m.attr p.1 "partition" = p.2.get? "partition" := by unfold Graph.attr; rw [h1]; rfl
  have h3 := hc p.1 (List.mem_map_of_mem hp)
  simp only [Function.comp, attrV, h2] at h3 ⊢
  obtain ⟨v, hv⟩ := Option.isSome_iff_exists.1 h3
  rw [hv]; rfl

/-- `get_number_of_partitions` is the maximum of the "partition" values; it rejects a graph without
any such value (in particular the empty graph) with `ValueError`. -/
theorem get_number_of_partitions_ok (env : DepEnv) (m : Graph) (h : partValues m ≠ []) :
    ∃ v, Tucan.canonicalization.get_number_of_partitions env m = .ok v ∧ v ∈ partValues m ∧
      ∀ y ∈ partValues m, POrd.lt v y = false := by
  obtain ⟨x, h1, h2, h3⟩ := maxOf_ok (partValues m) h
  refine ⟨x, ?_, h2, h3⟩
  simp only [Tucan.canonicalization.get_number_of_partitions, values_getNodeAttributes]
  unfold partValues at h1
  rw [h1]; rfl

theorem get_number_of_partitions_empty (env : DepEnv) (m : Graph) (h : partValues m = []) :
    Tucan.canonicalization.get_number_of_partitions env m = .error Err.value := by
  simp only [Tucan.canonicalization.get_number_of_partitions, values_getNodeAttributes]
  unfold partValues at h
  rw [h]; rfl

/-! ## 5. `refine_partitions` -/

section listlemmas
variable {α β : Type} [DecidableEq α] [DecidableEq β]

theorem dedup_map_length_le (f : α → β) (l : List α) : ((l.map f).dedup).length ≤ l.dedup.length := by
  have h : (l.map f).dedup ⊆ l.dedup.map f := by
    intro y hy
    rw [List.mem_dedup, List.mem_map] at hy
    obtain ⟨x, hx, rfl⟩ := hy
    exact List.mem_map_of_mem (List.mem_dedup.2 hx)
  have := List.Nodup.length_le_of_subset (List.nodup_dedup _) h
  simpa using this

theorem inj_of_dedup_map_length_eq (f : α → β) (l : List α)
    (h : ((l.map f).dedup).length = l.dedup.length) :
    ∀ x ∈ l, ∀ y ∈ l, f x = f y → x = y := by
  have hp : ((l.dedup.map f).dedup).Perm ((l.map f).dedup) := by
    rw [List.perm_ext_iff_of_nodup (List.nodup_dedup _) (List.nodup_dedup _)]
    intro y; simp
  have hlen : ((l.dedup.map f).dedup).length = (l.dedup.map f).length := by
    rw [hp.length_eq, h, List.length_map]
  have heq := (List.dedup_sublist (l.dedup.map f)).eq_of_length hlen
  have hnd : (l.dedup.map f).Nodup := by rw [← heq]; exact List.nodup_dedup _
  intro x hx y hy hxy
  exact List.inj_on_of_nodup_map hnd (List.mem_dedup.2 hx) (List.mem_dedup.2 hy) hxy

end listlemmas

theorem lt_int_int (a b : Int) : POrd.lt (Val.int a) (Val.int b) = decide (a < b) := rfl

theorem seq_lt_of_head_lt {g : Graph} {k : String} {a b : Int}
    (h : POrd.lt (attrV g k a) (attrV g k b) = true) : POrd.lt (seq g k a) (seq g k b) = true := by
  show lexLt POrd.lt (seq g k a) (seq g k b) = true
  unfold seq
  simp [lexLt, h]

/-- the partition values are exactly `0, …, c-1` -/
structure Dense (m : Graph) (c : Nat) : Prop where
  lt : ∀ a ∈ m.nodeList, ∃ i : Nat, i < c ∧ m.attr a "partition" = some (Val.int i)
  surj : ∀ i : Nat, i < c → ∃ a ∈ m.nodeList, m.attr a "partition" = some (Val.int i)

/-- number of distinct classes -/
def numClasses (m : Graph) : Nat := ((m.nodeList.map (attrV m "partition")).dedup).length

theorem Dense.carries {m : Graph} {c : Nat} (hd : Dense m c) : Carries m "partition" := by
  intro a ha
  obtain ⟨i, _, hi⟩ := hd.lt a ha
  rw [hi]; rfl

theorem Dense.numClasses {m : Graph} {c : Nat} (hd : Dense m c) : numClasses m = c := by
  unfold Contracts.Partition.numClasses
  have hp : ((m.nodeList.map (attrV m "partition")).dedup).Perm ((List.range c).map (fun i : Nat => Val.int i)) := by
    rw [List.perm_ext_iff_of_nodup (List.nodup_dedup _)]
    · intro v
      simp only [List.mem_dedup, List.mem_map, List.mem_range]
      constructor
      · rintro ⟨a, ha, rfl⟩
        obtain ⟨i, hi, hv⟩ := hd.lt a ha
        exact ⟨i, hi, by unfold attrV; rw [hv]; rfl⟩
      · rintro ⟨i, hi, rfl⟩
        obtain ⟨a, ha, hv⟩ := hd.surj i hi
        exact ⟨a, ha, by unfold attrV; rw [hv]; rfl⟩
    · apply List.Nodup.map _ List.nodup_range
      intro i j hij
      simpa using hij
  rw [hp.length_eq]; simp

/-- the result of a partitioning round is dense -/
theorem PartSpec.dense {m r : Graph} {k : String} (s : PartSpec m k r) : Dense r (seqs m k).dedup.length := by
  constructor
  · intro a ha
    rw [s.nodes] at ha
    exact ⟨_, rankIn_lt_length _ _ (mem_seqs ha), s.cls a ha⟩
  · intro i hi
    obtain ⟨x, hx, hr⟩ := rankIn_surj (seqs m k) i hi
    unfold seqs at hx
    obtain ⟨a, ha, rfl⟩ := List.mem_map.1 hx
    exact ⟨a, by rw [s.nodes]; exact ha, by rw [s.cls a ha, hr]⟩
#print axioms Contracts.Partition.PartSpec.dense
#print axioms Contracts.Partition.partition_eq
#print axioms Contracts.Partition.maxOf_ok
