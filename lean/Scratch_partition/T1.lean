import Generated.Canonicalization
import Spec.GraphView
import Spec.Order
open Py
#check @List.lookup_cons
#check @List.lookup_eq_none_iff
#check @List.lookup_append
#check @List.foldl_flatMap
#check @List.zip_map_right
#check @List.perm_ext_iff_of_nodup
#check @List.Nodup.length_le_of_subset
#check @List.inj_on_of_nodup_map
#check @List.dedup_sublist
#check @List.Sublist.eq_of_length
#check @List.mem_of_lookup_eq_some
#check @List.lookup_eq_some_iff
#print axioms Py.rank_dict_lookup
