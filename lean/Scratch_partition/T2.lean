import Generated.Canonicalization
import Spec.GraphView
open Py
example (a : Attrs) (k : String) (v : Val) (hv : a.get? k = some v) : (getItem a k : M Val) = .ok v := by
  simp only [getItem, GetItem.getItem]
  trace_state
  simp only [toKey, ToKey.toKey, id, hv]
  trace_state
  rfl
