import Generated.Canonicalization
import Spec.GraphView
open Py
example (env : DepEnv) (fuel : Nat) (m : Graph) : Tucan.canonicalization.refine_partitions env fuel m = .ok [] := by
  simp only [Tucan.canonicalization.refine_partitions]
  trace_state
  sorry
