/-
Contracts.Canonicalize — contracts of `assign_canonical_labels` and `canonicalize_molecule`
(tucan/canonicalization.py) under the assumed bliss contract `BlissLawful` (Spec/Bliss.lean; shown
satisfiable in Spec/BlissModel.lean):

* `assign_canonical_labels_ok`  — the returned dict is `{label: canonical position}`, a bijection nodes → `0 … n-1`
* `canonicalize_molecule_ok` / `canonicalize_molecule_total` — total correctness (canonicalization part of C15)
* `C04_main`  — two descriptions of one molecule give the same canonical labelled graph
* `C12_main` (total) and `canonicalize_molecule_spec'` (partial, any well-formed argument) — only a renaming
* `C13_main`, `C13_classes`, `C13_automorphism` — C13 for the result of `canonicalize_molecule`

Correction w.r.t. the informal statement of C04: "π carries the identity attributes" is not enough. Bliss only
sees the partition classes, which are computed from `invariant_code`; two atoms with the same code but, say,
different `element_symbol` are interchangeable for it. Counterexample: `g` = two isolated atoms `0 ↦ C`, `1 ↦ N`,
both with `invariant_code = (1,)`; `h` = the same graph with the nodes listed in the order `1, 0`; `π = id`. A lawful
bliss (which must not look at vertex names) returns the same permutation for both, so label `0` is the C atom
in one result and the N atom in the other. `C04_main` therefore also assumes `CodeDetermines g key` for the
identity attributes (atoms with equal invariant code have equal `key`) — which `graph_from_molecule` provides,
since the code is the tuple of these attributes.
-/
import Spec.Bliss
import Spec.BlissModel
import Contracts.Partition
import Contracts.Relabel
set_option autoImplicit false

open Py Py.Graph Contracts

namespace Contracts.Canonicalize

/-! ## the canonical-position map -/

/-- the colour vector handed to bliss: the `partition` value of every node, in node order -/
def blissColours (m : Graph) : List Val := (IGraph.fromNetworkx m).vsAttr "partition"

/-- `old_labels_in_canonical_order`: the node labels of `m` in the vertex order of the permuted igraph -/
def canonNames (env : DepEnv) (m : Graph) : List Int :=
  (env.canonForm (IGraph.fromNetworkx m) (blissColours m)).names

/-- canonical position of node `a` of `m` -/
def canonMap (env : DepEnv) (m : Graph) (a : Int) : Int := (((canonNames env m).idxOf a : Nat) : Int)

/-- the dict returned by `assign_canonical_labels` -/
def canonDict (env : DepEnv) (m : Graph) : Dict Int Int :=
  Dict.ofPairs (zip (canonNames env m) (range ((canonNames env m).length : Int)))

theorem assign_canonical_labels_eq (env : DepEnv) (m : Graph) :
    Tucan.canonicalization.assign_canonical_labels env m = .ok (canonDict env m) := rfl

theorem mem_range_iff (n : Int) (k : Int) : k ∈ range n ↔ ∃ p : Nat, p < n.toNat ∧ k = (p : Int) := by
  simp only [range, List.mem_map, List.mem_range, Int.ofNat_eq_natCast]
  constructor
  · rintro ⟨p, hp, rfl⟩; exact ⟨p, hp, rfl⟩
  · rintro ⟨p, hp, rfl⟩; exact ⟨p, hp, rfl⟩

theorem getElem_range' (n : Int) (i : Nat) (h : i < (range n).length) : (range n)[i] = (i : Int) := by
  simp [range]

section canon
variable {env : DepEnv} {m : Graph}

theorem valid_bliss (hm : m.WF) : (IGraph.fromNetworkx m).Valid (blissColours m) :=
  IGraph.valid_fromNetworkx hm "partition"

/-- L1 for the graph at hand: the labels in canonical order are a rearrangement of the nodes -/
theorem canonNames_perm (hb : BlissLawful env) (hm : m.WF) : (canonNames env m).Perm m.nodeList :=
  hb.names_perm _ _ (valid_bliss hm)

theorem canonNames_nodup (hb : BlissLawful env) (hm : m.WF) : (canonNames env m).Nodup :=
  (canonNames_perm hb hm).nodup_iff.2 hm.nodup_nodeList

theorem canonNames_length (hb : BlissLawful env) (hm : m.WF) : (canonNames env m).length = m.nodeList.length :=
  (canonNames_perm hb hm).length_eq

theorem canonDict_len (env : DepEnv) (m : Graph) :
    (canonNames env m).length = (range ((canonNames env m).length : Int)).length := by
  rw [length_range]; simp

/-- the dict maps every node to its canonical position -/
theorem relabelFun_canonDict (hb : BlissLawful env) (hm : m.WF) {a : Int} (ha : a ∈ m.nodeList) :
    relabelFun (canonDict env m) a = canonMap env m a := by
  have ha' : a ∈ canonNames env m := (canonNames_perm hb hm).mem_iff.2 ha
  unfold canonDict
  rw [relabelFun_zip (canonNames_nodup hb hm) (canonDict_len env m) ha', getElem_range']
  rfl

theorem canonDict_get? (hb : BlissLawful env) (hm : m.WF) {a : Int} (ha : a ∈ m.nodeList) :
    (canonDict env m).get? a = some (canonMap env m a) := by
  have ha' : a ∈ canonNames env m := (canonNames_perm hb hm).mem_iff.2 ha
  unfold canonDict
  rw [Dict.get?_ofPairs_zip_of_mem (canonNames_nodup hb hm) (canonDict_len env m) ha', getElem_range']
  rfl

theorem canonDict_keys (hb : BlissLawful env) (hm : m.WF) : (canonDict env m).keys = canonNames env m :=
  Dict.keys_ofPairs_zip (canonNames_nodup hb hm) (canonDict_len env m)

theorem canonMap_injOn (hb : BlissLawful env) (hm : m.WF) :
    ∀ a ∈ m.nodeList, ∀ b ∈ m.nodeList, canonMap env m a = canonMap env m b → a = b := by
  intro a ha b hb' e
  have ha' : a ∈ canonNames env m := (canonNames_perm hb hm).mem_iff.2 ha
  unfold canonMap at e
  exact (List.idxOf_inj ha').1 (by exact_mod_cast e)

theorem map_canonMap_perm (hb : BlissLawful env) (hm : m.WF) :
    (m.nodeList.map (canonMap env m)).Perm (range m.numberOfNodes) := by
  have h1 : (canonNames env m).map (relabelFun (canonDict env m)) = range ((canonNames env m).length : Int) :=
    map_relabelFun_zip (canonNames_nodup hb hm) (canonDict_len env m)
  have h2 : (canonNames env m).map (relabelFun (canonDict env m)) = (canonNames env m).map (canonMap env m) :=
    List.map_congr_left (fun a ha => relabelFun_canonDict hb hm ((canonNames_perm hb hm).mem_iff.1 ha))
  rw [numberOfNodes_eq, ← canonNames_length hb hm, ← h1, h2]
  exact ((canonNames_perm hb hm).map _).symm

/-- the node found at canonical position `p` -/
theorem canonMap_of_getElem? (hb : BlissLawful env) (hm : m.WF) {p : Nat} {a : Int}
    (h : (canonNames env m)[p]? = some a) : a ∈ m.nodeList ∧ canonMap env m a = (p : Int) := by
  refine ⟨(canonNames_perm hb hm).mem_iff.1 (List.mem_of_getElem? h), ?_⟩
  unfold canonMap
  rw [idxOf_of_getElem? (canonNames_nodup hb hm) h]

theorem exists_canonNames_getElem? (hb : BlissLawful env) (hm : m.WF) {p : Nat} (hp : p < m.nodeList.length) :
    ∃ a, (canonNames env m)[p]? = some a :=
  ⟨_, List.getElem?_eq_getElem (by rw [canonNames_length hb hm]; exact hp)⟩

/-- **Contract of `assign_canonical_labels`** (total correctness): no error; the returned dict is
`{label: canonical position}`; its keys are the nodes of `m`; it is one-to-one on the nodes and maps
them onto `0 … n-1`. -/
theorem assign_canonical_labels_ok (hb : BlissLawful env) (hm : m.WF) :
    Tucan.canonicalization.assign_canonical_labels env m = .ok (canonDict env m) ∧
    (canonDict env m).keys.Perm m.nodeList ∧
    (∀ a ∈ m.nodeList, (canonDict env m).get? a = some (canonMap env m a)) ∧
    (∀ a ∈ m.nodeList, ∀ b ∈ m.nodeList, canonMap env m a = canonMap env m b → a = b) ∧
    (m.nodeList.map (canonMap env m)).Perm (range m.numberOfNodes) :=
  ⟨rfl, by rw [canonDict_keys hb hm]; exact canonNames_perm hb hm, fun _ ha => canonDict_get? hb hm ha,
    canonMap_injOn hb hm, map_canonMap_perm hb hm⟩

/-- relabelling by the returned dict = relabelling by canonical position -/
theorem relabelCopy_canonDict_spec (hb : BlissLawful env) (hm : m.WF) :
    (m.relabelCopy (canonDict env m)).WF ∧
    (m.relabelCopy (canonDict env m)).nodeList.Perm (range m.numberOfNodes) ∧
    IsRelabel (canonMap env m) m (m.relabelCopy (canonDict env m)) := by
  obtain ⟨w, -, p, rel⟩ := relabelCopy_zip_spec hm (canonNames_perm hb hm)
    (nodup_range ((canonNames env m).length : Int)) (canonDict_len env m)
  refine ⟨w, ?_, rel.congr hm (fun a ha => relabelFun_canonDict hb hm ha)⟩
  rw [numberOfNodes_eq, ← canonNames_length hb hm]
  exact p

end canon

/-! ## `canonicalize_molecule`: total correctness -/

theorem getItem_last_singleton (g : Graph) : (getItem (pyIter [g]) (-1 : Int) : M Graph) = .ok g := rfl

/-- how `canonicalize_molecule` is composed of its three phases -/
theorem canonicalize_molecule_eq (env : DepEnv) (fuel : Nat) (m pg rg : Graph)
    (h1 : Tucan.canonicalization.partition_molecule_by_attribute env m "invariant_code" = .ok pg)
    (h2 : Tucan.canonicalization.refine_partitions env fuel pg = .ok [rg]) :
    Tucan.canonicalization.canonicalize_molecule env fuel m = .ok (rg.relabelCopy (canonDict env rg)) := by
  unfold Tucan.canonicalization.canonicalize_molecule
  rw [h1]
  simp only [ok_bind, h2, getItem_last_singleton, assign_canonical_labels_eq, pure_eq_ok]

/-- everything known about one run of `canonicalize_molecule env fuel m`: `pg` is `m` partitioned by
invariant code, `rg` its refinement, `r` the result = `rg` renamed by canonical position -/
structure Trace (env : DepEnv) (fuel : Nat) (m pg rg r : Graph) : Prop where
  part : Tucan.canonicalization.partition_molecule_by_attribute env m "invariant_code" = .ok pg
  refine : Tucan.canonicalization.refine_partitions env fuel pg = .ok [rg]
  result : Tucan.canonicalization.canonicalize_molecule env fuel m = .ok r
  partSpec : Partition.PartSpec m "invariant_code" pg
  refineSpec : Partition.RefineSpec pg rg
  eq : r = rg.relabelCopy (canonDict env rg)
  wf : r.WF
  nodes : r.nodeList.Perm (range m.numberOfNodes)
  relabel : IsRelabel (canonMap env rg) rg r

theorem trace_of_phases {env : DepEnv} (hb : BlissLawful env) {fuel : Nat} {m pg rg : Graph}
    (h1 : Tucan.canonicalization.partition_molecule_by_attribute env m "invariant_code" = .ok pg)
    (h2 : Tucan.canonicalization.refine_partitions env fuel pg = .ok [rg])
    (s1 : Partition.PartSpec m "invariant_code" pg) (s2 : Partition.RefineSpec pg rg) :
    Trace env fuel m pg rg (rg.relabelCopy (canonDict env rg)) := by
  obtain ⟨w, p, rel⟩ := relabelCopy_canonDict_spec hb s2.wf
  refine ⟨h1, h2, canonicalize_molecule_eq env fuel m pg rg h1 h2, s1, s2, rfl, w, ?_, rel⟩
  rw [numberOfNodes_eq, s2.nodes, s1.nodes, ← numberOfNodes_eq] at p
  exact p

/-- **Contract of `canonicalize_molecule`** (total correctness; canonicalization part of C15): for a
well-formed molecule with at least one atom, every atom carrying `invariant_code`, and any
`fuel ≥ number of atoms + 1`, the function returns normally (no `KeyError` / `IndexError` / `ValueError`,
no fuel exhaustion); the result is well-formed, its labels are `0 … n-1`, and it is the refined
partitioned graph renamed by canonical position. -/
theorem canonicalize_molecule_ok {env : DepEnv} (hs : env.SetLawful) (hb : BlissLawful env) {m : Graph}
    (hm : m.WF) (hne : m.nodeList ≠ []) (hc : Partition.Carries m "invariant_code")
    (fuel : Nat) (hf : fuel ≥ m.nodeList.length + 1) :
    ∃ pg rg r, Trace env fuel m pg rg r := by
  obtain ⟨pg, e1, s1⟩ := Partition.partition_ok env hs hm "invariant_code" hc
  obtain ⟨w1, d1, p1⟩ := s1.refine_pre hne
  obtain ⟨e2, s2⟩ := Partition.refine_ok env hs w1 d1 p1 fuel (by rw [s1.nodes]; exact hf)
  exact ⟨pg, _, _, trace_of_phases hb e1 e2 s1 s2⟩

/-- the same, without the intermediate graphs -/
theorem canonicalize_molecule_total {env : DepEnv} (hs : env.SetLawful) (hb : BlissLawful env) {m : Graph}
    (hm : m.WF) (hne : m.nodeList ≠ []) (hc : Partition.Carries m "invariant_code")
    (fuel : Nat) (hf : fuel ≥ m.nodeList.length + 1) :
    ∃ r, Tucan.canonicalization.canonicalize_molecule env fuel m = .ok r ∧ r.WF ∧
      r.nodeList.Perm (range m.numberOfNodes) := by
  obtain ⟨pg, rg, r, t⟩ := canonicalize_molecule_ok hs hb hm hne hc fuel hf
  exact ⟨r, t.result, t.wf, t.nodes⟩

/-! ## colour-isomorphic graphs have the same canonical form -/

section agree
variable {env : DepEnv} {m₁ m₂ : Graph} {π : Int → Int}

theorem mem_nbrs_iso_iff {key : String} (h₁ : m₁.WF) (hiso : IsIsoOn key π m₁ m₂) {a b : Int}
    (ha : a ∈ m₁.nodeList) (hb : b ∈ m₁.nodeList) : π b ∈ m₂.nbrs (π a) ↔ b ∈ m₁.nbrs a := by
  rw [(hiso.nbrs a ha).mem_iff, List.mem_map]
  constructor
  · rintro ⟨y, hy, e⟩
    rw [← hiso.inj y (h₁.nbr_mem a y hy) b hb e]; exact hy
  · intro h; exact ⟨b, h, rfl⟩

/-- a `partition`-preserving isomorphism of networkx graphs induces a colour-preserving isomorphism of
the coloured igraphs handed to bliss -/
theorem colourIso_of_isIsoOn (h₁ : m₁.WF) (h₂ : m₂.WF) (hiso : IsIsoOn "partition" π m₁ m₂) :
    ∃ σ, IGraph.ColourIso σ (IGraph.fromNetworkx m₁) (blissColours m₁)
      (IGraph.fromNetworkx m₂) (blissColours m₂) := by
  refine ⟨fun i => m₂.nodeList.idxOf (π ((m₁.nodeList[i]?).getD 0)), ?_⟩
  have hσ : ∀ i (hi : i < m₁.nodeList.length),
      m₂.nodeList.idxOf (π ((m₁.nodeList[i]?).getD 0)) = m₂.nodeList.idxOf (π m₁.nodeList[i]) := by
    intro i hi; rw [List.getElem?_eq_getElem hi, Option.getD_some]
  have hmem : ∀ i (hi : i < m₁.nodeList.length), m₁.nodeList[i] ∈ m₁.nodeList := fun i hi => List.getElem_mem hi
  have hidx : ∀ i (hi : i < m₁.nodeList.length), m₁.nodeList.idxOf m₁.nodeList[i] = i :=
    fun i hi => h₁.nodup_nodeList.idxOf_getElem i hi
  constructor
  · simp only [IGraph.fromNetworkx_names]; rw [hiso.nodes.length_eq, List.length_map]
  · intro i hi
    simp only [IGraph.fromNetworkx_names] at hi ⊢
    rw [hσ i hi]
    exact List.idxOf_lt_length_of_mem (hiso.mem_nodeList (hmem i hi))
  · intro i hi j hj e
    simp only [IGraph.fromNetworkx_names] at hi hj
    simp only [hσ i hi, hσ j hj] at e
    have e' := (List.idxOf_inj (hiso.mem_nodeList (hmem i hi))).1 e
    have e'' := hiso.inj _ (hmem i hi) _ (hmem j hj) e'
    exact (h₁.nodup_nodeList.getElem_inj_iff).1 e''
  · intro i hi
    simp only [IGraph.fromNetworkx_names] at hi
    simp only [hσ i hi]
    unfold blissColours
    rw [IGraph.vsAttr_idxOf h₂ "partition" (hiso.mem_nodeList (hmem i hi)),
      IGraph.vsAttr_getElem? h₁ "partition" (List.getElem?_eq_getElem hi), hiso.attr _ (hmem i hi)]
  · intro i hi j hj
    simp only [IGraph.fromNetworkx_names] at hi hj
    simp only [hσ i hi, hσ j hj]
    rw [IGraph.adj_fromNetworkx h₂]
    conv_rhs => rw [← hidx i hi, ← hidx j hj]
    rw [IGraph.adj_fromNetworkx h₁]
    exact mem_nbrs_iso_iff h₁ hiso (hmem i hi) (hmem j hj)

/-- **Canonical forms agree**: if `m₂` is `m₁` renumbered / reordered by a `partition`-preserving
isomorphism, then the nodes `a` of `m₁` and `b` of `m₂` found at the same canonical position `k` have the same
`partition` value, and the nodes at positions `k`, `l` are bonded in `m₂` iff they are in `m₁`. -/
theorem canonNames_agree (hb : BlissLawful env) (h₁ : m₁.WF) (h₂ : m₂.WF) (hiso : IsIsoOn "partition" π m₁ m₂)
    {k : Nat} {a b : Int} (ha : (canonNames env m₁)[k]? = some a) (hb' : (canonNames env m₂)[k]? = some b) :
    Partition.attrV m₂ "partition" b = Partition.attrV m₁ "partition" a ∧
    ∀ {l : Nat} {a' b' : Int}, (canonNames env m₁)[l]? = some a' → (canonNames env m₂)[l]? = some b' →
      (b' ∈ m₂.nbrs b ↔ a' ∈ m₁.nbrs a) := by
  obtain ⟨hcol, hadj⟩ := hb.canonForm_agree (valid_bliss h₁) (valid_bliss h₂)
    (colourIso_of_isIsoOn h₁ h₂ hiso) ha hb'
  have ham := (canonMap_of_getElem? hb h₁ ha).1
  have hbm := (canonMap_of_getElem? hb h₂ hb').1
  refine ⟨?_, ?_⟩
  · unfold blissColours at hcol
    simp only [IGraph.fromNetworkx_names] at hcol
    rw [IGraph.vsAttr_idxOf h₂ "partition" hbm, IGraph.vsAttr_idxOf h₁ "partition" ham] at hcol
    exact Option.some.inj hcol
  · intro l a' b' ha' hb''
    have := hadj ha' hb''
    simp only [IGraph.fromNetworkx_names] at this
    rwa [IGraph.adj_fromNetworkx h₂, IGraph.adj_fromNetworkx h₁] at this

end agree

/-! ## graphs relabelled by canonical position -/

section relabelled
variable {env : DepEnv}

theorem attr_of_not_mem {r : Graph} {k : Int} (h : k ∉ r.nodeList) (key : String) : r.attr k key = none := by
  unfold Graph.attr
  rw [(Dict.get?_eq_none_iff _ _).2 h]; rfl

theorem nodes_of_mem_nbrs {r : Graph} (w : r.WF) {j k : Int} (h : j ∈ r.nbrs k) :
    k ∈ r.nodeList ∧ j ∈ r.nodeList :=
  ⟨w.nbr_mem j k (w.mem_nbrs_symm h), w.nbr_mem k j h⟩

theorem attr_eq_some_attrV {g : Graph} {a : Int} {k : String} (h : (g.attr a k).isSome) :
    g.attr a k = some (Partition.attrV g k a) := by
  obtain ⟨v, hv⟩ := Option.isSome_iff_exists.1 h
  unfold Partition.attrV; rw [hv]; rfl

/-- the labels of the relabelled graph are exactly the positions `0 … n-1` -/
theorem mem_nodeList_canon (hb : BlissLawful env) {m r : Graph} (hm : m.WF)
    (rel : IsRelabel (canonMap env m) m r) (k : Int) :
    k ∈ r.nodeList ↔ ∃ p : Nat, p < m.nodeList.length ∧ k = (p : Int) := by
  rw [(rel.nodes.trans (map_canonMap_perm hb hm)).mem_iff, mem_range_iff, numberOfNodes_eq]
  simp

/-- node `p` of the relabelled graph carries the attributes of the node found at canonical position `p` -/
theorem attr_canon (hb : BlissLawful env) {m r : Graph} (hm : m.WF) (rel : IsRelabel (canonMap env m) m r)
    {p : Nat} {a : Int} (h : (canonNames env m)[p]? = some a) (key : String) :
    r.attr (p : Int) key = m.attr a key := by
  obtain ⟨ham, e⟩ := canonMap_of_getElem? hb hm h
  rw [← e]; exact rel.attrs a ham key

theorem mem_nbrs_canon (hb : BlissLawful env) {m r : Graph} (hm : m.WF) (rel : IsRelabel (canonMap env m) m r)
    {p q : Nat} {a a' : Int} (h : (canonNames env m)[p]? = some a) (h' : (canonNames env m)[q]? = some a') :
    (q : Int) ∈ r.nbrs (p : Int) ↔ a' ∈ m.nbrs a := by
  obtain ⟨ham, e⟩ := canonMap_of_getElem? hb hm h
  obtain ⟨ham', e'⟩ := canonMap_of_getElem? hb hm h'
  rw [← e, ← e']
  exact mem_nbrs_iso_iff hm (rel.isIsoOn "partition") ham ham'

/-- **Equal canonical graphs.** `m₂` is `m₁` under a `partition`-preserving isomorphism `π`; `r₁`, `r₂` are
`m₁`, `m₂` renamed by canonical position. Then `r₁` and `r₂` have the same `partition` value at every label,
the same value of every attribute that `π` carries and that is constant on partition classes, and the same
bonds. -/
theorem relabelled_agree (hb : BlissLawful env) {m₁ m₂ r₁ r₂ : Graph} {π : Int → Int}
    (h₁ : m₁.WF) (h₂ : m₂.WF) (w₁ : r₁.WF) (w₂ : r₂.WF)
    (c₁ : Partition.Carries m₁ "partition") (c₂ : Partition.Carries m₂ "partition")
    (hiso : IsIsoOn "partition" π m₁ m₂)
    (rel₁ : IsRelabel (canonMap env m₁) m₁ r₁) (rel₂ : IsRelabel (canonMap env m₂) m₂ r₂) :
    (∀ k, r₁.attr k "partition" = r₂.attr k "partition") ∧
    (∀ key, (∀ a ∈ m₁.nodeList, m₂.attr (π a) key = m₁.attr a key) →
      (∀ x ∈ m₂.nodeList, ∀ y ∈ m₂.nodeList, m₂.attr x "partition" = m₂.attr y "partition" →
        m₂.attr x key = m₂.attr y key) →
      ∀ k, r₁.attr k key = r₂.attr k key) ∧
    (∀ j k, j ∈ r₁.nbrs k ↔ j ∈ r₂.nbrs k) := by
  have hlen : m₂.nodeList.length = m₁.nodeList.length := by rw [hiso.nodes.length_eq, List.length_map]
  have hnodes : ∀ k, k ∈ r₁.nodeList ↔ k ∈ r₂.nodeList := by
    intro k; rw [mem_nodeList_canon hb h₁ rel₁, mem_nodeList_canon hb h₂ rel₂, hlen]
  -- the two nodes at position `p`
  have hpos : ∀ p : Nat, p < m₁.nodeList.length →
      ∃ a b, (canonNames env m₁)[p]? = some a ∧ (canonNames env m₂)[p]? = some b := by
    intro p hp
    obtain ⟨a, ha⟩ := exists_canonNames_getElem? hb h₁ hp
    obtain ⟨b, hb'⟩ := exists_canonNames_getElem? hb h₂ (hlen ▸ hp)
    exact ⟨a, b, ha, hb'⟩
  have hpart : ∀ {p : Nat} {a b : Int}, (canonNames env m₁)[p]? = some a → (canonNames env m₂)[p]? = some b →
      m₂.attr b "partition" = m₁.attr a "partition" := by
    intro p a b ha hb'
    have := (canonNames_agree hb h₁ h₂ hiso ha hb').1
    rw [attr_eq_some_attrV (c₂ b (canonMap_of_getElem? hb h₂ hb').1),
      attr_eq_some_attrV (c₁ a (canonMap_of_getElem? hb h₁ ha).1), this]
  refine ⟨?_, ?_, ?_⟩
  · intro k
    by_cases hk : k ∈ r₁.nodeList
    · obtain ⟨p, hp, rfl⟩ := (mem_nodeList_canon hb h₁ rel₁ k).1 hk
      obtain ⟨a, b, ha, hb'⟩ := hpos p hp
      rw [attr_canon hb h₁ rel₁ ha, attr_canon hb h₂ rel₂ hb', hpart ha hb']
    · rw [attr_of_not_mem hk, attr_of_not_mem (fun h => hk ((hnodes k).2 h))]
  · intro key hcarry hdet k
    by_cases hk : k ∈ r₁.nodeList
    · obtain ⟨p, hp, rfl⟩ := (mem_nodeList_canon hb h₁ rel₁ k).1 hk
      obtain ⟨a, b, ha, hb'⟩ := hpos p hp
      have ham := (canonMap_of_getElem? hb h₁ ha).1
      have hbm := (canonMap_of_getElem? hb h₂ hb').1
      rw [attr_canon hb h₁ rel₁ ha, attr_canon hb h₂ rel₂ hb', ← hcarry a ham]
      exact (hdet b hbm (π a) (hiso.mem_nodeList ham) (by rw [hpart ha hb', hiso.attr a ham])).symm
    · rw [attr_of_not_mem hk, attr_of_not_mem (fun h => hk ((hnodes k).2 h))]
  · intro j k
    by_cases hk : k ∈ r₁.nodeList ∧ j ∈ r₁.nodeList
    · obtain ⟨p, hp, rfl⟩ := (mem_nodeList_canon hb h₁ rel₁ k).1 hk.1
      obtain ⟨q, hq, rfl⟩ := (mem_nodeList_canon hb h₁ rel₁ j).1 hk.2
      obtain ⟨a, b, ha, hb'⟩ := hpos p hp
      obtain ⟨a', b', ha', hb''⟩ := hpos q hq
      rw [mem_nbrs_canon hb h₁ rel₁ ha ha', mem_nbrs_canon hb h₂ rel₂ hb' hb'']
      exact ((canonNames_agree hb h₁ h₂ hiso ha hb').2 ha' hb'').symm
    · constructor
      · intro h; exact absurd (nodes_of_mem_nbrs w₁ h) hk
      · intro h
        have := nodes_of_mem_nbrs w₂ h
        exact absurd ⟨(hnodes k).2 this.1, (hnodes j).2 this.2⟩ hk

end relabelled

/-! ## two runs on two descriptions of one molecule -/

theorem carries_of_iso {g h : Graph} {k : String} {π : Int → Int} (hiso : IsIsoOn k π g h)
    (cg : Partition.Carries g k) : Partition.Carries h k := by
  intro b hb
  obtain ⟨a, ha, rfl⟩ := List.mem_map.1 (hiso.nodes.mem_iff.1 hb)
  rw [hiso.attr a ha]; exact cg a ha

/-- the refined partitioned graphs of two presentations correspond under `π` -/
theorem refined_iso {g h pg ph rg rh : Graph} {k : String} {π : Int → Int} (hiso : IsIsoOn k π g h)
    (sg : Partition.PartSpec g k pg) (sh : Partition.PartSpec h k ph)
    (tg : Partition.RefineSpec pg rg) (th : Partition.RefineSpec ph rh)
    (hlab : ∀ a ∈ g.nodeList, rh.attr (π a) "partition" = rg.attr a "partition") :
    IsIsoOn "partition" π rg rh where
  inj := by rw [tg.nodes, sg.nodes]; exact hiso.inj
  nodes := by rw [th.nodes, sh.nodes, tg.nodes, sg.nodes]; exact hiso.nodes
  attr := fun n hn => by rw [tg.nodes, sg.nodes] at hn; exact hlab n hn
  nbrs := fun n hn => by
    rw [tg.nodes, sg.nodes] at hn
    exact ((th.nbrs _).trans (sh.nbrs _)).trans
      ((hiso.nbrs n hn).trans (((tg.nbrs n).trans (sg.nbrs n)).map π).symm)

theorem canonMap_congr {env₁ env₂ : DepEnv} (hcp : env₂.canonicalPermutation = env₁.canonicalPermutation)
    (hpv : env₂.permuteVertices = env₁.permuteVertices) (m : Graph) : canonMap env₂ m = canonMap env₁ m := by
  funext a
  unfold canonMap canonNames DepEnv.canonForm
  rw [hcp, hpv]

/-- Two runs of `canonicalize_molecule` (possibly with different set-iteration orders `env₁.setOrder`,
`env₂.setOrder`, but the same bliss) on two presentations `g`, `h` of one molecule, with all intermediate
graphs. -/
theorem two_traces {env₁ env₂ : DepEnv} (hs₁ : env₁.SetLawful) (hs₂ : env₂.SetLawful) (hb : BlissLawful env₁)
    (hcp : env₂.canonicalPermutation = env₁.canonicalPermutation)
    (hpv : env₂.permuteVertices = env₁.permuteVertices)
    {g h : Graph} {π : Int → Int} (hg : g.WF) (hh : h.WF) (hne : g.nodeList ≠ [])
    (cg : Partition.Carries g "invariant_code") (hiso : IsIsoOn "invariant_code" π g h)
    (fuel₁ fuel₂ : Nat) (hf₁ : fuel₁ ≥ g.nodeList.length + 1) (hf₂ : fuel₂ ≥ h.nodeList.length + 1) :
    ∃ pg ph mg mh rg rh, Trace env₁ fuel₁ g pg mg rg ∧ Trace env₂ fuel₂ h ph mh rh ∧
      IsIsoOn "partition" π mg mh ∧ IsRelabel (canonMap env₁ mh) mh rh := by
  have hb₂ := hb.congr hcp hpv
  have ch := carries_of_iso hiso cg
  obtain ⟨pg, ph, mg, mh, e1, e2, e3, e4, tg, th, hlab⟩ :=
    Partition.partition_refine_label_independent env₁ env₂ hs₁ hs₂ hg hh cg ch hne hiso fuel₁ fuel₂ hf₁ hf₂
  obtain ⟨pg0, e1', sg⟩ := Partition.partition_ok env₁ hs₁ hg "invariant_code" cg
  obtain ⟨ph0, e2', sh⟩ := Partition.partition_ok env₂ hs₂ hh "invariant_code" ch
  obtain rfl : pg0 = pg := Except.ok.inj (e1'.symm.trans e1)
  obtain rfl : ph0 = ph := Except.ok.inj (e2'.symm.trans e2)
  have T₁ := trace_of_phases hb e1 e3 sg tg
  have T₂ := trace_of_phases hb₂ e2 e4 sh th
  refine ⟨pg0, ph0, mg, mh, _, _, T₁, T₂, refined_iso hiso sg sh tg th hlab, ?_⟩
  rw [← canonMap_congr hcp hpv]; exact T₂.relabel

/-! ## C04 -/

/-- the attributes that identify an atom -/
def identityKeys : List String := ["element_symbol", "atomic_number", "mass", "rad"]

/-- atoms with equal invariant code have equal attribute `key` (what `graph_from_molecule` guarantees for
the identity attributes: the code is computed from them) -/
def CodeDetermines (g : Graph) (key : String) : Prop :=
  ∀ a ∈ g.nodeList, ∀ b ∈ g.nodeList, g.attr a "invariant_code" = g.attr b "invariant_code" →
    g.attr a key = g.attr b key

/-- **C04.** `g`, `h`: two descriptions of one molecule (`h` is `g` renumbered by `π`, nodes / neighbours /
attribute dicts listed in any order; `π` carries `invariant_code` and the identity attributes), each atom
carrying `invariant_code`, and atoms with equal invariant code having equal identity attributes. Then both
canonicalizations return normally and yield the same labelled graph: the same labels `0 … n-1`; at every
label the same element symbol, atomic number, mass, radical state, invariant code and partition class; and
the same bonds. The two runs may use different set-iteration orders (hash seeds). -/
theorem C04_main {env₁ env₂ : DepEnv} (hs₁ : env₁.SetLawful) (hs₂ : env₂.SetLawful) (hb : BlissLawful env₁)
    (hcp : env₂.canonicalPermutation = env₁.canonicalPermutation)
    (hpv : env₂.permuteVertices = env₁.permuteVertices)
    {g h : Graph} {π : Int → Int} (hg : g.WF) (hh : h.WF) (hne : g.nodeList ≠ [])
    (cg : Partition.Carries g "invariant_code") (hiso : IsIsoOn "invariant_code" π g h)
    (hcarry : ∀ key ∈ identityKeys, ∀ n ∈ g.nodeList, h.attr (π n) key = g.attr n key)
    (hdet : ∀ key ∈ identityKeys, CodeDetermines g key)
    (fuel₁ fuel₂ : Nat) (hf₁ : fuel₁ ≥ g.nodeList.length + 1) (hf₂ : fuel₂ ≥ h.nodeList.length + 1) :
    ∃ rg rh, Tucan.canonicalization.canonicalize_molecule env₁ fuel₁ g = .ok rg ∧
      Tucan.canonicalization.canonicalize_molecule env₂ fuel₂ h = .ok rh ∧
      rg.WF ∧ rh.WF ∧
      rg.nodeList.Perm (range g.numberOfNodes) ∧ rh.nodeList.Perm (range g.numberOfNodes) ∧
      (∀ (k : Int) (key : String), key ∈ identityKeys ++ ["invariant_code", "partition"] →
        rg.attr k key = rh.attr k key) ∧
      (∀ j k : Int, j ∈ rg.nbrs k ↔ j ∈ rh.nbrs k) := by
  have ch := carries_of_iso hiso cg
  obtain ⟨pg, ph, mg, mh, rg, rh, T₁, T₂, hiso', rel₂⟩ :=
    two_traces hs₁ hs₂ hb hcp hpv hg hh hne cg hiso fuel₁ fuel₂ hf₁ hf₂
  have sg := T₁.partSpec; have sh := T₂.partSpec
  have tg := T₁.refineSpec; have th := T₂.refineSpec
  obtain ⟨A, B, C⟩ := relabelled_agree hb tg.wf th.wf T₁.wf T₂.wf tg.dense.carries th.dense.carries hiso'
    T₁.relabel rel₂
  have hnum : h.numberOfNodes = g.numberOfNodes := by
    rw [numberOfNodes_eq, numberOfNodes_eq, hiso.nodes.length_eq, List.length_map]
  refine ⟨rg, rh, T₁.result, T₂.result, T₁.wf, T₂.wf, T₁.nodes, hnum ▸ T₂.nodes, ?_, C⟩
  intro k key hkey
  by_cases hp : key = "partition"
  · subst hp; exact A k
  · -- `key` is carried by `π` and determined by the invariant code
    have hk : (∀ n ∈ g.nodeList, h.attr (π n) key = g.attr n key) ∧ CodeDetermines g key := by
      have : key ∈ identityKeys ∨ key = "invariant_code" := by
        simp only [List.mem_append, List.mem_cons, List.not_mem_nil, or_false] at hkey
        rcases hkey with h | h | h
        · exact Or.inl h
        · exact Or.inr h
        · exact absurd h hp
      rcases this with h | rfl
      · exact ⟨hcarry key h, hdet key h⟩
      · exact ⟨hiso.attr, fun _ _ _ _ e => e⟩
    have fg : ∀ a, mg.attr a key = g.attr a key := fun a => (tg.frame a key hp).trans (sg.frame a key hp)
    have fh : ∀ a, mh.attr a key = h.attr a key := fun a => (th.frame a key hp).trans (sh.frame a key hp)
    apply B key
    · intro a ha
      rw [tg.nodes, sg.nodes] at ha
      rw [fg, fh]; exact hk.1 a ha
    · intro x hx y hy e
      rw [th.nodes] at hx hy
      have e1 := th.refines x hx y hy e
      rw [sh.nodes] at hx hy
      have e2 := (Partition.partSpec_refines sh ch hx hy e1).1
      rw [fh, fh]
      obtain ⟨a, ha, rfl⟩ := List.mem_map.1 (hiso.nodes.mem_iff.1 hx)
      obtain ⟨b, hb', rfl⟩ := List.mem_map.1 (hiso.nodes.mem_iff.1 hy)
      rw [hiso.attr a ha, hiso.attr b hb'] at e2
      rw [hk.1 a ha, hk.1 b hb']
      exact hk.2 a ha b hb' e2

/-! ## C12 (total correctness) -/

/-- the result of a run is the *input* renamed by the canonical-position map of the refined graph, up to
the `partition` attribute -/
theorem isRelabelExcept_of_trace {env : DepEnv} {fuel : Nat} {m pg mg r : Graph} (hm : m.WF)
    (T : Trace env fuel m pg mg r) {ρ : Int → Int} (rel : IsRelabel ρ mg r) :
    Relabel.IsRelabelExcept "partition" ρ m r := by
  obtain ⟨w₁, c₁⟩ := Relabel.partition_molecule_by_attribute_frame env hm _ T.part
  obtain ⟨w₂, c₂⟩ := Relabel.refine_partitions_frame env fuel w₁ T.refine mg (List.mem_singleton.2 rfl)
  exact Relabel.IsRelabelExcept.of_changed_relabel hm w₂ (c₁.trans c₂) rel

/-- **C12** (canonicalization half, total correctness): for every well-formed non-empty molecule whose atoms
carry `invariant_code`, `canonicalize_molecule` returns a well-formed graph with labels `0 … n-1` that is the
input under a one-to-one renaming `ρ` of the atoms: every atom keeps every attribute other than `partition`,
adjacency is carried along, every bond keeps its data. (`Relabel.canonicalize_molecule_spec` is the
partial-correctness version under the weaker `BlissPermLawful`.) -/
theorem C12_main {env : DepEnv} (hs : env.SetLawful) (hb : BlissLawful env) {m : Graph}
    (hm : m.WF) (hne : m.nodeList ≠ []) (hc : Partition.Carries m "invariant_code")
    (fuel : Nat) (hf : fuel ≥ m.nodeList.length + 1) :
    ∃ r, Tucan.canonicalization.canonicalize_molecule env fuel m = .ok r ∧ r.WF ∧
      r.nodeList.Perm (range m.numberOfNodes) ∧
      ∃ ρ, Relabel.IsRelabelExcept "partition" ρ m r ∧ (∀ k, k ≠ "partition" → IsIsoOn k ρ m r) := by
  obtain ⟨pg, mg, r, T⟩ := canonicalize_molecule_ok hs hb hm hne hc fuel hf
  have R := isRelabelExcept_of_trace hm T T.relabel
  exact ⟨r, T.result, T.wf, T.nodes, _, R, fun k hk => R.isIsoOn hk⟩

/-- C12, partial correctness for *every* well-formed argument (also the empty molecule or atoms without
`invariant_code`, where the function may raise): whenever `canonicalize_molecule` returns, the result is the
input renamed one-to-one onto `0 … n-1`. Same conclusion as `Relabel.canonicalize_molecule_spec`, under
`BlissLawful` (whose L1 is only assumed for valid bliss inputs) instead of `BlissPermLawful`. -/
theorem canonicalize_molecule_spec' {env : DepEnv} (hb : BlissLawful env) (fuel : Nat) {m : Graph} (hm : m.WF)
    {r : Graph} (h : Tucan.canonicalization.canonicalize_molecule env fuel m = .ok r) :
    r.WF ∧ r.nodeList.Perm (range m.numberOfNodes) ∧
    ∃ ρ, Relabel.IsRelabelExcept "partition" ρ m r ∧ (∀ k, k ≠ "partition" → IsIsoOn k ρ m r) := by
  unfold Tucan.canonicalization.canonicalize_molecule at h
  simp only [pure_eq_ok] at h
  obtain ⟨m₁, h₁, h⟩ := Relabel.bind_eq_ok.1 h
  obtain ⟨out, h₂, h⟩ := Relabel.bind_eq_ok.1 h
  obtain ⟨m₂, h₃, h⟩ := Relabel.bind_eq_ok.1 h
  rw [assign_canonical_labels_eq] at h
  simp only [ok_bind, Except.ok.injEq] at h
  subst h
  obtain ⟨w₁, c₁⟩ := Relabel.partition_molecule_by_attribute_frame env hm _ h₁
  obtain ⟨w₂, c₂⟩ := Relabel.refine_partitions_frame env fuel w₁ h₂ m₂ (Relabel.mem_of_getItem_last h₃)
  have c := c₁.trans c₂
  obtain ⟨w, p, rel⟩ := relabelCopy_canonDict_spec hb w₂
  have R := Relabel.IsRelabelExcept.of_changed_relabel hm w₂ c rel
  refine ⟨w, ?_, _, R, fun k hk => R.isIsoOn hk⟩
  rw [numberOfNodes_eq, c.nodeList, ← numberOfNodes_eq] at p
  exact p

/-! ## C13 for the result of `canonicalize_molecule` -/

/-- atoms of one class share the invariant code (element, isotope mass, radical state) and see the same
multiset of classes among their neighbours -/
def ClassesOK (r : Graph) : Prop :=
  ∀ x ∈ r.nodeList, ∀ y ∈ r.nodeList, r.attr x "partition" = r.attr y "partition" →
    r.attr x "invariant_code" = r.attr y "invariant_code" ∧
    sortedRev ((r.nbrs x).map (Partition.attrV r "partition")) =
      sortedRev ((r.nbrs y).map (Partition.attrV r "partition"))

theorem classesOK_of_trace {env : DepEnv} {fuel : Nat} {m pg mg r : Graph}
    (hc : Partition.Carries m "invariant_code") (T : Trace env fuel m pg mg r) : ClassesOK r := by
  have sg := T.partSpec; have tg := T.refineSpec; have rel := T.relabel
  have hne : ("invariant_code" : String) ≠ "partition" := by decide
  -- neighbour classes seen from `ρ a` in `r` = those seen from `a` in `mg`
  have hnb : ∀ a ∈ mg.nodeList, sortedRev ((r.nbrs (canonMap env mg a)).map (Partition.attrV r "partition")) =
      sortedRev ((mg.nbrs a).map (Partition.attrV mg "partition")) := by
    intro a ha
    apply sortedRev_perm
    refine ((rel.nbrs a ha).map _).trans ?_
    rw [List.map_map, List.map_congr_left]
    intro n hn
    show Partition.attrV r "partition" (canonMap env mg n) = _
    unfold Partition.attrV
    rw [rel.attrs n (tg.wf.nbr_mem a n hn)]
  intro x hx y hy e
  obtain ⟨a, ha, rfl⟩ := List.mem_map.1 (rel.nodes.mem_iff.1 hx)
  obtain ⟨b, hb', rfl⟩ := List.mem_map.1 (rel.nodes.mem_iff.1 hy)
  rw [rel.attrs a ha, rel.attrs b hb'] at e
  refine ⟨?_, ?_⟩
  · rw [rel.attrs a ha, rel.attrs b hb', tg.frame _ _ hne, tg.frame _ _ hne, sg.frame _ _ hne, sg.frame _ _ hne]
    have ha' := ha; have hb'' := hb'
    rw [tg.nodes] at ha' hb''
    have e1 := tg.refines a ha' b hb'' e
    rw [sg.nodes] at ha' hb''
    exact (Partition.partSpec_refines sg hc ha' hb'' e1).1
  · rw [hnb a ha, hnb b hb']
    exact tg.equitable a ha b hb' e

/-- **C13 (b), (c)** for the result of `canonicalize_molecule` -/
theorem C13_classes {env : DepEnv} (hs : env.SetLawful) (hb : BlissLawful env) {m : Graph}
    (hm : m.WF) (hne : m.nodeList ≠ []) (hc : Partition.Carries m "invariant_code")
    (fuel : Nat) (hf : fuel ≥ m.nodeList.length + 1) :
    ∃ r, Tucan.canonicalization.canonicalize_molecule env fuel m = .ok r ∧ ClassesOK r := by
  obtain ⟨pg, mg, r, T⟩ := canonicalize_molecule_ok hs hb hm hne hc fuel hf
  exact ⟨r, T.result, classesOK_of_trace hc T⟩

/-- **C13.** `g`, `h`: two presentations of one molecule (`IsIsoOn "invariant_code" π g h`), each atom carrying
`invariant_code`. Both canonicalizations return normally, with results `rg`, `rh` that are `g`, `h` under
one-to-one renamings `ρg`, `ρh` (the canonical-position maps), and
(a) label independence: atom `a` of `g` and atom `π a` of `h` end up in the same partition class;
(b), (c) in both results atoms of one class share the invariant code and see the same multiset of
neighbour classes. -/
theorem C13_main {env₁ env₂ : DepEnv} (hs₁ : env₁.SetLawful) (hs₂ : env₂.SetLawful) (hb : BlissLawful env₁)
    (hcp : env₂.canonicalPermutation = env₁.canonicalPermutation)
    (hpv : env₂.permuteVertices = env₁.permuteVertices)
    {g h : Graph} {π : Int → Int} (hg : g.WF) (hh : h.WF) (hne : g.nodeList ≠ [])
    (cg : Partition.Carries g "invariant_code") (hiso : IsIsoOn "invariant_code" π g h)
    (fuel₁ fuel₂ : Nat) (hf₁ : fuel₁ ≥ g.nodeList.length + 1) (hf₂ : fuel₂ ≥ h.nodeList.length + 1) :
    ∃ rg rh ρg ρh, Tucan.canonicalization.canonicalize_molecule env₁ fuel₁ g = .ok rg ∧
      Tucan.canonicalization.canonicalize_molecule env₂ fuel₂ h = .ok rh ∧
      Relabel.IsRelabelExcept "partition" ρg g rg ∧ Relabel.IsRelabelExcept "partition" ρh h rh ∧
      (∀ a ∈ g.nodeList, rg.attr (ρg a) "partition" = rh.attr (ρh (π a)) "partition") ∧
      ClassesOK rg ∧ ClassesOK rh := by
  obtain ⟨pg, ph, mg, mh, rg, rh, T₁, T₂, hiso', rel₂⟩ :=
    two_traces hs₁ hs₂ hb hcp hpv hg hh hne cg hiso fuel₁ fuel₂ hf₁ hf₂
  refine ⟨rg, rh, canonMap env₁ mg, canonMap env₁ mh, T₁.result, T₂.result,
    isRelabelExcept_of_trace hg T₁ T₁.relabel, isRelabelExcept_of_trace hh T₂ rel₂, ?_,
    classesOK_of_trace cg T₁, classesOK_of_trace (carries_of_iso hiso cg) T₂⟩
  intro a ha
  have ha' : a ∈ mg.nodeList := by rw [T₁.refineSpec.nodes, T₁.partSpec.nodes]; exact ha
  rw [T₁.relabel.attrs a ha', rel₂.attrs _ (hiso'.mem_nodeList ha'), hiso'.attr a ha']

/-- **C13 (d)**: two atoms that are mapped onto each other by a symmetry `π` of the molecule (an
automorphism respecting `invariant_code`) are in the same partition class of the canonicalized molecule. -/
theorem C13_automorphism {env : DepEnv} (hs : env.SetLawful) (hb : BlissLawful env) {g : Graph} {π : Int → Int}
    (hg : g.WF) (hne : g.nodeList ≠ []) (cg : Partition.Carries g "invariant_code")
    (hauto : IsIsoOn "invariant_code" π g g) (fuel : Nat) (hf : fuel ≥ g.nodeList.length + 1) :
    ∃ r ρ, Tucan.canonicalization.canonicalize_molecule env fuel g = .ok r ∧
      Relabel.IsRelabelExcept "partition" ρ g r ∧
      ∀ a ∈ g.nodeList, r.attr (ρ (π a)) "partition" = r.attr (ρ a) "partition" := by
  obtain ⟨pg, ph, mg, mh, rg, rh, T₁, T₂, hiso', rel₂⟩ :=
    two_traces hs hs hb rfl rfl hg hg hne cg hauto fuel fuel hf hf
  obtain rfl : pg = ph := Except.ok.inj (T₁.part.symm.trans T₂.part)
  obtain rfl : mg = mh := by
    have := Except.ok.inj (T₁.refine.symm.trans T₂.refine)
    exact List.head_eq_of_cons_eq this
  refine ⟨rg, canonMap env mg, T₁.result, isRelabelExcept_of_trace hg T₁ T₁.relabel, ?_⟩
  intro a ha
  have ha' : a ∈ mg.nodeList := by rw [T₁.refineSpec.nodes, T₁.partSpec.nodes]; exact ha
  rw [T₁.relabel.attrs a ha', T₁.relabel.attrs _ (hiso'.mem_nodeList ha'), hiso'.attr a ha']

/-- the hypotheses `env.SetLawful`, `BlissLawful env` of the theorems above are jointly satisfiable -/
theorem hypotheses_satisfiable : ∃ env : DepEnv, BlissLawful env ∧ env.SetLawful :=
  BlissModel.blissLawful_satisfiable

/-! ## axioms -/
#print axioms hypotheses_satisfiable
#print axioms assign_canonical_labels_ok
#print axioms canonicalize_molecule_ok
#print axioms canonicalize_molecule_total
#print axioms C04_main
#print axioms C12_main
#print axioms canonicalize_molecule_spec'
#print axioms C13_classes
#print axioms C13_main
#print axioms C13_automorphism

end Contracts.Canonicalize
