/-
Contracts.Canonicalize — contracts of `assign_canonical_labels` and `canonicalize_molecule`
(tucan/canonicalization.py) under the assumed bliss contract `BlissLawful` (Spec/Bliss.lean):
total correctness (canonicalization part of C15), C04 (same molecule ⇒ same canonical labelled graph),
C13 for the result of `canonicalize_molecule`, C12 as a total-correctness statement.
-/
import Spec.Bliss
import Contracts.Partition
import Contracts.Relabel
set_option autoImplicit false

open Py Py.Graph Contracts

namespace Contracts.Canonicalize

/-! ## the canonical-position map -/

/-- the colour vector handed to bliss: the `partition` value of every node, in node order -/
def blissColours (m : Graph) : List Val := (IGraph.fromNetworkx m).vsAttr "partition"

/-- `old_labels_in_canonical_order`: the node labels of `m` in the vertex order of the permuted igraph -/
def canonNames (env : DepEnv) (m : Graph) : List Int :=
  (env.canonForm (IGraph.fromNetworkx m) (blissColours m)).names

/-- canonical position of node `a` of `m` -/
def canonMap (env : DepEnv) (m : Graph) (a : Int) : Int := (((canonNames env m).idxOf a : Nat) : Int)

/-- the dict returned by `assign_canonical_labels` -/
def canonDict (env : DepEnv) (m : Graph) : Dict Int Int :=
  Dict.ofPairs (zip (canonNames env m) (range ((canonNames env m).length : Int)))

theorem assign_canonical_labels_eq (env : DepEnv) (m : Graph) :
    Tucan.canonicalization.assign_canonical_labels env m = .ok (canonDict env m) := rfl

theorem mem_range_iff (n : Int) (k : Int) : k ∈ range n ↔ ∃ p : Nat, p < n.toNat ∧ k = (p : Int) := by
  simp only [range, List.mem_map, List.mem_range, Int.ofNat_eq_natCast]
  constructor
  · rintro ⟨p, hp, rfl⟩; exact ⟨p, hp, rfl⟩
  · rintro ⟨p, hp, rfl⟩; exact ⟨p, hp, rfl⟩

theorem getElem_range' (n : Int) (i : Nat) (h : i < (range n).length) : (range n)[i] = (i : Int) := by
  simp [range]

section canon
variable {env : DepEnv} {m : Graph}

theorem valid_bliss (hm : m.WF) : (IGraph.fromNetworkx m).Valid (blissColours m) :=
  IGraph.valid_fromNetworkx hm "partition"

/-- L1 for the graph at hand: the labels in canonical order are a rearrangement of the nodes -/
theorem canonNames_perm (hb : BlissLawful env) (hm : m.WF) : (canonNames env m).Perm m.nodeList :=
  hb.names_perm _ _ (valid_bliss hm)

theorem canonNames_nodup (hb : BlissLawful env) (hm : m.WF) : (canonNames env m).Nodup :=
  (canonNames_perm hb hm).nodup_iff.2 hm.nodup_nodeList

theorem canonNames_length (hb : BlissLawful env) (hm : m.WF) : (canonNames env m).length = m.nodeList.length :=
  (canonNames_perm hb hm).length_eq

theorem canonDict_len (env : DepEnv) (m : Graph) :
    (canonNames env m).length = (range ((canonNames env m).length : Int)).length := by
  rw [length_range]; simp

/-- the dict maps every node to its canonical position -/
theorem relabelFun_canonDict (hb : BlissLawful env) (hm : m.WF) {a : Int} (ha : a ∈ m.nodeList) :
    relabelFun (canonDict env m) a = canonMap env m a := by
  have ha' : a ∈ canonNames env m := (canonNames_perm hb hm).mem_iff.2 ha
  unfold canonDict
  rw [relabelFun_zip (canonNames_nodup hb hm) (canonDict_len env m) ha', getElem_range']
  rfl

theorem canonDict_get? (hb : BlissLawful env) (hm : m.WF) {a : Int} (ha : a ∈ m.nodeList) :
    (canonDict env m).get? a = some (canonMap env m a) := by
  have ha' : a ∈ canonNames env m := (canonNames_perm hb hm).mem_iff.2 ha
  unfold canonDict
  rw [Dict.get?_ofPairs_zip_of_mem (canonNames_nodup hb hm) (canonDict_len env m) ha', getElem_range']
  rfl

theorem canonDict_keys (hb : BlissLawful env) (hm : m.WF) : (canonDict env m).keys = canonNames env m :=
  Dict.keys_ofPairs_zip (canonNames_nodup hb hm) (canonDict_len env m)

theorem canonMap_injOn (hb : BlissLawful env) (hm : m.WF) :
    ∀ a ∈ m.nodeList, ∀ b ∈ m.nodeList, canonMap env m a = canonMap env m b → a = b := by
  intro a ha b hb' e
  have ha' : a ∈ canonNames env m := (canonNames_perm hb hm).mem_iff.2 ha
  unfold canonMap at e
  exact (List.idxOf_inj ha').1 (by exact_mod_cast e)

theorem map_canonMap_perm (hb : BlissLawful env) (hm : m.WF) :
    (m.nodeList.map (canonMap env m)).Perm (range m.numberOfNodes) := by
  have h1 : (canonNames env m).map (relabelFun (canonDict env m)) = range ((canonNames env m).length : Int) :=
    map_relabelFun_zip (canonNames_nodup hb hm) (canonDict_len env m)
  have h2 : (canonNames env m).map (relabelFun (canonDict env m)) = (canonNames env m).map (canonMap env m) :=
    List.map_congr_left (fun a ha => relabelFun_canonDict hb hm ((canonNames_perm hb hm).mem_iff.1 ha))
  rw [numberOfNodes_eq, ← canonNames_length hb hm, ← h1, h2]
  exact ((canonNames_perm hb hm).map _).symm

/-- the node found at canonical position `p` -/
theorem canonMap_of_getElem? (hb : BlissLawful env) (hm : m.WF) {p : Nat} {a : Int}
    (h : (canonNames env m)[p]? = some a) : a ∈ m.nodeList ∧ canonMap env m a = (p : Int) := by
  refine ⟨(canonNames_perm hb hm).mem_iff.1 (List.mem_of_getElem? h), ?_⟩
  unfold canonMap
  rw [idxOf_of_getElem? (canonNames_nodup hb hm) h]

theorem exists_canonNames_getElem? (hb : BlissLawful env) (hm : m.WF) {p : Nat} (hp : p < m.nodeList.length) :
    ∃ a, (canonNames env m)[p]? = some a :=
  ⟨_, List.getElem?_eq_getElem (by rw [canonNames_length hb hm]; exact hp)⟩

/-- **Contract of `assign_canonical_labels`** (total correctness): no error; the returned dict is
`{label: canonical position}`; its keys are the nodes of `m`; it is one-to-one on the nodes and maps
them onto `0 … n-1`. -/
theorem assign_canonical_labels_ok (hb : BlissLawful env) (hm : m.WF) :
    Tucan.canonicalization.assign_canonical_labels env m = .ok (canonDict env m) ∧
    (canonDict env m).keys.Perm m.nodeList ∧
    (∀ a ∈ m.nodeList, (canonDict env m).get? a = some (canonMap env m a)) ∧
    (∀ a ∈ m.nodeList, ∀ b ∈ m.nodeList, canonMap env m a = canonMap env m b → a = b) ∧
    (m.nodeList.map (canonMap env m)).Perm (range m.numberOfNodes) :=
  ⟨rfl, by rw [canonDict_keys hb hm]; exact canonNames_perm hb hm, fun _ ha => canonDict_get? hb hm ha,
    canonMap_injOn hb hm, map_canonMap_perm hb hm⟩

/-- relabelling by the returned dict = relabelling by canonical position -/
theorem relabelCopy_canonDict_spec (hb : BlissLawful env) (hm : m.WF) :
    (m.relabelCopy (canonDict env m)).WF ∧
    (m.relabelCopy (canonDict env m)).nodeList.Perm (range m.numberOfNodes) ∧
    IsRelabel (canonMap env m) m (m.relabelCopy (canonDict env m)) := by
  obtain ⟨w, -, p, rel⟩ := relabelCopy_zip_spec hm (canonNames_perm hb hm)
    (nodup_range ((canonNames env m).length : Int)) (canonDict_len env m)
  refine ⟨w, ?_, rel.congr hm (fun a ha => relabelFun_canonDict hb hm ha)⟩
  rw [numberOfNodes_eq, ← canonNames_length hb hm]
  exact p

end canon

/-! ## `canonicalize_molecule`: total correctness -/

theorem getItem_last_singleton (g : Graph) : (getItem (pyIter [g]) (-1 : Int) : M Graph) = .ok g := rfl

/-- how `canonicalize_molecule` is composed of its three phases -/
theorem canonicalize_molecule_eq (env : DepEnv) (fuel : Nat) (m pg rg : Graph)
    (h1 : Tucan.canonicalization.partition_molecule_by_attribute env m "invariant_code" = .ok pg)
    (h2 : Tucan.canonicalization.refine_partitions env fuel pg = .ok [rg]) :
    Tucan.canonicalization.canonicalize_molecule env fuel m = .ok (rg.relabelCopy (canonDict env rg)) := by
  unfold Tucan.canonicalization.canonicalize_molecule
  rw [h1]
  simp only [ok_bind, h2, getItem_last_singleton, assign_canonical_labels_eq, pure_eq_ok]

/-- everything known about one run of `canonicalize_molecule env fuel m`: `pg` is `m` partitioned by
invariant code, `rg` its refinement, `r` the result = `rg` renamed by canonical position -/
structure Trace (env : DepEnv) (fuel : Nat) (m pg rg r : Graph) : Prop where
  part : Tucan.canonicalization.partition_molecule_by_attribute env m "invariant_code" = .ok pg
  refine : Tucan.canonicalization.refine_partitions env fuel pg = .ok [rg]
  result : Tucan.canonicalization.canonicalize_molecule env fuel m = .ok r
  partSpec : Partition.PartSpec m "invariant_code" pg
  refineSpec : Partition.RefineSpec pg rg
  eq : r = rg.relabelCopy (canonDict env rg)
  wf : r.WF
  nodes : r.nodeList.Perm (range m.numberOfNodes)
  relabel : IsRelabel (canonMap env rg) rg r

theorem trace_of_phases {env : DepEnv} (hb : BlissLawful env) {fuel : Nat} {m pg rg : Graph}
    (h1 : Tucan.canonicalization.partition_molecule_by_attribute env m "invariant_code" = .ok pg)
    (h2 : Tucan.canonicalization.refine_partitions env fuel pg = .ok [rg])
    (s1 : Partition.PartSpec m "invariant_code" pg) (s2 : Partition.RefineSpec pg rg) :
    Trace env fuel m pg rg (rg.relabelCopy (canonDict env rg)) := by
  obtain ⟨w, p, rel⟩ := relabelCopy_canonDict_spec hb s2.wf
  refine ⟨h1, h2, canonicalize_molecule_eq env fuel m pg rg h1 h2, s1, s2, rfl, w, ?_, rel⟩
  rw [numberOfNodes_eq, s2.nodes, s1.nodes, ← numberOfNodes_eq] at p
  exact p

/-- **Contract of `canonicalize_molecule`** (total correctness; canonicalization part of C15): for a
well-formed molecule with at least one atom, every atom carrying `invariant_code`, and any
`fuel ≥ number of atoms + 1`, the function returns normally (no `KeyError` / `IndexError` / `ValueError`,
no fuel exhaustion); the result is well-formed, its labels are `0 … n-1`, and it is the refined
partitioned graph renamed by canonical position. -/
theorem canonicalize_molecule_ok {env : DepEnv} (hs : env.SetLawful) (hb : BlissLawful env) {m : Graph}
    (hm : m.WF) (hne : m.nodeList ≠ []) (hc : Partition.Carries m "invariant_code")
    (fuel : Nat) (hf : fuel ≥ m.nodeList.length + 1) :
    ∃ pg rg r, Trace env fuel m pg rg r := by
  obtain ⟨pg, e1, s1⟩ := Partition.partition_ok env hs hm "invariant_code" hc
  obtain ⟨w1, d1, p1⟩ := s1.refine_pre hne
  obtain ⟨e2, s2⟩ := Partition.refine_ok env hs w1 d1 p1 fuel (by rw [s1.nodes]; exact hf)
  exact ⟨pg, _, _, trace_of_phases hb e1 e2 s1 s2⟩

/-- the same, without the intermediate graphs -/
theorem canonicalize_molecule_total {env : DepEnv} (hs : env.SetLawful) (hb : BlissLawful env) {m : Graph}
    (hm : m.WF) (hne : m.nodeList ≠ []) (hc : Partition.Carries m "invariant_code")
    (fuel : Nat) (hf : fuel ≥ m.nodeList.length + 1) :
    ∃ r, Tucan.canonicalization.canonicalize_molecule env fuel m = .ok r ∧ r.WF ∧
      r.nodeList.Perm (range m.numberOfNodes) := by
  obtain ⟨pg, rg, r, t⟩ := canonicalize_molecule_ok hs hb hm hne hc fuel hf
  exact ⟨r, t.result, t.wf, t.nodes⟩

/-! ## colour-isomorphic graphs have the same canonical form -/

section agree
variable {env : DepEnv} {m₁ m₂ : Graph} {π : Int → Int}

theorem mem_nbrs_iso_iff {key : String} (h₁ : m₁.WF) (hiso : IsIsoOn key π m₁ m₂) {a b : Int}
    (ha : a ∈ m₁.nodeList) (hb : b ∈ m₁.nodeList) : π b ∈ m₂.nbrs (π a) ↔ b ∈ m₁.nbrs a := by
  rw [(hiso.nbrs a ha).mem_iff, List.mem_map]
  constructor
  · rintro ⟨y, hy, e⟩
    rw [← hiso.inj y (h₁.nbr_mem a y hy) b hb e]; exact hy
  · intro h; exact ⟨b, h, rfl⟩

/-- a `partition`-preserving isomorphism of networkx graphs induces a colour-preserving isomorphism of
the coloured igraphs handed to bliss -/
theorem colourIso_of_isIsoOn (h₁ : m₁.WF) (h₂ : m₂.WF) (hiso : IsIsoOn "partition" π m₁ m₂) :
    ∃ σ, IGraph.ColourIso σ (IGraph.fromNetworkx m₁) (blissColours m₁)
      (IGraph.fromNetworkx m₂) (blissColours m₂) := by
  refine ⟨fun i => m₂.nodeList.idxOf (π ((m₁.nodeList[i]?).getD 0)), ?_⟩
  have hσ : ∀ i (hi : i < m₁.nodeList.length),
      m₂.nodeList.idxOf (π ((m₁.nodeList[i]?).getD 0)) = m₂.nodeList.idxOf (π m₁.nodeList[i]) := by
    intro i hi; rw [List.getElem?_eq_getElem hi, Option.getD_some]
  have hmem : ∀ i (hi : i < m₁.nodeList.length), m₁.nodeList[i] ∈ m₁.nodeList := fun i hi => List.getElem_mem hi
  have hidx : ∀ i (hi : i < m₁.nodeList.length), m₁.nodeList.idxOf m₁.nodeList[i] = i :=
    fun i hi => h₁.nodup_nodeList.idxOf_getElem i hi
  constructor
  · simp only [IGraph.fromNetworkx_names]; rw [hiso.nodes.length_eq, List.length_map]
  · intro i hi
    simp only [IGraph.fromNetworkx_names] at hi ⊢
    rw [hσ i hi]
    exact List.idxOf_lt_length_of_mem (hiso.mem_nodeList (hmem i hi))
  · intro i hi j hj e
    simp only [IGraph.fromNetworkx_names] at hi hj
    simp only [hσ i hi, hσ j hj] at e
    have e' := (List.idxOf_inj (hiso.mem_nodeList (hmem i hi))).1 e
    have e'' := hiso.inj _ (hmem i hi) _ (hmem j hj) e'
    exact (h₁.nodup_nodeList.getElem_inj_iff).1 e''
  · intro i hi
    simp only [IGraph.fromNetworkx_names] at hi
    simp only [hσ i hi]
    unfold blissColours
    rw [IGraph.vsAttr_idxOf h₂ "partition" (hiso.mem_nodeList (hmem i hi)),
      IGraph.vsAttr_getElem? h₁ "partition" (List.getElem?_eq_getElem hi), hiso.attr _ (hmem i hi)]
  · intro i hi j hj
    simp only [IGraph.fromNetworkx_names] at hi hj
    simp only [hσ i hi, hσ j hj]
    rw [IGraph.adj_fromNetworkx h₂]
    conv_rhs => rw [← hidx i hi, ← hidx j hj]
    rw [IGraph.adj_fromNetworkx h₁]
    exact mem_nbrs_iso_iff h₁ hiso (hmem i hi) (hmem j hj)

/-- **Canonical forms agree**: if `m₂` is `m₁` renumbered / reordered by a `partition`-preserving
isomorphism, then the nodes `a` of `m₁` and `b` of `m₂` found at the same canonical position `k` have the same
`partition` value, and the nodes at positions `k`, `l` are bonded in `m₂` iff they are in `m₁`. -/
theorem canonNames_agree (hb : BlissLawful env) (h₁ : m₁.WF) (h₂ : m₂.WF) (hiso : IsIsoOn "partition" π m₁ m₂)
    {k : Nat} {a b : Int} (ha : (canonNames env m₁)[k]? = some a) (hb' : (canonNames env m₂)[k]? = some b) :
    Partition.attrV m₂ "partition" b = Partition.attrV m₁ "partition" a ∧
    ∀ {l : Nat} {a' b' : Int}, (canonNames env m₁)[l]? = some a' → (canonNames env m₂)[l]? = some b' →
      (b' ∈ m₂.nbrs b ↔ a' ∈ m₁.nbrs a) := by
  obtain ⟨hcol, hadj⟩ := hb.canonForm_agree (valid_bliss h₁) (valid_bliss h₂)
    (colourIso_of_isIsoOn h₁ h₂ hiso) ha hb'
  have ham := (canonMap_of_getElem? hb h₁ ha).1
  have hbm := (canonMap_of_getElem? hb h₂ hb').1
  refine ⟨?_, ?_⟩
  · unfold blissColours at hcol
    simp only [IGraph.fromNetworkx_names] at hcol
    rw [IGraph.vsAttr_idxOf h₂ "partition" hbm, IGraph.vsAttr_idxOf h₁ "partition" ham] at hcol
    exact Option.some.inj hcol
  · intro l a' b' ha' hb''
    have := hadj ha' hb''
    simp only [IGraph.fromNetworkx_names] at this
    rwa [IGraph.adj_fromNetworkx h₂, IGraph.adj_fromNetworkx h₁] at this

end agree

end Contracts.Canonicalize
