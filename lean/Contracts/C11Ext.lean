/-
Contracts.C11Ext — closes three gaps of the independent audit (lean/AUDIT.md §0, findings 5 and 10).

 1. C11, "renumbering atoms within an element block (with tuples and attributes renamed accordingly)":
    `Renumber a b ρ` on syntax trees, `Spelling` (the closure: finite chains of `Respell` and `Renumber` steps),
    `MolIso` (isomorphism of denoted molecules), `spelling_denote`, `C11_renumber_graph` (the parsed graphs are
    isomorphic with every attribute carried), `C11_renumber` (same string, `.ok`), `C11_renumber_text`.
 2. C11, the domain: `C11_domain` (an accepted string normalises to a string iff it has an atom; accepted strings
    without atoms — `/` and `//` — raise `ValueError`), `norm_slash`, `C11_norm_ok` / `C11_norm_text_ok`.
 3. C13 (b) in the words of the property: `C13_attrs` (atoms of one class have the same element symbol, atomic
    number, isotope mass and radical state), `C13_attrs_parsed`.
-/
import Contracts.Final
import Contracts.RoundTrip
import Contracts.Pipeline
import Contracts.Parser
import Contracts.Canonicalize
set_option autoImplicit false
set_option linter.unusedSimpArgs false
set_option linter.unusedVariables false

open Py Py.Graph Contracts

namespace Contracts.C11Ext
open Contracts.Partition (Carries)
open Contracts.Canonicalize (identityKeys CodeDetermines ClassesOK)
open Contracts.FinalLabels (fuelBound)
open Contracts.Pipeline (tucan C01_tucan)
open Contracts.Parser (Ast treeOf denote Represents AbstractMol Atom periodicTable atomicNumber
  sortedSyms expand assoc num Key TPE attrNames)
open Contracts.RoundTrip (V4 graphFromTucan render Respell)
open Contracts.Final (IdOK norm)

/-! ## 1. isomorphism of denoted molecules -/

/-- `mb` is `ma` with the atoms renumbered by `σ` (0-based positions): `σ` permutes the positions, the atom at
position `σ i` of `mb` is the atom at position `i` of `ma` (symbol, atomic number, mass, rad), and `σ i`, `σ j`
are bonded in `mb` iff `i`, `j` are bonded in `ma`. -/
structure MolIso (σ : Nat → Nat) (ma mb : AbstractMol) : Prop where
  len : mb.atoms.length = ma.atoms.length
  lt : ∀ i, i < ma.atoms.length → σ i < ma.atoms.length
  inj : ∀ i, i < ma.atoms.length → ∀ j, j < ma.atoms.length → σ i = σ j → i = j
  atoms : ∀ i, i < ma.atoms.length → mb.atoms[σ i]? = ma.atoms[i]?
  bonds : ∀ i, i < ma.atoms.length → ∀ j, j < ma.atoms.length →
    (mb.Bonded ((σ i : Nat) : Int) ((σ j : Nat) : Int) ↔ ma.Bonded (i : Int) (j : Int))

theorem MolIso.refl (m : AbstractMol) : MolIso id m m :=
  ⟨rfl, fun _ h => h, fun _ _ _ _ e => e, fun _ _ => rfl, fun _ _ _ _ => Iff.rfl⟩

theorem MolIso.of_eq {ma mb : AbstractMol} (hat : ma.atoms = mb.atoms)
    (hbo : ∀ i j : Int, ma.Bonded i j ↔ mb.Bonded i j) : MolIso id ma mb :=
  ⟨by rw [hat], fun _ h => h, fun _ _ _ _ e => e, fun _ _ => by rw [hat]; rfl, fun i _ j _ => (hbo i j).symm⟩

theorem MolIso.trans {σ τ : Nat → Nat} {ma mb mc : AbstractMol} (r₁ : MolIso σ ma mb) (r₂ : MolIso τ mb mc) :
    MolIso (τ ∘ σ) ma mc where
  len := r₂.len.trans r₁.len
  lt := fun i hi => by
    have := r₂.lt (σ i) (by rw [r₁.len]; exact r₁.lt i hi)
    rw [r₁.len] at this; exact this
  inj := fun i hi j hj e =>
    r₁.inj i hi j hj (r₂.inj _ (by rw [r₁.len]; exact r₁.lt i hi) _ (by rw [r₁.len]; exact r₁.lt j hj) e)
  atoms := fun i hi => by
    rw [Function.comp, r₂.atoms _ (by rw [r₁.len]; exact r₁.lt i hi), r₁.atoms i hi]
  bonds := fun i hi j hj => by
    rw [Function.comp, Function.comp,
      r₂.bonds _ (by rw [r₁.len]; exact r₁.lt i hi) _ (by rw [r₁.len]; exact r₁.lt j hj), r₁.bonds i hi j hj]

/-- the renaming of graph labels induced by a renaming of positions -/
def liftInt (σ : Nat → Nat) (x : Int) : Int := ((σ x.toNat : Nat) : Int)

theorem liftInt_nat (σ : Nat → Nat) (i : Nat) : liftInt σ (i : Int) = ((σ i : Nat) : Int) := by
  simp [liftInt]

theorem mem_range_nat {n : Nat} {x : Int} (h : x ∈ range (n : Int)) : ∃ i : Nat, x = (i : Int) ∧ i < n := by
  rw [Contracts.Parser.mem_range] at h
  obtain ⟨i, rfl⟩ := Int.eq_ofNat_of_zero_le h.1
  exact ⟨i, rfl, by exact_mod_cast h.2⟩

theorem nat_mem_range {n i : Nat} (h : i < n) : (i : Int) ∈ range (n : Int) := by
  rw [Contracts.Parser.mem_range]; omega

theorem nodup_range (n : Nat) : (range (n : Int)).Nodup := by
  unfold range
  refine List.Nodup.map ?_ List.nodup_range
  intro a b e
  exact Int.ofNat.inj e

/-- a permutation of `0..n-1` permutes `range n` -/
theorem range_perm_map {n : Nat} {σ : Nat → Nat} (hlt : ∀ i, i < n → σ i < n)
    (hinj : ∀ i, i < n → ∀ j, j < n → σ i = σ j → i = j) :
    (range (n : Int)).Perm ((range (n : Int)).map (liftInt σ)) := by
  have hnd : ((range (n : Int)).map (liftInt σ)).Nodup := by
    refine List.Nodup.map_on ?_ (nodup_range n)
    intro x hx y hy e
    obtain ⟨i, rfl, hi⟩ := mem_range_nat hx
    obtain ⟨j, rfl, hj⟩ := mem_range_nat hy
    rw [liftInt_nat, liftInt_nat] at e
    rw [hinj i hi j hj (by exact_mod_cast e)]
  have hsub : (range (n : Int)).map (liftInt σ) ⊆ range (n : Int) := by
    intro y hy
    obtain ⟨x, hx, rfl⟩ := List.mem_map.1 hy
    obtain ⟨i, rfl, hi⟩ := mem_range_nat hx
    rw [liftInt_nat]
    exact nat_mem_range (hlt i hi)
  exact ((hnd.subperm hsub).perm_of_length_le (by simp)).symm

/-- **graphs that represent isomorphic molecules are isomorphic, with every node attribute carried** -/
theorem isIsoOn_of_molIso {σ : Nat → Nat} {ma mb : AbstractMol} (r : MolIso σ ma mb) {g h : Graph}
    (rg : Represents g ma) (rh : Represents h mb) (k : String) : IsIsoOn k (liftInt σ) g h := by
  have hperm := range_perm_map r.lt r.inj
  have hinj : ∀ a ∈ g.nodeList, ∀ b ∈ g.nodeList, liftInt σ a = liftInt σ b → a = b := by
    intro a ha b hb e
    rw [rg.nodes] at ha hb
    obtain ⟨i, rfl, hi⟩ := mem_range_nat ha
    obtain ⟨j, rfl, hj⟩ := mem_range_nat hb
    rw [liftInt_nat, liftInt_nat] at e
    rw [r.inj i hi j hj (by exact_mod_cast e)]
  have hnodes : h.nodeList.Perm (g.nodeList.map (liftInt σ)) := by
    rw [rh.nodes, rg.nodes, r.len]; exact hperm
  have hbond : ∀ a ∈ g.nodeList, ∀ b ∈ g.nodeList,
      (liftInt σ b ∈ h.nbrs (liftInt σ a) ↔ b ∈ g.nbrs a) := by
    intro a ha b hb
    rw [rg.nodes] at ha hb
    obtain ⟨i, rfl, hi⟩ := mem_range_nat ha
    obtain ⟨j, rfl, hj⟩ := mem_range_nat hb
    rw [liftInt_nat, liftInt_nat, rh.bonds, rg.bonds, r.bonds i hi j hj]
  refine ⟨hinj, hnodes, ?_, ?_⟩
  · intro x hx
    have hx' := hx
    rw [rg.nodes] at hx'
    obtain ⟨i, rfl, hi⟩ := mem_range_nat hx'
    rw [liftInt_nat]
    have hσ : σ i < mb.atoms.length := by rw [r.len]; exact r.lt i hi
    have hat : mb.atoms[σ i] = ma.atoms[i] := by
      have := r.atoms i hi
      rw [List.getElem?_eq_getElem hσ, List.getElem?_eq_getElem hi] at this
      exact Option.some.inj this
    by_cases hk : k ∈ attrNames
    · obtain ⟨a1, a2, a3, a4, a5, a6⟩ := rg.attrs i hi
      obtain ⟨b1, b2, b3, b4, b5, b6⟩ := rh.attrs (σ i) hσ
      simp only [attrNames, List.mem_cons, List.not_mem_nil, or_false] at hk
      rcases hk with rfl | rfl | rfl | rfl | rfl | rfl
      · rw [a1, b1, hat]
      · rw [a2, b2, hat]
      · rw [a3, b3]
      · rw [a4, b4, hat]
      · rw [a5, b5, hat]
      · rw [a6, b6, hat]
    · have h1 : g.attr (i : Int) k = none := by
        by_contra hne; exact hk (rg.noOther _ k hne)
      have h2 : h.attr ((σ i : Nat) : Int) k = none := by
        by_contra hne; exact hk (rh.noOther _ k hne)
      rw [h1, h2]
  · intro x hx
    have hndm : ((g.nbrs x).map (liftInt σ)).Nodup :=
      List.Nodup.map_on (fun a ha b hb e => hinj a (rg.wf.nbr_mem x a ha) b (rg.wf.nbr_mem x b hb) e)
        (rg.wf.nodup_nbrs x)
    rw [List.perm_ext_iff_of_nodup (rh.wf.nodup_nbrs _) hndm]
    intro y
    constructor
    · intro hy
      have hyn : y ∈ h.nodeList := rh.wf.nbr_mem _ _ hy
      obtain ⟨b, hb, rfl⟩ := List.mem_map.1 (hnodes.mem_iff.1 hyn)
      exact List.mem_map.2 ⟨b, (hbond x hx b hb).1 hy, rfl⟩
    · intro hy
      obtain ⟨b, hb, rfl⟩ := List.mem_map.1 hy
      exact (hbond x hx b (rg.wf.nbr_mem x b hb)).2 hb

/-! ## 2. renumbering atoms within an element block -/

/-- every written index is at least 1 (the grammar's `node_index : greater_than_zero`) -/
def IndexPos (a : Ast) : Prop :=
  (∀ p ∈ a.bonds1, 1 ≤ p.1 ∧ 1 ≤ p.2) ∧ ∀ s ∈ a.settings, 1 ≤ s.1.1

theorem indexPos_of_wf {a : Ast} (h : a.Wf) : IndexPos a :=
  ⟨Contracts.Parser.bonds1_pos a h, Contracts.Parser.settings_pos a h⟩

/-- **`b` is `a` with the atoms renumbered by `ρ` within the element blocks.** The same sum formula (hence the same
`n` atoms; the parser numbers them `1..n` by increasing atomic number, equal elements consecutively:
`sortedSyms a`); `ρ` maps `1..n` into itself one-to-one (a permutation of `1..n`) and the atom numbered `ρ i` has
the element of the atom numbered `i` (`ρ` maps every element block to itself); the tuples of `b` are the tuples of
`a`, in the order written, with both indices renamed by `ρ`; the attribute settings of `b` are those of `a`, in the
order written, with the atom index renamed by `ρ`. Indices are compared by value (`num`); nothing is required of
`ρ` outside `1..n`. -/
structure Renumber (a b : Ast) (ρ : Nat → Nat) : Prop where
  formula : a.formula = b.formula
  range : ∀ i, 1 ≤ i → i ≤ (sortedSyms a).length → 1 ≤ ρ i ∧ ρ i ≤ (sortedSyms a).length
  inj : ∀ i, 1 ≤ i → i ≤ (sortedSyms a).length → ∀ j, 1 ≤ j → j ≤ (sortedSyms a).length → ρ i = ρ j → i = j
  block : ∀ i, 1 ≤ i → i ≤ (sortedSyms a).length → (sortedSyms a)[ρ i - 1]? = (sortedSyms a)[i - 1]?
  tuples : b.bonds1 = a.bonds1.map (fun p => (ρ p.1, ρ p.2))
  settings : b.settings = a.settings.map (fun s => ((ρ s.1.1, s.1.2), s.2))

/-- the atoms of the denoted molecule -/
def atomsOf (a : Ast) : List Atom :=
  (sortedSyms a).zipIdx.map (fun si =>
    { symbol := si.1, z := atomicNumber si.1,
      mass := (assoc a.settings (si.2 + 1, Key.mass)).map Int.ofNat,
      rad := (assoc a.settings (si.2 + 1, Key.rad)).map Int.ofNat })

theorem length_atomsOf (a : Ast) : (atomsOf a).length = (sortedSyms a).length := by simp [atomsOf]

theorem atomsOf_getElem? (a : Ast) (i : Nat) : (atomsOf a)[i]? = ((sortedSyms a)[i]?).map (fun s =>
    ({ symbol := s, z := atomicNumber s,
       mass := (assoc a.settings (i + 1, Key.mass)).map Int.ofNat,
       rad := (assoc a.settings (i + 1, Key.rad)).map Int.ofNat } : Atom)) := by
  unfold atomsOf
  rw [List.getElem?_map, List.getElem?_zipIdx]
  cases (sortedSyms a)[i]? <;> simp

theorem denote_ok_iff (a : Ast) (m : AbstractMol) : denote a = .ok m ↔
    ¬ (a.BadIndex ∨ a.SelfBond ∨ a.DupAttr) ∧
      m = { atoms := atomsOf a, bonds := a.bonds1.map (fun b => (b.1 - 1, b.2 - 1)) } := by
  unfold denote atomsOf
  constructor
  · intro h
    split at h
    · cases h
    · rename_i hg; exact ⟨hg, (Except.ok.inj h).symm⟩
  · rintro ⟨hg, rfl⟩
    rw [if_neg hg]

/-- assoc through a renaming of the atom index that is one-to-one on the indices that occur -/
theorem assoc_rename (ρ : Nat → Nat) (l : List ((Nat × Key) × Nat)) (i : Nat) (k : Key)
    (hinj : ∀ s ∈ l, ρ s.1.1 = ρ i → s.1.1 = i) :
    assoc (l.map (fun s => ((ρ s.1.1, s.1.2), s.2))) (ρ i, k) = assoc l (i, k) := by
  induction l with
  | nil => rfl
  | cons p l ih =>
    have ih' := ih (fun s hs => hinj s (List.mem_cons_of_mem _ hs))
    unfold assoc at ih' ⊢
    simp only [List.map_cons, List.find?_cons]
    by_cases hp : p.1 = (i, k)
    · have : (ρ p.1.1, p.1.2) = (ρ i, k) := by rw [hp]
      simp [hp, this]
    · have : (ρ p.1.1, p.1.2) ≠ (ρ i, k) := by
        intro e
        simp only [Prod.mk.injEq] at e
        apply hp
        have := hinj p List.mem_cons_self e.1
        exact Prod.ext this e.2
      simp only [hp, this, decide_false]
      exact ih'

/-- **renumbering within element blocks does not change the denoted molecule up to isomorphism** (and an accepted
tree stays accepted) -/
theorem renumber_denote {a b : Ast} {ρ : Nat → Nat} (r : Renumber a b ρ) (hp : IndexPos a) {ma : AbstractMol}
    (ea : denote a = .ok ma) :
    IndexPos b ∧ ∃ mb, denote b = .ok mb ∧ MolIso (fun i => ρ (i + 1) - 1) ma mb := by
  obtain ⟨hgood, rfl⟩ := (denote_ok_iff a ma).1 ea
  have hsy : sortedSyms b = sortedSyms a := by unfold sortedSyms; rw [r.formula]
  -- every index of `a` is in `1..n`
  have hbr : ∀ p ∈ a.bonds1, (1 ≤ p.1 ∧ p.1 ≤ (sortedSyms a).length) ∧ (1 ≤ p.2 ∧ p.2 ≤ (sortedSyms a).length) := by
    intro p hpm
    have h1 := hp.1 p hpm
    have h2 : ¬ ((sortedSyms a).length < p.1 ∨ (sortedSyms a).length < p.2) :=
      fun hc => hgood (Or.inl (Or.inl ⟨p, hpm, hc⟩))
    omega
  have hsr : ∀ s ∈ a.settings, 1 ≤ s.1.1 ∧ s.1.1 ≤ (sortedSyms a).length := by
    intro s hs
    have h1 := hp.2 s hs
    have h2 : ¬ ((sortedSyms a).length < s.1.1) := fun hc => hgood (Or.inl (Or.inr ⟨s, hs, hc⟩))
    omega
  have hposb : IndexPos b := by
    constructor
    · intro q hq
      rw [r.tuples] at hq
      obtain ⟨p, hpm, rfl⟩ := List.mem_map.1 hq
      obtain ⟨⟨h1, h2⟩, h3, h4⟩ := hbr p hpm
      exact ⟨(r.range _ h1 h2).1, (r.range _ h3 h4).1⟩
    · intro t ht
      rw [r.settings] at ht
      obtain ⟨s, hs, rfl⟩ := List.mem_map.1 ht
      obtain ⟨h1, h2⟩ := hsr s hs
      exact (r.range _ h1 h2).1
  have hgoodb : ¬ (b.BadIndex ∨ b.SelfBond ∨ b.DupAttr) := by
    rintro (hb | hs | hd)
    · unfold Ast.BadIndex at hb
      rw [hsy, r.tuples, r.settings] at hb
      rcases hb with ⟨q, hq, hlt⟩ | ⟨t, ht, hlt⟩
      · obtain ⟨p, hpm, rfl⟩ := List.mem_map.1 hq
        obtain ⟨⟨h1, h2⟩, h3, h4⟩ := hbr p hpm
        have := (r.range _ h1 h2).2
        have := (r.range _ h3 h4).2
        simp only at hlt
        omega
      · obtain ⟨s, hs, rfl⟩ := List.mem_map.1 ht
        obtain ⟨h1, h2⟩ := hsr s hs
        have := (r.range _ h1 h2).2
        simp only at hlt
        omega
    · obtain ⟨q, hq, e⟩ := hs
      rw [r.tuples] at hq
      obtain ⟨p, hpm, rfl⟩ := List.mem_map.1 hq
      obtain ⟨⟨h1, h2⟩, h3, h4⟩ := hbr p hpm
      exact hgood (Or.inr (Or.inl ⟨p, hpm, r.inj _ h1 h2 _ h3 h4 e⟩))
    · apply hd
      have hnd : (a.settings.map Prod.fst).Nodup := by
        by_contra hc; exact hgood (Or.inr (Or.inr hc))
      rw [r.settings, List.map_map]
      have e : (Prod.fst ∘ fun s : (Nat × Key) × Nat => ((ρ s.1.1, s.1.2), s.2)) =
          (fun k : Nat × Key => (ρ k.1, k.2)) ∘ Prod.fst := rfl
      rw [e, ← List.map_map]
      refine List.Nodup.map_on ?_ hnd
      intro k hk k' hk' e'
      obtain ⟨s, hs, rfl⟩ := List.mem_map.1 hk
      obtain ⟨s', hs', rfl⟩ := List.mem_map.1 hk'
      obtain ⟨h1, h2⟩ := hsr s hs
      obtain ⟨h3, h4⟩ := hsr s' hs'
      simp only [Prod.mk.injEq] at e'
      exact Prod.ext (r.inj _ h1 h2 _ h3 h4 e'.1) e'.2
  refine ⟨hposb, _, (denote_ok_iff b _).2 ⟨hgoodb, rfl⟩, ?_⟩
  have hn : (atomsOf a).length = (sortedSyms a).length := length_atomsOf a
  have hσ : ∀ i, i < (sortedSyms a).length →
      1 ≤ ρ (i + 1) ∧ ρ (i + 1) ≤ (sortedSyms a).length := fun i hi => r.range (i + 1) (by omega) (by omega)
  refine ⟨?_, ?_, ?_, ?_, ?_⟩
  · show (atomsOf b).length = (atomsOf a).length
    rw [length_atomsOf, length_atomsOf, hsy]
  · intro i hi
    show ρ (i + 1) - 1 < (atomsOf a).length
    rw [hn] at hi ⊢
    have := hσ i hi
    omega
  · intro i hi j hj e
    rw [show ({ atoms := atomsOf a, bonds := a.bonds1.map (fun b => (b.1 - 1, b.2 - 1)) } : AbstractMol).atoms.length
      = (sortedSyms a).length from hn] at hi hj
    have h1 := hσ i hi
    have h2 := hσ j hj
    have := r.inj (i + 1) (by omega) (by omega) (j + 1) (by omega) (by omega) (by omega)
    omega
  · intro i hi
    show (atomsOf b)[ρ (i + 1) - 1]? = (atomsOf a)[i]?
    rw [show ({ atoms := atomsOf a, bonds := a.bonds1.map (fun b => (b.1 - 1, b.2 - 1)) } : AbstractMol).atoms.length
      = (sortedSyms a).length from hn] at hi
    have h1 := hσ i hi
    rw [atomsOf_getElem?, atomsOf_getElem?, hsy]
    have hb := r.block (i + 1) (by omega) (by omega)
    simp only [Nat.add_sub_cancel] at hb
    rw [hb, show ρ (i + 1) - 1 + 1 = ρ (i + 1) by omega, r.settings]
    have hin : ∀ s ∈ a.settings, ρ s.1.1 = ρ (i + 1) → s.1.1 = i + 1 := by
      intro s hs e
      obtain ⟨h3, h4⟩ := hsr s hs
      exact r.inj _ h3 h4 _ (by omega) (by omega) e
    rw [assoc_rename ρ _ _ _ hin, assoc_rename ρ _ _ _ hin]
  · intro i hi j hj
    rw [show ({ atoms := atomsOf a, bonds := a.bonds1.map (fun b => (b.1 - 1, b.2 - 1)) } : AbstractMol).atoms.length
      = (sortedSyms a).length from hn] at hi hj
    have h1 := hσ i hi
    have h2 := hσ j hj
    show (AbstractMol.mk (atomsOf b) (b.bonds1.map (fun b => (b.1 - 1, b.2 - 1)))).Bonded _ _ ↔
      (AbstractMol.mk (atomsOf a) (a.bonds1.map (fun b => (b.1 - 1, b.2 - 1)))).Bonded _ _
    rw [Contracts.RoundTrip.bonded_iff_bonds1, Contracts.RoundTrip.bonded_iff_bonds1, r.tuples]
    have key : ∀ p ∈ a.bonds1, ∀ i' : Nat, i' < (sortedSyms a).length →
        ((((ρ p.1 - 1 : Nat) : Int) = ((ρ (i' + 1) - 1 : Nat) : Int) ↔ ((p.1 - 1 : Nat) : Int) = (i' : Int)) ∧
         (((ρ p.2 - 1 : Nat) : Int) = ((ρ (i' + 1) - 1 : Nat) : Int) ↔ ((p.2 - 1 : Nat) : Int) = (i' : Int))) := by
      intro p hpm i' hi'
      obtain ⟨⟨a1, a2⟩, a3, a4⟩ := hbr p hpm
      have b1 := r.range _ a1 a2
      have b2 := r.range _ a3 a4
      have b3 := hσ i' hi'
      constructor
      · constructor
        · intro e
          have : p.1 = i' + 1 := r.inj _ a1 a2 _ (by omega) (by omega) (by omega)
          omega
        · intro e
          have : p.1 = i' + 1 := by omega
          rw [this]
      · constructor
        · intro e
          have : p.2 = i' + 1 := r.inj _ a3 a4 _ (by omega) (by omega) (by omega)
          omega
        · intro e
          have : p.2 = i' + 1 := by omega
          rw [this]
    constructor
    · rintro ⟨p, q, hpq, e1, e2⟩
      rcases hpq with hpq | hpq
      · obtain ⟨p', hp', e⟩ := List.mem_map.1 hpq
        obtain ⟨rfl, rfl⟩ := Prod.mk.inj e
        exact ⟨p'.1, p'.2, Or.inl hp', ((key p' hp' i hi).1).1 e1, ((key p' hp' j hj).2).1 e2⟩
      · obtain ⟨p', hp', e⟩ := List.mem_map.1 hpq
        obtain ⟨rfl, rfl⟩ := Prod.mk.inj e
        exact ⟨p'.2, p'.1, Or.inr hp', ((key p' hp' i hi).2).1 e1, ((key p' hp' j hj).1).1 e2⟩
    · rintro ⟨p, q, hpq, e1, e2⟩
      rcases hpq with hpq | hpq
      · exact ⟨ρ p, ρ q, Or.inl (List.mem_map.2 ⟨(p, q), hpq, rfl⟩),
          ((key (p, q) hpq i hi).1).2 e1, ((key (p, q) hpq j hj).2).2 e2⟩
      · exact ⟨ρ p, ρ q, Or.inr (List.mem_map.2 ⟨(q, p), hpq, rfl⟩),
          ((key (q, p) hpq i hi).2).2 e1, ((key (q, p) hpq j hj).1).2 e2⟩

/-! ## 3. the generated closure: finite chains of `Respell` and `Renumber` steps -/

theorem respell_indexPos {a b : Ast} (r : Respell a b) (hp : IndexPos a) : IndexPos b := by
  constructor
  · intro p hpm
    rcases (r.bonds p.1 p.2).2 (Or.inl hpm) with h | h
    · exact hp.1 _ h
    · have := hp.1 _ h; exact ⟨this.2, this.1⟩
  · intro s hs
    exact hp.2 s (r.settings.mem_iff.2 hs)

/-- **`b` is a meaning-preserving respelling of `a`**: obtained from `a` by finitely many steps, each either a
`Respell` (tuples reordered / repeated / endpoints swapped, attribute blocks reordered / split / merged) or a
`Renumber` (atoms renumbered within the element blocks, tuples and attributes renamed accordingly). Intermediate
trees are arbitrary syntax trees. -/
inductive Spelling : Ast → Ast → Prop
  | refl (a : Ast) : Spelling a a
  | respell {a b c : Ast} : Spelling a b → Respell b c → Spelling a c
  | renumber {a b c : Ast} (ρ : Nat → Nat) : Spelling a b → Renumber b c ρ → Spelling a c

theorem Spelling.of_respell {a b : Ast} (r : Respell a b) : Spelling a b := .respell (.refl a) r
theorem Spelling.of_renumber {a b : Ast} {ρ : Nat → Nat} (r : Renumber a b ρ) : Spelling a b :=
  .renumber ρ (.refl a) r

theorem Spelling.trans {a b c : Ast} (s₁ : Spelling a b) (s₂ : Spelling b c) : Spelling a c := by
  induction s₂ with
  | refl => exact s₁
  | respell _ r ih => exact .respell ih r
  | renumber ρ _ r ih => exact .renumber ρ ih r

theorem Spelling.formula {a b : Ast} (s : Spelling a b) : a.formula = b.formula := by
  induction s with
  | refl => rfl
  | respell _ r ih => exact ih.trans r.formula
  | renumber ρ _ r ih => exact ih.trans r.formula

/-- **C11 (denotation) for the closure.** An accepted tree with indices ≥ 1 and any respelling of it denote
isomorphic molecules (in particular the respelling is accepted as well). -/
theorem spelling_denote {a b : Ast} (s : Spelling a b) (hp : IndexPos a) {ma : AbstractMol}
    (ea : denote a = .ok ma) :
    IndexPos b ∧ ∃ σ mb, denote b = .ok mb ∧ MolIso σ ma mb := by
  induction s with
  | refl => exact ⟨hp, id, ma, ea, MolIso.refl ma⟩
  | respell _ r ih =>
    obtain ⟨hpb, σ, mb, eb, iso⟩ := ih
    refine ⟨respell_indexPos r hpb, ?_⟩
    rcases Contracts.RoundTrip.C11_denote r with ⟨e1, _⟩ | ⟨m1, m2, e1, e2, hat, hbo⟩
    · rw [eb] at e1; cases e1
    · rw [eb] at e1
      obtain rfl := Except.ok.inj e1
      exact ⟨id ∘ σ, m2, e2, iso.trans (MolIso.of_eq hat hbo)⟩
  | renumber ρ _ r ih =>
    obtain ⟨hpb, σ, mb, eb, iso⟩ := ih
    obtain ⟨hpc, mc, ec, iso'⟩ := renumber_denote r hpb eb
    exact ⟨hpc, _, mc, ec, iso.trans iso'⟩

/-- the parser's result on an accepted well-formed tree -/
theorem parse_ok_inv (env : DepEnv) {a : Ast} (ha : a.Wf) {g : Graph}
    (pa : Tucan.parser.graph_from_tree env (treeOf a) = .ok g) :
    ∃ ma, denote a = .ok ma ∧ Represents g ma := by
  have ta := Contracts.Parser.graph_from_tree_ok env a ha
  cases ea : denote a with
  | error e => rw [ea] at ta; rw [pa] at ta; cases ta
  | ok ma =>
    rw [ea] at ta
    obtain ⟨g', hg, R⟩ := ta
    obtain rfl : g' = g := Except.ok.inj (hg.symm.trans pa)
    exact ⟨ma, rfl, R⟩

/-- **C11, renumbering included, graph level.** `a`, `b`: well-formed syntax trees, `b` a respelling of `a` in the
generated closure (`Spelling`), `a` accepted by the parser with result `ga`. Then the parser accepts `b` too
(any parser environment), and its result `gb` is `ga` under a one-to-one renaming `π` of the atoms that carries
**every** node attribute (in particular `invariant_code` and the identity attributes element symbol, atomic
number, mass, rad) and the adjacency. -/
theorem C11_renumber_graph (envp envq : DepEnv) {a b : Ast} (ha : a.Wf) (hb : b.Wf) (s : Spelling a b)
    {ga : Graph} (pa : Tucan.parser.graph_from_tree envp (treeOf a) = .ok ga) :
    ∃ gb π, Tucan.parser.graph_from_tree envq (treeOf b) = .ok gb ∧
      (∀ k, IsIsoOn k π ga gb) ∧ IsIsoOn "invariant_code" π ga gb ∧
      (∀ key ∈ identityKeys, ∀ n ∈ ga.nodeList, gb.attr (π n) key = ga.attr n key) ∧
      IdOK ga ∧ IdOK gb := by
  obtain ⟨ma, ea, rg⟩ := parse_ok_inv envp ha pa
  obtain ⟨_, σ, mb, eb, iso⟩ := spelling_denote s (indexPos_of_wf ha) ea
  have tb := Contracts.Parser.graph_from_tree_ok envq b hb
  rw [eb] at tb
  obtain ⟨gb, hgb, rh⟩ := tb
  have hall : ∀ k, IsIsoOn k (liftInt σ) ga gb := isIsoOn_of_molIso iso rg rh
  exact ⟨gb, liftInt σ, hgb, hall, hall _, fun key _ n hn => (hall key).attr n hn,
    Contracts.Final.parsed_idOK rg (Contracts.Final.denote_molWf ha ea),
    Contracts.Final.parsed_idOK rh (Contracts.Final.denote_molWf hb eb)⟩

theorem nodeList_ne_nil_of_formula {a : Ast} {ma : AbstractMol} (ea : denote a = .ok ma) {g : Graph}
    (R : Represents g ma) (hne : expand a.formula ≠ []) : g.nodeList ≠ [] := by
  intro h0
  have h1 := congrArg List.length h0
  rw [R.nodes, Contracts.RoundTrip.length_range, Contracts.Final.denote_atoms_length ea] at h1
  exact hne (List.eq_nil_of_length_eq_zero h1)

theorem nodeList_eq_nil_of_formula {a : Ast} {ma : AbstractMol} (ea : denote a = .ok ma) {g : Graph}
    (R : Represents g ma) (h0 : expand a.formula = []) : g.nodeList = [] := by
  rw [R.nodes, Contracts.Final.denote_atoms_length ea, h0]; rfl

/-- **C11, renumbering included, pipeline level: one common string.** `a`, `b` as in `C11_renumber_graph`, both
parsed (`ga`, `gb`; two parser environments), at least one atom. Then the pipeline returns normally on both graphs
and the two strings are the same (two lawful `set` orders, any sufficient fuels): the conclusion is existential
over `.ok` results, not an equality of `Except` values. -/
theorem C11_renumber {env₁ env₂ : DepEnv} (envp envq : DepEnv) (hs₁ : env₁.SetLawful) (hs₂ : env₂.SetLawful)
    (hb : BlissLawful env₁) (hcp : env₂.canonicalPermutation = env₁.canonicalPermutation)
    (hpv : env₂.permuteVertices = env₁.permuteVertices)
    {a b : Ast} (ha : a.Wf) (hb' : b.Wf) (s : Spelling a b) {ga gb : Graph}
    (pa : Tucan.parser.graph_from_tree envp (treeOf a) = .ok ga)
    (pb : Tucan.parser.graph_from_tree envq (treeOf b) = .ok gb)
    (hne : ga.nodeList ≠ [])
    (fuel fuel' : Nat) (hf : fuel ≥ fuelBound ga) (hf' : fuel' ≥ fuelBound gb) :
    ∃ t, tucan env₁ fuel ga = .ok t ∧ tucan env₂ fuel' gb = .ok t := by
  obtain ⟨gb', π, hgb, _, hiso, hcarry, oka, okb⟩ := C11_renumber_graph envp envq ha hb' s pa
  obtain rfl : gb' = gb := Except.ok.inj (hgb.symm.trans pb)
  exact C01_tucan hs₁ hs₂ hb hcp hpv oka.wf okb.wf hne oka.carries_code oka.carries_Z hiso hcarry
    oka.codeDetermines fuel fuel' hf hf'

/-- **C11, renumbering included, text level: `norm s' = norm s = .ok t`.** `render a` an accepted TUCAN string
(a sentence of the grammar that the listener does not reject) with at least one atom, `render b` a grammatical
respelling of it in the generated closure. Then for all sufficient fuels both normal forms are the same string. -/
theorem C11_renumber_text (antlr : Str → Option PTree) (hV4 : V4 antlr) {env₁ env₂ : DepEnv} (envp envq : DepEnv)
    (hs₁ : env₁.SetLawful) (hs₂ : env₂.SetLawful)
    (hb : BlissLawful env₁) (hcp : env₂.canonicalPermutation = env₁.canonicalPermutation)
    (hpv : env₂.permuteVertices = env₁.permuteVertices)
    {a b : Ast} (ha : a.Wf) (hb' : b.Wf) (gra : Layout.Grammar.tucan (render a))
    (grb : Layout.Grammar.tucan (render b)) (s : Spelling a b)
    (hacc : ¬ (a.BadIndex ∨ a.SelfBond ∨ a.DupAttr)) (hne : expand a.formula ≠ []) :
    ∃ N, ∀ fuel ≥ N, ∀ fuel' ≥ N, ∃ t,
      norm antlr envp env₁ fuel (render a) = .ok t ∧ norm antlr envq env₂ fuel' (render b) = .ok t := by
  obtain ⟨ga, ma, ea, pa, rg⟩ := Contracts.Parser.graph_from_tree_accepts envp a ha hacc
  obtain ⟨gb, π, pb, _⟩ := C11_renumber_graph envp envq ha hb' s pa
  refine ⟨max (fuelBound ga) (fuelBound gb), ?_⟩
  intro fuel hfu fuel' hfu'
  obtain ⟨t, e1, e2⟩ := C11_renumber envp envq hs₁ hs₂ hb hcp hpv ha hb' s pa pb
    (nodeList_ne_nil_of_formula ea rg hne) fuel fuel'
    (le_trans (le_max_left _ _) hfu) (le_trans (le_max_right _ _) hfu')
  refine ⟨t, ?_, ?_⟩
  · unfold Contracts.Final.norm graphFromTucan; rw [hV4 a ha gra]; simp only [pa, ok_bind]; exact e1
  · unfold Contracts.Final.norm graphFromTucan; rw [hV4 b hb' grb]; simp only [pb, ok_bind]; exact e2

/-! ## 4. the domain of `norm`: which accepted strings have a normal form -/

/-- **the `.ok` form of `Final.C11_norm`** (whose second conjunct is an equality of `Except` values): for a
molecule with at least one atom both runs return the same string -/
theorem C11_norm_ok {env₁ env₂ : DepEnv} (envp envq : DepEnv) (hs₁ : env₁.SetLawful) (hs₂ : env₂.SetLawful)
    (hb : BlissLawful env₁) (hcp : env₂.canonicalPermutation = env₁.canonicalPermutation)
    (hpv : env₂.permuteVertices = env₁.permuteVertices)
    {a b : Ast} (ha : a.Wf) (hb' : b.Wf) (r : Respell a b) {ga gb : Graph}
    (pa : Tucan.parser.graph_from_tree envp (treeOf a) = .ok ga)
    (pb : Tucan.parser.graph_from_tree envq (treeOf b) = .ok gb)
    (hne : ga.nodeList ≠ [])
    (fuel fuel' : Nat) (hf : fuel ≥ fuelBound ga) (hf' : fuel' ≥ fuelBound gb) :
    ∃ t, tucan env₁ fuel ga = .ok t ∧ tucan env₂ fuel' gb = .ok t :=
  C11_renumber envp envq hs₁ hs₂ hb hcp hpv ha hb' (Spelling.of_respell r) pa pb hne fuel fuel' hf hf'

/-- **the `.ok` form of `Final.C11_norm_text`** (whose first conjunct is an equality of `Except` values that two
exceptions satisfy): an accepted string with at least one atom and a `Respell` of it normalise to one string -/
theorem C11_norm_text_ok (antlr : Str → Option PTree) (hV4 : V4 antlr) {env₁ env₂ : DepEnv} (envp envq : DepEnv)
    (hs₁ : env₁.SetLawful) (hs₂ : env₂.SetLawful)
    (hb : BlissLawful env₁) (hcp : env₂.canonicalPermutation = env₁.canonicalPermutation)
    (hpv : env₂.permuteVertices = env₁.permuteVertices)
    {a b : Ast} (ha : a.Wf) (hb' : b.Wf) (gra : Layout.Grammar.tucan (render a))
    (grb : Layout.Grammar.tucan (render b)) (r : Respell a b)
    (hacc : ¬ (a.BadIndex ∨ a.SelfBond ∨ a.DupAttr)) (hne : expand a.formula ≠ []) :
    ∃ N, ∀ fuel ≥ N, ∀ fuel' ≥ N, ∃ t,
      norm antlr envp env₁ fuel (render a) = .ok t ∧ norm antlr envq env₂ fuel' (render b) = .ok t :=
  C11_renumber_text antlr hV4 envp envq hs₁ hs₂ hb hcp hpv ha hb' gra grb (Spelling.of_respell r) hacc hne

/-- a well-formed formula has an atom iff it mentions an element -/
theorem expand_ne_nil_iff {a : Ast} (ha : a.Wf) : expand a.formula ≠ [] ↔ a.formula ≠ [] := by
  constructor
  · intro h h0; rw [h0] at h; exact h rfl
  · intro h h0
    cases hf : a.formula with
    | nil => exact h hf
    | cons p f =>
      rw [hf] at h0
      simp only [expand, List.flatMap_cons, List.append_eq_nil_iff, List.replicate_eq_nil_iff] at h0
      have hp : p ∈ a.formula := by rw [hf]; exact List.mem_cons_self
      cases hc : p.2 with
      | none =>
        have := h0.1
        rw [hc] at this
        simp [Contracts.Parser.countOf] at this
      | some ds =>
        have h2 := (ha.counts p hp ds hc).2
        have := h0.1
        rw [hc] at this
        simp only [Contracts.Parser.countOf] at this
        unfold num at this
        omega

/-- an accepted tree without atoms has an empty formula, no tuples and no attribute settings (among the sentences of
the grammar this leaves `/` and `//`: a `node_attribute` has at least one `node_property`) -/
theorem accepted_no_atoms {a : Ast} (ha : a.Wf) (hacc : ¬ (a.BadIndex ∨ a.SelfBond ∨ a.DupAttr))
    (h0 : expand a.formula = []) : a.formula = [] ∧ a.tuples = [] ∧ a.settings = [] := by
  have hlen : (sortedSyms a).length = 0 := by rw [Contracts.Parser.sorted_length, h0]; rfl
  have hp := indexPos_of_wf ha
  refine ⟨?_, ?_, ?_⟩
  · by_contra hne; exact (expand_ne_nil_iff ha).2 hne h0
  · cases ht : a.tuples with
    | nil => rfl
    | cons t ts =>
      exfalso
      have hm : (num t.1, num t.2) ∈ a.bonds1 := by
        unfold Ast.bonds1; rw [ht]; exact List.mem_cons_self
      have := (hp.1 _ hm).1
      exact hacc (Or.inl (Or.inl ⟨_, hm, Or.inl (by rw [hlen]; exact this)⟩))
  · cases hs : a.settings with
    | nil => rfl
    | cons s ss =>
      exfalso
      have hm : s ∈ a.settings := by rw [hs]; exact List.mem_cons_self
      have := hp.2 _ hm
      exact hacc (Or.inl (Or.inr ⟨_, hm, by rw [hlen]; exact this⟩))

/-- **C11, the exact domain.** `render a`: a sentence of the grammar (`a.Wf`, assumption V4 for the recogniser).
For all sufficient fuels
* if the listener rejects it (bad index, self-bond, attribute set twice): `norm` raises `TucanParserException`;
* if it is accepted: `norm` returns a string **iff** the formula has at least one atom; and
* if it is accepted and has no atom (the strings `/` and `//`): `norm` raises `ValueError` (`max()` of an empty
  sequence in `get_number_of_partitions`).
So "every accepted TUCAN string has a canonical string" is false for the code exactly on the accepted strings
without atoms; every other accepted string is covered, with an `.ok` conclusion, by `C11_renumber_text`. -/
theorem C11_domain (antlr : Str → Option PTree) (hV4 : V4 antlr) {env : DepEnv} (envp : DepEnv)
    (hs : env.SetLawful) (hb : BlissLawful env) {a : Ast} (ha : a.Wf) (gr : Layout.Grammar.tucan (render a)) :
    ∃ N, ∀ fuel ≥ N,
      ((a.BadIndex ∨ a.SelfBond ∨ a.DupAttr) → norm antlr envp env fuel (render a) = .error TPE) ∧
      (¬ (a.BadIndex ∨ a.SelfBond ∨ a.DupAttr) →
        ((∃ t, norm antlr envp env fuel (render a) = .ok t) ↔ expand a.formula ≠ []) ∧
        (expand a.formula = [] → norm antlr envp env fuel (render a) = .error .value)) := by
  have na : ∀ fuel, norm antlr envp env fuel (render a) =
      (Tucan.parser.graph_from_tree envp (treeOf a) >>= tucan env fuel) := by
    intro fuel; unfold Contracts.Final.norm graphFromTucan; rw [hV4 a ha gr]
  by_cases hacc : a.BadIndex ∨ a.SelfBond ∨ a.DupAttr
  · refine ⟨0, fun fuel _ => ⟨fun _ => ?_, fun h => absurd hacc h⟩⟩
    rw [na, Contracts.Parser.graph_from_tree_rejects envp a ha hacc]; rfl
  · obtain ⟨g, ma, ea, pa, R⟩ := Contracts.Parser.graph_from_tree_accepts envp a ha hacc
    refine ⟨fuelBound g, fun fuel hfu => ⟨fun h => absurd h hacc, fun _ => ?_⟩⟩
    have ng : norm antlr envp env fuel (render a) = tucan env fuel g := by rw [na, pa]; rfl
    by_cases h0 : expand a.formula = []
    · have he : tucan env fuel g = .error .value :=
        Contracts.Final.tucan_of_empty env hs R.wf (nodeList_eq_nil_of_formula ea R h0) fuel
          (le_trans (by unfold fuelBound; omega) hfu)
      rw [ng, he]
      refine ⟨⟨?_, fun h => absurd h0 h⟩, fun _ => rfl⟩
      rintro ⟨t, ht⟩; cases ht
    · obtain ⟨_, hne, hc, hz, _⟩ := Contracts.Final.parsed_ok ha ea R (by
        intro hm
        have := Contracts.Final.denote_atoms_length ea
        rw [hm] at this
        exact h0 (List.eq_nil_of_length_eq_zero this.symm))
      obtain ⟨t, ht⟩ := Contracts.Pipeline.C15_tucan_total hs hb R.wf hne hc hz fuel hfu
      rw [ng]
      exact ⟨⟨fun _ => h0, fun _ => ⟨t, ht⟩⟩, fun h => absurd h h0⟩

/-! ### the two accepted strings without atoms, concretely -/

/-- the syntax tree of `/` -/
def slashAst : Ast := { formula := [], tuples := [], attrs := none }
/-- the syntax tree of `//` -/
def slash2Ast : Ast := { formula := [], tuples := [], attrs := some [] }

theorem render_slashAst : render slashAst = py!"/" := rfl
theorem render_slash2Ast : render slash2Ast = py!"//" := rfl

theorem slashAst_wf : slashAst.Wf :=
  ⟨fun p hp => by simp [slashAst] at hp, fun p hp => by simp [slashAst] at hp,
    fun t ht => by simp [slashAst] at ht, fun bs hbs => by simp [slashAst] at hbs⟩

theorem slash2Ast_wf : slash2Ast.Wf :=
  ⟨fun p hp => by simp [slash2Ast] at hp, fun p hp => by simp [slash2Ast] at hp,
    fun t ht => by simp [slash2Ast] at ht, fun bs hbs b hb => by
      simp only [slash2Ast, Option.some.injEq] at hbs; subst hbs; simp at hb⟩

open Contracts.Layout.Grammar in
theorem sum_formula_nil : sum_formula [] := by
  right
  unfold without_carbon
  have := seq_opt_filter (fun _ => 0) (fun _ => false) withoutCarbonSyms
  simpa using this

open Contracts.Layout.Grammar in
/-- `/` is a sentence of the published grammar -/
theorem grammar_slash : Layout.Grammar.tucan py!"/" := by
  have h := seq_cons sum_formula_nil (seq_cons (A := lit py!"/") (u := py!"/") rfl
    (seq_cons (A := tuples) (star_intro [] (by simp))
      (seq_single (A := opt (cat (lit py!"/") node_attributes)) opt_none)))
  unfold Layout.Grammar.tucan
  simpa using h

open Contracts.Layout.Grammar in
/-- `//` is a sentence of the published grammar -/
theorem grammar_slash2 : Layout.Grammar.tucan py!"//" := by
  have hn : node_attributes [] := star_intro [] (by simp)
  have h := seq_cons sum_formula_nil (seq_cons (A := lit py!"/") (u := py!"/") rfl
    (seq_cons (A := tuples) (star_intro [] (by simp))
      (seq_single (A := opt (cat (lit py!"/") node_attributes))
        (opt_some (cat_intro (A := lit py!"/") (u := py!"/") rfl hn)))))
  unfold Layout.Grammar.tucan
  simpa using h

theorem slashAst_accepted : ¬ (slashAst.BadIndex ∨ slashAst.SelfBond ∨ slashAst.DupAttr) := by decide
theorem slash2Ast_accepted : ¬ (slash2Ast.BadIndex ∨ slash2Ast.SelfBond ∨ slash2Ast.DupAttr) := by decide

/-- **`norm "/"` and `norm "//"` are `ValueError`** (every parser environment, every lawful `set` order, every
fuel ≥ 1): both strings are sentences of the grammar, the listener accepts both (empty graph), and the pipeline
raises `ValueError` on the empty graph. -/
theorem norm_slash (antlr : Str → Option PTree) (hV4 : V4 antlr) (envp env : DepEnv) (hs : env.SetLawful)
    (fuel : Nat) (hf : 1 ≤ fuel) :
    norm antlr envp env fuel py!"/" = .error .value ∧ norm antlr envp env fuel py!"//" = .error .value := by
  constructor
  · obtain ⟨g, ma, ea, pa, R⟩ := Contracts.Parser.graph_from_tree_accepts envp slashAst slashAst_wf slashAst_accepted
    have h0 : g.nodeList = [] := nodeList_eq_nil_of_formula ea R rfl
    have hp : antlr py!"/" = some (treeOf slashAst) := hV4 slashAst slashAst_wf grammar_slash
    unfold Contracts.Final.norm graphFromTucan
    rw [hp]; simp only [pa, ok_bind]
    exact Contracts.Final.tucan_of_empty env hs R.wf h0 fuel hf
  · obtain ⟨g, ma, ea, pa, R⟩ :=
      Contracts.Parser.graph_from_tree_accepts envp slash2Ast slash2Ast_wf slash2Ast_accepted
    have h0 : g.nodeList = [] := nodeList_eq_nil_of_formula ea R rfl
    have hp : antlr py!"//" = some (treeOf slash2Ast) := hV4 slash2Ast slash2Ast_wf grammar_slash2
    unfold Contracts.Final.norm graphFromTucan
    rw [hp]; simp only [pa, ok_bind]
    exact Contracts.Final.tucan_of_empty env hs R.wf h0 fuel hf

/-! ## 5. C13 (b) in the words of the property: element, isotope mass, radical state -/

/-- atoms of one partition class have the same element symbol, atomic number, isotope mass and radical state -/
def ClassesShareIdentity (r : Graph) : Prop :=
  ∀ x ∈ r.nodeList, ∀ y ∈ r.nodeList, r.attr x "partition" = r.attr y "partition" →
    r.attr x "element_symbol" = r.attr y "element_symbol" ∧ r.attr x "atomic_number" = r.attr y "atomic_number" ∧
    r.attr x "mass" = r.attr y "mass" ∧ r.attr x "rad" = r.attr y "rad"

/-- from "same class ⇒ same invariant code" to "same class ⇒ same element, mass, radical": the canonicalized
molecule `r` is the input `m` renamed (all attributes except `partition` carried), and in `m` the code determines
the identity attributes (`IdOK.codeDetermines`, from `IdOK.code_inj`) -/
theorem classesShareIdentity_of_relabel {m r : Graph} {ρ : Int → Int} (ok : IdOK m)
    (rel : Relabel.IsRelabelExcept "partition" ρ m r) (c : ClassesOK r) : ClassesShareIdentity r := by
  intro x hx y hy e
  obtain ⟨a, ha, rfl⟩ := List.mem_map.1 (rel.nodes.mem_iff.1 hx)
  obtain ⟨b, hb, rfl⟩ := List.mem_map.1 (rel.nodes.mem_iff.1 hy)
  have hcode := (c _ hx _ hy e).1
  rw [rel.attrs a ha "invariant_code" (by decide), rel.attrs b hb "invariant_code" (by decide)] at hcode
  have hd := ok.codeDetermines
  rw [rel.attrs a ha "element_symbol" (by decide), rel.attrs b hb "element_symbol" (by decide),
    rel.attrs a ha "atomic_number" (by decide), rel.attrs b hb "atomic_number" (by decide),
    rel.attrs a ha "mass" (by decide), rel.attrs b hb "mass" (by decide),
    rel.attrs a ha "rad" (by decide), rel.attrs b hb "rad" (by decide)]
  exact ⟨hd "element_symbol" (by decide) a ha b hb hcode, hd "atomic_number" (by decide) a ha b hb hcode,
    hd "mass" (by decide) a ha b hb hcode, hd "rad" (by decide) a ha b hb hcode⟩

/-- **C13 (b): "atoms in one class always share element, isotope mass and radical state".** `m`: a molecule graph
with the identity facts the readers and the parser guarantee (`IdOK`: `Final.parsed_ok`, `Final.read_ok`,
`Final.graph_from_molecule_idOK`), at least one atom. `canonicalize_molecule` returns `r`, which is `m` under the
one-to-one renaming `ρ`; two atoms of `r` with the same `partition` have the same element symbol, atomic number,
mass and rad (each compared as an optional attribute: absent = absent); equivalently, two atoms `a`, `b` of the
input whose images are in one class have the same element symbol, atomic number, mass and rad in the input. -/
theorem C13_attrs {env : DepEnv} (hs : env.SetLawful) (hb : BlissLawful env) {m : Graph}
    (ok : IdOK m) (hne : m.nodeList ≠ []) (fuel : Nat) (hf : fuel ≥ m.nodeList.length + 1) :
    ∃ r ρ, Tucan.canonicalization.canonicalize_molecule env fuel m = .ok r ∧
      Relabel.IsRelabelExcept "partition" ρ m r ∧ ClassesShareIdentity r ∧
      ∀ a ∈ m.nodeList, ∀ b ∈ m.nodeList, r.attr (ρ a) "partition" = r.attr (ρ b) "partition" →
        m.attr a "element_symbol" = m.attr b "element_symbol" ∧ m.attr a "atomic_number" = m.attr b "atomic_number" ∧
        m.attr a "mass" = m.attr b "mass" ∧ m.attr a "rad" = m.attr b "rad" := by
  obtain ⟨r, e, _, _, ρ, rel, _⟩ := Canonicalize.C12_main hs hb ok.wf hne ok.carries_code fuel hf
  obtain ⟨r', e', c⟩ := Canonicalize.C13_classes hs hb ok.wf hne ok.carries_code fuel hf
  obtain rfl : r = r' := Except.ok.inj (e.symm.trans e')
  have sh := classesShareIdentity_of_relabel ok rel c
  refine ⟨r, ρ, e, rel, sh, ?_⟩
  intro a ha b hb' hp
  have hx : ρ a ∈ r.nodeList := rel.nodes.mem_iff.2 (List.mem_map.2 ⟨a, ha, rfl⟩)
  have hy : ρ b ∈ r.nodeList := rel.nodes.mem_iff.2 (List.mem_map.2 ⟨b, hb', rfl⟩)
  have := sh _ hx _ hy hp
  rw [rel.attrs a ha "element_symbol" (by decide), rel.attrs b hb' "element_symbol" (by decide),
    rel.attrs a ha "atomic_number" (by decide), rel.attrs b hb' "atomic_number" (by decide),
    rel.attrs a ha "mass" (by decide), rel.attrs b hb' "mass" (by decide),
    rel.attrs a ha "rad" (by decide), rel.attrs b hb' "rad" (by decide)] at this
  exact this

/-- **`Canonicalize.C13_main` with clause (b) in the words of the property**: two presentations `g`, `h` of one
molecule, both with the identity facts; everything `C13_main` concludes, and in both results atoms of one class
share element symbol, atomic number, mass and rad. -/
theorem C13_main_attrs {env₁ env₂ : DepEnv} (hs₁ : env₁.SetLawful) (hs₂ : env₂.SetLawful) (hb : BlissLawful env₁)
    (hcp : env₂.canonicalPermutation = env₁.canonicalPermutation)
    (hpv : env₂.permuteVertices = env₁.permuteVertices)
    {g h : Graph} {π : Int → Int} (okg : IdOK g) (okh : IdOK h) (hne : g.nodeList ≠ [])
    (hiso : IsIsoOn "invariant_code" π g h)
    (fuel₁ fuel₂ : Nat) (hf₁ : fuel₁ ≥ g.nodeList.length + 1) (hf₂ : fuel₂ ≥ h.nodeList.length + 1) :
    ∃ rg rh ρg ρh, Tucan.canonicalization.canonicalize_molecule env₁ fuel₁ g = .ok rg ∧
      Tucan.canonicalization.canonicalize_molecule env₂ fuel₂ h = .ok rh ∧
      Relabel.IsRelabelExcept "partition" ρg g rg ∧ Relabel.IsRelabelExcept "partition" ρh h rh ∧
      (∀ a ∈ g.nodeList, rg.attr (ρg a) "partition" = rh.attr (ρh (π a)) "partition") ∧
      ClassesOK rg ∧ ClassesOK rh ∧ ClassesShareIdentity rg ∧ ClassesShareIdentity rh := by
  obtain ⟨rg, rh, ρg, ρh, e₁, e₂, r₁, r₂, hcls, c₁, c₂⟩ :=
    Canonicalize.C13_main hs₁ hs₂ hb hcp hpv okg.wf okh.wf hne okg.carries_code hiso fuel₁ fuel₂ hf₁ hf₂
  exact ⟨rg, rh, ρg, ρh, e₁, e₂, r₁, r₂, hcls, c₁, c₂,
    classesShareIdentity_of_relabel okg r₁ c₁, classesShareIdentity_of_relabel okh r₂ c₂⟩

/-! ## 6. sanity: what `Renumber` means, and that it is inhabited -/

open Contracts.Parser (byZ) in
/-- **the atoms of one element are numbered consecutively** (the "element block" is an index range): positions
`i ≤ j ≤ k` of the parser's numbering with the same element at `i` and `k` have that element at `j` too. Hence
`Renumber.block` ("the atom numbered `ρ i` has the element of atom `i`") says that `ρ` maps every element block to
itself. -/
theorem block_contiguous {a : Ast} (ha : a.Wf) {i j k : Nat} (hij : i ≤ j) (hjk : j ≤ k)
    (hk : k < (sortedSyms a).length) (e : (sortedSyms a)[i]? = (sortedSyms a)[k]?) :
    (sortedSyms a)[j]? = (sortedSyms a)[i]? := by
  have hi : i < (sortedSyms a).length := by omega
  have hj : j < (sortedSyms a).length := by omega
  rw [List.getElem?_eq_getElem hi, List.getElem?_eq_getElem hk] at e
  rw [List.getElem?_eq_getElem hi, List.getElem?_eq_getElem hj]
  have e' := Option.some.inj e
  have hs : (sortedSyms a).Pairwise (fun x y => byZ x y = true) := by
    rw [Contracts.Parser.sortedSyms_eq]
    exact List.pairwise_mergeSort Contracts.RoundTrip.byZ_trans Contracts.RoundTrip.byZ_total _
  have hall : ∀ s ∈ sortedSyms a, s ∈ periodicTable := by
    intro s hs'
    rw [Contracts.Parser.sortedSyms_eq, List.mem_mergeSort] at hs'
    simp only [expand, List.mem_flatMap] at hs'
    obtain ⟨p, hp, hrep⟩ := hs'
    rw [(List.mem_replicate.1 hrep).2]
    exact Contracts.Parser.wf_syms a ha p hp
  have hmem : (sortedSyms a)[i] ∈ periodicTable := hall _ (List.getElem_mem hi)
  have hle : ∀ x y : Nat, (hxy : x ≤ y) → (hy : y < (sortedSyms a).length) →
      atomicNumber ((sortedSyms a)[x]'(by omega)) ≤ atomicNumber ((sortedSyms a)[y]) := by
    intro x y hxy hy
    rcases Nat.lt_or_eq_of_le hxy with hlt | rfl
    · have := (List.pairwise_iff_getElem.1 hs) x y (by omega) hy hlt
      simpa [byZ] using this
    · exact le_refl _
  have h1 := hle i j hij hj
  have h2 := hle j k hjk hk
  rw [← e'] at h2
  congr 1
  exact (Contracts.RoundTrip.atomicNumber_inj hmem (by omega)).symm

/-- the tree obtained from `a` by rewriting every written atom index `k` as the numeral of `ρ k` -/
def renumberAst (ρ : Nat → Nat) (a : Ast) : Ast where
  formula := a.formula
  tuples := a.tuples.map (fun t => (pyStrInt ((ρ (num t.1) : Nat) : Int), pyStrInt ((ρ (num t.2) : Nat) : Int)))
  attrs := a.attrs.map (fun bs => bs.map (fun b => (pyStrInt ((ρ (num b.1) : Nat) : Int), b.2)))

/-- **`Renumber` is inhabited for every tree and every block-preserving permutation**: the explicitly renamed
tree is a renumbering -/
theorem renumber_renumberAst (ρ : Nat → Nat) (a : Ast)
    (hr : ∀ i, 1 ≤ i → i ≤ (sortedSyms a).length → 1 ≤ ρ i ∧ ρ i ≤ (sortedSyms a).length)
    (hinj : ∀ i, 1 ≤ i → i ≤ (sortedSyms a).length → ∀ j, 1 ≤ j → j ≤ (sortedSyms a).length → ρ i = ρ j → i = j)
    (hblock : ∀ i, 1 ≤ i → i ≤ (sortedSyms a).length → (sortedSyms a)[ρ i - 1]? = (sortedSyms a)[i - 1]?) :
    Renumber a (renumberAst ρ a) ρ where
  formula := rfl
  range := hr
  inj := hinj
  block := hblock
  tuples := by
    simp only [Ast.bonds1, renumberAst, List.map_map, Function.comp_def]
    apply List.map_congr_left
    intro t _
    show (num (pyStrInt ((ρ (num t.1) : Nat) : Int)), num (pyStrInt ((ρ (num t.2) : Nat) : Int))) = _
    rw [Contracts.RoundTrip.num_pyStrInt, Contracts.RoundTrip.num_pyStrInt]
  settings := by
    unfold Ast.settings Ast.blocks renumberAst
    cases a.attrs with
    | none => rfl
    | some bs =>
      simp only [Option.map_some, Option.getD_some, List.flatMap_map, List.map_flatMap, List.map_map,
        Function.comp_def]
      apply List.flatMap_congr
      intro b _
      apply List.map_congr_left
      intro kv _
      show ((num (pyStrInt ((ρ (num b.1) : Nat) : Int)), kv.1), num kv.2) = _
      rw [Contracts.RoundTrip.num_pyStrInt]

/-- exchange the two hydrogens of water -/
def swap12 (i : Nat) : Nat := if i = 1 then 2 else if i = 2 then 1 else i

open Contracts.Parser (water water_sorted) in
/-- `H2O/(1-3)(2-3)/(1:mass=2)(3:rad=2)` ↦ `H2O/(2-3)(1-3)/(2:mass=2)(3:rad=2)` is a `Renumber` -/
theorem renumber_water : Renumber water (renumberAst swap12 water) swap12 := by
  apply renumber_renumberAst <;> rw [water_sorted]
  · intro i h1 h2
    simp only [List.length_cons, List.length_nil] at h2
    interval_cases i <;> decide
  · intro i h1 h2 j h3 h4 e
    simp only [List.length_cons, List.length_nil] at h2 h4
    interval_cases i <;> interval_cases j <;> first | rfl | (exfalso; revert e; decide)
  · intro i h1 h2
    simp only [List.length_cons, List.length_nil] at h2
    interval_cases i <;> decide

example : (renumberAst swap12 Contracts.Parser.water).formula = [(py!"H", some py!"2"), (py!"O", none)] ∧
    (renumberAst swap12 Contracts.Parser.water).tuples = [(py!"2", py!"3"), (py!"1", py!"3")] ∧
    (renumberAst swap12 Contracts.Parser.water).attrs =
      some [(py!"2", [(Key.mass, py!"2")]), (py!"3", [(Key.rad, py!"2")])] := by decide

open Contracts.Parser (water) in
/-- a chain with both kinds of steps: renumber the hydrogens, then reorder / swap / repeat tuples and reorder the
attribute blocks (`RoundTrip.water'`) — so `Spelling` relates
`H2O/(2-3)(1-3)/(2:mass=2)(3:rad=2)` (renumbered) to `H2O/(3-2)(1-3)(3-1)/(3:rad=2)(1:mass=2)` -/
theorem spelling_water : Spelling (renumberAst swap12 water) Contracts.RoundTrip.water' := by
  have r1 : Renumber (renumberAst swap12 water) water swap12 := by
    have hs : sortedSyms (renumberAst swap12 water) = [py!"H", py!"H", py!"O"] := Contracts.Parser.water_sorted
    refine ⟨rfl, ?_, ?_, ?_, by decide, by decide⟩ <;> rw [hs]
    · intro i h1 h2
      simp only [List.length_cons, List.length_nil] at h2
      interval_cases i <;> decide
    · intro i h1 h2 j h3 h4 e
      simp only [List.length_cons, List.length_nil] at h2 h4
      interval_cases i <;> interval_cases j <;> first | rfl | (exfalso; revert e; decide)
    · intro i h1 h2
      simp only [List.length_cons, List.length_nil] at h2
      interval_cases i <;> decide
  have r2 : Respell water Contracts.RoundTrip.water' := by
    refine ⟨rfl, ?_, ?_⟩
    · intro i j
      have e1 : water.bonds1 = [(1, 3), (2, 3)] := by decide
      have e2 : Contracts.RoundTrip.water'.bonds1 = [(3, 2), (1, 3), (3, 1)] := by decide
      rw [e1, e2]
      simp only [List.mem_cons, Prod.mk.injEq, List.not_mem_nil, or_false]
      omega
    · have e1 : water.settings = [((1, Key.mass), 2), ((3, Key.rad), 2)] := by decide
      have e2 : Contracts.RoundTrip.water'.settings = [((3, Key.rad), 2), ((1, Key.mass), 2)] := by decide
      rw [e1, e2]
      exact List.Perm.swap _ _ _
  exact .respell (.renumber swap12 (.refl _) r1) r2

#print axioms C11_renumber_graph
#print axioms C11_renumber
#print axioms C11_renumber_text
#print axioms C11_norm_ok
#print axioms C11_norm_text_ok
#print axioms C11_domain
#print axioms norm_slash
#print axioms C13_attrs
#print axioms C13_main_attrs
#print axioms block_contiguous
#print axioms renumber_renumberAst
#print axioms renumber_water
#print axioms spelling_water

end Contracts.C11Ext
