/-
Contracts.Partition — property C13: the partition class attached to each atom does not depend on
how the input was numbered or ordered; atoms in one class share the value of the partitioning
attribute and (after refinement) see the same multiset of classes among their neighbours; atoms
related by a symmetry are in the same class.

Contracts for `attribute_sequence`, `partition_molecule_by_attribute`, `get_number_of_partitions`,
`refine_partitions`.
-/
import Generated.Canonicalization
import Spec.GraphView
import Spec.Order
import Spec.PartitionLemmas
set_option autoImplicit false
set_option linter.unusedSimpArgs false
set_option linter.unusedSectionVars false
set_option linter.unusedVariables false
open Py PartLemmas


namespace Contracts.Partition

/-! ## Abstract description of the partitioning key -/

/-- value of attribute `k` at atom `a` (`None` if absent) -/
def attrV (g : Graph) (k : String) (a : Int) : Val := (g.attr a k).getD Val.none

/-- the key of atom `a`: its own value of `k`, then the values at the neighbours in descending order -/
def seq (g : Graph) (k : String) (a : Int) : List Val :=
  attrV g k a :: sortedRev ((g.nbrs a).map (attrV g k))

/-- the keys of all atoms, in node iteration order -/
def seqs (g : Graph) (k : String) : List (List Val) := g.nodeList.map (seq g k)

/-- every atom carries attribute `k` -/
def Carries (g : Graph) (k : String) : Prop := ∀ a ∈ g.nodeList, (g.attr a k).isSome

/-! ## 1. `attribute_sequence` -/

theorem filterMap_some {α β : Type} (f : α → β) (l : List α) :
    l.filterMap (fun n => some (f n)) = l.map f := by
  induction l <;> simp_all

theorem nodeAttrs_getItem (m : Graph) (n : Int) (k : String) (h : (m.attr n k).isSome) :
    ∃ a, Graph.nodeAttrs m n = .ok a ∧ (getItem a k : M Val) = .ok (attrV m k n) := by
  unfold attrV Graph.attr at *
  cases hn : m.node.get? n with
  | none => rw [hn] at h; simp at h
  | some a =>
    rw [hn] at h
    simp only [Option.bind_some] at h ⊢
    refine ⟨a, by simp [Graph.nodeAttrs, hn], ?_⟩
    obtain ⟨v, hv⟩ := Option.isSome_iff_exists.1 h
    simp only [getItem, GetItem.getItem, toKey, ToKey.toKey, id, hv]
    rfl

theorem neighbors_ok {m : Graph} (hw : m.WF) (a : Int) (ha : a ∈ m.nodeList) :
    Graph.neighbors m a = .ok (m.nbrs a) := by
  unfold Graph.neighbors Graph.nbrs
  obtain ⟨d, hd⟩ := Option.isSome_iff_exists.1 ((Graph.adj_get?_isSome hw a).2 ha)
  rw [hd]; rfl

theorem attribute_sequence_ok (env : DepEnv) {m : Graph} (hw : m.WF) (a : Int) (k : String)
    (ha : a ∈ m.nodeList) (hk : (m.attr a k).isSome) (hn : ∀ n ∈ m.nbrs a, (m.attr n k).isSome) :
    Tucan.graph_utils.attribute_sequence env m a k = .ok (seq m k a) := by
  obtain ⟨d, hd1, hd2⟩ := nodeAttrs_getItem m a k hk
  have hl : listComp (m.nbrs a) (fun n => do return some (← getItem (← Graph.nodeAttrs m n) k)) =
      .ok ((m.nbrs a).filterMap (fun n => some (attrV m k n))) := by
    apply listComp_ok
    intro n hn'
    obtain ⟨e, he1, he2⟩ := nodeAttrs_getItem m n k (hn n hn')
    simp only [he1, he2, Py.ok_bind, Py.pure_eq_ok]
  simp only [Py.pure_eq_ok] at hl
  simp only [Tucan.graph_utils.attribute_sequence, hd1, hd2, neighbors_ok hw a ha, Py.ok_bind,
    pyIter_list, hl, pyAdd_list, Py.pure_eq_ok]
  rw [filterMap_some]
  rfl

/-- the key depends only on the abstract graph around `a`: the value at `a` and the multiset of
values at the neighbours -/
theorem seq_congr {g h : Graph} {k : String} {a b : Int} (h1 : attrV h k b = attrV g k a)
    (h2 : ((h.nbrs b).map (attrV h k)).Perm ((g.nbrs a).map (attrV g k))) : seq h k b = seq g k a := by
  unfold seq; rw [h1, sortedRev_perm h2]

theorem attribute_sequence_perm (env : DepEnv) {g h : Graph} (hg : g.WF) (hh : h.WF) (a : Int) (k : String)
    (hag : a ∈ g.nodeList) (hah : a ∈ h.nodeList)
    (hk : (g.attr a k).isSome) (hn : ∀ n ∈ g.nbrs a, (g.attr n k).isSome)
    (hattr : h.attr a k = g.attr a k) (hnb : (h.nbrs a).Perm (g.nbrs a))
    (hnattr : ∀ n ∈ g.nbrs a, h.attr n k = g.attr n k) :
    Tucan.graph_utils.attribute_sequence env h a k = Tucan.graph_utils.attribute_sequence env g a k := by
  rw [attribute_sequence_ok env hg a k hag hk hn,
    attribute_sequence_ok env hh a k hah (by rw [hattr]; exact hk)
      (fun n hn' => by rw [hnattr n (hnb.mem_iff.1 hn')]; exact hn n (hnb.mem_iff.1 hn'))]
  congr 1
  apply seq_congr
  · unfold attrV; rw [hattr]
  · refine (hnb.map _).trans ?_
    rw [List.map_congr_left]
    intro n hn'
    unfold attrV; rw [hnattr n hn']

/-! ## 2. `partition_molecule_by_attribute` -/

/-- the class of atom `a`: rank of its key among the distinct keys -/
def cls (g : Graph) (k : String) (a : Int) : Nat := rankIn (seqs g k) (seq g k a)

/-- the graph returned by `partition_molecule_by_attribute` -/
def partGraph (g : Graph) (k : String) : Graph :=
  Graph.setNodeAttrNamed (Graph.copy g) ⟨g.nodeList.map (fun a => (a, Val.int (cls g k a)))⟩ "partition"

theorem zip_map_self {α β : Type} (l : List α) (f : α → β) : List.zip l (l.map f) = l.map (fun x => (x, f x)) := by
  induction l <;> simp_all

theorem dict_eq_of_items {κ ν : Type} (d : Dict κ ν) (l : List (κ × ν)) (h : d.items = l) : d = ⟨l⟩ := by
  cases d; simp_all

theorem partition_eq (env : DepEnv) (hs : env.SetLawful) {m : Graph} (hw : m.WF) (k : String)
    (hc : Carries m k) :
    Tucan.canonicalization.partition_molecule_by_attribute env m k = .ok (partGraph m k) := by
  have h1 : listComp m.nodeList (fun atom => do
      return some (← Tucan.graph_utils.attribute_sequence env m atom k)) = .ok (seqs m k) := by
    rw [listComp_ok _ _ (fun a => some (seq m k a)), filterMap_some]; rfl
    intro a ha
    rw [attribute_sequence_ok env hw a k ha (hc a ha) (fun n hn => hc n (hw.nbr_mem a n hn))]
    rfl
  have hperm : (env.setOrder (PSet.elems (mkSet (seqs m k)))).Perm (seqs m k).dedup := hs _
  have h2 : listComp (seqs m k) (fun attr_seq => do
      return some (← getItem (Dict.ofPairs (zip (sorted (env.setOrder (PSet.elems (mkSet (seqs m k)))))
        (range (pyLen (sorted (env.setOrder (PSet.elems (mkSet (seqs m k))))))))) attr_seq)) =
      .ok ((seqs m k).map (fun s => Int.ofNat (rankIn (seqs m k) s))) := by
    rw [listComp_ok _ _ (fun s => some (Int.ofNat (rankIn (seqs m k) s))), filterMap_some]
    intro s hs'
    have := rank_dict_lookup (seqs m k) _ hperm s hs'
    simp only [getItem, GetItem.getItem, toKey, ToKey.toKey, id, this]
    rfl
  simp only [Py.pure_eq_ok] at h1 h2
  simp only [Tucan.canonicalization.partition_molecule_by_attribute, pyIter_graph, pyIter_list, h1, h2,
    Py.ok_bind, Py.pure_eq_ok]
  congr 1
  unfold partGraph
  congr 1
  rw [Graph.copy_nodeList hw]
  apply dict_eq_of_items
  have e : List.map (fun p : Int × Int => (p.1, toVal p.2))
      (zip m.nodeList (List.map (fun s => Int.ofNat (rankIn (seqs m k) s)) (seqs m k))) =
      m.nodeList.map (fun a => (a, Val.int (cls m k a))) := by
    unfold seqs zip
    rw [List.map_map, zip_map_self, List.map_map]
    rfl
  rw [e]
  apply Dict.ofPairs_items
  rw [List.map_map]
  have : (Prod.fst ∘ fun a : Int => (a, Val.int (cls m k a))) = id := rfl
  rw [this, List.map_id]
  exact hw.node_wf

/-- what the caller may rely on about the partitioned graph `r` made from `m` with key attribute `k` -/
structure PartSpec (m : Graph) (k : String) (r : Graph) : Prop where
  wf : r.WF
  nodes : r.nodeList = m.nodeList
  cls : ∀ a ∈ m.nodeList, r.attr a "partition" = some (Val.int (rankIn (seqs m k) (seq m k a)))
  frame : ∀ a k', k' ≠ "partition" → r.attr a k' = m.attr a k'
  nbrs : ∀ a, (r.nbrs a).Perm (m.nbrs a)

theorem partGraph_spec {m : Graph} (hw : m.WF) (k : String) : PartSpec m k (partGraph m k) := by
  obtain ⟨h1, h2, h3, h4⟩ := Graph.setNodeAttrNamed_map_spec (Graph.copy_wf hw) m.nodeList
    (fun a => Val.int (cls m k a)) "partition"
  refine ⟨h1, h3.trans (Graph.copy_nodeList hw), ?_, ?_, ?_⟩
  · intro a ha
    have := h4 a "partition"
    rw [Graph.copy_nodeList hw] at this
    simp only [ha, and_self, if_true] at this
    exact this
  · intro a k' hk'
    have := h4 a k'
    simp only [hk', false_and, if_false] at this
    rw [Graph.copy_attr hw] at this
    exact this
  · intro a
    have : (partGraph m k).nbrs a = (Graph.copy m).nbrs a := by
      unfold Graph.nbrs partGraph; rw [h2]
    rw [this]
    exact Graph.copy_nbrs_perm hw a

/-- Contract of `partition_molecule_by_attribute` (total correctness). The argument `m` is not a
mutated parameter of the extracted function, so there is no frame condition on `m` itself. -/
theorem partition_ok (env : DepEnv) (hs : env.SetLawful) {m : Graph} (hw : m.WF) (k : String)
    (hc : Carries m k) :
    ∃ r, Tucan.canonicalization.partition_molecule_by_attribute env m k = .ok r ∧ PartSpec m k r :=
  ⟨partGraph m k, partition_eq env hs hw k hc, partGraph_spec hw k⟩

/-! ## 3. label independence -/

section iso
variable {g h : Graph} {k : String} {π : Int → Int}

theorem iso_attrV (hiso : Graph.IsIsoOn k π g h) {n : Int} (hn : n ∈ g.nodeList) :
    attrV h k (π n) = attrV g k n := by
  unfold attrV; rw [hiso.attr n hn]

theorem iso_seq (hg : g.WF) (hiso : Graph.IsIsoOn k π g h) {a : Int} (ha : a ∈ g.nodeList) :
    seq h k (π a) = seq g k a := by
  apply seq_congr (iso_attrV hiso ha)
  refine ((hiso.nbrs a ha).map _).trans ?_
  rw [List.map_map, List.map_congr_left]
  intro n hn
  exact iso_attrV hiso (hg.nbr_mem a n hn)

theorem iso_mem_nodeList (hiso : Graph.IsIsoOn k π g h) (b : Int) :
    b ∈ h.nodeList ↔ ∃ a ∈ g.nodeList, π a = b := by
  rw [hiso.nodes.mem_iff, List.mem_map]

theorem iso_seqs_mem (hg : g.WF) (hiso : Graph.IsIsoOn k π g h) (x : List Val) :
    x ∈ seqs h k ↔ x ∈ seqs g k := by
  unfold seqs
  simp only [List.mem_map, iso_mem_nodeList hiso]
  constructor
  · rintro ⟨b, ⟨a, ha, rfl⟩, rfl⟩
    exact ⟨a, ha, (iso_seq hg hiso ha).symm⟩
  · rintro ⟨a, ha, rfl⟩
    exact ⟨π a, ⟨a, ha, rfl⟩, iso_seq hg hiso ha⟩

/-- the class of an atom is the same in every relabelled / reordered presentation of the molecule -/
theorem iso_cls (hg : g.WF) (hiso : Graph.IsIsoOn k π g h) {a : Int} (ha : a ∈ g.nodeList) :
    cls h k (π a) = cls g k a := by
  unfold cls
  rw [iso_seq hg hiso ha]
  exact rankIn_congr _ _ (iso_seqs_mem hg hiso) _

/-- label independence at the level of the contract `PartSpec`: whatever graphs satisfy the
contract for two presentations `g`, `h` of the same molecule, the classes correspond -/
theorem partSpec_label_independent (hg : g.WF) (hiso : Graph.IsIsoOn k π g h) {rg rh : Graph}
    (sg : PartSpec g k rg) (sh : PartSpec h k rh) {a : Int} (ha : a ∈ g.nodeList) :
    rh.attr (π a) "partition" = rg.attr a "partition" := by
  have hb : π a ∈ h.nodeList := (iso_mem_nodeList hiso _).2 ⟨a, ha, rfl⟩
  rw [sg.cls a ha, sh.cls _ hb]
  have := iso_cls hg hiso ha
  unfold cls at this
  rw [this]

/-- the partitioned graphs are again isomorphic, now also respecting the new classes -/
theorem partSpec_iso (hg : g.WF) (hiso : Graph.IsIsoOn k π g h) {rg rh : Graph}
    (sg : PartSpec g k rg) (sh : PartSpec h k rh) : Graph.IsIsoOn "partition" π rg rh := by
  refine ⟨?_, ?_, ?_, ?_⟩
  · rw [sg.nodes]; exact hiso.inj
  · rw [sg.nodes, sh.nodes]; exact hiso.nodes
  · intro n hn; rw [sg.nodes] at hn; exact partSpec_label_independent hg hiso sg sh hn
  · intro n hn; rw [sg.nodes] at hn
    exact ((sh.nbrs _).trans (hiso.nbrs n hn)).trans ((sg.nbrs n).map π).symm

end iso

/-- C13, heart: if `h` is `g` renumbered by `π` and/or with different node, adjacency or attribute
iteration orders (`IsIsoOn k π g h`), then atom `π a` of `h` receives the same class as atom `a` of `g`. -/
theorem partition_label_independent (env₁ env₂ : DepEnv) (hs₁ : env₁.SetLawful) (hs₂ : env₂.SetLawful)
    {g h : Graph} {k : String} {π : Int → Int} (hg : g.WF) (hh : h.WF) (cg : Carries g k) (ch : Carries h k)
    (hiso : Graph.IsIsoOn k π g h) :
    ∃ rg rh, Tucan.canonicalization.partition_molecule_by_attribute env₁ g k = .ok rg ∧
      Tucan.canonicalization.partition_molecule_by_attribute env₂ h k = .ok rh ∧
      (∀ a ∈ g.nodeList, rh.attr (π a) "partition" = rg.attr a "partition") ∧
      Graph.IsIsoOn "partition" π rg rh := by
  obtain ⟨rg, e1, sg⟩ := partition_ok env₁ hs₁ hg k cg
  obtain ⟨rh, e2, sh⟩ := partition_ok env₂ hs₂ hh k ch
  exact ⟨rg, rh, e1, e2, fun a ha => partSpec_label_independent hg hiso sg sh ha, partSpec_iso hg hiso sg sh⟩

/-- C13: two atoms that are mapped onto each other by a symmetry `π` of the molecule (an automorphism
respecting attribute `k`) are in the same class. -/
theorem partition_automorphism (env : DepEnv) (hs : env.SetLawful) {g : Graph} {k : String} {π : Int → Int}
    (hg : g.WF) (cg : Carries g k) (hauto : Graph.IsIsoOn k π g g) :
    ∃ r, Tucan.canonicalization.partition_molecule_by_attribute env g k = .ok r ∧
      ∀ a ∈ g.nodeList, r.attr (π a) "partition" = r.attr a "partition" := by
  obtain ⟨r, e, s⟩ := partition_ok env hs hg k cg
  exact ⟨r, e, fun a ha => partSpec_label_independent hg hauto s s ha⟩

/-! ## 4. classes refine the key attribute -/

theorem mem_seqs {g : Graph} {k : String} {a : Int} (ha : a ∈ g.nodeList) : seq g k a ∈ seqs g k :=
  List.mem_map_of_mem ha

/-- two atoms are in the same class exactly if their keys agree -/
theorem partSpec_cls_eq_iff {m r : Graph} {k : String} (s : PartSpec m k r) {a b : Int}
    (ha : a ∈ m.nodeList) (hb : b ∈ m.nodeList) :
    r.attr a "partition" = r.attr b "partition" ↔ seq m k a = seq m k b := by
  rw [s.cls a ha, s.cls b hb]
  constructor
  · intro h
    have h' : (rankIn (seqs m k) (seq m k a) : Int) = rankIn (seqs m k) (seq m k b) := by
      simpa using h
    exact rankIn_inj _ _ _ (mem_seqs ha) (mem_seqs hb) (by exact_mod_cast h')
  · intro h; rw [h]

/-- equal class ⇒ equal own value of `k` and equal sorted neighbour values -/
theorem partSpec_refines {m r : Graph} {k : String} (s : PartSpec m k r) (hc : Carries m k) {a b : Int}
    (ha : a ∈ m.nodeList) (hb : b ∈ m.nodeList) (h : r.attr a "partition" = r.attr b "partition") :
    m.attr a k = m.attr b k ∧
      sortedRev ((m.nbrs a).map (attrV m k)) = sortedRev ((m.nbrs b).map (attrV m k)) := by
  have hseq := (partSpec_cls_eq_iff s ha hb).1 h
  unfold seq at hseq
  obtain ⟨h1, h2⟩ := List.cons.inj hseq
  refine ⟨?_, h2⟩
  unfold attrV at h1
  obtain ⟨va, hva⟩ := Option.isSome_iff_exists.1 (hc a ha)
  obtain ⟨vb, hvb⟩ := Option.isSome_iff_exists.1 (hc b hb)
  rw [hva, hvb] at h1 ⊢
  simpa using h1

/-- C13: atoms in one class share the value of the partitioning attribute (for
`k = "invariant_code"`: element, isotope mass, radical state; for `k = "partition"`: the previous
class) and see the same multiset of `k`-values among their neighbours. -/
theorem partition_refines (env : DepEnv) (hs : env.SetLawful) {m : Graph} (hw : m.WF) (k : String)
    (hc : Carries m k) :
    ∃ r, Tucan.canonicalization.partition_molecule_by_attribute env m k = .ok r ∧
      ∀ a ∈ m.nodeList, ∀ b ∈ m.nodeList, r.attr a "partition" = r.attr b "partition" →
        m.attr a k = m.attr b k ∧
        sortedRev ((m.nbrs a).map (attrV m k)) = sortedRev ((m.nbrs b).map (attrV m k)) := by
  obtain ⟨r, e, s⟩ := partition_ok env hs hw k hc
  exact ⟨r, e, fun a ha b hb h => partSpec_refines s hc ha hb h⟩

/-! ## 6. `get_number_of_partitions` -/

theorem foldl_max_spec {α : Type} [POrd α] [LawfulPOrd α] (xs : List α) (x : α) :
    let r := xs.foldl (fun m y => if POrd.lt m y then y else m) x
    r ∈ x :: xs ∧ ∀ y ∈ x :: xs, POrd.lt r y = false := by
  induction xs generalizing x with
  | nil => simp [LawfulPOrd.irrefl]
  | cons z zs ih =>
    simp only [List.foldl_cons]
    by_cases hlt : POrd.lt x z = true
    · rw [if_pos hlt]
      obtain ⟨h1, h2⟩ := ih z
      refine ⟨List.mem_cons_of_mem _ h1, ?_⟩
      intro y hy
      rcases List.mem_cons.1 hy with rfl | hy
      · cases hr : POrd.lt (zs.foldl (fun m y => if POrd.lt m y then y else m) z) y with
        | false => rfl
        | true =>
          have := LawfulPOrd.trans _ _ _ hr hlt
          rw [h2 z (by simp)] at this; cases this
      · exact h2 y hy
    · rw [if_neg hlt]
      obtain ⟨h1, h2⟩ := ih x
      refine ⟨?_, ?_⟩
      · rcases List.mem_cons.1 h1 with h | h
        · rw [h]; simp
        · exact List.mem_cons_of_mem _ (List.mem_cons_of_mem _ h)
      · intro y hy
        rcases List.mem_cons.1 hy with rfl | hy
        · exact h2 y (by simp)
        · rcases List.mem_cons.1 hy with rfl | hy
          · cases hr : POrd.lt (zs.foldl (fun m y => if POrd.lt m y then y else m) x) y with
            | false => rfl
            | true =>
              exfalso
              rcases List.mem_cons.1 h1 with h | h
              · rw [h] at hr; exact hlt hr
              · have hxr := h2 x (by simp)
                by_cases hxe : zs.foldl (fun m y => if POrd.lt m y then y else m) x = x
                · rw [hxe] at hr; exact hlt hr
                · rcases LawfulPOrd.total _ _ hxe with h' | h'
                  · exact hlt (LawfulPOrd.trans _ _ _ (by
                      rcases LawfulPOrd.total _ _ hxe with h'' | h''
                      · rw [hxr] at h''; cases h''
                      · exact h'') hr)
                  · exact hlt (LawfulPOrd.trans _ _ _ h' hr)
          · exact h2 y (List.mem_cons_of_mem _ hy)

/-- `max(l)`: an element of `l` that no element exceeds; `ValueError` on the empty list -/
theorem maxOf_ok {α : Type} [POrd α] [LawfulPOrd α] (l : List α) (hl : l ≠ []) :
    ∃ x, maxOf l = .ok x ∧ x ∈ l ∧ ∀ y ∈ l, POrd.lt x y = false := by
  cases l with
  | nil => exact absurd rfl hl
  | cons x xs => exact ⟨_, rfl, foldl_max_spec xs x⟩

/-- the values of attribute "partition" in node order (atoms without it are skipped) -/
def partValues (m : Graph) : List Val := m.node.items.filterMap (fun p => p.2.get? "partition")

theorem values_getNodeAttributes (m : Graph) (name : String) :
    Dict.values (Graph.getNodeAttributes m name) = m.node.items.filterMap (fun p => p.2.get? name) := by
  unfold Dict.values Graph.getNodeAttributes
  simp only [List.map_filterMap]
  congr 1
  funext p
  cases p.2.get? name <;> rfl

theorem partValues_eq {m : Graph} (hw : m.WF) (hc : Carries m "partition") :
    partValues m = m.nodeList.map (attrV m "partition") := by
  unfold partValues Graph.nodeList Dict.keys
  rw [List.map_map, ← filterMap_some]
  apply List.filterMap_congr
  intro p hp
  have h1 : m.node.get? p.1 = some p.2 := Dict.get?_of_mem _ hw.node_wf _ _ hp
  have h2 : m.attr p.1 "partition" = p.2.get? "partition" := by unfold Graph.attr; rw [h1]; rfl
  have h3 := hc p.1 (List.mem_map_of_mem hp)
  simp only [Function.comp, attrV, h2] at h3 ⊢
  obtain ⟨v, hv⟩ := Option.isSome_iff_exists.1 h3
  rw [hv]; rfl

/-- `get_number_of_partitions` is the maximum of the "partition" values; it rejects a graph without
any such value (in particular the empty graph) with `ValueError`. -/
theorem get_number_of_partitions_ok (env : DepEnv) (m : Graph) (h : partValues m ≠ []) :
    ∃ v, Tucan.canonicalization.get_number_of_partitions env m = .ok v ∧ v ∈ partValues m ∧
      ∀ y ∈ partValues m, POrd.lt v y = false := by
  obtain ⟨x, h1, h2, h3⟩ := maxOf_ok (partValues m) h
  refine ⟨x, ?_, h2, h3⟩
  simp only [Tucan.canonicalization.get_number_of_partitions, values_getNodeAttributes]
  unfold partValues at h1
  rw [h1]; rfl

theorem get_number_of_partitions_empty (env : DepEnv) (m : Graph) (h : partValues m = []) :
    Tucan.canonicalization.get_number_of_partitions env m = .error Err.value := by
  simp only [Tucan.canonicalization.get_number_of_partitions, values_getNodeAttributes]
  unfold partValues at h
  rw [h]; rfl

/-! ## 5. `refine_partitions` -/

section listlemmas
variable {α β : Type} [DecidableEq α] [DecidableEq β]

theorem dedup_map_length_le (f : α → β) (l : List α) : ((l.map f).dedup).length ≤ l.dedup.length := by
  have h : (l.map f).dedup ⊆ l.dedup.map f := by
    intro y hy
    rw [List.mem_dedup, List.mem_map] at hy
    obtain ⟨x, hx, rfl⟩ := hy
    exact List.mem_map_of_mem (List.mem_dedup.2 hx)
  have := List.Nodup.length_le_of_subset (List.nodup_dedup _) h
  simpa using this

theorem inj_of_dedup_map_length_eq (f : α → β) (l : List α)
    (h : ((l.map f).dedup).length = l.dedup.length) :
    ∀ x ∈ l, ∀ y ∈ l, f x = f y → x = y := by
  have hp : ((l.dedup.map f).dedup).Perm ((l.map f).dedup) := by
    rw [List.perm_ext_iff_of_nodup (List.nodup_dedup _) (List.nodup_dedup _)]
    intro y; simp
  have hlen : ((l.dedup.map f).dedup).length = (l.dedup.map f).length := by
    rw [hp.length_eq, h, List.length_map]
  have heq := (List.dedup_sublist (l.dedup.map f)).eq_of_length hlen
  have hnd : (l.dedup.map f).Nodup := by rw [← heq]; exact List.nodup_dedup _
  intro x hx y hy hxy
  exact List.inj_on_of_nodup_map hnd (List.mem_dedup.2 hx) (List.mem_dedup.2 hy) hxy

end listlemmas

theorem lt_int_int (a b : Int) : POrd.lt (Val.int a) (Val.int b) = decide (a < b) := rfl

theorem seq_lt_of_head_lt {g : Graph} {k : String} {a b : Int}
    (h : POrd.lt (attrV g k a) (attrV g k b) = true) : POrd.lt (seq g k a) (seq g k b) = true := by
  show lexLt POrd.lt (seq g k a) (seq g k b) = true
  unfold seq
  simp [lexLt, h]

/-- the partition values are exactly `0, …, c-1` -/
structure Dense (m : Graph) (c : Nat) : Prop where
  lt : ∀ a ∈ m.nodeList, ∃ i : Nat, i < c ∧ m.attr a "partition" = some (Val.int i)
  surj : ∀ i : Nat, i < c → ∃ a ∈ m.nodeList, m.attr a "partition" = some (Val.int i)

/-- number of distinct classes -/
def numClasses (m : Graph) : Nat := ((m.nodeList.map (attrV m "partition")).dedup).length

theorem Dense.carries {m : Graph} {c : Nat} (hd : Dense m c) : Carries m "partition" := by
  intro a ha
  obtain ⟨i, _, hi⟩ := hd.lt a ha
  rw [hi]; rfl

theorem Dense.numClasses {m : Graph} {c : Nat} (hd : Dense m c) : numClasses m = c := by
  unfold Contracts.Partition.numClasses
  have hp : ((m.nodeList.map (attrV m "partition")).dedup).Perm ((List.range c).map (fun i : Nat => Val.int i)) := by
    rw [List.perm_ext_iff_of_nodup (List.nodup_dedup _)]
    · intro v
      simp only [List.mem_dedup, List.mem_map, List.mem_range]
      constructor
      · rintro ⟨a, ha, rfl⟩
        obtain ⟨i, hi, hv⟩ := hd.lt a ha
        exact ⟨i, hi, by unfold attrV; rw [hv]; rfl⟩
      · rintro ⟨i, hi, rfl⟩
        obtain ⟨a, ha, hv⟩ := hd.surj i hi
        exact ⟨a, ha, by unfold attrV; rw [hv]; rfl⟩
    · apply List.Nodup.map _ List.nodup_range
      intro i j hij
      simpa using hij
  rw [hp.length_eq]; simp

/-- the result of a partitioning round is dense -/
theorem PartSpec.dense {m r : Graph} {k : String} (s : PartSpec m k r) : Dense r (seqs m k).dedup.length := by
  constructor
  · intro a ha
    rw [s.nodes] at ha
    exact ⟨_, rankIn_lt_length _ _ (mem_seqs ha), s.cls a ha⟩
  · intro i hi
    obtain ⟨x, hx, hr⟩ := rankIn_surj (seqs m k) i hi
    unfold seqs at hx
    obtain ⟨a, ha, rfl⟩ := List.mem_map.1 hx
    exact ⟨a, by rw [s.nodes]; exact ha, by rw [s.cls a ha, hr]⟩

/-! ### one refinement round -/

theorem seqs_map_head (m : Graph) (k : String) :
    (seqs m k).map (fun s => s.headD Val.none) = m.nodeList.map (attrV m k) := by
  unfold seqs; rw [List.map_map]; rfl

/-- the number of classes never decreases in a refinement round -/
theorem round_mono (m : Graph) (k : String) :
    ((m.nodeList.map (attrV m k)).dedup).length ≤ (seqs m k).dedup.length := by
  rw [← seqs_map_head]; exact dedup_map_length_le _ _

theorem round_le_n (m : Graph) (k : String) : (seqs m k).dedup.length ≤ m.nodeList.length := by
  have := (List.dedup_sublist (seqs m k)).length_le
  simpa [seqs] using this

/-- if the number of classes stays equal, equal value of `k` already implied equal key -/
theorem round_eq_inj (m : Graph) (k : String)
    (h : (seqs m k).dedup.length = ((m.nodeList.map (attrV m k)).dedup).length)
    {a b : Int} (ha : a ∈ m.nodeList) (hb : b ∈ m.nodeList) (hab : attrV m k a = attrV m k b) :
    seq m k a = seq m k b := by
  rw [← seqs_map_head] at h
  exact inj_of_dedup_map_length_eq _ _ h.symm _ (mem_seqs ha) _ (mem_seqs hb) hab

/-- the refined rank preserves the strict order of the previous classes -/
theorem cls_lt_of_lt {m : Graph} {k : String} {a b : Int} (ha : a ∈ m.nodeList) (hb : b ∈ m.nodeList)
    (h : POrd.lt (attrV m k a) (attrV m k b) = true) : cls m k a < cls m k b :=
  (rankIn_lt_iff _ _ _ (mem_seqs ha) (mem_seqs hb)).2 (seq_lt_of_head_lt h)

theorem attrV_of_attr {m : Graph} {k : String} {a : Int} {v : Val} (h : m.attr a k = some v) : attrV m k a = v := by
  unfold attrV; rw [h]; rfl

theorem rank_ge {m : Graph} {c : Nat} (hd : Dense m c) :
    ∀ i : Nat, ∀ a ∈ m.nodeList, m.attr a "partition" = some (Val.int i) → i ≤ cls m "partition" a := by
  intro i
  induction i with
  | zero => intros; exact Nat.zero_le _
  | succ i ih =>
    intro a ha hai
    obtain ⟨i', hi', hai'⟩ := hd.lt a ha
    have : i' = i + 1 := by
      rw [hai] at hai'
      have : ((i + 1 : Nat) : Int) = i' := by simpa using hai'
      omega
    obtain ⟨x, hx, hxi⟩ := hd.surj i (by omega)
    have h1 := ih x hx hxi
    have h2 : cls m "partition" x < cls m "partition" a := by
      apply cls_lt_of_lt hx ha
      rw [attrV_of_attr hxi, attrV_of_attr hai, lt_int_int]
      simp
    omega

theorem rank_le {m : Graph} {c : Nat} (hd : Dense m c) :
    ∀ d : Nat, ∀ a ∈ m.nodeList, ∀ i : Nat, m.attr a "partition" = some (Val.int i) → i + d + 1 = c →
      cls m "partition" a + d + 1 ≤ (seqs m "partition").dedup.length := by
  intro d
  induction d with
  | zero =>
    intro a ha i _ _
    have := rankIn_lt_length (seqs m "partition") _ (mem_seqs (k := "partition") ha)
    unfold cls; omega
  | succ d ih =>
    intro a ha i hai hc
    obtain ⟨x, hx, hxi⟩ := hd.surj (i + 1) (by omega)
    have h1 := ih x hx (i + 1) hxi (by omega)
    have h2 : cls m "partition" a < cls m "partition" x := by
      apply cls_lt_of_lt ha hx
      rw [attrV_of_attr hxi, attrV_of_attr hai, lt_int_int]
      simp
    omega

/-- if a refinement round does not increase the number of classes, it leaves every class unchanged -/
theorem round_eq_id {m r : Graph} {c : Nat} (hd : Dense m c) (s : PartSpec m "partition" r)
    (h : (seqs m "partition").dedup.length = c) {a : Int} (ha : a ∈ m.nodeList) :
    r.attr a "partition" = m.attr a "partition" := by
  obtain ⟨i, hi, hai⟩ := hd.lt a ha
  have h1 := rank_ge hd i a ha hai
  have h2 := rank_le hd (c - 1 - i) a ha i hai (by omega)
  rw [s.cls a ha, hai]
  have : cls m "partition" a = i := by omega
  unfold cls at this
  rw [this]

/-- the partition is stable under further refinement: atoms of one class see the same multiset of
classes among their neighbours -/
def Equitable (m : Graph) : Prop :=
  ∀ a ∈ m.nodeList, ∀ b ∈ m.nodeList, m.attr a "partition" = m.attr b "partition" →
    sortedRev ((m.nbrs a).map (attrV m "partition")) = sortedRev ((m.nbrs b).map (attrV m "partition"))

/-- same nodes, same classes, same neighbourhoods up to order ⇒ same keys -/
theorem seq_eq_of_same {m r : Graph} {k : String} (hm : m.WF)
    (hattr : ∀ a ∈ m.nodeList, r.attr a k = m.attr a k) (hnb : ∀ a, (r.nbrs a).Perm (m.nbrs a))
    {a : Int} (ha : a ∈ m.nodeList) : seq r k a = seq m k a := by
  apply seq_congr
  · unfold attrV; rw [hattr a ha]
  · refine ((hnb a).map _).trans ?_
    rw [List.map_congr_left]
    intro n hn
    unfold attrV; rw [hattr n (hm.nbr_mem a n hn)]

/-- at the stopping point of the loop (`r` refines `m` without increasing the number of classes):
`r` has the classes of `m`, is equitable, and is a fixpoint of refinement -/
theorem round_stop {m r : Graph} {c : Nat} (hm : m.WF) (hd : Dense m c) (s : PartSpec m "partition" r)
    (h : (seqs m "partition").dedup.length = c) :
    (∀ a ∈ m.nodeList, r.attr a "partition" = m.attr a "partition") ∧ Equitable r ∧
    ∀ r', PartSpec r "partition" r' → ∀ a ∈ r.nodeList, r'.attr a "partition" = r.attr a "partition" := by
  have hid : ∀ a ∈ m.nodeList, r.attr a "partition" = m.attr a "partition" :=
    fun a ha => round_eq_id hd s h ha
  have hseq : ∀ a ∈ m.nodeList, seq r "partition" a = seq m "partition" a :=
    fun a ha => seq_eq_of_same hm hid s.nbrs ha
  have hseqs : seqs r "partition" = seqs m "partition" := by
    unfold seqs; rw [s.nodes]; exact List.map_congr_left hseq
  refine ⟨hid, ?_, ?_⟩
  · intro a ha b hb hab
    rw [s.nodes] at ha hb
    have h1 := (partSpec_cls_eq_iff s ha hb).1 hab
    rw [← hseq a ha, ← hseq b hb] at h1
    unfold seq at h1
    exact (List.cons.inj h1).2
  · intro r' s' a ha
    rw [s'.cls a ha, hseqs]
    rw [s.nodes] at ha
    rw [hseq a ha, s.cls a ha]

/-! ### the loop -/

/-- `get_number_of_partitions` on a densely partitioned non-empty graph: number of classes − 1 -/
theorem get_number_of_partitions_dense (env : DepEnv) {m : Graph} {c : Nat} (hw : m.WF) (hd : Dense m c)
    (hc : 1 ≤ c) :
    Tucan.canonicalization.get_number_of_partitions env m = .ok (Val.int ((c : Int) - 1)) := by
  have hpv := partValues_eq hw hd.carries
  obtain ⟨a0, ha0, hv0⟩ := hd.surj (c - 1) (by omega)
  have hmem : Val.int ((c - 1 : Nat) : Int) ∈ partValues m := by
    rw [hpv]; exact List.mem_map.2 ⟨a0, ha0, attrV_of_attr hv0⟩
  obtain ⟨v, h1, h2, h3⟩ := get_number_of_partitions_ok env m (List.ne_nil_of_mem hmem)
  rw [h1]
  rw [hpv] at h2
  obtain ⟨a, ha, rfl⟩ := List.mem_map.1 h2
  obtain ⟨i, hi, hai⟩ := hd.lt a ha
  have := h3 _ hmem
  rw [attrV_of_attr hai, lt_int_int] at this
  rw [attrV_of_attr hai]
  have hi' : i = c - 1 := by
    have : ¬ ((i : Int) < ((c - 1 : Nat) : Int)) := by simpa using this
    omega
  subst hi'
  congr 2
  omega

/-- one refinement round -/
def refineStep (m : Graph) : Graph := partGraph m "partition"

/-- loop invariant: well-formed, `n` atoms, classes exactly `0..c-1`, at least one class -/
structure Inv (n : Nat) (m : Graph) (c : Nat) : Prop where
  wf : m.WF
  dense : Dense m c
  len : m.nodeList.length = n
  pos : 1 ≤ c

theorem Inv.step {n : Nat} {m : Graph} {c : Nat} (h : Inv n m c) :
    Inv n (refineStep m) (numClasses (refineStep m)) ∧ c ≤ numClasses (refineStep m) ∧
      numClasses (refineStep m) ≤ n ∧ numClasses (refineStep m) = (seqs m "partition").dedup.length := by
  have s := partGraph_spec h.wf "partition"
  have hd := s.dense
  have e : numClasses (refineStep m) = (seqs m "partition").dedup.length := hd.numClasses
  have hmono : c ≤ numClasses (refineStep m) := by
    rw [e, ← h.dense.numClasses]; exact round_mono m "partition"
  refine ⟨⟨s.wf, by rw [e]; exact hd, by rw [← h.len]; exact congrArg List.length s.nodes, ?_⟩, hmono, ?_, e⟩
  · exact le_trans h.pos hmono
  · rw [e, ← h.len]; exact round_le_n m "partition"

/-- the graph yielded by `refine_partitions`: refine until the number of classes stops growing -/
def refineSpec : Nat → Graph → Graph
  | 0, m => m
  | f + 1, m =>
    if numClasses (refineStep m) = numClasses m then refineStep m else refineSpec f (refineStep m)

abbrev LoopState := Option (List Graph) × Graph × List Graph

theorem refine_loop (n : Nat) (body : Nat → LoopState → M (ForInStep LoopState))
    (hbody : ∀ x m out c, Inv n m c → body x (Option.none, m, out) =
      .ok (if numClasses (refineStep m) = numClasses m
        then ForInStep.done (some (out ++ [refineStep m]), m, out ++ [refineStep m])
        else ForInStep.yield (Option.none, refineStep m, out))) :
    ∀ (l : List Nat) (m : Graph) (out : List Graph) (c : Nat), Inv n m c → l.length + c ≥ n + 1 →
      ∃ s, forIn l ((Option.none, m, out) : LoopState) body = .ok s ∧
        s.1 = some (out ++ [refineSpec l.length m]) := by
  intro l
  induction l with
  | nil =>
    intro m out c hinv hlen
    obtain ⟨_, h1, h2, _⟩ := hinv.step
    simp at hlen; omega
  | cons x l ih =>
    intro m out c hinv hlen
    obtain ⟨hinv', h1, h2, _⟩ := hinv.step
    rw [List.forIn_cons, hbody x m out c hinv]
    by_cases hstop : numClasses (refineStep m) = numClasses m
    · simp only [hstop, if_true, Py.ok_bind, refineSpec, List.length_cons]
      exact ⟨_, rfl, rfl⟩
    · simp only [hstop, if_false, Py.ok_bind, refineSpec, List.length_cons]
      apply ih _ _ _ hinv'
      rw [hinv.dense.numClasses] at hstop
      simp at hlen
      omega

theorem refine_body (env : DepEnv) (hs : env.SetLawful) (n : Nat) (m : Graph) (out : List Graph) (c : Nat)
    (hinv : Inv n m c) :
    (do
      let __do_lift ← Tucan.canonicalization.partition_molecule_by_attribute env m "partition"
      let __do_lift_1 ← Tucan.canonicalization.get_number_of_partitions env __do_lift
      let __do_lift_2 ← Tucan.canonicalization.get_number_of_partitions env m
      if pyEq __do_lift_1 __do_lift_2 = true then
          pure (ForInStep.done (some (out ++ [__do_lift]), m, out ++ [__do_lift]))
        else pure (ForInStep.yield (Option.none, __do_lift, out)) : M (ForInStep LoopState)) =
      .ok (if numClasses (refineStep m) = numClasses m
        then ForInStep.done (some (out ++ [refineStep m]), m, out ++ [refineStep m])
        else ForInStep.yield (Option.none, refineStep m, out)) := by
  obtain ⟨hinv', h1, h2, _⟩ := hinv.step
  rw [partition_eq env hs hinv.wf "partition" hinv.dense.carries,
    show partGraph m "partition" = refineStep m from rfl]
  simp only [Py.ok_bind]
  rw [get_number_of_partitions_dense env hinv'.wf hinv'.dense hinv'.pos,
    get_number_of_partitions_dense env hinv.wf hinv.dense hinv.pos]
  simp only [Py.ok_bind, Py.pure_eq_ok]
  have hpos := hinv.pos
  have hpos' := hinv'.pos
  have : pyEq (Val.int ((numClasses (refineStep m) : Int) - 1)) (Val.int ((c : Int) - 1)) =
      decide (numClasses (refineStep m) = numClasses m) := by
    show decide (_ = _) = _
    rw [hinv.dense.numClasses]
    by_cases h : numClasses (refineStep m) = c
    · simp [h]
    · have : ¬ ((numClasses (refineStep m) : Int) - 1 = (c : Int) - 1) := by omega
      simp [h, this]
  rw [this]
  by_cases h : numClasses (refineStep m) = numClasses m
  · simp [h]
  · simp [h]

/-- the body of the `while True` loop of `refine_partitions`, as extracted -/
def loopBody (env : DepEnv) : Nat → LoopState → M (ForInStep LoopState) := fun _ __s => do
  let __do_lift ← Tucan.canonicalization.partition_molecule_by_attribute env __s.2.1 "partition"
  let __do_lift_1 ← Tucan.canonicalization.get_number_of_partitions env __do_lift
  let __do_lift_2 ← Tucan.canonicalization.get_number_of_partitions env __s.2.1
  if pyEq __do_lift_1 __do_lift_2 = true then
      pure (ForInStep.done (some (__s.2.2 ++ [__do_lift]), __s.2.1, __s.2.2 ++ [__do_lift]))
    else pure (ForInStep.yield (Option.none, __do_lift, __s.2.2))

theorem refine_eq (env : DepEnv) (hs : env.SetLawful) {n : Nat} {m : Graph} {c : Nat} (hinv : Inv n m c)
    (fuel : Nat) (hf : fuel ≥ n + 1) :
    Tucan.canonicalization.refine_partitions env fuel m = .ok [refineSpec fuel m] := by
  obtain ⟨s, h1, h2⟩ := refine_loop n (loopBody env)
    (fun x m out c hinv => refine_body env hs n m out c hinv) (List.range fuel) m [] c hinv
    (by simp; omega)
  unfold loopBody at h1
  simp only [Tucan.canonicalization.refine_partitions]
  rw [h1]
  simp only [Py.ok_bind, h2, List.length_range, List.nil_append]
  rfl

/-- the result does not depend on the fuel once there is enough of it -/
theorem refineSpec_fuel (n : Nat) : ∀ (f f' : Nat) (m : Graph) (c : Nat), Inv n m c →
    f + c ≥ n + 1 → f' + c ≥ n + 1 → refineSpec f m = refineSpec f' m := by
  intro f
  induction f with
  | zero =>
    intro f' m c hinv h1 _
    obtain ⟨_, h3, h4, _⟩ := hinv.step
    omega
  | succ f ih =>
    intro f' m c hinv h1 h2
    obtain ⟨hinv', h3, h4, _⟩ := hinv.step
    cases f' with
    | zero => omega
    | succ f' =>
      simp only [refineSpec]
      by_cases hstop : numClasses (refineStep m) = numClasses m
      · simp [hstop]
      · simp only [hstop, if_false]
        rw [hinv.dense.numClasses] at hstop
        exact ih f' _ _ hinv' (by omega) (by omega)

/-- `refineSpec` iterates `refineStep` up to and including the first round that does not increase
the number of classes -/
theorem refineSpec_iterate (n : Nat) : ∀ (f : Nat) (m : Graph) (c : Nat), Inv n m c → f + c ≥ n + 1 →
    ∃ j, refineSpec f m = refineStep^[j + 1] m ∧ (∃ c', Inv n (refineStep^[j] m) c') ∧
      numClasses (refineStep^[j + 1] m) = numClasses (refineStep^[j] m) ∧
      ∀ i < j, numClasses (refineStep^[i + 1] m) ≠ numClasses (refineStep^[i] m) := by
  intro f
  induction f with
  | zero =>
    intro m c hinv h1
    obtain ⟨_, h3, h4, _⟩ := hinv.step
    omega
  | succ f ih =>
    intro m c hinv h1
    obtain ⟨hinv', h3, h4, _⟩ := hinv.step
    simp only [refineSpec]
    by_cases hstop : numClasses (refineStep m) = numClasses m
    · refine ⟨0, by simp [hstop], ⟨c, by simpa using hinv⟩, by simpa using hstop, by simp⟩
    · simp only [hstop, if_false]
      have hstop' := hstop
      rw [hinv.dense.numClasses] at hstop'
      obtain ⟨j, e1, ⟨c', e2⟩, e3, e4⟩ := ih (refineStep m) _ hinv' (by omega)
      refine ⟨j + 1, ?_, ⟨c', ?_⟩, ?_, ?_⟩
      · rw [e1]; simp only [Function.iterate_succ_apply]
      · simpa only [Function.iterate_succ_apply] using e2
      · simpa only [Function.iterate_succ_apply] using e3
      · intro i hi
        cases i with
        | zero => simpa using hstop
        | succ i =>
          have := e4 i (by omega)
          simpa only [Function.iterate_succ_apply] using this

/-- what is preserved by any number of refinement rounds: well-formedness, the atoms, all attributes
other than "partition", the bonds; and the classes only ever get finer -/
theorem iterate_frame {n : Nat} {m : Graph} {c : Nat} (hinv : Inv n m c) (j : Nat) :
    (∃ c', Inv n (refineStep^[j] m) c') ∧ (refineStep^[j] m).nodeList = m.nodeList ∧
    (∀ a k', k' ≠ "partition" → (refineStep^[j] m).attr a k' = m.attr a k') ∧
    (∀ a, ((refineStep^[j] m).nbrs a).Perm (m.nbrs a)) ∧
    (∀ a ∈ m.nodeList, ∀ b ∈ m.nodeList,
      (refineStep^[j] m).attr a "partition" = (refineStep^[j] m).attr b "partition" →
      m.attr a "partition" = m.attr b "partition") := by
  induction j with
  | zero => exact ⟨⟨c, hinv⟩, rfl, fun _ _ _ => rfl, fun _ => List.Perm.refl _, fun _ _ _ _ h => h⟩
  | succ j ih =>
    obtain ⟨⟨c', hi⟩, h1, h2, h3, h4⟩ := ih
    rw [Function.iterate_succ_apply']
    have s := partGraph_spec hi.wf "partition"
    refine ⟨⟨_, hi.step.1⟩, s.nodes.trans h1, ?_, ?_, ?_⟩
    · intro a k' hk'; exact (s.frame a k' hk').trans (h2 a k' hk')
    · intro a; exact (s.nbrs a).trans (h3 a)
    · intro a ha b hb hab
      apply h4 a ha b hb
      rw [← h1] at ha hb
      exact (partSpec_refines s hi.dense.carries ha hb hab).1

/-- the graph yielded by `refine_partitions m` -/
def refineResult (m : Graph) : Graph := refineSpec (m.nodeList.length + 1) m

/-- what the caller may rely on about the refined graph `r` made from `m` -/
structure RefineSpec (m r : Graph) : Prop where
  wf : r.WF
  nodes : r.nodeList = m.nodeList
  frame : ∀ a k', k' ≠ "partition" → r.attr a k' = m.attr a k'
  nbrs : ∀ a, (r.nbrs a).Perm (m.nbrs a)
  /-- the classes are again exactly `0..c'-1` -/
  dense : Dense r (numClasses r)
  /-- the classes refine the classes of the input -/
  refines : ∀ a ∈ m.nodeList, ∀ b ∈ m.nodeList, r.attr a "partition" = r.attr b "partition" →
    m.attr a "partition" = m.attr b "partition"
  /-- atoms of one class see the same multiset of classes among their neighbours -/
  equitable : Equitable r
  /-- one more refinement round would change nothing -/
  fixpoint : ∀ r', PartSpec r "partition" r' → ∀ a ∈ r.nodeList, r'.attr a "partition" = r.attr a "partition"
  /-- `r` is reached by iterating the refinement round, stopping at the first round that does not
  increase the number of classes -/
  iter : ∃ j, r = refineStep^[j + 1] m ∧ numClasses (refineStep^[j + 1] m) = numClasses (refineStep^[j] m) ∧
    ∀ i < j, numClasses (refineStep^[i + 1] m) ≠ numClasses (refineStep^[i] m)

theorem refineSpec_spec {n : Nat} {m : Graph} {c : Nat} (hinv : Inv n m c) (f : Nat) (hf : f + c ≥ n + 1) :
    RefineSpec m (refineSpec f m) := by
  obtain ⟨j, e1, ⟨c', e2⟩, e3, e4⟩ := refineSpec_iterate n f m c hinv hf
  obtain ⟨_, f1, f2, f3, f4⟩ := iterate_frame hinv (j + 1)
  obtain ⟨_, g1, _, _, _⟩ := iterate_frame hinv j
  rw [← e1] at f1 f2 f3 f4
  have s := partGraph_spec e2.wf "partition"
  have hst := e2.step
  have hcnt : (seqs (refineStep^[j] m) "partition").dedup.length = c' := by
    rw [← hst.2.2.2, ← e2.dense.numClasses]
    rw [Function.iterate_succ_apply'] at e3
    exact e3
  obtain ⟨_, r2, r3⟩ := round_stop e2.wf e2.dense s hcnt
  have er : refineSpec f m = refineStep (refineStep^[j] m) := by
    rw [e1, Function.iterate_succ_apply']
  refine ⟨?_, f1, f2, f3, ?_, f4, ?_, ?_, ⟨j, e1, e3, e4⟩⟩
  · rw [er]; exact hst.1.wf
  · rw [er]; exact hst.1.dense
  · rw [er]; exact r2
  · rw [er]; exact r3

/-- Contract of `refine_partitions` (total correctness): for a well-formed, non-empty molecule whose
"partition" values are exactly `0..c-1` (what `partition_molecule_by_attribute` produces), and any
fuel ≥ number of atoms + 1, exactly one graph is yielded; it is the same for every such fuel; and
it satisfies `RefineSpec`. -/
theorem refine_ok (env : DepEnv) (hs : env.SetLawful) {m : Graph} {c : Nat} (hw : m.WF) (hd : Dense m c)
    (hc : 1 ≤ c) (fuel : Nat) (hf : fuel ≥ m.nodeList.length + 1) :
    Tucan.canonicalization.refine_partitions env fuel m = .ok [refineResult m] ∧
      RefineSpec m (refineResult m) := by
  have hinv : Inv m.nodeList.length m c := ⟨hw, hd, rfl, hc⟩
  refine ⟨?_, refineSpec_spec hinv _ (by omega)⟩
  rw [refine_eq env hs hinv fuel hf]
  unfold refineResult
  rw [refineSpec_fuel _ fuel (m.nodeList.length + 1) m c hinv (by omega) (by omega)]

/-- C13 (stability under refinement): in the graph yielded by `refine_partitions`, atoms of one
class see the same multiset of classes among their neighbours. -/
theorem refine_equitable (env : DepEnv) (hs : env.SetLawful) {m : Graph} {c : Nat} (hw : m.WF)
    (hd : Dense m c) (hc : 1 ≤ c) (fuel : Nat) (hf : fuel ≥ m.nodeList.length + 1) :
    ∃ r, Tucan.canonicalization.refine_partitions env fuel m = .ok [r] ∧
      ∀ a ∈ r.nodeList, ∀ b ∈ r.nodeList, r.attr a "partition" = r.attr b "partition" →
        sortedRev ((r.nbrs a).map (attrV r "partition")) = sortedRev ((r.nbrs b).map (attrV r "partition")) := by
  obtain ⟨h1, h2⟩ := refine_ok env hs hw hd hc fuel hf
  exact ⟨_, h1, h2.equitable⟩

/-! ### label independence through the iteration -/

theorem iso_numClasses {g h : Graph} {π : Int → Int} (hiso : Graph.IsIsoOn "partition" π g h) :
    numClasses h = numClasses g := by
  unfold numClasses
  have hp : (h.nodeList.map (attrV h "partition")).Perm (g.nodeList.map (attrV g "partition")) := by
    refine (hiso.nodes.map _).trans ?_
    rw [List.map_map, List.map_congr_left]
    intro a ha
    exact iso_attrV hiso ha
  exact (hp.dedup).length_eq

theorem refineSpec_iso {π : Int → Int} : ∀ (f : Nat) (g h : Graph), g.WF → h.WF →
    Graph.IsIsoOn "partition" π g h → Graph.IsIsoOn "partition" π (refineSpec f g) (refineSpec f h) := by
  intro f
  induction f with
  | zero => intro g h _ _ hiso; exact hiso
  | succ f ih =>
    intro g h hg hh hiso
    have sg := partGraph_spec hg "partition"
    have sh := partGraph_spec hh "partition"
    have hiso' : Graph.IsIsoOn "partition" π (refineStep g) (refineStep h) := partSpec_iso hg hiso sg sh
    simp only [refineSpec]
    rw [iso_numClasses hiso, iso_numClasses hiso']
    by_cases hstop : numClasses (refineStep g) = numClasses g
    · simp only [hstop, if_true]; exact hiso'
    · simp only [hstop, if_false]; exact ih _ _ sg.wf sh.wf hiso'

/-- C13 through the refinement loop: if `h` is `g` renumbered by `π` / reordered, the refined graphs
correspond under `π`, in particular atom `π a` of `h` ends up in the same class as atom `a` of `g`. -/
theorem refine_label_independent (env₁ env₂ : DepEnv) (hs₁ : env₁.SetLawful) (hs₂ : env₂.SetLawful)
    {g h : Graph} {π : Int → Int} {c c' : Nat} (hg : g.WF) (hh : h.WF) (dg : Dense g c) (dh : Dense h c')
    (hc : 1 ≤ c) (hiso : Graph.IsIsoOn "partition" π g h)
    (fuel₁ fuel₂ : Nat) (hf₁ : fuel₁ ≥ g.nodeList.length + 1) (hf₂ : fuel₂ ≥ h.nodeList.length + 1) :
    ∃ rg rh, Tucan.canonicalization.refine_partitions env₁ fuel₁ g = .ok [rg] ∧
      Tucan.canonicalization.refine_partitions env₂ fuel₂ h = .ok [rh] ∧
      Graph.IsIsoOn "partition" π rg rh ∧
      ∀ a ∈ g.nodeList, rh.attr (π a) "partition" = rg.attr a "partition" := by
  have hcc : c' = c := by rw [← dh.numClasses, ← dg.numClasses]; exact iso_numClasses hiso
  subst hcc
  have hlen : h.nodeList.length = g.nodeList.length := by
    rw [hiso.nodes.length_eq, List.length_map]
  obtain ⟨e1, s1⟩ := refine_ok env₁ hs₁ hg dg hc fuel₁ hf₁
  obtain ⟨e2, s2⟩ := refine_ok env₂ hs₂ hh dh hc fuel₂ hf₂
  have hiso' : Graph.IsIsoOn "partition" π (refineResult g) (refineResult h) := by
    unfold refineResult; rw [hlen]; exact refineSpec_iso _ g h hg hh hiso
  refine ⟨_, _, e1, e2, hiso', ?_⟩
  intro a ha
  rw [← s1.nodes] at ha
  exact hiso'.attr a ha

/-! ### the way `canonicalize_molecule` uses the two functions -/

/-- the output of `partition_molecule_by_attribute` on a non-empty molecule meets the precondition
of `refine_partitions` -/
theorem PartSpec.refine_pre {m r : Graph} {k : String} (s : PartSpec m k r) (hne : m.nodeList ≠ []) :
    r.WF ∧ Dense r (seqs m k).dedup.length ∧ 1 ≤ (seqs m k).dedup.length := by
  refine ⟨s.wf, s.dense, ?_⟩
  obtain ⟨a, ha⟩ := List.exists_mem_of_ne_nil _ hne
  have : seq m k a ∈ (seqs m k).dedup := List.mem_dedup.2 (mem_seqs ha)
  exact List.length_pos_of_mem this

/-- C13 for the whole partitioning phase of `canonicalize_molecule` (partition by `k`, then refine):
total correctness, and the final class of an atom does not depend on numbering or iteration orders. -/
theorem partition_refine_label_independent (env₁ env₂ : DepEnv) (hs₁ : env₁.SetLawful) (hs₂ : env₂.SetLawful)
    {g h : Graph} {k : String} {π : Int → Int} (hg : g.WF) (hh : h.WF) (cg : Carries g k) (ch : Carries h k)
    (hne : g.nodeList ≠ []) (hiso : Graph.IsIsoOn k π g h)
    (fuel₁ fuel₂ : Nat) (hf₁ : fuel₁ ≥ g.nodeList.length + 1) (hf₂ : fuel₂ ≥ h.nodeList.length + 1) :
    ∃ pg ph rg rh,
      Tucan.canonicalization.partition_molecule_by_attribute env₁ g k = .ok pg ∧
      Tucan.canonicalization.partition_molecule_by_attribute env₂ h k = .ok ph ∧
      Tucan.canonicalization.refine_partitions env₁ fuel₁ pg = .ok [rg] ∧
      Tucan.canonicalization.refine_partitions env₂ fuel₂ ph = .ok [rh] ∧
      RefineSpec pg rg ∧ RefineSpec ph rh ∧
      ∀ a ∈ g.nodeList, rh.attr (π a) "partition" = rg.attr a "partition" := by
  obtain ⟨pg, e1, sg⟩ := partition_ok env₁ hs₁ hg k cg
  obtain ⟨ph, e2, sh⟩ := partition_ok env₂ hs₂ hh k ch
  have hne' : h.nodeList ≠ [] := by
    intro hnil
    have := hiso.nodes.length_eq
    rw [hnil, List.length_map] at this
    exact hne (List.eq_nil_of_length_eq_zero this.symm)
  obtain ⟨w1, d1, p1⟩ := sg.refine_pre hne
  obtain ⟨w2, d2, p2⟩ := sh.refine_pre hne'
  have hiso' := partSpec_iso hg hiso sg sh
  obtain ⟨rg, rh, r1, r2, _, r4⟩ := refine_label_independent env₁ env₂ hs₁ hs₂ w1 w2 d1 d2 p1 hiso'
    fuel₁ fuel₂ (by rw [sg.nodes]; exact hf₁) (by rw [sh.nodes]; exact hf₂)
  have q1 := refine_ok env₁ hs₁ w1 d1 p1 fuel₁ (by rw [sg.nodes]; exact hf₁)
  have q2 := refine_ok env₂ hs₂ w2 d2 p2 fuel₂ (by rw [sh.nodes]; exact hf₂)
  have er1 : rg = refineResult pg := by
    have := r1.symm.trans q1.1; simpa using this
  have er2 : rh = refineResult ph := by
    have := r2.symm.trans q2.1; simpa using this
  refine ⟨pg, ph, rg, rh, e1, e2, r1, r2, er1 ▸ q1.2, er2 ▸ q2.2, ?_⟩
  intro a ha
  rw [← sg.nodes] at ha
  exact r4 a ha

/-- `refine_partitions` rejects the empty molecule with `ValueError` (raised by `max` of an empty
sequence in `get_number_of_partitions`) -/
theorem refine_empty (env : DepEnv) (hs : env.SetLawful) {m : Graph} (hw : m.WF) (hnil : m.nodeList = [])
    (fuel : Nat) :
    Tucan.canonicalization.refine_partitions env (fuel + 1) m = .error Err.value := by
  have hc : Carries m "partition" := by intro a ha; rw [hnil] at ha; cases ha
  have s := partGraph_spec hw "partition"
  have hpv : partValues (partGraph m "partition") = [] := by
    have h1 : (partGraph m "partition").nodeList = [] := s.nodes.trans hnil
    unfold Graph.nodeList Dict.keys at h1
    unfold partValues
    rw [List.map_eq_nil_iff.1 h1]; rfl
  simp only [Tucan.canonicalization.refine_partitions, List.range_succ_eq_map, List.forIn_cons,
    partition_eq env hs hw "partition" hc, Py.ok_bind,
    get_number_of_partitions_empty env _ hpv, Py.error_bind]

/-! ## axioms -/
#print axioms attribute_sequence_ok
#print axioms attribute_sequence_perm
#print axioms partition_ok
#print axioms partition_label_independent
#print axioms partition_automorphism
#print axioms partition_refines
#print axioms get_number_of_partitions_ok
#print axioms refine_ok
#print axioms refine_equitable
#print axioms refine_label_independent
#print axioms partition_refine_label_independent
#print axioms refine_empty

end Contracts.Partition
