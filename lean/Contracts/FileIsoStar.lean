/-
Contracts.FileIsoStar — C01 and C06 for molfile texts whose V3000 connection tables MAY CONTAIN STAR ATOMS
(multi-attachment bonds, `ENDPTS=`): lifts `FileIso.C01_C06_files` from `Ctab.Plain` to `C07Star.Starry`.

 1. `LinkedPos`, `IdentityIsoStar C C' σ`   the relation "same molecule" over the NON-STAR atom lines: `σ` is a
    bijection of their positions, corresponding lines have the same normalised identity, two positions are linked
    (`C07Star.linked`: by an ordinary bond line, or through a star atom and its `ENDPTS` list) in `C` iff the
    corresponding positions are linked in `C'`.
    Free: everything that is free in `FileIso.IdentityIso`, and the number / position / index / `ENDPTS` spelling of
    the star atoms, and whether a bond is written as an ordinary bond line or through a star atom.
 2. `IdentityIsoStar.valid`   validity (`¬ NegMassRad`, `¬ SelfLink`) transfers from `C` to `C'`.
 3. `C01_C06_files_star`   both files are read, one common TUCAN string.
 4. `plain_is_special_case`   `FileIso.IdentityIso` on star-free tables is an `IdentityIsoStar`.
 5. `star_witness`, `files_star_witness`   non-vacuity: `C07Star.starCtab` (one star bond `4 — * ENDPTS=(2 1 3)`) and a
    star-free table with the atom lines permuted and the star bond expanded into two ordinary bond lines satisfy
    `IdentityIsoStar` and every other hypothesis of `C01_C06_files_star`.
-/
import Contracts.FileIso
import Contracts.C07Star
import Contracts.ReaderPost
import Contracts.Witness
set_option autoImplicit false

open Py Py.Graph Contracts

namespace Contracts.FileIsoStar
open Contracts.FinalLabels (fuelBound)
open Contracts.Pipeline (tucan)
open Contracts.RoundTrip (idKeys)
open Contracts.Final (IdOK)
open Contracts.V3000 (AtomLine BondLine intOf)
open Contracts.Reader (Ctab attrsOf Dress fileLines IsSep)
open Contracts.FileIso (PosIso liftPos identityOf IdentityIso BondedPos tucan_eq_of_posIso attr_of_withCode
  attrsOf_congr negMassRad_iff getElem?_of_lt bondedPos_iff)
open Contracts.C07Star (Starry real realIdx starIdx linked bondLinks NegMassRad SelfLink)

/-! ## 1. the relation -/

/-- the non-star atom lines at positions `i` and `j` (positions among the non-star atom lines, in file order) are
linked by some bond line — an ordinary one, or one to a star atom whose `ENDPTS` list names the other atom -/
def LinkedPos (C : Ctab) (i j : Nat) : Prop :=
  ∃ a b, (real C)[i]? = some a ∧ (real C)[j]? = some b ∧ linked C (intOf a.idx) (intOf b.idx)

/-- **two connection tables, possibly with star atoms, describe the same molecule**, non-star atom position `i` of
`C` being non-star atom position `σ i` of `C'` -/
structure IdentityIsoStar (C C' : Ctab) (σ : Nat → Nat) : Prop where
  natoms : (real C').length = (real C).length
  pos : PosIso (real C).length σ
  atoms : ∀ (i : Nat) a a', (real C)[i]? = some a → (real C')[σ i]? = some a' → identityOf a' = identityOf a
  links : ∀ i < (real C).length, ∀ j < (real C).length, (LinkedPos C i j ↔ LinkedPos C' (σ i) (σ j))

theorem linkedPos_iff {C : Ctab} {i j : Nat} {a b : AtomLine} (ha : (real C)[i]? = some a)
    (hb : (real C)[j]? = some b) : LinkedPos C i j ↔ linked C (intOf a.idx) (intOf b.idx) := by
  constructor
  · rintro ⟨a₀, b₀, ha₀, hb₀, hj⟩
    rw [ha] at ha₀; rw [hb] at hb₀
    cases ha₀; cases hb₀; exact hj
  · intro hj; exact ⟨a, b, ha, hb, hj⟩

/-! ## 2. validity transfers -/

namespace IdentityIsoStar
variable {C C' : Ctab} {σ : Nat → Nat}

/-- every non-star atom line of `C'` corresponds to one of `C` -/
theorem preimage (hs : IdentityIsoStar C C' σ) {a' : AtomLine} (ha' : a' ∈ real C') :
    ∃ (i : Nat) (a : AtomLine), i < (real C).length ∧ (real C)[i]? = some a ∧ (real C')[σ i]? = some a' := by
  obtain ⟨q, hq, rfl⟩ := List.getElem_of_mem ha'
  obtain ⟨i, hi, rfl⟩ := hs.pos.surj q (hs.natoms ▸ hq)
  exact ⟨i, (real C)[i], hi, getElem?_of_lt _ hi, getElem?_of_lt _ hq⟩

/-- if `C` is valid (no negative isotope mass / radical state on a non-star atom, no bond line linking an atom to
itself), so is every `C'` describing the same molecule -/
theorem valid (env' : DepEnv) (h' : Starry env' C') (hs : IdentityIsoStar C C' σ) (hneg : ¬ NegMassRad C)
    (hself : ¬ SelfLink C) : ¬ NegMassRad C' ∧ ¬ SelfLink C' := by
  constructor
  · unfold NegMassRad at hneg ⊢
    rw [negMassRad_iff] at hneg ⊢
    rintro ⟨a', ha', hbad⟩
    obtain ⟨i, a, _, hia, hia'⟩ := hs.preimage ha'
    exact hneg ⟨a, List.mem_of_getElem? hia, by rw [← hs.atoms i a a' hia hia']; exact hbad⟩
  · rintro ⟨b', hb', p, hp, he⟩
    obtain ⟨m1, _⟩ := h'.ends b' hb' p hp
    obtain ⟨a', ha', hidx⟩ := List.mem_map.mp m1
    obtain ⟨i, a, hi, hia, hia'⟩ := hs.preimage ha'
    have hpp : p = (intOf a'.idx, intOf a'.idx) := by
      rw [hidx]; exact Prod.ext rfl he.symm
    have hl' : LinkedPos C' (σ i) (σ i) := ⟨a', a', hia', hia', b', hb', Or.inl (hpp ▸ hp)⟩
    obtain ⟨b, hb, hbb⟩ := (linkedPos_iff hia hia).1 ((hs.links i hi i hi).2 hl')
    exact hself ⟨b, hb, (intOf a.idx, intOf a.idx), by rcases hbb with h | h <;> exact h, rfl⟩

end IdentityIsoStar

/-! ## 3. the file-level theorem -/

/-- **C01 + C06 for molfile texts, star atoms included.** Two V3000 molfiles — each any rendering (`Dress`: header /
comment lines, blank runs, trailing blanks, continuation cut points, further V30 lines and blocks, trailing lines;
line endings LF, CRLF or CR, possibly different in the two files) of a readable connection table that may contain
star atoms (`Starry`, each readable under its own `float`) — describing the same molecule (`IdentityIsoStar C C' σ`),
`C` valid with at least one non-star atom: **both texts are read successfully**, the second graph is the first
renumbered by `σ` with the identity attributes and the invariant code carried along, and **the pipeline gives both
graphs one and the same TUCAN string** (any two lawful `set` orders, any sufficient fuels).
`FileIso.C01_C06_files` is the star-free case (`plain_is_special_case`, `C07Star.starry_of_plain`). -/
theorem C01_C06_files_star {env₁ env₂ : DepEnv} (envr envr' : DepEnv) (hs₁ : env₁.SetLawful) (hs₂ : env₂.SetLawful)
    (hb : BlissLawful env₁) (hcp : env₂.canonicalPermutation = env₁.canonicalPermutation)
    (hpv : env₂.permuteVertices = env₁.permuteVertices)
    (C C' : Ctab) (h : Starry envr C) (h' : Starry envr' C') (σ : Nat → Nat) (hiso : IdentityIsoStar C C' σ)
    (hneg : ¬ NegMassRad C) (hself : ¬ SelfLink C) (hne : real C ≠ [])
    (sep sep' : Str) (hsep : IsSep sep) (hsep' : IsSep sep') (D D' : Dress)
    (hok : D.OK C) (hok' : D'.OK C') (hnb : D.NoBreaks C) (hnb' : D'.NoBreaks C')
    (hB : ∀ b ∈ C.bonds, b.Shape) (hB' : ∀ b ∈ C'.bonds, b.Shape) (rf rf' : Nat)
    (hrf : ((fileLines C D).drop 4).length + 1 ≤ rf) (hrf' : ((fileLines C' D').drop 4).length + 1 ≤ rf') :
    ∃ g g', Tucan.molfile_reader.graph_from_molfile_text envr rf (join sep (fileLines C D ++ [[]])) = .ok g ∧
      Tucan.molfile_reader.graph_from_molfile_text envr' rf' (join sep' (fileLines C' D' ++ [[]])) = .ok g' ∧
      (∀ k ∈ idKeys ++ ["invariant_code"], IsIsoOn k (liftPos σ) g g') ∧ fuelBound g' = fuelBound g ∧
      ∀ fuel ≥ fuelBound g, ∀ fuel' ≥ fuelBound g, ∃ s, tucan env₁ fuel g = .ok s ∧ tucan env₂ fuel' g' = .ok s := by
  obtain ⟨g, e, _, ng, ag, bg, _⟩ :=
    C07Star.graph_from_molfile_text_render_star envr rf sep hsep C D hok hnb hB hrf h hneg hself
  obtain ⟨_, ok, _, _⟩ := ReaderPost.graph_from_molfile_text_post envr rf _ g e
  obtain ⟨hneg', hself'⟩ := hiso.valid envr' h' hneg hself
  obtain ⟨g', e', wg', ng', ag', bg', _⟩ :=
    C07Star.graph_from_molfile_text_render_star envr' rf' sep' hsep' C' D' hok' hnb' hB' hrf' h' hneg' hself'
  rw [hiso.natoms] at ng'
  have hpos : 0 < (real C).length := List.length_pos_iff.mpr hne
  refine ⟨g, g', e, e', tucan_eq_of_posIso hs₁ hs₂ hb hcp hpv ok wg' ng ng' hpos hiso.pos ?_ ?_⟩
  · intro i hi
    have hi' : σ i < (real C').length := hiso.natoms ▸ hiso.pos.maps i hi
    have ha := getElem?_of_lt (real C) hi
    have ha' := getElem?_of_lt (real C') hi'
    exact attr_of_withCode (ag i _ ha) (ag' (σ i) _ ha') (attrsOf_congr envr envr' _ _ (hiso.atoms i _ _ ha ha'))
  · intro i hi j hj
    have hi' : σ i < (real C').length := hiso.natoms ▸ hiso.pos.maps i hi
    have hj' : σ j < (real C').length := hiso.natoms ▸ hiso.pos.maps j hj
    have ha := getElem?_of_lt (real C) hi
    have hb := getElem?_of_lt (real C) hj
    have ha' := getElem?_of_lt (real C') hi'
    have hb' := getElem?_of_lt (real C') hj'
    rw [bg i j _ _ ha hb, bg' (σ i) (σ j) _ _ ha' hb', ← linkedPos_iff ha hb, ← linkedPos_iff ha' hb']
    exact (hiso.links i hi j hj).symm

/-! ## 4. the star-free case -/

theorem real_of_plain {env : DepEnv} {C : Ctab} (h : C.Plain env) : real C = C.atoms := by
  unfold real
  exact List.filter_eq_self.mpr (fun a ha => by simpa using h.nostar a ha)

theorem linked_of_plain {env : DepEnv} {C : Ctab} (h : C.Plain env) (m n : Int) : linked C m n ↔ C.joined m n := by
  have hs : starIdx C = [] := by
    unfold starIdx
    rw [List.filter_eq_nil_iff.mpr (fun a ha => by simpa using h.nostar a ha)]; rfl
  unfold linked Ctab.joined
  refine exists_congr (fun b => and_congr_right (fun _ => ?_))
  simp only [bondLinks, hs, List.not_mem_nil, if_false, List.mem_singleton, Prod.mk.injEq]
  constructor
  · rintro (⟨e1, e2⟩ | ⟨e1, e2⟩)
    · exact Or.inl ⟨e1.symm, e2.symm⟩
    · exact Or.inr ⟨e1.symm, e2.symm⟩
  · rintro (⟨e1, e2⟩ | ⟨e1, e2⟩)
    · exact Or.inl ⟨e1.symm, e2.symm⟩
    · exact Or.inr ⟨e1.symm, e2.symm⟩

theorem linkedPos_of_plain {env : DepEnv} {C : Ctab} (h : C.Plain env) (i j : Nat) :
    LinkedPos C i j ↔ BondedPos C i j := by
  unfold LinkedPos BondedPos
  rw [real_of_plain h]
  simp only [linked_of_plain h]

/-- on star-free tables `FileIso.IdentityIso` is an `IdentityIsoStar`: `C01_C06_files_star` generalises
`FileIso.C01_C06_files` -/
theorem plain_is_special_case {env env' : DepEnv} {C C' : Ctab} {σ : Nat → Nat} (h : C.Plain env)
    (h' : C'.Plain env') (hs : IdentityIso C C' σ) : IdentityIsoStar C C' σ where
  natoms := by rw [real_of_plain h, real_of_plain h']; exact hs.natoms
  pos := by rw [real_of_plain h]; exact hs.pos
  atoms := by rw [real_of_plain h, real_of_plain h']; exact hs.atoms
  links := by
    intro i hi j hj
    rw [real_of_plain h] at hi hj
    rw [linkedPos_of_plain h, linkedPos_of_plain h']
    exact hs.bonds i hi j hj

/-! ## 5. non-vacuity: a file with a star atom and a star-free file of the same molecule -/

section Witness
open Contracts.V3000 (hydrogenIsotope atomicNumber_known)
open Contracts.Reader (isSep_crlf isSep_lf)
open Contracts.C07Star (starCtab real_starCtab starDress starDress_ok starDress_noBreaks
  starCtab_bondShape starCtab_starry starCtab_notNeg noDash_of_check)
open Contracts.Witness (env0 env1 env0_set env1_set env0_bliss env1_cp env1_pv isInt_of_eq)

instance (C : Ctab) (m n : Int) : Decidable (linked C m n) := by unfold linked; infer_instance

/-- Boolean form of `LinkedPos` -/
def linkedPosB (C : Ctab) (i j : Nat) : Bool :=
  match (real C)[i]?, (real C)[j]? with
  | some a, some b => decide (linked C (intOf a.idx) (intOf b.idx))
  | _, _ => false

theorem linkedPos_iff_B (C : Ctab) (i j : Nat) : LinkedPos C i j ↔ linkedPosB C i j = true := by
  unfold LinkedPos linkedPosB
  cases hi : (real C)[i]? with
  | none => simp
  | some a =>
    cases hj : (real C)[j]? with
    | none => simp
    | some b => simp

/-- the molecule of `C07Star.starCtab` written without a star atom: Fe first (index 1), then the two carbons
(indices 2 and 3; first the one `starCtab` writes with `CHG=-1`, here without `CHG=` and with an explicit `RAD=0`); other
coordinates; the multi-attachment bond `4 — * ENDPTS=(2 1 3)` expanded into the two
ordinary bond lines `1 — 3`, `2 — 1`; the C–C bond written `3 — 2` with type 2 -/
def expandedCtab : Ctab :=
  ⟨[⟨py!"1", py!"Fe", py!"5", py!"5", py!"0", py!"0", []⟩,
    ⟨py!"2", py!"C", py!"0", py!"1", py!"0", py!"0", [⟨py!"RAD", py!"0", []⟩]⟩,
    ⟨py!"3", py!"C", py!"0", py!"0", py!"0", py!"0", []⟩],
   [⟨py!"1", py!"1", py!"1", py!"3", [], none⟩,
    ⟨py!"2", py!"1", py!"2", py!"1", [], none⟩,
    ⟨py!"3", py!"2", py!"3", py!"2", [], none⟩]⟩

/-- position 0 (C, index 1) ↦ 2, position 1 (C⁻, index 3) ↦ 1, position 2 (Fe, index 4) ↦ 0 -/
def sigmaW (i : Nat) : Nat := 2 - i

theorem star_witness : IdentityIsoStar starCtab expandedCtab sigmaW where
  natoms := by decide
  pos := ⟨by decide, by decide⟩
  atoms := by
    intro i a a' ha ha'
    have hi : i < 3 := (List.getElem?_eq_some_iff.mp ha).1
    interval_cases i
    · cases ha; cases ha'; decide
    · cases ha; cases ha'; decide
    · cases ha; cases ha'; decide
  links := by
    intro i hi j hj
    rw [linkedPos_iff_B, linkedPos_iff_B]
    revert i j
    decide
theorem expanded_plain : expandedCtab.Plain env0 where
  wf := by
    intro a ha
    simp only [expandedCtab, List.mem_cons, List.not_mem_nil, or_false] at ha
    rcases ha with rfl | rfl | rfl
    · refine ⟨isInt_of_eq (n := 1) (by decide), by decide, by decide, by decide, by decide, by decide, ?_, by decide⟩
      intro p hp _; simp at hp
    · refine ⟨isInt_of_eq (n := 2) (by decide), by decide, by decide, by decide, by decide, by decide, ?_, by decide⟩
      intro p hp _
      simp only [List.mem_cons, List.not_mem_nil, or_false] at hp
      subst hp; exact isInt_of_eq (n := 0) (by decide)
    · refine ⟨isInt_of_eq (n := 3) (by decide), by decide, by decide, by decide, by decide, by decide, ?_, by decide⟩
      intro p hp _; simp at hp
  nostar := by decide
  known := by
    intro a ha
    simp only [expandedCtab, List.mem_cons, List.not_mem_nil, or_false] at ha
    rcases ha with rfl | rfl | rfl
    · obtain ⟨n, hn⟩ := atomicNumber_known py!"Fe" (by decide)
      exact ⟨_, (by decide : (hydrogenIsotope py!"Fe").1 = py!"Fe") ▸ hn⟩
    · obtain ⟨n, hn⟩ := atomicNumber_known py!"C" (by decide)
      exact ⟨_, (by decide : (hydrogenIsotope py!"C").1 = py!"C") ▸ hn⟩
    · obtain ⟨n, hn⟩ := atomicNumber_known py!"C" (by decide)
      exact ⟨_, (by decide : (hydrogenIsotope py!"C").1 = py!"C") ▸ hn⟩
  coords := fun a _ => ⟨⟨_, rfl⟩, ⟨_, rfl⟩, ⟨_, rfl⟩⟩
  uniq := by decide
  bondInts := by
    intro b hb
    simp only [expandedCtab, List.mem_cons, List.not_mem_nil, or_false] at hb
    rcases hb with rfl | rfl | rfl
    · exact ⟨isInt_of_eq (n := 1) (by decide), isInt_of_eq (n := 3) (by decide), isInt_of_eq (n := 1) (by decide)⟩
    · exact ⟨isInt_of_eq (n := 2) (by decide), isInt_of_eq (n := 1) (by decide), isInt_of_eq (n := 1) (by decide)⟩
    · exact ⟨isInt_of_eq (n := 3) (by decide), isInt_of_eq (n := 2) (by decide), isInt_of_eq (n := 2) (by decide)⟩
  bondEnds := by decide

/-- other header lines, no continuation cuts -/
def expandedDress : Dress where
  h0 := py!"ferrocene fragment, expanded"
  h1 := py!"  prog"
  h2 := py!""
  h3 := py!"  0  0  0     0  0            999 V3000"
  cntA := py!"3"
  cntB := py!"3"
  cntRest := [py!"0", py!"0", py!"0"]
  extra := [[py!"END", py!"CTAB"]]
  tail := [py!"M  END"]
  spell := fun _ => {}

theorem expandedDress_ok : expandedDress.OK expandedCtab where
  ver := by decide
  tail := by decide
  clean := by decide
  nodash := noDash_of_check _ _ (by decide)
  cntA := by decide
  cntB := by decide

theorem expandedDress_noBreaks : expandedDress.NoBreaks expandedCtab where
  hdr := by decide
  toks := by decide
  tail := by decide

theorem expanded_bondShape : ∀ b ∈ expandedCtab.bonds, b.Shape := by
  intro b hb
  simp only [expandedCtab, List.mem_cons, List.not_mem_nil, or_false] at hb
  rcases hb with rfl | rfl | rfl
  · exact ⟨by decide, by intro nums post h; cases h⟩
  · exact ⟨by decide, by intro nums post h; cases h⟩
  · exact ⟨by decide, by intro nums post h; cases h⟩

/-- **`C01_C06_files_star`, instance**: the CRLF file of `starCtab` (star atom, multi-attachment bond, a cut inside
`ENDPTS`) and the LF file of `expandedCtab` (no star atom, atom lines in another order) are both read and get the
same TUCAN string, under two `set` orders. -/
theorem files_star_witness :
    ∃ g g', Tucan.molfile_reader.graph_from_molfile_text env0 (((fileLines starCtab starDress).drop 4).length + 1)
        (join py!"\r\n" (fileLines starCtab starDress ++ [[]])) = .ok g ∧
      Tucan.molfile_reader.graph_from_molfile_text env0 (((fileLines expandedCtab expandedDress).drop 4).length + 1)
        (join py!"\n" (fileLines expandedCtab expandedDress ++ [[]])) = .ok g' ∧ fuelBound g' = fuelBound g ∧
      ∀ fuel ≥ fuelBound g, ∀ fuel' ≥ fuelBound g, ∃ s, tucan env0 fuel g = .ok s ∧ tucan env1 fuel' g' = .ok s := by
  obtain ⟨g, g', e, e', _, fb, run⟩ := C01_C06_files_star env0 env0 env0_set env1_set env0_bliss env1_cp env1_pv
    starCtab expandedCtab starCtab_starry (C07Star.starry_of_plain _ _ expanded_plain) sigmaW star_witness
    starCtab_notNeg (by decide) (by decide) _ _ isSep_crlf isSep_lf starDress expandedDress starDress_ok
    expandedDress_ok starDress_noBreaks expandedDress_noBreaks starCtab_bondShape expanded_bondShape _ _
    (le_refl _) (le_refl _)
  exact ⟨g, g', e, e', fb, run⟩

end Witness

#print axioms Contracts.FileIsoStar.C01_C06_files_star
#print axioms Contracts.FileIsoStar.plain_is_special_case
#print axioms Contracts.FileIsoStar.star_witness
#print axioms Contracts.FileIsoStar.files_star_witness

end Contracts.FileIsoStar
