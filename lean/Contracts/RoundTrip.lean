/-
Contracts.RoundTrip — properties C03 and C02 (and the semantic half of C11).

C03: parsing the TUCAN string produced for a molecule yields a graph isomorphic to that molecule with the
same element, isotope mass and radical on every corresponding atom and the same number of atoms and bonds.
C02: molecules that are not isomorphic (as graphs coloured by element, mass, radical) get different
TUCAN strings.

1. `render : Ast → Str` (the characters of an abstract syntax tree), `astOf ms : Ast` (the syntax tree of the
   string emitted for the sorted graph `ms`), `tucanSpec_eq_render`, `astOf_wf`; `text_treeOf` (sanity:
   `render a` is the token text of `treeOf a`)
2. `SortedMol ms n` (what the serializer guarantees about the printed graph), `sortedSyms_astOf` (expanding
   the Hill formula and sorting stably by atomic number reproduces the label order), `denote_astOf`
3. `C03_iso` (listener half), `V4`, `graphFromTucan`, `C03_main`; lifted: `C03_serialize`, `C03_pipeline`
4. `C02_main` (label level, through the parser), `MolOK`, `sortedMol_sortGraph`, `serialize_molecule_sorted`,
   `C02_serialize`, `C02_pipeline`
5. `Respell`, `C11_denote`, `C11_main`: respellings denote the same molecule
6. `render_inj` (a string has one reading) ⇒ `V4_satisfiable`, and the recogniser-free versions
   `C02_main'`, `C02_serialize'`, `C02_pipeline'`
7. satisfiability of the hypotheses (`exHF`)

The ANTLR recogniser is not verified: where it is needed (C03: "parsing the string") it enters as the
hypothesis `V4 antlr` (DESIGN.md §4, V4) about an abstract `antlr : Str → Option PTree`.
-/
import Contracts.Parser
import Contracts.Layout
import Contracts.FinalLabels
import Contracts.Canonicalize
set_option autoImplicit false
set_option linter.unusedSimpArgs false
set_option linter.unusedVariables false
open Py

namespace Contracts.RoundTrip
open Contracts.Parser Contracts.Layout Contracts.Serialize
open Contracts.Partition (Carries)

/-! ## 1. rendering of the abstract syntax, written from tucan.g4 -/

/-- `cl : 'Cl' count?` -/
def renderSym (p : Str × Option Str) : Str := p.1 ++ p.2.getD []
/-- `tuple : '(' node_index '-' node_index ')'` -/
def renderTuple (t : Str × Str) : Str := py!"(" ++ t.1 ++ py!"-" ++ t.2 ++ py!")"
/-- `node_property : node_property_key '=' node_property_value` -/
def renderProp (kv : Key × Str) : Str := kv.1.text ++ py!"=" ++ kv.2
/-- `node_attribute : '(' node_index ':' node_property (',' node_property)* ')'` -/
def renderAttr (b : Str × List (Key × Str)) : Str :=
  py!"(" ++ b.1 ++ py!":" ++ join py!"," (b.2.map renderProp) ++ py!")"
/-- `tucan : sum_formula '/' tuples ('/' node_attributes)? EOF` -/
def render (a : Ast) : Str :=
  (a.formula.map renderSym).flatten ++ py!"/" ++ (a.tuples.map renderTuple).flatten ++
    (match a.attrs with
     | none => []
     | some bs => py!"/" ++ (bs.map renderAttr).flatten)

/-! ### the syntax tree of the emitted string -/

/-- a count is written only when it exceeds 1 -/
def countStr (c : Nat) : Option Str := if 1 < c then some (pyStrInt (c : Int)) else none

/-- the properties of one attribute block: mass before rad -/
def propsOf (a : Attrs) : List (Key × Str) :=
  ((a.get? "mass").map (fun v => (Key.mass, pyStr v))).toList ++
    ((a.get? "rad").map (fun v => (Key.rad, pyStr v))).toList

/-- the abstract syntax of the string emitted for the sorted graph `ms`: the Hill-ordered symbols with
their counts, the sorted normalised bonds (1-based), one block per atom that has a mass or a rad. -/
def astOf (ms : Graph) : Ast where
  formula := (hillOrder (symbolsOf ms)).map (fun s => (s, countStr ((symbolsOf ms).count s)))
  tuples := (bondList ms).map (fun e => (pyStrInt (e.1 + 1), pyStrInt (e.2 + 1)))
  attrs := if labelled ms = [] then none
    else some ((labelled ms).map (fun p => (pyStrInt (p.1 + 1), propsOf p.2)))

theorem renderSym_countStr (s : Str) (c : Nat) : renderSym (s, countStr c) = renderElem s (c : Int) := by
  unfold renderSym countStr renderElem
  by_cases h : 1 < c
  · have : (c : Int) > 1 := by omega
    simp [h, this]
  · have : ¬ (c : Int) > 1 := by omega
    simp [h, this]

theorem map_renderProp_propsOf (a : Attrs) : (propsOf a).map renderProp = renderProps a := by
  rw [renderProps_eq]
  unfold propsOf
  cases a.get? "mass" <;> cases a.get? "rad" <;> rfl

theorem blockStr_ne_nil (p : Int × Attrs) : blockStr p ≠ [] := by
  unfold blockStr; simp

theorem nodeAttrsSpec_eq_nil_iff (ms : Graph) : nodeAttrsSpec ms = [] ↔ labelled ms = [] := by
  rw [nodeAttrsSpec_eq]
  constructor
  · intro h
    cases hl : labelled ms with
    | nil => rfl
    | cons p l =>
      rw [hl] at h
      simp only [List.map_cons, List.flatten_cons, List.append_eq_nil_iff] at h
      exact absurd h.1 (blockStr_ne_nil p)
  · intro h; rw [h]; rfl

/-- **the emitted string is the rendering of `astOf ms`** -/
theorem tucanSpec_eq_render (ms : Graph) : tucanSpec ms = render (astOf ms) := by
  unfold tucanSpec render
  have h1 : sumFormulaSpec ms = (((astOf ms).formula).map renderSym).flatten := by
    rw [(formula_layout ms).1]
    simp only [astOf, List.map_map]
    congr 1
    apply List.map_congr_left
    intro s _
    simp only [Function.comp, renderSym_countStr]
  have h2 : edgeListSpec ms = (((astOf ms).tuples).map renderTuple).flatten := by
    rw [edgeListSpec_eq]
    simp only [astOf, List.map_map]
    rfl
  rw [h1, h2]
  congr 1
  by_cases hl : labelled ms = []
  · have := (nodeAttrsSpec_eq_nil_iff ms).2 hl
    simp [this, astOf, hl]
  · have hne : nodeAttrsSpec ms ≠ [] := fun h => hl ((nodeAttrsSpec_eq_nil_iff ms).1 h)
    simp only [hne, if_false, astOf, hl]
    congr 1
    rw [nodeAttrsSpec_eq, List.map_map]
    congr 1
    apply List.map_congr_left
    intro p _
    simp only [Function.comp, renderAttr, map_renderProp_propsOf, blockStr]

/-! ### numerals -/

theorem isAsciiDigit_eq (c : Char) : isAsciiDigit c = c.isDigit := by
  unfold isAsciiDigit Char.isDigit
  simp only [Char.le_def, UInt32.le_iff_toNat_le]
  rw [Bool.eq_iff_iff]
  simp

theorem pyStrInt_nat (k : Nat) : pyStrInt (k : Int) = Nat.toDigits 10 k := by
  rw [Grammar.pyStrInt_nonneg _ (by omega)]; simp

/-- `int(str(k)) = k` -/
theorem num_pyStrInt (k : Nat) : num (pyStrInt (k : Int)) = k := by
  rw [pyStrInt_nat]
  show Nat.ofDigitChars 10 (Nat.toDigits 10 k) 0 = k
  exact Nat.ofDigitChars_ten_toDigits

/-- the decimal numeral of a positive number below `10^4300` is a number of the grammar that `int` accepts -/
theorem numWf_pyStrInt (k : Nat) (h1 : 1 ≤ k) (h2 : k < 10 ^ 4300) : NumWf (pyStrInt (k : Int)) := by
  rw [pyStrInt_nat]
  refine ⟨Nat.toDigits_ne_nil, ?_, ?_, ?_⟩
  · rw [List.all_eq_true]
    intro c hc
    rw [isAsciiDigit_eq]
    exact Nat.isDigit_of_mem_toDigits (by decide) (by decide) hc
  · obtain ⟨d, ds, e, hd, _⟩ := Grammar.toDigits_shape k (by omega)
    rw [e]
    simp only [List.head?_cons, ne_eq, Option.some.injEq]
    rintro rfl
    revert hd; decide
  · exact (Nat.length_toDigits_le_iff (by decide) (by decide)).2 h2

theorem numWf_pyStrInt_int (i : Int) (h1 : 1 ≤ i) (h2 : i < 10 ^ 4300) : NumWf (pyStrInt i) := by
  obtain ⟨k, rfl⟩ : ∃ k : Nat, i = k := ⟨i.toNat, by omega⟩
  exact numWf_pyStrInt k (by omega) (by exact_mod_cast h2)

theorem num_pyStrInt_int (i : Int) (h : 0 ≤ i) : (num (pyStrInt i) : Int) = i := by
  obtain ⟨k, rfl⟩ : ∃ k : Nat, i = k := ⟨i.toNat, by omega⟩
  rw [num_pyStrInt]

/-! ### `astOf ms` is well formed -/

/-- a stored mass / rad value: a positive integer that `str`/`int` can convert -/
def SmallPos (v : Val) : Prop := ∃ i : Int, 1 ≤ i ∧ i < 10 ^ 4300 ∧ v = Val.int i

theorem SmallPos.posInt {v : Val} (h : SmallPos v) : Grammar.PosInt v := by
  obtain ⟨i, h1, _, rfl⟩ := h; exact ⟨i, h1, rfl⟩

theorem length_range (n : Nat) : (range (n : Int)).length = n := by simp [range]

theorem length_nodeList {ms : Graph} {n : Nat} (hn : ms.nodeList.Perm (range n)) : ms.nodeList.length = n := by
  rw [hn.length_eq, length_range]

theorem length_symbolsOf_le {ms : Graph} (hw : ms.WF) : (symbolsOf ms).length ≤ ms.nodeList.length := by
  rw [symbolsOf_eq hw]; exact List.length_filterMap_le _ _

theorem mem_propsOf (a : Attrs) (kv : Key × Str) (h : kv ∈ propsOf a) :
    ∃ v, a.get? kv.1.attr = some v ∧ kv.2 = pyStr v := by
  unfold propsOf at h
  rcases List.mem_append.1 h with h | h
  · cases hm : a.get? "mass" with
    | none => simp [hm] at h
    | some v => simp [hm] at h; subst h; exact ⟨v, hm, rfl⟩
  · cases hm : a.get? "rad" with
    | none => simp [hm] at h
    | some v => simp [hm] at h; subst h; exact ⟨v, hm, rfl⟩

theorem attr_of_get? {ms : Graph} {i : Int} {a : Attrs} (h : ms.node.get? i = some a) (k : String) :
    ms.attr i k = a.get? k := by simp [Graph.attr, h]

theorem cast_small {n : Nat} (h : n < 10 ^ 4300) : (n : Int) < 10 ^ 4300 := by exact_mod_cast h

/-- **`astOf ms` is well formed** (the hypotheses of `Grammar.tucanSpec_in_grammar`, no self-loops, labels
`0..n-1`, and every printed number below `10^4300`) -/
theorem astOf_wf {ms : Graph} {n : Nat} (hw : ms.WF) (hl : ms.Loopless) (hn : ms.nodeList.Perm (range n))
    (hsmall : n < 10 ^ 4300)
    (hs : ∀ s ∈ symbolsOf ms, s ∈ Tucan.Consts.ELEMENT_ATTRS.keys)
    (hm : ∀ a ∈ ms.nodeList, ∀ v, ms.attr a "mass" = some v → SmallPos v)
    (hr : ∀ a ∈ ms.nodeList, ∀ v, ms.attr a "rad" = some v → SmallPos v) : (astOf ms).Wf where
  syms := by
    intro p hp
    simp only [astOf, List.mem_map] at hp
    obtain ⟨s, hs', rfl⟩ := hp
    exact hs s ((mem_hillOrder _ s).1 hs')
  counts := by
    intro p hp ds hds
    simp only [astOf, List.mem_map] at hp
    obtain ⟨s, hs', rfl⟩ := hp
    simp only [countStr] at hds
    split at hds
    · rename_i hc
      cases hds
      have hle : (symbolsOf ms).count s ≤ n :=
        le_trans List.count_le_length (le_trans (length_symbolsOf_le hw) (le_of_eq (length_nodeList hn)))
      refine ⟨numWf_pyStrInt _ (by omega) (by omega), ?_⟩
      rw [show digitsToNat (pyStrInt ((symbolsOf ms).count s : Int)) = num (pyStrInt ((symbolsOf ms).count s : Int)) from rfl,
        num_pyStrInt]
      omega
    · cases hds
  tuples := by
    intro t ht
    simp only [astOf, List.mem_map] at ht
    obtain ⟨e, he, rfl⟩ := ht
    have := (tuples_layout (n := (n : Int)) hw hl hn).1 e he
    have hs' := cast_small hsmall
    exact ⟨numWf_pyStrInt_int _ (by omega) (by omega), numWf_pyStrInt_int _ (by omega) (by omega)⟩
  attrs := by
    intro bs hbs b hb
    simp only [astOf] at hbs
    split at hbs
    · cases hbs
    · cases hbs
      obtain ⟨p, hp, rfl⟩ := List.mem_map.1 hb
      obtain ⟨_, hmem, hidx⟩ := blocks_layout (n := (n : Int)) hw hn
      have hget := ((hmem p).1 hp).1
      have hpn := Graph.mem_nodeList_of_get? hget
      have := hidx p hp
      have hs' := cast_small hsmall
      refine ⟨numWf_pyStrInt_int _ (by omega) (by omega), ?_⟩
      intro kv hkv
      obtain ⟨v, hv, e⟩ := mem_propsOf p.2 kv hkv
      rw [← attr_of_get? hget] at hv
      have hsp : SmallPos v := by
        cases hk : kv.1 with
        | mass => rw [hk] at hv; exact hm _ hpn v hv
        | rad => rw [hk] at hv; exact hr _ hpn v hv
      obtain ⟨i, h1, h2, rfl⟩ := hsp
      rw [e]
      exact numWf_pyStrInt_int i h1 h2

/-! ## 2. the denotation of `astOf ms` is `ms` -/

/-- What the serializer guarantees about the graph `ms` whose three sections are printed
(`sortGraph m₁ "atomic_number"`): well formed, no self-loops, labels `0..n-1`, every atom carries an element
symbol of the table and the table's atomic number for it, labels run in blocks of non-decreasing atomic
number (`sorted_blocks_int`), mass / rad where present are positive integers; and all numbers are below
`10^4300` (CPython's `int`/`str` conversion limit). -/
structure SortedMol (ms : Graph) (n : Nat) : Prop where
  wf : ms.WF
  loopless : ms.Loopless
  nodes : ms.nodeList.Perm (range n)
  small : n < 10 ^ 4300
  elem : ∀ i ∈ ms.nodeList, ∃ s ∈ Tucan.Consts.ELEMENT_ATTRS.keys,
    ms.attr i "element_symbol" = some (Val.str s) ∧
    ms.attr i "atomic_number" = (Tucan.Consts.ELEMENT_ATTRS.get? s).bind (·.get? "atomic_number")
  blocks : ∀ i ∈ ms.nodeList, ∀ j ∈ ms.nodeList, i < j → ∀ x y : Int,
    ms.attr i "atomic_number" = some (Val.int x) → ms.attr j "atomic_number" = some (Val.int y) → x ≤ y
  mass : ∀ i ∈ ms.nodeList, ∀ v, ms.attr i "mass" = some v → SmallPos v
  rad : ∀ i ∈ ms.nodeList, ∀ v, ms.attr i "rad" = some v → SmallPos v

/-- element symbol of atom `i` -/
def symAt (ms : Graph) (i : Nat) : Str := ((ms.attr (i : Int) "element_symbol").map Val.asStr).getD []
/-- integer attribute of atom `i` -/
def intAt (ms : Graph) (i : Nat) (k : String) : Option Int :=
  (ms.attr (i : Int) k).bind (fun v => match v with | .int z => some z | _ => none)
/-- atom `i` of `ms` -/
def atomAt (ms : Graph) (i : Nat) : Atom :=
  { symbol := symAt ms i, z := atomicNumber (symAt ms i), mass := intAt ms i "mass", rad := intAt ms i "rad" }
/-- the molecule `ms` as an abstract molecule: atoms in label order, bonds `(smaller, larger)` ascending -/
def molOf (ms : Graph) (n : Nat) : AbstractMol :=
  { atoms := (List.range n).map (atomAt ms), bonds := (bondList ms).map (fun e => (e.1.toNat, e.2.toNat)) }

theorem mem_nodeList_iff {ms : Graph} {n : Nat} (hn : ms.nodeList.Perm (range n)) (i : Int) :
    i ∈ ms.nodeList ↔ 0 ≤ i ∧ i < n := by
  rw [hn.mem_iff, mem_range_iff]

theorem mem_nodeList_nat {ms : Graph} {n : Nat} (hn : ms.nodeList.Perm (range n)) {i : Nat} (hi : i < n) :
    (i : Int) ∈ ms.nodeList := (mem_nodeList_iff hn _).2 ⟨by omega, by omega⟩

namespace SortedMol
variable {ms : Graph} {n : Nat}

theorem sym_spec (h : SortedMol ms n) {i : Nat} (hi : i < n) :
    symAt ms i ∈ periodicTable ∧ ms.attr (i : Int) "element_symbol" = some (Val.str (symAt ms i)) ∧
    ms.attr (i : Int) "atomic_number" = some (Val.int (atomicNumber (symAt ms i))) := by
  obtain ⟨s, hs, h1, h2⟩ := h.elem _ (mem_nodeList_nat h.nodes hi)
  rw [keys_eq_table] at hs
  have e : symAt ms i = s := by simp [symAt, h1, Val.asStr, pyStr, PyStr.pyStr]
  rw [e]
  exact ⟨hs, h1, by rw [h2, table_ok s hs]⟩

/-- the symbols of the atoms in label order -/
theorem symbolsOf_perm (h : SortedMol ms n) : (symbolsOf ms).Perm ((List.range n).map (symAt ms)) := by
  rw [symbolsOf_eq h.wf]
  refine (h.nodes.filterMap _).trans ?_
  rw [range, List.filterMap_map]
  simp only [Int.toNat_natCast]
  rw [← List.filterMap_eq_map]
  apply List.Perm.of_eq
  apply List.filterMap_congr
  intro i hi
  have := (h.sym_spec (List.mem_range.1 hi)).2.1
  simp only [Function.comp, Int.ofNat_eq_natCast, this, Option.map_some]
  rfl

theorem symbolsOf_keys (h : SortedMol ms n) : ∀ s ∈ symbolsOf ms, s ∈ Tucan.Consts.ELEMENT_ATTRS.keys := by
  intro s hs
  rw [h.symbolsOf_perm.mem_iff] at hs
  obtain ⟨i, hi, rfl⟩ := List.mem_map.1 hs
  rw [keys_eq_table]
  exact (h.sym_spec (List.mem_range.1 hi)).1

theorem astOf_wf (h : SortedMol ms n) : (astOf ms).Wf :=
  Contracts.RoundTrip.astOf_wf h.wf h.loopless h.nodes h.small h.symbolsOf_keys h.mass h.rad

theorem in_grammar (h : SortedMol ms n) : Grammar.tucan (render (astOf ms)) := by
  rw [← tucanSpec_eq_render]
  exact Grammar.tucanSpec_in_grammar h.wf (fun a ha => ((mem_nodeList_iff h.nodes a).1 ha).1) h.symbolsOf_keys
    (fun a ha v hv => (h.mass a ha v hv).posInt) (fun a ha v hv => (h.rad a ha v hv).posInt)

end SortedMol

/-! ### the formula expands to the atoms in label order -/

theorem countOf_countStr (c : Nat) (h : 1 ≤ c) : countOf (countStr c) = c := by
  unfold countStr
  by_cases h1 : 1 < c
  · simp only [h1, if_true, countOf]; exact num_pyStrInt c
  · simp only [h1, if_false, countOf]; omega

theorem count_flatMap_replicate {α : Type} [BEq α] [LawfulBEq α] (c : α → Nat) (a : α) (ks : List α)
    (hnd : ks.Nodup) :
    (a ∈ ks → (ks.flatMap (fun s => List.replicate (c s) s)).count a = c a) ∧
    (a ∉ ks → (ks.flatMap (fun s => List.replicate (c s) s)).count a = 0) := by
  induction ks with
  | nil => simp
  | cons k ks ih =>
    obtain ⟨hk, hnd'⟩ := List.nodup_cons.1 hnd
    obtain ⟨ih1, ih2⟩ := ih hnd'
    simp only [List.flatMap_cons, List.count_append, List.count_replicate, List.mem_cons, not_or]
    constructor
    · rintro (rfl | hm)
      · simp [ih2 hk]
      · have : k ≠ a := by rintro rfl; exact hk hm
        simp [this, ih1 hm]
    · rintro ⟨h1, h2⟩
      have : k ≠ a := fun e => h1 e.symm
      simp [this, ih2 h2]

/-- the Hill-ordered formula expanded lists every atom's symbol once -/
theorem expand_perm (ms : Graph) : (expand (astOf ms).formula).Perm (symbolsOf ms) := by
  have he : expand (astOf ms).formula =
      (hillOrder (symbolsOf ms)).flatMap (fun s => List.replicate ((symbolsOf ms).count s) s) := by
    simp only [expand, astOf, List.flatMap_map]
    apply List.flatMap_congr
    intro s hs
    have : 1 ≤ (symbolsOf ms).count s := List.count_pos_iff.2 ((mem_hillOrder _ s).1 hs)
    simp only [countOf_countStr _ this]
  rw [he, List.perm_iff_count]
  intro a
  obtain ⟨h1, h2⟩ := count_flatMap_replicate (fun s => (symbolsOf ms).count s) a _ (hillOrder_nodup (symbolsOf ms))
  by_cases ha : a ∈ hillOrder (symbolsOf ms)
  · exact h1 ha
  · rw [h2 ha]
    exact (List.count_eq_zero.2 (fun hm => ha ((mem_hillOrder _ a).2 hm))).symm

theorem atomicNumber_inj {a b : Str} (ha : a ∈ periodicTable) (h : atomicNumber a = atomicNumber b) : a = b := by
  unfold atomicNumber at h
  have : periodicTable.idxOf a = periodicTable.idxOf b := by omega
  exact (List.idxOf_inj ha).1 this

theorem byZ_trans (a b c : Str) (h1 : byZ a b = true) (h2 : byZ b c = true) : byZ a c = true := by
  simp only [byZ, decide_eq_true_eq] at *; omega

theorem byZ_total (a b : Str) : (byZ a b || byZ b a) = true := by
  simp only [byZ, Bool.or_eq_true, decide_eq_true_eq]; omega

/-- **key step**: expanding the Hill-ordered formula and sorting stably by atomic number reproduces the
label order of `ms` -/
theorem sortedSyms_astOf {ms : Graph} {n : Nat} (h : SortedMol ms n) :
    sortedSyms (astOf ms) = (List.range n).map (symAt ms) := by
  rw [sortedSyms_eq]
  have hperm : ((expand (astOf ms).formula).mergeSort byZ).Perm ((List.range n).map (symAt ms)) :=
    (List.mergeSort_perm _ _).trans ((expand_perm ms).trans h.symbolsOf_perm)
  refine List.Perm.eq_of_pairwise (le := fun a b => byZ a b = true) ?_ ?_ ?_ hperm
  · intro a b ha hb h1 h2
    rw [hperm.mem_iff] at ha
    obtain ⟨i, hi, rfl⟩ := List.mem_map.1 ha
    apply atomicNumber_inj (h.sym_spec (List.mem_range.1 hi)).1
    simp only [byZ, decide_eq_true_eq] at h1 h2
    omega
  · exact List.pairwise_mergeSort byZ_trans byZ_total _
  · rw [List.pairwise_map]
    refine List.Pairwise.imp_of_mem ?_ List.pairwise_lt_range
    intro i j hi hj hij
    have hi' := List.mem_range.1 hi
    have hj' := List.mem_range.1 hj
    have := h.blocks _ (mem_nodeList_nat h.nodes hi') _ (mem_nodeList_nat h.nodes hj') (by omega) _ _
      (h.sym_spec hi').2.2 (h.sym_spec hj').2.2
    simp only [byZ, decide_eq_true_eq]
    exact this

/-! ### the attribute settings -/

theorem blocks_astOf (ms : Graph) :
    (astOf ms).blocks = (labelled ms).map (fun p => (pyStrInt (p.1 + 1), propsOf p.2)) := by
  unfold Ast.blocks astOf
  by_cases h : labelled ms = []
  · simp [h]
  · simp [h]

theorem mem_propsOf_iff (a : Attrs) (kv : Key × Str) :
    kv ∈ propsOf a ↔ ∃ v, a.get? kv.1.attr = some v ∧ kv.2 = pyStr v := by
  refine ⟨mem_propsOf a kv, ?_⟩
  rintro ⟨v, hv, e⟩
  obtain ⟨k, s⟩ := kv
  simp only at hv e
  subst e
  unfold propsOf
  cases k with
  | mass => simp only [Key.attr] at hv; simp [hv]
  | rad => simp only [Key.attr] at hv; simp [hv]

theorem propsOf_keys_nodup (a : Attrs) : ((propsOf a).map Prod.fst).Nodup := by
  unfold propsOf
  cases a.get? "mass" <;> cases a.get? "rad" <;> simp

/-- index written for label `i` -/
theorem num_index (i : Int) (h : 0 ≤ i) : num (pyStrInt (i + 1)) = i.toNat + 1 := by
  have := num_pyStrInt_int (i + 1) (by omega)
  omega

theorem mem_settings {ms : Graph} (s : (Nat × Key) × Nat) :
    s ∈ (astOf ms).settings ↔ ∃ p ∈ labelled ms, ∃ kv ∈ propsOf p.2,
      s = ((num (pyStrInt (p.1 + 1)), kv.1), num kv.2) := by
  simp only [Ast.settings, blocks_astOf, List.mem_flatMap, List.mem_map, exists_exists_and_eq_and]
  constructor
  · rintro ⟨p, hp, kv, hkv, rfl⟩; exact ⟨p, hp, kv, hkv, rfl⟩
  · rintro ⟨p, hp, kv, hkv, rfl⟩; exact ⟨p, hp, kv, hkv, rfl⟩

theorem settings_keys (ms : Graph) : (astOf ms).settings.map Prod.fst =
    (labelled ms).flatMap (fun p => (propsOf p.2).map (fun kv => (num (pyStrInt (p.1 + 1)), kv.1))) := by
  simp only [Ast.settings, blocks_astOf, List.flatMap_map, List.map_flatMap, List.map_map, Function.comp_def]

theorem settings_keys_nodup {ms : Graph} {n : Nat} (hw : ms.WF) (hn : ms.nodeList.Perm (range n)) :
    ((astOf ms).settings.map Prod.fst).Nodup := by
  obtain ⟨hpw, hmem, hidx⟩ := blocks_layout (n := (n : Int)) hw hn
  rw [settings_keys, List.nodup_flatMap]
  constructor
  · intro p _
    have := propsOf_keys_nodup p.2
    have e : (propsOf p.2).map (fun kv => (num (pyStrInt (p.1 + 1)), kv.1)) =
        ((propsOf p.2).map Prod.fst).map (fun k => (num (pyStrInt (p.1 + 1)), k)) := by
      rw [List.map_map]; rfl
    rw [e]
    refine List.Nodup.map_on ?_ this
    intro a _ b _ e
    simpa using e
  · refine List.Pairwise.imp_of_mem ?_ hpw
    intro p q hp hq hlt
    simp only [Function.onFun, List.disjoint_left, List.mem_map]
    rintro x ⟨kv, _, rfl⟩ ⟨kv', _, e⟩
    have h1 := hidx p hp
    have h2 := hidx q hq
    simp only [Prod.mk.injEq] at e
    rw [num_index _ (by omega), num_index _ (by omega)] at e
    omega

theorem assoc_eq_none {κ ν : Type} [DecidableEq κ] (l : List (κ × ν)) (k : κ) (h : k ∉ l.map Prod.fst) :
    assoc l k = none := by
  rw [assoc_eq_lookup]; exact (lookup_eq_none_iff' l k).2 h

theorem assoc_of_mem_nodup {κ ν : Type} [DecidableEq κ] (l : List (κ × ν)) (k : κ) (v : ν)
    (hn : (l.map Prod.fst).Nodup) (h : (k, v) ∈ l) : assoc l k = some v := by
  rw [assoc_eq_lookup]; exact lookup_of_mem_nodup l k v hn h

theorem assoc_settings {ms : Graph} {n : Nat} (h : SortedMol ms n) {i : Nat} (hi : i < n) (k : Key) :
    (assoc (astOf ms).settings (i + 1, k)).map Int.ofNat = intAt ms i k.attr := by
  have hnd := settings_keys_nodup h.wf h.nodes
  obtain ⟨_, hmem, hidx⟩ := blocks_layout (n := (n : Int)) h.wf h.nodes
  have hin := mem_nodeList_nat h.nodes hi
  unfold intAt
  cases hv : ms.attr (i : Int) k.attr with
  | none =>
    have : assoc (astOf ms).settings (i + 1, k) = none := by
      apply assoc_eq_none
      intro hc
      obtain ⟨s, hs, e⟩ := List.mem_map.1 hc
      obtain ⟨p, hp, kv, hkv, rfl⟩ := (mem_settings s).1 hs
      have h1 := hidx p hp
      simp only [Prod.mk.injEq] at e
      rw [num_index _ (by omega)] at e
      have hp1 : p.1 = (i : Int) := by omega
      obtain ⟨v, hv', _⟩ := (mem_propsOf_iff _ _).1 hkv
      rw [← attr_of_get? ((hmem p).1 hp).1, hp1, e.2, hv] at hv'
      cases hv'
    rw [this]; rfl
  | some v =>
    have hsp : SmallPos v := by
      cases k with
      | mass => exact h.mass _ hin v hv
      | rad => exact h.rad _ hin v hv
    obtain ⟨z, hz1, _, rfl⟩ := hsp
    obtain ⟨a, ha⟩ : ∃ a, ms.node.get? (i : Int) = some a := by
      unfold Graph.attr at hv
      cases hg : ms.node.get? (i : Int) with
      | none => rw [hg] at hv; cases hv
      | some a => exact ⟨a, rfl⟩
    have hva : a.get? k.attr = some (Val.int z) := by rw [← attr_of_get? ha]; exact hv
    have hprops : hasProps a = true := by
      unfold hasProps
      cases k with
      | mass => simp only [Key.attr] at hva; simp [hva]
      | rad => simp only [Key.attr] at hva; simp [hva]
    have hlab : ((i : Int), a) ∈ labelled ms := (hmem _).2 ⟨ha, hprops⟩
    have hkv : (k, pyStr (Val.int z)) ∈ propsOf a := (mem_propsOf_iff _ _).2 ⟨_, hva, rfl⟩
    have hms : ((i + 1, k), num (pyStrInt z)) ∈ (astOf ms).settings := by
      rw [mem_settings]
      refine ⟨_, hlab, _, hkv, ?_⟩
      simp only [Prod.mk.injEq, and_true]
      constructor
      · rw [num_index _ (by omega)]; simp
      · rfl
    rw [assoc_of_mem_nodup _ _ _ hnd hms]
    simp only [Option.map_some, Option.bind_some]
    congr 1
    exact num_pyStrInt_int z (by omega)

/-! ### no rejection -/

theorem length_sortedSyms {ms : Graph} {n : Nat} (h : SortedMol ms n) : (sortedSyms (astOf ms)).length = n := by
  rw [sortedSyms_astOf h]; simp

theorem bonds1_astOf (ms : Graph) :
    (astOf ms).bonds1 = (bondList ms).map (fun e => (num (pyStrInt (e.1 + 1)), num (pyStrInt (e.2 + 1)))) := by
  simp [Ast.bonds1, astOf, List.map_map, Function.comp_def]

theorem not_rejected {ms : Graph} {n : Nat} (h : SortedMol ms n) :
    ¬ ((astOf ms).BadIndex ∨ (astOf ms).SelfBond ∨ (astOf ms).DupAttr) := by
  have htl := (tuples_layout (n := (n : Int)) h.wf h.loopless h.nodes).1
  obtain ⟨_, hmem, hidx⟩ := blocks_layout (n := (n : Int)) h.wf h.nodes
  rintro (hb | hs | hd)
  · unfold Ast.BadIndex at hb
    rw [length_sortedSyms h, bonds1_astOf] at hb
    rcases hb with ⟨b, hb, hlt⟩ | ⟨s, hs, hlt⟩
    · obtain ⟨e, he, rfl⟩ := List.mem_map.1 hb
      have := htl e he
      simp only at hlt
      rw [num_index _ (by omega), num_index _ (by omega)] at hlt
      omega
    · obtain ⟨p, hp, kv, hkv, rfl⟩ := (mem_settings s).1 hs
      have := hidx p hp
      simp only at hlt
      rw [num_index _ (by omega)] at hlt
      omega
  · unfold Ast.SelfBond at hs
    rw [bonds1_astOf] at hs
    obtain ⟨b, hb, heq⟩ := hs
    obtain ⟨e, he, rfl⟩ := List.mem_map.1 hb
    have := htl e he
    simp only at heq
    rw [num_index _ (by omega), num_index _ (by omega)] at heq
    omega
  · exact hd (settings_keys_nodup h.wf h.nodes)

/-- **the denotation of the emitted string is the molecule itself**: exactly the atoms of `ms` in label
order (symbol, Z, mass?, rad?) and exactly its bonds; no rejection. -/
theorem denote_astOf {ms : Graph} {n : Nat} (h : SortedMol ms n) : denote (astOf ms) = .ok (molOf ms n) := by
  unfold denote
  rw [if_neg (not_rejected h), sortedSyms_astOf h]
  congr 1
  unfold molOf
  congr 1
  · apply List.ext_getElem
    · simp
    · intro i h1 h2
      have hi : i < n := by simpa using h2
      simp only [List.getElem_map, List.getElem_zipIdx, List.getElem_range, zero_add, atomAt]
      have hm := assoc_settings h hi Key.mass
      have hr := assoc_settings h hi Key.rad
      simp only [Key.attr] at hm hr
      rw [hm, hr]
  · rw [bonds1_astOf, List.map_map]
    apply List.map_congr_left
    intro e he
    have := (tuples_layout (n := (n : Int)) h.wf h.loopless h.nodes).1 e he
    simp only [Function.comp]
    rw [num_index _ (by omega), num_index _ (by omega)]
    simp

/-! ## 3. C03: parsing the emitted string gives the molecule back -/

/-- the attributes that identify an atom (element, mass, radical) -/
def idKeys : List String := ["element_symbol", "atomic_number", "mass", "rad"]

/-- `g` and `h` are the same labelled molecule: same labels, the same element symbol, atomic number, isotope
mass and radical on every label, the same adjacency (the identity on labels is an isomorphism of
coloured graphs) -/
structure IdIso (g h : Graph) : Prop where
  nodes : ∀ i, i ∈ g.nodeList ↔ i ∈ h.nodeList
  attrs : ∀ (i : Int) (k : String), k ∈ idKeys → g.attr i k = h.attr i k
  nbrs : ∀ i j : Int, j ∈ g.nbrs i ↔ j ∈ h.nbrs i

theorem IdIso.symm {g h : Graph} (r : IdIso g h) : IdIso h g :=
  ⟨fun i => (r.nodes i).symm, fun i k hk => (r.attrs i k hk).symm, fun i j => (r.nbrs i j).symm⟩

theorem IdIso.trans {g h k : Graph} (r₁ : IdIso g h) (r₂ : IdIso h k) : IdIso g k :=
  ⟨fun i => (r₁.nodes i).trans (r₂.nodes i), fun i key hk => (r₁.attrs i key hk).trans (r₂.attrs i key hk),
    fun i j => (r₁.nbrs i j).trans (r₂.nbrs i j)⟩

/-- the printed bonds of identity-isomorphic graphs coincide -/
theorem IdIso.bondList_eq {g h : Graph} (r : IdIso g h) (hg : g.WF) (hh : h.WF) : bondList g = bondList h := by
  apply eq_of_strict_of_mem_iff (sorted_strict_of_nodup (nodup_normEdges hg))
    (sorted_strict_of_nodup (nodup_normEdges hh))
  intro e
  show e ∈ bondList g ↔ e ∈ bondList h
  rw [mem_bondList hg, mem_bondList hh, r.nbrs]

theorem length_bondList (g : Graph) : ((bondList g).length : Int) = g.numberOfEdges := by
  simp [bondList, sorted, Graph.numberOfEdges, Graph.edges]

/-- "the same number of atoms and bonds" -/
theorem IdIso.counts {g h : Graph} (r : IdIso g h) (hg : g.WF) (hh : h.WF) :
    g.numberOfNodes = h.numberOfNodes ∧ g.numberOfEdges = h.numberOfEdges := by
  constructor
  · rw [Graph.numberOfNodes_eq, Graph.numberOfNodes_eq]
    have : g.nodeList.Perm h.nodeList :=
      (List.perm_ext_iff_of_nodup hg.nodup_nodeList hh.nodup_nodeList).2 r.nodes
    rw [this.length_eq]
  · rw [← length_bondList, ← length_bondList, r.bondList_eq hg hh]

theorem attr_eq_none_of_not_mem {g : Graph} {i : Int} (h : i ∉ g.nodeList) (k : String) : g.attr i k = none := by
  have : g.node.get? i = none := (Dict.get?_eq_none_iff _ _).2 h
  simp [Graph.attr, this]

theorem intAt_map {ms : Graph} {i : Nat} {k : String} (h : ∀ v, ms.attr (i : Int) k = some v → SmallPos v) :
    (intAt ms i k).map Val.int = ms.attr (i : Int) k := by
  unfold intAt
  cases hv : ms.attr (i : Int) k with
  | none => rfl
  | some v =>
    obtain ⟨z, _, _, rfl⟩ := h v hv
    rfl

theorem bonded_molOf {ms : Graph} {n : Nat} (h : SortedMol ms n) (i j : Int) :
    (molOf ms n).Bonded i j ↔ j ∈ ms.nbrs i := by
  have htl := (tuples_layout (n := (n : Int)) h.wf h.loopless h.nodes).1
  unfold AbstractMol.Bonded molOf
  simp only [List.mem_map, exists_exists_and_eq_and]
  constructor
  · rintro ⟨e, he, hor⟩
    have := htl e he
    have hm := ((mem_bondList h.wf e).1 he).2
    have e1 : ((e.1.toNat : Nat) : Int) = e.1 := by omega
    have e2 : ((e.2.toNat : Nat) : Int) = e.2 := by omega
    rw [e1, e2] at hor
    rcases hor with ⟨rfl, rfl⟩ | ⟨rfl, rfl⟩
    · exact hm
    · exact h.wf.mem_nbrs_symm hm
  · intro hj
    have hjn : j ∈ ms.nodeList := h.wf.nbr_mem _ _ hj
    have hin : i ∈ ms.nodeList := h.wf.nbr_mem _ _ (h.wf.mem_nbrs_symm hj)
    have hj0 := (mem_nodeList_iff h.nodes j).1 hjn
    have hi0 := (mem_nodeList_iff h.nodes i).1 hin
    rcases le_total i j with hle | hle
    · refine ⟨(i, j), (mem_bondList h.wf _).2 ⟨hle, hj⟩, Or.inl ⟨?_, ?_⟩⟩ <;> simp only <;> omega
    · refine ⟨(j, i), (mem_bondList h.wf _).2 ⟨hle, h.wf.mem_nbrs_symm hj⟩, Or.inr ⟨?_, ?_⟩⟩ <;> simp only <;> omega

/-- **C03 (listener half).** For the graph `ms` whose sections are printed, the hand-written parser run over
the parse tree of the emitted string returns a graph `g` with nodes `0..n-1` in this order that is the
identity-isomorphic copy of `ms`: the same element symbol, atomic number, mass and rad on every label, the
same adjacency; hence the same number of atoms and bonds. -/
theorem C03_iso (env : DepEnv) {ms : Graph} {n : Nat} (h : SortedMol ms n) :
    ∃ g, Tucan.parser.graph_from_tree env (treeOf (astOf ms)) = .ok g ∧ g.WF ∧ g.nodeList = range n ∧
      IdIso g ms ∧ g.numberOfNodes = ms.numberOfNodes ∧ g.numberOfEdges = ms.numberOfEdges := by
  have hok := graph_from_tree_ok env (astOf ms) h.astOf_wf
  rw [denote_astOf h] at hok
  obtain ⟨g, hg, R⟩ := hok
  have hlen : (molOf ms n).atoms.length = n := by simp [molOf]
  have hnodes : g.nodeList = range n := by rw [R.nodes, hlen]
  have hiso : IdIso g ms := by
    refine ⟨?_, ?_, ?_⟩
    · intro i
      rw [hnodes, h.nodes.mem_iff]
    · intro i k hk
      by_cases hi : i ∈ ms.nodeList
      · obtain ⟨h0, h1⟩ := (mem_nodeList_iff h.nodes i).1 hi
        obtain ⟨j, rfl⟩ := Int.eq_ofNat_of_zero_le h0
        have hj : j < n := by omega
        obtain ⟨a1, a2, _, a4, a5, _⟩ := R.attrs j (by rw [hlen]; exact hj)
        obtain ⟨_, s2, s3⟩ := h.sym_spec hj
        have hget : (molOf ms n).atoms[j]'(by rw [hlen]; exact hj) = atomAt ms j := by simp [molOf]
        rw [hget] at a1 a2 a4 a5
        simp only [idKeys, List.mem_cons, List.not_mem_nil, or_false] at hk
        rcases hk with rfl | rfl | rfl | rfl
        · rw [a1, s2]; rfl
        · rw [a2, s3]; rfl
        · rw [a4]; exact intAt_map (h.mass _ hi)
        · rw [a5]; exact intAt_map (h.rad _ hi)
      · have hi' : i ∉ g.nodeList := by rw [hnodes, ← h.nodes.mem_iff]; exact hi
        rw [attr_eq_none_of_not_mem hi, attr_eq_none_of_not_mem hi']
    · intro i j
      rw [R.bonds, bonded_molOf h]
  have hc := hiso.counts R.wf h.wf
  exact ⟨g, hg, R.wf, hnodes, hiso, hc.1, hc.2⟩

/-! ### with the recogniser (assumption V4) -/

/-- **Assumption V4** about the ANTLR-generated recogniser, as a property of an abstract
`antlr : Str → Option PTree` (`none`: an error listener fired): a sentence of the published grammar that is
the rendering of a well-formed syntax tree is parsed into the tree of that syntax. -/
def V4 (antlr : Str → Option PTree) : Prop :=
  ∀ a : Ast, a.Wf → Grammar.tucan (render a) → antlr (render a) = some (treeOf a)

/-- `graph_from_tucan` with the recogniser abstracted: ANTLR, then the tree walk with the listener, then
`to_graph`. A syntax error (`none`) is the error listeners' `TucanParserException`. -/
def graphFromTucan (antlr : Str → Option PTree) (env : DepEnv) (s : Str) : M Graph :=
  match antlr s with
  | some t => Tucan.parser.graph_from_tree env t
  | none => .error TPE

/-- **C03.** Parsing the TUCAN string emitted for `ms` yields the identity-isomorphic copy of `ms`. -/
theorem C03_main (antlr : Str → Option PTree) (hV4 : V4 antlr) (env : DepEnv) {ms : Graph} {n : Nat}
    (h : SortedMol ms n) :
    ∃ g, graphFromTucan antlr env (tucanSpec ms) = .ok g ∧ g.WF ∧ g.nodeList = range n ∧
      IdIso g ms ∧ g.numberOfNodes = ms.numberOfNodes ∧ g.numberOfEdges = ms.numberOfEdges := by
  obtain ⟨g, hg, rest⟩ := C03_iso env h
  refine ⟨g, ?_, rest⟩
  unfold graphFromTucan
  rw [tucanSpec_eq_render, hV4 _ h.astOf_wf h.in_grammar]
  exact hg

/-! ## 4. C02: equal strings ⇒ isomorphic molecules -/

theorem range_inj {n₁ n₂ : Nat} (h : range (n₁ : Int) = range (n₂ : Int)) : n₁ = n₂ := by
  have := congrArg List.length h
  rwa [length_range, length_range] at this

/-- **C02, label level.** Two sorted graphs with the same TUCAN string are the same labelled molecule: the
same number of atoms, the same element symbol / atomic number / mass / rad on every label, the same
adjacency. (Proved through the parser: both strings parse to the same graph, `C03_main`.) -/
theorem C02_main (antlr : Str → Option PTree) (hV4 : V4 antlr) (env : DepEnv) {ms₁ ms₂ : Graph} {n₁ n₂ : Nat}
    (h₁ : SortedMol ms₁ n₁) (h₂ : SortedMol ms₂ n₂) (e : tucanSpec ms₁ = tucanSpec ms₂) :
    n₁ = n₂ ∧ IdIso ms₁ ms₂ := by
  obtain ⟨g₁, p₁, _, nl₁, i₁, _⟩ := C03_main antlr hV4 env h₁
  obtain ⟨g₂, p₂, _, nl₂, i₂, _⟩ := C03_main antlr hV4 env h₂
  rw [e, p₂] at p₁
  cases p₁
  exact ⟨range_inj (nl₁.symm.trans nl₂), i₁.symm.trans i₂⟩

/-- contrapositive form: molecules that differ (as labelled coloured graphs) get different strings -/
theorem C02_contrapositive (antlr : Str → Option PTree) (hV4 : V4 antlr) (env : DepEnv) {ms₁ ms₂ : Graph}
    {n₁ n₂ : Nat} (h₁ : SortedMol ms₁ n₁) (h₂ : SortedMol ms₂ n₂) (hne : ¬ IdIso ms₁ ms₂) :
    tucanSpec ms₁ ≠ tucanSpec ms₂ :=
  fun e => hne (C02_main antlr hV4 env h₁ h₂ e).2

/-- identity-isomorphic graphs are isomorphic (via the identity) on each identity attribute -/
theorem IdIso.isIsoOn {g h : Graph} (r : IdIso g h) (hg : g.WF) (hh : h.WF) {k : String} (hk : k ∈ idKeys) :
    Graph.IsIsoOn k id g h where
  inj := fun a _ b _ e => e
  nodes := by
    rw [List.map_id]
    exact (List.perm_ext_iff_of_nodup hh.nodup_nodeList hg.nodup_nodeList).2 (fun i => (r.nodes i).symm)
  attr := fun n _ => (r.attrs n k hk).symm
  nbrs := fun n _ => by
    rw [List.map_id]
    exact (List.perm_ext_iff_of_nodup (hh.nodup_nbrs n) (hg.nodup_nbrs n)).2
      (fun j => (r.nbrs n j).symm)

/-! ### the pipeline produces a `SortedMol` -/

/-- what `serialize_molecule` needs of its argument (a molecule graph as built by the readers / the parser):
well formed, no self-loops, every atom carries an element symbol of the table together with the table's
atomic number, mass / rad where present are positive integers; everything below `10^4300`. -/
structure MolOK (m : Graph) : Prop where
  wf : m.WF
  loopless : m.Loopless
  small : m.nodeList.length < 10 ^ 4300
  elem : ∀ i ∈ m.nodeList, ∃ s ∈ Tucan.Consts.ELEMENT_ATTRS.keys,
    m.attr i "element_symbol" = some (Val.str s) ∧
    m.attr i "atomic_number" = (Tucan.Consts.ELEMENT_ATTRS.get? s).bind (·.get? "atomic_number")
  mass : ∀ i ∈ m.nodeList, ∀ v, m.attr i "mass" = some v → SmallPos v
  rad : ∀ i ∈ m.nodeList, ∀ v, m.attr i "rad" = some v → SmallPos v

theorem MolOK.carries_Z {m : Graph} (h : MolOK m) : Carries m "atomic_number" := by
  intro a ha
  obtain ⟨s, hs, _, h2⟩ := h.elem a ha
  rw [keys_eq_table] at hs
  rw [h2, table_ok s hs]; rfl

theorem loopless_iso {k : String} {π : Int → Int} {g h : Graph} (r : Graph.IsIsoOn k π g h) (hg : g.WF)
    (hh : h.WF) (hl : g.Loopless) : h.Loopless := by
  intro u hu
  have hun : u ∈ h.nodeList := hh.nbr_mem u u hu
  obtain ⟨a, ha, rfl⟩ := List.mem_map.1 (r.nodes.mem_iff.1 hun)
  obtain ⟨v, hv, e⟩ := List.mem_map.1 ((r.nbrs a ha).mem_iff.1 hu)
  have := r.inj v (hg.nbr_mem a v hv) a ha e
  subst this
  exact hl v hv

/-- `MolOK` is invariant under isomorphisms that carry the identity attributes -/
theorem MolOK.of_iso {π : Int → Int} {g h : Graph} (hg : MolOK g) (hh : h.WF)
    (r : ∀ k ∈ idKeys, Graph.IsIsoOn k π g h) : MolOK h := by
  have r1 := r "element_symbol" (by decide)
  have r2 := r "atomic_number" (by decide)
  have r3 := r "mass" (by decide)
  have r4 := r "rad" (by decide)
  refine ⟨hh, loopless_iso r1 hg.wf hh hg.loopless, ?_, ?_, ?_, ?_⟩
  · rw [r1.nodes.length_eq, List.length_map]; exact hg.small
  · intro i hi
    obtain ⟨a, ha, rfl⟩ := List.mem_map.1 (r1.nodes.mem_iff.1 hi)
    obtain ⟨s, hs, e1, e2⟩ := hg.elem a ha
    exact ⟨s, hs, by rw [r1.attr a ha, e1], by rw [r2.attr a ha, e2]⟩
  · intro i hi v hv
    obtain ⟨a, ha, rfl⟩ := List.mem_map.1 (r1.nodes.mem_iff.1 hi)
    rw [r3.attr a ha] at hv
    exact hg.mass a ha v hv
  · intro i hi v hv
    obtain ⟨a, ha, rfl⟩ := List.mem_map.1 (r1.nodes.mem_iff.1 hi)
    rw [r4.attr a ha] at hv
    exact hg.rad a ha v hv

/-- the graph whose sections `serialize_molecule` prints is a `SortedMol` -/
theorem sortedMol_sortGraph {m₁ : Graph} (h : MolOK m₁) :
    SortedMol (sortGraph m₁ "atomic_number") m₁.nodeList.length := by
  obtain ⟨w, p, rel⟩ := sortGraph_spec h.wf "atomic_number"
  have hp : (sortGraph m₁ "atomic_number").nodeList.Perm (range ((m₁.nodeList.length : Nat) : Int)) := by
    rw [← Graph.numberOfNodes_eq]; exact p
  have ok := h.of_iso w (fun k _ => rel.isIsoOn k)
  refine ⟨w, ok.loopless, hp, h.small, ok.elem, ?_, ok.mass, ok.rad⟩
  intro i hi j hj hij x y hx hy
  exact sorted_blocks_int h.wf "atomic_number" hi hj hij hx hy

/-! ### lifting to the molecules handed to `serialize_molecule` -/

/-- inverse of `π` on the list `l` -/
def invOn (π : Int → Int) (l : List Int) (x : Int) : Int := (l.find? (fun b => decide (π b = x))).getD 0

theorem invOn_apply {π : Int → Int} {l : List Int} {a : Int} (ha : a ∈ l)
    (inj : ∀ a ∈ l, ∀ b ∈ l, π a = π b → a = b) : invOn π l (π a) = a := by
  unfold invOn
  cases hf : l.find? (fun b => decide (π b = π a)) with
  | none =>
    have := List.find?_eq_none.1 hf a ha
    simp at this
  | some b =>
    have h1 := List.find?_some hf
    have h2 := List.mem_of_find?_eq_some hf
    simp only [decide_eq_true_eq] at h1
    exact inj b h2 a ha h1

/-- a colour-preserving isomorphism has an inverse -/
theorem isIsoOn_symm {k : String} {π : Int → Int} {g h : Graph} (r : Graph.IsIsoOn k π g h) (hg : g.WF) :
    Graph.IsIsoOn k (invOn π g.nodeList) h g := by
  have hinv : ∀ a ∈ g.nodeList, invOn π g.nodeList (π a) = a := fun a ha => invOn_apply ha r.inj
  have hpre : ∀ x ∈ h.nodeList, ∃ a ∈ g.nodeList, π a = x := by
    intro x hx
    obtain ⟨a, ha, e⟩ := List.mem_map.1 (r.nodes.mem_iff.1 hx)
    exact ⟨a, ha, e⟩
  refine ⟨?_, ?_, ?_, ?_⟩
  · intro x hx y hy e
    obtain ⟨a, ha, rfl⟩ := hpre x hx
    obtain ⟨b, hb, rfl⟩ := hpre y hy
    rw [hinv a ha, hinv b hb] at e
    rw [e]
  · have := r.nodes.map (invOn π g.nodeList)
    rw [List.map_map] at this
    refine List.Perm.trans ?_ this.symm
    apply List.Perm.of_eq
    conv_lhs => rw [← List.map_id g.nodeList]
    apply List.map_congr_left
    intro a ha
    simp only [Function.comp, hinv a ha, id]
  · intro x hx
    obtain ⟨a, ha, rfl⟩ := hpre x hx
    rw [hinv a ha, r.attr a ha]
  · intro x hx
    obtain ⟨a, ha, rfl⟩ := hpre x hx
    rw [hinv a ha]
    have := (r.nbrs a ha).map (invOn π g.nodeList)
    rw [List.map_map] at this
    refine List.Perm.trans ?_ this.symm
    apply List.Perm.of_eq
    conv_lhs => rw [← List.map_id (g.nbrs a)]
    apply List.map_congr_left
    intro b hb
    simp only [Function.comp, hinv b (hg.nbr_mem a b hb), id]

open Contracts.FinalLabels in
/-- clearing the `explored` flags does not touch the identity attributes or the adjacency -/
theorem isIsoOn_clearExplored (m : Graph) {k : String} (hk : k ∈ idKeys) :
    Graph.IsIsoOn k id m (clearExplored m) where
  inj := fun a _ b _ e => e
  nodes := by rw [List.map_id, Graph.nodeList_setNodeAttrScalar]
  attr := fun n _ => by
    have : k ≠ "explored" := by
      simp only [idKeys, List.mem_cons, List.not_mem_nil, or_false] at hk
      rcases hk with rfl | rfl | rfl | rfl <;> decide
    rw [Graph.attr_setNodeAttrScalar, if_neg this]; rfl
  nbrs := fun n _ => by rw [List.map_id]; exact List.Perm.refl _

open Contracts.FinalLabels in
/-- **the serializer, end to end.** For a molecule `m` fit for serialization whose atoms carry `partition`,
`serialize_molecule` returns the string `tucanSpec ms` of a `SortedMol ms` that is `m` under a one-to-one
renaming `σ` of the atoms carrying element symbol, atomic number, mass, rad and adjacency. -/
theorem serialize_molecule_sorted (env : DepEnv) (hs : env.SetLawful) (fuel : Nat) {m : Graph} (hm : MolOK m)
    (hc : Carries m "partition") (hf : fuel ≥ fuelBound m) :
    ∃ ms σ, Tucan.serialization.serialize_molecule env fuel m = .ok (tucanSpec ms, clearExplored m) ∧
      SortedMol ms m.nodeList.length ∧ ∀ k ∈ idKeys, Graph.IsIsoOn k σ m ms := by
  obtain ⟨r, m', π, hrun, rfl, rw, rel, rnl, _⟩ := assign_final_labels_relabel env hs fuel hm.wf hc hf
  have iso1 : ∀ k ∈ idKeys, Graph.IsIsoOn k (π ∘ id) m r :=
    fun k hk => (isIsoOn_clearExplored m hk).trans (rel.isIsoOn k)
  have okr : MolOK r := hm.of_iso rw iso1
  obtain ⟨w, p, rel2⟩ := sortGraph_spec okr.wf "atomic_number"
  have hlen : r.nodeList.length = m.nodeList.length := by rw [rnl, List.length_map]
  refine ⟨sortGraph r "atomic_number", sortPos r "atomic_number" ∘ (π ∘ id), ?_, ?_, ?_⟩
  · exact serialize_molecule_eq env fuel m r _ hrun okr.wf okr.carries_Z
  · rw [← hlen]; exact sortedMol_sortGraph okr
  · intro k hk
    exact (iso1 k hk).trans (rel2.isIsoOn k)

open Contracts.FinalLabels in
/-- **C02 for `serialize_molecule`.** If two molecules (fit for serialization, atoms carrying `partition`)
are given the same TUCAN string, they are isomorphic as graphs coloured by element symbol, atomic number,
mass and rad: one bijection `π` of the atoms carries all four attributes and the adjacency.
Contrapositive: non-isomorphic molecules get different strings. -/
theorem C02_serialize (antlr : Str → Option PTree) (hV4 : V4 antlr) (env : DepEnv) (hs : env.SetLawful)
    (fuel₁ fuel₂ : Nat) {m₁ m₂ m₁' m₂' : Graph} {s : Str} (h₁ : MolOK m₁) (h₂ : MolOK m₂)
    (c₁ : Carries m₁ "partition") (c₂ : Carries m₂ "partition")
    (f₁ : fuel₁ ≥ fuelBound m₁) (f₂ : fuel₂ ≥ fuelBound m₂)
    (e₁ : Tucan.serialization.serialize_molecule env fuel₁ m₁ = .ok (s, m₁'))
    (e₂ : Tucan.serialization.serialize_molecule env fuel₂ m₂ = .ok (s, m₂')) :
    ∃ π, ∀ k ∈ idKeys, Graph.IsIsoOn k π m₁ m₂ := by
  obtain ⟨ms₁, σ₁, r₁, sm₁, i₁⟩ := serialize_molecule_sorted env hs fuel₁ h₁ c₁ f₁
  obtain ⟨ms₂, σ₂, r₂, sm₂, i₂⟩ := serialize_molecule_sorted env hs fuel₂ h₂ c₂ f₂
  rw [e₁] at r₁
  rw [e₂] at r₂
  have es : tucanSpec ms₁ = tucanSpec ms₂ := by
    have a := (Prod.mk.inj (Except.ok.inj r₁)).1
    have b := (Prod.mk.inj (Except.ok.inj r₂)).1
    rw [← a, ← b]
  obtain ⟨_, idiso⟩ := C02_main antlr hV4 env sm₁ sm₂ es
  refine ⟨invOn σ₂ m₂.nodeList ∘ (id ∘ σ₁), ?_⟩
  intro k hk
  exact ((i₁ k hk).trans (idiso.isIsoOn sm₁.wf sm₂.wf hk)).trans (isIsoOn_symm (i₂ k hk) h₂.wf)

/-! ### lifting to the molecules handed to `canonicalize_molecule` -/

open Contracts.FinalLabels in
theorem fuelBound_iso {k : String} {π : Int → Int} {g h : Graph} (r : Graph.IsIsoOn k π g h) :
    fuelBound h = fuelBound g := by
  unfold fuelBound
  have h1 : h.nodeList.length = g.nodeList.length := by rw [r.nodes.length_eq, List.length_map]
  have h2 : (h.nodeList.map (fun u => (h.nbrs u).length)).sum = (g.nodeList.map (fun u => (g.nbrs u).length)).sum := by
    rw [(r.nodes.map _).sum_eq, List.map_map]
    congr 1
    apply List.map_congr_left
    intro a ha
    simp only [Function.comp, (r.nbrs a ha).length_eq, List.length_map]
  rw [h1, h2]

/-- what the serializer needs to know about the canonicalized molecule (`Canonicalize.C12_main` plus
"`partition` is carried") -/
theorem canonicalize_facts {env : DepEnv} (hs : env.SetLawful) (hb : BlissLawful env) {m : Graph}
    (hm : m.WF) (hne : m.nodeList ≠ []) (hc : Carries m "invariant_code")
    (fuel : Nat) (hf : fuel ≥ m.nodeList.length + 1) :
    ∃ c ρ, Tucan.canonicalization.canonicalize_molecule env fuel m = .ok c ∧ c.WF ∧ Carries c "partition" ∧
      ∀ k, k ≠ "partition" → Graph.IsIsoOn k ρ m c := by
  obtain ⟨pg, rg, c, T⟩ := Canonicalize.canonicalize_molecule_ok hs hb hm hne hc fuel hf
  have R := Canonicalize.isRelabelExcept_of_trace hm T T.relabel
  refine ⟨c, _, T.result, T.wf, ?_, fun k hk => R.isIsoOn hk⟩
  exact Canonicalize.carries_of_iso (T.relabel.isIsoOn "partition") T.refineSpec.dense.carries

theorem idKeys_ne_partition {k : String} (hk : k ∈ idKeys) : k ≠ "partition" := by
  simp only [idKeys, List.mem_cons, List.not_mem_nil, or_false] at hk
  rcases hk with rfl | rfl | rfl | rfl <;> decide

open Contracts.FinalLabels in
/-- **C02, whole pipeline.** `m₁`, `m₂`: molecules fit for serialization (`MolOK`) with at least one atom whose
atoms carry `invariant_code` (the postcondition of `graph_from_molecule`); lawful `set` iteration and bliss;
enough fuel. If `serialize_molecule (canonicalize_molecule mᵢ)` gives the same TUCAN string for both, the
molecules are isomorphic as graphs coloured by element symbol, atomic number, mass and rad.
Contrapositive: non-isomorphic molecules have different TUCAN strings. -/
theorem C02_pipeline (antlr : Str → Option PTree) (hV4 : V4 antlr) {env : DepEnv} (hs : env.SetLawful)
    (hb : BlissLawful env) {m₁ m₂ c₁ c₂ c₁' c₂' : Graph} {s : Str}
    (h₁ : MolOK m₁) (h₂ : MolOK m₂) (ne₁ : m₁.nodeList ≠ []) (ne₂ : m₂.nodeList ≠ [])
    (ic₁ : Carries m₁ "invariant_code") (ic₂ : Carries m₂ "invariant_code")
    (fa₁ fb₁ fa₂ fb₂ : Nat) (hfa₁ : fa₁ ≥ m₁.nodeList.length + 1) (hfa₂ : fa₂ ≥ m₂.nodeList.length + 1)
    (hfb₁ : fb₁ ≥ fuelBound m₁) (hfb₂ : fb₂ ≥ fuelBound m₂)
    (r₁ : Tucan.canonicalization.canonicalize_molecule env fa₁ m₁ = .ok c₁)
    (r₂ : Tucan.canonicalization.canonicalize_molecule env fa₂ m₂ = .ok c₂)
    (e₁ : Tucan.serialization.serialize_molecule env fb₁ c₁ = .ok (s, c₁'))
    (e₂ : Tucan.serialization.serialize_molecule env fb₂ c₂ = .ok (s, c₂')) :
    ∃ π, ∀ k ∈ idKeys, Graph.IsIsoOn k π m₁ m₂ := by
  obtain ⟨d₁, ρ₁, q₁, w₁, p₁, i₁⟩ := canonicalize_facts hs hb h₁.wf ne₁ ic₁ fa₁ hfa₁
  obtain ⟨d₂, ρ₂, q₂, w₂, p₂, i₂⟩ := canonicalize_facts hs hb h₂.wf ne₂ ic₂ fa₂ hfa₂
  rw [r₁] at q₁; cases q₁
  rw [r₂] at q₂; cases q₂
  have ok₁ : MolOK c₁ := h₁.of_iso w₁ (fun k hk => i₁ k (idKeys_ne_partition hk))
  have ok₂ : MolOK c₂ := h₂.of_iso w₂ (fun k hk => i₂ k (idKeys_ne_partition hk))
  obtain ⟨π, hπ⟩ := C02_serialize antlr hV4 env hs fb₁ fb₂ ok₁ ok₂ p₁ p₂
    (by rw [fuelBound_iso (i₁ "mass" (by decide))]; exact hfb₁)
    (by rw [fuelBound_iso (i₂ "mass" (by decide))]; exact hfb₂) e₁ e₂
  refine ⟨invOn ρ₂ m₂.nodeList ∘ (π ∘ ρ₁), ?_⟩
  intro k hk
  have hk' := idKeys_ne_partition hk
  exact ((i₁ k hk').trans (hπ k hk)).trans (isIsoOn_symm (i₂ k hk') h₂.wf)

/-! ### C03 for the molecules handed to `serialize_molecule` / `canonicalize_molecule` -/

/-- a colour-preserving isomorphism preserves the numbers of atoms and bonds -/
theorem counts_iso {k : String} {π : Int → Int} {g h : Graph} (r : Graph.IsIsoOn k π g h) (hg : g.WF) (hh : h.WF) :
    h.numberOfNodes = g.numberOfNodes ∧ h.numberOfEdges = g.numberOfEdges := by
  constructor
  · rw [Graph.numberOfNodes_eq, Graph.numberOfNodes_eq, r.nodes.length_eq, List.length_map]
  · have hd : h.dirPairs.length = g.dirPairs.length := by
      rw [Graph.length_dirPairs, Graph.length_dirPairs]
      rw [(r.nodes.map (fun u => (h.nbrs u).length)).sum_eq, List.map_map]
      congr 1
      apply List.map_congr_left
      intro n hn
      simp only [Function.comp]
      rw [(r.nbrs n hn).length_eq, List.length_map]
    have hl : h.loopNodes.length = g.loopNodes.length := by
      unfold Graph.loopNodes
      rw [← List.countP_eq_length_filter, ← List.countP_eq_length_filter, r.nodes.countP_eq, List.countP_map]
      apply List.countP_congr
      intro n hn
      simp only [Function.comp, decide_eq_true_eq]
      rw [(r.nbrs n hn).mem_iff, List.mem_map]
      constructor
      · rintro ⟨v, hv, e⟩
        rwa [r.inj v (hg.nbr_mem n v hv) n hn e] at hv
      · intro h'; exact ⟨n, h', rfl⟩
    have h1 := Graph.two_mul_length_edges hg
    have h2 := Graph.two_mul_length_edges hh
    rw [Graph.numberOfEdges_eq, Graph.numberOfEdges_eq]
    omega

open Contracts.FinalLabels in
/-- **C03 for `serialize_molecule`.** Parsing the string emitted for `m` returns a graph `g` with labels
`0..n-1` that is isomorphic to `m`: one bijection `π` of the atoms carries element symbol, atomic number,
mass, rad and the adjacency; `g` has as many atoms and bonds as `m`. -/
theorem C03_serialize (antlr : Str → Option PTree) (hV4 : V4 antlr) (env : DepEnv) (hs : env.SetLawful)
    (fuel : Nat) {m m' : Graph} {s : Str} (hm : MolOK m) (hc : Carries m "partition") (hf : fuel ≥ fuelBound m)
    (e : Tucan.serialization.serialize_molecule env fuel m = .ok (s, m')) :
    ∃ g π, graphFromTucan antlr env s = .ok g ∧ g.WF ∧ g.nodeList = range (m.nodeList.length : Int) ∧
      (∀ k ∈ idKeys, Graph.IsIsoOn k π m g) ∧
      g.numberOfNodes = m.numberOfNodes ∧ g.numberOfEdges = m.numberOfEdges := by
  obtain ⟨ms, σ, r, sm, iso⟩ := serialize_molecule_sorted env hs fuel hm hc hf
  rw [e] at r
  obtain rfl : s = tucanSpec ms := (Prod.mk.inj (Except.ok.inj r)).1
  obtain ⟨g, hg, gw, gn, idiso, _⟩ := C03_main antlr hV4 env sm
  have iso' : ∀ k ∈ idKeys, Graph.IsIsoOn k (id ∘ σ) m g :=
    fun k hk => (iso k hk).trans (idiso.symm.isIsoOn sm.wf gw hk)
  have c := counts_iso (iso' "mass" (by decide)) hm.wf gw
  exact ⟨g, _, hg, gw, gn, iso', c.1, c.2⟩

open Contracts.FinalLabels in
/-- **C03, whole pipeline.** Parsing the TUCAN string of a molecule `m` (canonicalize, then serialize)
returns a graph isomorphic to `m` with the same element symbol, atomic number, mass and rad on every
corresponding atom and the same number of atoms and bonds. -/
theorem C03_pipeline (antlr : Str → Option PTree) (hV4 : V4 antlr) {env : DepEnv} (hs : env.SetLawful)
    (hb : BlissLawful env) {m c c' : Graph} {s : Str} (hm : MolOK m) (hne : m.nodeList ≠ [])
    (hic : Carries m "invariant_code") (fa fb : Nat) (hfa : fa ≥ m.nodeList.length + 1) (hfb : fb ≥ fuelBound m)
    (r : Tucan.canonicalization.canonicalize_molecule env fa m = .ok c)
    (e : Tucan.serialization.serialize_molecule env fb c = .ok (s, c')) :
    ∃ g π, graphFromTucan antlr env s = .ok g ∧ g.WF ∧ g.nodeList = range (m.nodeList.length : Int) ∧
      (∀ k ∈ idKeys, Graph.IsIsoOn k π m g) ∧
      g.numberOfNodes = m.numberOfNodes ∧ g.numberOfEdges = m.numberOfEdges := by
  obtain ⟨d, ρ, q, w, p, i⟩ := canonicalize_facts hs hb hm.wf hne hic fa hfa
  rw [r] at q; cases q
  have i' : ∀ k ∈ idKeys, Graph.IsIsoOn k ρ m c := fun k hk => i k (idKeys_ne_partition hk)
  have ok : MolOK c := hm.of_iso w i'
  have im := i' "mass" (by decide)
  obtain ⟨g, π, hg, gw, gn, iso, c1, c2⟩ := C03_serialize antlr hV4 env hs fb ok p
    (by rw [fuelBound_iso im]; exact hfb) e
  have cc := counts_iso im hm.wf w
  have hlen : c.nodeList.length = m.nodeList.length := by rw [im.nodes.length_eq, List.length_map]
  refine ⟨g, π ∘ ρ, hg, gw, by rw [gn, hlen], fun k hk => (i' k hk).trans (iso k hk), ?_, ?_⟩
  · rw [c1, cc.1]
  · rw [c2, cc.2]

/-! ### sanity of `render`: it is the token text of the parse tree -/

theorem textList_append (l₁ l₂ : List PTree) :
    PTree.textList (l₁ ++ l₂) = PTree.textList l₁ ++ PTree.textList l₂ := by
  induction l₁ with
  | nil => simp [PTree.textList]
  | cons t ts ih => simp [PTree.textList, ih]

theorem textList_map {α : Type} (f : α → PTree) (g : α → Str) (l : List α) (h : ∀ x ∈ l, (f x).text = g x) :
    PTree.textList (l.map f) = (l.map g).flatten := by
  induction l with
  | nil => simp [PTree.textList]
  | cons x xs ih =>
    simp only [List.map_cons, PTree.textList, List.flatten_cons, h x (by simp)]
    rw [ih (fun y hy => h y (by simp [hy]))]

theorem text_elemTree (p : Str × Option Str) : (elemTree p).text = renderSym p := by
  obtain ⟨s, c⟩ := p
  cases c <;> simp [elemTree, renderSym, gt1Tree, PTree.text, PTree.textList]

theorem text_tupleTree (t : Str × Str) : (tupleTree t).text = renderTuple t := by
  simp [tupleTree, renderTuple, indexTree, text_gt0Tree, PTree.text, PTree.textList]

theorem text_propTree (kv : Key × Str) : (propTree kv).text = renderProp kv := by
  simp [propTree, renderProp, text_gt0Tree, PTree.text, PTree.textList]

theorem intercalate_cons (sep x : Str) (rest : List Str) :
    sep.intercalate (x :: rest) = x ++ (rest.map (fun y => sep ++ y)).flatten := by
  induction rest generalizing x with
  | nil => simp [List.intercalate]
  | cons y rest ih =>
    have := ih y
    simp only [List.intercalate, List.intersperse] at this ⊢
    simp only [List.flatten_cons, List.map_cons, this, List.append_assoc]

theorem textList_sepProps (kvs : List (Key × Str)) :
    PTree.textList (sepProps kvs) = join py!"," (kvs.map renderProp) := by
  cases kvs with
  | nil => simp [sepProps, PTree.textList, join]
  | cons kv rest =>
    have h : PTree.textList (rest.flatMap (fun kv => [PTree.tok py!",", propTree kv])) =
        ((rest.map renderProp).map (fun y => py!"," ++ y)).flatten := by
      induction rest with
      | nil => simp [PTree.textList]
      | cons kv' rest ih =>
        simp only [List.flatMap_cons, textList_append, ih, List.map_cons, List.flatten_cons]
        simp [PTree.textList, PTree.text, text_propTree]
    simp only [sepProps, PTree.textList, text_propTree, List.map_cons, join, intercalate_cons, h]

theorem text_attrTree (b : Str × List (Key × Str)) : (attrTree b).text = renderAttr b := by
  simp [attrTree, renderAttr, indexTree, text_gt0Tree, textList_append, textList_sepProps, PTree.text,
    PTree.textList]

/-- the text of the tree that V4 prescribes for `render a` is `render a` (followed by the EOF token):
`render` and `treeOf` describe the same string -/
theorem text_treeOf (a : Ast) : (treeOf a).text = render a ++ py!"<EOF>" := by
  unfold treeOf render
  cases a.attrs with
  | none =>
    simp [formulaTree, textList_append, PTree.text, PTree.textList,
      textList_map elemTree renderSym _ (fun p _ => text_elemTree p),
      textList_map tupleTree renderTuple _ (fun p _ => text_tupleTree p)]
  | some bs =>
    simp [formulaTree, textList_append, PTree.text, PTree.textList,
      textList_map elemTree renderSym _ (fun p _ => text_elemTree p),
      textList_map tupleTree renderTuple _ (fun p _ => text_tupleTree p),
      textList_map attrTree renderAttr _ (fun p _ => text_attrTree p)]

/-! ## 5. C11: the denotation does not depend on the spelling -/

/-- `b` is a respelling of `a`: the same sum formula; the same set of bonds, where tuples may be reordered,
repeated and have their endpoints swapped; the same attribute settings, where blocks may be reordered, split
and merged (the flat list of `((atom, key), value)` settings is permuted). -/
structure Respell (a b : Ast) : Prop where
  formula : a.formula = b.formula
  bonds : ∀ i j : Nat, ((i, j) ∈ a.bonds1 ∨ (j, i) ∈ a.bonds1) ↔ ((i, j) ∈ b.bonds1 ∨ (j, i) ∈ b.bonds1)
  settings : a.settings.Perm b.settings

theorem Respell.symm {a b : Ast} (r : Respell a b) : Respell b a :=
  ⟨r.formula.symm, fun i j => (r.bonds i j).symm, r.settings.symm⟩

namespace Respell
variable {a b : Ast}

theorem sortedSyms_eq (r : Respell a b) : sortedSyms a = sortedSyms b := by
  unfold sortedSyms; rw [r.formula]

theorem badIndex_imp (r : Respell a b) (h : a.BadIndex) : b.BadIndex := by
  unfold Ast.BadIndex at h ⊢
  rw [← r.sortedSyms_eq]
  rcases h with ⟨p, hp, hlt⟩ | ⟨s, hs, hlt⟩
  · left
    rcases (r.bonds p.1 p.2).1 (Or.inl hp) with h' | h'
    · exact ⟨_, h', hlt⟩
    · exact ⟨_, h', hlt.symm⟩
  · exact Or.inr ⟨s, r.settings.mem_iff.1 hs, hlt⟩

theorem selfBond_imp (r : Respell a b) (h : a.SelfBond) : b.SelfBond := by
  obtain ⟨p, hp, e⟩ := h
  obtain ⟨i, j⟩ := p
  simp only at e
  subst e
  rcases (r.bonds i i).1 (Or.inl hp) with h' | h' <;> exact ⟨_, h', rfl⟩

theorem dupAttr_iff (r : Respell a b) : a.DupAttr ↔ b.DupAttr := by
  unfold Ast.DupAttr
  rw [(r.settings.map Prod.fst).nodup_iff]

theorem rejected_iff (r : Respell a b) :
    (a.BadIndex ∨ a.SelfBond ∨ a.DupAttr) ↔ (b.BadIndex ∨ b.SelfBond ∨ b.DupAttr) := by
  constructor
  · rintro (h | h | h)
    · exact Or.inl (r.badIndex_imp h)
    · exact Or.inr (Or.inl (r.selfBond_imp h))
    · exact Or.inr (Or.inr (r.dupAttr_iff.1 h))
  · rintro (h | h | h)
    · exact Or.inl (r.symm.badIndex_imp h)
    · exact Or.inr (Or.inl (r.symm.selfBond_imp h))
    · exact Or.inr (Or.inr (r.dupAttr_iff.2 h))

theorem assoc_eq (r : Respell a b) (hnd : ¬ a.DupAttr) (k : Nat × Key) :
    assoc a.settings k = assoc b.settings k := by
  have hb : ¬ b.DupAttr := fun h => hnd (r.dupAttr_iff.2 h)
  unfold Ast.DupAttr at hnd hb
  rw [not_not] at hnd hb
  cases h : assoc a.settings k with
  | none =>
    rw [assoc_eq_lookup, lookup_eq_none_iff'] at h
    exact (assoc_eq_none _ _ (fun hc => h ((r.settings.map Prod.fst).mem_iff.2 hc))).symm
  | some v =>
    rw [assoc_eq_lookup] at h
    exact (assoc_of_mem_nodup _ _ _ hb (r.settings.mem_iff.1 (lookup_mem _ _ _ h))).symm

end Respell

theorem bonded_iff_bonds1 (a : Ast) (l : List Atom) (i j : Int) :
    (AbstractMol.mk l (a.bonds1.map (fun b => (b.1 - 1, b.2 - 1)))).Bonded i j ↔
      ∃ p q : Nat, ((p, q) ∈ a.bonds1 ∨ (q, p) ∈ a.bonds1) ∧ ((p - 1 : Nat) : Int) = i ∧ ((q - 1 : Nat) : Int) = j := by
  unfold AbstractMol.Bonded
  simp only [List.mem_map, exists_exists_and_eq_and]
  constructor
  · rintro ⟨⟨p, q⟩, hb, (⟨h1, h2⟩ | ⟨h1, h2⟩)⟩
    · exact ⟨p, q, Or.inl hb, h1, h2⟩
    · exact ⟨q, p, Or.inr hb, h2, h1⟩
  · rintro ⟨p, q, (hb | hb), h1, h2⟩
    · exact ⟨(p, q), hb, Or.inl ⟨h1, h2⟩⟩
    · exact ⟨(q, p), hb, Or.inr ⟨h2, h1⟩⟩

/-- **C11 (denotation).** Respellings denote the same molecule: either both are rejected, or both denote
molecules with equal atoms (symbol, Z, mass, rad per position) and equal bond sets. -/
theorem C11_denote {a b : Ast} (r : Respell a b) :
    (denote a = .error TPE ∧ denote b = .error TPE) ∨
    ∃ ma mb, denote a = .ok ma ∧ denote b = .ok mb ∧ ma.atoms = mb.atoms ∧
      ∀ i j : Int, ma.Bonded i j ↔ mb.Bonded i j := by
  unfold denote
  by_cases h : a.BadIndex ∨ a.SelfBond ∨ a.DupAttr
  · left
    rw [if_pos h, if_pos (r.rejected_iff.1 h)]
    exact ⟨rfl, rfl⟩
  · right
    have hb : ¬ (b.BadIndex ∨ b.SelfBond ∨ b.DupAttr) := fun hb => h (r.rejected_iff.2 hb)
    rw [if_neg h, if_neg hb]
    have hnd : ¬ a.DupAttr := fun hd => h (Or.inr (Or.inr hd))
    refine ⟨_, _, rfl, rfl, ?_, ?_⟩
    · simp only [r.sortedSyms_eq, r.assoc_eq hnd]
    · intro i j
      rw [bonded_iff_bonds1, bonded_iff_bonds1]
      constructor
      · rintro ⟨p, q, hpq, e⟩; exact ⟨p, q, (r.bonds p q).1 hpq, e⟩
      · rintro ⟨p, q, hpq, e⟩; exact ⟨p, q, (r.bonds p q).2 hpq, e⟩

/-- a graph is determined, attribute by attribute and bond by bond, by the molecule it represents -/
theorem represents_agree {g h : Graph} {ma mb : AbstractMol} (rg : Represents g ma) (rh : Represents h mb)
    (hat : ma.atoms = mb.atoms) (hbo : ∀ i j : Int, ma.Bonded i j ↔ mb.Bonded i j) :
    g.nodeList = h.nodeList ∧ (∀ (i : Int) (k : String), g.attr i k = h.attr i k) ∧
    ∀ i j : Int, j ∈ g.nbrs i ↔ j ∈ h.nbrs i := by
  have hn : g.nodeList = h.nodeList := by rw [rg.nodes, rh.nodes, hat]
  refine ⟨hn, ?_, fun i j => by rw [rg.bonds, rh.bonds, hbo]⟩
  intro i k
  by_cases hk : k ∈ attrNames
  · by_cases hi : i ∈ g.nodeList
    · have hi' := hi
      rw [rg.nodes, Contracts.Parser.mem_range] at hi'
      obtain ⟨n, rfl⟩ := Int.eq_ofNat_of_zero_le hi'.1
      have hlt : n < ma.atoms.length := by exact_mod_cast hi'.2
      have hlt' : n < mb.atoms.length := by rw [← hat]; exact hlt
      obtain ⟨a1, a2, a3, a4, a5, a6⟩ := rg.attrs n hlt
      obtain ⟨b1, b2, b3, b4, b5, b6⟩ := rh.attrs n hlt'
      have e : ma.atoms[n] = mb.atoms[n] := by simp only [hat]
      simp only [attrNames, List.mem_cons, List.not_mem_nil, or_false] at hk
      rcases hk with rfl | rfl | rfl | rfl | rfl | rfl
      · rw [a1, b1, e]
      · rw [a2, b2, e]
      · rw [a3, b3]
      · rw [a4, b4, e]
      · rw [a5, b5, e]
      · rw [a6, b6, e]
    · have hi' : i ∉ h.nodeList := by rw [← hn]; exact hi
      rw [attr_eq_none_of_not_mem hi, attr_eq_none_of_not_mem hi']
  · have h1 : g.attr i k = none := by
      by_contra hne; exact hk (rg.noOther i k hne)
    have h2 : h.attr i k = none := by
      by_contra hne; exact hk (rh.noOther i k hne)
    rw [h1, h2]

/-- **C11.** The hand-written parser gives respellings the same result: both are rejected with
`TucanParserException`, or both are accepted and the two graphs have the same node list, the same value of
every attribute on every atom and the same adjacency. -/
theorem C11_main (env : DepEnv) {a b : Ast} (ha : a.Wf) (hb : b.Wf) (r : Respell a b) :
    (Tucan.parser.graph_from_tree env (treeOf a) = .error TPE ∧
      Tucan.parser.graph_from_tree env (treeOf b) = .error TPE) ∨
    ∃ g h, Tucan.parser.graph_from_tree env (treeOf a) = .ok g ∧
      Tucan.parser.graph_from_tree env (treeOf b) = .ok h ∧
      g.nodeList = h.nodeList ∧ (∀ (i : Int) (k : String), g.attr i k = h.attr i k) ∧
      ∀ i j : Int, j ∈ g.nbrs i ↔ j ∈ h.nbrs i := by
  have ta := graph_from_tree_ok env a ha
  have tb := graph_from_tree_ok env b hb
  rcases C11_denote r with ⟨ea, eb⟩ | ⟨ma, mb, ea, eb, hat, hbo⟩
  · rw [ea] at ta; rw [eb] at tb
    exact Or.inl ⟨ta, tb⟩
  · rw [ea] at ta; rw [eb] at tb
    obtain ⟨g, hg, rg⟩ := ta
    obtain ⟨h, hh, rh⟩ := tb
    exact Or.inr ⟨g, h, hg, hh, represents_agree rg rh hat hbo⟩

/-- `H2O/(3-2)(1-3)(3-1)/(3:rad=2)(1:mass=2)`: tuples reordered, swapped and repeated, blocks reordered -/
def water' : Ast :=
  { formula := [(py!"H", some py!"2"), (py!"O", none)]
    tuples := [(py!"3", py!"2"), (py!"1", py!"3"), (py!"3", py!"1")]
    attrs := some [(py!"3", [(Key.rad, py!"2")]), (py!"1", [(Key.mass, py!"2")])] }

/-- `Respell` is satisfiable by a non-trivial respelling -/
example : Respell water water' where
  formula := rfl
  bonds := by
    intro i j
    have e1 : water.bonds1 = [(1, 3), (2, 3)] := by decide
    have e2 : water'.bonds1 = [(3, 2), (1, 3), (3, 1)] := by decide
    rw [e1, e2]
    simp only [List.mem_cons, Prod.mk.injEq, List.not_mem_nil, or_false]
    omega
  settings := by
    have e1 : water.settings = [((1, Key.mass), 2), ((3, Key.rad), 2)] := by decide
    have e2 : water'.settings = [((3, Key.rad), 2), ((1, Key.mass), 2)] := by decide
    rw [e1, e2]
    exact List.Perm.swap _ _ _

/-! ## 6. `render` is injective on well-formed syntax: V4 is satisfiable, and C02 needs no recogniser -/

def isUp (c : Char) : Bool := decide ('A' ≤ c ∧ c ≤ 'Z')
def isLow (c : Char) : Bool := decide ('a' ≤ c ∧ c ≤ 'z')

theorem up_not_low (c : Char) (h : isUp c = true) : isLow c = false := by
  simp only [isUp, isLow, decide_eq_true_eq, decide_eq_false_iff_not, Char.le_def, UInt32.le_iff_toNat_le] at *
  have e1 : ('A' : Char).val.toNat = 65 := rfl
  have e2 : ('Z' : Char).val.toNat = 90 := rfl
  have e3 : ('a' : Char).val.toNat = 97 := rfl
  have e4 : ('z' : Char).val.toNat = 122 := rfl
  omega

theorem up_not_digit (c : Char) (h : isUp c = true) : isAsciiDigit c = false := by
  simp only [isUp, isAsciiDigit, decide_eq_true_eq, decide_eq_false_iff_not, Char.le_def, UInt32.le_iff_toNat_le] at *
  have e1 : ('A' : Char).val.toNat = 65 := rfl
  have e2 : ('Z' : Char).val.toNat = 90 := rfl
  have e3 : ('0' : Char).val.toNat = 48 := rfl
  have e4 : ('9' : Char).val.toNat = 57 := rfl
  omega

theorem digit_not_low (c : Char) (h : isAsciiDigit c = true) : isLow c = false := by
  simp only [isLow, isAsciiDigit, decide_eq_true_eq, decide_eq_false_iff_not, Char.le_def, UInt32.le_iff_toNat_le] at *
  have e1 : ('a' : Char).val.toNat = 97 := rfl
  have e2 : ('z' : Char).val.toNat = 122 := rfl
  have e3 : ('0' : Char).val.toNat = 48 := rfl
  have e4 : ('9' : Char).val.toNat = 57 := rfl
  omega

/-- an element symbol: an upper-case letter, optionally followed by a lower-case letter -/
def symShape (s : Str) : Bool :=
  match s with
  | [u] => isUp u
  | [u, l] => isUp u && isLow l
  | _ => false

set_option maxRecDepth 100000 in
theorem table_shape : periodicTable.all symShape = true := by decide

theorem sym_shape {s : Str} (h : s ∈ periodicTable) :
    ∃ u lows, s = u :: lows ∧ isUp u = true ∧ ∀ c ∈ lows, isLow c = true := by
  have := List.all_eq_true.1 table_shape s h
  match s, this with
  | [u], h => exact ⟨u, [], rfl, h, by simp⟩
  | [u, l], h =>
    simp only [symShape, Bool.and_eq_true] at h
    exact ⟨u, [l], rfl, h.1, by simpa using h.2⟩

/-- the longest prefix satisfying `P` is unique: if `p ++ r = p' ++ r'`, `P` holds throughout `p` and `p'`
and fails at the heads of `r`, `r'` (if any), then `p = p'` and `r = r'` -/
theorem span_unique (P : Char → Bool) : ∀ (p p' r r' : Str),
    (∀ c ∈ p, P c = true) → (∀ c ∈ p', P c = true) →
    (∀ c, r.head? = some c → P c = false) → (∀ c, r'.head? = some c → P c = false) →
    p ++ r = p' ++ r' → p = p' ∧ r = r'
  | [], [], r, r', _, _, _, _, e => ⟨rfl, e⟩
  | [], c :: p', r, r', _, hp', hr, _, e => by
    simp only [List.nil_append, List.cons_append] at e
    subst e
    have h1 := hr c rfl
    have h2 := hp' c (by simp)
    rw [h1] at h2; cases h2
  | c :: p, [], r, r', hp, _, _, hr', e => by
    simp only [List.nil_append, List.cons_append] at e
    subst e
    have h1 := hr' c rfl
    have h2 := hp c (by simp)
    rw [h1] at h2; cases h2
  | c :: p, c' :: p', r, r', hp, hp', hr, hr', e => by
    simp only [List.cons_append, List.cons.injEq] at e
    obtain ⟨rfl, e⟩ := e
    obtain ⟨h1, h2⟩ := span_unique P p p' r r' (fun d hd => hp d (by simp [hd]))
      (fun d hd => hp' d (by simp [hd])) hr hr' e
    exact ⟨by rw [h1], h2⟩

theorem head?_append_of_all (P : Char → Bool) (p r : Str) (hp : ∀ c ∈ p, P c = true)
    (hr : ∀ c, r.head? = some c → P c = true) : ∀ c, (p ++ r).head? = some c → P c = true := by
  intro c hc
  cases p with
  | nil => exact hr c hc
  | cons d p => simp at hc; subst hc; exact hp _ (by simp)

/-! ### the sum formula -/

structure ElemOK (p : Str × Option Str) : Prop where
  sym : p.1 ∈ periodicTable
  cnt : ∀ ds, p.2 = some ds → ds ≠ [] ∧ ∀ c ∈ ds, isAsciiDigit c = true

theorem numWf_digits {ds : Str} (h : NumWf ds) : ds ≠ [] ∧ ∀ c ∈ ds, isAsciiDigit c = true :=
  ⟨h.1, fun c hc => List.all_eq_true.1 h.2.1 c hc⟩

def formulaStr (f : List (Str × Option Str)) : Str := (f.map renderSym).flatten

theorem digits_getD (p : Str × Option Str) (h : ElemOK p) : ∀ c ∈ p.2.getD [], isAsciiDigit c = true := by
  cases hp : p.2 with
  | none => simp
  | some ds => simpa using (h.cnt ds hp).2

theorem head_formulaStr (f : List (Str × Option Str)) (hf : ∀ p ∈ f, ElemOK p) :
    ∀ c, (formulaStr f).head? = some c → isUp c = true := by
  intro c hc
  cases f with
  | nil => simp [formulaStr] at hc
  | cons p r =>
    obtain ⟨u, lows, e, hu, _⟩ := sym_shape (hf p (by simp)).sym
    simp only [formulaStr, List.map_cons, List.flatten_cons, renderSym, e, List.cons_append,
      List.head?_cons, Option.some.injEq] at hc
    subst hc; exact hu

theorem formulaStr_inj : ∀ (f f' : List (Str × Option Str)), (∀ p ∈ f, ElemOK p) → (∀ p ∈ f', ElemOK p) →
    formulaStr f = formulaStr f' → f = f'
  | [], [], _, _, _ => rfl
  | [], p :: r, _, hf', e => by
    obtain ⟨u, lows, e', _, _⟩ := sym_shape (hf' p (by simp)).sym
    simp [formulaStr, renderSym, e'] at e
  | p :: r, [], hf, _, e => by
    obtain ⟨u, lows, e', _, _⟩ := sym_shape (hf p (by simp)).sym
    simp [formulaStr, renderSym, e'] at e
  | p :: r, p' :: r', hf, hf', e => by
    have ok := hf p (by simp)
    have ok' := hf' p' (by simp)
    have hr : ∀ q ∈ r, ElemOK q := fun q hq => hf q (by simp [hq])
    have hr' : ∀ q ∈ r', ElemOK q := fun q hq => hf' q (by simp [hq])
    obtain ⟨u, lows, e1, hu, hl⟩ := sym_shape ok.sym
    obtain ⟨u', lows', e1', hu', hl'⟩ := sym_shape ok'.sym
    have hR := head_formulaStr r hr
    have hR' := head_formulaStr r' hr'
    have e2 : u :: (lows ++ (p.2.getD [] ++ formulaStr r)) = u' :: (lows' ++ (p'.2.getD [] ++ formulaStr r')) := by
      simpa [formulaStr, renderSym, e1, e1', List.append_assoc] using e
    obtain ⟨rfl, e3⟩ := List.cons.inj e2
    have hd := digits_getD p ok
    have hd' := digits_getD p' ok'
    have hnl : ∀ (ds R : Str), (∀ c ∈ ds, isAsciiDigit c = true) → (∀ c, R.head? = some c → isUp c = true) →
        ∀ c, (ds ++ R).head? = some c → isLow c = false := by
      intro ds R h1 h2 c hc
      cases ds with
      | nil => exact up_not_low c (h2 c hc)
      | cons d ds => simp at hc; subst hc; exact digit_not_low _ (h1 _ (by simp))
    obtain ⟨rfl, e4⟩ := span_unique isLow lows lows' _ _ hl hl' (hnl _ _ hd hR) (hnl _ _ hd' hR') e3
    obtain ⟨e5, e6⟩ := span_unique isAsciiDigit _ _ _ _ hd hd' (fun c hc => up_not_digit c (hR c hc))
      (fun c hc => up_not_digit c (hR' c hc)) e4
    have ih := formulaStr_inj r r' hr hr' e6
    have hp : p = p' := by
      obtain ⟨s, o⟩ := p
      obtain ⟨s', o'⟩ := p'
      simp only at e1 e1' e5
      have : s = s' := by rw [e1, e1']
      subst this
      congr 1
      cases o with
      | none =>
        cases o' with
        | none => rfl
        | some ds' => simp at e5; exact absurd e5 (ok'.cnt ds' rfl).1
      | some ds =>
        cases o' with
        | none => simp at e5; exact absurd e5 (ok.cnt ds rfl).1
        | some ds' => simp at e5; rw [e5]
    rw [hp, ih]

/-! ### tuples -/

def TupOK (t : Str × Str) : Prop := (∀ c ∈ t.1, isAsciiDigit c = true) ∧ (∀ c ∈ t.2, isAsciiDigit c = true)

def tuplesStr (ts : List (Str × Str)) : Str := (ts.map renderTuple).flatten

theorem tuplesStr_cons (t : Str × Str) (ts : List (Str × Str)) :
    tuplesStr (t :: ts) = '(' :: (t.1 ++ '-' :: (t.2 ++ ')' :: tuplesStr ts)) := by
  simp [tuplesStr, renderTuple, List.append_assoc]

theorem tuplesStr_inj : ∀ (ts ts' : List (Str × Str)), (∀ t ∈ ts, TupOK t) → (∀ t ∈ ts', TupOK t) →
    tuplesStr ts = tuplesStr ts' → ts = ts'
  | [], [], _, _, _ => rfl
  | [], t :: r, _, _, e => by rw [tuplesStr_cons] at e; simp [tuplesStr] at e
  | t :: r, [], _, _, e => by rw [tuplesStr_cons] at e; simp [tuplesStr] at e
  | t :: r, t' :: r', h, h', e => by
    rw [tuplesStr_cons, tuplesStr_cons] at e
    obtain ⟨_, e⟩ := List.cons.inj e
    have ok := h t (by simp)
    have ok' := h' t' (by simp)
    have nd : ∀ (x : Char) (R : Str), isAsciiDigit x = false → ∀ c, (x :: R).head? = some c → isAsciiDigit c = false := by
      intro x R hx c hc; simp at hc; subst hc; exact hx
    obtain ⟨e1, e⟩ := span_unique isAsciiDigit _ _ _ _ ok.1 ok'.1 (nd _ _ (by decide)) (nd _ _ (by decide)) e
    obtain ⟨_, e⟩ := List.cons.inj e
    obtain ⟨e2, e⟩ := span_unique isAsciiDigit _ _ _ _ ok.2 ok'.2 (nd _ _ (by decide)) (nd _ _ (by decide)) e
    obtain ⟨_, e⟩ := List.cons.inj e
    have ih := tuplesStr_inj r r' (fun q hq => h q (by simp [hq])) (fun q hq => h' q (by simp [hq])) e
    rw [ih, Prod.ext e1 e2]

/-! ### attribute blocks -/

/-- the characters of a property `key=value` -/
def propChar (c : Char) : Bool := isLow c || c == '=' || isAsciiDigit c

theorem mem_renderProp (kv : Key × Str) (hd : ∀ c ∈ kv.2, isAsciiDigit c = true) :
    ∀ c ∈ renderProp kv, propChar c = true := by
  intro c hc
  unfold renderProp at hc
  simp only [List.mem_append, List.mem_singleton, List.mem_cons, List.not_mem_nil, or_false] at hc
  rcases hc with (hc | rfl) | hc
  · have : isLow c = true := by
      cases hk : kv.1 with
      | mass => rw [hk] at hc; simp [Key.text] at hc; rcases hc with rfl | rfl | rfl <;> decide
      | rad => rw [hk] at hc; simp [Key.text] at hc; rcases hc with rfl | rfl | rfl <;> decide
    simp [propChar, this]
  · decide
  · simp [propChar, hd c hc]

theorem renderProp_ne_nil (kv : Key × Str) : renderProp kv ≠ [] := by
  unfold renderProp; simp

theorem renderProp_inj : Function.Injective renderProp := by
  rintro ⟨k, ds⟩ ⟨k', ds'⟩ e
  cases k <;> cases k' <;> simp [renderProp, Key.text] at e
  · rw [e]
  · rw [e]

theorem propChar_ne {c d : Char} (h : propChar c = true) (hd : propChar d = false) : c ≠ d := by
  rintro rfl; rw [h] at hd; cases hd

/-- `",x₁,x₂…"` determines the `xᵢ` when they contain no comma -/
theorem commaList_inj : ∀ (l l' : List Str), (∀ x ∈ l, ∀ c ∈ x, propChar c = true) →
    (∀ x ∈ l', ∀ c ∈ x, propChar c = true) →
    (l.map (fun y => py!"," ++ y)).flatten = (l'.map (fun y => py!"," ++ y)).flatten → l = l'
  | [], [], _, _, _ => rfl
  | [], x :: r, _, _, e => by simp at e
  | x :: r, [], _, _, e => by simp at e
  | x :: r, x' :: r', h, h', e => by
    simp only [List.map_cons, List.flatten_cons, List.cons_append, List.nil_append, List.cons.injEq,
      true_and] at e
    have hh : ∀ (l : List Str) c, ((l.map (fun y => py!"," ++ y)).flatten).head? = some c → propChar c = false := by
      intro l c hc
      cases l with
      | nil => simp at hc
      | cons y l => simp at hc; subst hc; decide
    obtain ⟨e1, e2⟩ := span_unique propChar x x' _ _ (h x (by simp)) (h' x' (by simp)) (hh r) (hh r') e
    rw [e1, commaList_inj r r' (fun y hy => h y (by simp [hy])) (fun y hy => h' y (by simp [hy])) e2]

theorem join_comma_inj (l l' : List Str) (h : ∀ x ∈ l, x ≠ [] ∧ ∀ c ∈ x, propChar c = true)
    (h' : ∀ x ∈ l', x ≠ [] ∧ ∀ c ∈ x, propChar c = true) (e : join py!"," l = join py!"," l') : l = l' := by
  unfold join at e
  have hh : ∀ (l : List Str) c, ((l.map (fun y => py!"," ++ y)).flatten).head? = some c → propChar c = false := by
    intro l c hc
    cases l with
    | nil => simp at hc
    | cons y l => simp at hc; subst hc; decide
  cases l with
  | nil =>
    cases l' with
    | nil => rfl
    | cons x' r' =>
      rw [intercalate_cons] at e
      have e0 : (py!",").intercalate ([] : List Str) = [] := rfl
      rw [e0] at e
      have : x' = [] := (List.append_eq_nil_iff.1 e.symm).1
      exact absurd this (h' x' (by simp)).1
  | cons x r =>
    cases l' with
    | nil =>
      rw [intercalate_cons] at e
      have e0 : (py!",").intercalate ([] : List Str) = [] := rfl
      rw [e0] at e
      have : x = [] := (List.append_eq_nil_iff.1 e).1
      exact absurd this (h x (by simp)).1
    | cons x' r' =>
      rw [intercalate_cons, intercalate_cons] at e
      obtain ⟨e1, e2⟩ := span_unique propChar x x' _ _ (h x (by simp)).2 (h' x' (by simp)).2 (hh r) (hh r') e
      rw [e1, commaList_inj r r' (fun y hy => (h y (by simp [hy])).2) (fun y hy => (h' y (by simp [hy])).2) e2]

/-- characters of `key=value(,key=value)*` -/
def propsChar (c : Char) : Bool := propChar c || c == ','

theorem mem_join_comma (l : List Str) (h : ∀ x ∈ l, ∀ c ∈ x, propChar c = true) :
    ∀ c ∈ join py!"," l, propsChar c = true := by
  intro c hc
  unfold join at hc
  cases l with
  | nil => simp [List.intercalate] at hc
  | cons x r =>
    rw [intercalate_cons] at hc
    simp only [List.mem_append, List.mem_flatten, List.mem_map, exists_exists_and_eq_and, List.mem_cons,
      List.not_mem_nil, or_false] at hc
    rcases hc with hc | ⟨y, hy, rfl | hc⟩
    · simp [propsChar, h x (by simp) c hc]
    · decide
    · simp [propsChar, h y (by simp [hy]) c hc]

structure BlockOK (b : Str × List (Key × Str)) : Prop where
  idx : ∀ c ∈ b.1, isAsciiDigit c = true
  vals : ∀ kv ∈ b.2, ∀ c ∈ kv.2, isAsciiDigit c = true

def blocksStr (bs : List (Str × List (Key × Str))) : Str := (bs.map renderAttr).flatten

theorem blocksStr_cons (b : Str × List (Key × Str)) (bs : List (Str × List (Key × Str))) :
    blocksStr (b :: bs) = '(' :: (b.1 ++ ':' :: (join py!"," (b.2.map renderProp) ++ ')' :: blocksStr bs)) := by
  simp [blocksStr, renderAttr, List.append_assoc]

theorem blocksStr_inj : ∀ (bs bs' : List (Str × List (Key × Str))), (∀ b ∈ bs, BlockOK b) →
    (∀ b ∈ bs', BlockOK b) → blocksStr bs = blocksStr bs' → bs = bs'
  | [], [], _, _, _ => rfl
  | [], b :: r, _, _, e => by rw [blocksStr_cons] at e; simp [blocksStr] at e
  | b :: r, [], _, _, e => by rw [blocksStr_cons] at e; simp [blocksStr] at e
  | b :: r, b' :: r', h, h', e => by
    rw [blocksStr_cons, blocksStr_cons] at e
    obtain ⟨_, e⟩ := List.cons.inj e
    have ok := h b (by simp)
    have ok' := h' b' (by simp)
    have nd : ∀ (P : Char → Bool) (x : Char) (R : Str), P x = false → ∀ c, (x :: R).head? = some c → P c = false := by
      intro P x R hx c hc; simp at hc; subst hc; exact hx
    obtain ⟨e1, e⟩ := span_unique isAsciiDigit _ _ _ _ ok.idx ok'.idx (nd _ _ _ (by decide)) (nd _ _ _ (by decide)) e
    obtain ⟨_, e⟩ := List.cons.inj e
    have hp : ∀ (b : Str × List (Key × Str)), BlockOK b → ∀ x ∈ b.2.map renderProp, x ≠ [] ∧ ∀ c ∈ x, propChar c = true := by
      intro b ok x hx
      obtain ⟨kv, hkv, rfl⟩ := List.mem_map.1 hx
      exact ⟨renderProp_ne_nil kv, mem_renderProp kv (ok.vals kv hkv)⟩
    obtain ⟨e2, e⟩ := span_unique propsChar _ _ _ _
      (mem_join_comma _ (fun x hx => (hp b ok x hx).2)) (mem_join_comma _ (fun x hx => (hp b' ok' x hx).2))
      (nd _ _ _ (by decide)) (nd _ _ _ (by decide)) e
    obtain ⟨_, e⟩ := List.cons.inj e
    have e3 := join_comma_inj _ _ (hp b ok) (hp b' ok') e2
    have e4 : b.2 = b'.2 := List.map_injective_iff.2 renderProp_inj e3
    have ih := blocksStr_inj r r' (fun q hq => h q (by simp [hq])) (fun q hq => h' q (by simp [hq])) e
    rw [ih, Prod.ext e1 e4]

/-! ### the whole string -/

theorem render_eq (a : Ast) : render a = formulaStr a.formula ++ '/' :: (tuplesStr a.tuples ++
    (match a.attrs with | none => [] | some bs => '/' :: blocksStr bs)) := by
  unfold render formulaStr tuplesStr blocksStr
  cases a.attrs <;> simp [List.append_assoc]

def notSlash (c : Char) : Bool := c != '/'

theorem notSlash_formulaStr (f : List (Str × Option Str)) (hf : ∀ p ∈ f, ElemOK p) :
    ∀ c ∈ formulaStr f, notSlash c = true := by
  intro c hc
  simp only [formulaStr, List.mem_flatten, List.mem_map, exists_exists_and_eq_and] at hc
  obtain ⟨p, hp, hc⟩ := hc
  have ok := hf p hp
  obtain ⟨u, lows, e, hu, hl⟩ := sym_shape ok.sym
  simp only [renderSym, e, List.mem_append, List.mem_cons] at hc
  have key : isUp c = true ∨ isLow c = true ∨ isAsciiDigit c = true := by
    rcases hc with (rfl | hc) | hc
    · exact Or.inl hu
    · exact Or.inr (Or.inl (hl c hc))
    · exact Or.inr (Or.inr (digits_getD p ok c hc))
  unfold notSlash
  rcases key with h | h | h
  · have : c ≠ '/' := by rintro rfl; revert h; decide
    simpa using this
  · have : c ≠ '/' := by rintro rfl; revert h; decide
    simpa using this
  · have : c ≠ '/' := by rintro rfl; revert h; decide
    simpa using this

theorem notSlash_tuplesStr (ts : List (Str × Str)) (h : ∀ t ∈ ts, TupOK t) :
    ∀ c ∈ tuplesStr ts, notSlash c = true := by
  intro c hc
  simp only [tuplesStr, List.mem_flatten, List.mem_map, exists_exists_and_eq_and] at hc
  obtain ⟨t, ht, hc⟩ := hc
  have ok := h t ht
  simp only [renderTuple, List.mem_append, List.mem_cons, List.not_mem_nil, or_false] at hc
  unfold notSlash
  have dd : ∀ c, isAsciiDigit c = true → (c != '/') = true := by
    intro c h
    have : c ≠ '/' := by rintro rfl; revert h; decide
    simpa using this
  rcases hc with (((rfl | hc) | rfl) | hc) | rfl
  · decide
  · exact dd c (ok.1 c hc)
  · decide
  · exact dd c (ok.2 c hc)
  · decide

theorem wf_elemOK {a : Ast} (h : a.Wf) : ∀ p ∈ a.formula, ElemOK p := fun p hp =>
  ⟨keys_eq_table ▸ h.syms p hp, fun ds hds => numWf_digits (h.counts p hp ds hds).1⟩

theorem wf_tupOK {a : Ast} (h : a.Wf) : ∀ t ∈ a.tuples, TupOK t := fun t ht =>
  ⟨(numWf_digits (h.tuples t ht).1).2, (numWf_digits (h.tuples t ht).2).2⟩

theorem wf_blockOK {a : Ast} (h : a.Wf) {bs : List (Str × List (Key × Str))} (hbs : a.attrs = some bs) :
    ∀ b ∈ bs, BlockOK b := fun b hb =>
  ⟨(numWf_digits (h.attrs bs hbs b hb).1).2, fun kv hkv => (numWf_digits ((h.attrs bs hbs b hb).2 kv hkv)).2⟩

/-- **`render` is injective on well-formed syntax trees**: a string has at most one reading -/
theorem render_inj {a b : Ast} (ha : a.Wf) (hb : b.Wf) (e : render a = render b) : a = b := by
  rw [render_eq, render_eq] at e
  have hs : ∀ (R : Str) c, ('/' :: R).head? = some c → notSlash c = false := by
    intro R c hc; simp at hc; subst hc; decide
  have hn : ∀ c, ([] : Str).head? = some c → notSlash c = false := by intro c hc; simp at hc
  obtain ⟨e1, e2⟩ := span_unique notSlash _ _ _ _ (notSlash_formulaStr _ (wf_elemOK ha))
    (notSlash_formulaStr _ (wf_elemOK hb)) (hs _) (hs _) e
  have e3 := (List.cons.inj e2).2
  have f1 : a.formula = b.formula := formulaStr_inj _ _ (wf_elemOK ha) (wf_elemOK hb) e1
  have nt := notSlash_tuplesStr _ (wf_tupOK ha)
  have nt' := notSlash_tuplesStr _ (wf_tupOK hb)
  have key : a.tuples = b.tuples ∧ a.attrs = b.attrs := by
    cases haa : a.attrs with
    | none =>
      cases hab : b.attrs with
      | none =>
        rw [haa, hab] at e3
        simp only [List.append_nil] at e3
        exact ⟨tuplesStr_inj _ _ (wf_tupOK ha) (wf_tupOK hb) e3, rfl⟩
      | some bs' =>
        rw [haa, hab] at e3
        obtain ⟨_, e4⟩ := span_unique notSlash _ _ _ _ nt nt' hn (hs _) e3
        cases e4
    | some bs =>
      cases hab : b.attrs with
      | none =>
        rw [haa, hab] at e3
        obtain ⟨_, e4⟩ := span_unique notSlash _ _ _ _ nt nt' (hs _) hn e3
        cases e4
      | some bs' =>
        rw [haa, hab] at e3
        obtain ⟨e4, e5⟩ := span_unique notSlash _ _ _ _ nt nt' (hs _) (hs _) e3
        have e6 := (List.cons.inj e5).2
        rw [blocksStr_inj _ _ (wf_blockOK ha haa) (wf_blockOK hb hab) e6]
        exact ⟨tuplesStr_inj _ _ (wf_tupOK ha) (wf_tupOK hb) e4, rfl⟩
  obtain ⟨fa, ta, aa⟩ := a
  obtain ⟨fb, tb, ab⟩ := b
  simp only at f1 key
  rw [f1, key.1, key.2]

/-! ### consequences -/

open Classical in
/-- the reference recogniser: the tree of the unique well-formed reading, if there is one -/
noncomputable def refAntlr (s : Str) : Option PTree :=
  if h : ∃ a : Ast, a.Wf ∧ render a = s then some (treeOf (Classical.choose h)) else none

/-- **Assumption V4 is satisfiable** (it does not contradict itself: a string has only one reading) -/
theorem V4_satisfiable : ∃ antlr, V4 antlr := by
  refine ⟨refAntlr, ?_⟩
  intro a ha _
  have h : ∃ b : Ast, b.Wf ∧ render b = render a := ⟨a, ha, rfl⟩
  unfold refAntlr
  rw [dif_pos h]
  have := Classical.choose_spec h
  rw [render_inj this.1 ha this.2]

/-- **C02, label level, without any assumption on the recogniser.** -/
theorem C02_main' {ms₁ ms₂ : Graph} {n₁ n₂ : Nat} (h₁ : SortedMol ms₁ n₁) (h₂ : SortedMol ms₂ n₂)
    (e : tucanSpec ms₁ = tucanSpec ms₂) : n₁ = n₂ ∧ IdIso ms₁ ms₂ := by
  have ea : astOf ms₁ = astOf ms₂ := by
    apply render_inj h₁.astOf_wf h₂.astOf_wf
    rw [← tucanSpec_eq_render, ← tucanSpec_eq_render, e]
  have em : molOf ms₁ n₁ = molOf ms₂ n₂ := by
    have d₁ := denote_astOf h₁
    have d₂ := denote_astOf h₂
    rw [ea, d₂] at d₁
    exact (Except.ok.inj d₁).symm
  have hn : n₁ = n₂ := by
    have := congrArg (fun m => m.atoms.length) em
    simpa [molOf] using this
  subst hn
  refine ⟨rfl, ?_, ?_, ?_⟩
  · intro i; rw [h₁.nodes.mem_iff, h₂.nodes.mem_iff]
  · intro i k hk
    by_cases hi : i ∈ ms₁.nodeList
    · have hi₂ : i ∈ ms₂.nodeList := by rw [h₂.nodes.mem_iff, ← h₁.nodes.mem_iff]; exact hi
      obtain ⟨h0, hlt⟩ := (mem_nodeList_iff h₁.nodes i).1 hi
      obtain ⟨j, rfl⟩ := Int.eq_ofNat_of_zero_le h0
      have hj : j < n₁ := by omega
      have ea : atomAt ms₁ j = atomAt ms₂ j := by
        have := congrArg (fun m => m.atoms[j]?) em
        simpa [molOf, hj] using this
      obtain ⟨_, s2, s3⟩ := h₁.sym_spec hj
      obtain ⟨_, t2, t3⟩ := h₂.sym_spec hj
      have esym : symAt ms₁ j = symAt ms₂ j := congrArg Atom.symbol ea
      have emass : intAt ms₁ j "mass" = intAt ms₂ j "mass" := congrArg Atom.mass ea
      have erad : intAt ms₁ j "rad" = intAt ms₂ j "rad" := congrArg Atom.rad ea
      simp only [idKeys, List.mem_cons, List.not_mem_nil, or_false] at hk
      rcases hk with rfl | rfl | rfl | rfl
      · rw [s2, t2, esym]
      · rw [s3, t3, esym]
      · rw [← intAt_map (h₁.mass _ hi), ← intAt_map (h₂.mass _ hi₂), emass]
      · rw [← intAt_map (h₁.rad _ hi), ← intAt_map (h₂.rad _ hi₂), erad]
    · have hi₂ : i ∉ ms₂.nodeList := by rw [h₂.nodes.mem_iff, ← h₁.nodes.mem_iff]; exact hi
      rw [attr_eq_none_of_not_mem hi, attr_eq_none_of_not_mem hi₂]
  · intro i j
    rw [← bonded_molOf h₁, ← bonded_molOf h₂, em]

open Contracts.FinalLabels in
/-- **C02 for `serialize_molecule`, without any assumption on the recogniser.** -/
theorem C02_serialize' (env : DepEnv) (hs : env.SetLawful)
    (fuel₁ fuel₂ : Nat) {m₁ m₂ m₁' m₂' : Graph} {s : Str} (h₁ : MolOK m₁) (h₂ : MolOK m₂)
    (c₁ : Carries m₁ "partition") (c₂ : Carries m₂ "partition")
    (f₁ : fuel₁ ≥ fuelBound m₁) (f₂ : fuel₂ ≥ fuelBound m₂)
    (e₁ : Tucan.serialization.serialize_molecule env fuel₁ m₁ = .ok (s, m₁'))
    (e₂ : Tucan.serialization.serialize_molecule env fuel₂ m₂ = .ok (s, m₂')) :
    ∃ π, ∀ k ∈ idKeys, Graph.IsIsoOn k π m₁ m₂ := by
  obtain ⟨antlr, hV4⟩ := V4_satisfiable
  exact C02_serialize antlr hV4 env hs fuel₁ fuel₂ h₁ h₂ c₁ c₂ f₁ f₂ e₁ e₂

open Contracts.FinalLabels in
/-- **C02, whole pipeline, without any assumption on the recogniser**: if canonicalization followed by
serialization gives two molecules the same TUCAN string, they are isomorphic as graphs coloured by element
symbol, atomic number, mass and rad. Contrapositive: non-isomorphic molecules have different strings. -/
theorem C02_pipeline' {env : DepEnv} (hs : env.SetLawful)
    (hb : BlissLawful env) {m₁ m₂ c₁ c₂ c₁' c₂' : Graph} {s : Str}
    (h₁ : MolOK m₁) (h₂ : MolOK m₂) (ne₁ : m₁.nodeList ≠ []) (ne₂ : m₂.nodeList ≠ [])
    (ic₁ : Carries m₁ "invariant_code") (ic₂ : Carries m₂ "invariant_code")
    (fa₁ fb₁ fa₂ fb₂ : Nat) (hfa₁ : fa₁ ≥ m₁.nodeList.length + 1) (hfa₂ : fa₂ ≥ m₂.nodeList.length + 1)
    (hfb₁ : fb₁ ≥ fuelBound m₁) (hfb₂ : fb₂ ≥ fuelBound m₂)
    (r₁ : Tucan.canonicalization.canonicalize_molecule env fa₁ m₁ = .ok c₁)
    (r₂ : Tucan.canonicalization.canonicalize_molecule env fa₂ m₂ = .ok c₂)
    (e₁ : Tucan.serialization.serialize_molecule env fb₁ c₁ = .ok (s, c₁'))
    (e₂ : Tucan.serialization.serialize_molecule env fb₂ c₂ = .ok (s, c₂')) :
    ∃ π, ∀ k ∈ idKeys, Graph.IsIsoOn k π m₁ m₂ := by
  obtain ⟨antlr, hV4⟩ := V4_satisfiable
  exact C02_pipeline antlr hV4 hs hb h₁ h₂ ne₁ ne₂ ic₁ ic₂ fa₁ fb₁ fa₂ fb₂ hfa₁ hfa₂ hfb₁ hfb₂ r₁ r₂ e₁ e₂

/-! ## 7. the hypotheses are satisfiable -/

/-- hydrogen fluoride with a deuterium: `H` (mass 2) — `F` -/
def exHF : Graph :=
  ((Graph.empty.addNode 0 ⟨[("element_symbol", Val.str py!"H"), ("atomic_number", Val.int 1), ("mass", Val.int 2)]⟩).addNode 1
    ⟨[("element_symbol", Val.str py!"F"), ("atomic_number", Val.int 9)]⟩).addEdge 0 1 Dict.empty

theorem small_lit (i : Int) (h : i < 100) : i < 10 ^ 4300 :=
  lt_of_lt_of_le h (by
    calc (100 : Int) = 10 ^ 2 := by norm_num
      _ ≤ 10 ^ 4300 := pow_le_pow_right₀ (by norm_num) (by norm_num))

/-- `SortedMol` (hence `MolOK`-like data) is satisfiable by a molecule with a bond and an isotope label -/
example : SortedMol exHF 2 := by
  have w0 : (Graph.empty.addNode 0 ⟨[("element_symbol", Val.str py!"H"), ("atomic_number", Val.int 1), ("mass", Val.int 2)]⟩).WF :=
    Graph.WF_addNode Graph.WF_empty 0 (by unfold Dict.WF Dict.keys; decide)
  have w1 := Graph.WF_addNode w0 1 (a := ⟨[("element_symbol", Val.str py!"F"), ("atomic_number", Val.int 9)]⟩) (by unfold Dict.WF Dict.keys; decide)
  have w : exHF.WF := Graph.WF_addEdge w1 0 1 Dict.empty
  have hn : exHF.nodeList = [0, 1] := by decide
  have hnb : ∀ x y, y ∈ exHF.nbrs x ↔ (x = 0 ∧ y = 1) ∨ (x = 1 ∧ y = 0) := by
    intro x y
    unfold exHF
    rw [Graph.mem_nbrs_addEdge w1, Graph.nbrs_addNode w0, Graph.nbrs_addNode Graph.WF_empty]
    simp [Graph.nbrs, Graph.empty, Dict.empty, Dict.get?]
  refine ⟨w, ?_, ?_, ?_, ?_, ?_, ?_, ?_⟩
  · intro u hu
    rw [hnb] at hu; omega
  · rw [hn]; exact List.Perm.refl _
  · exact_mod_cast small_lit 2 (by norm_num)
  · intro i hi
    rw [hn] at hi
    simp only [List.mem_cons, List.not_mem_nil, or_false] at hi
    rcases hi with rfl | rfl
    · exact ⟨py!"H", by decide, by decide, by decide⟩
    · exact ⟨py!"F", by decide, by decide, by decide⟩
  · intro i hi j hj hij x y hx hy
    rw [hn] at hi hj
    simp only [List.mem_cons, List.not_mem_nil, or_false] at hi hj
    rcases hi with rfl | rfl <;> rcases hj with rfl | rfl
    · omega
    · have e1 : exHF.attr 0 "atomic_number" = some (Val.int 1) := by decide
      have e2 : exHF.attr 1 "atomic_number" = some (Val.int 9) := by decide
      rw [e1] at hx; rw [e2] at hy
      cases hx; cases hy; decide
    · omega
    · omega
  · intro i hi v hv
    rw [hn] at hi
    simp only [List.mem_cons, List.not_mem_nil, or_false] at hi
    rcases hi with rfl | rfl
    · have e1 : exHF.attr 0 "mass" = some (Val.int 2) := by decide
      rw [e1] at hv; cases hv
      exact ⟨2, by norm_num, small_lit 2 (by norm_num), rfl⟩
    · have e1 : exHF.attr 1 "mass" = none := by decide
      rw [e1] at hv; cases hv
  · intro i hi v hv
    rw [hn] at hi
    simp only [List.mem_cons, List.not_mem_nil, or_false] at hi
    rcases hi with rfl | rfl
    · have e1 : exHF.attr 0 "rad" = none := by decide
      rw [e1] at hv; cases hv
    · have e1 : exHF.attr 1 "rad" = none := by decide
      rw [e1] at hv; cases hv

end Contracts.RoundTrip

#print axioms Contracts.RoundTrip.tucanSpec_eq_render
#print axioms Contracts.RoundTrip.astOf_wf
#print axioms Contracts.RoundTrip.denote_astOf
#print axioms Contracts.RoundTrip.C03_iso
#print axioms Contracts.RoundTrip.C03_main
#print axioms Contracts.RoundTrip.C03_pipeline
#print axioms Contracts.RoundTrip.C02_main
#print axioms Contracts.RoundTrip.C02_main'
#print axioms Contracts.RoundTrip.C02_pipeline
#print axioms Contracts.RoundTrip.C02_pipeline'
#print axioms Contracts.RoundTrip.render_inj
#print axioms Contracts.RoundTrip.V4_satisfiable
#print axioms Contracts.RoundTrip.C11_main
