/-
Contracts.RoundTrip — properties C03 and C02.

C03: parsing the TUCAN string produced for a molecule yields a graph isomorphic to that molecule with the
same element, isotope mass and radical on every corresponding atom and the same number of atoms and bonds.
C02: molecules that are not isomorphic (as graphs coloured by element, mass, radical) get different
TUCAN strings.

1. `render : Ast → Str` (the characters of an abstract syntax tree), `astOf ms : Ast` (the syntax tree
   of the string emitted for the sorted graph `ms`), `tucanSpec ms = render (astOf ms)`, `(astOf ms).Wf`
2. `denote_astOf`: the denotation of `astOf ms` is `ms` itself, atom by atom and bond by bond
3. `C03_iso`: the listener run over `treeOf (astOf ms)` returns the identity-isomorphic copy of `ms`
4. `C02_main`: equal strings ⇒ identity-isomorphic sorted graphs

The ANTLR recogniser is not verified: it enters as the hypothesis `V4 antlr` (DESIGN.md §4, V4).
-/
import Contracts.Parser
import Contracts.Layout
set_option autoImplicit false
set_option linter.unusedSimpArgs false
set_option linter.unusedVariables false
open Py

namespace Contracts.RoundTrip
open Contracts.Parser Contracts.Layout Contracts.Serialize
open Contracts.Partition (Carries)

/-! ## 1. rendering of the abstract syntax, written from tucan.g4 -/

/-- `cl : 'Cl' count?` -/
def renderSym (p : Str × Option Str) : Str := p.1 ++ p.2.getD []
/-- `tuple : '(' node_index '-' node_index ')'` -/
def renderTuple (t : Str × Str) : Str := py!"(" ++ t.1 ++ py!"-" ++ t.2 ++ py!")"
/-- `node_property : node_property_key '=' node_property_value` -/
def renderProp (kv : Key × Str) : Str := kv.1.text ++ py!"=" ++ kv.2
/-- `node_attribute : '(' node_index ':' node_property (',' node_property)* ')'` -/
def renderAttr (b : Str × List (Key × Str)) : Str :=
  py!"(" ++ b.1 ++ py!":" ++ join py!"," (b.2.map renderProp) ++ py!")"
/-- `tucan : sum_formula '/' tuples ('/' node_attributes)? EOF` -/
def render (a : Ast) : Str :=
  (a.formula.map renderSym).flatten ++ py!"/" ++ (a.tuples.map renderTuple).flatten ++
    (match a.attrs with
     | none => []
     | some bs => py!"/" ++ (bs.map renderAttr).flatten)

/-! ### the syntax tree of the emitted string -/

/-- a count is written only when it exceeds 1 -/
def countStr (c : Nat) : Option Str := if 1 < c then some (pyStrInt (c : Int)) else none

/-- the properties of one attribute block: mass before rad -/
def propsOf (a : Attrs) : List (Key × Str) :=
  ((a.get? "mass").map (fun v => (Key.mass, pyStr v))).toList ++
    ((a.get? "rad").map (fun v => (Key.rad, pyStr v))).toList

/-- the abstract syntax of the string emitted for the sorted graph `ms`: the Hill-ordered symbols with
their counts, the sorted normalised bonds (1-based), one block per atom that has a mass or a rad. -/
def astOf (ms : Graph) : Ast where
  formula := (hillOrder (symbolsOf ms)).map (fun s => (s, countStr ((symbolsOf ms).count s)))
  tuples := (bondList ms).map (fun e => (pyStrInt (e.1 + 1), pyStrInt (e.2 + 1)))
  attrs := if labelled ms = [] then none
    else some ((labelled ms).map (fun p => (pyStrInt (p.1 + 1), propsOf p.2)))

theorem renderSym_countStr (s : Str) (c : Nat) : renderSym (s, countStr c) = renderElem s (c : Int) := by
  unfold renderSym countStr renderElem
  by_cases h : 1 < c
  · have : (c : Int) > 1 := by omega
    simp [h, this]
  · have : ¬ (c : Int) > 1 := by omega
    simp [h, this]

theorem map_renderProp_propsOf (a : Attrs) : (propsOf a).map renderProp = renderProps a := by
  rw [renderProps_eq]
  unfold propsOf
  cases a.get? "mass" <;> cases a.get? "rad" <;> rfl

theorem blockStr_ne_nil (p : Int × Attrs) : blockStr p ≠ [] := by
  unfold blockStr; simp

theorem nodeAttrsSpec_eq_nil_iff (ms : Graph) : nodeAttrsSpec ms = [] ↔ labelled ms = [] := by
  rw [nodeAttrsSpec_eq]
  constructor
  · intro h
    cases hl : labelled ms with
    | nil => rfl
    | cons p l =>
      rw [hl] at h
      simp only [List.map_cons, List.flatten_cons, List.append_eq_nil_iff] at h
      exact absurd h.1 (blockStr_ne_nil p)
  · intro h; rw [h]; rfl

/-- **the emitted string is the rendering of `astOf ms`** -/
theorem tucanSpec_eq_render (ms : Graph) : tucanSpec ms = render (astOf ms) := by
  unfold tucanSpec render
  have h1 : sumFormulaSpec ms = (((astOf ms).formula).map renderSym).flatten := by
    rw [(formula_layout ms).1]
    simp only [astOf, List.map_map]
    congr 1
    apply List.map_congr_left
    intro s _
    simp only [Function.comp, renderSym_countStr]
  have h2 : edgeListSpec ms = (((astOf ms).tuples).map renderTuple).flatten := by
    rw [edgeListSpec_eq]
    simp only [astOf, List.map_map]
    rfl
  rw [h1, h2]
  congr 1
  by_cases hl : labelled ms = []
  · have := (nodeAttrsSpec_eq_nil_iff ms).2 hl
    simp [this, astOf, hl]
  · have hne : nodeAttrsSpec ms ≠ [] := fun h => hl ((nodeAttrsSpec_eq_nil_iff ms).1 h)
    simp only [hne, if_false, astOf, hl]
    congr 1
    rw [nodeAttrsSpec_eq, List.map_map]
    congr 1
    apply List.map_congr_left
    intro p _
    simp only [Function.comp, renderAttr, map_renderProp_propsOf, blockStr]

/-! ### numerals -/

theorem isAsciiDigit_eq (c : Char) : isAsciiDigit c = c.isDigit := by
  unfold isAsciiDigit Char.isDigit
  simp only [Char.le_def, UInt32.le_iff_toNat_le]
  rw [Bool.eq_iff_iff]
  simp

theorem pyStrInt_nat (k : Nat) : pyStrInt (k : Int) = Nat.toDigits 10 k := by
  rw [Grammar.pyStrInt_nonneg _ (by omega)]; simp

/-- `int(str(k)) = k` -/
theorem num_pyStrInt (k : Nat) : num (pyStrInt (k : Int)) = k := by
  rw [pyStrInt_nat]
  show Nat.ofDigitChars 10 (Nat.toDigits 10 k) 0 = k
  exact Nat.ofDigitChars_ten_toDigits

/-- the decimal numeral of a positive number below `10^4300` is a number of the grammar that `int` accepts -/
theorem numWf_pyStrInt (k : Nat) (h1 : 1 ≤ k) (h2 : k < 10 ^ 4300) : NumWf (pyStrInt (k : Int)) := by
  rw [pyStrInt_nat]
  refine ⟨Nat.toDigits_ne_nil, ?_, ?_, ?_⟩
  · rw [List.all_eq_true]
    intro c hc
    rw [isAsciiDigit_eq]
    exact Nat.isDigit_of_mem_toDigits (by decide) (by decide) hc
  · obtain ⟨d, ds, e, hd, _⟩ := Grammar.toDigits_shape k (by omega)
    rw [e]
    simp only [List.head?_cons, ne_eq, Option.some.injEq]
    rintro rfl
    revert hd; decide
  · exact (Nat.length_toDigits_le_iff (by decide) (by decide)).2 h2

theorem numWf_pyStrInt_int (i : Int) (h1 : 1 ≤ i) (h2 : i < 10 ^ 4300) : NumWf (pyStrInt i) := by
  obtain ⟨k, rfl⟩ : ∃ k : Nat, i = k := ⟨i.toNat, by omega⟩
  exact numWf_pyStrInt k (by omega) (by exact_mod_cast h2)

theorem num_pyStrInt_int (i : Int) (h : 0 ≤ i) : (num (pyStrInt i) : Int) = i := by
  obtain ⟨k, rfl⟩ : ∃ k : Nat, i = k := ⟨i.toNat, by omega⟩
  rw [num_pyStrInt]

/-! ### `astOf ms` is well formed -/

/-- a stored mass / rad value: a positive integer that `str`/`int` can convert -/
def SmallPos (v : Val) : Prop := ∃ i : Int, 1 ≤ i ∧ i < 10 ^ 4300 ∧ v = Val.int i

theorem SmallPos.posInt {v : Val} (h : SmallPos v) : Grammar.PosInt v := by
  obtain ⟨i, h1, _, rfl⟩ := h; exact ⟨i, h1, rfl⟩

theorem length_range (n : Nat) : (range (n : Int)).length = n := by simp [range]

theorem length_nodeList {ms : Graph} {n : Nat} (hn : ms.nodeList.Perm (range n)) : ms.nodeList.length = n := by
  rw [hn.length_eq, length_range]

theorem length_symbolsOf_le {ms : Graph} (hw : ms.WF) : (symbolsOf ms).length ≤ ms.nodeList.length := by
  rw [symbolsOf_eq hw]; exact List.length_filterMap_le _ _

theorem mem_propsOf (a : Attrs) (kv : Key × Str) (h : kv ∈ propsOf a) :
    ∃ v, a.get? kv.1.attr = some v ∧ kv.2 = pyStr v := by
  unfold propsOf at h
  rcases List.mem_append.1 h with h | h
  · cases hm : a.get? "mass" with
    | none => simp [hm] at h
    | some v => simp [hm] at h; subst h; exact ⟨v, hm, rfl⟩
  · cases hm : a.get? "rad" with
    | none => simp [hm] at h
    | some v => simp [hm] at h; subst h; exact ⟨v, hm, rfl⟩

theorem attr_of_get? {ms : Graph} {i : Int} {a : Attrs} (h : ms.node.get? i = some a) (k : String) :
    ms.attr i k = a.get? k := by simp [Graph.attr, h]

theorem cast_small {n : Nat} (h : n < 10 ^ 4300) : (n : Int) < 10 ^ 4300 := by exact_mod_cast h

/-- **`astOf ms` is well formed** (the hypotheses of `Grammar.tucanSpec_in_grammar`, no self-loops, labels
`0..n-1`, and every printed number below `10^4300`) -/
theorem astOf_wf {ms : Graph} {n : Nat} (hw : ms.WF) (hl : ms.Loopless) (hn : ms.nodeList.Perm (range n))
    (hsmall : n < 10 ^ 4300)
    (hs : ∀ s ∈ symbolsOf ms, s ∈ Tucan.Consts.ELEMENT_ATTRS.keys)
    (hm : ∀ a ∈ ms.nodeList, ∀ v, ms.attr a "mass" = some v → SmallPos v)
    (hr : ∀ a ∈ ms.nodeList, ∀ v, ms.attr a "rad" = some v → SmallPos v) : (astOf ms).Wf where
  syms := by
    intro p hp
    simp only [astOf, List.mem_map] at hp
    obtain ⟨s, hs', rfl⟩ := hp
    exact hs s ((mem_hillOrder _ s).1 hs')
  counts := by
    intro p hp ds hds
    simp only [astOf, List.mem_map] at hp
    obtain ⟨s, hs', rfl⟩ := hp
    simp only [countStr] at hds
    split at hds
    · rename_i hc
      cases hds
      have hle : (symbolsOf ms).count s ≤ n :=
        le_trans List.count_le_length (le_trans (length_symbolsOf_le hw) (le_of_eq (length_nodeList hn)))
      refine ⟨numWf_pyStrInt _ (by omega) (by omega), ?_⟩
      rw [show digitsToNat (pyStrInt ((symbolsOf ms).count s : Int)) = num (pyStrInt ((symbolsOf ms).count s : Int)) from rfl,
        num_pyStrInt]
      omega
    · cases hds
  tuples := by
    intro t ht
    simp only [astOf, List.mem_map] at ht
    obtain ⟨e, he, rfl⟩ := ht
    have := (tuples_layout (n := (n : Int)) hw hl hn).1 e he
    have hs' := cast_small hsmall
    exact ⟨numWf_pyStrInt_int _ (by omega) (by omega), numWf_pyStrInt_int _ (by omega) (by omega)⟩
  attrs := by
    intro bs hbs b hb
    simp only [astOf] at hbs
    split at hbs
    · cases hbs
    · cases hbs
      obtain ⟨p, hp, rfl⟩ := List.mem_map.1 hb
      obtain ⟨_, hmem, hidx⟩ := blocks_layout (n := (n : Int)) hw hn
      have hget := ((hmem p).1 hp).1
      have hpn := Graph.mem_nodeList_of_get? hget
      have := hidx p hp
      have hs' := cast_small hsmall
      refine ⟨numWf_pyStrInt_int _ (by omega) (by omega), ?_⟩
      intro kv hkv
      obtain ⟨v, hv, e⟩ := mem_propsOf p.2 kv hkv
      rw [← attr_of_get? hget] at hv
      have hsp : SmallPos v := by
        cases hk : kv.1 with
        | mass => rw [hk] at hv; exact hm _ hpn v hv
        | rad => rw [hk] at hv; exact hr _ hpn v hv
      obtain ⟨i, h1, h2, rfl⟩ := hsp
      rw [e]
      exact numWf_pyStrInt_int i h1 h2

end Contracts.RoundTrip
