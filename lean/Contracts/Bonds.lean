/-
Contracts.Bonds — bond data (edge attribute dictionaries) of the graphs the readers return.

Closes AUDIT.md §0 finding 2: `Reader.graph_from_molecule_general` and the file-level theorems built on it
characterise nodes, node attributes and adjacency only.  Here:

1. `graph_from_molecule_edges`: the complete edge view `g.edgeAttrs` of the graph built by
   `graph_utils.graph_from_molecule` from arbitrary atom / bond dictionaries (`bondData`).
2. file level: V3000 (`fileMeaning_plain_graph_bonds`, `graph_from_molfile_text_render_ok_bonds`),
   V2000 (`graph_from_molfile_text_v2000_bonds`), writer round trip (`writeRead_iso_bonds`, `C09_tucan_bonds`).
3. the TUCAN-string parser puts the empty dict on every bond, hence `Writer.EdgeRT` holds for parser output
   (`parsed_edgeRT`), and `C09_string` without the `EdgeRT` hypothesis (`C09_string_bonds`).
-/
import Contracts.Final
open Py
set_option autoImplicit false

namespace Contracts.Bonds

open Contracts.Parser (codeOf withCode edgeStep setEdgeAttrDicts_eq)
open Contracts.Reader

/-! ## 1. `graph_from_molecule`: the edge view -/

/-- **bond data according to a bond dictionary.** The entries of `B` whose key is `(x, y)` or `(y, x)`, merged in
dictionary order into an initially empty dict (`dict.update`: a later entry overrides an earlier one key by
key); `none` if there is no such entry.  This is what networkx does: `add_edges_from(B.keys())` creates one empty
attribute dict per unordered pair, `set_edge_attributes(G, B)` updates it once per entry. -/
def bondData (B : Dict (Int × Int) Attrs) (x y : Int) : Option Attrs :=
  Graph.edgeAccum (B.items.map (fun p => (p.1.1, p.1.2, p.2))) x y none

/-- one step of `nx.set_edge_attributes` -/
theorem edgeStep_of_none (g : Graph) (u v : Int) (a : Attrs) (h : g.edgeAttrs u v = none) :
    edgeStep g ((u, v), a) = g := by
  unfold edgeStep
  simp only
  cases hu : g.adj.get? u with
  | none => rfl
  | some au =>
    simp only
    cases hvv : au.get? v with
    | none => rfl
    | some d => simp [Graph.edgeAttrs, hu, hvv] at h

theorem edgeStep_of_some (g : Graph) (hg : g.WF) (u v : Int) (a d : Attrs) (huv : g.edgeAttrs u v = some d) :
    edgeStep g ((u, v), a) = (g.setAdj u v (d.update a)).setAdj v u (d.update a) := by
  unfold edgeStep
  simp only
  cases hu : g.adj.get? u with
  | none => simp [Graph.edgeAttrs, hu] at huv
  | some au =>
    simp only
    cases hvv : au.get? v with
    | none => simp [Graph.edgeAttrs, hu, hvv] at huv
    | some d' =>
      have hdd : d' = d := by simpa [Graph.edgeAttrs, hu, hvv] using huv
      subst hdd
      simp only
      have hun : u ∈ g.nodeList := hg.left_mem_of_edgeAttrs huv
      have hvn : v ∈ g.nodeList := hg.right_mem_of_edgeAttrs huv
      have hd' : (d'.update a).WF := Dict.WF_update (hg.eattrs_wf u v d' huv) _
      have w1 : (g.setAdj u v (d'.update a)).DirWF := hg.dirWF.setAdj hun hvn hd'
      obtain ⟨av, hav⟩ : ∃ av, (g.setAdj u v (d'.update a)).adj.get? v = some av := by
        apply Dict.exists_get?_of_mem_keys
        rw [w1.adj_keys]; exact hvn
      have hav' : (g.adj.set u (au.set v (d'.update a))).get? v = some av := by
        simpa [Graph.setAdj, hu] using hav
      simp only [hav']
      simp [Graph.setAdj, hu, hav']

theorem edgeStep_edgeAttrs (g : Graph) (hg : g.WF) (u v : Int) (a : Attrs) (x y : Int) :
    (edgeStep g ((u, v), a)).edgeAttrs x y =
      if Graph.EMatch (u, v, a) x y then (g.edgeAttrs x y).map (fun d => d.update a) else g.edgeAttrs x y := by
  have hm : Graph.EMatch (u, v, a) x y ↔ (x = u ∧ y = v) ∨ (x = v ∧ y = u) := Iff.rfl
  cases huv : g.edgeAttrs u v with
  | none =>
    rw [edgeStep_of_none g u v a huv]
    split
    · rename_i h
      rcases hm.1 h with ⟨rfl, rfl⟩ | ⟨rfl, rfl⟩
      · rw [huv]; rfl
      · rw [hg.edgeAttrs_symm, huv]; rfl
    · rfl
  | some d =>
    rw [edgeStep_of_some g hg u v a d huv, Graph.edgeAttrs_setAdj, Graph.edgeAttrs_setAdj]
    by_cases h1 : x = v ∧ y = u
    · rw [if_pos h1, if_pos (hm.2 (Or.inr h1)), h1.1, h1.2, hg.edgeAttrs_symm, huv]; rfl
    · rw [if_neg h1]
      by_cases h2 : x = u ∧ y = v
      · rw [if_pos h2, if_pos (hm.2 (Or.inl h2)), h2.1, h2.2, huv]; rfl
      · rw [if_neg h2, if_neg (fun h => (hm.1 h).elim h2 h1)]

/-- `nx.set_edge_attributes(G, values)`: every entry for `{x, y}` updates the data of an existing bond -/
def edgeUpd (l : List ((Int × Int) × Attrs)) (x y : Int) (o : Option Attrs) : Option Attrs :=
  l.foldl (fun o p => if Graph.EMatch (p.1.1, p.1.2, p.2) x y then o.map (fun d => d.update p.2) else o) o

theorem foldl_edgeStep_edgeAttrs (l : List ((Int × Int) × Attrs)) (g : Graph) (hg : g.WF) (x y : Int) :
    (l.foldl edgeStep g).WF ∧ (l.foldl edgeStep g).edgeAttrs x y = edgeUpd l x y (g.edgeAttrs x y) := by
  induction l generalizing g with
  | nil => exact ⟨hg, rfl⟩
  | cons p l ih =>
    obtain ⟨⟨u, v⟩, a⟩ := p
    obtain ⟨w, -, -⟩ := edgeStep_spec g hg u v a
    obtain ⟨w', e'⟩ := ih _ w
    refine ⟨w', ?_⟩
    rw [List.foldl_cons, e', edgeStep_edgeAttrs g hg]
    rfl

theorem edgeUpd_none (l : List ((Int × Int) × Attrs)) (x y : Int) : edgeUpd l x y none = none := by
  induction l with
  | nil => rfl
  | cons p l ih =>
    unfold edgeUpd at *
    rw [List.foldl_cons]
    split <;> exact ih

/-- creating the bonds with empty data first and updating them afterwards = accumulating the updates -/
theorem edgeUpd_eq_accum (l : List ((Int × Int) × Attrs)) (x y : Int) (d : Attrs) :
    edgeUpd l x y (some d) = Graph.edgeAccum (l.map (fun p => (p.1.1, p.1.2, p.2))) x y (some d) := by
  induction l generalizing d with
  | nil => rfl
  | cons p l ih =>
    unfold edgeUpd Graph.edgeAccum at *
    rw [List.map_cons, List.foldl_cons, List.foldl_cons]
    by_cases hm : Graph.EMatch (p.1.1, p.1.2, p.2) x y
    · rw [if_pos hm, if_pos hm]; exact ih _
    · rw [if_neg hm, if_neg hm]; exact ih _

theorem edgeAccum_none_of_first (l : List ((Int × Int) × Attrs)) (x y : Int)
    (h : ∃ p ∈ l, Graph.EMatch (p.1.1, p.1.2, p.2) x y) :
    Graph.edgeAccum (l.map (fun p => (p.1.1, p.1.2, p.2))) x y none =
      Graph.edgeAccum (l.map (fun p => (p.1.1, p.1.2, p.2))) x y (some Dict.empty) := by
  induction l with
  | nil => simp at h
  | cons p l ih =>
    unfold Graph.edgeAccum at *
    rw [List.map_cons, List.foldl_cons, List.foldl_cons]
    by_cases hm : Graph.EMatch (p.1.1, p.1.2, p.2) x y
    · rw [if_pos hm, if_pos hm]; rfl
    · rw [if_neg hm, if_neg hm]
      apply ih
      obtain ⟨q, hq, hqm⟩ := h
      rcases List.mem_cons.1 hq with rfl | hq'
      · exact absurd hqm hm
      · exact ⟨q, hq', hqm⟩

theorem ematch_iff (p : (Int × Int) × Attrs) (x y : Int) :
    Graph.EMatch (p.1.1, p.1.2, p.2) x y ↔ p.1 = (x, y) ∨ p.1 = (y, x) := by
  obtain ⟨⟨u, v⟩, a⟩ := p
  simp only [Graph.EMatch, Prod.mk.injEq]
  constructor
  · rintro (⟨rfl, rfl⟩ | ⟨rfl, rfl⟩)
    · exact Or.inl ⟨rfl, rfl⟩
    · exact Or.inr ⟨rfl, rfl⟩
  · rintro (⟨rfl, rfl⟩ | ⟨rfl, rfl⟩)
    · exact Or.inl ⟨rfl, rfl⟩
    · exact Or.inr ⟨rfl, rfl⟩

theorem exists_match_iff (B : Dict (Int × Int) Attrs) (x y : Int) :
    (∃ p ∈ B.items, Graph.EMatch (p.1.1, p.1.2, p.2) x y) ↔ ((x, y) ∈ B.keys ∨ (y, x) ∈ B.keys) := by
  simp only [ematch_iff, Dict.keys, List.mem_map]
  constructor
  · rintro ⟨p, hp, h | h⟩
    · exact Or.inl ⟨p, hp, h⟩
    · exact Or.inr ⟨p, hp, h⟩
  · rintro (⟨p, hp, h⟩ | ⟨p, hp, h⟩)
    · exact ⟨p, hp, Or.inl h⟩
    · exact ⟨p, hp, Or.inr h⟩

theorem bondData_isSome_iff (B : Dict (Int × Int) Attrs) (x y : Int) :
    (bondData B x y).isSome = true ↔ ((x, y) ∈ B.keys ∨ (y, x) ∈ B.keys) := by
  unfold bondData
  rw [Graph.edgeAccum_isSome, ← exists_match_iff]
  simp

theorem bondData_eq_none_iff (B : Dict (Int × Int) Attrs) (x y : Int) :
    bondData B x y = none ↔ (x, y) ∉ B.keys ∧ (y, x) ∉ B.keys := by
  rw [← not_or, ← bondData_isSome_iff]
  cases bondData B x y <;> simp

theorem ematch_symm (e : Int × Int × Attrs) (x y : Int) : Graph.EMatch e x y ↔ Graph.EMatch e y x := by
  unfold Graph.EMatch; tauto

/-- bond data do not depend on the direction in which the pair is asked for -/
theorem bondData_symm (B : Dict (Int × Int) Attrs) (x y : Int) : bondData B x y = bondData B y x := by
  unfold bondData Graph.edgeAccum
  congr 1
  funext o e
  by_cases h : Graph.EMatch e x y
  · rw [if_pos h, if_pos ((ematch_symm e x y).1 h)]
  · rw [if_neg h, if_neg (fun h' => h ((ematch_symm e x y).2 h'))]

/-- `convert_node_labels_to_integers` carries the bond data along -/
theorem convert_edgeAttrs {g : Graph} (hg : g.WF) {u v : Int} (hu : u ∈ g.nodeList) (hv : v ∈ g.nodeList) :
    g.convertNodeLabelsToIntegers.edgeAttrs (Int.ofNat (g.nodeList.idxOf u)) (Int.ofNat (g.nodeList.idxOf v)) =
      g.edgeAttrs u v := by
  unfold Graph.convertNodeLabelsToIntegers
  have hl := (Graph.length_range_numberOfNodes g).symm
  have hn := hg.nodup_nodeList
  have hpos : ∀ n ∈ g.nodeList,
      Graph.relabelFun (Dict.ofPairs (zip g.nodeList (range g.numberOfNodes))) n = Int.ofNat (g.nodeList.idxOf n) := by
    intro n hn'
    rw [Graph.relabelFun_zip hn hl hn']
    simp [range]
  rw [← hpos u hu, ← hpos v hv]
  exact Graph.edgeAttrs_relabelCopy hg _
    (fun a ha b hb => Graph.relabelFun_zip_injOn hn (Graph.nodup_range _) hl a ha b hb) hu hv

/-- the edge view of the graph `graph_from_molecule` returns (partial-correctness form; total correctness is
`graph_from_molecule_edges`) -/
theorem graph_from_molecule_edges_of_eq (env : DepEnv) (A : Dict Int Attrs) (B : Dict (Int × Int) Attrs)
    (hA : A.WF) (hz : ∀ p ∈ A.items, ∃ z, p.2.get? "atomic_number" = some z)
    (hb : ∀ b ∈ B.keys, b.1 ∈ A.keys ∧ b.2 ∈ A.keys) {g : Graph} {R : Dict Int Attrs}
    (e : Tucan.graph_utils.graph_from_molecule env A B = .ok (g, R)) :
    ∀ u ∈ A.keys, ∀ v ∈ A.keys,
      g.edgeAttrs (Int.ofNat (A.keys.idxOf u)) (Int.ofNat (A.keys.idxOf v)) = bondData B u v := by
  unfold Tucan.graph_utils.graph_from_molecule at e
  simp only [add_invariant_code_general env A hA hz, ok_bind, pure_eq_ok] at e
  rw [coded_keys] at e
  have hnd : (Graph.empty.nodeList ++ A.keys).Nodup := by
    have : Graph.empty.nodeList = [] := rfl
    rw [this, List.nil_append]; exact hA
  have w1 : (Graph.empty.addNodesFrom A.keys).WF := Graph.WF_addNodesFrom Graph.WF_empty _
  have n1 : (Graph.empty.addNodesFrom A.keys).nodeList = A.keys := by
    rw [Graph.nodeList_addNodesFrom_fresh Graph.WF_empty _ hnd]; simp [Graph.empty, Graph.nodeList, Dict.keys, Dict.empty]
  have e1 : ∀ x y, (Graph.empty.addNodesFrom A.keys).edgeAttrs x y = none := by
    intro x y
    rw [Graph.addNodesFrom_eq, Graph.edgeAttrs_addNodesFromData Graph.WF_empty]
    · rfl
    · intro p hp; obtain ⟨i, _, rfl⟩ := List.mem_map.mp hp; exact Dict.WF_empty
  set G2 := (Graph.empty.addNodesFrom A.keys).setNodeAttrDicts (coded A) with hG2
  have w2 : G2.WF := Graph.WF_setNodeAttrDicts w1 _
  have n2 : G2.nodeList = A.keys := by rw [hG2, Graph.nodeList_setNodeAttrDicts, n1]
  have e2 : ∀ x y, G2.edgeAttrs x y = none := by
    intro x y; rw [hG2, Graph.edgeAttrs_setNodeAttrDicts, e1]
  set G3 := G2.addEdgesFrom B.keys with hG3
  have w3 : G3.WF := Graph.WF_addEdgesFrom w2 _
  have hmem : ∀ e ∈ B.keys, e.1 ∈ G2.nodeList ∧ e.2 ∈ G2.nodeList := by
    intro e he; rw [n2]; exact hb e he
  have nd3 : G3.node = G2.node := Graph.node_addEdgesFrom_of_mem _ hmem
  -- after `add_edges_from`: the empty dict on every listed pair
  have e3 : ∀ x y, G3.edgeAttrs x y = if (x, y) ∈ B.keys ∨ (y, x) ∈ B.keys then some Dict.empty else none := by
    intro x y
    rw [hG3, Graph.addEdgesFrom_eq, Graph.edgeAttrs_addEdgesFromData w2, e2]
    split
    · rename_i h
      apply Graph.edgeAccum_none_same _ _ _ Dict.WF_empty
      · intro e he _
        obtain ⟨p, _, rfl⟩ := List.mem_map.1 he; rfl
      · rcases h with h | h
        · exact ⟨_, List.mem_map.2 ⟨_, h, rfl⟩, Or.inl ⟨rfl, rfl⟩⟩
        · exact ⟨_, List.mem_map.2 ⟨_, h, rfl⟩, Or.inr ⟨rfl, rfl⟩⟩
    · rename_i h
      apply Graph.edgeAccum_of_no_match
      intro e he hm
      obtain ⟨p, hp, rfl⟩ := List.mem_map.1 he
      rcases hm with ⟨rfl, rfl⟩ | ⟨rfl, rfl⟩
      · exact h (Or.inl hp)
      · exact h (Or.inr hp)
  -- after `set_edge_attributes`
  obtain ⟨w4, nd4, -⟩ := setEdgeAttrDicts_spec G3 w3 B
  have e4 : ∀ x y, (G3.setEdgeAttrDicts B).edgeAttrs x y = bondData B x y := by
    intro x y
    rw [setEdgeAttrDicts_eq, (foldl_edgeStep_edgeAttrs B.items G3 w3 x y).2, e3]
    unfold bondData
    split
    · rename_i h
      rw [edgeUpd_eq_accum, edgeAccum_none_of_first _ _ _ ((exists_match_iff B x y).2 h)]
    · rename_i h
      rw [edgeUpd_none]
      symm
      apply Graph.edgeAccum_of_no_match
      intro e he hm
      obtain ⟨p, hp, rfl⟩ := List.mem_map.1 he
      exact h ((exists_match_iff B x y).1 ⟨p, hp, hm⟩)
  set G4 := G3.setEdgeAttrDicts B with hG4
  have n4 : G4.nodeList = A.keys := by unfold Graph.nodeList; rw [nd4, nd3]; exact n2
  obtain ⟨rfl, -⟩ := Prod.mk.inj (Except.ok.inj e)
  intro u hu v hv
  have := convert_edgeAttrs w4 (u := u) (v := v) (by rw [n4]; exact hu) (by rw [n4]; exact hv)
  rw [n4] at this
  rw [this, e4]

/-- **`graph_from_molecule`, complete.**  `Reader.graph_from_molecule_general` (nodes numbered in the order of the
atom dictionary, node `i` carries the `i`-th attribute dict plus the invariant code, adjacency = keys of the bond
dictionary in either direction) together with the edge data: the bond between the atoms with indices `u`, `v` carries
`bondData B u v` — in both orientations (`bondData_symm`), `none` exactly for unlisted pairs
(`bondData_eq_none_iff`), and no other pair of nodes carries data (`g.WF`, `g.nodeList`). -/
theorem graph_from_molecule_edges (env : DepEnv) (A : Dict Int Attrs) (B : Dict (Int × Int) Attrs)
    (hA : A.WF) (hAw : ∀ p ∈ A.items, p.2.WF)
    (hz : ∀ p ∈ A.items, ∃ z, p.2.get? "atomic_number" = some z)
    (hb : ∀ b ∈ B.keys, b.1 ∈ A.keys ∧ b.2 ∈ A.keys) :
    ∃ g R, Tucan.graph_utils.graph_from_molecule env A B = .ok (g, R) ∧ g.WF ∧
      g.nodeList = range (A.keys.length : Int) ∧
      (∀ k a, A.get? k = some a → g.node.get? (Int.ofNat (A.keys.idxOf k)) = some (withCode a)) ∧
      (∀ u ∈ A.keys, ∀ v ∈ A.keys,
        (Int.ofNat (A.keys.idxOf v) ∈ g.nbrs (Int.ofNat (A.keys.idxOf u)) ↔ (u, v) ∈ B.keys ∨ (v, u) ∈ B.keys)) ∧
      (∀ u ∈ A.keys, ∀ v ∈ A.keys,
        g.edgeAttrs (Int.ofNat (A.keys.idxOf u)) (Int.ofNat (A.keys.idxOf v)) = bondData B u v) := by
  obtain ⟨g, R, e, wg, ng, ag, bg⟩ := graph_from_molecule_general env A B hA hAw hz hb
  exact ⟨g, R, e, wg, ng, ag, bg, graph_from_molecule_edges_of_eq env A B hA hz hb e⟩

/-! ### reading `bondData` -/

/-- if every entry for `{x, y}` carries the same well-formed dict `a` and there is at least one, the bond data are
exactly `a` -/
theorem bondData_same (B : Dict (Int × Int) Attrs) (x y : Int) (a : Attrs) (ha : a.WF)
    (hall : ∀ p ∈ B.items, (p.1 = (x, y) ∨ p.1 = (y, x)) → p.2 = a)
    (hex : (x, y) ∈ B.keys ∨ (y, x) ∈ B.keys) : bondData B x y = some a := by
  unfold bondData
  apply Graph.edgeAccum_none_same _ _ _ ha
  · intro e he hm
    obtain ⟨p, hp, rfl⟩ := List.mem_map.1 he
    exact hall p hp ((ematch_iff p x y).1 hm)
  · obtain ⟨p, hp, hm⟩ := (exists_match_iff B x y).2 hex
    exact ⟨_, List.mem_map.2 ⟨p, hp, rfl⟩, hm⟩

/-- a dictionary with one entry for the pair: that entry's dict, in both orientations -/
theorem bondData_of_get? (B : Dict (Int × Int) Attrs) (hB : B.WF) (x y : Int) (a : Attrs) (ha : a.WF)
    (hget : B.get? (x, y) = some a) (hrev : (y, x) ∉ B.keys ∨ x = y) :
    bondData B x y = some a ∧ bondData B y x = some a := by
  have h1 : bondData B x y = some a := by
    apply bondData_same B x y a ha
    · intro p hp hk
      have hp' : B.get? p.1 = some p.2 := Dict.get?_of_mem_items hB hp
      rcases hk with hk | hk
      · rw [hk, hget] at hp'; exact (Option.some.inj hp').symm
      · rcases hrev with hr | rfl
        · exact absurd (hk ▸ List.mem_map_of_mem (f := Prod.fst) hp) hr
        · rw [hk, hget] at hp'; exact (Option.some.inj hp').symm
    · exact Or.inl (Dict.mem_keys_of_get? hget)
  exact ⟨h1, by rw [bondData_symm]; exact h1⟩

theorem mem_keys_ofPairs (l : List ((Int × Int) × Attrs)) (k : Int × Int) :
    k ∈ (Dict.ofPairs l : Dict (Int × Int) Attrs).keys ↔ ∃ q ∈ l, q.1 = k := by
  rw [Dict.ofPairs_eq_updatePairs, Dict.mem_keys_updatePairs]
  simp [Dict.empty, Dict.keys]

theorem mem_items_ofPairs (l : List ((Int × Int) × Attrs)) (p : (Int × Int) × Attrs)
    (h : p ∈ (Dict.ofPairs l : Dict (Int × Int) Attrs).items) : p ∈ l := by
  rw [Dict.ofPairs_eq_updatePairs] at h
  rcases Contracts.Parser.mem_items_updatePairs _ _ _ h with h | h
  · simp [Dict.empty] at h
  · exact h

/-- the bond dictionary built from a list of `(pair, data)` entries (`dict(...)`, as both connection-table readers do):
if all list entries for `{x, y}` carry the same well-formed dict `a` and there is one, the bond data are `a` -/
theorem bondData_ofPairs_same (l : List ((Int × Int) × Attrs)) (x y : Int) (a : Attrs) (ha : a.WF)
    (hall : ∀ q ∈ l, (q.1 = (x, y) ∨ q.1 = (y, x)) → q.2 = a) (hex : ∃ q ∈ l, q.1 = (x, y) ∨ q.1 = (y, x)) :
    bondData (Dict.ofPairs l) x y = some a := by
  apply bondData_same _ x y a ha
  · intro p hp hk; exact hall p (mem_items_ofPairs l p hp) hk
  · obtain ⟨q, hq, hk | hk⟩ := hex
    · exact Or.inl ((mem_keys_ofPairs l _).2 ⟨q, hq, hk⟩)
    · exact Or.inr ((mem_keys_ofPairs l _).2 ⟨q, hq, hk⟩)

theorem bondAttrs_wf (t : Int) : (Contracts.V3000.bondAttrs t).WF := by
  simp [Dict.WF, Dict.keys, Contracts.V3000.bondAttrs]

theorem bondAttrs_get (t : Int) : (Contracts.V3000.bondAttrs t).get? "bond_type" = some (Val.int t) := rfl

/-! ## 2a. V3000 files (C07: "one bond per bond line with the stated type") -/

open Contracts.V3000 (AtomLine BondLine intOf bondAttrs)

/-- bond line `b` joins the atoms with file indices `m` and `n`, in either direction -/
def Joins (b : BondLine) (m n : Int) : Prop :=
  (intOf b.a1 = m ∧ intOf b.a2 = n) ∨ (intOf b.a1 = n ∧ intOf b.a2 = m)

theorem joined_iff_joins (C : Ctab) (m n : Int) : C.joined m n ↔ ∃ b ∈ C.bonds, Joins b m n := Iff.rfl

/-- the bond dictionary of a connection table on a pair of file indices all of whose bond lines state the type `t` -/
theorem bondData_bondDict (C : Ctab) (m n t : Int) (hj : ∃ b ∈ C.bonds, Joins b m n)
    (hall : ∀ b ∈ C.bonds, Joins b m n → intOf b.typ = t) :
    bondData C.bondDict (m - 1) (n - 1) = some (bondAttrs t) := by
  unfold Ctab.bondDict
  apply bondData_ofPairs_same _ _ _ _ (bondAttrs_wf t)
  · intro q hq hk
    obtain ⟨b, hb, rfl⟩ := List.mem_map.1 hq
    simp only [Prod.mk.injEq] at hk
    have : Joins b m n := by
      rcases hk with ⟨h1, h2⟩ | ⟨h1, h2⟩
      · exact Or.inl ⟨by omega, by omega⟩
      · exact Or.inr ⟨by omega, by omega⟩
    simp only [hall b hb this]
  · obtain ⟨b, hb, hj⟩ := hj
    refine ⟨_, List.mem_map.2 ⟨b, hb, rfl⟩, ?_⟩
    simp only [Prod.mk.injEq]
    rcases hj with ⟨h1, h2⟩ | ⟨h1, h2⟩
    · exact Or.inl ⟨by omega, by omega⟩
    · exact Or.inr ⟨by omega, by omega⟩

/-- **C07, the graph of a connection table, with bond types.**  `Reader.fileMeaning_plain_graph` (one node per atom
line in file order with the stated attributes; adjacency = bond lines) plus the bond data:
* exactly: the edge between the nodes of atom lines `a`, `b` carries `bondData C.bondDict` of the two file indices
  (all bond lines on that pair, merged in the order of the bond dictionary);
* per bond line `bl`: if every bond line joining the same two atoms states the same type (in particular if `bl` is
  the only one), the edge between the two renumbered atoms carries exactly `{bond_type: type of bl}`, in both
  orientations;
* pairs not joined by a bond line carry no data. -/
theorem fileMeaning_plain_graph_bonds (env : DepEnv) (C : Ctab) (h : C.Plain env) (hneg : ¬ C.NegMassRad)
    (hself : ¬ C.SelfBond) :
    ∃ g, fileMeaning env C = .ok g ∧ g.WF ∧ g.nodeList = range (C.atoms.length : Int) ∧
      (∀ (i : Nat) a, C.atoms[i]? = some a → g.node.get? (i : Int) = some (withCode (attrsOf env a))) ∧
      (∀ (i j : Nat) a b, C.atoms[i]? = some a → C.atoms[j]? = some b →
        ((j : Int) ∈ g.nbrs (i : Int) ↔ C.joined (intOf a.idx) (intOf b.idx))) ∧
      (∀ (i j : Nat) a b, C.atoms[i]? = some a → C.atoms[j]? = some b →
        g.edgeAttrs (i : Int) (j : Int) = bondData C.bondDict (intOf a.idx - 1) (intOf b.idx - 1)) ∧
      (∀ bl ∈ C.bonds, ∀ (i j : Nat) a b, C.atoms[i]? = some a → C.atoms[j]? = some b →
        intOf bl.a1 = intOf a.idx → intOf bl.a2 = intOf b.idx →
        (∀ b' ∈ C.bonds, Joins b' (intOf bl.a1) (intOf bl.a2) → intOf b'.typ = intOf bl.typ) →
        g.edgeAttrs (i : Int) (j : Int) = some (bondAttrs (intOf bl.typ)) ∧
          g.edgeAttrs (j : Int) (i : Int) = some (bondAttrs (intOf bl.typ))) ∧
      (∀ (i j : Nat) a b, C.atoms[i]? = some a → C.atoms[j]? = some b →
        ¬ C.joined (intOf a.idx) (intOf b.idx) → g.edgeAttrs (i : Int) (j : Int) = none) := by
  have hm := h.molOK
  obtain ⟨g, R, hg, wg, ng, ag, bg, eg⟩ :=
    graph_from_molecule_edges env (C.atomDict env) C.bondDict hm.wf hm.attrs_wf hm.z hm.ends
  have hlen : (C.atomDict env).keys.length = C.atoms.length := by rw [Ctab.atomDict_keys]; simp
  have hat : ∀ (i : Nat) a, C.atoms[i]? = some a →
      (C.atomDict env).get? (intOf a.idx - 1) = some (attrsOf env a) ∧ intOf a.idx - 1 ∈ (C.atomDict env).keys ∧
        (C.atomDict env).keys.idxOf (intOf a.idx - 1) = i := by
    intro i a ha
    have hi : i < (C.atomDict env).keys.length := by
      rw [hlen]; exact (List.getElem?_eq_some_iff.mp ha).1
    obtain ⟨k, v, hit, -, hget, hmem, hidx⟩ := general_at _ hm.wf i hi
    simp only [Ctab.atomDict, List.getElem?_map, ha, Option.map_some, Option.some.injEq, Prod.mk.injEq] at hit
    obtain ⟨rfl, rfl⟩ := hit
    exact ⟨hget, hmem, hidx⟩
  have hadj : ∀ (i j : Nat) a b, C.atoms[i]? = some a → C.atoms[j]? = some b →
      ((j : Int) ∈ g.nbrs (i : Int) ↔ C.joined (intOf a.idx) (intOf b.idx)) := by
    intro i j a b ha hb
    obtain ⟨-, hma, hia⟩ := hat i a ha
    obtain ⟨-, hmb, hib⟩ := hat j b hb
    have := bg _ hma _ hmb
    rw [hia, hib, Ctab.joined_iff] at this
    exact this
  have hed : ∀ (i j : Nat) a b, C.atoms[i]? = some a → C.atoms[j]? = some b →
      g.edgeAttrs (i : Int) (j : Int) = bondData C.bondDict (intOf a.idx - 1) (intOf b.idx - 1) := by
    intro i j a b ha hb
    obtain ⟨-, hma, hia⟩ := hat i a ha
    obtain ⟨-, hmb, hib⟩ := hat j b hb
    have := eg _ hma _ hmb
    rw [hia, hib] at this
    exact this
  refine ⟨g, ?_, wg, by rw [ng, hlen], ?_, hadj, hed, ?_, ?_⟩
  · rw [fileMeaning_plain_ok env C h hneg hself, hg]; rfl
  · intro i a ha
    obtain ⟨hget, -, hidx⟩ := hat i a ha
    have := ag _ _ hget
    rwa [hidx] at this
  · intro bl hbl i j a b ha hb h1 h2 hall
    have key : bondData C.bondDict (intOf a.idx - 1) (intOf b.idx - 1) = some (bondAttrs (intOf bl.typ)) := by
      apply bondData_bondDict C _ _ _ ⟨bl, hbl, Or.inl ⟨h1, h2⟩⟩
      intro b' hb'; rw [← h1, ← h2]; exact hall b' hb'
    exact ⟨by rw [hed i j a b ha hb, key], by rw [hed j i b a hb ha, bondData_symm, key]⟩
  · intro i j a b ha hb hnj
    have := (hadj i j a b ha hb).not.2 hnj
    rw [Graph.mem_nbrs_iff] at this
    cases hq : g.edgeAttrs (i : Int) (j : Int) with
    | none => rfl
    | some d => rw [hq] at this; simp at this

/-- **C07 at the text level, with bond types**: `Reader.graph_from_molfile_text_render_ok` plus the bond clauses of
`fileMeaning_plain_graph_bonds`, for the graph `graph_from_molfile_text` returns on every rendering of the table -/
theorem graph_from_molfile_text_render_ok_bonds (env : DepEnv) (fuel : Nat) (sep : Str) (hsep : IsSep sep)
    (C : Ctab) (D : Dress) (hok : D.OK C) (hnb : D.NoBreaks C)
    (hB : ∀ b ∈ C.bonds, b.Shape) (hfuel : ((fileLines C D).drop 4).length + 1 ≤ fuel)
    (h : C.Plain env) (hneg : ¬ C.NegMassRad) (hself : ¬ C.SelfBond) :
    ∃ g, Tucan.molfile_reader.graph_from_molfile_text env fuel (join sep (fileLines C D ++ [[]])) = .ok g ∧
      g.WF ∧ g.nodeList = range (C.atoms.length : Int) ∧
      (∀ (i : Nat) a, C.atoms[i]? = some a → g.node.get? (i : Int) = some (withCode (attrsOf env a))) ∧
      (∀ (i j : Nat) a b, C.atoms[i]? = some a → C.atoms[j]? = some b →
        ((j : Int) ∈ g.nbrs (i : Int) ↔ C.joined (intOf a.idx) (intOf b.idx))) ∧
      (∀ (i j : Nat) a b, C.atoms[i]? = some a → C.atoms[j]? = some b →
        g.edgeAttrs (i : Int) (j : Int) = bondData C.bondDict (intOf a.idx - 1) (intOf b.idx - 1)) ∧
      (∀ bl ∈ C.bonds, ∀ (i j : Nat) a b, C.atoms[i]? = some a → C.atoms[j]? = some b →
        intOf bl.a1 = intOf a.idx → intOf bl.a2 = intOf b.idx →
        (∀ b' ∈ C.bonds, Joins b' (intOf bl.a1) (intOf bl.a2) → intOf b'.typ = intOf bl.typ) →
        g.edgeAttrs (i : Int) (j : Int) = some (bondAttrs (intOf bl.typ)) ∧
          g.edgeAttrs (j : Int) (i : Int) = some (bondAttrs (intOf bl.typ))) ∧
      (∀ (i j : Nat) a b, C.atoms[i]? = some a → C.atoms[j]? = some b →
        ¬ C.joined (intOf a.idx) (intOf b.idx) → g.edgeAttrs (i : Int) (j : Int) = none) := by
  obtain ⟨g, hg, rest⟩ := fileMeaning_plain_graph_bonds env C h hneg hself
  exact ⟨g, by rw [graph_from_molfile_text_render env fuel sep hsep C D hok hnb
    (fun a ha => (h.wf a ha).shape) hB hfuel, hg], rest⟩

/-! ## 2b. V2000 files (C08: "bonds and bond types") -/

open Contracts.V2000 (Item endLine lineKind specGet atomDict fieldInt field)

/-- what an accepted V2000 bond line is read as: atom numbers in columns 1–3 and 4–6 (minus one), the bond type is
the integer in columns 7–9 -/
theorem bondLine_inv (atoms : Dict Int Attrs) (l : Str) (b : (Int × Int) × Attrs)
    (h : Contracts.V2000.bondLine atoms l = .ok b) :
    ∃ a c t : Int, fieldInt (field l 0 3) = .ok a ∧ fieldInt (field l 3 3) = .ok c ∧
      fieldInt (field l 6 3) = .ok t ∧ b = ((a - 1, c - 1), bondAttrs t) := by
  unfold Contracts.V2000.bondLine at h
  cases ha : fieldInt (field l 0 3) with
  | error e => rw [ha] at h; cases h
  | ok a =>
    cases hc : fieldInt (field l 3 3) with
    | error e => rw [ha, hc] at h; cases h
    | ok c =>
      rw [ha, hc] at h
      simp only [ok_bind] at h
      split at h
      · cases ht : fieldInt (field l 6 3) with
        | error e => rw [ht] at h; cases h
        | ok t =>
          rw [ht] at h
          exact ⟨a, c, t, rfl, rfl, rfl, (Except.ok.inj h).symm⟩
      · cases h

theorem forall₂_getElem? {α β : Type} {R : α → β → Prop} {l₁ : List α} {l₂ : List β} (h : List.Forall₂ R l₁ l₂)
    (k : Nat) (a : α) (ha : l₁[k]? = some a) : ∃ b, l₂[k]? = some b ∧ R a b := by
  induction h generalizing k with
  | nil => simp at ha
  | cons hr _ ih =>
    cases k with
    | zero => simp only [List.getElem?_cons_zero, Option.some.injEq] at ha; subst ha; exact ⟨_, rfl, hr⟩
    | succ k => simpa using ih k (by simpa using ha)

theorem forall₂_mem_right {α β : Type} {R : α → β → Prop} {l₁ : List α} {l₂ : List β} (h : List.Forall₂ R l₁ l₂)
    (b : β) (hb : b ∈ l₂) : ∃ a ∈ l₁, R a b := by
  induction h with
  | nil => simp at hb
  | cons hr _ ih =>
    rcases List.mem_cons.1 hb with rfl | hb'
    · exact ⟨_, by simp, hr⟩
    · obtain ⟨a, ha, r⟩ := ih hb'; exact ⟨a, by simp [ha], r⟩

/-- **C08 at the top level, with bond types.**  `Reader.graph_from_molfile_text_v2000` (same hypotheses) plus the
bond data of the graph `graph_from_molfile_text` returns:
* exactly: every pair of nodes carries `bondData` of the parsed bond lines `bonds` (as a `dict`);
* per bond line `l` (the `k`-th): with `a`, `c`, `t` the integers in columns 1–3, 4–6, 7–9, the `k`-th parsed bond is
  `((a-1, c-1), {bond_type: t})`, and if every bond line joining the same two atom numbers states the same type, the
  edge between nodes `a-1` and `c-1` carries exactly `{bond_type: t}`, in both orientations. -/
theorem graph_from_molfile_text_v2000_bonds (env : DepEnv) (fuel : Nat) (text : Str) (h0 h1 h2 counts : Str)
    (atomLines bondLines : List Str) (attrs : List Attrs) (bonds : List ((Int × Int) × Attrs))
    (items : List Item) (post : List Str)
    (hlines : splitlines text =
      h0 :: h1 :: h2 :: counts :: (atomLines ++ (bondLines ++ (items.map Item.render ++ endLine :: post))))
    (hver : lastWord counts = py!"V2000")
    (hna : fieldInt (field counts 0 3) = .ok atomLines.length)
    (hnb : fieldInt (field counts 3 3) = .ok bondLines.length)
    (hnl : fieldInt (field counts 6 3) = .ok 0)
    (hatoms : List.Forall₂ (fun l a => Tucan.molfile_v2000_reader._parse_atom_line env l = .ok a) atomLines attrs)
    (hbonds : List.Forall₂ (fun l b => Tucan.molfile_v2000_reader._parse_bond_line env l (atomDict attrs) = .ok b)
      bondLines bonds)
    (hbl : ∀ l ∈ bondLines, lineKind l = none ∧ l ≠ endLine)
    (hitems : ∀ it ∈ items, it.Legal (atomDict attrs))
    (hwf : ∀ a ∈ attrs, a.WF) (hZ : ∀ a ∈ attrs, ∃ z, a.get? "atomic_number" = some z)
    (hends : ∀ b ∈ bonds, b.1.1 ∈ range (attrs.length : Int) ∧ b.1.2 ∈ range (attrs.length : Int))
    (hneg : ∀ (i : Nat) (hi : i < attrs.length), ∀ k ∈ ["mass", "rad"], ∀ v,
      specGet (items.filterMap Item.parsed) i attrs[i] k = some v → isNeg v = false)
    (hself : ∀ b ∈ bonds, b.1.1 ≠ b.1.2) :
    ∃ g, Tucan.molfile_reader.graph_from_molfile_text env fuel text = .ok g ∧ g.WF ∧
      g.nodeList = range (attrs.length : Int) ∧
      (∀ (i : Nat) (hi : i < attrs.length), ∃ new, g.node.get? (i : Int) = some (withCode new) ∧
        ∀ k, new.get? k = specGet (items.filterMap Item.parsed) i attrs[i] k) ∧
      (∀ x y, y ∈ g.nbrs x ↔ ∃ b ∈ bonds, b.1 = (x, y) ∨ b.1 = (y, x)) ∧
      (∀ x y, g.edgeAttrs x y = bondData (Dict.ofPairs bonds) x y) ∧
      (∀ (k : Nat) l, bondLines[k]? = some l → ∃ a c t : Int,
        fieldInt (field l 0 3) = .ok a ∧ fieldInt (field l 3 3) = .ok c ∧ fieldInt (field l 6 3) = .ok t ∧
        bonds[k]? = some ((a - 1, c - 1), bondAttrs t) ∧
        ((∀ l' ∈ bondLines, ∀ a' c' t' : Int, fieldInt (field l' 0 3) = .ok a' → fieldInt (field l' 3 3) = .ok c' →
            fieldInt (field l' 6 3) = .ok t' → ((a' = a ∧ c' = c) ∨ (a' = c ∧ c' = a)) → t' = t) →
          g.edgeAttrs (a - 1) (c - 1) = some (bondAttrs t) ∧ g.edgeAttrs (c - 1) (a - 1) = some (bondAttrs t))) := by
  -- the graph and the old clauses
  obtain ⟨g, hg, wg, ng, ag, bg⟩ := graph_from_molfile_text_v2000 env fuel text h0 h1 h2 counts atomLines bondLines
    attrs bonds items post hlines hver hna hnb hnl hatoms hbonds hbl hitems hwf hZ hends hneg hself
  -- the same graph as the result of `graph_from_molecule`
  obtain ⟨r, hr, hkeys, hget⟩ := Contracts.V2000.graph_attributes_from_molfile_v2000_ok env h0 h1 h2 counts
    atomLines bondLines attrs bonds items post hna hnb hnl hatoms hbonds hbl hitems
  have hrw : r.WF := by unfold Dict.WF; rw [hkeys]; exact Graph.nodup_range _
  have hentry : ∀ p ∈ r.items, ∃ (i : Nat) (hi : i < attrs.length), p.1 = (i : Int) ∧ (attrs[i].WF → p.2.WF) ∧
      ∀ k, p.2.get? k = specGet (items.filterMap Item.parsed) i attrs[i] k := by
    intro p hp
    have hk : p.1 ∈ range (attrs.length : Int) := by rw [← hkeys]; exact List.mem_map_of_mem hp
    rw [Contracts.Parser.mem_range] at hk
    obtain ⟨i, hi⟩ : ∃ i : Nat, p.1 = (i : Int) := ⟨p.1.toNat, by omega⟩
    have hi' : i < attrs.length := by omega
    obtain ⟨new, hnew, hw, hs⟩ := hget i hi'
    have : r.get? p.1 = some p.2 := Dict.get?_of_mem_items hrw hp
    rw [hi, hnew] at this
    cases this
    exact ⟨i, hi', hi, hw, hs⟩
  have hmol : MolOK r (Dict.ofPairs bonds) := by
    refine ⟨hrw, ?_, ?_, ?_⟩
    · intro p hp
      obtain ⟨i, hi, _, hw, _⟩ := hentry p hp
      exact hw (hwf _ (List.getElem_mem hi))
    · intro p hp
      obtain ⟨i, hi, _, _, hs⟩ := hentry p hp
      obtain ⟨z, hz⟩ := hZ _ (List.getElem_mem hi)
      exact ⟨z, by rw [hs, Contracts.V2000.specGet_other _ _ _ _ (by decide) (by decide) (by decide), hz]⟩
    · intro b hb
      obtain ⟨q, hq, rfl⟩ := (mem_keys_ofPairs bonds b).1 hb
      rw [hkeys]; exact hends q hq
  obtain ⟨g', R, hg', -, -, -, -, eg⟩ :=
    graph_from_molecule_edges env r (Dict.ofPairs bonds) hmol.wf hmol.attrs_wf hmol.z hmol.ends
  have hread : Tucan.molfile_reader.graph_from_molfile_text env fuel text = .ok g' := by
    rw [graph_from_molfile_text_eq]
    unfold readSpec
    rw [hlines]
    have h3 : (h0 :: h1 :: h2 :: counts :: (atomLines ++ (bondLines ++ (items.map Item.render ++ endLine :: post))))[3]? =
        some counts := rfl
    have hne : py!"V2000" ≠ py!"V3000" := by decide
    have hnn : ¬ NegMolecule r := by
      rintro ⟨p, hp, k, hk, v, hv, hvn⟩
      obtain ⟨i, hi, _, _, hs⟩ := hentry p hp
      rw [hs] at hv
      rw [hneg i hi k hk v hv] at hvn; cases hvn
    have hns : ¬ SelfBonded (Dict.ofPairs bonds : Dict (Int × Int) Attrs) := by
      rintro ⟨b, hb, he⟩
      obtain ⟨q, hq, rfl⟩ := (mem_keys_ofPairs bonds b).1 hb
      exact hself q hq he
    simp only [h3, hver, hne, if_true, if_false, hr, ok_bind]
    rw [molGraph_ok env _ hnn hns, hg']; rfl
  obtain rfl : g' = g := Except.ok.inj (hread.symm.trans hg)
  -- exact edge view
  have hed : ∀ x y, g'.edgeAttrs x y = bondData (Dict.ofPairs bonds) x y := by
    intro x y
    by_cases hx : x ∈ range (attrs.length : Int)
    · by_cases hy : y ∈ range (attrs.length : Int)
      · have hx2 := hx; have hy2 := hy
        rw [Contracts.Parser.mem_range] at hx2 hy2
        obtain ⟨i, rfl⟩ : ∃ i : Nat, x = (i : Int) := ⟨x.toNat, by omega⟩
        obtain ⟨j, rfl⟩ : ∃ j : Nat, y = (j : Int) := ⟨y.toNat, by omega⟩
        have := eg (i : Int) (hkeys ▸ hx) (j : Int) (hkeys ▸ hy)
        rw [hkeys, idxOf_range _ _ (by omega), idxOf_range _ _ (by omega)] at this
        exact this
      · have h1 : g'.edgeAttrs x y = none := by
          cases hq : g'.edgeAttrs x y with
          | none => rfl
          | some d => exact absurd (by rw [← ng]; exact wg.right_mem_of_edgeAttrs hq) hy
        rw [h1]; symm
        rw [bondData_eq_none_iff]
        constructor
        · intro hk; obtain ⟨q, hq, e⟩ := (mem_keys_ofPairs bonds _).1 hk
          exact hy (by have := (hends q hq).2; rw [e] at this; exact this)
        · intro hk; obtain ⟨q, hq, e⟩ := (mem_keys_ofPairs bonds _).1 hk
          exact hy (by have := (hends q hq).1; rw [e] at this; exact this)
    · have h1 : g'.edgeAttrs x y = none := by
        cases hq : g'.edgeAttrs x y with
        | none => rfl
        | some d => exact absurd (by rw [← ng]; exact wg.left_mem_of_edgeAttrs hq) hx
      rw [h1]; symm
      rw [bondData_eq_none_iff]
      constructor
      · intro hk; obtain ⟨q, hq, e⟩ := (mem_keys_ofPairs bonds _).1 hk
        exact hx (by have := (hends q hq).1; rw [e] at this; exact this)
      · intro hk; obtain ⟨q, hq, e⟩ := (mem_keys_ofPairs bonds _).1 hk
        exact hx (by have := (hends q hq).2; rw [e] at this; exact this)
  refine ⟨g', hg, wg, ng, ag, bg, hed, ?_⟩
  -- per bond line
  intro k l hl
  obtain ⟨b, hbk, hpb⟩ := forall₂_getElem? hbonds k l hl
  rw [Contracts.V2000._parse_bond_line_eq] at hpb
  obtain ⟨a, c, t, ha, hc, ht, rfl⟩ := bondLine_inv _ _ _ hpb
  refine ⟨a, c, t, ha, hc, ht, hbk, ?_⟩
  intro hall
  have key : bondData (Dict.ofPairs bonds) (a - 1) (c - 1) = some (bondAttrs t) := by
    apply bondData_ofPairs_same _ _ _ _ (bondAttrs_wf t)
    · intro q hq hk
      obtain ⟨l', hl', hpq⟩ := forall₂_mem_right hbonds q hq
      rw [Contracts.V2000._parse_bond_line_eq] at hpq
      obtain ⟨a', c', t', ha', hc', ht', rfl⟩ := bondLine_inv _ _ _ hpq
      simp only [Prod.mk.injEq] at hk
      have := hall l' hl' a' c' t' ha' hc' ht' (by omega)
      rw [this]
    · exact ⟨_, List.mem_of_getElem? hbk, Or.inl rfl⟩
  exact ⟨by rw [hed, key], by rw [hed, bondData_symm, key]⟩

/-! ## 2c. the writer round trip (C09: "the same bonds with the same bond types") -/

open Contracts.Final (IdOK InvariantCodeOK posOf)
open Contracts.FinalLabels (fuelBound)
open Contracts.Pipeline (tucan)

theorem bondTypeInt_of_get {a : Attrs} {b : Int} (h : a.get? "bond_type" = some (Val.int b)) :
    Writer.bondTypeInt a = b := by simp [Writer.bondTypeInt, h]

/-- a bond without `bond_type` is written (and read back) as a single bond: `attrs.get("bond_type", 1)` -/
theorem bondTypeInt_of_none {a : Attrs} (h : a.get? "bond_type" = none) : Writer.bondTypeInt a = 1 := by
  simp [Writer.bondTypeInt, h]

/-- the bond dictionary read back from the written file (`Writer.C09`: `bondsBack`), as bond data on the nodes of
`g`: every bond of `g`, and no other pair, with `{bond_type}` = the integer bond type of `g`'s bond -/
theorem bondData_bondsBack {g : Graph} (hg : g.WF) (u v : Int) :
    bondData (Writer.bondsBack g) u v = (g.edgeAttrs u v).map (fun a => bondAttrs (Writer.bondTypeInt a)) := by
  cases h : g.edgeAttrs u v with
  | none =>
    rw [Option.map_none, bondData_eq_none_iff, Contracts.Final.bondsBack_keys]
    constructor
    · intro hm
      have := (Graph.mem_nbrs_iff g u v).1 (Graph.mem_edges_imp hg hm)
      rw [h] at this; simp at this
    · intro hm
      have := (Graph.mem_nbrs_iff g v u).1 (Graph.mem_edges_imp hg hm)
      rw [hg.edgeAttrs_symm, h] at this; simp at this
  | some d =>
    rw [Option.map_some]
    apply bondData_same _ _ _ _ (bondAttrs_wf _)
    · intro p hp hk
      simp only [Writer.bondsBack, List.mem_map] at hp
      obtain ⟨e, he, rfl⟩ := hp
      have h1 := Graph.edgeAttrs_of_mem_edgesData hg he
      simp only [Prod.mk.injEq] at hk
      have hd : e.2.2 = d := by
        rcases hk with ⟨e1, e2⟩ | ⟨e1, e2⟩
        · rw [e1, e2, h] at h1; exact (Option.some.inj h1).symm
        · rw [e1, e2, hg.edgeAttrs_symm, h] at h1; exact (Option.some.inj h1).symm
      simp only [hd]
    · rw [Contracts.Final.bondsBack_keys]
      rcases Graph.mem_edgesData_of_edgeAttrs hg h with hm | hm
      · exact Or.inl (List.mem_map.2 ⟨_, hm, rfl⟩)
      · exact Or.inr (List.mem_map.2 ⟨_, hm, rfl⟩)

/-- **the molfile round trip at the dictionary level, with bond types**: `Final.writeRead_iso` plus: the bond of the
graph read back between the positions of `u` and `v` carries exactly `{bond_type: b}` where `b` is the integer
`bond_type` of `g`'s bond (1 if `g`'s bond has none — the writer's default), and pairs that are not bonded in `g`
carry no data. -/
theorem writeRead_iso_bonds (env : DepEnv) {g : Graph} (ok : IdOK g)
    (hrad : ∀ i ∈ g.nodeList, ∀ r : Int, g.attr i "rad" = some (Val.int r) → r ≤ 3) :
    ∃ g₂ R, Tucan.graph_utils.graph_from_molecule env (Writer.atomsBack env g) (Writer.bondsBack g) = .ok (g₂, R) ∧
      g₂.WF ∧ InvariantCodeOK g₂ ∧ (∀ k ∈ Contracts.RoundTrip.idKeys, Graph.IsIsoOn k (posOf g.nodeList) g g₂) ∧
      (∀ u ∈ g.nodeList, ∀ v ∈ g.nodeList,
        g₂.edgeAttrs (posOf g.nodeList u) (posOf g.nodeList v) =
          (g.edgeAttrs u v).map (fun a => bondAttrs (Writer.bondTypeInt a))) := by
  obtain ⟨g₂, R, e, wg₂, cg₂, iso⟩ := Contracts.Final.writeRead_iso env ok hrad
  have hm := Contracts.Final.back_molOK env ok.wf
  have he := graph_from_molecule_edges_of_eq env _ _ hm.wf hm.z hm.ends e
  rw [Contracts.Final.atomsBack_keys] at he
  refine ⟨g₂, R, e, wg₂, cg₂, iso, ?_⟩
  intro u hu v hv
  rw [← bondData_bondsBack ok.wf]
  exact he u hu v hv

/-- **C09 (graph → molfile → graph) with bond types.**  Hypotheses and first four conclusions as `Final.C09_tucan`; in
addition the graph `g₂` that `graph_from_molfile_text` returns for the written text has, between the positions of any
two atoms `u`, `v` of `g`, exactly the bond data `{bond_type: b}` with `b` the (integer) bond type of the bond `u–v` of
`g`, and no bond where `g` has none: "the same bonds with the same bond types". -/
theorem C09_tucan_bonds {env₁ env₂ : DepEnv} (envw : DepEnv) (hs₁ : env₁.SetLawful) (hs₂ : env₂.SetLawful)
    (hb : BlissLawful env₁) (hcp : env₂.canonicalPermutation = env₁.canonicalPermutation)
    (hpv : env₂.permuteVertices = env₁.permuteVertices)
    {g : Graph} (ok : IdOK g) (hl : g.Loopless) (hne : g.nodeList ≠ [])
    (hrad : ∀ i ∈ g.nodeList, ∀ r : Int, g.attr i "rad" = some (Val.int r) → r ≤ 3)
    (wfuel rfuel : Nat)
    (hn : ∀ p ∈ g.nodesData, Writer.NodeRT envw p) (he : ∀ e ∈ g.edgesData, Writer.EdgeRT e)
    (hna : g.nodesData.length < 10 ^ 4300) (hnb : g.edgesData.length < 10 ^ 4300)
    (hv : Writer.Plain envw.version) (hsP : Writer.Plain envw.nowStamp) (hp : Writer.PlainValues envw g)
    (hf : Writer.maxLen (Writer.logicalLines envw g) / 71 + 1 ≤ wfuel)
    (hf' : (Writer.fileLines envw g).length + 1 ≤ rfuel) :
    ∃ text g₂, Tucan.molfile_writer.graph_to_molfile envw wfuel g false = .ok text ∧
      Tucan.molfile_reader.graph_from_molfile_text envw rfuel text = .ok g₂ ∧ fuelBound g₂ = fuelBound g ∧
      (∀ fuel ≥ fuelBound g, ∀ fuel' ≥ fuelBound g, ∃ s, tucan env₁ fuel g = .ok s ∧ tucan env₂ fuel' g₂ = .ok s) ∧
      g₂.WF ∧ (∀ k ∈ Contracts.RoundTrip.idKeys, Graph.IsIsoOn k (posOf g.nodeList) g g₂) ∧
      (∀ u ∈ g.nodeList, ∀ v ∈ g.nodeList,
        g₂.edgeAttrs (posOf g.nodeList u) (posOf g.nodeList v) =
          (g.edgeAttrs u v).map (fun a => bondAttrs (Writer.bondTypeInt a))) ∧
      (∀ u ∈ g.nodeList, ∀ v ∈ g.nodeList, ∀ a (b : Int), g.edgeAttrs u v = some a →
        a.get? "bond_type" = some (Val.int b) →
        ∃ a₂, g₂.edgeAttrs (posOf g.nodeList u) (posOf g.nodeList v) = some a₂ ∧
          a₂.get? "bond_type" = some (Val.int b)) := by
  obtain ⟨text, g₂, w, r, fb, hsame⟩ := Contracts.Final.C09_tucan envw hs₁ hs₂ hb hcp hpv ok hl hne hrad wfuel rfuel
    hn he hna hnb hv hsP hp hf hf'
  obtain ⟨g₂', R, e, wg₂, -, iso, hed⟩ := writeRead_iso_bonds envw ok hrad
  have hw := Writer.graph_to_molfile_ok envw wfuel g (Contracts.Final.nodeOk_of_idOK ok) hf
  obtain rfl : join py!"\n" (Writer.fileLines envw g) = text := Except.ok.inj (hw.symm.trans w)
  have hread : Tucan.molfile_reader.graph_from_molfile_text envw rfuel (join py!"\n" (Writer.fileLines envw g)) =
      .ok g₂' := by
    rw [graph_from_molfile_text_eq]
    unfold readSpec
    rw [Writer.C09_splitlines envw g hv hsP hp]
    have h3 : (Writer.fileLines envw g)[3]? = some py!"  0  0  0     0  0            999 V3000" := rfl
    have hw : lastWord py!"  0  0  0     0  0            999 V3000" = py!"V3000" := by decide
    simp only [h3, hw, if_true]
    rw [Writer.C09_file_roundtrip envw g rfuel (Writer.GraphOk.of_WF ok.wf) hn he hna hnb hf']
    simp only [ok_bind]
    rw [molGraph_ok envw _ (Contracts.Final.not_neg_atomsBack envw g)
      (Contracts.Final.not_self_bondsBack ok.wf hl), e]
    rfl
  obtain rfl : g₂' = g₂ := Except.ok.inj (hread.symm.trans r)
  refine ⟨_, g₂', w, r, fb, hsame, wg₂, iso, hed, ?_⟩
  intro u hu v hv a b ha hbt
  refine ⟨_, by rw [hed u hu v hv, ha]; rfl, ?_⟩
  show (bondAttrs (Writer.bondTypeInt a)).get? "bond_type" = _
  rw [bondTypeInt_of_get hbt]; rfl

/-! ## 3. graphs from the TUCAN-string parser: empty bond data, hence `Writer.EdgeRT` -/

section ParserEdges
open Contracts.Parser (Ast treeOf walkSpec walk_treeOf wf_syms walkSpec_error walkSpec_ok settings0_eq settings_pos shift
  to_graph_eq expand bondsOf index_cond sorted_length joined joined_get bondsOf_eq bonds1_pos tab tab_wf tab_keys)

/-- **the listener puts the empty attribute dict on every bond** (`bonds_dict = {bond: {} for bond in self._bonds}`):
for the graph `graph_from_tree` returns on the tree of a well-formed syntax -/
theorem graph_from_tree_plain (env : DepEnv) (a : Ast) (h : a.Wf) {g : Graph}
    (e : Tucan.parser.graph_from_tree env (treeOf a) = .ok g) : Contracts.Parser.Plain g := by
  have hgt : Tucan.parser.graph_from_tree env (treeOf a) =
      (walkSpec a >>= Tucan.parser.TucanListenerImpl.to_graph env) := by
    unfold Tucan.parser.graph_from_tree
    rw [walk_treeOf env a (wf_syms a h) h]
  by_cases hsd : a.SelfBond ∨ a.DupAttr
  · rw [hgt, walkSpec_error a hsd] at e; cases e
  · rw [not_or] at hsd
    obtain ⟨D, hw, hinv⟩ := walkSpec_ok a hsd.1 hsd.2
    have hD0 : ∀ i ∈ D.keys, 0 ≤ i := by
      intro i hi
      rw [hinv.keys, settings0_eq] at hi
      obtain ⟨s0, hs0, rfl⟩ := hi
      obtain ⟨s, hs, rfl⟩ := List.mem_map.mp hs0
      have := settings_pos a h s hs
      simp only [shift]; omega
    have htg := to_graph_eq env (expand a.formula) (bondsOf a.tuples) D hinv.wf hD0
    rw [hgt, hw] at e
    simp only [ok_bind] at e
    rw [htg] at e
    by_cases hbi : a.BadIndex
    · rw [if_neg (fun hc => (index_cond a D hinv).mp hc hbi)] at e; cases e
    · have hidx := (index_cond a D hinv).mpr hbi
      rw [if_pos hidx] at e
      have hlen := sorted_length a
      set n := (expand a.formula).length with hn
      have hA : ∀ i ∈ range (n : Int), (joined (expand a.formula) D i).WF := by
        intro i hi
        rw [Contracts.Parser.mem_range] at hi
        obtain ⟨k, rfl⟩ := Int.eq_ofNat_of_zero_le hi.1
        exact (joined_get a D hinv k (by rw [hlen]; exact_mod_cast hi.2)).1
      have hz : ∀ i ∈ range (n : Int), ∃ z, (joined (expand a.formula) D i).get? "atomic_number" = some z := by
        intro i hi
        rw [Contracts.Parser.mem_range] at hi
        obtain ⟨k, rfl⟩ := Int.eq_ofNat_of_zero_le hi.1
        exact ⟨_, (joined_get a D hinv k (by rw [hlen]; exact_mod_cast hi.2)).2.2.1⟩
      have hb : ∀ b ∈ bondsOf a.tuples, b.1 ∈ range (n : Int) ∧ b.2 ∈ range (n : Int) := by
        intro b hb
        have hlt := hidx.1 b hb
        rw [bondsOf_eq] at hb
        obtain ⟨b1, hb1, rfl⟩ := List.mem_map.mp hb
        have := bonds1_pos a h b1 hb1
        simp only [Contracts.Parser.mem_range] at hlt ⊢
        omega
      set l : List ((Int × Int) × Attrs) := (bondsOf a.tuples).map (fun b => (b, (Dict.empty : Attrs))) with hl
      have hitems : (tab n (joined (expand a.formula) D)).items =
          (range (n : Int)).map (fun i => (i, joined (expand a.formula) D i)) := rfl
      obtain ⟨g', R, hgm, wg, ng, -, -, eg⟩ := graph_from_molecule_edges env (tab n (joined (expand a.formula) D))
        (Dict.ofPairs l) (tab_wf _ _)
        (by intro p hp; rw [hitems] at hp; obtain ⟨i, hi, rfl⟩ := List.mem_map.1 hp; exact hA i hi)
        (by intro p hp; rw [hitems] at hp; obtain ⟨i, hi, rfl⟩ := List.mem_map.1 hp; exact hz i hi)
        (by
          intro b hbk
          obtain ⟨q, hq, rfl⟩ := (mem_keys_ofPairs l b).1 hbk
          obtain ⟨b', hb', rfl⟩ := List.mem_map.1 hq
          rw [tab_keys]; exact hb b' hb')
      rw [hgm] at e
      obtain rfl : g' = g := Except.ok.inj e
      rw [tab_keys] at ng eg
      intro x y d hd
      have hx : x ∈ range (n : Int) := by
        have := wg.left_mem_of_edgeAttrs hd; rw [ng] at this; simpa [range] using this
      have hy : y ∈ range (n : Int) := by
        have := wg.right_mem_of_edgeAttrs hd; rw [ng] at this; simpa [range] using this
      have hx2 := hx; have hy2 := hy
      rw [Contracts.Parser.mem_range] at hx2 hy2
      obtain ⟨i, rfl⟩ : ∃ i : Nat, x = (i : Int) := ⟨x.toNat, by omega⟩
      obtain ⟨j, rfl⟩ : ∃ j : Nat, y = (j : Int) := ⟨y.toNat, by omega⟩
      have := eg (i : Int) hx (j : Int) hy
      rw [idxOf_range _ _ (by omega), idxOf_range _ _ (by omega)] at this
      have hd' : bondData (Dict.ofPairs l) (i : Int) (j : Int) = some d := by rw [← this]; exact hd
      have hex : ((i : Int), (j : Int)) ∈ (Dict.ofPairs l : Dict (Int × Int) Attrs).keys ∨
          ((j : Int), (i : Int)) ∈ (Dict.ofPairs l : Dict (Int × Int) Attrs).keys := by
        rw [← bondData_isSome_iff, hd']; rfl
      have hall : ∀ q ∈ l, (q.1 = ((i : Int), (j : Int)) ∨ q.1 = ((j : Int), (i : Int))) → q.2 = (Dict.empty : Attrs) := by
        intro q hq _
        obtain ⟨b', _, rfl⟩ := List.mem_map.1 hq; rfl
      have key := bondData_ofPairs_same l (i : Int) (j : Int) Dict.empty Dict.WF_empty hall (by
        rcases hex with hk | hk
        · obtain ⟨q, hq, e⟩ := (mem_keys_ofPairs l _).1 hk; exact ⟨q, hq, Or.inl e⟩
        · obtain ⟨q, hq, e⟩ := (mem_keys_ofPairs l _).1 hk; exact ⟨q, hq, Or.inr e⟩)
      rw [key] at hd'
      exact (Option.some.inj hd').symm

end ParserEdges

/-- a bond without `bond_type` satisfies the writer's side condition (it is written as a single bond) -/
theorem edgeRT_of_plain {g : Graph} (hg : g.WF) (hp : Contracts.Parser.Plain g) :
    ∀ e ∈ g.edgesData, Writer.EdgeRT e := by
  intro e he
  have h1 := hp _ _ _ (Graph.edgeAttrs_of_mem_edgesData hg he)
  refine ⟨1, by rw [h1]; rfl, ?_⟩
  exact Writer.small_lt 1 (by norm_num) (by norm_num)

/-- **`EdgeRT` holds for parser output**: the writer's side condition on edges is met by every graph
`graph_from_tree` returns on the tree of a well-formed syntax (in particular by `graph_from_tucan` under V4) -/
theorem parsed_edgeRT (env : DepEnv) (a : Contracts.Parser.Ast) (h : a.Wf) {g : Graph}
    (e : Tucan.parser.graph_from_tree env (Contracts.Parser.treeOf a) = .ok g) :
    ∀ e ∈ g.edgesData, Writer.EdgeRT e := by
  have hp := graph_from_tree_plain env a h e
  have hr := Contracts.Parser.graph_from_tree_ok env a h
  cases hd : Contracts.Parser.denote a with
  | error err => rw [hd] at hr; simp only at hr; rw [hr] at e; cases e
  | ok mol =>
    rw [hd] at hr
    obtain ⟨g', hg', R⟩ := hr
    obtain rfl : g' = g := Except.ok.inj (hg'.symm.trans e)
    exact edgeRT_of_plain R.wf hp

/-! ### the string round trip without the `EdgeRT` hypothesis -/

section StringRT
open Contracts.RoundTrip (V4 graphFromTucan)

/-- the graph parsed from a string the pipeline emitted has empty bond data and satisfies `EdgeRT` -/
theorem parsed_of_tucan_edgeRT (antlr : Str → Option PTree) (hV4 : V4 antlr) {env : DepEnv} (envp : DepEnv)
    (hs : env.SetLawful) (hb : BlissLawful env)
    {m g : Graph} {s : Str} (hm : Contracts.RoundTrip.MolOK m) (hne : m.nodeList ≠ []) (hcode : InvariantCodeOK m)
    (fuel : Nat) (hf : fuel ≥ fuelBound m)
    (e : tucan env fuel m = .ok s) (p : graphFromTucan antlr envp s = .ok g) :
    Contracts.Parser.Plain g ∧ ∀ e ∈ g.edgesData, Writer.EdgeRT e := by
  have okm := Contracts.Final.MolOK.idOK hm hcode
  obtain ⟨c, ρ, hcan, wc, pc, ic'⟩ := Contracts.RoundTrip.canonicalize_facts hs hb hm.wf hne okm.carries_code fuel
    (le_trans (Contracts.Pipeline.length_le_fuelBound m) hf)
  have i' : ∀ k ∈ Contracts.RoundTrip.idKeys, Graph.IsIsoOn k ρ m c :=
    fun k hk => ic' k (Contracts.RoundTrip.idKeys_ne_partition hk)
  have okc : Contracts.RoundTrip.MolOK c := hm.of_iso wc i'
  obtain ⟨ms, σ, hser, sm, -⟩ := Contracts.RoundTrip.serialize_molecule_sorted env hs fuel okc pc
    (by rw [Contracts.RoundTrip.fuelBound_iso (i' "mass" (by decide))]; exact hf)
  have hs' : s = Contracts.Layout.tucanSpec ms := by
    unfold tucan at e
    simp only [hcan, hser, ok_bind, pure_eq_ok] at e
    exact (Except.ok.inj e).symm
  subst hs'
  unfold graphFromTucan at p
  rw [Contracts.RoundTrip.tucanSpec_eq_render, hV4 _ sm.astOf_wf sm.in_grammar] at p
  exact ⟨graph_from_tree_plain envp _ sm.astOf_wf p, parsed_edgeRT envp _ sm.astOf_wf p⟩

/-- **C09 (string → graph → molfile → graph → string) without the `EdgeRT` hypothesis, with bond types.**  As
`Final.C09_string`, but the writer's side condition on edges is proved (the parser's bonds carry no `bond_type`, the
writer writes them as type 1); in addition the graph read back has exactly the bonds of the parsed graph `g`, each
carrying `{bond_type: 1}`. -/
theorem C09_string_bonds (antlr : Str → Option PTree) (hV4 : V4 antlr) {env env₂ : DepEnv} (envp envw : DepEnv)
    (hs : env.SetLawful) (hs₂ : env₂.SetLawful) (hb : BlissLawful env)
    (hcp : env₂.canonicalPermutation = env.canonicalPermutation)
    (hpv : env₂.permuteVertices = env.permuteVertices)
    {m g : Graph} {s : Str} (hm : Contracts.RoundTrip.MolOK m) (hne : m.nodeList ≠ []) (hcode : InvariantCodeOK m)
    (hradm : ∀ i ∈ m.nodeList, ∀ r : Int, m.attr i "rad" = some (Val.int r) → r ≤ 3)
    (fuel : Nat) (hf : fuel ≥ fuelBound m)
    (e : tucan env fuel m = .ok s) (p : graphFromTucan antlr envp s = .ok g)
    (wfuel rfuel : Nat)
    (hn : ∀ p ∈ g.nodesData, Writer.NodeRT envw p)
    (hnb : g.edgesData.length < 10 ^ 4300)
    (hv : Writer.Plain envw.version) (hsP : Writer.Plain envw.nowStamp) (hp : Writer.PlainValues envw g)
    (hfw : Writer.maxLen (Writer.logicalLines envw g) / 71 + 1 ≤ wfuel)
    (hfr : (Writer.fileLines envw g).length + 1 ≤ rfuel) :
    ∃ text g₂, Tucan.molfile_writer.graph_to_molfile envw wfuel g false = .ok text ∧
      Tucan.molfile_reader.graph_from_molfile_text envw rfuel text = .ok g₂ ∧
      (∀ fuel' ≥ fuelBound m, tucan env₂ fuel' g₂ = .ok s) ∧
      (∀ u ∈ g.nodeList, ∀ v ∈ g.nodeList,
        g₂.edgeAttrs (posOf g.nodeList u) (posOf g.nodeList v) = (g.edgeAttrs u v).map (fun _ => bondAttrs 1)) := by
  obtain ⟨⟨π, iso⟩, okg, hne', _, idg, fb, hrun⟩ :=
    Contracts.Final.C03_fixpoint antlr hV4 envp hs hs hb rfl rfl hm hne hcode fuel hf e p
  obtain ⟨hplain, he⟩ := parsed_of_tucan_edgeRT antlr hV4 envp hs hb hm hne hcode fuel hf e p
  have hradg : ∀ i ∈ g.nodeList, ∀ r : Int, g.attr i "rad" = some (Val.int r) → r ≤ 3 := by
    intro i hi r hr
    have r4 := iso "rad" (by decide)
    obtain ⟨a, ha, rfl⟩ := List.mem_map.1 (r4.nodes.mem_iff.1 hi)
    rw [r4.attr a ha] at hr
    exact hradm a ha r hr
  have hna : g.nodesData.length < 10 ^ 4300 := by
    have : g.nodesData.length = g.nodeList.length := by simp [Graph.nodesData, Graph.nodeList, Dict.keys]
    rw [this]; exact okg.small
  obtain ⟨text, g₂, w, r, _, hsame, _, _, hed, _⟩ := C09_tucan_bonds envw hs hs₂ hb hcp hpv idg okg.loopless hne' hradg
    wfuel rfuel hn he hna hnb hv hsP hp hfw hfr
  refine ⟨text, g₂, w, r, ?_, ?_⟩
  · intro fuel' hfu'
    obtain ⟨s', e1, e2⟩ := hsame (fuelBound g) le_rfl fuel' (by rw [fb]; exact hfu')
    rw [hrun (fuelBound g) le_rfl] at e1
    cases e1
    exact e2
  · intro u hu v hv
    rw [hed u hu v hv]
    cases hq : g.edgeAttrs u v with
    | none => rfl
    | some d =>
      rw [hplain u v d hq]
      rfl

end StringRT

/-! ## sanity checks of `bondData` on concrete data (compared with networkx 3.x via `graph_from_molecule`), axioms -/

/-- one entry: its dict, in both orientations; unlisted pair: nothing -/
example : bondData (Dict.ofPairs [((0, 1), bondAttrs 2)]) 1 0 = some (bondAttrs 2) ∧
    bondData (Dict.ofPairs [((0, 1), bondAttrs 2)]) 0 1 = some (bondAttrs 2) ∧
    bondData (Dict.ofPairs [((0, 1), bondAttrs 2)]) 0 2 = none := by decide

/-- conflicting duplicates: bond lines `1-2` type 1, `2-1` type 2, `1-2` type 3 give type **2** — the `dict` keeps the
position of the first `(0, 1)` entry (value 3), so the `(1, 0)` entry is applied last.  "The last bond line wins" is
false in general; it holds when all lines on a pair agree (`bondData_ofPairs_same`). -/
example : bondData (Dict.ofPairs [((0, 1), bondAttrs 1), ((1, 0), bondAttrs 2), ((0, 1), bondAttrs 3)]) 0 1 =
    some (bondAttrs 2) := by decide

/-- entries in both directions are merged key by key -/
example : bondData (Dict.ofPairs [((0, 1), ⟨[("bond_type", Val.int 1), ("x", Val.int 5)]⟩), ((1, 0), ⟨[("y", Val.int 7)]⟩)]) 1 0 =
    some ⟨[("bond_type", Val.int 1), ("x", Val.int 5), ("y", Val.int 7)]⟩ := by decide

#print axioms graph_from_molecule_edges
#print axioms fileMeaning_plain_graph_bonds
#print axioms graph_from_molfile_text_render_ok_bonds
#print axioms graph_from_molfile_text_v2000_bonds
#print axioms writeRead_iso_bonds
#print axioms C09_tucan_bonds
#print axioms graph_from_tree_plain
#print axioms parsed_edgeRT
#print axioms parsed_of_tucan_edgeRT
#print axioms C09_string_bonds

end Contracts.Bonds
