/-
Contracts.Parser — semantic half of property C10: the listener of tucan/parser/parser.py, run over
the ANTLR parse tree of a grammatical TUCAN string, returns the molecule that the string denotes, or
rejects with `TucanParserException`.

The language-recognition half (ANTLR itself) is assumed: `treeOf` is the shape of the parse tree that
the grammar tucan.g4 prescribes for the abstract syntax `Ast`.
-/
import Generated.Parser
import Spec.GraphView
import Spec.GraphLemmas
set_option autoImplicit false
open Py Tucan.parser

namespace Contracts.Parser

/-- the parser's own exception type -/
def TPE : Err := Err.custom "TucanParserException"

/-! ## 1. Abstract syntax, written from tucan.g4 -/

inductive Key where
  | mass | rad
  deriving DecidableEq, Repr

/-- the literal of `node_property_key` -/
def Key.text : Key → Str
  | .mass => py!"mass"
  | .rad => py!"rad"
/-- the node attribute the key denotes -/
def Key.attr : Key → String
  | .mass => "mass"
  | .rad => "rad"

/-- `tucan : sum_formula '/' tuples ('/' node_attributes)? EOF`. Numbers are kept as written. -/
structure Ast where
  /-- element symbol, optional `count` -/
  formula : List (Str × Option Str)
  /-- `'(' node_index '-' node_index ')'` -/
  tuples : List (Str × Str)
  /-- `'(' node_index ':' key '=' value (',' key '=' value)* ')'`; `none`: the optional third section is absent -/
  attrs : Option (List (Str × List (Key × Str)))

/-- `greater_than_one : '2' | … | '9' | GREATER_THAN_NINE` -/
def gt1Tree (ds : Str) : PTree := .node "greater_than_one" [.tok ds]
/-- `greater_than_zero : '1' | greater_than_one` -/
def gt0Tree (ds : Str) : PTree :=
  .node "greater_than_zero" [if ds = py!"1" then .tok ds else gt1Tree ds]
/-- `node_index : greater_than_zero` -/
def indexTree (ds : Str) : PTree := .node "node_index" [gt0Tree ds]
/-- the g4 rule of an element is its symbol in lower case: `cl : 'Cl' count? ;` -/
def elemRule (sym : Str) : String := String.ofList (sym.map Char.toLower)
/-- `cl : 'Cl' count? ;  count : greater_than_one ;` -/
def elemTree (p : Str × Option Str) : PTree :=
  .node (elemRule p.1) (.tok p.1 :: match p.2 with
    | none => []
    | some ds => [.node "count" [gt1Tree ds]])
/-- `sum_formula : with_carbon | without_carbon` -/
def formulaTree (f : List (Str × Option Str)) : PTree :=
  .node "sum_formula"
    [.node (if f.head?.map Prod.fst = some py!"C" then "with_carbon" else "without_carbon") (f.map elemTree)]
/-- `tuple : '(' node_index '-' node_index ')'` -/
def tupleTree (t : Str × Str) : PTree :=
  .node "tuple" [.tok py!"(", indexTree t.1, .tok py!"-", indexTree t.2, .tok py!")"]
/-- `node_property : node_property_key '=' node_property_value` -/
def propTree (kv : Key × Str) : PTree :=
  .node "node_property"
    [.node "node_property_key" [.tok kv.1.text], .tok py!"=", .node "node_property_value" [gt0Tree kv.2]]
/-- `node_property (',' node_property)*` -/
def sepProps : List (Key × Str) → List PTree
  | [] => []
  | kv :: rest => propTree kv :: rest.flatMap (fun kv => [.tok py!",", propTree kv])
/-- `node_attribute : '(' node_index ':' node_property (',' node_property)* ')'` -/
def attrTree (b : Str × List (Key × Str)) : PTree :=
  .node "node_attribute" ([.tok py!"(", indexTree b.1, .tok py!":"] ++ sepProps b.2 ++ [.tok py!")"])
/-- the parse tree ANTLR builds for the start rule `tucan` (assumption V4) -/
def treeOf (a : Ast) : PTree :=
  .node "tucan"
    ([formulaTree a.formula, .tok py!"/", .node "tuples" (a.tuples.map tupleTree)]
      ++ (match a.attrs with
          | none => []
          | some bs => [.tok py!"/", .node "node_attributes" (bs.map attrTree)])
      ++ [.tok py!"<EOF>"])

/-- a number as the grammar admits it (`'1'`, `'2'`…`'9'`, `[1-9][0-9]+`) that Python's `int` accepts
(at most 4300 digits) -/
def NumWf (ds : Str) : Prop :=
  ds ≠ [] ∧ ds.all isAsciiDigit = true ∧ ds.head? ≠ some '0' ∧ ds.length ≤ intMaxStrDigits

structure Ast.Wf (a : Ast) : Prop where
  syms : ∀ p ∈ a.formula, p.1 ∈ Tucan.Consts.ELEMENT_ATTRS.keys
  counts : ∀ p ∈ a.formula, ∀ ds, p.2 = some ds → NumWf ds ∧ 2 ≤ digitsToNat ds
  tuples : ∀ t ∈ a.tuples, NumWf t.1 ∧ NumWf t.2
  attrs : ∀ bs, a.attrs = some bs → ∀ b ∈ bs, NumWf b.1 ∧ ∀ kv ∈ b.2, NumWf kv.2

/-! ## 2. Denotation, written from the property text -/

/-- the periodic table (chemistry, not /repo): the atomic number of a symbol is its position -/
def periodicTable : List Str := [
  py!"H", py!"He",
  py!"Li", py!"Be", py!"B", py!"C", py!"N", py!"O", py!"F", py!"Ne",
  py!"Na", py!"Mg", py!"Al", py!"Si", py!"P", py!"S", py!"Cl", py!"Ar",
  py!"K", py!"Ca", py!"Sc", py!"Ti", py!"V", py!"Cr", py!"Mn", py!"Fe", py!"Co", py!"Ni", py!"Cu", py!"Zn",
  py!"Ga", py!"Ge", py!"As", py!"Se", py!"Br", py!"Kr",
  py!"Rb", py!"Sr", py!"Y", py!"Zr", py!"Nb", py!"Mo", py!"Tc", py!"Ru", py!"Rh", py!"Pd", py!"Ag", py!"Cd",
  py!"In", py!"Sn", py!"Sb", py!"Te", py!"I", py!"Xe",
  py!"Cs", py!"Ba",
  py!"La", py!"Ce", py!"Pr", py!"Nd", py!"Pm", py!"Sm", py!"Eu", py!"Gd", py!"Tb", py!"Dy", py!"Ho", py!"Er",
  py!"Tm", py!"Yb", py!"Lu",
  py!"Hf", py!"Ta", py!"W", py!"Re", py!"Os", py!"Ir", py!"Pt", py!"Au", py!"Hg", py!"Tl", py!"Pb", py!"Bi",
  py!"Po", py!"At", py!"Rn",
  py!"Fr", py!"Ra",
  py!"Ac", py!"Th", py!"Pa", py!"U", py!"Np", py!"Pu", py!"Am", py!"Cm", py!"Bk", py!"Cf", py!"Es", py!"Fm",
  py!"Md", py!"No", py!"Lr",
  py!"Rf", py!"Db", py!"Sg", py!"Bh", py!"Hs", py!"Mt", py!"Ds", py!"Rg", py!"Cn", py!"Nh", py!"Fl", py!"Mc",
  py!"Lv", py!"Ts", py!"Og"]

def atomicNumber (s : Str) : Int := (periodicTable.idxOf s : Nat) + 1

structure Atom where
  symbol : Str
  z : Int
  mass : Option Int
  rad : Option Int
  deriving Repr, DecidableEq

/-- atoms numbered by position; bonds as listed (0-based), read as a set of unordered pairs -/
structure AbstractMol where
  atoms : List Atom
  bonds : List (Nat × Nat)
  deriving Repr, DecidableEq

/-- association list lookup (first match) -/
def assoc {κ ν : Type} [DecidableEq κ] (l : List (κ × ν)) (k : κ) : Option ν :=
  (l.find? (fun p => p.1 = k)).map Prod.snd

/-- value of a written number -/
abbrev num (ds : Str) : Nat := digitsToNat ds
def countOf : Option Str → Nat
  | none => 1
  | some ds => num ds
/-- the formula expanded: every symbol as often as its count says, in formula order -/
def expand (f : List (Str × Option Str)) : List Str := f.flatMap (fun p => List.replicate (countOf p.2) p.1)
/-- atoms of the molecule in their numbering: stably sorted by atomic number -/
def sortedSyms (a : Ast) : List Str :=
  (expand a.formula).mergeSort (fun x y => decide (atomicNumber x ≤ atomicNumber y))
/-- listed bonds, 1-based as written -/
def Ast.bonds1 (a : Ast) : List (Nat × Nat) := a.tuples.map (fun t => (num t.1, num t.2))
def Ast.blocks (a : Ast) : List (Str × List (Key × Str)) := a.attrs.getD []
/-- listed attribute settings `((atom (1-based), key), value)` in the order written -/
def Ast.settings (a : Ast) : List ((Nat × Key) × Nat) :=
  a.blocks.flatMap (fun b => b.2.map (fun kv => ((num b.1, kv.1), num kv.2)))

/-- some bond or attribute index refers to a non-existing atom -/
def Ast.BadIndex (a : Ast) : Prop :=
  (∃ b ∈ a.bonds1, (sortedSyms a).length < b.1 ∨ (sortedSyms a).length < b.2)
    ∨ (∃ s ∈ a.settings, (sortedSyms a).length < s.1.1)
def Ast.SelfBond (a : Ast) : Prop := ∃ b ∈ a.bonds1, b.1 = b.2
/-- some attribute is set twice on one atom -/
def Ast.DupAttr (a : Ast) : Prop := ¬ (a.settings.map Prod.fst).Nodup

instance (a : Ast) : Decidable a.BadIndex := by unfold Ast.BadIndex; infer_instance
instance (a : Ast) : Decidable a.SelfBond := by unfold Ast.SelfBond; infer_instance
instance (a : Ast) : Decidable a.DupAttr := by unfold Ast.DupAttr; infer_instance

def denote (a : Ast) : M AbstractMol :=
  if a.BadIndex ∨ a.SelfBond ∨ a.DupAttr then .error TPE
  else .ok {
    atoms := (sortedSyms a).zipIdx.map (fun si =>
      { symbol := si.1, z := atomicNumber si.1,
        mass := (assoc a.settings (si.2 + 1, Key.mass)).map Int.ofNat,
        rad := (assoc a.settings (si.2 + 1, Key.rad)).map Int.ofNat })
    bonds := a.bonds1.map (fun b => (b.1 - 1, b.2 - 1)) }

/-- `{i, j}` is a listed bond -/
def AbstractMol.Bonded (mol : AbstractMol) (i j : Int) : Prop :=
  ∃ b ∈ mol.bonds, ((b.1 : Int) = i ∧ (b.2 : Int) = j) ∨ ((b.1 : Int) = j ∧ (b.2 : Int) = i)

def attrNames : List String := ["element_symbol", "atomic_number", "partition", "mass", "rad", "invariant_code"]

/-- the networkx graph `g` is the molecule `mol` -/
structure Represents (g : Graph) (mol : AbstractMol) : Prop where
  nodes : g.nodeList = range mol.atoms.length
  attrs : ∀ (i : Nat) (h : i < mol.atoms.length),
    g.attr i "element_symbol" = some (Val.str mol.atoms[i].symbol) ∧
    g.attr i "atomic_number" = some (Val.int mol.atoms[i].z) ∧
    g.attr i "partition" = some (Val.int 0) ∧
    g.attr i "mass" = mol.atoms[i].mass.map Val.int ∧
    g.attr i "rad" = mol.atoms[i].rad.map Val.int ∧
    g.attr i "invariant_code" = some (Val.tup [.int mol.atoms[i].z, .int (mol.atoms[i].mass.getD 0), .int (mol.atoms[i].rad.getD 0)])
  noOther : ∀ (i : Int) (k : String), g.attr i k ≠ none → k ∈ attrNames
  bonds : ∀ i j : Int, j ∈ g.nbrs i ↔ mol.Bonded i j
  wf : g.WF

/-! ## 3. Contracts -/

/-! ### numbers -/

theorem digit_not_space (c : Char) (h : isAsciiDigit c = true) : isPySpace c = false := by
  cases hs : isPySpace c with
  | false => rfl
  | true =>
    exfalso
    simp only [isPySpace, Bool.decide_or, Bool.or_eq_true, decide_eq_true_eq] at hs
    rcases hs with rfl | rfl | rfl | rfl | rfl | rfl | rfl | rfl | rfl | rfl | rfl | rfl <;> revert h <;> decide

theorem digit_ne (c d : Char) (h : isAsciiDigit c = true) (hd : isAsciiDigit d = false) : c ≠ d := by
  rintro rfl; simp [h] at hd

theorem isInfixOf_uu (ds : Str) (h : ∀ c ∈ ds, c ≠ '_') : isInfixOf (py!"__") ds = false := by
  unfold isInfixOf
  induction ds with
  | nil => decide
  | cons c cs ih =>
    have hc : c ≠ '_' := h c (by simp)
    have := ih (fun x hx => h x (by simp [hx]))
    simp only [List.tails, List.any_cons, this, Bool.or_false]
    simp [List.isPrefixOf, hc.symm]

/-- `int(s)` on a non-empty string of ASCII digits -/
theorem parseInt_digits (ds : Str) (hne : ds ≠ []) (hd : ds.all isAsciiDigit = true) :
    parseInt ds = if ds.length ≤ intMaxStrDigits then .ok (digitsToNat ds : Int) else .error .value := by
  have hall : ∀ c ∈ ds, isAsciiDigit c = true := by simpa using hd
  have hnu : ∀ c ∈ ds, c ≠ '_' := fun c hc => digit_ne c '_' (hall c hc) (by decide)
  have h1 : ds.dropWhile isPySpace = ds := by
    cases ds with
    | nil => rfl
    | cons c cs => simp [List.dropWhile, digit_not_space c (hall c (by simp))]
  have h2 : rstrip ds = ds := by
    unfold rstrip
    have : ds.reverse.dropWhile isPySpace = ds.reverse := by
      cases hr : ds.reverse with
      | nil => rfl
      | cons c cs =>
        have : c ∈ ds := by
          have : c ∈ ds.reverse := by simp [hr]
          simpa using this
        simp [List.dropWhile, digit_not_space c (hall c this)]
    rw [this, List.reverse_reverse]
  have h3 : ds.filter (· ≠ '_') = ds := by
    rw [List.filter_eq_self]; intro c hc; simpa using hnu c hc
  have h4 : ds.head? ≠ some '_' := by
    intro h; exact hnu _ (List.mem_of_head? h) rfl
  have h5 : ds.getLast? ≠ some '_' := by
    intro h; exact hnu _ (List.mem_of_getLast? h) rfl
  have h6 := isInfixOf_uu ds hnu
  unfold parseInt
  simp only [h1, h2]
  cases ds with
  | nil => exact absurd rfl hne
  | cons c cs =>
    have hc := hall c (by simp)
    have hm : c ≠ '-' := digit_ne c '-' hc (by decide)
    have hp : c ≠ '+' := digit_ne c '+' hc (by decide)
    split
    · rename_i h; simp at h; exact absurd h.1 hm
    · rename_i h; simp at h; exact absurd h.1 hp
    · have hcond : decide ((c :: cs).head? ≠ some '_' ∧ (c :: cs).getLast? ≠ some '_' ∧
          isInfixOf (py!"__") (c :: cs) = false) = true := decide_eq_true ⟨h4, h5, h6⟩
      simp only [h3, hcond, hd]
      have e1 : ((c :: cs) = [] ∨ true = false ∨ true = false ∨ (c :: cs).length > intMaxStrDigits) ↔
          ¬ (c :: cs).length ≤ intMaxStrDigits := by simp
      simp only [e1, ite_not, Bool.false_eq_true, if_false]
      rfl

theorem _to_int_of_ok (env : DepEnv) (s : Str) (v : Int) (h : parseInt s = .ok v) :
    Tucan.parser._to_int env s = .ok v := by
  unfold Tucan.parser._to_int
  simp [h]
  rfl
theorem _to_int_of_value (env : DepEnv) (s : Str) (h : parseInt s = .error .value) :
    Tucan.parser._to_int env s = .error TPE := by
  unfold Tucan.parser._to_int
  simp [h]
  rfl

/-- `int_total`: on a digit string `_to_int` yields the number, or `TucanParserException` when the string
is over-long; never `ValueError`. Every call of `_to_int` by the listener is on such a string
(`count`, `node_index`, `node_property_value` of the grammar; see the `enter*` contracts below). -/
theorem int_total (env : DepEnv) (ds : Str) (hne : ds ≠ []) (hd : ds.all isAsciiDigit = true) :
    Tucan.parser._to_int env ds =
      if ds.length ≤ intMaxStrDigits then .ok (num ds : Int) else .error TPE := by
  have h := parseInt_digits ds hne hd
  split
  · rename_i hl; rw [if_pos hl] at h; exact _to_int_of_ok env ds _ h
  · rename_i hl; rw [if_neg hl] at h; exact _to_int_of_value env ds h

theorem _to_int_ok (env : DepEnv) (ds : Str) (h : NumWf ds) :
    Tucan.parser._to_int env ds = .ok (num ds : Int) := by
  rw [int_total env ds h.1 h.2.1, if_pos h.2.2.2]

/-! ### listener methods -/

theorem keys_eq_table : Tucan.Consts.ELEMENT_ATTRS.keys = periodicTable := by decide

set_option maxRecDepth 100000 in
theorem table_ok : ∀ s ∈ periodicTable,
    (Tucan.Consts.ELEMENT_ATTRS.get? s).bind (·.get? "atomic_number") = some (Val.int (atomicNumber s)) := by
  decide

def otherRules : List String := ["with_carbon", "without_carbon", "tuple", "node_property"]

set_option maxRecDepth 100000 in
theorem elemRule_other : ∀ s ∈ periodicTable, elemRule s ∉ ["with_carbon", "without_carbon", "tuple", "node_property"] := by
  decide

theorem getItem_dict_ok {κ ν K : Type} [DecidableEq κ] [ToKey K κ] (d : Dict κ ν) (k : K) (v : ν)
    (h : d.get? (toKey k) = some v) : getItem d k = .ok v := by
  show (match d.get? (toKey k) with | some v => pure v | Option.none => throw Err.key) = _
  rw [h]; rfl

/-- the attribute dict the listener creates for an atom of element `sym` -/
def baseAttrs (sym : Str) : Attrs :=
  ⟨[("element_symbol", Val.str sym), ("atomic_number", Val.int (atomicNumber sym)), ("partition", Val.int 0)]⟩

theorem _add_atoms_ok (env : DepEnv) (st : TucanListenerImpl) (sym : Str) (n : Nat) (h : sym ∈ periodicTable) :
    TucanListenerImpl._add_atoms env st sym (n : Int) =
      .ok { st with _atoms := st._atoms ++ List.replicate n (baseAttrs sym) } := by
  have ht := table_ok sym h
  obtain ⟨ea, h1, h2⟩ := Option.bind_eq_some_iff.mp ht
  have g1 : getItem Tucan.Consts.ELEMENT_ATTRS sym = .ok ea := getItem_dict_ok _ _ _ h1
  have g2 : getItem ea "atomic_number" = .ok (Val.int (atomicNumber sym)) := getItem_dict_ok _ _ _ h2
  have hl : listComp (pyIter (range (n : Int))) (fun _ => (pure (some (baseAttrs sym)) : M (Option Attrs))) =
      .ok (List.replicate n (baseAttrs sym)) := by
    refine (listComp_ok _ _ (fun _ => some (baseAttrs sym)) (fun _ _ => rfl)).trans ?_
    simp [range, List.map_const']
  unfold TucanListenerImpl._add_atoms
  simp only [g1, g2, ok_bind]
  have hb : (Dict.ofPairs [("element_symbol", toVal sym), ("atomic_number", toVal (Val.int (atomicNumber sym))), ("partition", toVal (0 : Int))] : Attrs) = baseAttrs sym := by
    rfl
  rw [hb]
  simp only [pure_eq_ok] at hl ⊢
  rw [hl]
  rfl

theorem _add_bond_ok (env : DepEnv) (st : TucanListenerImpl) (i j : Int) :
    TucanListenerImpl._add_bond env st i j = .ok { st with _bonds := st._bonds ++ [(i - 1, j - 1)] } := rfl

/-- `_add_node_attribute` on the dict of dicts (`i` 0-based) -/
def addAttr (d : Dict Int Attrs) (i : Int) (k : Key) (v : Int) : M (Dict Int Attrs) :=
  let sd := d.getD i Dict.empty
  if sd.contains k.attr then .error TPE else .ok ((d.set i sd).set i (sd.set k.attr (Val.int v)))

theorem _add_node_attribute_ok (env : DepEnv) (st : TucanListenerImpl) (idx : Int) (k : Key) (v : Int) :
    TucanListenerImpl._add_node_attribute env st idx k.text v =
      (addAttr st._node_attributes (idx - 1) k v >>= fun d => .ok { st with _node_attributes := d }) := by
  have g : getItem Tucan.Consts._DESERIALIZER_NODE_ATTRIBUTE_MAPPING k.text = .ok k.attr := by
    cases k <;> rfl
  unfold TucanListenerImpl._add_node_attribute addAttr
  simp only [g, ok_bind, pyContains_dict, setItem_attrs, setItem_dict]
  by_cases hc : (Dict.getD st._node_attributes (idx - 1) (Dict.empty : Attrs)).contains k.attr = true
  · simp [hc, TPE]
  · simp [hc, toVal, ToVal.toVal]

/-! ### texts of number trees -/
@[simp] theorem text_gt1Tree (ds : Str) : (gt1Tree ds).text = ds := by
  simp [gt1Tree, PTree.text, PTree.textList]
@[simp] theorem text_gt0Tree (ds : Str) : (gt0Tree ds).text = ds := by
  unfold gt0Tree
  split <;> simp [PTree.text, PTree.textList]
@[simp] theorem text_indexTree (ds : Str) : (indexTree ds).text = ds := by
  simp [indexTree, PTree.text, PTree.textList]

theorem foldl_digits_ge (cs : Str) (n : Nat) :
    n ≤ cs.foldl (fun n c => 10 * n + (c.toNat - '0'.toNat)) n := by
  induction cs generalizing n with
  | nil => simp
  | cons c cs ih => exact le_trans (by show n ≤ 10 * n + (c.toNat - '0'.toNat); omega) (ih _)

theorem num_pos (ds : Str) (h : NumWf ds) : 1 ≤ num ds := by
  obtain ⟨hne, hd, h0, _⟩ := h
  cases ds with
  | nil => exact absurd rfl hne
  | cons c cs =>
    have hc : isAsciiDigit c = true := by simp at hd; exact hd.1
    have hc0 : c ≠ '0' := by simpa using h0
    have h48 : 48 ≤ c.toNat := by
      simp only [isAsciiDigit, decide_eq_true_eq] at hc
      have := hc.1
      rw [Char.le_def] at this
      exact this
    have hne48 : c.toNat ≠ 48 := by
      intro he
      apply hc0
      have : Char.ofNat c.toNat = Char.ofNat 48 := by rw [he]
      rw [Char.ofNat_toNat] at this
      exact this
    refine le_trans ?_ (foldl_digits_ge cs _)
    show 1 ≤ 10 * 0 + (c.toNat - '0'.toNat)
    have : '0'.toNat = 48 := rfl
    omega

/-- `enterTuple` on a `tuple` node -/
theorem enterTuple_ok (env : DepEnv) (st : TucanListenerImpl) (t : Str × Str) (par : Option PTree)
    (h1 : NumWf t.1) (h2 : NumWf t.2) :
    TucanListenerImpl.enterTuple env st ⟨tupleTree t, par⟩ =
      if num t.1 = num t.2 then .error TPE
      else .ok { st with _bonds := st._bonds ++ [((num t.1 : Int) - 1, (num t.2 : Int) - 1)] } := by
  have c0 : PCtx.childRuleAt ⟨tupleTree t, par⟩ "node_index" 0 = .ok ⟨indexTree t.1, some (tupleTree t)⟩ := by
    simp [PCtx.childRuleAt, tupleTree, PTree.kids, PTree.rule, indexTree]
  have c1 : PCtx.childRuleAt ⟨tupleTree t, par⟩ "node_index" 1 = .ok ⟨indexTree t.2, some (tupleTree t)⟩ := by
    simp [PCtx.childRuleAt, tupleTree, PTree.kids, PTree.rule, indexTree]
  unfold TucanListenerImpl.enterTuple
  simp only [c0, c1, ok_bind, PCtx.getText, text_indexTree, _to_int_ok env _ h1, _to_int_ok env _ h2, _add_bond_ok]
  by_cases he : num t.1 = num t.2
  · simp [he, pyEq, PyCmp.eq, TPE]
  · have : ¬ ((num t.1 : Int) = (num t.2 : Int)) := by exact_mod_cast he
    simp [he, this, pyEq, PyCmp.eq]


theorem find_index (ds : Str) (rest : List PTree) :
    List.find? (fun k => k.rule == "node_index") (PTree.tok (py!"(") :: indexTree ds :: rest) = some (indexTree ds) := by
  simp [PTree.rule, indexTree]

/-- `enterNode_property` on a `node_property` node below a `node_attribute` node -/
theorem enterNode_property_ok (env : DepEnv) (st : TucanListenerImpl) (b : Str × List (Key × Str)) (kv : Key × Str)
    (h1 : NumWf b.1) (h2 : NumWf kv.2) :
    TucanListenerImpl.enterNode_property env st ⟨propTree kv, some (attrTree b)⟩ =
      (addAttr st._node_attributes ((num b.1 : Int) - 1) kv.1 (num kv.2) >>= fun d =>
        .ok { st with _node_attributes := d }) := by
  have c0 : PCtx.parentCtx ⟨propTree kv, some (attrTree b)⟩ = .ok ⟨attrTree b, Option.none⟩ := rfl
  have c1 : PCtx.childRule ⟨attrTree b, Option.none⟩ "node_index" = .ok ⟨indexTree b.1, some (attrTree b)⟩ := by
    simp [PCtx.childRule, attrTree, PTree.kids, PTree.rule, indexTree]
  have c2 : PCtx.childRule ⟨propTree kv, some (attrTree b)⟩ "node_property_key" =
      .ok ⟨.node "node_property_key" [.tok kv.1.text], some (propTree kv)⟩ := by
    simp [PCtx.childRule, propTree, PTree.kids, PTree.rule]
  have c3 : PCtx.childRule ⟨propTree kv, some (attrTree b)⟩ "node_property_value" =
      .ok ⟨.node "node_property_value" [gt0Tree kv.2], some (propTree kv)⟩ := by
    simp [PCtx.childRule, propTree, PTree.kids, PTree.rule]
  have t2 : (PTree.node "node_property_key" [.tok kv.1.text]).text = kv.1.text := by
    simp [PTree.text, PTree.textList]
  have t3 : (PTree.node "node_property_value" [gt0Tree kv.2]).text = kv.2 := by
    simp [PTree.text, PTree.textList]
  unfold TucanListenerImpl.enterNode_property
  simp only [c0, c1, c2, c3, ok_bind, PCtx.getText, text_indexTree, t2, t3, _to_int_ok env _ h1, _to_int_ok env _ h2,
    _add_node_attribute_ok]
  cases addAttr st._node_attributes ((num b.1 : Int) - 1) kv.1 (num kv.2) <;> rfl

theorem text_count (ds : Str) : (PTree.node "count" [gt1Tree ds]).text = ds := by
  simp [PTree.text, PTree.textList]

theorem bind_ok_self {α : Type} (x : M α) : (x >>= fun a => Except.ok a) = x := by cases x <;> rfl

/-- a `for` loop whose body never breaks is a monadic fold -/
theorem forIn_map_yield {α β σ : Type} (xs : List α) (g : α → β) (body : β → σ → M (ForInStep σ))
    (step : σ → α → M σ) (st : σ)
    (h : ∀ x ∈ xs, ∀ s, body (g x) s = (step s x >>= fun s' => .ok (ForInStep.yield s'))) :
    forIn (xs.map g) st body = xs.foldlM step st := by
  induction xs generalizing st with
  | nil => rfl
  | cons x xs ih =>
    simp only [List.map_cons, List.forIn_cons, List.foldlM_cons, h x (by simp)]
    cases hx : step st x with
    | error e => rfl
    | ok s' =>
      simp only [ok_bind]
      exact ih s' (fun y hy => h y (by simp [hy]))

theorem foldlM_ok {α σ : Type} (xs : List α) (step : σ → α → M σ) (f : σ → α → σ) (st : σ)
    (h : ∀ x ∈ xs, ∀ s, step s x = .ok (f s x)) : xs.foldlM step st = .ok (xs.foldl f st) := by
  induction xs generalizing st with
  | nil => rfl
  | cons x xs ih =>
    simp only [List.foldlM_cons, h x (by simp), ok_bind, List.foldl_cons]
    exact ih _ (fun y hy => h y (by simp [hy]))

/-- `_parse_sum_formula` on a `with_carbon` / `without_carbon` node -/
theorem _parse_sum_formula_ok (env : DepEnv) (st : TucanListenerImpl) (r : String) (par : Option PTree)
    (f : List (Str × Option Str)) (hs : ∀ p ∈ f, p.1 ∈ periodicTable)
    (hc : ∀ p ∈ f, ∀ ds, p.2 = some ds → NumWf ds) :
    TucanListenerImpl._parse_sum_formula env st ⟨.node r (f.map elemTree), par⟩ =
      .ok { st with _atoms := st._atoms ++ (expand f).map baseAttrs } := by
  have fold : ∀ (f : List (Str × Option Str)) (st : TucanListenerImpl),
      f.foldl (fun (s : TucanListenerImpl) p => { s with _atoms := s._atoms ++ List.replicate (countOf p.2) (baseAttrs p.1) }) st =
        { st with _atoms := st._atoms ++ (expand f).map baseAttrs } := by
    intro f
    induction f with
    | nil => intro st; simp [expand]
    | cons p f ih => intro st; simp [ih, expand]
  unfold TucanListenerImpl._parse_sum_formula
  by_cases h0 : f = []
  · subst h0; simp [PCtx.getChildCount, PTree.kids, pyEq, PyCmp.eq, expand]
  · have : ¬ ((f.length : Int) = 0) := by
      intro h; apply h0; exact List.length_eq_zero_iff.mp (by exact_mod_cast h)
    simp only [PCtx.getChildCount, PTree.kids, pyEq, PyCmp.eq, List.length_map, this, decide_false, Bool.false_eq_true, if_false,
      PCtx.children, List.map_map]
    rw [forIn_map_yield f _ _ (fun s p => .ok { s with _atoms := s._atoms ++ List.replicate (countOf p.2) (baseAttrs p.1) })]
    · rw [foldlM_ok _ _ _ _ (fun _ _ _ => rfl), fold]; rfl
    · rintro ⟨sym, cnt⟩ hp s
      have hsym := hs _ hp
      cases cnt with
      | none =>
        have := _add_atoms_ok env s sym 1 hsym
        simp only [Nat.cast_one] at this
        simp [elemTree, PCtx.getChild, PTree.kids, PCtx.getText, PTree.text, pyGt, PyCmp.gt, POrd.lt, this, countOf]
      | some ds =>
        have hn := hc _ hp ds rfl
        have := _add_atoms_ok env s sym (num ds) hsym
        simp [elemTree, PCtx.getChild, PTree.kids, PCtx.getText, pyGt, PyCmp.gt, POrd.lt,
          _to_int_ok env ds hn, this, PTree.text, PTree.textList, countOf]

theorem enterWith_carbon_ok (env : DepEnv) (st : TucanListenerImpl) (ctx : PCtx) :
    TucanListenerImpl.enterWith_carbon env st ctx = TucanListenerImpl._parse_sum_formula env st ctx := by
  unfold TucanListenerImpl.enterWith_carbon
  exact bind_ok_self _
theorem enterWithout_carbon_ok (env : DepEnv) (st : TucanListenerImpl) (ctx : PCtx) :
    TucanListenerImpl.enterWithout_carbon env st ctx = TucanListenerImpl._parse_sum_formula env st ctx := by
  unfold TucanListenerImpl.enterWithout_carbon
  exact bind_ok_self _

/-! ### the tree walk -/

abbrev L := TucanListenerImpl

theorem dispatch_inert (env : DepEnv) (st : L) (r : String) (cs : List PTree) (par : Option PTree)
    (h : r ∉ otherRules) : TucanListenerImpl.dispatchEnter env st ⟨.node r cs, par⟩ = .ok st := by
  simp only [otherRules, List.mem_cons, List.not_mem_nil, or_false, not_or] at h
  unfold TucanListenerImpl.dispatchEnter
  simp only [PTree.rule]
  split <;> simp_all

mutual
def inert : PTree → Bool
  | .node r cs => decide (r ∉ otherRules) && inertList cs
  | .tok _ => true
def inertList : List PTree → Bool
  | [] => true
  | t :: ts => inert t && inertList ts
end

mutual
theorem walk_inert (env : DepEnv) (par : Option PTree) (t : PTree) (st : L) (h : inert t = true) :
    PTree.walk (TucanListenerImpl.dispatchEnter env) par t st = .ok st := by
  match t with
  | .tok _ => simp [PTree.walk]
  | .node r cs =>
    simp only [inert, Bool.and_eq_true, decide_eq_true_eq] at h
    simp only [PTree.walk, dispatch_inert env st r cs par h.1, ok_bind]
    exact walkList_inert env _ cs st h.2
theorem walkList_inert (env : DepEnv) (par : Option PTree) (ts : List PTree) (st : L) (h : inertList ts = true) :
    PTree.walkList (TucanListenerImpl.dispatchEnter env) par ts st = .ok st := by
  match ts with
  | [] => simp [PTree.walkList]
  | t :: ts =>
    simp only [inertList, Bool.and_eq_true] at h
    simp only [PTree.walkList, walk_inert env par t st h.1, ok_bind]
    exact walkList_inert env par ts st h.2
end

theorem walkList_append {σ : Type} (enter : σ → PCtx → M σ) (par : Option PTree) (l1 l2 : List PTree) (st : σ) :
    PTree.walkList enter par (l1 ++ l2) st = (PTree.walkList enter par l1 st >>= PTree.walkList enter par l2) := by
  induction l1 generalizing st with
  | nil => simp [PTree.walkList]
  | cons t ts ih =>
    simp only [List.cons_append, PTree.walkList]
    cases PTree.walk enter par t st with
    | error e => rfl
    | ok s => simp only [ok_bind]; exact ih s

theorem walkList_map {σ α : Type} (enter : σ → PCtx → M σ) (par : Option PTree) (xs : List α) (g : α → PTree)
    (step : σ → α → M σ) (st : σ) (h : ∀ x ∈ xs, ∀ s, PTree.walk enter par (g x) s = step s x) :
    PTree.walkList enter par (xs.map g) st = xs.foldlM step st := by
  induction xs generalizing st with
  | nil => simp [PTree.walkList]
  | cons x xs ih =>
    simp only [List.map_cons, PTree.walkList, List.foldlM_cons, h x (by simp)]
    cases step st x with
    | error e => rfl
    | ok s => simp only [ok_bind]; exact ih s (fun y hy => h y (by simp [hy]))


/-! ### the walk over `treeOf a` -/

theorem inert_gt0Tree (ds : Str) : inert (gt0Tree ds) = true := by
  unfold gt0Tree; split <;> simp [inert, inertList, gt1Tree, otherRules]
theorem inert_indexTree (ds : Str) : inert (indexTree ds) = true := by
  simp [indexTree, inert, inertList, inert_gt0Tree, otherRules]
theorem inert_elemTree (p : Str × Option Str) (h : p.1 ∈ periodicTable) : inert (elemTree p) = true := by
  have := elemRule_other p.1 h
  obtain ⟨sym, cnt⟩ := p
  cases cnt <;> simp_all [elemTree, inert, inertList, gt1Tree, otherRules]
theorem inertList_elems (f : List (Str × Option Str)) (h : ∀ p ∈ f, p.1 ∈ periodicTable) :
    inertList (f.map elemTree) = true := by
  induction f with
  | nil => rfl
  | cons p f ih =>
    simp [inertList, inert_elemTree p (h p (by simp)), ih (fun q hq => h q (by simp [hq]))]

theorem walk_formula (env : DepEnv) (par : Option PTree) (st : L) (f : List (Str × Option Str))
    (hs : ∀ p ∈ f, p.1 ∈ periodicTable) (hc : ∀ p ∈ f, ∀ ds, p.2 = some ds → NumWf ds) :
    PTree.walk (TucanListenerImpl.dispatchEnter env) par (formulaTree f) st =
      .ok { st with _atoms := st._atoms ++ (expand f).map baseAttrs } := by
  unfold formulaTree
  rw [PTree.walk, dispatch_inert env st _ _ _ (by decide)]
  simp only [ok_bind, PTree.walkList, PTree.walk]
  have hd : ∀ p, TucanListenerImpl.dispatchEnter env st
      ⟨.node (if f.head?.map Prod.fst = some py!"C" then "with_carbon" else "without_carbon") (f.map elemTree), p⟩ =
      .ok { st with _atoms := st._atoms ++ (expand f).map baseAttrs } := by
    intro p
    split
    · simp [TucanListenerImpl.dispatchEnter, PTree.rule, TucanListenerImpl.enterWith_carbon, _parse_sum_formula_ok env st _ _ f hs hc]
    · simp [TucanListenerImpl.dispatchEnter, PTree.rule, TucanListenerImpl.enterWithout_carbon, _parse_sum_formula_ok env st _ _ f hs hc]
  rw [hd]
  simp only [ok_bind, walkList_inert env _ _ _ (inertList_elems f hs)]
  rfl

def tupleStep (st : L) (t : Str × Str) : M L :=
  if num t.1 = num t.2 then .error TPE
  else .ok { st with _bonds := st._bonds ++ [((num t.1 : Int) - 1, (num t.2 : Int) - 1)] }

theorem walk_tuple (env : DepEnv) (par : Option PTree) (st : L) (t : Str × Str) (h1 : NumWf t.1) (h2 : NumWf t.2) :
    PTree.walk (TucanListenerImpl.dispatchEnter env) par (tupleTree t) st = tupleStep st t := by
  have hd : TucanListenerImpl.dispatchEnter env st ⟨tupleTree t, par⟩ = tupleStep st t := by
    unfold tupleStep
    rw [← enterTuple_ok env st t par h1 h2]
    simp [TucanListenerImpl.dispatchEnter, tupleTree, PTree.rule]
  have hi : inertList [.tok py!"(", indexTree t.1, .tok py!"-", indexTree t.2, .tok py!")"] = true := by
    simp [inertList, inert, inert_indexTree]
  show PTree.walk _ par (.node "tuple" _) st = _
  rw [PTree.walk]
  change (TucanListenerImpl.dispatchEnter env st ⟨tupleTree t, par⟩ >>= _) = _
  rw [hd]
  cases tupleStep st t with
  | error e => rfl
  | ok s => simp only [ok_bind]; exact walkList_inert env _ _ s hi

def propStep (idx : Str) (st : L) (kv : Key × Str) : M L :=
  addAttr st._node_attributes ((num idx : Int) - 1) kv.1 (num kv.2) >>= fun d => .ok { st with _node_attributes := d }

theorem walk_prop (env : DepEnv) (st : L) (b : Str × List (Key × Str)) (kv : Key × Str)
    (h1 : NumWf b.1) (h2 : NumWf kv.2) :
    PTree.walk (TucanListenerImpl.dispatchEnter env) (some (attrTree b)) (propTree kv) st = propStep b.1 st kv := by
  have hd : TucanListenerImpl.dispatchEnter env st ⟨propTree kv, some (attrTree b)⟩ = propStep b.1 st kv := by
    unfold propStep
    rw [← enterNode_property_ok env st b kv h1 h2]
    simp [TucanListenerImpl.dispatchEnter, propTree, PTree.rule]
  have hi : inertList [.node "node_property_key" [.tok kv.1.text], .tok py!"=", .node "node_property_value" [gt0Tree kv.2]] = true := by
    simp [inertList, inert, inert_gt0Tree, otherRules]
  show PTree.walk _ _ (.node "node_property" _) st = _
  rw [PTree.walk]
  change (TucanListenerImpl.dispatchEnter env st ⟨propTree kv, some (attrTree b)⟩ >>= _) = _
  rw [hd]
  cases propStep b.1 st kv with
  | error e => rfl
  | ok s => simp only [ok_bind]; exact walkList_inert env _ _ s hi

def blockStep (st : L) (b : Str × List (Key × Str)) : M L := b.2.foldlM (propStep b.1) st

theorem walkList_sepProps (env : DepEnv) (st : L) (b : Str × List (Key × Str)) (kvs : List (Key × Str))
    (h1 : NumWf b.1) (h2 : ∀ kv ∈ kvs, NumWf kv.2) :
    PTree.walkList (TucanListenerImpl.dispatchEnter env) (some (attrTree b)) (sepProps kvs) st =
      kvs.foldlM (propStep b.1) st := by
  have tail : ∀ (kvs : List (Key × Str)) (st : L), (∀ kv ∈ kvs, NumWf kv.2) →
      PTree.walkList (TucanListenerImpl.dispatchEnter env) (some (attrTree b))
        (kvs.flatMap (fun kv => [.tok py!",", propTree kv])) st = kvs.foldlM (propStep b.1) st := by
    intro kvs
    induction kvs with
    | nil => intro st _; simp [PTree.walkList]
    | cons kv kvs ih =>
      intro st h
      simp only [List.flatMap_cons, List.cons_append, List.nil_append, PTree.walkList, PTree.walk, ok_bind, pure_eq_ok,
        walk_prop env st b kv h1 (h kv (by simp)), List.foldlM_cons]
      cases propStep b.1 st kv with
      | error e => rfl
      | ok s => simp only [ok_bind]; exact ih s (fun q hq => h q (by simp [hq]))
  cases kvs with
  | nil => simp [sepProps, PTree.walkList]
  | cons kv kvs =>
    simp only [sepProps, PTree.walkList, walk_prop env st b kv h1 (h2 kv (by simp)), List.foldlM_cons]
    cases propStep b.1 st kv with
    | error e => rfl
    | ok s => simp only [ok_bind]; exact tail kvs s (fun q hq => h2 q (by simp [hq]))

theorem walk_attr (env : DepEnv) (par : Option PTree) (st : L) (b : Str × List (Key × Str))
    (h1 : NumWf b.1) (h2 : ∀ kv ∈ b.2, NumWf kv.2) :
    PTree.walk (TucanListenerImpl.dispatchEnter env) par (attrTree b) st = blockStep st b := by
  show PTree.walk _ par (.node "node_attribute" _) st = _
  rw [PTree.walk, dispatch_inert env st _ _ _ (by decide)]
  simp only [ok_bind, pure_eq_ok, List.cons_append, List.nil_append, PTree.walkList, PTree.walk, walk_inert env _ _ _ (inert_indexTree b.1)]
  rw [walkList_append]
  change (PTree.walkList _ (some (attrTree b)) _ _ >>= _) = _
  rw [walkList_sepProps env st b b.2 h1 h2]
  unfold blockStep
  cases List.foldlM (propStep b.1) st b.2 with
  | error e => rfl
  | ok s => simp [PTree.walkList, PTree.walk]

/-- the listener state after the walk, as a fold over the abstract syntax -/
def walkSpec (a : Ast) : M L := do
  let st1 : L := { _atoms := (expand a.formula).map baseAttrs }
  let st2 ← a.tuples.foldlM tupleStep st1
  a.blocks.foldlM blockStep st2

theorem walk_treeOf (env : DepEnv) (a : Ast) (hs : ∀ p ∈ a.formula, p.1 ∈ periodicTable) (h : a.Wf) :
    PTree.walk (TucanListenerImpl.dispatchEnter env) Option.none (treeOf a) {} = walkSpec a := by
  have d1 := fun st par cs => dispatch_inert env st "tucan" cs par (by decide)
  have d2 := fun st par cs => dispatch_inert env st "tuples" cs par (by decide)
  have d3 := fun st par cs => dispatch_inert env st "node_attributes" cs par (by decide)
  have wt := fun par st => walkList_map (TucanListenerImpl.dispatchEnter env) par a.tuples tupleTree tupleStep st
    (fun t ht s => walk_tuple env _ s t (h.tuples t ht).1 (h.tuples t ht).2)
  unfold treeOf walkSpec Ast.blocks
  simp only [d1, d2, ok_bind, pure_eq_ok, List.cons_append, List.nil_append, PTree.walkList, PTree.walk,
    walk_formula env _ _ a.formula hs (fun p hp ds hds => (h.counts p hp ds hds).1), wt]
  cases List.foldlM tupleStep _ a.tuples with
  | error e => rfl
  | ok s =>
    simp only [ok_bind]
    cases ha : a.attrs with
    | none => simp [PTree.walkList, PTree.walk]
    | some bs =>
      have wa := fun par st => walkList_map (TucanListenerImpl.dispatchEnter env) par bs attrTree blockStep st
        (fun b hb s => walk_attr env _ s b (h.attrs bs ha b hb).1 (h.attrs bs ha b hb).2)
      simp only [List.cons_append, List.nil_append, PTree.walkList, PTree.walk, ok_bind, pure_eq_ok, d3, wa,
        Option.getD_some]
      cases List.foldlM blockStep s bs <;> rfl

/-! ### the listener state after the walk -/

def bondsOf (ts : List (Str × Str)) : List (Int × Int) := ts.map (fun t => ((num t.1 : Int) - 1, (num t.2 : Int) - 1))

theorem fold_tupleStep (ts : List (Str × Str)) (st : L) :
    ts.foldlM tupleStep st =
      if ∃ t ∈ ts, num t.1 = num t.2 then .error TPE else .ok { st with _bonds := st._bonds ++ bondsOf ts } := by
  induction ts generalizing st with
  | nil => simp [bondsOf]
  | cons t ts ih =>
    simp only [List.foldlM_cons, tupleStep]
    by_cases h : num t.1 = num t.2
    · simp [h]
    · have e : (∃ t' ∈ t :: ts, num t'.1 = num t'.2) ↔ (∃ t' ∈ ts, num t'.1 = num t'.2) := by simp [h]
      simp only [h, if_false, ok_bind, ih, e, bondsOf, List.map_cons, List.append_assoc, List.singleton_append]

/-- attribute settings with 0-based atom index, as the listener sees them -/
def settings0 (bs : List (Str × List (Key × Str))) : List ((Int × Key) × Int) :=
  bs.flatMap (fun b => b.2.map (fun kv => (((num b.1 : Int) - 1, kv.1), (num kv.2 : Int))))

def setStep (d : Dict Int Attrs) (s : (Int × Key) × Int) : M (Dict Int Attrs) := addAttr d s.1.1 s.1.2 s.2

theorem fold_blockStep (bs : List (Str × List (Key × Str))) (st : L) :
    bs.foldlM blockStep st =
      ((settings0 bs).foldlM setStep st._node_attributes >>= fun d => .ok { st with _node_attributes := d }) := by
  have inner : ∀ (idx : Str) (kvs : List (Key × Str)) (st : L),
      kvs.foldlM (propStep idx) st =
        ((kvs.map (fun kv => (((num idx : Int) - 1, kv.1), (num kv.2 : Int)))).foldlM setStep st._node_attributes >>=
          fun d => .ok { st with _node_attributes := d }) := by
    intro idx kvs
    induction kvs with
    | nil => intro st; rfl
    | cons kv kvs ih =>
      intro st
      simp only [List.foldlM_cons, List.map_cons, propStep, setStep]
      cases addAttr st._node_attributes ((num idx : Int) - 1) kv.1 (num kv.2) with
      | error e => rfl
      | ok d => simp only [ok_bind]; rw [ih]
  induction bs generalizing st with
  | nil => rfl
  | cons b bs ih =>
    simp only [List.foldlM_cons, blockStep, settings0, List.flatMap_cons, List.foldlM_append, inner]
    cases List.foldlM setStep st._node_attributes (b.2.map (fun kv => (((num b.1 : Int) - 1, kv.1), (num kv.2 : Int)))) with
    | error e => rfl
    | ok d => simp only [ok_bind]; rw [ih]; rfl

theorem assoc_eq_lookup {κ ν : Type} [DecidableEq κ] (l : List (κ × ν)) (k : κ) : assoc l k = List.lookup k l := by
  induction l with
  | nil => rfl
  | cons p l ih =>
    obtain ⟨a, b⟩ := p
    rw [lookup_cons', ← ih]
    unfold assoc
    by_cases h : a = k
    · simp [h]
    · have : ¬ k = a := fun e => h e.symm
      simp [h, this]

theorem Key.attr_inj {k k' : Key} (h : k.attr = k'.attr) : k = k' := by
  cases k <;> cases k' <;> first | rfl | (exact absurd h (by decide))

/-- what the dict of dicts `d` has to do with the list `P` of settings made so far -/
structure AttrInv (d : Dict Int Attrs) (P : List ((Int × Key) × Int)) : Prop where
  wf : d.WF
  vwf : ∀ i a, d.get? i = some a → a.WF
  get : ∀ i (k : Key), (d.get? i).bind (·.get? k.attr) = (assoc P (i, k)).map Val.int
  onlyKeys : ∀ i a s, d.get? i = some a → a.get? s ≠ none → ∃ k : Key, s = k.attr
  keys : ∀ i, i ∈ d.keys ↔ ∃ s ∈ P, s.1.1 = i

theorem AttrInv.empty : AttrInv Dict.empty [] where
  wf := Dict.WF_empty
  vwf := by intro i a h; simp at h
  get := by intro i k; simp [assoc]
  onlyKeys := by intro i a s h; simp at h
  keys := by intro i; simp

theorem addAttr_inv (d : Dict Int Attrs) (P : List ((Int × Key) × Int)) (i : Int) (k : Key) (v : Int)
    (hinv : AttrInv d P) :
    ((i, k) ∈ P.map Prod.fst → addAttr d i k v = .error TPE) ∧
    ((i, k) ∉ P.map Prod.fst → ∃ d', addAttr d i k v = .ok d' ∧ AttrInv d' (P ++ [((i, k), v)])) := by
  have hsd : ∀ s, (Dict.getD d i (Dict.empty : Attrs)).get? s = (d.get? i).bind (·.get? s) := by
    intro s; unfold Dict.getD; cases d.get? i <;> simp
  have hsdwf : (Dict.getD d i (Dict.empty : Attrs)).WF := by
    unfold Dict.getD
    cases h : d.get? i with
    | none => simp
    | some a => exact hinv.vwf i a h
  have hc : (Dict.getD d i (Dict.empty : Attrs)).contains k.attr = true ↔ (i, k) ∈ P.map Prod.fst := by
    unfold Dict.contains
    rw [hsd, hinv.get, Option.isSome_map, assoc_eq_lookup, lookup_isSome_iff]
  constructor
  · intro hm
    simp [addAttr, hc.mpr hm]
  · intro hm
    have hc' : ¬ (Dict.getD d i (Dict.empty : Attrs)).contains k.attr = true := fun h => hm (hc.mp h)
    refine ⟨(d.set i (Dict.getD d i Dict.empty)).set i ((Dict.getD d i Dict.empty).set k.attr (Val.int v)),
      by simp [addAttr, hc'], ?_⟩
    have hget : ∀ i', ((d.set i (Dict.getD d i Dict.empty)).set i ((Dict.getD d i Dict.empty).set k.attr (Val.int v))).get? i' =
        if i' = i then some ((Dict.getD d i (Dict.empty : Attrs)).set k.attr (Val.int v)) else d.get? i' := by
      intro i'
      rw [Dict.get?_set]
      split
      · rfl
      · rename_i h; rw [Dict.get?_set, if_neg h]
    refine ⟨Dict.WF_set (Dict.WF_set hinv.wf _ _) _ _, ?_, ?_, ?_, ?_⟩
    · intro i' a h
      rw [hget] at h
      split at h
      · cases h; exact Dict.WF_set hsdwf _ _
      · exact hinv.vwf i' a h
    · intro i' k'
      have hg := hinv.get i' k'
      rw [hget, assoc_eq_lookup, lookup_append', ← assoc_eq_lookup, lookup_cons']
      by_cases hi : i' = i
      · subst hi
        simp only [if_true, Option.bind_some, Dict.get?_set]
        by_cases hk : k' = k
        · subst hk
          have : assoc P (i', k') = none := by rw [assoc_eq_lookup, lookup_eq_none_iff']; exact hm
          simp [this]
        · have : k'.attr ≠ k.attr := fun h => hk (Key.attr_inj h)
          rw [if_neg this, hsd, hg]
          simp [hk]
      · rw [if_neg hi, hg]; simp [hi]
    · intro i' a s h hs
      rw [hget] at h
      split at h
      · cases h
        rw [Dict.get?_set] at hs
        split at hs
        · exact ⟨k, by assumption⟩
        · rw [hsd] at hs
          cases hd : d.get? i with
          | none => simp [hd] at hs
          | some a' => rw [hd] at hs; exact hinv.onlyKeys i a' s hd hs
      · exact hinv.onlyKeys i' a s h hs
    · intro i'
      rw [Dict.mem_keys_set, Dict.mem_keys_set, hinv.keys]
      simp only [List.mem_append, List.mem_singleton]
      constructor
      · rintro (h | h | ⟨s, hs, rfl⟩)
        · exact ⟨_, Or.inr rfl, h.symm⟩
        · exact ⟨_, Or.inr rfl, h.symm⟩
        · exact ⟨s, Or.inl hs, rfl⟩
      · rintro ⟨s, hs | rfl, rfl⟩
        · exact Or.inr (Or.inr ⟨s, hs, rfl⟩)
        · exact Or.inl rfl

theorem fold_setStep (Q P : List ((Int × Key) × Int)) (d : Dict Int Attrs) (hinv : AttrInv d P) :
    (¬ ((P ++ Q).map Prod.fst).Nodup → (P.map Prod.fst).Nodup → Q.foldlM setStep d = .error TPE) ∧
    (((P ++ Q).map Prod.fst).Nodup → ∃ d', Q.foldlM setStep d = .ok d' ∧ AttrInv d' (P ++ Q)) := by
  induction Q generalizing P d with
  | nil =>
    simp only [List.append_nil]
    exact ⟨fun h h' => absurd h' h, fun _ => ⟨d, rfl, hinv⟩⟩
  | cons s Q ih =>
    obtain ⟨⟨i, k⟩, v⟩ := s
    have step := addAttr_inv d P i k v hinv
    have eapp : P ++ ((i, k), v) :: Q = (P ++ [((i, k), v)]) ++ Q := by simp
    simp only [List.foldlM_cons, setStep]
    by_cases hm : (i, k) ∈ P.map Prod.fst
    · constructor
      · intro _ _; rw [step.1 hm]; rfl
      · intro hnd
        exfalso
        simp only [List.map_append, List.map_cons] at hnd
        rw [List.nodup_append] at hnd
        exact hnd.2.2 _ hm _ (by simp) rfl
    · obtain ⟨d', hd', hinv'⟩ := step.2 hm
      rw [hd', eapp]
      simp only [ok_bind]
      have hP' : ((P ++ [((i, k), v)]).map Prod.fst).Nodup → True := fun _ => trivial
      constructor
      · intro hnd hP
        refine (ih _ d' hinv').1 hnd ?_
        simp only [List.map_append, List.map_cons, List.map_nil]
        rw [List.nodup_append]
        refine ⟨hP, by simp, ?_⟩
        intro x hx y hy
        simp at hy; subst hy
        rintro rfl; exact hm hx
      · intro hnd
        exact (ih _ d' hinv').2 hnd


def shift (p : Nat × Key) : Int × Key := ((p.1 : Int) - 1, p.2)
theorem shift_inj : Function.Injective shift := by
  rintro ⟨a, k⟩ ⟨b, k'⟩ h
  simp only [shift, Prod.mk.injEq] at h
  obtain ⟨h1, rfl⟩ := h
  have : a = b := by omega
  subst this; rfl

theorem settings0_eq (a : Ast) :
    settings0 a.blocks = a.settings.map (fun s => (shift s.1, (s.2 : Int))) := by
  simp [settings0, Ast.settings, List.map_flatMap, shift, Function.comp_def]

theorem settings0_keys (a : Ast) : (settings0 a.blocks).map Prod.fst = (a.settings.map Prod.fst).map shift := by
  simp [settings0_eq]

theorem settings0_nodup (a : Ast) : ((settings0 a.blocks).map Prod.fst).Nodup ↔ ¬ a.DupAttr := by
  rw [settings0_keys, List.nodup_map_iff shift_inj, Ast.DupAttr, not_not]

theorem selfBond_iff (a : Ast) : a.SelfBond ↔ ∃ t ∈ a.tuples, num t.1 = num t.2 := by
  simp only [Ast.SelfBond, Ast.bonds1, List.mem_map]
  constructor
  · rintro ⟨b, ⟨t, ht, rfl⟩, h⟩; exact ⟨t, ht, h⟩
  · rintro ⟨t, ht, h⟩; exact ⟨_, ⟨t, ht, rfl⟩, h⟩

theorem walkSpec_error (a : Ast) (h : a.SelfBond ∨ a.DupAttr) : walkSpec a = .error TPE := by
  unfold walkSpec
  simp only [fold_tupleStep]
  by_cases hs : a.SelfBond
  · rw [if_pos ((selfBond_iff a).mp hs)]; rfl
  · rw [if_neg (fun h' => hs ((selfBond_iff a).mpr h'))]
    have hd : a.DupAttr := h.resolve_left hs
    simp only [ok_bind, fold_blockStep]
    have := (fold_setStep (settings0 a.blocks) [] Dict.empty AttrInv.empty).1
      (by simpa [settings0_nodup] using hd) (by simp)
    show (List.foldlM setStep Dict.empty (settings0 a.blocks) >>= _) = _
    rw [this]; rfl

theorem walkSpec_ok (a : Ast) (h1 : ¬ a.SelfBond) (h2 : ¬ a.DupAttr) :
    ∃ D, walkSpec a = .ok { _atoms := (expand a.formula).map baseAttrs, _bonds := bondsOf a.tuples, _node_attributes := D } ∧
      AttrInv D (settings0 a.blocks) := by
  obtain ⟨D, hD, hinv⟩ := (fold_setStep (settings0 a.blocks) [] Dict.empty AttrInv.empty).2
    (by simpa [settings0_nodup] using h2)
  refine ⟨D, ?_, by simpa using hinv⟩
  unfold walkSpec
  simp only [fold_tupleStep]
  rw [if_neg (fun h' => h1 ((selfBond_iff a).mpr h'))]
  simp only [ok_bind, fold_blockStep]
  show (List.foldlM setStep Dict.empty (settings0 a.blocks) >>= _) = _
  rw [hD]; rfl

/-! ### `to_graph` -/

theorem _validate_atom_index_ok (env : DepEnv) (st : L) (idx : Int) :
    TucanListenerImpl._validate_atom_index env st idx =
      if idx < st._atoms.length then .ok () else .error TPE := by
  unfold TucanListenerImpl._validate_atom_index
  by_cases h : idx < st._atoms.length
  · simp [pyGe, PyCmp.lt, POrd.lt, h]
  · simp [pyGe, PyCmp.lt, POrd.lt, h, TPE]

/-- a checking loop -/
theorem forIn_check {α : Type} (xs : List α) (body : α → PUnit → M (ForInStep PUnit)) (good : α → Prop)
    [DecidablePred good] (e : Err)
    (h : ∀ x ∈ xs, body x PUnit.unit = if good x then .ok (ForInStep.yield PUnit.unit) else .error e) :
    forIn xs PUnit.unit body = if ∀ x ∈ xs, good x then .ok PUnit.unit else .error e := by
  induction xs with
  | nil => simp
  | cons x xs ih =>
    simp only [List.forIn_cons, h x (by simp)]
    by_cases hx : good x
    · simp only [hx, if_true, ok_bind, ih (fun y hy => h y (by simp [hy]))]
      simp [hx]
    · simp [hx]

/-- the dict `{i: h i for i in range(n)}` -/
def tab (n : Nat) (h : Int → Attrs) : Dict Int Attrs := ⟨(range n).map (fun i => (i, h i))⟩

theorem mem_range (n : Nat) (i : Int) : i ∈ range (n : Int) ↔ 0 ≤ i ∧ i < n := by
  simp only [range, Int.toNat_natCast, List.mem_map, List.mem_range]
  constructor
  · rintro ⟨a, ha, rfl⟩; simp; omega
  · rintro ⟨h0, h1⟩; exact ⟨i.toNat, by omega, by simp; omega⟩

theorem tab_keys (n : Nat) (h : Int → Attrs) : (tab n h).keys = range n := by
  simp [tab, Dict.keys, List.map_map, Function.comp_def]
theorem tab_wf (n : Nat) (h : Int → Attrs) : (tab n h).WF := by
  unfold Dict.WF; rw [tab_keys]; exact Graph.nodup_range _
theorem tab_get? (n : Nat) (h : Int → Attrs) (i : Int) :
    (tab n h).get? i = if i ∈ range (n : Int) then some (h i) else none := by
  split
  · rename_i hi
    apply Dict.get?_of_mem_items (tab_wf n h)
    simp only [tab, List.mem_map]; exact ⟨i, hi, rfl⟩
  · rename_i hi
    rw [Dict.get?_eq_none_iff, tab_keys]; exact hi
theorem tab_set (n : Nat) (h : Int → Attrs) (i : Int) (v : Attrs) (hi : i ∈ range (n : Int)) :
    (tab n h).set i v = tab n (Function.update h i v) := by
  apply Dict.ext_keys_get? (Dict.WF_set (tab_wf n h) _ _)
  · rw [Dict.keys_set_of_mem _ _ (by rw [tab_keys]; exact hi), tab_keys, tab_keys]
  · intro k
    rw [Dict.get?_set, tab_get?, tab_get?]
    by_cases hk : k = i
    · subst hk; simp [hi]
    · simp [hk]

/-- a loop that rewrites one entry of a `tab` per iteration, possibly rejecting -/
theorem forIn_tab {α : Type} (n : Nat) (l : List α) (key : α → Int) (G : α → Attrs → Attrs)
    (body : α → Dict Int Attrs → M (ForInStep (Dict Int Attrs))) (good : α → Prop) [DecidablePred good] (e : Err)
    (hbody : ∀ x ∈ l, ∀ h, body x (tab n h) =
      if good x then .ok (ForInStep.yield ((tab n h).set (key x) (G x (h (key x))))) else .error e)
    (hk : ∀ x ∈ l, good x → key x ∈ range (n : Int)) (h : Int → Attrs) :
    forIn l (tab n h) body =
      if ∀ x ∈ l, good x then
        .ok (tab n (l.foldl (fun h x => Function.update h (key x) (G x (h (key x)))) h))
      else .error e := by
  induction l generalizing h with
  | nil => simp
  | cons x l ih =>
    simp only [List.forIn_cons, hbody x (by simp)]
    by_cases hx : good x
    · simp only [hx, if_true, ok_bind, tab_set n h _ _ (hk x (by simp) hx)]
      rw [ih (fun y hy => hbody y (by simp [hy])) (fun y hy => hk y (by simp [hy]))]
      simp [hx]
    · simp [hx]

theorem foldl_update_nodup {α : Type} (l : List α) (key : α → Int) (G : α → Attrs → Attrs)
    (hn : (l.map key).Nodup) (h : Int → Attrs) (i : Int) :
    (l.foldl (fun h x => Function.update h (key x) (G x (h (key x)))) h) i =
      match l.find? (fun x => key x = i) with
      | some x => G x (h i)
      | none => h i := by
  induction l generalizing h with
  | nil => rfl
  | cons x l ih =>
    simp only [List.map_cons, List.nodup_cons] at hn
    rw [List.foldl_cons, ih hn.2]
    by_cases hx : key x = i
    · subst hx
      have : l.find? (fun y => key y = key x) = none := by
        rw [List.find?_eq_none]; intro y hy; simp; intro he; exact hn.1 (he ▸ List.mem_map_of_mem hy)
      simp [this]
    · simp only [List.find?_cons, hx, decide_false]
      cases l.find? (fun y => key y = i) with
      | none => simp [Function.update, Ne.symm hx]
      | some y => simp [Function.update, Ne.symm hx]

theorem mapM_ok {α β : Type} (xs : List α) (f : α → M β) (g : α → β) (h : ∀ x ∈ xs, f x = .ok (g x)) :
    xs.mapM f = .ok (xs.map g) := by
  induction xs with
  | nil => rfl
  | cons x xs ih =>
    rw [List.mapM_cons, h x (by simp), ih (fun y hy => h y (by simp [hy]))]
    rfl

def byZ (x y : Str) : Bool := decide (atomicNumber x ≤ atomicNumber y)

theorem baseAttrs_Z (s : Str) : (baseAttrs s).get? "atomic_number" = some (Val.int (atomicNumber s)) := by
  rfl

theorem sorted_atoms_ok (syms : List Str) :
    sortedByKeyM (syms.map baseAttrs) (fun a => (getItem a "atomic_number" : M Val)) =
      .ok ((syms.mergeSort byZ).map baseAttrs) := by
  unfold sortedByKeyM
  have hm : (syms.map baseAttrs).mapM (fun a => (getItem a "atomic_number" : M Val)) =
      .ok ((syms.map baseAttrs).map (fun a => (a.get? "atomic_number").getD Val.none)) := by
    apply mapM_ok
    intro a ha
    obtain ⟨s, _, rfl⟩ := List.mem_map.mp ha
    exact getItem_dict_ok _ _ _ (baseAttrs_Z s)
  rw [hm]
  simp only [ok_bind, pure_eq_ok, List.map_map]
  congr 1
  have hz : List.zip (syms.map ((fun a => (Dict.get? a "atomic_number").getD Val.none) ∘ baseAttrs)) (syms.map baseAttrs) =
      syms.map (fun s => (Val.int (atomicNumber s), baseAttrs s)) := by
    rw [List.zip_map']
    apply List.map_congr_left
    intro s _
    simp [baseAttrs_Z]
  rw [hz, ← List.map_mergeSort (r := byZ) (f := fun s => (Val.int (atomicNumber s), baseAttrs s))]
  · simp [List.map_map, Function.comp_def]
  · intro a _ b _
    simp only [byZ, POrd.lt, Val.lt, Sc.lt]
    by_cases h : atomicNumber a ≤ atomicNumber b
    · simp [h, Int.not_lt.mpr h]
    · simp [h, Int.not_le.mp h]

theorem listGet_ok {α : Type} (l : List α) (i : Int) (x : α) (h0 : 0 ≤ i) (h : l[i.toNat]? = some x) :
    (getItem l i : M α) = .ok x := by
  show listGet l i = _
  unfold listGet normIndex
  have : ¬ i < 0 := by omega
  simp [this, h]

theorem atoms_dict_ok (sorted : List Attrs) :
    listComp (range (pyLen sorted)) (fun i => do let x ← (getItem sorted i : M Attrs); pure (some (i, x))) =
      .ok ((range (sorted.length : Int)).map (fun i => (i, (sorted[i.toNat]?).getD Dict.empty))) := by
  rw [listComp_ok _ _ (fun i => some (i, (sorted[i.toNat]?).getD Dict.empty))]
  · simp [List.filterMap_eq_map']
  · intro i hi
    simp only [pyLen_list, mem_range] at hi
    have : i.toNat < sorted.length := by omega
    rw [listGet_ok sorted i sorted[i.toNat] hi.1 (by simp [this])]
    simp [this]


/-- attributes of atom `i` from the formula alone -/
def baseOf (syms : List Str) (i : Int) : Attrs := (((syms.mergeSort byZ).map baseAttrs)[i.toNat]?).getD Dict.empty
/-- ... joined with the listed attributes -/
def joined (syms : List Str) (D : Dict Int Attrs) (i : Int) : Attrs :=
  (baseOf syms i).update ((D.get? i).getD Dict.empty)

theorem to_graph_eq (env : DepEnv) (syms : List Str) (bonds : List (Int × Int)) (D : Dict Int Attrs)
    (hD : D.WF) (hD0 : ∀ i ∈ D.keys, 0 ≤ i) :
    TucanListenerImpl.to_graph env { _atoms := syms.map baseAttrs, _bonds := bonds, _node_attributes := D } =
      if (∀ b ∈ bonds, b.1 < syms.length ∧ b.2 < syms.length) ∧ (∀ p ∈ D.items, p.1 < (syms.length : Int)) then
        (Tucan.graph_utils.graph_from_molecule env (tab syms.length (joined syms D))
          (Dict.ofPairs (bonds.map (fun b => (b, (Dict.empty : Attrs))))) >>= fun r => .ok r.1)
      else .error TPE := by
  unfold TucanListenerImpl.to_graph
  simp only [pyIter_list]
  rw [forIn_check bonds _ (fun b => b.1 < (syms.length : Int) ∧ b.2 < (syms.length : Int)) TPE]
  swap
  · rintro ⟨i1, i2⟩ _
    simp only [_validate_atom_index_ok, List.length_map]
    by_cases h1 : i1 < (syms.length : Int) <;> by_cases h2 : i2 < (syms.length : Int) <;> simp [h1, h2]
  by_cases hb : ∀ b ∈ bonds, b.1 < (syms.length : Int) ∧ b.2 < (syms.length : Int)
  swap
  · rw [if_neg hb, if_neg (fun h => hb h.1)]; rfl
  rw [if_pos hb]
  have hT : Dict.ofPairs ((range (((syms.mergeSort byZ).map baseAttrs).length : Int)).map
      (fun i => (i, ((((syms.mergeSort byZ).map baseAttrs))[i.toNat]?).getD Dict.empty))) =
      tab syms.length (baseOf syms) := by
    rw [Dict.ofPairs_of_nodup _ (by simp only [List.map_map, Function.comp_def, List.map_id']; exact Graph.nodup_range _)]
    simp [tab, baseOf]
  have hB : listComp bonds (fun bond => (pure (some (bond, (Dict.empty : Attrs))) : M (Option ((Int × Int) × Attrs)))) =
      .ok (bonds.map (fun b => (b, (Dict.empty : Attrs)))) := by
    refine (listComp_ok _ _ (fun b => some (b, (Dict.empty : Attrs))) (fun _ _ => rfl)).trans ?_
    simp [List.filterMap_eq_map']
  simp only [ok_bind, sorted_atoms_ok, atoms_dict_ok, hT, hB]
  rw [forIn_tab syms.length D.items Prod.fst (fun p a => a.update p.2) _ (fun p => p.1 < (syms.length : Int)) TPE]
  · by_cases hd : ∀ p ∈ D.items, p.1 < (syms.length : Int)
    · rw [if_pos hd, if_pos ⟨hb, hd⟩]
      simp only [ok_bind]
      have hf : (D.items.foldl (fun h (x : Int × Attrs) => Function.update h x.1 ((h x.1).update x.2)) (baseOf syms)) =
          joined syms D := by
        funext i
        rw [foldl_update_nodup D.items Prod.fst (fun p a => a.update p.2) hD]
        have hl : D.get? i = assoc D.items i := (assoc_eq_lookup D.items i).symm
        unfold joined
        rw [hl]; unfold assoc
        cases D.items.find? (fun p => decide (p.1 = i)) with
        | none => rfl
        | some p => rfl
      rw [hf]; rfl
    · rw [if_neg hd, if_neg (fun h => hd h.2)]; rfl
  · rintro ⟨i, a⟩ hp h
    have h0 : 0 ≤ i := hD0 i (List.mem_map_of_mem (f := Prod.fst) hp)
    simp only [_validate_atom_index_ok, List.length_map]
    by_cases hi : i < (syms.length : Int)
    · have hr : i ∈ range (syms.length : Int) := (mem_range _ _).mpr ⟨h0, hi⟩
      have hg : (getItem (tab syms.length h) i : M Attrs) = .ok (h i) :=
        getItem_dict_ok _ _ _ (by show (tab syms.length h).get? i = _; rw [tab_get?, if_pos hr])
      simp [hi, hg]
    · simp [hi]
  · rintro ⟨i, a⟩ hp hi
    exact (mem_range _ _).mpr ⟨hD0 i (List.mem_map_of_mem (f := Prod.fst) hp), hi⟩

/-! ### `graph_from_molecule` -/

theorem tab_congr (n : Nat) (h h' : Int → Attrs) (hh : ∀ i ∈ range (n : Int), h i = h' i) : tab n h = tab n h' := by
  unfold tab; congr 1
  apply List.map_congr_left
  intro i hi; rw [hh i hi]

theorem foldl_update_mem {α : Type} (l : List α) (key : α → Int) (G : α → Attrs → Attrs)
    (hn : (l.map key).Nodup) (h : Int → Attrs) (x : α) (hx : x ∈ l) :
    (l.foldl (fun h x => Function.update h (key x) (G x (h (key x)))) h) (key x) = G x (h (key x)) := by
  rw [foldl_update_nodup l key G hn]
  cases hf : l.find? (fun y => key y = key x) with
  | none =>
    rw [List.find?_eq_none] at hf
    exact absurd (by simp) (hf x hx)
  | some y =>
    have hy := List.mem_of_find?_eq_some hf
    have hk : key y = key x := by simpa using List.find?_some hf
    rw [List.inj_on_of_nodup_map hn hy hx hk]

/-- the invariant code `(atomic_number, mass or 0, rad or 0)` -/
def codeOf (a : Attrs) : Val :=
  Val.mkTup [(a.get? "atomic_number").getD Val.none, a.getD "mass" (Val.int 0), a.getD "rad" (Val.int 0)]
def withCode (a : Attrs) : Attrs := a.update (Dict.ofPairs [("invariant_code", codeOf a)])

theorem _add_invariant_code_ok (env : DepEnv) (n : Nat) (A : Int → Attrs)
    (hz : ∀ i ∈ range (n : Int), ∃ z, (A i).get? "atomic_number" = some z) :
    Tucan.graph_utils._add_invariant_code env (tab n A)
      [{ key := "atomic_number" }, { key := "mass", default_value := some (toVal (0 : Int)) },
        { key := "rad", default_value := some (toVal (0 : Int)) }] =
      .ok (tab n (fun i => withCode (A i))) := by
  unfold Tucan.graph_utils._add_invariant_code
  have hitems : (tab n A).items = (range (n : Int)).map (fun i => (i, A i)) := rfl
  simp only [hitems]
  rw [forIn_tab n _ Prod.fst (fun p a => a.update (Dict.ofPairs [("invariant_code", codeOf p.2)])) _ (fun _ => True) Err.key]
  · simp only [implies_true, if_true, ok_bind, pure_eq_ok]
    congr 1
    apply tab_congr
    intro i hi
    have hn : (((range (n : Int)).map (fun i => (i, A i))).map Prod.fst).Nodup := by
      simp only [List.map_map, Function.comp_def, List.map_id']; exact Graph.nodup_range _
    have := foldl_update_mem _ Prod.fst (fun (p : Int × Attrs) (a : Attrs) => a.update (Dict.ofPairs [("invariant_code", codeOf p.2)]))
      hn A (i, A i) (List.mem_map.mpr ⟨i, hi, rfl⟩)
    exact this
  · rintro ⟨i, a⟩ hp h
    obtain ⟨j, hj, he⟩ := List.mem_map.mp hp
    simp only [Prod.mk.injEq] at he
    obtain ⟨rfl, rfl⟩ := he
    obtain ⟨z, hz⟩ := hz j hj
    have hg : (getItem (tab n h) j : M Attrs) = .ok (h j) :=
      getItem_dict_ok _ _ _ (by show (tab n h).get? j = _; rw [tab_get?, if_pos hj])
    have hga : (getItem (A j) "atomic_number" : M Val) = .ok z := getItem_dict_ok _ _ _ hz
    simp [listComp, isNone, hga, hg, codeOf, hz, toVal, ToVal.toVal]
  · rintro ⟨i, a⟩ hp _
    obtain ⟨j, hj, he⟩ := List.mem_map.mp hp
    simp only [Prod.mk.injEq] at he
    obtain ⟨rfl, rfl⟩ := he
    exact hj

/-- every bond carries the empty attribute dict -/
def Plain (g : Graph) : Prop := ∀ x y a, g.edgeAttrs x y = some a → a = Dict.empty

theorem plain_addEdgesFrom (g : Graph) (hg : g.WF) (hp : Plain g) (es : List (Int × Int)) :
    Plain (g.addEdgesFrom es) := by
  unfold Graph.addEdgesFrom
  induction es generalizing g with
  | nil => exact hp
  | cons e es ih =>
    rw [List.foldl_cons]
    apply ih _ (Graph.WF_addEdge hg _ _ _)
    intro x y a h
    rw [Graph.edgeAttrs_addEdge hg] at h
    split at h
    · cases h
      unfold Graph.newEdgeData
      cases hq : g.edgeAttrs e.1 e.2 with
      | none => rfl
      | some d => rw [hp _ _ d hq]; rfl
    · exact hp x y a h

theorem graph_eta (g : Graph) : ({ g with adj := g.adj } : Graph) = g := by cases g; rfl

def edgeStep (g : Graph) (p : (Int × Int) × Attrs) : Graph :=
  let (u, v) := p.1
  match g.adj.get? u with
  | Option.none => g
  | some au =>
    match au.get? v with
    | Option.none => g
    | some d =>
      let d' := d.update p.2
      let g := { g with adj := g.adj.set u (au.set v d') }
      match g.adj.get? v with
      | Option.none => g
      | some av => { g with adj := g.adj.set v (av.set u d') }

theorem setEdgeAttrDicts_eq (g : Graph) (values : Dict (Int × Int) Attrs) :
    g.setEdgeAttrDicts values = values.items.foldl edgeStep g := rfl

theorem edgeStep_plain (g : Graph) (hg : g.WF) (u v : Int) : edgeStep g ((u, v), Dict.empty) = g := by
  unfold edgeStep
  simp only
  cases hu : g.adj.get? u with
  | none => rfl
  | some au =>
    simp only
    cases hvv : au.get? v with
    | none => rfl
    | some d =>
      have hd : d.update Dict.empty = d := rfl
      have h1 : au.set v d = au := Dict.set_eq_self (hg.nbr_wf u au hu) hvv
      have h2 : g.adj.set u au = g.adj := Dict.set_eq_self hg.adj_wf hu
      simp only [hd, h1, h2]
      cases hav : g.adj.get? v with
      | none => rfl
      | some av =>
        have huv : g.edgeAttrs u v = some d := by simp [Graph.edgeAttrs, hu, hvv]
        have hvu := hg.symm u v d huv
        have h3 : av.get? u = some d := by simpa [Graph.edgeAttrs, hav] using hvu
        have h4 : av.set u d = av := Dict.set_eq_self (hg.nbr_wf v av hav) h3
        have h5 : g.adj.set v av = g.adj := Dict.set_eq_self hg.adj_wf hav
        simp only [h4, h5]

theorem setEdgeAttrDicts_plain (g : Graph) (hg : g.WF) (values : Dict (Int × Int) Attrs)
    (hv : ∀ p ∈ values.items, p.2 = Dict.empty) : g.setEdgeAttrDicts values = g := by
  rw [setEdgeAttrDicts_eq]
  generalize values.items = l at hv
  induction l with
  | nil => rfl
  | cons p l ih =>
    obtain ⟨⟨u, v⟩, e⟩ := p
    have he : e = Dict.empty := hv ((u, v), e) (by simp)
    subst he
    rw [List.foldl_cons, edgeStep_plain g hg]
    exact ih (fun q hq => hv q (by simp [hq]))


theorem mem_items_set {κ ν : Type} [DecidableEq κ] (d : Dict κ ν) (k : κ) (v : ν) (p : κ × ν)
    (h : p ∈ (d.set k v).items) : p ∈ d.items ∨ p = (k, v) := by
  unfold Dict.set at h
  split at h
  · simp only [List.mem_map] at h
    obtain ⟨q, hq, rfl⟩ := h
    split
    · exact Or.inr rfl
    · exact Or.inl hq
  · simp only [List.mem_append, List.mem_singleton] at h
    exact h

theorem mem_items_updatePairs {κ ν : Type} [DecidableEq κ] (d : Dict κ ν) (l : List (κ × ν)) (p : κ × ν)
    (h : p ∈ (d.updatePairs l).items) : p ∈ d.items ∨ p ∈ l := by
  induction l generalizing d with
  | nil => exact Or.inl h
  | cons q l ih =>
    rw [Dict.updatePairs_cons] at h
    rcases ih _ h with h | h
    · rcases mem_items_set _ _ _ _ h with h | h
      · exact Or.inl h
      · exact Or.inr (by simp [h])
    · exact Or.inr (by simp [h])

theorem graph_from_molecule_ok (env : DepEnv) (n : Nat) (A : Int → Attrs) (bonds : List (Int × Int))
    (hA : ∀ i ∈ range (n : Int), (A i).WF)
    (hz : ∀ i ∈ range (n : Int), ∃ z, (A i).get? "atomic_number" = some z)
    (hb : ∀ b ∈ bonds, b.1 ∈ range (n : Int) ∧ b.2 ∈ range (n : Int)) :
    ∃ g R, Tucan.graph_utils.graph_from_molecule env (tab n A)
        (Dict.ofPairs (bonds.map (fun b => (b, (Dict.empty : Attrs))))) = .ok (g, R) ∧
      g.WF ∧ g.nodeList = range (n : Int) ∧ (∀ i ∈ range (n : Int), g.node.get? i = some (withCode (A i))) ∧
      (∀ x y, y ∈ g.nbrs x ↔ (x, y) ∈ bonds ∨ (y, x) ∈ bonds) := by
  unfold Tucan.graph_utils.graph_from_molecule
  simp only [_add_invariant_code_ok env n A hz, ok_bind, pure_eq_ok]
  set T := tab n (fun i => withCode (A i)) with hT
  set bd : Dict (Int × Int) Attrs := Dict.ofPairs (bonds.map (fun b => (b, (Dict.empty : Attrs)))) with hbd
  have hTk : T.keys = range (n : Int) := tab_keys _ _
  rw [hTk]
  -- nodes
  have hnd : (Graph.empty.nodeList ++ range (n : Int)).Nodup := by simpa using Graph.nodup_range (n : Int)
  have w1 : (Graph.empty.addNodesFrom (range (n : Int))).WF := Graph.WF_addNodesFrom Graph.WF_empty _
  have n1 : (Graph.empty.addNodesFrom (range (n : Int))).nodeList = range (n : Int) := by
    rw [Graph.nodeList_addNodesFrom_fresh Graph.WF_empty _ hnd]; simp
  have g1 : ∀ i ∈ range (n : Int), (Graph.empty.addNodesFrom (range (n : Int))).node.get? i = some Dict.empty := by
    intro i hi
    apply Dict.get?_of_mem_items w1.node_wf
    rw [(Graph.addNodesFrom_fresh Graph.WF_empty _ hnd).1]
    simp only [Graph.empty, Dict.empty, List.nil_append, List.mem_map]
    exact ⟨i, hi, rfl⟩
  have e1 : ∀ x y, (Graph.empty.addNodesFrom (range (n : Int))).edgeAttrs x y = none := by
    intro x y
    rw [Graph.addNodesFrom_eq, Graph.edgeAttrs_addNodesFromData Graph.WF_empty]
    · rfl
    · intro p hp; obtain ⟨i, _, rfl⟩ := List.mem_map.mp hp; exact Dict.WF_empty
  -- node attributes
  set G2 := (Graph.empty.addNodesFrom (range (n : Int))).setNodeAttrDicts T with hG2
  have w2 : G2.WF := Graph.WF_setNodeAttrDicts w1 _
  have n2 : G2.nodeList = range (n : Int) := by rw [hG2, Graph.nodeList_setNodeAttrDicts, n1]
  have g2 : ∀ i ∈ range (n : Int), G2.node.get? i = some (withCode (A i)) := by
    intro i hi
    rw [hG2, Graph.node_get?_setNodeAttrDicts _ (tab_wf _ _), tab_get?, if_pos hi]
    simp only [g1 i hi, Option.map_some]
    have hw : (withCode (A i)).WF := Dict.WF_update (hA i hi) _
    rw [Dict.empty_update hw]
  have e2 : ∀ x y, G2.edgeAttrs x y = none := by
    intro x y; rw [hG2, Graph.edgeAttrs_setNodeAttrDicts, e1]
  -- bonds
  have hbk : ∀ e, e ∈ bd.keys ↔ e ∈ bonds := by
    intro e
    rw [hbd, Dict.ofPairs_eq_updatePairs, Dict.mem_keys_updatePairs]
    simp [List.map_map, Function.comp_def]
  set G3 := G2.addEdgesFrom bd.keys with hG3
  have w3 : G3.WF := Graph.WF_addEdgesFrom w2 _
  have hmem : ∀ e ∈ bd.keys, e.1 ∈ G2.nodeList ∧ e.2 ∈ G2.nodeList := by
    intro e he; rw [n2]; exact hb e ((hbk e).mp he)
  have nd3 : G3.node = G2.node := Graph.node_addEdgesFrom_of_mem _ hmem
  have n3 : G3.nodeList = range (n : Int) := by unfold Graph.nodeList; rw [nd3]; exact n2
  have b3 : ∀ x y, y ∈ G3.nbrs x ↔ (x, y) ∈ bonds ∨ (y, x) ∈ bonds := by
    intro x y
    rw [hG3, Graph.mem_nbrs_addEdgesFrom w2, hbk, hbk, Graph.mem_nbrs_iff, e2]
    simp
  have p3 : Plain G3 := plain_addEdgesFrom G2 w2 (fun x y a h => by rw [e2] at h; cases h) _
  have hvals : ∀ p ∈ bd.items, p.2 = Dict.empty := by
    intro p hp
    rw [hbd, Dict.ofPairs_eq_updatePairs] at hp
    rcases mem_items_updatePairs _ _ _ hp with h | h
    · simp [Dict.empty] at h
    · obtain ⟨b, _, rfl⟩ := List.mem_map.mp h; rfl
  have h4 : G3.setEdgeAttrDicts bd = G3 := setEdgeAttrDicts_plain G3 w3 bd hvals
  rw [h4]
  -- relabelling
  have hr : G3.nodeList = range G3.numberOfNodes := by
    rw [Graph.numberOfNodes_eq, n3]; simp [Graph.length_range]
  obtain ⟨hsame, hnl, hget⟩ := Graph.same_convertNodeLabelsToIntegers_of_range w3 hr
  have w5 := (Graph.convertNodeLabelsToIntegers_spec w3).1
  refine ⟨_, _, rfl, w5, by rw [hnl, n3], ?_, ?_⟩
  · intro i hi; rw [hget, nd3, g2 i hi]
  · intro x y
    rw [← b3]
    by_cases hx : x ∈ G3.nodeList
    · have := (hsame.nbrs x hx).mem_iff (a := y)
      simpa using this
    · have h5 : x ∉ G3.convertNodeLabelsToIntegers.nodeList := by rw [hnl]; exact hx
      simp [Graph.nbrs, w3.adj_get?_eq_none hx, w5.adj_get?_eq_none h5]

/-! ### assembling the main theorem -/

theorem wf_syms (a : Ast) (h : a.Wf) : ∀ p ∈ a.formula, p.1 ∈ periodicTable :=
  fun p hp => keys_eq_table ▸ h.syms p hp

theorem settings_pos (a : Ast) (h : a.Wf) : ∀ s ∈ a.settings, 1 ≤ s.1.1 := by
  intro s hs
  simp only [Ast.settings, Ast.blocks, List.mem_flatMap, List.mem_map] at hs
  obtain ⟨b, hb, kv, _, rfl⟩ := hs
  cases ha : a.attrs with
  | none => simp [ha] at hb
  | some bs =>
    simp only [ha, Option.getD_some] at hb
    exact num_pos _ (h.attrs bs ha b hb).1

theorem bonds1_pos (a : Ast) (h : a.Wf) : ∀ b ∈ a.bonds1, 1 ≤ b.1 ∧ 1 ≤ b.2 := by
  intro b hb
  simp only [Ast.bonds1, List.mem_map] at hb
  obtain ⟨t, ht, rfl⟩ := hb
  exact ⟨num_pos _ (h.tuples t ht).1, num_pos _ (h.tuples t ht).2⟩

theorem bondsOf_eq (a : Ast) : bondsOf a.tuples = a.bonds1.map (fun b => ((b.1 : Int) - 1, (b.2 : Int) - 1)) := by
  simp [bondsOf, Ast.bonds1, List.map_map, Function.comp_def]

theorem assoc_map_inj {κ κ' ν ν' : Type} [DecidableEq κ] [DecidableEq κ'] (l : List (κ × ν)) (f : κ → κ')
    (g : ν → ν') (hf : Function.Injective f) (k : κ) :
    assoc (l.map (fun s => (f s.1, g s.2))) (f k) = (assoc l k).map g := by
  induction l with
  | nil => rfl
  | cons p l ih =>
    unfold assoc at ih ⊢
    simp only [List.map_cons, List.find?_cons]
    by_cases hp : p.1 = k
    · simp [hp]
    · have : f p.1 ≠ f k := fun e => hp (hf e)
      simp only [hp, this, decide_false]
      exact ih

theorem sorted_length (a : Ast) : (sortedSyms a).length = (expand a.formula).length := by
  simp [sortedSyms, List.length_mergeSort]

theorem index_cond (a : Ast) (D : Dict Int Attrs) (hinv : AttrInv D (settings0 a.blocks)) :
    ((∀ b ∈ bondsOf a.tuples, b.1 < ((expand a.formula).length : Int) ∧ b.2 < ((expand a.formula).length : Int)) ∧
      (∀ p ∈ D.items, p.1 < ((expand a.formula).length : Int))) ↔ ¬ a.BadIndex := by
  unfold Ast.BadIndex
  rw [sorted_length, bondsOf_eq]
  have hk : (∀ p ∈ D.items, p.1 < ((expand a.formula).length : Int)) ↔
      ∀ s ∈ a.settings, ¬ (expand a.formula).length < s.1.1 := by
    constructor
    · intro hp s hs
      have hmem : ((s.1.1 : Int) - 1) ∈ D.keys := by
        rw [hinv.keys, settings0_eq]
        exact ⟨_, List.mem_map.mpr ⟨s, hs, rfl⟩, rfl⟩
      obtain ⟨p, hp', he⟩ := List.mem_map.mp hmem
      have := hp p hp'
      rw [he] at this
      omega
    · intro hs p hp
      have hmem : p.1 ∈ D.keys := List.mem_map_of_mem (f := Prod.fst) hp
      rw [hinv.keys, settings0_eq] at hmem
      obtain ⟨s0, hs0, he⟩ := hmem
      obtain ⟨s, hs', rfl⟩ := List.mem_map.mp hs0
      have := hs s hs'
      simp only [shift] at he
      omega
  rw [hk]
  simp only [List.mem_map, forall_exists_index, and_imp, forall_apply_eq_imp_iff₂, not_or, not_exists, not_and]
  constructor
  · rintro ⟨h1, h2⟩
    exact ⟨fun b hb => by have := h1 b hb; omega, h2⟩
  · rintro ⟨h1, h2⟩
    exact ⟨fun b hb => by have := h1 b hb; omega, h2⟩


theorem sortedSyms_eq (a : Ast) : sortedSyms a = (expand a.formula).mergeSort byZ := rfl

theorem baseAttrs_wf (s : Str) : (baseAttrs s).WF := by
  simp [Dict.WF, baseAttrs, Dict.keys]

theorem not_key_attr (s : String) (hs : s ∉ ["mass", "rad"]) : ¬ ∃ k : Key, s = k.attr := by
  rintro ⟨k, rfl⟩; cases k <;> simp [Key.attr] at hs

theorem joined_get (a : Ast) (D : Dict Int Attrs) (hinv : AttrInv D (settings0 a.blocks)) (i : Nat)
    (hi : i < (sortedSyms a).length) :
    (joined (expand a.formula) D i).WF ∧
    (joined (expand a.formula) D i).get? "element_symbol" = some (Val.str (sortedSyms a)[i]) ∧
    (joined (expand a.formula) D i).get? "atomic_number" = some (Val.int (atomicNumber (sortedSyms a)[i])) ∧
    (joined (expand a.formula) D i).get? "partition" = some (Val.int 0) ∧
    (∀ k : Key, (joined (expand a.formula) D i).get? k.attr =
      ((assoc a.settings (i + 1, k)).map Int.ofNat).map Val.int) ∧
    (∀ k, (joined (expand a.formula) D i).get? k ≠ none →
      k ∈ ["element_symbol", "atomic_number", "partition", "mass", "rad"]) := by
  have hb : baseOf (expand a.formula) (i : Int) = baseAttrs (sortedSyms a)[i] := by
    have hi' : i < ((expand a.formula).mergeSort byZ).length := by rw [← sortedSyms_eq]; exact hi
    simp [baseOf, sortedSyms_eq, List.getElem?_eq_getElem hi']
  have hdwf : ((D.get? (i : Int)).getD Dict.empty).WF := by
    cases h : D.get? (i : Int) with
    | none => simp
    | some d => exact hinv.vwf _ d h
  have hdget : ∀ s, ((D.get? (i : Int)).getD (Dict.empty : Attrs)).get? s = (D.get? (i : Int)).bind (·.get? s) := by
    intro s; cases D.get? (i : Int) <;> simp
  have hdonly : ∀ s, ((D.get? (i : Int)).getD (Dict.empty : Attrs)).get? s ≠ none → ∃ k : Key, s = k.attr := by
    intro s hs
    cases h : D.get? (i : Int) with
    | none => simp [h] at hs
    | some d => rw [h] at hs; exact hinv.onlyKeys _ d s h hs
  have hdnone : ∀ s, s ∉ ["mass", "rad"] → ((D.get? (i : Int)).getD (Dict.empty : Attrs)).get? s = none := by
    intro s hs
    by_contra hne
    exact not_key_attr s hs (hdonly s hne)
  have hj : ∀ k, (joined (expand a.formula) D i).get? k =
      (((D.get? (i : Int)).getD (Dict.empty : Attrs)).get? k).or ((baseAttrs (sortedSyms a)[i]).get? k) := by
    intro k
    unfold joined
    rw [Dict.get?_update _ hdwf, hb]
  refine ⟨?_, ?_, ?_, ?_, ?_, ?_⟩
  · unfold joined; rw [hb]; exact Dict.WF_update (baseAttrs_wf _) _
  · rw [hj, hdnone _ (by decide)]; rfl
  · rw [hj, hdnone _ (by decide)]; rfl
  · rw [hj, hdnone _ (by decide)]; rfl
  · intro k
    rw [hj, hdget, hinv.get, settings0_eq]
    have e : ((i : Int), k) = shift (i + 1, k) := by simp [shift]
    rw [e, assoc_map_inj a.settings shift (fun (n : Nat) => (n : Int)) shift_inj]
    have hbn : (baseAttrs (sortedSyms a)[i]).get? k.attr = none := by cases k <;> rfl
    rw [hbn, Option.or_none]
    cases assoc a.settings (i + 1, k) <;> rfl
  · intro k hk
    rw [hj] at hk
    cases hd : ((D.get? (i : Int)).getD (Dict.empty : Attrs)).get? k with
    | some v =>
      obtain ⟨key, rfl⟩ := hdonly k (by simp [hd])
      cases key <;> simp [Key.attr]
    | none =>
      rw [hd, Option.none_or] at hk
      have : k ∈ (baseAttrs (sortedSyms a)[i]).keys := by
        rw [← Dict.get?_isSome_iff]; cases h : (baseAttrs (sortedSyms a)[i]).get? k with
        | none => exact absurd h hk
        | some _ => rfl
      simp only [baseAttrs, Dict.keys, List.map_cons, List.map_nil] at this
      simp only [List.mem_cons, List.not_mem_nil, or_false] at this ⊢
      tauto

theorem withCode_get (J : Attrs) (k : String) :
    (withCode J).get? k = if k = "invariant_code" then some (codeOf J) else J.get? k := by
  unfold withCode
  have hw : (Dict.ofPairs [("invariant_code", codeOf J)] : Attrs) = ⟨[("invariant_code", codeOf J)]⟩ := rfl
  rw [Dict.get?_update _ (by rw [hw]; simp [Dict.WF, Dict.keys]), hw]
  simp only [Dict.get?_mk, lookup_cons', List.lookup_nil]
  split <;> simp


theorem codeOf_eq (J : Attrs) (z : Int) (m r : Option Int) (hz : J.get? "atomic_number" = some (Val.int z))
    (hm : J.get? "mass" = m.map Val.int) (hr : J.get? "rad" = r.map Val.int) :
    codeOf J = Val.tup [.int z, .int (m.getD 0), .int (r.getD 0)] := by
  unfold codeOf Dict.getD
  rw [hz, hm, hr]
  cases m <;> cases r <;> rfl

/-- **C10, semantic half.** The listener run over the parse tree of a grammatical string returns the
denoted molecule, or rejects with `TucanParserException` exactly when the denotation does. -/
theorem graph_from_tree_ok (env : DepEnv) (a : Ast) (h : a.Wf) :
    match denote a with
    | .ok mol => ∃ g, graph_from_tree env (treeOf a) = .ok g ∧ Represents g mol
    | .error e => graph_from_tree env (treeOf a) = .error e := by
  have hgt : graph_from_tree env (treeOf a) = (walkSpec a >>= TucanListenerImpl.to_graph env) := by
    unfold graph_from_tree
    rw [walk_treeOf env a (wf_syms a h) h]
  unfold denote
  by_cases hsd : a.SelfBond ∨ a.DupAttr
  · rw [if_pos (Or.inr hsd)]
    show graph_from_tree env (treeOf a) = .error TPE
    rw [hgt, walkSpec_error a hsd]; rfl
  · rw [not_or] at hsd
    obtain ⟨D, hw, hinv⟩ := walkSpec_ok a hsd.1 hsd.2
    have hD0 : ∀ i ∈ D.keys, 0 ≤ i := by
      intro i hi
      rw [hinv.keys, settings0_eq] at hi
      obtain ⟨s0, hs0, rfl⟩ := hi
      obtain ⟨s, hs, rfl⟩ := List.mem_map.mp hs0
      have := settings_pos a h s hs
      simp only [shift]; omega
    have htg := to_graph_eq env (expand a.formula) (bondsOf a.tuples) D hinv.wf hD0
    by_cases hbi : a.BadIndex
    · rw [if_pos (Or.inl hbi)]
      show graph_from_tree env (treeOf a) = .error TPE
      rw [hgt, hw]
      simp only [ok_bind]
      rw [htg, if_neg (fun hc => (index_cond a D hinv).mp hc hbi)]
    · rw [if_neg (not_or.mpr ⟨hbi, not_or.mpr hsd⟩)]
      have hidx := (index_cond a D hinv).mpr hbi
      have hlen := sorted_length a
      have hA : ∀ i ∈ range ((expand a.formula).length : Int), (joined (expand a.formula) D i).WF := by
        intro i hi
        rw [mem_range] at hi
        obtain ⟨k, rfl⟩ := Int.eq_ofNat_of_zero_le hi.1
        exact (joined_get a D hinv k (by rw [hlen]; exact_mod_cast hi.2)).1
      have hz : ∀ i ∈ range ((expand a.formula).length : Int),
          ∃ z, (joined (expand a.formula) D i).get? "atomic_number" = some z := by
        intro i hi
        rw [mem_range] at hi
        obtain ⟨k, rfl⟩ := Int.eq_ofNat_of_zero_le hi.1
        exact ⟨_, (joined_get a D hinv k (by rw [hlen]; exact_mod_cast hi.2)).2.2.1⟩
      have hb : ∀ b ∈ bondsOf a.tuples, b.1 ∈ range ((expand a.formula).length : Int) ∧
          b.2 ∈ range ((expand a.formula).length : Int) := by
        intro b hb
        have hlt := hidx.1 b hb
        rw [bondsOf_eq] at hb
        obtain ⟨b1, hb1, rfl⟩ := List.mem_map.mp hb
        have := bonds1_pos a h b1 hb1
        simp only [mem_range] at hlt ⊢
        omega
      obtain ⟨g, R, hgm, hwf, hnl, hnode, hnb⟩ :=
        graph_from_molecule_ok env (expand a.formula).length (joined (expand a.formula) D) (bondsOf a.tuples) hA hz hb
      refine ⟨g, ?_, ?_⟩
      · rw [hgt, hw]
        simp only [ok_bind]
        rw [htg, if_pos hidx, hgm]; rfl
      · have hal : ∀ l : List Str, (l.zipIdx.map (fun si =>
            ({ symbol := si.1, z := atomicNumber si.1,
               mass := (assoc a.settings (si.2 + 1, Key.mass)).map Int.ofNat,
               rad := (assoc a.settings (si.2 + 1, Key.rad)).map Int.ofNat } : Atom))).length = l.length := by
          intro l; simp
        refine ⟨?_, ?_, ?_, ?_, hwf⟩
        · simp only [hal, hnl, hlen]
        · intro i hi
          simp only [hal] at hi
          obtain ⟨jw, j1, j2, j3, j4, j5⟩ := joined_get a D hinv i hi
          have hir : (i : Int) ∈ range ((expand a.formula).length : Int) := by
            rw [mem_range]; rw [hlen] at hi; omega
          have hattr : ∀ k, g.attr i k = (withCode (joined (expand a.formula) D i)).get? k := by
            intro k; unfold Graph.attr; rw [hnode _ hir]; rfl
          have hm := j4 Key.mass
          have hr := j4 Key.rad
          simp only [Key.attr] at hm hr
          simp only [hattr, withCode_get, List.getElem_map, List.getElem_zipIdx, zero_add]
          refine ⟨by simpa using j1, by simpa using j2, by simpa using j3, by simpa using hm, by simpa using hr, ?_⟩
          simp only [if_true]
          rw [codeOf_eq _ _ _ _ j2 hm hr]
        · intro i k hk
          unfold Graph.attr at hk
          by_cases hir : i ∈ range ((expand a.formula).length : Int)
          · rw [hnode _ hir] at hk
            simp only [Option.bind_some, withCode_get] at hk
            rw [mem_range] at hir
            obtain ⟨j, rfl⟩ := Int.eq_ofNat_of_zero_le hir.1
            have hj : j < (sortedSyms a).length := by rw [hlen]; exact_mod_cast hir.2
            by_cases hkc : k = "invariant_code"
            · subst hkc; decide
            · rw [if_neg hkc] at hk
              have := (joined_get a D hinv j hj).2.2.2.2.2 k hk
              simp only [attrNames, List.mem_cons, List.not_mem_nil, or_false] at this ⊢
              tauto
          · have : g.node.get? i = none := by
              rw [Dict.get?_eq_none_iff]; show i ∉ g.nodeList; rw [hnl]; exact hir
            rw [this] at hk; exact absurd rfl hk
        · intro i j
          rw [hnb, bondsOf_eq]
          unfold AbstractMol.Bonded
          simp only [List.mem_map, Prod.mk.injEq, exists_exists_and_eq_and]
          constructor
          · rintro (⟨b, hb, h1, h2⟩ | ⟨b, hb, h1, h2⟩)
            · have := bonds1_pos a h b hb
              exact ⟨b, hb, Or.inl ⟨by omega, by omega⟩⟩
            · have := bonds1_pos a h b hb
              exact ⟨b, hb, Or.inr ⟨by omega, by omega⟩⟩
          · rintro ⟨b, hb, (⟨h1, h2⟩ | ⟨h1, h2⟩)⟩
            · have := bonds1_pos a h b hb
              exact Or.inl ⟨b, hb, by omega, by omega⟩
            · have := bonds1_pos a h b hb
              exact Or.inr ⟨b, hb, by omega, by omega⟩


/-- rejection half of C10: a bad index, a self-bond or a doubly set attribute is rejected with the parser's
own exception -/
theorem graph_from_tree_rejects (env : DepEnv) (a : Ast) (h : a.Wf)
    (hbad : a.BadIndex ∨ a.SelfBond ∨ a.DupAttr) : graph_from_tree env (treeOf a) = .error TPE := by
  have := graph_from_tree_ok env a h
  unfold denote at this
  rw [if_pos hbad] at this
  exact this

/-- acceptance half of C10 -/
theorem graph_from_tree_accepts (env : DepEnv) (a : Ast) (h : a.Wf)
    (hgood : ¬ (a.BadIndex ∨ a.SelfBond ∨ a.DupAttr)) :
    ∃ g mol, denote a = .ok mol ∧ graph_from_tree env (treeOf a) = .ok g ∧ Represents g mol := by
  have := graph_from_tree_ok env a h
  unfold denote at this ⊢
  rw [if_neg hgood] at this ⊢
  obtain ⟨g, hg, hr⟩ := this
  exact ⟨g, _, rfl, hg, hr⟩

/-- never an unrelated error (`ValueError`, `KeyError`, `IndexError`, …) on the tree of a grammatical string -/
theorem graph_from_tree_error_is_TPE (env : DepEnv) (a : Ast) (h : a.Wf) (e : Err)
    (he : graph_from_tree env (treeOf a) = .error e) : e = TPE := by
  by_cases hbad : a.BadIndex ∨ a.SelfBond ∨ a.DupAttr
  · rw [graph_from_tree_rejects env a h hbad] at he; cases he; rfl
  · obtain ⟨g, _, _, hg, _⟩ := graph_from_tree_accepts env a h hbad
    rw [hg] at he; cases he

/-! ## 4. Reachability: `Wf` is satisfiable and both outcomes of `denote` occur -/

/-- `H2O/(1-3)(2-3)/(1:mass=2)(3:rad=2)` -/
def water : Ast :=
  { formula := [(py!"H", some py!"2"), (py!"O", none)]
    tuples := [(py!"1", py!"3"), (py!"2", py!"3")]
    attrs := some [(py!"1", [(Key.mass, py!"2")]), (py!"3", [(Key.rad, py!"2")])] }

/-- `H2O/(1-4)`: atom 4 does not exist -/
def badWater : Ast :=
  { formula := [(py!"H", some py!"2"), (py!"O", none)]
    tuples := [(py!"1", py!"4")]
    attrs := none }

theorem numWf_of_decide (ds : Str) (h : (decide (ds ≠ []) && ds.all isAsciiDigit && decide (ds.head? ≠ some '0') &&
    decide (ds.length ≤ intMaxStrDigits)) = true) : NumWf ds := by
  simp only [Bool.and_eq_true, decide_eq_true_eq] at h
  exact ⟨h.1.1.1, h.1.1.2, h.1.2, h.2⟩

theorem water_wf : water.Wf where
  syms := by rw [keys_eq_table]; decide
  counts := by
    intro p hp ds hds
    simp only [water, List.mem_cons, List.not_mem_nil, or_false] at hp
    rcases hp with rfl | rfl
    · cases hds; exact ⟨numWf_of_decide _ (by decide), by decide⟩
    · cases hds
  tuples := by
    intro t ht
    simp only [water, List.mem_cons, List.not_mem_nil, or_false] at ht
    rcases ht with rfl | rfl <;> exact ⟨numWf_of_decide _ (by decide), numWf_of_decide _ (by decide)⟩
  attrs := by
    intro bs hbs b hb
    cases hbs
    simp only [List.mem_cons, List.not_mem_nil, or_false] at hb
    rcases hb with rfl | rfl
    · refine ⟨numWf_of_decide _ (by decide), ?_⟩
      intro kv hkv; simp only [List.mem_cons, List.not_mem_nil, or_false] at hkv; subst hkv
      exact numWf_of_decide _ (by decide)
    · refine ⟨numWf_of_decide _ (by decide), ?_⟩
      intro kv hkv; simp only [List.mem_cons, List.not_mem_nil, or_false] at hkv; subst hkv
      exact numWf_of_decide _ (by decide)

theorem water_sorted : sortedSyms water = [py!"H", py!"H", py!"O"] := by
  unfold sortedSyms
  have : expand water.formula = [py!"H", py!"H", py!"O"] := by decide
  rw [this]
  apply List.mergeSort_of_pairwise
  decide

theorem water_ok : ¬ (water.BadIndex ∨ water.SelfBond ∨ water.DupAttr) := by
  have h1 : ¬ water.BadIndex := by unfold Ast.BadIndex; rw [water_sorted]; decide
  have h2 : ¬ water.SelfBond := by decide
  have h3 : ¬ water.DupAttr := by decide
  tauto

theorem badWater_wf : badWater.Wf where
  syms := by rw [keys_eq_table]; decide
  counts := by
    intro p hp ds hds
    simp only [badWater, List.mem_cons, List.not_mem_nil, or_false] at hp
    rcases hp with rfl | rfl
    · cases hds; exact ⟨numWf_of_decide _ (by decide), by decide⟩
    · cases hds
  tuples := by
    intro t ht
    simp only [badWater, List.mem_cons, List.not_mem_nil, or_false] at ht
    subst ht; exact ⟨numWf_of_decide _ (by decide), numWf_of_decide _ (by decide)⟩
  attrs := by intro bs hbs; cases hbs

/-- an accepted string and its molecule -/
example : water.Wf ∧ denote water = .ok
    { atoms := [⟨py!"H", 1, some 2, none⟩, ⟨py!"H", 1, none, none⟩, ⟨py!"O", 8, none, some 2⟩],
      bonds := [(0, 2), (1, 2)] } := by
  refine ⟨water_wf, ?_⟩
  unfold denote
  rw [if_neg water_ok, water_sorted]
  decide

/-- a grammatical string that is rejected -/
example : badWater.Wf ∧ denote badWater = .error TPE := by
  refine ⟨badWater_wf, ?_⟩
  unfold denote
  rw [if_pos]
  left
  unfold Ast.BadIndex
  rw [sorted_length]
  decide


#print axioms graph_from_tree_ok
#print axioms graph_from_tree_error_is_TPE
#print axioms int_total

end Contracts.Parser
