/-
Contracts.V2000 — the V2000 connection-table reader (C08): fixed-column fields, atom-block charge codes,
`M  CHG` / `M  RAD` / `M  ISO` property lines and their supersession semantics, D/T symbols.

Specs (written from the format text): `field`/`fieldInt` (fixed columns, blank = 0), `propEntry`/`propEntries`
(entries of a property line), `lineKind`, `scanProps`/`propLines` (the CHG/RAD/ISO lines up to `M  END`),
`specGet` (value of every attribute of every atom after the property block), `renderProp`/`Item.render`
(how a writer lays the lines out), `chargeOfCode`, `hydrogenIsotope`, `atomAttrs`, `bondLine`.
Main theorems: `_to_int_blank`, `_to_int_ok`, `parseInt_pyStrInt`; `_parse_atom_value_assignments_eq/_ok/_reject`;
`_merge_tuples_into_additional_attributes_eq/_ok`, `_clear_atom_attribute_ok/_get?`,
`_merge_atom_attributes_and_additional_attributes_eq/_ok`; `_parse_attribute_block_eq/_ok/_reject`,
`_parse_attribute_block_render_ok/_noEnd/_badAtom`, `specGet_mass/_mass_of_isotope_symbol/_chg/_rad/_other`; `_parse_atom_line_ok`,
`_parse_bond_line_eq/_ok/_reject`; `graph_attributes_from_molfile_v2000_eq/_ok`.
-/
import Generated.V2000
import Mathlib.Data.List.TakeWhile
import Mathlib.Data.List.DropRight
open Py
set_option autoImplicit false
set_option linter.unusedSimpArgs false
set_option linter.unusedSectionVars false
set_option linter.unusedTactic false
set_option linter.unreachableTactic false
set_option linter.unnecessarySeqFocus false

namespace Contracts.V2000

/-! ### general facts about the insertion-ordered dict model -/
section DictLemmas
variable {κ ν : Type} [DecidableEq κ]

/-- the invariant of every real Python dict: keys are distinct -/
def WF (d : Dict κ ν) : Prop := d.keys.Nodup

theorem wf_empty : WF (Dict.empty : Dict κ ν) := by simp [WF, Dict.keys, Dict.empty]

@[simp] theorem get?_empty (k : κ) : (Dict.empty : Dict κ ν).get? k = none := rfl

theorem lookup_eq_none_iff_not_mem_keys (l : List (κ × ν)) (k : κ) :
    l.lookup k = none ↔ k ∉ l.map Prod.fst := by
  induction l with
  | nil => simp
  | cons p l ih =>
    obtain ⟨a, b⟩ := p
    by_cases h : k = a
    · subst h; simp [List.lookup_cons]
    · have : (k == a) = false := by simpa using h
      simp [List.lookup_cons, this, ih, h]

theorem contains_iff_mem_keys (d : Dict κ ν) (k : κ) : d.contains k = true ↔ k ∈ d.keys := by
  unfold Dict.contains Dict.get? Dict.keys
  rw [← not_iff_not, Bool.not_eq_true, Option.isSome_eq_false_iff, Option.isNone_iff_eq_none]
  exact lookup_eq_none_iff_not_mem_keys _ _

theorem contains_eq_isSome (d : Dict κ ν) (k : κ) : d.contains k = (d.get? k).isSome := rfl

theorem lookup_map_set (l : List (κ × ν)) (k k' : κ) (v : ν) :
    (l.map (fun p => if p.1 = k then (k, v) else p)).lookup k' =
      if k' = k then (l.lookup k).map (fun _ => v) else l.lookup k' := by
  induction l with
  | nil => simp
  | cons p l ih =>
    obtain ⟨a, b⟩ := p
    by_cases hk : k' = k
    · subst hk
      by_cases ha : a = k'
      · subst ha; simp [List.lookup_cons]
      · have : (k' == a) = false := by simpa using (Ne.symm ha)
        simp only [List.map_cons, ha, if_false, List.lookup_cons, this]
        simpa using ih
    · by_cases ha : a = k
      · subst ha
        have : (k' == a) = false := by simpa using hk
        simp only [List.map_cons, if_true, List.lookup_cons, this]
        simpa [hk] using ih
      · simp only [List.map_cons, ha, if_false, List.lookup_cons]
        cases h : (k' == a)
        · simpa [hk] using ih
        · simp [hk]

theorem get?_set (d : Dict κ ν) (k k' : κ) (v : ν) :
    (d.set k v).get? k' = if k' = k then some v else d.get? k' := by
  unfold Dict.set
  by_cases hc : d.contains k = true
  · rw [if_pos hc]
    show List.lookup k' (d.items.map _) = _
    rw [lookup_map_set]
    by_cases hk : k' = k
    · subst hk
      rw [contains_eq_isSome, Option.isSome_iff_exists] at hc
      obtain ⟨x, hx⟩ := hc
      simp [Dict.get?] at hx
      simp [hx]
    · simp [hk, Dict.get?]
  · rw [if_neg hc]
    show List.lookup k' (d.items ++ [(k, v)]) = _
    rw [List.lookup_append]
    by_cases hk : k' = k
    · subst hk
      have hn : List.lookup k' d.items = none := by
        rw [contains_eq_isSome, Bool.not_eq_true, Option.isSome_eq_false_iff, Option.isNone_iff_eq_none] at hc
        exact hc
      simp [hn, List.lookup_cons]
    · have : (k' == k) = false := by simpa using hk
      simp [hk, Dict.get?, List.lookup_cons, this]

theorem keys_set (d : Dict κ ν) (k : κ) (v : ν) :
    (d.set k v).keys = if d.contains k then d.keys else d.keys ++ [k] := by
  unfold Dict.set
  by_cases hc : d.contains k = true
  · simp only [hc, if_true, Dict.keys, List.map_map]
    apply List.map_congr_left
    intro p _
    by_cases h : p.1 = k <;> simp [h]
  · simp [hc, Dict.keys]

theorem wf_set (d : Dict κ ν) (k : κ) (v : ν) (h : WF d) : WF (d.set k v) := by
  unfold WF at *
  rw [keys_set]
  by_cases hc : d.contains k = true
  · simpa [hc] using h
  · simp only [hc]
    have : k ∉ d.keys := by rwa [← contains_iff_mem_keys]
    simp [List.nodup_append, h, this]
    intro a ha hak; exact this (hak ▸ ha)

theorem contains_set (d : Dict κ ν) (k k' : κ) (v : ν) :
    (d.set k v).contains k' = (decide (k' = k) || d.contains k') := by
  rw [contains_eq_isSome, get?_set, contains_eq_isSome]
  by_cases h : k' = k <;> simp [h]

theorem get?_erase (d : Dict κ ν) (k k' : κ) :
    (d.erase k).get? k' = if k' = k then none else d.get? k' := by
  unfold Dict.erase Dict.get?
  simp only
  induction d.items with
  | nil => simp
  | cons p l ih =>
    obtain ⟨a, b⟩ := p
    by_cases ha : a = k
    · subst ha
      simp only [List.filter_cons, ne_eq, not_true_eq_false, decide_false, Bool.false_eq_true, if_false, ih]
      by_cases hk : k' = a
      · simp [hk]
      · have : (k' == a) = false := by simpa using hk
        simp [hk, List.lookup_cons, this]
    · simp only [List.filter_cons, ne_eq, ha, not_false_eq_true, decide_true, if_true, List.lookup_cons, ih]
      by_cases hk : k' = k
      · subst hk
        have : (k' == a) = false := by simpa using (Ne.symm ha)
        simp [this]
      · simp [hk]

theorem keys_erase (d : Dict κ ν) (k : κ) : (d.erase k).keys = d.keys.filter (· ≠ k) := by
  unfold Dict.erase Dict.keys
  simp only [List.filter_map]
  rfl

theorem wf_erase (d : Dict κ ν) (k : κ) (h : WF d) : WF (d.erase k) := by
  unfold WF at *; rw [keys_erase]; exact h.filter _

/-- `d.update(e)` / `d |= e` for a well-formed `e`: entries of `e` win -/
theorem get?_updatePairs (l : List (κ × ν)) (hl : (l.map Prod.fst).Nodup) (d : Dict κ ν) (k : κ) :
    (d.updatePairs l).get? k = (l.lookup k).or (d.get? k) := by
  induction l generalizing d with
  | nil => simp [Dict.updatePairs]
  | cons p l ih =>
    obtain ⟨a, b⟩ := p
    simp only [List.map_cons, List.nodup_cons] at hl
    show ((d.set a b).updatePairs l).get? k = _
    rw [ih hl.2, get?_set]
    by_cases hk : k = a
    · subst hk
      have : l.lookup k = none := (lookup_eq_none_iff_not_mem_keys _ _).2 hl.1
      simp [this, List.lookup_cons]
    · have : (k == a) = false := by simpa using hk
      simp [hk, List.lookup_cons, this]

theorem wf_updatePairs (l : List (κ × ν)) (d : Dict κ ν) (h : WF d) : WF (d.updatePairs l) := by
  induction l generalizing d with
  | nil => exact h
  | cons p l ih => exact ih _ (wf_set _ _ _ h)

theorem keys_updatePairs_of_subset (l : List (κ × ν)) (d : Dict κ ν) (h : ∀ p ∈ l, d.contains p.1 = true) :
    (d.updatePairs l).keys = d.keys := by
  induction l generalizing d with
  | nil => rfl
  | cons p l ih =>
    show ((d.set p.1 p.2).updatePairs l).keys = _
    rw [ih]
    · rw [keys_set, h p (by simp)]; rfl
    · intro q hq; rw [contains_set, h q (by simp [hq])]; simp

theorem get?_update (d e : Dict κ ν) (he : WF e) (k : κ) :
    (d.update e).get? k = (e.get? k).or (d.get? k) := get?_updatePairs e.items he d k

theorem get?_ofPairs (l : List (κ × ν)) (hl : (l.map Prod.fst).Nodup) (k : κ) :
    (Dict.ofPairs l).get? k = l.lookup k := by
  have := get?_updatePairs l hl (Dict.empty : Dict κ ν) k
  simp only [get?_empty, Option.or_none] at this
  exact this

theorem wf_ofPairs (l : List (κ × ν)) : WF (Dict.ofPairs l) := wf_updatePairs l _ wf_empty

theorem lookup_filter (l : List (κ × ν)) (hl : (l.map Prod.fst).Nodup) (q : κ × ν → Bool) (k : κ) :
    (l.filter q).lookup k = (l.lookup k).filter (fun v => q (k, v)) := by
  induction l with
  | nil => simp
  | cons p l ih =>
    obtain ⟨a, b⟩ := p
    simp only [List.map_cons, List.nodup_cons] at hl
    by_cases hk : k = a
    · subst hk
      have hn : l.lookup k = none := (lookup_eq_none_iff_not_mem_keys _ _).2 hl.1
      cases hq : q (k, b)
      · simp [List.filter_cons, hq, ih hl.2, hn, List.lookup_cons, Option.filter]
      · simp [List.filter_cons, hq, List.lookup_cons, Option.filter]
    · have : (k == a) = false := by simpa using hk
      cases hq : q (a, b)
      · simp [List.filter_cons, hq, ih hl.2, List.lookup_cons, this]
      · simp [List.filter_cons, hq, ih hl.2, List.lookup_cons, this]

end DictLemmas

open Tucan.molfile_v2000_reader

/-! ### item 3: the three dictionary helpers -/

/-- one step of `_merge_tuples_into_additional_attributes` -/
def mergeStep (key : String) (d : Dict Int Attrs) (t : Int × Int) : Dict Int Attrs :=
  d.set t.1 (((d.get? t.1).getD Dict.empty).set key (Val.int t.2))

/-- functional model of `_merge_tuples_into_additional_attributes` -/
def mergeTuples (key : String) (tuples : List (Int × Int)) (add : Dict Int Attrs) : Dict Int Attrs :=
  tuples.foldl (mergeStep key) add

theorem getItem_dict_int (d : Dict Int Attrs) (k : Int) :
    (getItem d k : M Attrs) = (match d.get? k with | some v => Except.ok v | none => Except.error Err.key) := by
  simp only [getItem, toKey, id_eq]
  cases d.get? k <;> rfl

/-- a `for` loop whose body never breaks and never raises is a left fold -/
theorem forIn_yield_eq_foldl {α σ : Type} (l : List α) (body : α → σ → M (ForInStep σ)) (g : σ → α → σ)
    (h : ∀ x ∈ l, ∀ r, body x r = .ok (.yield (g r x))) (init : σ) :
    forIn l init body = (.ok (l.foldl g init) : M σ) := by
  induction l generalizing init with
  | nil => rfl
  | cons x l ih =>
    rw [List.forIn_cons, h x (by simp)]
    simp only [Py.ok_bind, List.foldl_cons]
    exact ih (fun y hy => h y (by simp [hy])) _

theorem _merge_tuples_into_additional_attributes_eq (env : DepEnv) (tuples : List (Int × Int)) (key : String)
    (add : Dict Int Attrs) :
    _merge_tuples_into_additional_attributes env tuples key add = .ok (mergeTuples key tuples add) := by
  unfold _merge_tuples_into_additional_attributes
  simp only [pyIter_list, Py.pure_eq_ok]
  rw [forIn_yield_eq_foldl (g := mergeStep key)]
  · rfl
  · intro x _ r
    unfold mergeStep
    simp only [pyContains_dict, contains_eq_isSome, getItem_dict_int]
    cases h : r.get? x.1 with
    | none => simp [setItem_dict]; rfl
    | some a => simp [setItem_dict, setItem_attrs]; rfl

theorem map_set_of_not_mem {κ ν : Type} [DecidableEq κ] (l : List (κ × ν)) (a : κ) (v : ν)
    (h : a ∉ l.map Prod.fst) : l.map (fun p => if p.1 = a then (a, v) else p) = l := by
  induction l with
  | nil => rfl
  | cons p l ih =>
    simp only [List.map_cons, List.mem_cons, not_or] at h
    simp only [List.map_cons, ih h.2]
    rw [if_neg (fun e => h.1 e.symm)]

theorem set_mid {κ ν : Type} [DecidableEq κ] (pre rest : List (κ × ν)) (a : κ) (b v : ν)
    (h1 : a ∉ pre.map Prod.fst) (h2 : a ∉ rest.map Prod.fst) :
    (⟨pre ++ (a, b) :: rest⟩ : Dict κ ν).set a v = ⟨pre ++ (a, v) :: rest⟩ := by
  have hc : (⟨pre ++ (a, b) :: rest⟩ : Dict κ ν).contains a = true := by
    rw [contains_iff_mem_keys]; simp [Dict.keys]
  unfold Dict.set
  rw [if_pos hc]
  simp only [List.map_append, List.map_cons, if_true, map_set_of_not_mem _ _ _ h1, map_set_of_not_mem _ _ _ h2]

/-- a loop over the items of a dict that rebinds (some of) the values one key at a time -/
theorem forIn_items_set {κ ν : Type} [DecidableEq κ] (items : List (κ × ν))
    (body : κ × ν → Dict κ ν → M (ForInStep (Dict κ ν))) (c : κ × ν → Bool) (g : κ × ν → ν)
    (h : ∀ p ∈ items, ∀ r, body p r = .ok (.yield (if c p then r.set p.1 (g p) else r)))
    (pre : List (κ × ν)) (hnd : ((pre ++ items).map Prod.fst).Nodup) :
    forIn items (⟨pre ++ items⟩ : Dict κ ν) body =
      (.ok ⟨pre ++ items.map (fun p => if c p then (p.1, g p) else p)⟩ : M _) := by
  induction items generalizing pre with
  | nil => rfl
  | cons p items ih =>
    obtain ⟨a, b⟩ := p
    rw [List.forIn_cons, h (a, b) (by simp)]
    simp only [Py.ok_bind]
    have hnd' := hnd
    simp only [List.map_append, List.map_cons, List.nodup_append, List.nodup_cons, List.mem_cons] at hnd'
    have h1 : a ∉ pre.map Prod.fst := fun hm => (hnd'.2.2 a hm a (Or.inl rfl)) rfl
    have h2 : a ∉ items.map Prod.fst := hnd'.2.1.1
    have key : ∀ v : ν, ((pre ++ [(a, v)]) ++ items) = pre ++ (a, v) :: items := by simp
    cases hc : c (a, b)
    · simp only [Bool.false_eq_true, if_false, List.map_cons]
      have := ih (fun q hq => h q (by simp [hq])) (pre ++ [(a, b)]) (by rw [key]; exact hnd)
      rw [key] at this; rw [this]; simp [hc]
    · simp only [if_true, List.map_cons]
      rw [set_mid _ _ _ _ _ h1 h2]
      have := ih (fun q hq => h q (by simp [hq])) (pre ++ [(a, g (a, b))]) (by
        rw [key]; simpa [List.map_append] using hnd)
      rw [key] at this; rw [this]; simp [hc]

/-- spec of `_clear_atom_attribute`: the key is removed from every atom, nothing else changes -/
def clearAttr (key : String) (atoms : Dict Int Attrs) : Dict Int Attrs :=
  ⟨atoms.items.map (fun p => (p.1, p.2.erase key))⟩

theorem _clear_atom_attribute_ok (env : DepEnv) (key : String) (atoms : Dict Int Attrs) (hwf : WF atoms) :
    _clear_atom_attribute env key atoms = .ok (clearAttr key atoms) := by
  unfold _clear_atom_attribute
  simp only [Py.pure_eq_ok, setItem_dict, Py.ok_bind]
  have := forIn_items_set atoms.items
    (fun x r => (Except.ok (ForInStep.yield (r.set x.1 (Dict.pop? x.2 key).2)) : M _))
    (fun _ => true) (fun p => p.2.erase key) (fun p _ r => by simp [Dict.pop?]) [] (by simpa [WF, Dict.keys] using hwf)
  simp only [List.nil_append] at this
  rw [this]
  simp [clearAttr]

/-- the entries of the collected property dict `a` that take effect on an atom whose atom-block attributes
are `old`: 0 means "not set", and an isotope entry never replaces a mass that is already there (it stems
from the symbol D or T) -/
def nonzero (old a : Attrs) : List (String × Val) :=
  a.items.filter (fun p => decide (p.2 ≠ Val.int 0) && !(decide (p.1 = "mass") && old.contains "mass"))

/-- what `_merge_atom_attributes_and_additional_attributes` does to one atom -/
def mergeAtom (add : Dict Int Attrs) (p : Int × Attrs) : Attrs :=
  match add.get? p.1 with
  | some extra => p.2.update (Dict.ofPairs (nonzero p.2 extra))
  | none => p.2

def mergeAdd (atoms add : Dict Int Attrs) : Dict Int Attrs :=
  ⟨atoms.items.map (fun p => (p.1, mergeAtom add p))⟩

theorem filterMap_nonzero (old : Attrs) (l : List (String × Val)) :
    l.filterMap (fun x => if (pyNe x.2 (0 : Int) && !(decide (x.1 = "mass") && Dict.contains old "mass")) = true
        then some (x.1, x.2) else none) =
      l.filter (fun p => decide (p.2 ≠ Val.int 0) && !(decide (p.1 = "mass") && old.contains "mass")) := by
  induction l with
  | nil => rfl
  | cons p l ih =>
    have : pyNe p.2 (0 : Int) = decide (p.2 ≠ Val.int 0) := by
      simp [pyNe, PyCmp.eq]
    simp only [List.filterMap_cons, List.filter_cons, this, ih]
    cases (decide (p.2 ≠ Val.int 0) && !(decide (p.1 = "mass") && Dict.contains old "mass")) <;> simp

theorem _merge_atom_attributes_and_additional_attributes_eq (env : DepEnv) (atoms add : Dict Int Attrs)
    (hwf : WF atoms) :
    _merge_atom_attributes_and_additional_attributes env atoms add = .ok (mergeAdd atoms add) := by
  unfold _merge_atom_attributes_and_additional_attributes
  simp only [Py.pure_eq_ok, setItem_dict, Py.ok_bind, pyContains_dict]
  have := forIn_items_set atoms.items
    (fun x r => if add.contains x.1 = true then do
              let __do_lift ← getItem add x.1
              let __do_lift ←
                listComp __do_lift.items fun x_1 =>
                    if (pyNe x_1.2 (0 : Int) && !(decide (x_1.1 = "mass") && Dict.contains x.2 "mass")) = true then
                      Except.ok (some (x_1.1, x_1.2))
                    else Except.ok none
              Except.ok (ForInStep.yield (r.set x.1 (Dict.update x.2 (Dict.ofPairs __do_lift))))
            else (Except.ok (ForInStep.yield r) : M _))
    (fun p => add.contains p.1) (mergeAtom add) (fun p _ r => by
      cases h : add.get? p.1 with
      | none =>
        have hc : add.contains p.1 = false := by simp [Dict.contains, h]
        simp [hc]
      | some extra =>
        have hc : add.contains p.1 = true := by simp [Dict.contains, h]
        simp only [hc, if_true, getItem_dict_int, h, Py.ok_bind, mergeAtom]
        rw [listComp_ok _ _ (fun x => if (pyNe x.2 (0 : Int) && !(decide (x.1 = "mass") && Dict.contains p.2 "mass")) = true
            then some (x.1, x.2) else none)
          (fun x _ => by split <;> rfl)]
        simp only [Py.ok_bind, filterMap_nonzero]
        rfl)
    [] (by simpa [WF, Dict.keys] using hwf)
  simp only [List.nil_append] at this
  rw [this]
  simp only [Py.ok_bind, mergeAdd]
  congr 2
  apply List.map_congr_left
  intro p _
  cases h : add.get? p.1 with
  | none =>
    have hc : add.contains p.1 = false := by simp [Dict.contains, h]
    simp [hc, mergeAtom, h]
  | some extra =>
    have hc : add.contains p.1 = true := by simp [Dict.contains, h]
    simp [hc]

/-! #### lookup-level description of the three helpers -/

/-- value stored under key `k` for atom `a` in a two-level dict -/
def dget (d : Dict Int Attrs) (a : Int) (k : String) : Option Val := (d.get? a).bind (·.get? k)

/-- every inner dict is a real dict -/
def InnerWF (d : Dict Int Attrs) : Prop := ∀ a e, d.get? a = some e → WF e

theorem innerWF_empty : InnerWF (Dict.empty : Dict Int Attrs) := by
  intro a e h; simp at h

/-- the last value given for atom `a` in a list of (atom, value) entries -/
def lastWins (es : List (Int × Int)) (a : Int) : Option Int :=
  ((es.filter (fun e => e.1 = a)).getLast?).map (·.2)

theorem lastWins_append (es₁ es₂ : List (Int × Int)) (a : Int) :
    lastWins (es₁ ++ es₂) a = (lastWins es₂ a).or (lastWins es₁ a) := by
  unfold lastWins
  rw [List.filter_append, List.getLast?_append]
  cases (es₂.filter (fun e => e.1 = a)).getLast? <;> simp

theorem lastWins_nil (a : Int) : lastWins [] a = none := rfl

theorem lastWins_singleton (t : Int × Int) (a : Int) :
    lastWins [t] a = if t.1 = a then some t.2 else none := by
  unfold lastWins
  by_cases h : t.1 = a <;> simp [List.filter_cons, h]

theorem dget_mergeStep (key : String) (d : Dict Int Attrs) (t : Int × Int) (a : Int) (k : String) :
    dget (mergeStep key d t) a k = if a = t.1 ∧ k = key then some (Val.int t.2) else dget d a k := by
  unfold dget mergeStep
  rw [get?_set]
  by_cases ha : a = t.1
  · subst ha
    simp only [if_true, Option.bind_some, get?_set, true_and]
    by_cases hk : k = key
    · simp [hk]
    · simp only [hk, if_false]
      cases d.get? t.1 <;> simp
  · simp [ha]

theorem innerWF_mergeStep (key : String) (d : Dict Int Attrs) (t : Int × Int) (h : InnerWF d) :
    InnerWF (mergeStep key d t) := by
  intro a e he
  unfold mergeStep at he
  rw [get?_set] at he
  by_cases ha : a = t.1
  · simp only [ha, if_true, Option.some.injEq] at he
    subst he
    apply wf_set
    cases hd : d.get? t.1 with
    | none => exact wf_empty
    | some e' => exact h _ _ hd
  · simp only [ha, if_false] at he
    exact h _ _ he

theorem mergeTuples_append (key : String) (es₁ es₂ : List (Int × Int)) (d : Dict Int Attrs) :
    mergeTuples key (es₁ ++ es₂) d = mergeTuples key es₂ (mergeTuples key es₁ d) := by
  simp [mergeTuples, List.foldl_append]

theorem innerWF_mergeTuples (key : String) (es : List (Int × Int)) (d : Dict Int Attrs) (h : InnerWF d) :
    InnerWF (mergeTuples key es d) := by
  induction es generalizing d with
  | nil => exact h
  | cons t es ih => exact ih _ (innerWF_mergeStep key d t h)

/-- `_merge_tuples_into_additional_attributes`: under `key`, the last entry for an atom wins; other keys
and other atoms are untouched -/
theorem dget_mergeTuples (key : String) (es : List (Int × Int)) (d : Dict Int Attrs) (a : Int) (k : String) :
    dget (mergeTuples key es d) a k =
      if k = key then ((lastWins es a).map Val.int).or (dget d a k) else dget d a k := by
  induction es using List.reverseRecOn with
  | nil => simp [mergeTuples, lastWins_nil]
  | append_singleton es t ih =>
    rw [mergeTuples_append]
    show dget (mergeStep key (mergeTuples key es d) t) a k = _
    rw [dget_mergeStep, ih, lastWins_append, lastWins_singleton]
    by_cases hk : k = key
    · by_cases ha : a = t.1
      · subst ha; simp [hk]
      · have : ¬ t.1 = a := fun e => ha e.symm
        simp [hk, ha, this]
    · simp [hk]

theorem lookup_map_snd {κ ν : Type} [DecidableEq κ] (l : List (κ × ν)) (f : κ × ν → ν) (a : κ) :
    (l.map (fun p => (p.1, f p))).lookup a = (l.lookup a).map (fun v => f (a, v)) := by
  induction l with
  | nil => rfl
  | cons p l ih =>
    obtain ⟨x, y⟩ := p
    by_cases h : a = x
    · subst h; simp [List.lookup_cons]
    · have : (a == x) = false := by simpa using h
      simp [List.lookup_cons, this, ih]

theorem nodup_keys_nonzero (old e : Attrs) (h : WF e) : ((nonzero old e).map Prod.fst).Nodup :=
  List.Nodup.sublist (List.Sublist.map _ List.filter_sublist) h

/-- `_merge_atom_attributes_and_additional_attributes` for one atom: zero values are dropped, a collected
mass is dropped if the atom already has a mass, the other collected values override -/
theorem mergeAtom_get? (add : Dict Int Attrs) (hadd : InnerWF add) (a : Int) (old : Attrs) (k : String) :
    (mergeAtom add (a, old)).get? k =
      match dget add a k with
      | some v => if v = Val.int 0 ∨ (k = "mass" ∧ (old.get? "mass").isSome = true) then old.get? k else some v
      | none => old.get? k := by
  unfold mergeAtom dget
  cases h : add.get? a with
  | none => simp
  | some extra =>
    have hw := hadd _ _ h
    simp only [Option.bind_some]
    rw [get?_update _ _ (wf_ofPairs _), get?_ofPairs _ (nodup_keys_nonzero _ _ hw)]
    unfold nonzero
    rw [lookup_filter _ hw]
    show ((extra.get? k).filter _).or _ = _
    rw [contains_eq_isSome]
    cases extra.get? k with
    | none => simp
    | some v =>
      by_cases hv : v = Val.int 0 <;> by_cases hk : k = "mass" <;>
        cases hm : (old.get? "mass").isSome <;> simp [Option.filter, hv, hk, hm]

theorem mergeAtom_wf (add : Dict Int Attrs) (p : Int × Attrs) (h : WF p.2) : WF (mergeAtom add p) := by
  unfold mergeAtom
  cases add.get? p.1 with
  | none => exact h
  | some extra => exact wf_updatePairs _ _ h

theorem mergeAdd_keys (atoms add : Dict Int Attrs) : (mergeAdd atoms add).keys = atoms.keys := by
  simp [mergeAdd, Dict.keys, List.map_map, Function.comp_def]

theorem mergeAdd_get? (atoms add : Dict Int Attrs) (a : Int) :
    (mergeAdd atoms add).get? a = (atoms.get? a).map (fun old => mergeAtom add (a, old)) := by
  unfold mergeAdd Dict.get?
  exact lookup_map_snd _ _ _

theorem clearAttr_keys (key : String) (atoms : Dict Int Attrs) : (clearAttr key atoms).keys = atoms.keys := by
  simp [clearAttr, Dict.keys, List.map_map, Function.comp_def]

theorem clearAttr_get? (key : String) (atoms : Dict Int Attrs) (a : Int) :
    (clearAttr key atoms).get? a = (atoms.get? a).map (fun old => old.erase key) := by
  unfold clearAttr Dict.get?
  exact lookup_map_snd _ (fun p : Int × Attrs => p.2.erase key) _

theorem clearAttr_wf (key : String) (atoms : Dict Int Attrs) (h : WF atoms) : WF (clearAttr key atoms) := by
  unfold WF at *; rw [clearAttr_keys]; exact h

/-- **item 3a**: contract of `_merge_tuples_into_additional_attributes` at lookup level -/
theorem _merge_tuples_into_additional_attributes_ok (env : DepEnv) (tuples : List (Int × Int)) (key : String)
    (add : Dict Int Attrs) :
    ∃ r, _merge_tuples_into_additional_attributes env tuples key add = .ok r ∧ (InnerWF add → InnerWF r) ∧
      ∀ a k, dget r a k =
        if k = key then ((lastWins tuples a).map Val.int).or (dget add a k) else dget add a k :=
  ⟨mergeTuples key tuples add, _merge_tuples_into_additional_attributes_eq env tuples key add,
    innerWF_mergeTuples key tuples add, dget_mergeTuples key tuples add⟩

/-- **item 3b**: `_clear_atom_attribute` at lookup level: the key is gone from every atom, every other
attribute of every atom is unchanged, the atoms and their order are unchanged -/
theorem _clear_atom_attribute_get? (env : DepEnv) (key : String) (atoms : Dict Int Attrs) (hwf : WF atoms) :
    ∃ r, _clear_atom_attribute env key atoms = .ok r ∧ r.keys = atoms.keys ∧
      ∀ a old, atoms.get? a = some old →
        ∃ new, r.get? a = some new ∧ ∀ k, new.get? k = if k = key then none else old.get? k := by
  refine ⟨clearAttr key atoms, _clear_atom_attribute_ok env key atoms hwf, clearAttr_keys key atoms, ?_⟩
  intro a old h
  refine ⟨old.erase key, by rw [clearAttr_get?, h]; rfl, fun k => get?_erase old key k⟩

/-- **item 3c**: contract of `_merge_atom_attributes_and_additional_attributes` at lookup level: zero values
are dropped, a collected mass is dropped when the atom already carries a mass (symbols D and T), the other
non-zero values override, everything else is unchanged -/
theorem _merge_atom_attributes_and_additional_attributes_ok (env : DepEnv) (atoms add : Dict Int Attrs)
    (hwf : WF atoms) (hadd : InnerWF add) :
    ∃ r, _merge_atom_attributes_and_additional_attributes env atoms add = .ok r ∧ r.keys = atoms.keys ∧
      ∀ a old, atoms.get? a = some old →
        ∃ new, r.get? a = some new ∧ ∀ k, new.get? k =
          match dget add a k with
          | some v => if v = Val.int 0 ∨ (k = "mass" ∧ (old.get? "mass").isSome = true) then old.get? k else some v
          | none => old.get? k := by
  refine ⟨mergeAdd atoms add, _merge_atom_attributes_and_additional_attributes_eq env atoms add hwf,
    mergeAdd_keys atoms add, ?_⟩
  intro a old h
  exact ⟨mergeAtom add (a, old), by rw [mergeAdd_get?, h]; rfl, fun k => mergeAtom_get? add hadd a old k⟩

/-! ### the fixed-column format of the property block (from the CTfile format text) -/

/-- a fixed-column field: `len` columns starting at (0-based) column `start`; a short line gives a
short or empty field -/
def field (l : Str) (start len : Nat) : Str := (l.drop start).take len

/-- value of an integer field: blank means 0 -/
def fieldInt (s : Str) : M Int := if s.all (· = ' ') then pure 0 else parseInt s

def parserException : Err := Err.custom "MolfileParserException"

/-- entry `i` of a property line `M  XXXnn8 aaa vvv aaa vvv …`: atom number in columns 10+8i…12+8i, value in
columns 14+8i…16+8i; the atom number must denote an atom. Result: (0-based atom index, value). -/
def propEntry (atoms : Dict Int Attrs) (l : Str) (i : Nat) : M (Int × Int) := do
  let a ← fieldInt (field l (10 + 8 * i) 3)
  let v ← fieldInt (field l (14 + 8 * i) 3)
  if atoms.contains (a - 1) then pure (a - 1, v) else throw parserException

/-- the entries of a property line: count in columns 6…8 -/
def propEntries (atoms : Dict Int Attrs) (l : Str) : M (List (Int × Int)) := do
  let n ← fieldInt (field l 6 3)
  (List.range n.toNat).mapM (propEntry atoms l)

inductive Kind where
  | chg | rad | iso
  deriving DecidableEq, Repr

/-- the attribute a property line sets -/
def Kind.key : Kind → String
  | .chg => "chg" | .rad => "rad" | .iso => "mass"

def Kind.tag : Kind → Str
  | .chg => py!"M  CHG" | .rad => py!"M  RAD" | .iso => py!"M  ISO"

/-- the kind of a property-block line, by its first six columns; `none` for unrelated lines -/
def lineKind (l : Str) : Option Kind :=
  if startswith l Kind.chg.tag then some .chg
  else if startswith l Kind.rad.tag then some .rad
  else if startswith l Kind.iso.tag then some .iso
  else none

def endLine : Str := py!"M  END"

/-- the CHG/RAD/ISO lines (kind, entries) before `M  END`, in file order, and whether `M  END` was found -/
def scanProps (atoms : Dict Int Attrs) : List Str → M (List (Kind × List (Int × Int)) × Bool)
  | [] => pure ([], false)
  | l :: ls =>
    match lineKind l with
    | some K => do
      let es ← propEntries atoms l
      let r ← scanProps atoms ls
      pure ((K, es) :: r.1, r.2)
    | none => if l = endLine then pure ([], true) else scanProps atoms ls

/-- the property lines up to `M  END`; a block without `M  END` is rejected -/
def propLines (atoms : Dict Int Attrs) (lines : List Str) : M (List (Kind × List (Int × Int))) := do
  let r ← scanProps atoms lines
  if r.2 then pure r.1 else throw parserException

/-- all entries of the lines of kind `K`, in file order -/
def entriesOf (pl : List (Kind × List (Int × Int))) (K : Kind) : List (Int × Int) :=
  (pl.filter (fun p => p.1 = K)).flatMap (·.2)

/-- "if any CHG or RAD line is present" -/
def supersedes (pl : List (Kind × List (Int × Int))) : Bool := pl.any (fun p => p.1 ≠ Kind.iso)

def kindOfKey (k : String) : Option Kind :=
  if k = "chg" then some .chg else if k = "rad" then some .rad else if k = "mass" then some .iso else none

/-- **the spec of the property block**, attribute by attribute: the value of attribute `k` of atom `a`
after the block, given its attributes `old` from the atom block.
* A mass that the atom block already gives (the symbols D and T denote hydrogen-2 and hydrogen-3) is kept,
  whatever the `M  ISO` entries say.
* Otherwise the last entry for this atom in the lines of the kind that sets `k` (CHG ↦ chg, RAD ↦ rad,
  ISO ↦ mass) gives the value, unless it is 0 (0 = "not set") or there is no such entry; then the value
  from the atom block stays — except that any CHG or RAD line discards the atom-block `chg` and `rad`. -/
def specGet (pl : List (Kind × List (Int × Int))) (a : Int) (old : Attrs) (k : String) : Option Val :=
  let fromAtomBlock : Option Val :=
    if supersedes pl = true ∧ (k = "chg" ∨ k = "rad") then none else old.get? k
  if k = "mass" ∧ (old.get? "mass").isSome = true then old.get? "mass"
  else
    match (kindOfKey k).bind (fun K => lastWins (entriesOf pl K) a) with
    | some v => if v = 0 then fromAtomBlock else some (Val.int v)
    | none => fromAtomBlock

/-- functional model of what the code computes (order of keys included) -/
def collectAdd (pl : List (Kind × List (Int × Int))) : Dict Int Attrs :=
  pl.foldl (fun d p => mergeTuples p.1.key p.2 d) Dict.empty

def applyProps (pl : List (Kind × List (Int × Int))) (atoms : Dict Int Attrs) : Dict Int Attrs :=
  mergeAdd (if supersedes pl then clearAttr "rad" (clearAttr "chg" atoms) else atoms) (collectAdd pl)

theorem innerWF_collectAdd (pl : List (Kind × List (Int × Int))) : InnerWF (collectAdd pl) := by
  unfold collectAdd
  generalize hd : (Dict.empty : Dict Int Attrs) = d
  have : InnerWF d := hd ▸ innerWF_empty
  clear hd
  induction pl generalizing d with
  | nil => exact this
  | cons p pl ih => exact ih _ (innerWF_mergeTuples _ _ _ this)

theorem entriesOf_append (pl₁ pl₂ : List (Kind × List (Int × Int))) (K : Kind) :
    entriesOf (pl₁ ++ pl₂) K = entriesOf pl₁ K ++ entriesOf pl₂ K := by
  simp [entriesOf, List.filter_append, List.flatMap_append]

theorem kindOfKey_key (K : Kind) : kindOfKey K.key = some K := by cases K <;> rfl

theorem kindOfKey_eq_some (k : String) (K : Kind) : kindOfKey k = some K ↔ k = K.key := by
  constructor
  · unfold kindOfKey
    intro h
    split_ifs at h with h1 h2 h3 <;> simp at h <;> subst h <;> assumption
  · rintro rfl; exact kindOfKey_key K

theorem dget_collectAdd (pl : List (Kind × List (Int × Int))) (a : Int) (k : String) :
    dget (collectAdd pl) a k = ((kindOfKey k).bind (fun K => lastWins (entriesOf pl K) a)).map Val.int := by
  induction pl using List.reverseRecOn with
  | nil =>
    simp only [collectAdd, List.foldl_nil, dget, get?_empty, Option.bind_none]
    cases kindOfKey k <;> simp [entriesOf, lastWins_nil]
  | append_singleton pl p ih =>
    obtain ⟨K, es⟩ := p
    have : collectAdd (pl ++ [(K, es)]) = mergeTuples K.key es (collectAdd pl) := by
      simp [collectAdd, List.foldl_append]
    rw [this, dget_mergeTuples, ih]
    by_cases hk : k = K.key
    · subst hk
      simp only [if_true, kindOfKey_key, Option.bind_some, entriesOf_append, lastWins_append]
      have : entriesOf [(K, es)] K = es := by simp [entriesOf]
      rw [this]
      cases lastWins es a <;> simp
    · simp only [hk, if_false]
      cases hK : kindOfKey k with
      | none => rfl
      | some K' =>
        have hne : K ≠ K' := by
          intro e; subst e; exact hk ((kindOfKey_eq_some _ _).1 hK)
        have : entriesOf [(K, es)] K' = [] := by simp [entriesOf, hne]
        simp [entriesOf_append, this]

theorem applyProps_keys (pl : List (Kind × List (Int × Int))) (atoms : Dict Int Attrs) :
    (applyProps pl atoms).keys = atoms.keys := by
  unfold applyProps
  rw [mergeAdd_keys]
  split
  · rw [clearAttr_keys, clearAttr_keys]
  · rfl

/-- the model meets the spec: same atoms in the same order, and every attribute of every atom is as
`specGet` says -/
theorem applyProps_get? (pl : List (Kind × List (Int × Int))) (atoms : Dict Int Attrs) (a : Int) (old : Attrs)
    (h : atoms.get? a = some old) :
    ∃ new, (applyProps pl atoms).get? a = some new ∧ (WF old → WF new) ∧
      ∀ k, new.get? k = specGet pl a old k := by
  have hval : ∀ v : Int, v ≠ 0 → Val.int v ≠ Val.int 0 := by
    intro v hv e; injection e with e; injection e with e; exact hv e
  unfold applyProps
  rw [mergeAdd_get?]
  by_cases hs : supersedes pl = true
  · simp only [hs, if_true, clearAttr_get?, h, Option.map_some]
    refine ⟨_, rfl, fun hw => mergeAtom_wf _ (a, _) (wf_erase _ _ (wf_erase _ _ hw)), fun k => ?_⟩
    rw [mergeAtom_get? _ (innerWF_collectAdd pl), dget_collectAdd]
    simp only [get?_erase]
    unfold specGet
    simp only [hs, true_and]
    by_cases hm : k = "mass" ∧ (old.get? "mass").isSome = true
    · obtain ⟨rfl, hm⟩ := hm
      cases (kindOfKey "mass").bind (fun K => lastWins (entriesOf pl K) a) <;> simp [hm]
    · have hm' : ¬ (k = "mass" ∧ (if "mass" = "rad" then none else if "mass" = "chg" then none
          else old.get? "mass").isSome = true) := by simpa using hm
      rw [if_neg hm]
      cases (kindOfKey k).bind (fun K => lastWins (entriesOf pl K) a) with
      | none =>
        simp only [Option.map_none]
        by_cases h1 : k = "rad" <;> by_cases h2 : k = "chg" <;> simp [h1, h2]
      | some v =>
        simp only [Option.map_some]
        by_cases hv : v = 0
        · subst hv
          by_cases h1 : k = "rad" <;> by_cases h2 : k = "chg" <;> simp [h1, h2]
        · simp only [hval v hv, hm', or_self, if_false, hv]
  · have hs' : supersedes pl = false := by simpa using hs
    simp only [hs', Bool.false_eq_true, if_false, h, Option.map_some]
    refine ⟨_, rfl, fun hw => mergeAtom_wf _ (a, _) hw, fun k => ?_⟩
    rw [mergeAtom_get? _ (innerWF_collectAdd pl), dget_collectAdd]
    unfold specGet
    simp only [hs', Bool.false_eq_true, false_and, if_false]
    by_cases hm : k = "mass" ∧ (old.get? "mass").isSome = true
    · obtain ⟨rfl, hm⟩ := hm
      cases (kindOfKey "mass").bind (fun K => lastWins (entriesOf pl K) a) <;> simp [hm]
    · rw [if_neg hm]
      cases (kindOfKey k).bind (fun K => lastWins (entriesOf pl K) a) with
      | none => rfl
      | some v =>
        simp only [Option.map_some]
        by_cases hv : v = 0
        · subst hv; simp
        · simp only [hval v hv, hm, or_self, if_false, hv]

/-! ### items 1 (first half) and 2 (general form): `_to_int` and `_parse_atom_value_assignments` read the columns -/

theorem dropWhile_reverse_dropWhile_eq_nil {α} (p : α → Bool) (s : List α) :
    ((s.dropWhile p).reverse.dropWhile p) = [] ↔ s.all p = true := by
  rw [List.dropWhile_eq_nil_iff]
  constructor
  · intro h
    have : s.dropWhile p = [] := by
      by_contra hne
      have h1 := List.head_dropWhile_not p hne
      have h2 := h ((s.dropWhile p).head hne) (by simp)
      simp [h2] at h1
    rw [List.dropWhile_eq_nil_iff] at this
    simpa using this
  · intro h
    have : s.dropWhile p = [] := by
      rw [List.dropWhile_eq_nil_iff]; simpa using h
    simp [this]

theorem stripChar_eq_nil (s : Str) (c : Char) : stripChar s c = [] ↔ s.all (· = c) = true := by
  unfold stripChar
  rw [List.reverse_eq_nil_iff]
  exact dropWhile_reverse_dropWhile_eq_nil _ _

theorem _to_int_eq (env : DepEnv) (s : Str) : _to_int env s = fieldInt s := by
  unfold _to_int fieldInt
  by_cases h : s.all (· = ' ') = true
  · have := (stripChar_eq_nil s ' ').2 h
    simp [truthy, this, h]
  · have : stripChar s ' ' ≠ [] := fun e => h ((stripChar_eq_nil s ' ').1 e)
    simp [truthy, this, h]

theorem slice_eq_field {α} (l : List α) (x y : Int) (a len : Nat) (hx : x = a) (hy : y = a + len) :
    slice l (some x) (some y) = (l.drop a).take len := by
  subst hx hy
  unfold slice clampIndex
  have h1 : ¬ ((a : Int) < 0) := by omega
  have h2 : ¬ ((a : Int) + len < 0) := by omega
  have h3 : ((a : Int) + len).toNat = a + len := by omega
  have h4 : (a : Int).toNat = a := by omega
  simp only [h1, h2, h3, h4, if_false]
  rw [List.drop_take]
  by_cases h : a ≤ l.length
  · rw [Nat.min_eq_left h, List.take_eq_take_iff]
    simp only [List.length_drop]
    omega
  · have e1 : l.drop a = [] := List.drop_eq_nil_of_le (by omega)
    have e2 : l.drop (min a l.length) = [] := List.drop_eq_nil_of_le (by omega)
    simp [e1, e2]
/-- a `for` loop that appends one computed item per iteration is `mapM` -/
theorem forIn_collect {α β : Type} (l : List α) (g : α → M β) (body : α → List β → M (ForInStep (List β)))
    (h : ∀ x ∈ l, ∀ acc, body x acc = (do let y ← g x; pure (.yield (acc ++ [y])))) (acc : List β) :
    forIn l acc body = (do let ys ← l.mapM g; pure (acc ++ ys)) := by
  induction l generalizing acc with
  | nil => simp
  | cons x l ih =>
    rw [List.forIn_cons, h x (by simp), List.mapM_cons]
    simp only [bind_assoc, Py.pure_eq_ok, Py.ok_bind]
    cases g x with
    | error e => rfl
    | ok y =>
      simp only [Py.ok_bind]
      rw [ih (fun z hz => h z (by simp [hz]))]
      cases l.mapM g with
      | error e => rfl
      | ok ys => simp

theorem _parse_atom_value_assignments_eq (env : DepEnv) (l : Str) (atoms : Dict Int Attrs) :
    _parse_atom_value_assignments env l atoms = propEntries atoms l := by
  unfold _parse_atom_value_assignments propEntries
  simp only [_to_int_eq, Py.pure_eq_ok, pyIter_list, pyAdd_int, pyAdd_list, _validate_atom_index, pyContains_dict]
  rw [slice_eq_field l 6 9 6 3 rfl rfl]
  show (fieldInt (field l 6 3) >>= _) = _
  cases fieldInt (field l 6 3) with
  | error e => rfl
  | ok n =>
    simp only [Py.ok_bind]
    rw [forIn_collect (g := fun i : Int => propEntry atoms l i.toNat)]
    · simp only [Py.range, List.mapM_map, List.nil_append]
      have : ((fun i : Int => propEntry atoms l i.toNat) ∘ Int.ofNat) = propEntry atoms l := by
        funext i; simp
      rw [this]
      cases List.mapM (propEntry atoms l) (List.range n.toNat) <;> rfl
    · intro i hi acc
      simp only [Py.range, List.mem_map, List.mem_range] at hi
      obtain ⟨j, hj, rfl⟩ := hi
      rw [slice_eq_field l _ _ (10 + 8 * j) 3 (by simp only [Int.ofNat_eq_natCast]; push_cast; ring) (by simp only [Int.ofNat_eq_natCast]; push_cast; ring),
        slice_eq_field l _ _ (14 + 8 * j) 3 (by simp only [Int.ofNat_eq_natCast]; push_cast; ring) (by simp only [Int.ofNat_eq_natCast]; push_cast; ring)]
      unfold propEntry field
      simp only [Int.ofNat_eq_natCast, Int.toNat_natCast, parserException, Py.pure_eq_ok, Py.throw_eq_error, bind_assoc]
      cases fieldInt (List.take 3 (List.drop (10 + 8 * j) l)) with
      | error e => rfl
      | ok a =>
        simp only [Py.ok_bind]
        cases fieldInt (List.take 3 (List.drop (14 + 8 * j) l)) with
        | error e => rfl
        | ok v =>
          simp only [Py.ok_bind]
          cases atoms.contains (a - 1) <;> rfl

/-! ### item 4: the property block -/

theorem supersedes_cons (p : Kind × List (Int × Int)) (r : List (Kind × List (Int × Int))) :
    supersedes (p :: r) = (decide (p.1 ≠ Kind.iso) || supersedes r) := by
  simp [supersedes]

/-- the scanning loop, for any loop body that treats the three kinds of lines as the format says -/
theorem block_loop (atoms : Dict Int Attrs)
    (body : Str → Bool × Dict Int Attrs × Bool → M (ForInStep (Bool × Dict Int Attrs × Bool)))
    (hprop : ∀ l K, lineKind l = some K → ∀ s, body l s = (do
      let es ← propEntries atoms l
      pure (.yield (s.1 || decide (K ≠ Kind.iso), mergeTuples K.key es s.2.1, s.2.2))))
    (hend : ∀ s, body endLine s = .ok (.done (s.1, s.2.1, true)))
    (hother : ∀ l, lineKind l = none → l ≠ endLine → ∀ s, body l s = .ok (.yield s))
    (lines : List Str) (reset : Bool) (add : Dict Int Attrs) (b : Bool) :
    forIn lines (reset, add, b) body = (do
      let r ← scanProps atoms lines
      pure (reset || supersedes r.1, r.1.foldl (fun d p => mergeTuples p.1.key p.2 d) add, b || r.2)) := by
  induction lines generalizing reset add with
  | nil => simp [scanProps, supersedes]
  | cons l ls ih =>
    rw [List.forIn_cons]
    unfold scanProps
    cases hk : lineKind l with
    | some K =>
      rw [hprop l K hk]
      simp only [Py.pure_eq_ok, bind_assoc, Py.ok_bind]
      cases propEntries atoms l with
      | error e => rfl
      | ok es =>
        simp only [Py.ok_bind, ih]
        cases scanProps atoms ls with
        | error e => rfl
        | ok r => simp [supersedes_cons, Bool.or_assoc]
    | none =>
      by_cases he : l = endLine
      · subst he
        rw [hend]
        simp [supersedes]
      · rw [hother l hk he]
        simp only [Py.ok_bind, ih, he, if_false]

theorem lineKind_endLine : lineKind endLine = none := by decide

theorem _parse_attribute_block_eq (env : DepEnv) (lines : List Str) (atoms : Dict Int Attrs) (hwf : WF atoms) :
    _parse_attribute_block env lines atoms = (do
      let pl ← propLines atoms lines
      pure (applyProps pl atoms)) := by
  unfold _parse_attribute_block
  simp only [Py.pure_eq_ok, pyIter_list, _parse_atom_value_assignments_eq,
    _merge_tuples_into_additional_attributes_eq, Py.ok_bind, bind_assoc]
  rw [block_loop atoms]
  · unfold propLines
    cases scanProps atoms lines with
    | error e => rfl
    | ok r =>
      obtain ⟨pl, b⟩ := r
      cases b
      · simp [parserException]
      · have hc := clearAttr_wf "chg" atoms hwf
        by_cases hs : supersedes pl = true
        · simp [truthy, hs, _clear_atom_attribute_ok, hwf, hc, clearAttr_wf,
            _merge_atom_attributes_and_additional_attributes_eq, applyProps, collectAdd]
        · simp [truthy, hs, _merge_atom_attributes_and_additional_attributes_eq, hwf, applyProps, collectAdd]
  · intro l K hk s
    unfold lineKind at hk
    cases K <;> split_ifs at hk with h1 h2 h3 <;> simp_all [Kind.tag, Kind.key]
  · intro s
    simp [endLine, startswith, pyEq, PyCmp.eq]
  · intro l hk he s
    unfold lineKind at hk
    split_ifs at hk with h1 h2 h3
    have : pyEq l py!"M  END" = false := by simpa [pyEq, PyCmp.eq, endLine] using he
    simp_all [Kind.tag]

/-! ### item 1: `int()` of a right-aligned decimal field -/

theorem isAsciiDigit_eq (c : Char) : isAsciiDigit c = c.isDigit := by
  unfold isAsciiDigit Char.isDigit
  simp only [Char.le_def, UInt32.le_iff_toNat_le]
  rw [Bool.eq_iff_iff]
  simp

theorem not_space_of_digit (c : Char) (h : c.isDigit = true) : isPySpace c = false := by
  by_contra hs
  rw [Bool.not_eq_false] at hs
  unfold isPySpace at hs
  simp only [decide_eq_true_eq] at hs
  rcases hs with rfl|rfl|rfl|rfl|rfl|rfl|rfl|rfl|rfl|rfl|rfl|rfl <;> exact absurd h (by decide)

theorem rstrip_eq_self (ds : Str) (h : ∀ hne : ds ≠ [], isPySpace (ds.getLast hne) = false) : rstrip ds = ds := by
  unfold rstrip
  have := (List.rdropWhile_eq_self_iff (p := isPySpace) (l := ds)).2 (by simpa using h)
  simpa [List.rdropWhile] using this


theorem digit_ne (c : Char) (h : c.isDigit = true) : c ≠ '-' ∧ c ≠ '+' ∧ c ≠ '_' := by
  refine ⟨?_, ?_, ?_⟩ <;> rintro rfl <;> exact absurd h (by decide)

theorem isInfixOf_uu (ds : Str) (hd : ∀ c ∈ ds, c ≠ '_') : isInfixOf (py!"__") ds = false := by
  unfold isInfixOf
  rw [List.any_eq_false]
  intro t ht
  rw [List.mem_tails] at ht
  cases t with
  | nil => simp
  | cons c t =>
    have : c ∈ ds := ht.subset (by simp)
    have := hd c this
    simp only [List.isPrefixOf]
    intro e
    simp at e
    exact absurd e.1.symm this

/-- the sign split of `parseInt` -/
def signSplit (t : Str) : Bool × Str :=
  match t with
  | '-' :: r => (true, r)
  | '+' :: r => (false, r)
  | r => (false, r)

theorem parseInt_unfold (s : Str) : parseInt s =
    (let p := signSplit (rstrip (s.dropWhile isPySpace))
     let okUnderscores : Bool := p.2.head? ≠ some '_' ∧ p.2.getLast? ≠ some '_' ∧ isInfixOf (py!"__") p.2 = false
     let ds' := p.2.filter (· ≠ '_')
     if ds' = [] ∨ ds'.all isAsciiDigit = false ∨ okUnderscores = false ∨ ds'.length > intMaxStrDigits then throw .value
     else pure (if p.1 then - (digitsToNat ds' : Int) else (digitsToNat ds' : Int))) := by
  rfl

theorem signSplit_minus (r : Str) : signSplit ('-' :: r) = (true, r) := rfl

theorem signSplit_digit (d : Char) (r : Str) (h1 : d ≠ '-') (h2 : d ≠ '+') : signSplit (d :: r) = (false, d :: r) := by
  unfold signSplit
  split
  · rename_i h; simp at h; exact absurd h.1 h1
  · rename_i h; simp at h; exact absurd h.1 h2
  · rfl


theorem digitsToNat_eq (ds : Str) : digitsToNat ds = Nat.ofDigitChars 10 ds 0 := rfl

/-- `int()` of optional blanks, an optional minus sign and a non-empty run of at most 4300 ASCII digits -/
theorem parseInt_digits (neg : Bool) (sp ds : Str) (hsp : ∀ c ∈ sp, isPySpace c = true) (hne : ds ≠ [])
    (hd : ∀ c ∈ ds, c.isDigit = true) (hlen : ds.length ≤ 4300) :
    parseInt (sp ++ (if neg then '-' :: ds else ds)) =
      .ok (if neg then - (digitsToNat ds : Int) else (digitsToNat ds : Int)) := by
  obtain ⟨d, ds', rfl⟩ := List.exists_cons_of_ne_nil hne
  have hd0 := hd d (by simp)
  have hnu : ∀ c ∈ d :: ds', c ≠ '_' := fun c hc => (digit_ne c (hd c hc)).2.2
  have hlast : isPySpace ((d :: ds').getLast (by simp)) = false :=
    not_space_of_digit _ (hd _ (List.getLast_mem _))
  have hfilter : (d :: ds').filter (fun c => decide (c ≠ '_')) = d :: ds' := by
    rw [List.filter_eq_self]; intro c hc; simpa using hnu c hc
  have hall : (d :: ds').all isAsciiDigit = true := by
    rw [List.all_eq_true]; intro c hc; rw [isAsciiDigit_eq]; exact hd c hc
  have hhead : (d :: ds').head? ≠ some '_' := by simpa using hnu d (by simp)
  have hgl : (d :: ds').getLast? ≠ some '_' := by
    rw [List.getLast?_eq_some_getLast (by simp)]
    intro e; injection e with e
    exact hnu _ (List.getLast_mem _) e
  have hinf := isInfixOf_uu (d :: ds') hnu
  have hlen' : ¬ (d :: ds').length > intMaxStrDigits := by unfold intMaxStrDigits; omega
  have hsplit : signSplit (rstrip ((sp ++ (if neg then '-' :: d :: ds' else d :: ds')).dropWhile isPySpace)) =
      (neg, d :: ds') := by
    cases neg
    · have h1 : (sp ++ d :: ds').dropWhile isPySpace = d :: ds' := by
        rw [List.dropWhile_append_of_pos hsp, List.dropWhile_cons_of_neg (by simp [not_space_of_digit d hd0])]
      have h2 : rstrip (d :: ds') = d :: ds' := rstrip_eq_self _ (fun _ => hlast)
      simp only [Bool.false_eq_true, if_false, h1, h2]
      exact signSplit_digit d ds' (digit_ne d hd0).1 (digit_ne d hd0).2.1
    · have h1 : (sp ++ '-' :: d :: ds').dropWhile isPySpace = '-' :: d :: ds' := by
        rw [List.dropWhile_append_of_pos hsp, List.dropWhile_cons_of_neg (by decide)]
      have h2 : rstrip ('-' :: d :: ds') = '-' :: d :: ds' :=
        rstrip_eq_self _ (fun _ => by simpa [List.getLast_cons] using hlast)
      simp only [if_true, h1, h2]
      rfl
  rw [parseInt_unfold]
  simp only [hsplit, hfilter, hall, hinf, hlen']
  simp
  exact ⟨hnu d (by simp), hgl⟩


theorem pyStrInt_eq (n : Int) :
    pyStrInt n = if 0 ≤ n then Nat.toDigits 10 n.toNat else '-' :: Nat.toDigits 10 (-n).toNat := by
  unfold pyStrInt
  rw [Int.toString_eq_repr, Int.repr_eq_if]
  split <;> simp

/-- `int(str(n)) == n`, also with leading blanks (right-aligned fields) -/
theorem parseInt_pyStrInt (sp : Str) (hsp : ∀ c ∈ sp, isPySpace c = true) (n : Int) (hn : n.natAbs < 10 ^ 4300) :
    parseInt (sp ++ pyStrInt n) = .ok n := by
  rw [pyStrInt_eq]
  by_cases h : 0 ≤ n
  · have := parseInt_digits false sp (Nat.toDigits 10 n.toNat) hsp Nat.toDigits_ne_nil
      (fun c hc => Nat.isDigit_of_mem_toDigits (by decide) (by decide) hc)
      ((Nat.length_toDigits_le_iff (by decide) (by decide)).2 (by omega))
    simp only [Bool.false_eq_true, if_false, digitsToNat_eq, Nat.ofDigitChars_ten_toDigits] at this
    rw [if_pos h, this]
    congr 1; omega
  · have := parseInt_digits true sp (Nat.toDigits 10 (-n).toNat) hsp Nat.toDigits_ne_nil
      (fun c hc => Nat.isDigit_of_mem_toDigits (by decide) (by decide) hc)
      ((Nat.length_toDigits_le_iff (by decide) (by decide)).2 (by omega))
    simp only [if_true, digitsToNat_eq, Nat.ofDigitChars_ten_toDigits] at this
    rw [if_neg h, this]
    congr 1; omega

theorem pyStrInt_ne_nil (n : Int) : pyStrInt n ≠ [] := by
  rw [pyStrInt_eq]; split <;> simp

theorem pyStrInt_not_blank (sp : Str) (n : Int) : (sp ++ pyStrInt n).all (· = ' ') = false := by
  rw [pyStrInt_eq]
  have key : ∀ m, (Nat.toDigits 10 m).all (· = ' ') = false := by
    intro m
    obtain ⟨d, ds, h⟩ := List.exists_cons_of_ne_nil (Nat.toDigits_ne_nil (n := m) (b := 10))
    have hd : d.isDigit = true := Nat.isDigit_of_mem_toDigits (b := 10) (n := m) (by decide) (by decide) (by rw [h]; simp)
    have : d ≠ ' ' := by rintro rfl; exact absurd hd (by decide)
    rw [h]; simp [this]
  split
  · simp [List.all_append, key]
  · simp [List.all_append, key]

theorem fieldInt_blank (s : Str) (h : ∀ c ∈ s, c = ' ') : fieldInt s = .ok 0 := by
  unfold fieldInt
  have : s.all (· = ' ') = true := by simpa using h
  simp [this]

theorem fieldInt_padLeft (n : Int) (w : Nat) (hn : n.natAbs < 10 ^ 4300) :
    fieldInt (padLeft (pyStrInt n) w ' ') = .ok n := by
  unfold fieldInt padLeft
  rw [pyStrInt_not_blank]
  simp only [Bool.false_eq_true, if_false]
  exact parseInt_pyStrInt _ (by intro c hc; rw [List.mem_replicate] at hc; rw [hc.2]; decide) n hn

/-- **item 1**: a blank field is 0; a right-aligned decimal field is its number -/
theorem _to_int_blank (env : DepEnv) (s : Str) (h : ∀ c ∈ s, c = ' ') : _to_int env s = .ok 0 := by
  rw [_to_int_eq]; exact fieldInt_blank s h

theorem _to_int_ok (env : DepEnv) (n : Int) (w : Nat) (hn : n.natAbs < 10 ^ 4300) :
    _to_int env (padLeft (pyStrInt n) w ' ') = .ok n := by
  rw [_to_int_eq]; exact fieldInt_padLeft n w hn

/-- the three-column rendering of a number -/
def fmt3 (n : Int) : Str := padLeft (pyStrInt n) 3 ' '

theorem length_pyStrInt_le3 (n : Int) (h1 : -99 ≤ n) (h2 : n ≤ 999) : (pyStrInt n).length ≤ 3 := by
  rw [pyStrInt_eq]
  split
  · exact (Nat.length_toDigits_le_iff (by decide) (by decide)).2 (by omega)
  · have := (Nat.length_toDigits_le_iff (b := 10) (n := (-n).toNat) (k := 2) (by decide) (by decide)).2 (by omega)
    simp only [List.length_cons]; omega

theorem length_fmt3 (n : Int) (h1 : -99 ≤ n) (h2 : n ≤ 999) : (fmt3 n).length = 3 := by
  have := length_pyStrInt_le3 n h1 h2
  simp only [fmt3, padLeft, List.length_append, List.length_replicate]; omega

theorem fieldInt_fmt3 (n : Int) (h1 : -99 ≤ n) (h2 : n ≤ 999) : fieldInt (fmt3 n) = .ok n :=
  fieldInt_padLeft n 3 (by
    have : (999 : Nat) < 10 ^ 4300 := by
      calc (999 : Nat) < 10 ^ 3 := by norm_num
        _ ≤ 10 ^ 4300 := Nat.pow_le_pow_right (by norm_num) (by norm_num)
    omega)


/-! ### item 2: property lines as the format renders them -/

/-- one entry ` aaa vvv` (8 columns) -/
def renderEntry (e : Nat × Int) : Str := ' ' :: fmt3 e.1 ++ ' ' :: fmt3 e.2

/-- `M  XXXnn8 aaa vvv …`: six-column tag, three-column count, then the entries -/
def renderProp (tag : Str) (es : List (Nat × Int)) : Str :=
  tag ++ fmt3 es.length ++ es.flatMap renderEntry

/-- the numbers fit their three columns -/
def EntryFits (e : Nat × Int) : Prop := e.1 ≤ 999 ∧ -99 ≤ e.2 ∧ e.2 ≤ 999

theorem length_renderEntry (e : Nat × Int) (h : EntryFits e) : (renderEntry e).length = 8 := by
  obtain ⟨h1, h2, h3⟩ := h
  simp only [renderEntry, List.length_cons, List.length_append, length_fmt3 e.1 (by omega) (by omega),
    length_fmt3 e.2 h2 h3]

theorem drop_len_add {α : Type} (l₁ l₂ : List α) (n k : Nat) (h : l₁.length = n) :
    (l₁ ++ l₂).drop (n + k) = l₂.drop k := by
  subst h
  rw [List.drop_append, List.drop_eq_nil_of_le (by omega)]
  simp

theorem drop_flatMap_renderEntry (es : List (Nat × Int)) (h : ∀ e ∈ es, EntryFits e) (i : Nat) :
    (es.flatMap renderEntry).drop (8 * i) = (es.drop i).flatMap renderEntry := by
  induction es generalizing i with
  | nil => simp
  | cons e es ih =>
    cases i with
    | zero => simp
    | succ i =>
      have hl := length_renderEntry e (h e (by simp))
      rw [List.flatMap_cons, List.drop_succ_cons, ← ih (fun x hx => h x (by simp [hx]))]
      rw [show 8 * (i + 1) = 8 + 8 * i by omega, drop_len_add _ _ _ _ hl]

theorem mapM_ok {α β : Type} (l : List α) (f : α → M β) (g : α → β) (h : ∀ x ∈ l, f x = .ok (g x)) :
    l.mapM f = .ok (l.map g) := by
  induction l with
  | nil => rfl
  | cons x l ih =>
    rw [List.mapM_cons, h x (by simp), ih (fun y hy => h y (by simp [hy]))]; rfl

theorem mapM_reject {α β : Type} (l : List α) (f : α → M β) (e : Err)
    (h : ∀ x ∈ l, (∃ y, f x = .ok y) ∨ f x = .error e) (hex : ∃ x ∈ l, f x = .error e) :
    l.mapM f = .error e := by
  induction l with
  | nil => simp at hex
  | cons x l ih =>
    rw [List.mapM_cons]
    rcases h x (by simp) with ⟨y, hy⟩ | hx
    · rw [hy]
      obtain ⟨z, hz, hze⟩ := hex
      have hzl : z ∈ l := by
        rcases List.mem_cons.1 hz with rfl | hzl
        · rw [hy] at hze; cases hze
        · exact hzl
      rw [ih (fun w hw => h w (by simp [hw])) ⟨z, hzl, hze⟩]; rfl
    · rw [hx]; rfl

theorem field_renderProp_count (tag : Str) (htag : tag.length = 6) (es : List (Nat × Int)) (hlen : es.length ≤ 999) :
    field (renderProp tag es) 6 3 = fmt3 es.length := by
  unfold field renderProp
  rw [List.append_assoc, List.drop_left' htag, List.take_left' (length_fmt3 _ (by omega) (by omega))]

theorem drop_renderProp (tag : Str) (htag : tag.length = 6) (es : List (Nat × Int)) (hlen : es.length ≤ 999)
    (h : ∀ e ∈ es, EntryFits e) (i : Nat) :
    (renderProp tag es).drop (9 + 8 * i) = (es.drop i).flatMap renderEntry := by
  unfold renderProp
  have : (tag ++ fmt3 es.length).length = 9 := by
    rw [List.length_append, htag, length_fmt3 _ (by omega) (by omega)]
  rw [drop_len_add _ _ _ _ this, drop_flatMap_renderEntry es h]

theorem propEntry_renderProp (atoms : Dict Int Attrs) (tag : Str) (htag : tag.length = 6) (es : List (Nat × Int))
    (hlen : es.length ≤ 999) (h : ∀ e ∈ es, EntryFits e) (i : Nat) (hi : i < es.length) :
    propEntry atoms (renderProp tag es) i =
      if atoms.contains ((es[i].1 : Int) - 1) then .ok ((es[i].1 : Int) - 1, es[i].2) else .error parserException := by
  have hf := h es[i] (List.getElem_mem hi)
  have hd : es.drop i = es[i] :: es.drop (i + 1) := List.drop_eq_getElem_cons hi
  have ha : field (renderProp tag es) (10 + 8 * i) 3 = fmt3 es[i].1 := by
    unfold field
    rw [show 10 + 8 * i = (9 + 8 * i) + 1 by omega, ← List.drop_drop, drop_renderProp tag htag es hlen h, hd,
      List.flatMap_cons]
    simp only [renderEntry, List.cons_append, List.drop_succ_cons, List.drop_zero, List.append_assoc]
    exact List.take_left' (length_fmt3 _ (by omega) (by have := hf.1; omega))
  have hv : field (renderProp tag es) (14 + 8 * i) 3 = fmt3 es[i].2 := by
    unfold field
    rw [show 14 + 8 * i = (9 + 8 * i) + 5 by omega, ← List.drop_drop, drop_renderProp tag htag es hlen h, hd,
      List.flatMap_cons]
    simp only [renderEntry, List.cons_append, List.drop_succ_cons, List.append_assoc]
    rw [show (4 : Nat) = 3 + 1 from rfl,
      drop_len_add _ _ 3 1 (length_fmt3 _ (by omega) (by have := hf.1; omega))]
    show List.take 3 (fmt3 es[i].2 ++ _) = _
    exact List.take_left' (length_fmt3 _ hf.2.1 hf.2.2)
  unfold propEntry
  rw [ha, hv, fieldInt_fmt3 _ (by omega) (by have := hf.1; omega), fieldInt_fmt3 _ hf.2.1 hf.2.2]
  simp only [Py.ok_bind]
  split <;> rfl


/-- what a rendered entry list means: 0-based atom index and value -/
def entryVals (es : List (Nat × Int)) : List (Int × Int) := es.map (fun e => ((e.1 : Int) - 1, e.2))

theorem propEntries_renderProp (atoms : Dict Int Attrs) (tag : Str) (htag : tag.length = 6) (es : List (Nat × Int))
    (hlen : es.length ≤ 999) (h : ∀ e ∈ es, EntryFits e)
    (hatoms : ∀ e ∈ es, atoms.contains ((e.1 : Int) - 1) = true) :
    propEntries atoms (renderProp tag es) = .ok (entryVals es) := by
  unfold propEntries
  rw [field_renderProp_count tag htag es hlen, fieldInt_fmt3 _ (by omega) (by omega)]
  simp only [Py.ok_bind, Int.toNat_natCast]
  rw [mapM_ok _ _ (fun i => (((es.getD i (0, 0)).1 : Int) - 1, (es.getD i (0, 0)).2))]
  · congr 1
    unfold entryVals
    apply List.ext_getElem
    · simp
    · intro i h1 h2
      simp at h1
      simp [h1]
  · intro i hi
    rw [List.mem_range] at hi
    rw [propEntry_renderProp atoms tag htag es hlen h i hi, if_pos (hatoms _ (List.getElem_mem hi))]
    simp [hi]

theorem propEntries_renderProp_reject (atoms : Dict Int Attrs) (tag : Str) (htag : tag.length = 6)
    (es : List (Nat × Int)) (hlen : es.length ≤ 999) (h : ∀ e ∈ es, EntryFits e)
    (hbad : ∃ e ∈ es, atoms.contains ((e.1 : Int) - 1) = false) :
    propEntries atoms (renderProp tag es) = .error parserException := by
  unfold propEntries
  rw [field_renderProp_count tag htag es hlen, fieldInt_fmt3 _ (by omega) (by omega)]
  simp only [Py.ok_bind, Int.toNat_natCast]
  apply mapM_reject
  · intro i hi
    rw [List.mem_range] at hi
    rw [propEntry_renderProp atoms tag htag es hlen h i hi]
    split
    · exact Or.inl ⟨_, rfl⟩
    · exact Or.inr rfl
  · obtain ⟨e, he, hc⟩ := hbad
    obtain ⟨i, hi, rfl⟩ := List.getElem_of_mem he
    refine ⟨i, List.mem_range.2 hi, ?_⟩
    rw [propEntry_renderProp atoms tag htag es hlen h i hi, hc]
    rfl

/-- **item 2**: the entries of a rendered property line are read back (0-based atom indices);
an atom number that is not an atom is rejected -/
theorem _parse_atom_value_assignments_ok (env : DepEnv) (atoms : Dict Int Attrs) (tag : Str) (htag : tag.length = 6)
    (es : List (Nat × Int)) (hlen : es.length ≤ 999) (h : ∀ e ∈ es, EntryFits e)
    (hatoms : ∀ e ∈ es, atoms.contains ((e.1 : Int) - 1) = true) :
    _parse_atom_value_assignments env (renderProp tag es) atoms = .ok (entryVals es) := by
  rw [_parse_atom_value_assignments_eq]; exact propEntries_renderProp atoms tag htag es hlen h hatoms

theorem _parse_atom_value_assignments_reject (env : DepEnv) (atoms : Dict Int Attrs) (tag : Str)
    (htag : tag.length = 6) (es : List (Nat × Int)) (hlen : es.length ≤ 999) (h : ∀ e ∈ es, EntryFits e)
    (hbad : ∃ e ∈ es, atoms.contains ((e.1 : Int) - 1) = false) :
    _parse_atom_value_assignments env (renderProp tag es) atoms = .error (Err.custom "MolfileParserException") := by
  rw [_parse_atom_value_assignments_eq]; exact propEntries_renderProp_reject atoms tag htag es hlen h hbad

/-! ### item 4, stated on the text of the property block -/

/-- **item 4 (accepting path)**: if the property lines up to `M  END` read as `pl`, the block succeeds;
the atoms and their order are unchanged and every attribute of every atom is as `specGet` says -/
theorem _parse_attribute_block_ok (env : DepEnv) (lines : List Str) (atoms : Dict Int Attrs)
    (pl : List (Kind × List (Int × Int))) (hwf : WF atoms) (hpl : propLines atoms lines = .ok pl) :
    ∃ r, _parse_attribute_block env lines atoms = .ok r ∧ r.keys = atoms.keys ∧
      ∀ a old, atoms.get? a = some old →
        ∃ new, r.get? a = some new ∧ (WF old → WF new) ∧ ∀ k, new.get? k = specGet pl a old k := by
  refine ⟨applyProps pl atoms, ?_, applyProps_keys pl atoms, fun a old h => applyProps_get? pl atoms a old h⟩
  rw [_parse_attribute_block_eq env lines atoms hwf, hpl]; rfl

/-- **item 4 (rejecting paths)**: a missing `M  END`, an unknown atom number or a malformed number field -/
theorem _parse_attribute_block_reject (env : DepEnv) (lines : List Str) (atoms : Dict Int Attrs) (e : Err)
    (hwf : WF atoms) (hpl : propLines atoms lines = .error e) :
    _parse_attribute_block env lines atoms = .error e := by
  rw [_parse_attribute_block_eq env lines atoms hwf, hpl]; rfl

/-- a line of the property block as a writer produces it -/
inductive Item where
  | prop (K : Kind) (es : List (Nat × Int))
  | other (s : Str)

def Item.render : Item → Str
  | .prop K es => renderProp K.tag es
  | .other s => s

/-- what the line says -/
def Item.parsed : Item → Option (Kind × List (Int × Int))
  | .prop K es => some (K, entryVals es)
  | .other _ => none

/-- legal lines: the numbers fit their columns and the atom numbers denote atoms; other lines are neither
CHG/RAD/ISO lines nor `M  END` (e.g. `M  STY…`, `G  …`, `V  …`, `A  …`) -/
def Item.Legal (atoms : Dict Int Attrs) : Item → Prop
  | .prop _ es => es.length ≤ 999 ∧ (∀ e ∈ es, EntryFits e) ∧ ∀ e ∈ es, atoms.contains ((e.1 : Int) - 1) = true
  | .other s => lineKind s = none ∧ s ≠ endLine

theorem lineKind_renderProp (K : Kind) (es : List (Nat × Int)) : lineKind (renderProp K.tag es) = some K := by
  cases K <;> simp [lineKind, renderProp, Kind.tag, startswith, List.isPrefixOf]

theorem tag_length (K : Kind) : K.tag.length = 6 := by cases K <;> rfl

theorem scanProps_cons (atoms : Dict Int Attrs) (l : Str) (ls : List Str) :
    scanProps atoms (l :: ls) = (match lineKind l with
      | some K => do
        let es ← propEntries atoms l
        let r ← scanProps atoms ls
        pure ((K, es) :: r.1, r.2)
      | none => if l = endLine then pure ([], true) else scanProps atoms ls) := by
  rw [scanProps]
  all_goals (cases lineKind l <;> rfl)

theorem scanProps_render (atoms : Dict Int Attrs) (items : List Item) (h : ∀ it ∈ items, it.Legal atoms)
    (rest : List Str) :
    scanProps atoms (items.map Item.render ++ rest) = (do
      let r ← scanProps atoms rest
      pure (items.filterMap Item.parsed ++ r.1, r.2)) := by
  induction items with
  | nil => simp; cases scanProps atoms rest <;> rfl
  | cons it items ih =>
    have hit := h it (by simp)
    have ih' := ih (fun x hx => h x (by simp [hx]))
    cases it with
    | prop K es =>
      obtain ⟨h1, h2, h3⟩ := hit
      simp only [List.map_cons, List.cons_append, Item.render]
      rw [scanProps_cons, lineKind_renderProp]
      simp only [propEntries_renderProp atoms K.tag (tag_length K) es h1 h2 h3, Py.ok_bind, ih']
      cases scanProps atoms rest with
      | error e => rfl
      | ok r => simp [Item.parsed, List.filterMap_cons]
    | other s =>
      obtain ⟨h1, h2⟩ := hit
      simp only [List.map_cons, List.cons_append, Item.render]
      rw [scanProps_cons, h1]
      simp only [h2, if_false, ih']
      cases scanProps atoms rest with
      | error e => rfl
      | ok r => simp [Item.parsed, List.filterMap_cons]

/-- legal lines followed by `M  END` (and anything after it) read as what they say -/
theorem propLines_render (atoms : Dict Int Attrs) (items : List Item) (h : ∀ it ∈ items, it.Legal atoms)
    (post : List Str) :
    propLines atoms (items.map Item.render ++ endLine :: post) = .ok (items.filterMap Item.parsed) := by
  unfold propLines
  rw [scanProps_render atoms items h]
  have : scanProps atoms (endLine :: post) = .ok ([], true) := by
    rw [scanProps_cons, lineKind_endLine]; simp
  simp [this]

/-- without `M  END` the block is rejected -/
theorem propLines_render_noEnd (atoms : Dict Int Attrs) (items : List Item) (h : ∀ it ∈ items, it.Legal atoms) :
    propLines atoms (items.map Item.render) = .error parserException := by
  unfold propLines
  have := scanProps_render atoms items h []
  rw [List.append_nil] at this
  rw [this]
  simp [scanProps]

/-- an unknown atom number in a property line before `M  END` is rejected -/
theorem propLines_render_badAtom (atoms : Dict Int Attrs) (items : List Item) (h : ∀ it ∈ items, it.Legal atoms)
    (K : Kind) (es : List (Nat × Int)) (hlen : es.length ≤ 999) (hfit : ∀ e ∈ es, EntryFits e)
    (hbad : ∃ e ∈ es, atoms.contains ((e.1 : Int) - 1) = false) (post : List Str) :
    propLines atoms (items.map Item.render ++ renderProp K.tag es :: post) = .error parserException := by
  unfold propLines
  rw [scanProps_render atoms items h]
  have : scanProps atoms (renderProp K.tag es :: post) = .error parserException := by
    rw [scanProps_cons, lineKind_renderProp]
    simp only [propEntries_renderProp_reject atoms K.tag (tag_length K) es hlen hfit hbad]
    rfl
  simp [this]

/-- **C08, property block**: the composition of the above -/
theorem _parse_attribute_block_render_ok (env : DepEnv) (atoms : Dict Int Attrs) (hwf : WF atoms)
    (items : List Item) (h : ∀ it ∈ items, it.Legal atoms) (post : List Str) :
    ∃ r, _parse_attribute_block env (items.map Item.render ++ endLine :: post) atoms = .ok r ∧
      r.keys = atoms.keys ∧
      ∀ a old, atoms.get? a = some old →
        ∃ new, r.get? a = some new ∧ (WF old → WF new) ∧
          ∀ k, new.get? k = specGet (items.filterMap Item.parsed) a old k :=
  _parse_attribute_block_ok env _ atoms _ hwf (propLines_render atoms items h post)

theorem _parse_attribute_block_render_noEnd (env : DepEnv) (atoms : Dict Int Attrs) (hwf : WF atoms)
    (items : List Item) (h : ∀ it ∈ items, it.Legal atoms) :
    _parse_attribute_block env (items.map Item.render) atoms = .error (Err.custom "MolfileParserException") :=
  _parse_attribute_block_reject env _ atoms _ hwf (propLines_render_noEnd atoms items h)

theorem _parse_attribute_block_render_badAtom (env : DepEnv) (atoms : Dict Int Attrs) (hwf : WF atoms)
    (items : List Item) (h : ∀ it ∈ items, it.Legal atoms)
    (K : Kind) (es : List (Nat × Int)) (hlen : es.length ≤ 999) (hfit : ∀ e ∈ es, EntryFits e)
    (hbad : ∃ e ∈ es, atoms.contains ((e.1 : Int) - 1) = false) (post : List Str) :
    _parse_attribute_block env (items.map Item.render ++ renderProp K.tag es :: post) atoms =
      .error (Err.custom "MolfileParserException") :=
  _parse_attribute_block_reject env _ atoms _ hwf (propLines_render_badAtom atoms items h K es hlen hfit hbad post)

/-! ### item 5: atom lines and bond lines -/

/-- value of a coordinate field: blank means (integer) 0, otherwise `float()` of the field -/
def fieldFloat (env : DepEnv) (s : Str) : M Val :=
  if s.all (· = ' ') then pure (Val.int 0) else do
    let f ← env.parseFloat s
    pure (Val.flt f)

theorem _to_float_eq (env : DepEnv) (s : Str) : _to_float env s = fieldFloat env s := by
  unfold _to_float fieldFloat
  by_cases h : s.all (· = ' ') = true
  · have := (stripChar_eq_nil s ' ').2 h
    simp [truthy, this, h, toVal]
  · have : stripChar s ' ' ≠ [] := fun e => h ((stripChar_eq_nil s ' ').1 e)
    simp [truthy, this, h]
    cases env.parseFloat s <;> rfl

/-- D and T denote hydrogen-2 and hydrogen-3: (element symbol, isotope mass or 0) -/
def hydrogenIsotope (sym : Str) : Str × Int :=
  if sym = py!"D" then (py!"H", 2) else if sym = py!"T" then (py!"H", 3) else (sym, 0)

theorem detect_hydrogen_isotopes_ok (env : DepEnv) (sym : Str) :
    Tucan.element_attributes.detect_hydrogen_isotopes env sym = .ok (hydrogenIsotope sym) := by
  unfold Tucan.element_attributes.detect_hydrogen_isotopes hydrogenIsotope
  simp only [Py.pure_eq_ok, pyEq, PyCmp.eq, decide_eq_true_eq]
  split_ifs <;> rfl

/-- the charge code `ccc` of the atom block -/
def chargeOfCode (c : Int) : List (String × Val) :=
  if c = 1 then [("chg", Val.int 3)]
  else if c = 2 then [("chg", Val.int 2)]
  else if c = 3 then [("chg", Val.int 1)]
  else if c = 4 then [("rad", Val.int 2)]
  else if c = 5 then [("chg", Val.int (-1))]
  else if c = 6 then [("chg", Val.int (-2))]
  else if c = 7 then [("chg", Val.int (-3))]
  else []

/-- the attributes of an atom read from an atom line -/
def atomAttrs (sym : Str) (z fx fy fz : Val) (c m : Int) : Attrs :=
  ⟨[("element_symbol", Val.str sym), ("atomic_number", z), ("partition", Val.int 0),
    ("x_coord", fx), ("y_coord", fy), ("z_coord", fz)]
    ++ chargeOfCode c ++ (if m = 0 then [] else [("mass", Val.int m)])⟩

theorem charges_getD (c : Int) :
    Tucan.Consts.MOLFILE_V2000_CHARGES.getD c Dict.empty = ⟨chargeOfCode c⟩ := by
  unfold chargeOfCode
  split_ifs with h1 h2 h3 h4 h5 h6 h7
  all_goals (try subst_vars)
  all_goals (try rfl)
  have e1 : (c == 1) = false := by simpa using h1
  have e2 : (c == 2) = false := by simpa using h2
  have e3 : (c == 3) = false := by simpa using h3
  have e4 : (c == 4) = false := by simpa using h4
  have e5 : (c == 5) = false := by simpa using h5
  have e6 : (c == 6) = false := by simpa using h6
  have e7 : (c == 7) = false := by simpa using h7
  simp only [Tucan.Consts.MOLFILE_V2000_CHARGES, Dict.getD, Dict.get?, List.lookup, e1, e2, e3, e4, e5, e6, e7]
  rfl


theorem chargeOfCode_cases (c : Int) :
    chargeOfCode c = [] ∨ ∃ v, chargeOfCode c = [("chg", v)] ∨ chargeOfCode c = [("rad", v)] := by
  unfold chargeOfCode
  split_ifs
  all_goals first | exact Or.inl rfl | exact Or.inr ⟨_, Or.inl rfl⟩ | exact Or.inr ⟨_, Or.inr rfl⟩

theorem getItem_elem (d : Dict Str Attrs) (k : Str) (v : Attrs) (h : d.get? k = some v) :
    (getItem d k : M Attrs) = .ok v := by
  simp only [getItem, toKey, id_eq, h]; rfl

theorem getItem_attr (d : Attrs) (k : String) (v : Val) (h : d.get? k = some v) :
    (getItem d k : M Val) = .ok v := by
  simp only [getItem, toKey, id_eq, h]; rfl

/-- **item 5a**: an atom line, read by columns: coordinates 0–29, symbol 31–33, charge code 36–38 -/
theorem _parse_atom_line_ok (env : DepEnv) (line sym : Str) (ea : Attrs) (z fx fy fz : Val) (c : Int)
    (hsym : stripChar (field line 31 3) ' ' = sym)
    (hea : Tucan.Consts.ELEMENT_ATTRS.get? (hydrogenIsotope sym).1 = some ea)
    (hz : ea.get? "atomic_number" = some z)
    (hx : fieldFloat env (field line 0 10) = .ok fx)
    (hy : fieldFloat env (field line 10 10) = .ok fy)
    (hzc : fieldFloat env (field line 20 10) = .ok fz)
    (hc : fieldInt (field line 36 3) = .ok c) :
    _parse_atom_line env line =
      .ok (atomAttrs (hydrogenIsotope sym).1 z fx fy fz c (hydrogenIsotope sym).2) := by
  unfold _parse_atom_line
  simp only [Py.pure_eq_ok, Py.ok_bind, _to_int_eq, _to_float_eq, detect_hydrogen_isotopes_ok]
  rw [slice_eq_field line 31 34 31 3 rfl rfl, slice_eq_field line 0 10 0 10 rfl rfl,
    slice_eq_field line 10 20 10 10 rfl rfl, slice_eq_field line 20 30 20 10 rfl rfl,
    slice_eq_field line 36 39 36 3 rfl rfl]
  simp only [field] at hsym hx hy hzc hc
  rw [hsym, getItem_elem _ _ _ hea]
  simp only [Py.ok_bind, getItem_attr _ _ _ hz, hx, hy, hzc, hc, charges_getD, setItem_attrs, toVal]
  unfold atomAttrs
  by_cases hm : (hydrogenIsotope sym).2 = 0
  · rcases chargeOfCode_cases c with h0 | ⟨v, h1 | h1⟩
    · simp [truthy, hm, h0, Dict.ofPairs, Dict.update, Dict.set, Dict.contains, Dict.get?, Dict.empty]
    · simp [truthy, hm, h1, Dict.ofPairs, Dict.update, Dict.set, Dict.contains, Dict.get?, Dict.empty]
    · simp [truthy, hm, h1, Dict.ofPairs, Dict.update, Dict.set, Dict.contains, Dict.get?, Dict.empty]
  · rcases chargeOfCode_cases c with h0 | ⟨v, h1 | h1⟩
    · simp [truthy, hm, h0, Dict.ofPairs, Dict.update, Dict.set, Dict.contains, Dict.get?, Dict.empty]
    · simp [truthy, hm, h1, Dict.ofPairs, Dict.update, Dict.set, Dict.contains, Dict.get?, Dict.empty]
    · simp [truthy, hm, h1, Dict.ofPairs, Dict.update, Dict.set, Dict.contains, Dict.get?, Dict.empty]


/-- a bond line `111222ttt…` read by columns: both atom numbers must denote atoms -/
def bondLine (atoms : Dict Int Attrs) (line : Str) : M ((Int × Int) × Attrs) := do
  let a ← fieldInt (field line 0 3)
  let b ← fieldInt (field line 3 3)
  if atoms.contains (a - 1) && atoms.contains (b - 1) then do
    let t ← fieldInt (field line 6 3)
    pure ((a - 1, b - 1), ⟨[("bond_type", Val.int t)]⟩)
  else throw parserException

/-- **item 5b** (general form, including the rejecting path) -/
theorem _parse_bond_line_eq (env : DepEnv) (line : Str) (atoms : Dict Int Attrs) :
    _parse_bond_line env line atoms = bondLine atoms line := by
  unfold _parse_bond_line bondLine
  simp only [Py.pure_eq_ok, Py.ok_bind, _to_int_eq, _validate_atom_index, pyContains_dict]
  rw [slice_eq_field line 0 3 0 3 rfl rfl, slice_eq_field line 3 6 3 3 rfl rfl,
    slice_eq_field line 6 9 6 3 rfl rfl]
  simp only [field]
  cases fieldInt (List.take 3 (List.drop 0 line)) with
  | error e => rfl
  | ok a =>
    cases fieldInt (List.take 3 (List.drop 3 line)) with
    | error e => rfl
    | ok b =>
      simp only [Py.ok_bind]
      by_cases h1 : atoms.contains (a - 1) = true <;> by_cases h2 : atoms.contains (b - 1) = true <;>
        simp [h1, h2, parserException] <;> cases fieldInt (List.take 3 (List.drop 6 line)) <;> rfl

/-- **item 5b**: a bond line as the format renders it -/
theorem _parse_bond_line_ok (env : DepEnv) (atoms : Dict Int Attrs) (a b t : Nat) (rest : Str)
    (ha : a ≤ 999) (hb : b ≤ 999) (ht : t ≤ 999)
    (hca : atoms.contains ((a : Int) - 1) = true) (hcb : atoms.contains ((b : Int) - 1) = true) :
    _parse_bond_line env (fmt3 a ++ fmt3 b ++ fmt3 t ++ rest) atoms =
      .ok (((a : Int) - 1, (b : Int) - 1), ⟨[("bond_type", Val.int t)]⟩) := by
  have la := length_fmt3 a (by omega) (by omega)
  have lb := length_fmt3 b (by omega) (by omega)
  have lt := length_fmt3 t (by omega) (by omega)
  have f0 : field (fmt3 a ++ fmt3 b ++ fmt3 t ++ rest) 0 3 = fmt3 a := by
    simp only [field, List.drop_zero, List.append_assoc]; exact List.take_left' la
  have f3 : field (fmt3 a ++ fmt3 b ++ fmt3 t ++ rest) 3 3 = fmt3 b := by
    simp only [field, List.append_assoc]
    rw [List.drop_left' la]; exact List.take_left' lb
  have f6 : field (fmt3 a ++ fmt3 b ++ fmt3 t ++ rest) 6 3 = fmt3 t := by
    simp only [field]
    rw [List.append_assoc, List.drop_left' (by rw [List.length_append, la, lb])]; exact List.take_left' lt
  rw [_parse_bond_line_eq]
  unfold bondLine
  rw [f0, f3, f6, fieldInt_fmt3 _ (by omega) (by omega), fieldInt_fmt3 _ (by omega) (by omega),
    fieldInt_fmt3 _ (by omega) (by omega)]
  simp [hca, hcb]

theorem _parse_bond_line_reject (env : DepEnv) (atoms : Dict Int Attrs) (a b : Nat) (rest : Str)
    (ha : a ≤ 999) (hb : b ≤ 999)
    (hbad : atoms.contains ((a : Int) - 1) = false ∨ atoms.contains ((b : Int) - 1) = false) :
    _parse_bond_line env (fmt3 a ++ fmt3 b ++ rest) atoms = .error (Err.custom "MolfileParserException") := by
  have la := length_fmt3 a (by omega) (by omega)
  have lb := length_fmt3 b (by omega) (by omega)
  have f0 : field (fmt3 a ++ fmt3 b ++ rest) 0 3 = fmt3 a := by
    simp only [field, List.drop_zero, List.append_assoc]; exact List.take_left' la
  have f3 : field (fmt3 a ++ fmt3 b ++ rest) 3 3 = fmt3 b := by
    simp only [field, List.append_assoc]
    rw [List.drop_left' la]; exact List.take_left' lb
  rw [_parse_bond_line_eq]
  unfold bondLine
  rw [f0, f3, fieldInt_fmt3 _ (by omega) (by omega), fieldInt_fmt3 _ (by omega) (by omega)]
  rcases hbad with h | h <;> simp [h, parserException]

/-! ### composition: `graph_attributes_from_molfile_v2000` -/

theorem enumerate_nil {α : Type} (s : Int) : enumerate ([] : List α) s = [] := rfl

theorem enumerate_cons {α : Type} (x : α) (xs : List α) (s : Int) :
    enumerate (x :: xs) s = (s, x) :: enumerate xs (s + 1) := by
  unfold enumerate
  simp only [List.length_cons, List.range_succ_eq_map, List.map_cons, List.map_map, List.zip_cons_cons]
  congr 1
  · simp
  · congr 1
    apply List.map_congr_left
    intro i _
    simp only [Function.comp, Int.ofNat_eq_natCast]
    push_cast; ring

theorem lookup_enumerate {α : Type} (l : List α) (s i : Int) :
    (enumerate l s).lookup i = if s ≤ i then l[(i - s).toNat]? else none := by
  induction l generalizing s with
  | nil => simp [enumerate_nil]
  | cons x xs ih =>
    rw [enumerate_cons, List.lookup_cons]
    by_cases h : i = s
    · subst h; simp
    · have : (i == s) = false := by simpa using h
      rw [this, ih]
      by_cases h2 : s ≤ i
      · have h3 : s + 1 ≤ i := by omega
        have h4 : (i - s).toNat = (i - (s + 1)).toNat + 1 := by omega
        simp [h2, h3, h4]
      · have h3 : ¬ s + 1 ≤ i := by omega
        simp [h2, h3]

theorem keys_enumerate {α : Type} (l : List α) (s : Int) :
    (enumerate l s).map Prod.fst = (List.range l.length).map (fun i : Nat => s + Int.ofNat i) := by
  unfold enumerate
  rw [List.map_fst_zip (by simp)]

theorem nodup_keys_enumerate {α : Type} (l : List α) (s : Int) : ((enumerate l s).map Prod.fst).Nodup := by
  rw [keys_enumerate]
  apply List.Nodup.map _ List.nodup_range
  intro a b h; simpa using h

theorem updatePairs_eq_append {κ ν : Type} [DecidableEq κ] (l : List (κ × ν)) (d : Dict κ ν)
    (h : (d.keys ++ l.map Prod.fst).Nodup) : d.updatePairs l = ⟨d.items ++ l⟩ := by
  induction l generalizing d with
  | nil => simp [Dict.updatePairs]
  | cons p l ih =>
    have hp : d.contains p.1 = false := by
      rw [← Bool.not_eq_true, contains_iff_mem_keys]
      intro hm
      exact (List.nodup_append.1 h).2.2 p.1 hm p.1 (by simp) rfl
    have hs : d.set p.1 p.2 = ⟨d.items ++ [p]⟩ := by simp [Dict.set, hp]
    show (d.set p.1 p.2).updatePairs l = _
    rw [hs, ih]
    · simp
    · simpa [Dict.keys, List.map_append] using h

theorem ofPairs_eq {κ ν : Type} [DecidableEq κ] (l : List (κ × ν)) (h : (l.map Prod.fst).Nodup) :
    Dict.ofPairs l = ⟨l⟩ := by
  have := updatePairs_eq_append l (Dict.empty : Dict κ ν) (by simpa [Dict.keys, Dict.empty] using h)
  simp only [Dict.empty, List.nil_append] at this
  exact this

/-- the atom dict built from the atom block: atom `i` (0-based) ↦ its attributes -/
def atomDict (attrs : List Attrs) : Dict Int Attrs := ⟨enumerate attrs 0⟩

theorem atomDict_wf (attrs : List Attrs) : WF (atomDict attrs) := nodup_keys_enumerate attrs 0

theorem atomDict_get? (attrs : List Attrs) (i : Int) :
    (atomDict attrs).get? i = if 0 ≤ i then attrs[i.toNat]? else none := by
  unfold atomDict Dict.get?
  rw [lookup_enumerate]; simp

theorem atomDict_contains (attrs : List Attrs) (i : Int) :
    (atomDict attrs).contains i = decide (0 ≤ i ∧ i < attrs.length) := by
  rw [contains_eq_isSome, atomDict_get?]
  by_cases h : 0 ≤ i
  · simp only [h, if_true, true_and]
    by_cases h2 : i < attrs.length
    · have : i.toNat < attrs.length := by omega
      simp [h2, this]
    · have : attrs.length ≤ i.toNat := by omega
      simp [h2, this]
  · simp [h]

theorem atomDict_keys (attrs : List Attrs) : (atomDict attrs).keys = Py.range attrs.length := by
  unfold atomDict Dict.keys
  rw [keys_enumerate]
  simp only [Py.range, Int.toNat_natCast]
  apply List.map_congr_left
  intro i _; simp

theorem _parse_atom_block_ok (env : DepEnv) (lines : List Str) (attrs : List Attrs)
    (h : List.Forall₂ (fun l a => _parse_atom_line env l = .ok a) lines attrs) :
    _parse_atom_block env lines = .ok (atomDict attrs) := by
  unfold _parse_atom_block
  simp only [Py.pure_eq_ok, pyIter_list]
  have key : ∀ s : Int, listComp (enumerate lines s) (fun x => do
        let __do_lift ← _parse_atom_line env x.2
        Except.ok (some (x.1, __do_lift))) = .ok (enumerate attrs s) := by
    induction h with
    | nil => intro s; rfl
    | cons hx _ ih =>
      intro s
      rw [enumerate_cons, enumerate_cons, listComp, hx, ih (s + 1)]
      rfl
  rw [key 0]
  simp only [Py.ok_bind, ofPairs_eq _ (nodup_keys_enumerate attrs 0)]
  rfl

theorem _parse_bond_block_ok (env : DepEnv) (lines : List Str) (atoms : Dict Int Attrs)
    (bonds : List ((Int × Int) × Attrs))
    (h : List.Forall₂ (fun l b => _parse_bond_line env l atoms = .ok b) lines bonds) :
    _parse_bond_block env lines atoms = .ok (Dict.ofPairs bonds) := by
  unfold _parse_bond_block
  simp only [Py.pure_eq_ok, pyIter_list]
  have key : listComp lines (fun line => do
        let __do_lift ← _parse_bond_line env line atoms
        Except.ok (some __do_lift)) = .ok bonds := by
    induction h with
    | nil => rfl
    | cons hx _ ih => rw [listComp, hx, ih]; rfl
  rw [key]; rfl

theorem slice_from {α : Type} (l : List α) (x : Int) (a : Nat) (hx : x = a) : slice l (some x) none = l.drop a := by
  subst hx
  unfold slice clampIndex
  have h1 : ¬ ((a : Int) < 0) := by omega
  simp only [h1, if_false, Int.toNat_natCast, List.take_length]
  by_cases h : a ≤ l.length
  · rw [Nat.min_eq_left h]
  · rw [List.drop_eq_nil_of_le (by omega), List.drop_eq_nil_of_le (by omega)]


/-- the blocks are cut out of the file as the counts line says (note: the property block is scanned from
`lll` lines after the start of the bond block, i.e. the bond lines are scanned as well and must be
"unrelated lines" for it) -/
theorem graph_attributes_from_molfile_v2000_eq (env : DepEnv) (h0 h1 h2 counts : Str)
    (atomLines bondLines rest : List Str) (nl : Nat)
    (hna : fieldInt (field counts 0 3) = .ok atomLines.length)
    (hnb : fieldInt (field counts 3 3) = .ok bondLines.length)
    (hnl : fieldInt (field counts 6 3) = .ok nl) :
    graph_attributes_from_molfile_v2000 env (h0 :: h1 :: h2 :: counts :: (atomLines ++ (bondLines ++ rest))) = (do
      let atoms ← _parse_atom_block env atomLines
      let bonds ← _parse_bond_block env bondLines atoms
      let r ← _parse_attribute_block env ((bondLines ++ rest).drop nl) atoms
      pure (r, bonds)) := by
  unfold graph_attributes_from_molfile_v2000
  have hg : (getItem (h0 :: h1 :: h2 :: counts :: (atomLines ++ (bondLines ++ rest))) (3 : Int) : M Str) = .ok counts := by
    simp [getItem, listGet, normIndex]
  simp only [Py.pure_eq_ok, _to_int_eq, pyAdd_int, hg, Py.ok_bind]
  rw [slice_eq_field counts 0 3 0 3 rfl rfl, slice_eq_field counts 3 6 3 3 rfl rfl,
    slice_eq_field counts 6 9 6 3 rfl rfl]
  simp only [field] at hna hnb hnl
  simp only [hna, hnb, hnl, Py.ok_bind]
  rw [slice_eq_field _ 4 _ 4 atomLines.length rfl (by push_cast; ring),
    slice_eq_field _ _ _ (4 + atomLines.length) bondLines.length (by push_cast; ring) (by push_cast; ring),
    slice_from _ _ (4 + atomLines.length + nl) (by push_cast; ring)]
  have e1 : List.take atomLines.length (List.drop 4 (h0 :: h1 :: h2 :: counts :: (atomLines ++ (bondLines ++ rest)))) =
      atomLines := by simp
  have e2 : List.take bondLines.length (List.drop (4 + atomLines.length)
      (h0 :: h1 :: h2 :: counts :: (atomLines ++ (bondLines ++ rest)))) = bondLines := by
    rw [show 4 + atomLines.length = atomLines.length + 4 by omega]
    simp
  have e3 : List.drop (4 + atomLines.length + nl) (h0 :: h1 :: h2 :: counts :: (atomLines ++ (bondLines ++ rest))) =
      (bondLines ++ rest).drop nl := by
    rw [show 4 + atomLines.length + nl = (atomLines.length + nl) + 4 by omega]
    simp only [List.drop_succ_cons]
    rw [← List.drop_drop, List.drop_left]
  rw [e1, e2, e3]


theorem mem_fmt3_nat (a : Nat) : ∀ c ∈ fmt3 (a : Int), c = ' ' ∨ c.isDigit = true := by
  intro c hc
  unfold fmt3 padLeft at hc
  rw [pyStrInt_eq, if_pos (by omega), List.mem_append] at hc
  rcases hc with hc | hc
  · exact Or.inl (List.mem_replicate.1 hc).2
  · exact Or.inr (Nat.isDigit_of_mem_toDigits (by decide) (by decide) hc)

/-- a line that starts with a three-column number (a bond line, an atom-list line) is an unrelated line
for the property block -/
theorem lineKind_numberLine (a : Nat) (rest : Str) :
    lineKind (fmt3 a ++ rest) = none ∧ fmt3 a ++ rest ≠ endLine := by
  have hne : fmt3 (a : Int) ≠ [] := by
    unfold fmt3 padLeft
    simp [pyStrInt_ne_nil]
  obtain ⟨c, cs, hcs⟩ := List.exists_cons_of_ne_nil hne
  have hc : c ≠ 'M' := by
    rcases mem_fmt3_nat a c (by rw [hcs]; simp) with h | h
    · rw [h]; decide
    · rintro rfl; exact absurd h (by decide)
  have hc' : ¬ 'M' = c := fun e => hc e.symm
  rw [hcs]
  constructor
  · simp [lineKind, Kind.tag, startswith, List.isPrefixOf, hc, hc']
  · simp [endLine, hc]

/-- **C08, whole connection table** (files without atom-list lines): header, counts line, atom block,
bond block, property block up to `M  END`. The bonds are those of the bond block; the atoms are those of
the atom block with the property block applied as `specGet` says. -/
theorem graph_attributes_from_molfile_v2000_ok (env : DepEnv) (h0 h1 h2 counts : Str)
    (atomLines bondLines : List Str) (attrs : List Attrs) (bonds : List ((Int × Int) × Attrs))
    (items : List Item) (post : List Str)
    (hna : fieldInt (field counts 0 3) = .ok atomLines.length)
    (hnb : fieldInt (field counts 3 3) = .ok bondLines.length)
    (hnl : fieldInt (field counts 6 3) = .ok 0)
    (hatoms : List.Forall₂ (fun l a => _parse_atom_line env l = .ok a) atomLines attrs)
    (hbonds : List.Forall₂ (fun l b => _parse_bond_line env l (atomDict attrs) = .ok b) bondLines bonds)
    (hbl : ∀ l ∈ bondLines, lineKind l = none ∧ l ≠ endLine)
    (hitems : ∀ it ∈ items, it.Legal (atomDict attrs)) :
    ∃ r, graph_attributes_from_molfile_v2000 env
        (h0 :: h1 :: h2 :: counts :: (atomLines ++ (bondLines ++ (items.map Item.render ++ endLine :: post)))) =
        .ok (r, Dict.ofPairs bonds) ∧
      r.keys = Py.range attrs.length ∧
      ∀ (i : Nat) (hi : i < attrs.length), ∃ new, r.get? (i : Int) = some new ∧ (WF attrs[i] → WF new) ∧
        ∀ k, new.get? k = specGet (items.filterMap Item.parsed) i attrs[i] k := by
  have hit : ∀ it ∈ bondLines.map Item.other ++ items, it.Legal (atomDict attrs) := by
    intro it hit
    rcases List.mem_append.1 hit with h | h
    · obtain ⟨l, hl, rfl⟩ := List.mem_map.1 h
      exact hbl l hl
    · exact hitems it h
  have hr : (bondLines.map Item.other ++ items).map Item.render = bondLines ++ items.map Item.render := by
    simp [List.map_append, List.map_map, Function.comp_def, Item.render]
  have hp : (bondLines.map Item.other ++ items).filterMap Item.parsed = items.filterMap Item.parsed := by
    rw [List.filterMap_append]
    have : (bondLines.map Item.other).filterMap Item.parsed = [] := by
      rw [List.filterMap_eq_nil_iff]; intro x hx
      obtain ⟨l, _, rfl⟩ := List.mem_map.1 hx; rfl
    rw [this, List.nil_append]
  obtain ⟨r, hr1, hr2, hr3⟩ := _parse_attribute_block_render_ok env (atomDict attrs) (atomDict_wf attrs)
    (bondLines.map Item.other ++ items) hit post
  rw [hr, List.append_assoc] at hr1
  rw [hp] at hr3
  refine ⟨r, ?_, ?_, ?_⟩
  · rw [graph_attributes_from_molfile_v2000_eq env h0 h1 h2 counts atomLines bondLines _ 0 hna hnb hnl,
      _parse_atom_block_ok env atomLines attrs hatoms]
    simp only [Py.ok_bind, _parse_bond_block_ok env bondLines _ bonds hbonds, List.drop_zero, hr1]
    rfl
  · rw [hr2, atomDict_keys]
  · intro i hi
    have : (atomDict attrs).get? (i : Int) = some attrs[i] := by
      rw [atomDict_get?]; simp [hi]
    exact hr3 i attrs[i] this

/-! ### reading `specGet` -/

/-- attributes other than `chg`, `rad`, `mass` (element symbol, atomic number, coordinates, partition)
are never touched by the property block -/
theorem specGet_other (pl : List (Kind × List (Int × Int))) (a : Int) (old : Attrs) (k : String)
    (h1 : k ≠ "chg") (h2 : k ≠ "rad") (h3 : k ≠ "mass") : specGet pl a old k = old.get? k := by
  simp [specGet, kindOfKey, h1, h2, h3]

/-- isotope masses: a mass that the atom block already gives (D ↦ 2, T ↦ 3) stays, whatever CHG/RAD/ISO lines
there are; an atom without one gets the non-zero `M  ISO` entry for this very atom (the last one, if
several; 0 = not set) -/
theorem specGet_mass (pl : List (Kind × List (Int × Int))) (a : Int) (old : Attrs) :
    specGet pl a old "mass" =
      match old.get? "mass" with
      | some m => some m
      | none =>
        match lastWins (entriesOf pl .iso) a with
        | some v => if v = 0 then none else some (Val.int v)
        | none => none := by
  cases h : old.get? "mass" <;> simp [specGet, kindOfKey, h]
  all_goals (cases lastWins (entriesOf pl .iso) a <;> rfl)

/-- **D and T keep denoting hydrogen-2 and hydrogen-3 whatever the property lines say**: a mass given by the
atom block is the mass after the property block — unconditionally -/
theorem specGet_mass_of_isotope_symbol (pl : List (Kind × List (Int × Int))) (a : Int) (old : Attrs) (v : Val)
    (h : old.get? "mass" = some v) : specGet pl a old "mass" = some v := by
  rw [specGet_mass, h]

/-- an atom without a mass from the atom block: the last `M  ISO` entry for this atom, 0 = not set -/
theorem specGet_mass_of_no_isotope_symbol (pl : List (Kind × List (Int × Int))) (a : Int) (old : Attrs)
    (h : old.get? "mass" = none) :
    specGet pl a old "mass" =
      match lastWins (entriesOf pl .iso) a with
      | some v => if v = 0 then none else some (Val.int v)
      | none => none := by
  rw [specGet_mass, h]

theorem specGet_mass_kept (pl : List (Kind × List (Int × Int))) (a : Int) (old : Attrs)
    (h : ∀ v, lastWins (entriesOf pl .iso) a = some v → v = 0) :
    specGet pl a old "mass" = old.get? "mass" := by
  rw [specGet_mass]
  cases ho : old.get? "mass" with
  | some m => rfl
  | none =>
    cases hl : lastWins (entriesOf pl .iso) a with
    | none => rfl
    | some v => simp [h v hl]

/-- charges: with any CHG or RAD line in the block the atom-block charge is discarded -/
theorem specGet_chg (pl : List (Kind × List (Int × Int))) (a : Int) (old : Attrs) :
    specGet pl a old "chg" =
      match lastWins (entriesOf pl .chg) a with
      | some v => if v = 0 then (if supersedes pl then none else old.get? "chg") else some (Val.int v)
      | none => if supersedes pl then none else old.get? "chg" := by
  simp [specGet, kindOfKey]
  all_goals (cases lastWins (entriesOf pl .chg) a <;> rfl)

theorem specGet_rad (pl : List (Kind × List (Int × Int))) (a : Int) (old : Attrs) :
    specGet pl a old "rad" =
      match lastWins (entriesOf pl .rad) a with
      | some v => if v = 0 then (if supersedes pl then none else old.get? "rad") else some (Val.int v)
      | none => if supersedes pl then none else old.get? "rad" := by
  simp [specGet, kindOfKey]
  all_goals (cases lastWins (entriesOf pl .rad) a <;> rfl)

/-- no property lines: nothing changes -/
theorem specGet_nil (a : Int) (old : Attrs) (k : String) : specGet [] a old k = old.get? k := by
  unfold specGet
  by_cases hm : k = "mass" ∧ (old.get? "mass").isSome = true
  · rw [if_pos hm, hm.1]
  · rw [if_neg hm]
    cases kindOfKey k <;> simp [supersedes, entriesOf, lastWins_nil]

theorem hydrogenIsotope_D : hydrogenIsotope py!"D" = (py!"H", 2) := by decide
theorem hydrogenIsotope_T : hydrogenIsotope py!"T" = (py!"H", 3) := by decide
theorem hydrogenIsotope_other (s : Str) (h1 : s ≠ py!"D") (h2 : s ≠ py!"T") : hydrogenIsotope s = (s, 0) := by
  simp [hydrogenIsotope, h1, h2]

end Contracts.V2000

#print axioms Contracts.V2000._to_int_ok
#print axioms Contracts.V2000._parse_atom_value_assignments_eq
#print axioms Contracts.V2000._parse_atom_value_assignments_ok
#print axioms Contracts.V2000._merge_tuples_into_additional_attributes_eq
#print axioms Contracts.V2000._clear_atom_attribute_ok
#print axioms Contracts.V2000._merge_atom_attributes_and_additional_attributes_eq
#print axioms Contracts.V2000._parse_attribute_block_eq
#print axioms Contracts.V2000._parse_attribute_block_ok
#print axioms Contracts.V2000._parse_attribute_block_render_ok
#print axioms Contracts.V2000._parse_attribute_block_render_noEnd
#print axioms Contracts.V2000._parse_attribute_block_render_badAtom
#print axioms Contracts.V2000._parse_atom_line_ok
#print axioms Contracts.V2000._parse_bond_line_ok
#print axioms Contracts.V2000.graph_attributes_from_molfile_v2000_ok
