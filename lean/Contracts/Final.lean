/-
Contracts.Final — the last compositions: the graphs returned by the TUCAN parser and by the molfile
readers satisfy the hypotheses of the pipeline theorems (Contracts/Pipeline.lean), hence

 1. `IdOK` (identity facts), `IdOK.codeDetermines`, `InvariantCodeOK`, `graph_from_molecule_codeOK`,
    `parsed_ok` (parser), `read_ok` (V3000 reader), `graph_from_molecule_idOK` (any reader), `parsed_molOK`
 2. `C03_fixpoint_ex`, `C03_fixpoint`
                     — canonicalizing and serializing the parsed graph reproduces the identical string
 3. `C11_norm`, `C11_norm_text`, `C11_idem`, `C11_idem_text`, `tucan_of_empty`
                     — respellings have the same normal form; normalisation is idempotent;
                       the empty molecule (`/`) raises `ValueError` in the pipeline
 4. `C06_reader`, `C06_reader_text`, `C08_agree`
                     — connection tables (V3000 / V3000, V3000 / V2000) with the same identity data give the
                       same TUCAN string
 5. `writeRead_iso`, `C09_tucan`, `C09_string`
                     — string → graph → molfile → graph → string returns the original string, for radicals in
                       the molfile format's range 1..3 (the writer drops `RAD` values above 3:
                       `CH4/(1-4)(2-4)(3-4)(4-5)/(5:rad=4)` comes back as `CH4/(1-4)(2-4)(3-4)(4-5)`)
-/
import Contracts.Pipeline
import Contracts.RoundTrip
import Contracts.Reader
import Contracts.Writer
set_option autoImplicit false

open Py Py.Graph Contracts

namespace Contracts.Final
open Contracts.Partition (Carries)
open Contracts.Canonicalize (identityKeys CodeDetermines)
open Contracts.FinalLabels (fuelBound)
open Contracts.Pipeline (tucan C01_tucan C06_graph_half C15_tucan_total)
open Contracts.Parser (Ast treeOf denote Represents AbstractMol Atom periodicTable atomicNumber keys_eq_table table_ok
  codeOf withCode sortedSyms expand assoc num NumWf num_pos Key TPE)
open Contracts.RoundTrip (idKeys MolOK SmallPos IdIso SortedMol V4 graphFromTucan render astOf molOf Respell
  atomicNumber_inj)
open Contracts.Layout (tucanSpec)

/-! ## 1. the identity facts the pipeline theorems need -/

/-- the invariant code of atom `n` as a function of its attributes: `(atomic_number, mass or 0, rad or 0)`
(`graph_utils._add_invariant_code` with the defaults of `graph_from_molecule`) -/
def codeAt (g : Graph) (n : Int) : Val :=
  Val.mkTup [(g.attr n "atomic_number").getD Val.none, (g.attr n "mass").getD (Val.int 0),
    (g.attr n "rad").getD (Val.int 0)]

/-- every atom's `invariant_code` is the tuple of its atomic number, its mass or 0, its rad or 0 -/
def InvariantCodeOK (g : Graph) : Prop := ∀ n ∈ g.nodeList, g.attr n "invariant_code" = some (codeAt g n)

/-- a positive integer value -/
def PosIntVal (v : Val) : Prop := ∃ z : Int, 1 ≤ z ∧ v = Val.int z

theorem posIntVal_of_smallPos {v : Val} (h : SmallPos v) : PosIntVal v := by
  obtain ⟨i, h1, _, rfl⟩ := h; exact ⟨i, h1, rfl⟩

/-- What the readers and the parser guarantee about the identity data of a molecule graph: well formed; every
atom carries an element symbol of the periodic table with that element's atomic number; `mass` / `rad`, where
present, are positive integers; the invariant code is computed from atomic number, mass, rad. -/
structure IdOK (g : Graph) : Prop where
  wf : g.WF
  elem : ∀ i ∈ g.nodeList, ∃ s ∈ periodicTable, g.attr i "element_symbol" = some (Val.str s) ∧
    g.attr i "atomic_number" = some (Val.int (atomicNumber s))
  mass : ∀ i ∈ g.nodeList, ∀ v, g.attr i "mass" = some v → PosIntVal v
  rad : ∀ i ∈ g.nodeList, ∀ v, g.attr i "rad" = some v → PosIntVal v
  code : InvariantCodeOK g

theorem toSc_getD_inj {o o' : Option Val} (h : ∀ v, o = some v → PosIntVal v) (h' : ∀ v, o' = some v → PosIntVal v)
    (e : Val.toSc (o.getD (Val.int 0)) = Val.toSc (o'.getD (Val.int 0))) : o = o' := by
  cases o with
  | none =>
    cases o' with
    | none => rfl
    | some w =>
      obtain ⟨z, hz, rfl⟩ := h' w rfl
      simp only [Option.getD_none, Option.getD_some, Val.toSc, Sc.int.injEq] at e
      omega
  | some v =>
    obtain ⟨y, hy, rfl⟩ := h v rfl
    cases o' with
    | none =>
      simp only [Option.getD_none, Option.getD_some, Val.toSc, Sc.int.injEq] at e
      omega
    | some w =>
      obtain ⟨z, hz, rfl⟩ := h' w rfl
      simp only [Option.getD_some, Val.toSc, Sc.int.injEq] at e
      rw [e]

namespace IdOK
variable {g : Graph}

theorem carries_code (h : IdOK g) : Carries g "invariant_code" := by
  intro a ha; rw [h.code a ha]; rfl

theorem carries_Z (h : IdOK g) : Carries g "atomic_number" := by
  intro a ha
  obtain ⟨s, _, _, e⟩ := h.elem a ha
  rw [e]; rfl

/-- equal invariant codes ⇒ equal atomic number, mass, rad (as optional attributes) -/
theorem code_inj (h : IdOK g) {a b : Int} (ha : a ∈ g.nodeList) (hb : b ∈ g.nodeList)
    (e : g.attr a "invariant_code" = g.attr b "invariant_code") :
    g.attr a "atomic_number" = g.attr b "atomic_number" ∧ g.attr a "mass" = g.attr b "mass" ∧
      g.attr a "rad" = g.attr b "rad" := by
  rw [h.code a ha, h.code b hb] at e
  have e' := Option.some.inj e
  obtain ⟨sa, _, _, za⟩ := h.elem a ha
  obtain ⟨sb, _, _, zb⟩ := h.elem b hb
  unfold codeAt Val.mkTup at e'
  simp only [List.map_cons, List.map_nil, Val.tup.injEq, List.cons.injEq, and_true] at e'
  obtain ⟨e1, e2, e3⟩ := e'
  refine ⟨?_, toSc_getD_inj (h.mass a ha) (h.mass b hb) e2, toSc_getD_inj (h.rad a ha) (h.rad b hb) e3⟩
  rw [za, zb] at e1 ⊢
  simp only [Option.getD_some, Val.toSc, Sc.int.injEq] at e1
  rw [e1]

/-- **the `CodeDetermines` hypothesis of C01 / C04 / C06**: atoms with equal invariant code have equal element
symbol, atomic number, mass and rad -/
theorem codeDetermines (h : IdOK g) : ∀ key ∈ identityKeys, CodeDetermines g key := by
  intro key hk a ha b hb e
  obtain ⟨e1, e2, e3⟩ := h.code_inj ha hb e
  simp only [identityKeys, List.mem_cons, List.not_mem_nil, or_false] at hk
  rcases hk with rfl | rfl | rfl | rfl
  · obtain ⟨sa, hsa, ea, za⟩ := h.elem a ha
    obtain ⟨sb, _, eb, zb⟩ := h.elem b hb
    rw [za, zb] at e1
    have : atomicNumber sa = atomicNumber sb := by simpa using e1
    rw [ea, eb, atomicNumber_inj hsa this]
  · exact e1
  · exact e2
  · exact e3

end IdOK

/-- `RoundTrip.MolOK` (what the serializer needs) plus the code law is `IdOK` -/
theorem MolOK.idOK {m : Graph} (h : MolOK m) (hc : InvariantCodeOK m) : IdOK m where
  wf := h.wf
  elem := by
    intro i hi
    obtain ⟨s, hs, e1, e2⟩ := h.elem i hi
    rw [keys_eq_table] at hs
    exact ⟨s, hs, e1, by rw [e2, table_ok s hs]⟩
  mass := fun i hi v hv => posIntVal_of_smallPos (h.mass i hi v hv)
  rad := fun i hi v hv => posIntVal_of_smallPos (h.rad i hi v hv)
  code := hc

/-- an isomorphism carrying the identity attributes carries the invariant code, if both graphs obey the code law -/
theorem isIsoOn_code {π : Int → Int} {g h : Graph} (r : ∀ k ∈ idKeys, IsIsoOn k π g h)
    (cg : InvariantCodeOK g) (ch : InvariantCodeOK h) : IsIsoOn "invariant_code" π g h := by
  have r2 := r "atomic_number" (by decide)
  have r3 := r "mass" (by decide)
  have r4 := r "rad" (by decide)
  refine ⟨r2.inj, r2.nodes, ?_, r2.nbrs⟩
  intro n hn
  rw [ch _ (r2.mem_nodeList hn), cg n hn]
  unfold codeAt
  rw [r2.attr n hn, r3.attr n hn, r4.attr n hn]

/-- the code law is a statement about four attributes only -/
theorem invariantCodeOK_congr {g h : Graph} (hn : ∀ n, n ∈ h.nodeList → n ∈ g.nodeList)
    (ha : ∀ n ∈ h.nodeList, ∀ k ∈ ["atomic_number", "mass", "rad", "invariant_code"], h.attr n k = g.attr n k)
    (cg : InvariantCodeOK g) : InvariantCodeOK h := by
  intro n hn'
  unfold codeAt
  rw [ha n hn' "invariant_code" (by decide), ha n hn' "atomic_number" (by decide), ha n hn' "mass" (by decide),
    ha n hn' "rad" (by decide), cg n (hn n hn')]
  rfl

/-! ### a node whose attribute dict is `withCode A` obeys the code law -/

theorem attr_withCode_ne {g : Graph} {n : Int} {A : Attrs} (h : g.node.get? n = some (withCode A)) (k : String)
    (hk : k ≠ "invariant_code") : g.attr n k = A.get? k := by
  rw [Graph.attr_eq, h]; exact Reader.withCode_get?_ne A k hk

theorem attr_withCode_code {g : Graph} {n : Int} {A : Attrs} (h : g.node.get? n = some (withCode A)) :
    g.attr n "invariant_code" = some (codeAt g n) := by
  unfold codeAt
  rw [attr_withCode_ne h "atomic_number" (by decide), attr_withCode_ne h "mass" (by decide),
    attr_withCode_ne h "rad" (by decide), Graph.attr_eq, h]
  exact Reader.withCode_get?_code A

/-- **`graph_from_molecule` establishes the code law** (for arbitrary atom and bond dictionaries satisfying the
hypotheses of `Reader.graph_from_molecule_general`) -/
theorem graph_from_molecule_codeOK (env : DepEnv) (A : Dict Int Attrs) (B : Dict (Int × Int) Attrs)
    (h : Reader.MolOK A B) {g : Graph} {R : Dict Int Attrs}
    (e : Tucan.graph_utils.graph_from_molecule env A B = .ok (g, R)) : InvariantCodeOK g := by
  obtain ⟨g', R', hg, _, ng, ag, _⟩ := Reader.graph_from_molecule_general env A B h.wf h.attrs_wf h.z h.ends
  rw [e] at hg
  obtain ⟨rfl, rfl⟩ := Prod.mk.inj (Except.ok.inj hg)
  intro n hn
  rw [ng, Contracts.Parser.mem_range] at hn
  obtain ⟨i, rfl⟩ := Int.eq_ofNat_of_zero_le hn.1
  obtain ⟨k, a, _, _, hget, _, hidx⟩ := Reader.general_at A h.wf i (by exact_mod_cast hn.2)
  have := ag k a hget
  rw [hidx] at this
  exact attr_withCode_code this

/-! ### the parser: `Represents g mol` for a denoted molecule -/

/-- an atom of a denoted molecule: symbol of the table, its atomic number, listed mass / rad ≥ 1 -/
structure AtomWf (x : Atom) : Prop where
  sym : x.symbol ∈ periodicTable
  z : x.z = atomicNumber x.symbol
  mass : ∀ v, x.mass = some v → 1 ≤ v
  rad : ∀ v, x.rad = some v → 1 ≤ v

/-- what `denote` guarantees about the molecule of a well-formed syntax tree -/
structure MolWf (mol : AbstractMol) : Prop where
  atoms : ∀ x ∈ mol.atoms, AtomWf x
  noSelf : ∀ b ∈ mol.bonds, b.1 ≠ b.2

theorem settings_val_pos (a : Ast) (h : a.Wf) : ∀ s ∈ a.settings, 1 ≤ s.2 := by
  intro s hs
  simp only [Ast.settings, Ast.blocks, List.mem_flatMap, List.mem_map] at hs
  obtain ⟨b, hb, kv, hkv, rfl⟩ := hs
  cases ha : a.attrs with
  | none => simp [ha] at hb
  | some bs =>
    simp only [ha, Option.getD_some] at hb
    exact num_pos _ ((h.attrs bs ha b hb).2 kv hkv)

theorem assoc_mem {κ ν : Type} [DecidableEq κ] (l : List (κ × ν)) (k : κ) (v : ν) (h : assoc l k = some v) :
    (k, v) ∈ l := by
  unfold assoc at h
  obtain ⟨p, hp, rfl⟩ := Option.map_eq_some_iff.1 h
  have h1 := List.find?_some hp
  have h2 := List.mem_of_find?_eq_some hp
  simp only [decide_eq_true_eq] at h1
  rw [← h1]; exact h2

/-- **the denotation of a well-formed syntax tree is a well-formed molecule** (symbols from the table, `z` their
atomic number, listed masses / radicals ≥ 1 by the grammar's `greater_than_zero`, no bond from an atom to itself) -/
theorem denote_molWf {a : Ast} (h : a.Wf) {mol : AbstractMol} (e : denote a = .ok mol) : MolWf mol := by
  unfold denote at e
  split at e
  · cases e
  · rename_i hgood
    have hns : ¬ a.SelfBond := fun hc => hgood (Or.inr (Or.inl hc))
    obtain rfl := (Except.ok.inj e).symm
    constructor
    · intro x hx
      simp only [List.mem_map] at hx
      obtain ⟨si, hsi, rfl⟩ := hx
      have hmem : si.1 ∈ sortedSyms a := by
        rw [(List.mem_zipIdx' hsi).2]; exact List.getElem_mem _
      refine ⟨?_, rfl, ?_, ?_⟩
      · unfold sortedSyms at hmem
        rw [List.mem_mergeSort] at hmem
        simp only [expand, List.mem_flatMap] at hmem
        obtain ⟨p, hp, hrep⟩ := hmem
        rw [(List.mem_replicate.1 hrep).2]
        exact Contracts.Parser.wf_syms a h p hp
      · intro v hv
        obtain ⟨n, hn, rfl⟩ := Option.map_eq_some_iff.1 hv
        have := settings_val_pos a h _ (assoc_mem _ _ _ hn)
        simp only [Int.ofNat_eq_natCast]; omega
      · intro v hv
        obtain ⟨n, hn, rfl⟩ := Option.map_eq_some_iff.1 hv
        have := settings_val_pos a h _ (assoc_mem _ _ _ hn)
        simp only [Int.ofNat_eq_natCast]; omega
    · intro b hb
      simp only [List.mem_map] at hb
      obtain ⟨b1, hb1, rfl⟩ := hb
      have hp := Contracts.Parser.bonds1_pos a h b1 hb1
      intro heq
      simp only at heq
      exact hns ⟨b1, hb1, by omega⟩

/-- the graph of a well-formed molecule has the identity facts -/
theorem parsed_idOK {g : Graph} {mol : AbstractMol} (R : Represents g mol) (hm : MolWf mol) : IdOK g := by
  have hidx : ∀ i ∈ g.nodeList, ∃ n : Nat, i = (n : Int) ∧ n < mol.atoms.length := by
    intro i hi
    rw [R.nodes, Contracts.Parser.mem_range] at hi
    obtain ⟨n, rfl⟩ := Int.eq_ofNat_of_zero_le hi.1
    exact ⟨n, rfl, by exact_mod_cast hi.2⟩
  refine ⟨R.wf, ?_, ?_, ?_, ?_⟩
  · intro i hi
    obtain ⟨n, rfl, hn⟩ := hidx i hi
    obtain ⟨a1, a2, -⟩ := R.attrs n hn
    have hw := hm.atoms _ (List.getElem_mem hn)
    exact ⟨_, hw.sym, a1, by rw [a2, hw.z]⟩
  · intro i hi v hv
    obtain ⟨n, rfl, hn⟩ := hidx i hi
    obtain ⟨-, -, -, a4, -⟩ := R.attrs n hn
    rw [a4] at hv
    obtain ⟨z, hz, rfl⟩ := Option.map_eq_some_iff.1 hv
    exact ⟨z, (hm.atoms _ (List.getElem_mem hn)).mass z hz, rfl⟩
  · intro i hi v hv
    obtain ⟨n, rfl, hn⟩ := hidx i hi
    obtain ⟨-, -, -, -, a5, -⟩ := R.attrs n hn
    rw [a5] at hv
    obtain ⟨z, hz, rfl⟩ := Option.map_eq_some_iff.1 hv
    exact ⟨z, (hm.atoms _ (List.getElem_mem hn)).rad z hz, rfl⟩
  · intro i hi
    obtain ⟨n, rfl, hn⟩ := hidx i hi
    obtain ⟨-, a2, -, a4, a5, a6⟩ := R.attrs n hn
    unfold codeAt
    rw [a6, a2, a4, a5]
    cases mol.atoms[n].mass <;> cases mol.atoms[n].rad <;> rfl

theorem parsed_loopless {g : Graph} {mol : AbstractMol} (R : Represents g mol) (hm : MolWf mol) : g.Loopless := by
  intro u hu
  rw [R.bonds] at hu
  obtain ⟨b, hb, (⟨h1, h2⟩ | ⟨h1, h2⟩)⟩ := hu <;> exact hm.noSelf b hb (by omega)

/-- **Deliverable 1 (parser).** The graph `g` the TUCAN parser returns for a well-formed syntax tree `a` that it
accepts (`denote a = .ok mol`, `Represents g mol`: the postcondition `Parser.graph_from_tree_ok`) with at least one
atom satisfies every hypothesis of the pipeline theorems `C15_tucan_total`, `C01_tucan`, `C06_graph_half`:
well formed, non-empty, `invariant_code` and `atomic_number` carried, the code determines the identity attributes;
moreover the code law holds and there are no self-loops. -/
theorem parsed_ok {a : Ast} (ha : a.Wf) {mol : AbstractMol} (e : denote a = .ok mol) {g : Graph}
    (R : Represents g mol) (hne : mol.atoms ≠ []) :
    g.WF ∧ g.nodeList ≠ [] ∧ Carries g "invariant_code" ∧ Carries g "atomic_number" ∧
      (∀ key ∈ identityKeys, CodeDetermines g key) ∧ InvariantCodeOK g ∧ g.Loopless ∧ IdOK g := by
  have hm := denote_molWf ha e
  have ok := parsed_idOK R hm
  refine ⟨R.wf, ?_, ok.carries_code, ok.carries_Z, ok.codeDetermines, ok.code, parsed_loopless R hm, ok⟩
  rw [R.nodes]
  intro h
  have := congrArg List.length h
  rw [Contracts.RoundTrip.length_range] at this
  exact hne (List.eq_nil_of_length_eq_zero (by simpa using this))

/-! ### the readers: graphs built by `graph_from_molecule` -/

/-- an atom dictionary entry as the connection-table readers produce it (after validation): element symbol of the
table with its atomic number, `mass` / `rad` positive where present -/
structure AttrsOK (A : Attrs) : Prop where
  elem : ∃ s ∈ periodicTable, A.get? "element_symbol" = some (Val.str s) ∧
    A.get? "atomic_number" = some (Val.int (atomicNumber s))
  mass : ∀ v, A.get? "mass" = some v → PosIntVal v
  rad : ∀ v, A.get? "rad" = some v → PosIntVal v

/-- a well-formed graph all of whose nodes carry `withCode A` for an `AttrsOK A` has the identity facts -/
theorem idOK_of_withCode {g : Graph} (wg : g.WF)
    (h : ∀ n ∈ g.nodeList, ∃ A, g.node.get? n = some (withCode A) ∧ AttrsOK A) : IdOK g := by
  refine ⟨wg, ?_, ?_, ?_, ?_⟩
  · intro i hi
    obtain ⟨A, hA, ok⟩ := h i hi
    obtain ⟨s, hs, e1, e2⟩ := ok.elem
    exact ⟨s, hs, by rw [attr_withCode_ne hA _ (by decide), e1], by rw [attr_withCode_ne hA _ (by decide), e2]⟩
  · intro i hi v hv
    obtain ⟨A, hA, ok⟩ := h i hi
    rw [attr_withCode_ne hA _ (by decide)] at hv
    exact ok.mass v hv
  · intro i hi v hv
    obtain ⟨A, hA, ok⟩ := h i hi
    rw [attr_withCode_ne hA _ (by decide)] at hv
    exact ok.rad v hv
  · intro i hi
    obtain ⟨A, hA, _⟩ := h i hi
    exact attr_withCode_code hA

/-- **Deliverable 1 (`graph_from_molecule`).** The graph built from atom / bond dictionaries whose entries are
`AttrsOK` has the identity facts. -/
theorem graph_from_molecule_idOK (env : DepEnv) (A : Dict Int Attrs) (B : Dict (Int × Int) Attrs)
    (h : Reader.MolOK A B) (hA : ∀ p ∈ A.items, AttrsOK p.2) {g : Graph} {R : Dict Int Attrs}
    (e : Tucan.graph_utils.graph_from_molecule env A B = .ok (g, R)) : IdOK g := by
  obtain ⟨g', R', hg, wg, ng, ag, _⟩ := Reader.graph_from_molecule_general env A B h.wf h.attrs_wf h.z h.ends
  rw [e] at hg
  obtain ⟨rfl, rfl⟩ := Prod.mk.inj (Except.ok.inj hg)
  apply idOK_of_withCode wg
  intro n hn
  rw [ng, Contracts.Parser.mem_range] at hn
  obtain ⟨i, rfl⟩ := Int.eq_ofNat_of_zero_le hn.1
  obtain ⟨k, a, hit, _, hget, _, hidx⟩ := Reader.general_at A h.wf i (by exact_mod_cast hn.2)
  have := ag k a hget
  rw [hidx] at this
  exact ⟨a, this, hA (k, a) (List.mem_of_getElem? hit)⟩

/-- a symbol the element table knows is a symbol of the periodic table, with its atomic number -/
theorem atomicNumber_ok {el : Str} {Z : Val} (h : Contracts.V3000.atomicNumber el = .ok Z) :
    el ∈ periodicTable ∧ Z = Val.int (atomicNumber el) := by
  unfold Contracts.V3000.atomicNumber at h
  cases hget : Tucan.Consts.ELEMENT_ATTRS.get? el with
  | none => simp [hget] at h
  | some ea =>
    have hmem : el ∈ periodicTable := by
      rw [← keys_eq_table]; exact Dict.mem_keys_of_get? hget
    have ht := table_ok el hmem
    rw [hget] at ht
    simp only [Option.bind_some] at ht
    simp only [hget, ht, pure_eq_ok] at h
    exact ⟨hmem, (Except.ok.inj h).symm⟩

theorem propInt_ne_zero {props : List Contracts.V3000.Prop'} {K : Str} {m : Int}
    (h : Contracts.V3000.propInt props K = some m) : m ≠ 0 := by
  unfold Contracts.V3000.propInt Contracts.V3000.lastNonzero at h
  have := (Option.filter_eq_some_iff.1 h).2
  simpa using this

open Contracts.Reader (Ctab attrsOf fileMeaning SameIdentityCtab) in
/-- the attributes of an atom line of a readable, valid connection table are `AttrsOK`: zero `MASS=` / `RAD=`
values are dropped, negative ones are excluded by validity, D / T carry mass 2 / 3 -/
theorem attrsOf_ok (env : DepEnv) {C : Ctab} (h : C.Plain env) (hneg : ¬ C.NegMassRad)
    {a : Contracts.V3000.AtomLine} (ha : a ∈ C.atoms) : AttrsOK (attrsOf env a) := by
  obtain ⟨Z, hZ⟩ := h.known a ha
  obtain ⟨hmem, rfl⟩ := atomicNumber_ok hZ
  have g := Reader.mkAtomAttrs_get
  refine ⟨⟨_, hmem, ?_, ?_⟩, ?_, ?_⟩
  · simp only [attrsOf, Contracts.V3000.atomAttrs]; exact (g _ _ _ _ _ _ _ _).1
  · simp only [attrsOf, Contracts.V3000.atomAttrs, Reader.zOf, hZ]; exact (g _ _ _ _ _ _ _ _).2.1
  · intro v hv
    simp only [attrsOf, Contracts.V3000.atomAttrs, (g _ _ _ _ _ _ _ _).2.2.1] at hv
    obtain ⟨m, hm, rfl⟩ := Option.map_eq_some_iff.1 hv
    refine ⟨m, ?_, rfl⟩
    by_cases h0 : (Contracts.V3000.hydrogenIsotope a.sym).2 = 0
    · rw [if_pos h0] at hm
      have h1 := propInt_ne_zero hm
      have h2 : ¬ m < 0 := fun hlt => hneg ⟨a, ha, Or.inl ⟨h0, m, hm, hlt⟩⟩
      omega
    · rw [if_neg h0] at hm
      have := Contracts.V3000.hydrogenIsotope_mass a.sym
      have := Option.some.inj hm
      omega
  · intro v hv
    simp only [attrsOf, Contracts.V3000.atomAttrs, (g _ _ _ _ _ _ _ _).2.2.2] at hv
    obtain ⟨r, hr, rfl⟩ := Option.map_eq_some_iff.1 hv
    refine ⟨r, ?_, rfl⟩
    have h1 := propInt_ne_zero hr
    have h2 : ¬ r < 0 := fun hlt => hneg ⟨a, ha, Or.inr ⟨r, hr, hlt⟩⟩
    omega

open Contracts.Reader (Ctab attrsOf fileMeaning) in
/-- **Deliverable 1 (V3000 reader).** The graph read from a readable star-free connection table `C` that is valid
(no negative `MASS=` / `RAD=` value, no self-bond) and has at least one atom line satisfies every hypothesis of the
pipeline theorems. (Element symbols are from the table by `Ctab.Plain.known`; otherwise the reader raises
`KeyError`.) -/
theorem read_ok (env : DepEnv) (C : Ctab) (h : C.Plain env) (hneg : ¬ C.NegMassRad) (hself : ¬ C.SelfBond)
    (hne : C.atoms ≠ []) :
    ∃ g, fileMeaning env C = .ok g ∧ g.WF ∧ g.nodeList ≠ [] ∧ Carries g "invariant_code" ∧
      Carries g "atomic_number" ∧ (∀ key ∈ identityKeys, CodeDetermines g key) ∧ InvariantCodeOK g ∧
      g.Loopless ∧ IdOK g := by
  obtain ⟨g, hg, wg, ng, ag, bg⟩ := Reader.fileMeaning_plain_graph env C h hneg hself
  have hidx : ∀ n ∈ g.nodeList, ∃ (i : Nat) (a : Contracts.V3000.AtomLine), n = (i : Int) ∧ C.atoms[i]? = some a := by
    intro n hn
    rw [ng, Contracts.Parser.mem_range] at hn
    obtain ⟨i, rfl⟩ := Int.eq_ofNat_of_zero_le hn.1
    have hi : i < C.atoms.length := by exact_mod_cast hn.2
    exact ⟨i, C.atoms[i], rfl, by simp [hi]⟩
  have ok : IdOK g := by
    apply idOK_of_withCode wg
    intro n hn
    obtain ⟨i, a, rfl, hia⟩ := hidx n hn
    exact ⟨_, ag i a hia, attrsOf_ok env h hneg (List.mem_of_getElem? hia)⟩
  refine ⟨g, hg, wg, ?_, ok.carries_code, ok.carries_Z, ok.codeDetermines, ok.code, ?_, ok⟩
  · rw [ng]
    intro he
    have := congrArg List.length he
    rw [Contracts.RoundTrip.length_range] at this
    exact hne (List.eq_nil_of_length_eq_zero (by simpa using this))
  · intro u hu
    obtain ⟨i, a, rfl, hia⟩ := hidx u (wg.nbr_mem u u hu)
    obtain ⟨b, hb, hor⟩ := (bg i i a a hia hia).1 hu
    apply hself
    rcases hor with ⟨h1, h2⟩ | ⟨h1, h2⟩ <;> exact ⟨b, hb, by rw [h1, h2]⟩

/-! ## 2. C03, second clause: the parsed graph has the identical string -/

open Contracts.RoundTrip in
/-- **C03 (fixpoint), existence form.** `m`: a molecule graph fit for the pipeline (`MolOK`, at least one atom,
invariant code computed from atomic number / mass / rad — `graph_from_molecule_codeOK`). If the pipeline emits `s`
for `m` (`tucan env fuel m = .ok s`, `fuel ≥ fuelBound m`), then the parser (any `envp`) accepts `s`, and the graph `g` it
returns is again fit for the pipeline, needs the same fuel, and canonicalizing and serializing `g` — possibly with
another `set` iteration order `env₂` and any sufficient fuel — reproduces the identical string `s`. -/
theorem C03_fixpoint_ex (antlr : Str → Option PTree) (hV4 : V4 antlr) {env env₂ : DepEnv} (envp : DepEnv)
    (hs : env.SetLawful) (hs₂ : env₂.SetLawful) (hb : BlissLawful env)
    (hcp : env₂.canonicalPermutation = env.canonicalPermutation)
    (hpv : env₂.permuteVertices = env.permuteVertices)
    {m : Graph} {s : Str} (hm : MolOK m) (hne : m.nodeList ≠ []) (hcode : InvariantCodeOK m)
    (fuel : Nat) (hf : fuel ≥ fuelBound m) (e : tucan env fuel m = .ok s) :
    ∃ g, graphFromTucan antlr envp s = .ok g ∧ (∃ π, ∀ k ∈ idKeys, IsIsoOn k π m g) ∧
      MolOK g ∧ g.nodeList ≠ [] ∧ InvariantCodeOK g ∧ IdOK g ∧ fuelBound g = fuelBound m ∧
      ∀ fuel' ≥ fuelBound g, tucan env₂ fuel' g = .ok s := by
  have okm := MolOK.idOK hm hcode
  obtain ⟨c, ρ, hcan, wc, pc, ic'⟩ := RoundTrip.canonicalize_facts hs hb hm.wf hne okm.carries_code fuel
    (le_trans (Pipeline.length_le_fuelBound m) hf)
  have i' : ∀ k ∈ idKeys, IsIsoOn k ρ m c := fun k hk => ic' k (idKeys_ne_partition hk)
  have okc : MolOK c := hm.of_iso wc i'
  obtain ⟨ms, σ, hser, sm, iso2⟩ := serialize_molecule_sorted env hs fuel okc pc
    (by rw [fuelBound_iso (i' "mass" (by decide))]; exact hf)
  have hs' : s = tucanSpec ms := by
    unfold tucan at e
    simp only [hcan, hser, ok_bind, pure_eq_ok] at e
    exact (Except.ok.inj e).symm
  subst hs'
  -- the parser's result represents the printed molecule
  have hok := Contracts.Parser.graph_from_tree_ok envp (astOf ms) sm.astOf_wf
  rw [denote_astOf sm] at hok
  obtain ⟨g, hg, R⟩ := hok
  have p : graphFromTucan antlr envp (tucanSpec ms) = .ok g := by
    unfold graphFromTucan
    rw [tucanSpec_eq_render, hV4 _ sm.astOf_wf sm.in_grammar]
    exact hg
  obtain ⟨g'', hg'', gw, gn, idiso, _⟩ := C03_iso envp sm
  obtain rfl : g'' = g := Except.ok.inj (hg''.symm.trans hg)
  have isoAll : ∀ k ∈ idKeys, IsIsoOn k (id ∘ (σ ∘ ρ)) m g'' := fun k hk =>
    ((i' k hk).trans (iso2 k hk)).trans (idiso.symm.isIsoOn sm.wf gw hk)
  have okg : IdOK g'' := parsed_idOK R (denote_molWf sm.astOf_wf (denote_astOf sm))
  have hiso := isIsoOn_code isoAll hcode okg.code
  have fb : fuelBound g'' = fuelBound m := fuelBound_iso hiso
  have hne' : g''.nodeList ≠ [] := by
    intro h0
    have := hiso.nodes.length_eq
    rw [h0, List.length_map] at this
    exact hne (List.eq_nil_of_length_eq_zero this.symm)
  refine ⟨g'', p, ⟨_, isoAll⟩, hm.of_iso gw isoAll, hne', okg.code, okg, fb, ?_⟩
  intro fuel' hf'
  obtain ⟨s', e1, e2⟩ := C01_tucan hs hs₂ hb hcp hpv hm.wf gw hne okm.carries_code okm.carries_Z hiso
    (fun key hk n hn => (isoAll key hk).attr n hn) okm.codeDetermines fuel fuel' hf hf'
  rw [e] at e1
  cases e1
  exact e2

/-- **C03 (fixpoint).** If the pipeline emits `s` for `m` and the parser returns `g` for `s`, then canonicalizing
and serializing `g` reproduces the identical string `s` (hypotheses as in `C03_fixpoint_ex`). -/
theorem C03_fixpoint (antlr : Str → Option PTree) (hV4 : V4 antlr) {env env₂ : DepEnv} (envp : DepEnv)
    (hs : env.SetLawful) (hs₂ : env₂.SetLawful) (hb : BlissLawful env)
    (hcp : env₂.canonicalPermutation = env.canonicalPermutation)
    (hpv : env₂.permuteVertices = env.permuteVertices)
    {m g : Graph} {s : Str} (hm : MolOK m) (hne : m.nodeList ≠ []) (hcode : InvariantCodeOK m)
    (fuel : Nat) (hf : fuel ≥ fuelBound m)
    (e : tucan env fuel m = .ok s) (p : graphFromTucan antlr envp s = .ok g) :
    (∃ π, ∀ k ∈ idKeys, IsIsoOn k π m g) ∧
      MolOK g ∧ g.nodeList ≠ [] ∧ InvariantCodeOK g ∧ IdOK g ∧ fuelBound g = fuelBound m ∧
      ∀ fuel' ≥ fuelBound g, tucan env₂ fuel' g = .ok s := by
  obtain ⟨g', p', rest⟩ := C03_fixpoint_ex antlr hV4 envp hs hs₂ hb hcp hpv hm hne hcode fuel hf e
  obtain rfl : g' = g := Except.ok.inj (p'.symm.trans p)
  exact rest

/-! ## 3. C11: respellings have the same normal form; normalisation is idempotent -/

/-- graphs with the same atoms, attributes and bonds need the same fuel -/
theorem fuelBound_congr {g h : Graph} (hg : g.WF) (hh : h.WF) (hn : g.nodeList = h.nodeList)
    (hb : ∀ i j : Int, j ∈ g.nbrs i ↔ j ∈ h.nbrs i) : fuelBound g = fuelBound h := by
  unfold fuelBound
  rw [hn]
  have : h.nodeList.map (fun u => (g.nbrs u).length) = h.nodeList.map (fun u => (h.nbrs u).length) :=
    List.map_congr_left (fun u _ =>
      ((List.perm_ext_iff_of_nodup (hg.nodup_nbrs u) (hh.nodup_nbrs u)).2 (fun j => hb u j)).length_eq)
  rw [this]

/-! ### the empty molecule (the grammatical string `/`) -/

theorem items_nil_of_keys {κ ν : Type} (d : Dict κ ν) (h : d.keys = []) : d.items = [] := by
  unfold Dict.keys at h
  exact List.map_eq_nil_iff.1 h

theorem number_of_partitions_empty (env : DepEnv) {m : Graph} (h0 : m.nodeList = []) :
    Tucan.canonicalization.get_number_of_partitions env m = .error .value := by
  unfold Tucan.canonicalization.get_number_of_partitions
  have : m.node.items = [] := items_nil_of_keys _ h0
  simp [Graph.getNodeAttributes, this, Dict.values, maxOf]

/-- **the pipeline on a molecule without atoms raises `ValueError`** (`max()` of an empty sequence in
`get_number_of_partitions`), for every `set` order and every fuel ≥ 1. The string `/` is a sentence of the grammar
and is accepted by the parser (empty graph), so `norm "/"` is a `ValueError`, not a TUCAN string; this is outside
the precondition "at least one atom" of C15. -/
theorem tucan_of_empty (env : DepEnv) (hs : env.SetLawful) {m : Graph} (hw : m.WF) (h0 : m.nodeList = [])
    (fuel : Nat) (hf : 1 ≤ fuel) : tucan env fuel m = .error .value := by
  have c0 : Carries m "invariant_code" := by intro a ha; rw [h0] at ha; cases ha
  obtain ⟨r₀, e₀, s₀⟩ := Partition.partition_ok env hs hw "invariant_code" c0
  have n0 : r₀.nodeList = [] := s₀.nodes.trans h0
  have c1 : Carries r₀ "partition" := by intro a ha; rw [n0] at ha; cases ha
  obtain ⟨r₁, e₁, s₁⟩ := Partition.partition_ok env hs s₀.wf "partition" c1
  have n1 : r₁.nodeList = [] := s₁.nodes.trans n0
  obtain ⟨f, rfl⟩ : ∃ f, fuel = f + 1 := ⟨fuel - 1, by omega⟩
  have hr : Tucan.canonicalization.refine_partitions env (f + 1) r₀ = .error .value := by
    unfold Tucan.canonicalization.refine_partitions
    rw [List.range_succ_eq_map]
    simp only [List.forIn_cons, e₁, ok_bind, number_of_partitions_empty env n1, error_bind]
  unfold tucan Tucan.canonicalization.canonicalize_molecule
  simp only [e₀, hr, ok_bind, error_bind]

/-- **C11 (normal form, graph level).** `a`, `b`: well-formed syntax trees, `b` a meaning-preserving respelling
of `a` (`Respell`: tuples reordered / repeated / swapped, attribute blocks reordered / split / merged), both
accepted by the parser with results `ga`, `gb` (any two parser environments). Then the pipeline gives both graphs
the same result (any two lawful `set` orders, any sufficient fuels): the same string if there is at least one
atom, `ValueError` twice otherwise. -/
theorem C11_norm {env₁ env₂ : DepEnv} (envp envq : DepEnv) (hs₁ : env₁.SetLawful) (hs₂ : env₂.SetLawful)
    (hb : BlissLawful env₁) (hcp : env₂.canonicalPermutation = env₁.canonicalPermutation)
    (hpv : env₂.permuteVertices = env₁.permuteVertices)
    {a b : Ast} (ha : a.Wf) (hb' : b.Wf) (r : Respell a b) {ga gb : Graph}
    (pa : Tucan.parser.graph_from_tree envp (treeOf a) = .ok ga)
    (pb : Tucan.parser.graph_from_tree envq (treeOf b) = .ok gb)
    (fuel fuel' : Nat) (hf : fuel ≥ fuelBound ga) (hf' : fuel' ≥ fuelBound gb) :
    fuelBound ga = fuelBound gb ∧ tucan env₁ fuel ga = tucan env₂ fuel' gb ∧
      (ga.nodeList ≠ [] → ∃ s, tucan env₁ fuel ga = .ok s) := by
  have ta := Contracts.Parser.graph_from_tree_ok envp a ha
  have tb := Contracts.Parser.graph_from_tree_ok envq b hb'
  rcases Contracts.RoundTrip.C11_denote r with ⟨ea, _⟩ | ⟨ma, mb, ea, eb, hat, hbo⟩
  · rw [ea] at ta
    rw [pa] at ta
    cases ta
  · rw [ea] at ta; rw [eb] at tb
    obtain ⟨g, hg, rg⟩ := ta
    obtain ⟨h, hh, rh⟩ := tb
    obtain rfl : g = ga := Except.ok.inj (hg.symm.trans pa)
    obtain rfl : h = gb := Except.ok.inj (hh.symm.trans pb)
    obtain ⟨hn, hattr, hnb⟩ := Contracts.RoundTrip.represents_agree rg rh hat hbo
    have ok := parsed_idOK rg (denote_molWf ha ea)
    have fb := fuelBound_congr rg.wf rh.wf hn hnb
    have key : g.nodeList ≠ [] → ∃ s, tucan env₁ fuel g = .ok s ∧ tucan env₂ fuel' h = .ok s := fun hne =>
      C06_graph_half hs₁ hs₂ hb hcp hpv rg.wf rh.wf hne ok.carries_code ok.carries_Z
        (by rw [hn]) (fun key _ n _ => (hattr n key).symm)
        (fun n _ => (List.perm_ext_iff_of_nodup (rh.wf.nodup_nbrs n) (rg.wf.nodup_nbrs n)).2 (fun j => (hnb n j).symm))
        ok.codeDetermines fuel fuel' hf hf'
    refine ⟨fb, ?_, fun hne => ?_⟩
    · by_cases hne : g.nodeList = []
      · have h1 : 1 ≤ fuel := le_trans (by unfold fuelBound; omega) hf
        have h2 : 1 ≤ fuel' := le_trans (by unfold fuelBound; omega) hf'
        rw [tucan_of_empty env₁ hs₁ rg.wf hne fuel h1, tucan_of_empty env₂ hs₂ rh.wf (hn ▸ hne) fuel' h2]
      · obtain ⟨s, e1, e2⟩ := key hne
        rw [e1, e2]
    · obtain ⟨s, e1, _⟩ := key hne
      exact ⟨s, e1⟩

/-- the normal form of a TUCAN string: parse, canonicalize, serialize -/
def norm (antlr : Str → Option PTree) (envp env : DepEnv) (fuel : Nat) (s : Str) : M Str := do
  let g ← graphFromTucan antlr envp s
  tucan env fuel g

theorem norm_eq_of_parse {antlr : Str → Option PTree} {envp env : DepEnv} {fuel : Nat} {s : Str} {g : Graph}
    (p : graphFromTucan antlr envp s = .ok g) : norm antlr envp env fuel s = tucan env fuel g := by
  unfold norm; rw [p]; rfl

/-- **C11 (normal form, text level): `norm s' = norm s`.** Two grammatical spellings `render a`, `render b` of
one molecule (`Respell a b`) have the same normal form for all sufficient fuels (parser environments, `set` orders
and fuels of the two runs may differ): both are rejected with `TucanParserException`, or both give the same string,
or (no atoms) both raise `ValueError`. -/
theorem C11_norm_text (antlr : Str → Option PTree) (hV4 : V4 antlr) {env₁ env₂ : DepEnv} (envp envq : DepEnv)
    (hs₁ : env₁.SetLawful) (hs₂ : env₂.SetLawful)
    (hb : BlissLawful env₁) (hcp : env₂.canonicalPermutation = env₁.canonicalPermutation)
    (hpv : env₂.permuteVertices = env₁.permuteVertices)
    {a b : Ast} (ha : a.Wf) (hb' : b.Wf) (ga' : Layout.Grammar.tucan (render a)) (gb' : Layout.Grammar.tucan (render b))
    (r : Respell a b) :
    ∃ N, ∀ fuel ≥ N, ∀ fuel' ≥ N,
      norm antlr envp env₁ fuel (render a) = norm antlr envq env₂ fuel' (render b) ∧
      (norm antlr envp env₁ fuel (render a) = .error TPE ∨ norm antlr envp env₁ fuel (render a) = .error .value ∨
        ∃ s, norm antlr envp env₁ fuel (render a) = .ok s) := by
  have ta := Contracts.Parser.graph_from_tree_ok envp a ha
  have tb := Contracts.Parser.graph_from_tree_ok envq b hb'
  have na : ∀ fuel, norm antlr envp env₁ fuel (render a) =
      (Tucan.parser.graph_from_tree envp (treeOf a) >>= tucan env₁ fuel) := by
    intro fuel; unfold norm graphFromTucan; rw [hV4 a ha ga']
  have nb : ∀ fuel, norm antlr envq env₂ fuel (render b) =
      (Tucan.parser.graph_from_tree envq (treeOf b) >>= tucan env₂ fuel) := by
    intro fuel; unfold norm graphFromTucan; rw [hV4 b hb' gb']
  rcases Contracts.RoundTrip.C11_denote r with ⟨ea, eb⟩ | ⟨ma, mb, ea, eb, hat, hbo⟩
  · rw [ea] at ta; rw [eb] at tb
    refine ⟨0, ?_⟩
    intro fuel _ fuel' _
    rw [na, nb, ta, tb]
    exact ⟨rfl, Or.inl rfl⟩
  · rw [ea] at ta; rw [eb] at tb
    obtain ⟨g, hg, rg⟩ := ta
    obtain ⟨h, hh, rh⟩ := tb
    refine ⟨max (fuelBound g) (fuelBound h), ?_⟩
    intro fuel hfu fuel' hfu'
    obtain ⟨_, e, hex⟩ := C11_norm envp envq hs₁ hs₂ hb hcp hpv ha hb' r hg hh fuel fuel'
      (le_trans (le_max_left _ _) hfu) (le_trans (le_max_right _ _) hfu')
    rw [na, nb, hg, hh]
    refine ⟨e, ?_⟩
    by_cases hne : g.nodeList = []
    · right; left
      exact tucan_of_empty env₁ hs₁ rg.wf hne fuel
        (le_trans (le_trans (by unfold fuelBound; omega) (le_max_left (fuelBound g) (fuelBound h))) hfu)
    · right; right
      exact hex hne

/-! ### idempotence -/

theorem foldl_digits_lt (cs : Str) (hd : ∀ c ∈ cs, isAsciiDigit c = true) (n : Nat) :
    cs.foldl (fun n c => 10 * n + (c.toNat - '0'.toNat)) n < (n + 1) * 10 ^ cs.length := by
  induction cs generalizing n with
  | nil => simp
  | cons c cs ih =>
    have hc := hd c (by simp)
    simp only [isAsciiDigit, decide_eq_true_eq] at hc
    have h9 : c.toNat ≤ '9'.toNat := by
      have := hc.2; rw [Char.le_def] at this; exact this
    have h57 : '9'.toNat = 57 := rfl
    have h48 : '0'.toNat = 48 := rfl
    have := ih (fun d hd' => hd d (by simp [hd'])) (10 * n + (c.toNat - '0'.toNat))
    simp only [List.foldl_cons, List.length_cons]
    refine lt_of_lt_of_le this ?_
    rw [pow_succ]
    have : 10 * n + (c.toNat - '0'.toNat) + 1 ≤ (n + 1) * 10 := by omega
    calc (10 * n + (c.toNat - '0'.toNat) + 1) * 10 ^ cs.length ≤ ((n + 1) * 10) * 10 ^ cs.length :=
          Nat.mul_le_mul_right _ this
      _ = (n + 1) * (10 ^ cs.length * 10) := by ring

theorem num_small (ds : Str) (h : NumWf ds) : num ds < 10 ^ 4300 := by
  obtain ⟨_, hd, _, hl⟩ := h
  have := foldl_digits_lt ds (by simpa using hd) 0
  simp only [zero_add, one_mul] at this
  refine lt_of_lt_of_le this ?_
  exact Nat.pow_le_pow_right (by decide) hl

theorem settings_val_small (a : Ast) (h : a.Wf) : ∀ s ∈ a.settings, s.2 < 10 ^ 4300 := by
  intro s hs
  simp only [Ast.settings, Ast.blocks, List.mem_flatMap, List.mem_map] at hs
  obtain ⟨b, hb, kv, hkv, rfl⟩ := hs
  cases ha : a.attrs with
  | none => simp [ha] at hb
  | some bs =>
    simp only [ha, Option.getD_some] at hb
    exact num_small _ ((h.attrs bs ha b hb).2 kv hkv)

/-- all numbers of the molecule are below CPython's `int` / `str` conversion limit -/
structure MolSmall (mol : AbstractMol) : Prop where
  atoms : mol.atoms.length < 10 ^ 4300
  mass : ∀ x ∈ mol.atoms, ∀ v, x.mass = some v → v < 10 ^ 4300
  rad : ∀ x ∈ mol.atoms, ∀ v, x.rad = some v → v < 10 ^ 4300

theorem denote_atoms_length {a : Ast} {mol : AbstractMol} (e : denote a = .ok mol) :
    mol.atoms.length = (expand a.formula).length := by
  unfold denote at e
  split at e
  · cases e
  · obtain rfl := (Except.ok.inj e).symm
    simp [Contracts.Parser.sorted_length]

theorem denote_small {a : Ast} (h : a.Wf) {mol : AbstractMol} (e : denote a = .ok mol)
    (hn : (expand a.formula).length < 10 ^ 4300) : MolSmall mol := by
  refine ⟨by rw [denote_atoms_length e]; exact hn, ?_, ?_⟩ <;>
  · unfold denote at e
    split at e
    · cases e
    · obtain rfl := (Except.ok.inj e).symm
      intro x hx v hv
      simp only [List.mem_map] at hx
      obtain ⟨si, _, rfl⟩ := hx
      obtain ⟨n, hn', rfl⟩ := Option.map_eq_some_iff.1 hv
      have := settings_val_small a h _ (assoc_mem _ _ _ hn')
      simp only [Int.ofNat_eq_natCast]
      exact_mod_cast this

/-- the parser's graph of a small well-formed molecule is fit for serialization -/
theorem parsed_molOK {g : Graph} {mol : AbstractMol} (R : Represents g mol) (hm : MolWf mol) (hsm : MolSmall mol) :
    MolOK g := by
  have ok := parsed_idOK R hm
  have hidx : ∀ i ∈ g.nodeList, ∃ n : Nat, i = (n : Int) ∧ n < mol.atoms.length := by
    intro i hi
    rw [R.nodes, Contracts.Parser.mem_range] at hi
    obtain ⟨n, rfl⟩ := Int.eq_ofNat_of_zero_le hi.1
    exact ⟨n, rfl, by exact_mod_cast hi.2⟩
  refine ⟨R.wf, parsed_loopless R hm, ?_, ?_, ?_, ?_⟩
  · rw [R.nodes, Contracts.RoundTrip.length_range]; exact hsm.atoms
  · intro i hi
    obtain ⟨s, hs, e1, e2⟩ := ok.elem i hi
    exact ⟨s, keys_eq_table ▸ hs, e1, by rw [e2, table_ok s hs]⟩
  · intro i hi v hv
    obtain ⟨n, rfl, hn⟩ := hidx i hi
    obtain ⟨-, -, -, a4, -⟩ := R.attrs n hn
    rw [a4] at hv
    obtain ⟨z, hz, rfl⟩ := Option.map_eq_some_iff.1 hv
    exact ⟨z, (hm.atoms _ (List.getElem_mem hn)).mass z hz, hsm.mass _ (List.getElem_mem hn) z hz, rfl⟩
  · intro i hi v hv
    obtain ⟨n, rfl, hn⟩ := hidx i hi
    obtain ⟨-, -, -, -, a5, -⟩ := R.attrs n hn
    rw [a5] at hv
    obtain ⟨z, hz, rfl⟩ := Option.map_eq_some_iff.1 hv
    exact ⟨z, (hm.atoms _ (List.getElem_mem hn)).rad z hz, hsm.rad _ (List.getElem_mem hn) z hz, rfl⟩

/-- **C11 (idempotence, graph level).** `g`: the parser's graph for a well-formed syntax tree `a` with at least one
and fewer than `10^4300` atoms. If the pipeline emits `t` for `g`, then the parser accepts `t`, and the pipeline
emits `t` again for the graph parsed from `t`. -/
theorem C11_idem (antlr : Str → Option PTree) (hV4 : V4 antlr) {env env₂ : DepEnv} (envq : DepEnv)
    (hs : env.SetLawful) (hs₂ : env₂.SetLawful) (hb : BlissLawful env)
    (hcp : env₂.canonicalPermutation = env.canonicalPermutation)
    (hpv : env₂.permuteVertices = env.permuteVertices)
    {a : Ast} (ha : a.Wf) {mol : AbstractMol} (ea : denote a = .ok mol) (hne : expand a.formula ≠ [])
    (hsm : (expand a.formula).length < 10 ^ 4300) {g : Graph} (R : Represents g mol)
    (fuel : Nat) (hf : fuel ≥ fuelBound g) {t : Str} (e : tucan env fuel g = .ok t) :
    ∃ g', graphFromTucan antlr envq t = .ok g' ∧ fuelBound g' = fuelBound g ∧
      ∀ fuel' ≥ fuelBound g', tucan env₂ fuel' g' = .ok t := by
  have hm := denote_molWf ha ea
  have hne' : mol.atoms ≠ [] := by
    intro h0
    have := denote_atoms_length ea
    rw [h0] at this
    exact hne (List.eq_nil_of_length_eq_zero this.symm)
  obtain ⟨_, hne'', _, _, _, hc, _, _⟩ := parsed_ok ha ea R hne'
  obtain ⟨g', p, _, _, _, _, _, fb, hrun⟩ := C03_fixpoint_ex antlr hV4 envq hs hs₂ hb hcp hpv
    (parsed_molOK R hm (denote_small ha ea hsm)) hne'' hc fuel hf e
  exact ⟨g', p, fb, hrun⟩

/-- **C11 (idempotence, text level):** `norm (norm s) = norm s` for every grammatical spelling `s = render a` of
a molecule with fewer than `10^4300` atoms, for all sufficient fuels: whenever `norm s` is a string `t`, `norm t = t`.
The environments of the two parser runs and the two pipeline runs may differ. (If `s` is rejected or has no atoms,
`norm s` is an exception and there is nothing to normalise again.) -/
theorem C11_idem_text (antlr : Str → Option PTree) (hV4 : V4 antlr) {env env₂ : DepEnv} (envp envq : DepEnv)
    (hs : env.SetLawful) (hs₂ : env₂.SetLawful) (hb : BlissLawful env)
    (hcp : env₂.canonicalPermutation = env.canonicalPermutation)
    (hpv : env₂.permuteVertices = env.permuteVertices)
    {a : Ast} (ha : a.Wf) (hgr : Layout.Grammar.tucan (render a))
    (hsm : (expand a.formula).length < 10 ^ 4300) :
    ∃ N, ∀ fuel ≥ N, ∀ fuel' ≥ N, ∀ t, norm antlr envp env fuel (render a) = .ok t →
      norm antlr envq env₂ fuel' t = .ok t := by
  have ta := Contracts.Parser.graph_from_tree_ok envp a ha
  have na : ∀ fuel, norm antlr envp env fuel (render a) =
      (Tucan.parser.graph_from_tree envp (treeOf a) >>= tucan env fuel) := by
    intro fuel; unfold norm graphFromTucan; rw [hV4 a ha hgr]
  cases ea : denote a with
  | error err =>
    rw [ea] at ta
    refine ⟨0, ?_⟩
    intro fuel _ fuel' _ t ht
    rw [na, ta] at ht
    cases ht
  | ok mol =>
    rw [ea] at ta
    obtain ⟨g, hg, R⟩ := ta
    refine ⟨fuelBound g, ?_⟩
    intro fuel hfu fuel' hfu' t ht
    rw [na, hg] at ht
    by_cases hne : expand a.formula = []
    · have h0 : g.nodeList = [] := by
        rw [R.nodes, denote_atoms_length ea, hne]; rfl
      have : tucan env fuel g = .error .value :=
        tucan_of_empty env hs R.wf h0 fuel (le_trans (by unfold fuelBound; omega) hfu)
      rw [show (Except.ok g >>= tucan env fuel) = tucan env fuel g from rfl, this] at ht
      cases ht
    · obtain ⟨g', p, fb, hrun⟩ := C11_idem antlr hV4 envq hs hs₂ hb hcp hpv ha ea hne hsm R fuel hfu ht
      rw [norm_eq_of_parse p]
      exact hrun fuel' (by rw [fb]; exact hfu')

/-! ## 4. C06 / C08: molfiles with the same identity data give the same TUCAN string -/

/-- graphs that agree on nodes, identity attributes, invariant code and adjacency get the same string -/
theorem tucan_eq_of_agree {env₁ env₂ : DepEnv} (hs₁ : env₁.SetLawful) (hs₂ : env₂.SetLawful)
    (hb : BlissLawful env₁) (hcp : env₂.canonicalPermutation = env₁.canonicalPermutation)
    (hpv : env₂.permuteVertices = env₁.permuteVertices)
    {g g' : Graph} (ok : IdOK g) (wg' : g'.WF) (hne : g.nodeList ≠ []) (hn : g.nodeList = g'.nodeList)
    (ha : ∀ n, ∀ k ∈ idKeys ++ ["invariant_code"], g.attr n k = g'.attr n k)
    (hnb : ∀ x y, y ∈ g.nbrs x ↔ y ∈ g'.nbrs x) :
    fuelBound g' = fuelBound g ∧ ∀ fuel ≥ fuelBound g, ∀ fuel' ≥ fuelBound g,
      ∃ s, tucan env₁ fuel g = .ok s ∧ tucan env₂ fuel' g' = .ok s := by
  have fb := (fuelBound_congr ok.wf wg' hn hnb).symm
  refine ⟨fb, ?_⟩
  intro fuel hf fuel' hf'
  exact C06_graph_half hs₁ hs₂ hb hcp hpv ok.wf wg' hne ok.carries_code ok.carries_Z
    (by rw [hn]) (fun key hk n _ => (ha n key hk).symm)
    (fun n _ => (List.perm_ext_iff_of_nodup (wg'.nodup_nbrs n) (ok.wf.nodup_nbrs n)).2 (fun j => (hnb n j).symm))
    ok.codeDetermines fuel fuel' hf (by rw [fb]; exact hf')

open Contracts.Reader (Ctab fileMeaning SameIdentityCtab) in
/-- **C06 (connection-table level).** Two readable star-free V3000 connection tables with the same identity data
(`SameIdentityCtab`: equally many atom lines, the same element symbol and effective `MASS` / `RAD` at every
position, bond lines joining the same positions — coordinates, charges, atom-atom mapping, other properties,
index values, bond types / order / direction are free), the first valid and with at least one atom, are both read
successfully and the pipeline gives the two graphs the same TUCAN string. -/
theorem C06_reader {env₁ env₂ : DepEnv} (envr : DepEnv) (hs₁ : env₁.SetLawful) (hs₂ : env₂.SetLawful)
    (hb : BlissLawful env₁) (hcp : env₂.canonicalPermutation = env₁.canonicalPermutation)
    (hpv : env₂.permuteVertices = env₁.permuteVertices)
    (C C' : Ctab) (h : C.Plain envr) (h' : C'.Plain envr) (hsame : SameIdentityCtab C C')
    (hneg : ¬ C.NegMassRad) (hself : ¬ C.SelfBond) (hne : C.atoms ≠ []) :
    ∃ g g', fileMeaning envr C = .ok g ∧ fileMeaning envr C' = .ok g' ∧ fuelBound g' = fuelBound g ∧
      ∀ fuel ≥ fuelBound g, ∀ fuel' ≥ fuelBound g, ∃ s, tucan env₁ fuel g = .ok s ∧ tucan env₂ fuel' g' = .ok s := by
  obtain ⟨g, g', e, e', hn, ha, hnb⟩ := Reader.same_identity_ctab envr C C' h h' hsame hneg hself
  obtain ⟨g₀, e₀, _, hne₀, _, _, _, _, _, ok⟩ := read_ok envr C h hneg hself hne
  obtain rfl : g₀ = g := Except.ok.inj (e₀.symm.trans e)
  obtain ⟨hneg', hself'⟩ := Reader.valid_of_sameIdentityCtab envr C C' h' hsame hneg hself
  obtain ⟨g₁, e₁, wg₁, _⟩ := Reader.fileMeaning_plain_graph envr C' h' hneg' hself'
  obtain rfl : g₁ = g' := Except.ok.inj (e₁.symm.trans e')
  exact ⟨g₀, g₁, e, e', tucan_eq_of_agree hs₁ hs₂ hb hcp hpv ok wg₁ hne₀ hn ha hnb⟩

open Contracts.Reader (Ctab Dress fileLines IsSep SameIdentityCtab) in
/-- **C06 (text level).** Two V3000 molfile texts that are renderings (arbitrary header / comment lines, blank
runs, trailing blanks, continuation cut points, further V30 lines, trailing lines, LF / CRLF / CR) of connection
tables with the same identity data are both read successfully and get the same TUCAN string. -/
theorem C06_reader_text {env₁ env₂ : DepEnv} (envr : DepEnv) (hs₁ : env₁.SetLawful) (hs₂ : env₂.SetLawful)
    (hb : BlissLawful env₁) (hcp : env₂.canonicalPermutation = env₁.canonicalPermutation)
    (hpv : env₂.permuteVertices = env₁.permuteVertices)
    (C C' : Ctab) (h : C.Plain envr) (h' : C'.Plain envr) (hsame : SameIdentityCtab C C')
    (hneg : ¬ C.NegMassRad) (hself : ¬ C.SelfBond) (hne : C.atoms ≠ [])
    (sep sep' : Str) (hsep : IsSep sep) (hsep' : IsSep sep') (D D' : Dress)
    (hok : D.OK C) (hok' : D'.OK C') (hnb : D.NoBreaks C) (hnb' : D'.NoBreaks C')
    (hB : ∀ b ∈ C.bonds, b.Shape) (hB' : ∀ b ∈ C'.bonds, b.Shape) (rf rf' : Nat)
    (hrf : ((fileLines C D).drop 4).length + 1 ≤ rf) (hrf' : ((fileLines C' D').drop 4).length + 1 ≤ rf') :
    ∃ g g', Tucan.molfile_reader.graph_from_molfile_text envr rf (join sep (fileLines C D ++ [[]])) = .ok g ∧
      Tucan.molfile_reader.graph_from_molfile_text envr rf' (join sep' (fileLines C' D' ++ [[]])) = .ok g' ∧
      fuelBound g' = fuelBound g ∧
      ∀ fuel ≥ fuelBound g, ∀ fuel' ≥ fuelBound g, ∃ s, tucan env₁ fuel g = .ok s ∧ tucan env₂ fuel' g' = .ok s := by
  obtain ⟨g, g', e, e', rest⟩ := C06_reader envr hs₁ hs₂ hb hcp hpv C C' h h' hsame hneg hself hne
  refine ⟨g, g', ?_, ?_, rest⟩
  · rw [Reader.graph_from_molfile_text_render envr rf sep hsep C D hok hnb (fun a ha => (h.wf a ha).shape) hB hrf, e]
  · rw [Reader.graph_from_molfile_text_render envr rf' sep' hsep' C' D' hok' hnb'
      (fun a ha => (h'.wf a ha).shape) hB' hrf', e']

/-! ### a V2000 file and a V3000 file with the same identity data -/

/-- two graphs whose nodes carry `withCode A`, `withCode A'` with `A`, `A'` agreeing on the identity attributes
agree on the identity attributes and the invariant code -/
theorem agree_of_withCode {g g' : Graph} (hn : g.nodeList = g'.nodeList)
    (h : ∀ n ∈ g.nodeList, ∃ A A', g.node.get? n = some (withCode A) ∧ g'.node.get? n = some (withCode A') ∧
      ∀ k ∈ idKeys, A.get? k = A'.get? k) :
    ∀ n, ∀ k ∈ idKeys ++ ["invariant_code"], g.attr n k = g'.attr n k := by
  intro n k hk
  by_cases hmem : n ∈ g.nodeList
  · obtain ⟨A, A', e, e', hid⟩ := h n hmem
    rcases List.mem_append.mp hk with hk | hk
    · have hne : k ≠ "invariant_code" := by
        intro e; subst e; revert hk; decide
      rw [attr_withCode_ne e k hne, attr_withCode_ne e' k hne]
      exact hid k hk
    · simp only [List.mem_singleton] at hk; subst hk
      rw [Graph.attr_eq, Graph.attr_eq, e, e']
      simp only [Option.bind_some]
      rw [Reader.withCode_get?_code, Reader.withCode_get?_code, Reader.codeOf_congr A A' hid]
  · rw [Contracts.RoundTrip.attr_eq_none_of_not_mem hmem,
      Contracts.RoundTrip.attr_eq_none_of_not_mem (hn ▸ hmem)]

theorem nbrs_iff_of_nodes {g g' : Graph} (wg : g.WF) (wg' : g'.WF) (hn : g.nodeList = g'.nodeList)
    (h : ∀ x ∈ g.nodeList, ∀ y ∈ g.nodeList, (y ∈ g.nbrs x ↔ y ∈ g'.nbrs x)) :
    ∀ x y, y ∈ g.nbrs x ↔ y ∈ g'.nbrs x := by
  intro x y
  constructor
  · intro hm
    exact (h x (wg.nbr_mem y x (wg.mem_nbrs_symm hm)) y (wg.nbr_mem x y hm)).1 hm
  · intro hm
    have hy : y ∈ g.nodeList := hn ▸ wg'.nbr_mem x y hm
    have hx : x ∈ g.nodeList := hn ▸ wg'.nbr_mem y x (wg'.mem_nbrs_symm hm)
    exact (h x hx y hy).2 hm

open Contracts.V2000 (Item endLine lineKind specGet atomDict fieldInt field) in
open Contracts.Reader (Ctab Dress fileLines IsSep attrsOf lastWord isNeg) in
open Contracts.V3000 (intOf) in
/-- **C08 (agreement of the two readers).** A V3000 text (a rendering of a readable, valid, star-free connection
table `C` with at least one atom; hypotheses of `Reader.graph_from_molfile_text_render_ok`) and a V2000 text
(hypotheses of `Reader.graph_from_molfile_text_v2000`) whose meanings have the same identity data — equally many
atoms, at every position the same element symbol, atomic number, mass and rad (V2000: atom block as modified by
the property block, `specGet`), bond lines joining the same positions — are both read successfully and get the
same TUCAN string. -/
theorem C08_agree {env₁ env₂ : DepEnv} (envr : DepEnv) (hs₁ : env₁.SetLawful) (hs₂ : env₂.SetLawful)
    (hb : BlissLawful env₁) (hcp : env₂.canonicalPermutation = env₁.canonicalPermutation)
    (hpv : env₂.permuteVertices = env₁.permuteVertices)
    -- the V3000 file
    (C : Ctab) (h : C.Plain envr) (hneg : ¬ C.NegMassRad) (hself : ¬ C.SelfBond) (hne : C.atoms ≠ [])
    (sep : Str) (hsep : IsSep sep) (D : Dress) (hok : D.OK C) (hnb : D.NoBreaks C)
    (hB : ∀ b ∈ C.bonds, b.Shape) (rf : Nat) (hrf : ((fileLines C D).drop 4).length + 1 ≤ rf)
    -- the V2000 file
    (rf' : Nat) (text : Str) (h0 h1 h2 counts : Str)
    (atomLines bondLines : List Str) (attrs : List Attrs) (bonds : List ((Int × Int) × Attrs))
    (items : List Item) (post : List Str)
    (hlines : splitlines text =
      h0 :: h1 :: h2 :: counts :: (atomLines ++ (bondLines ++ (items.map Item.render ++ endLine :: post))))
    (hver : lastWord counts = py!"V2000")
    (hna : fieldInt (field counts 0 3) = .ok atomLines.length)
    (hnb2 : fieldInt (field counts 3 3) = .ok bondLines.length)
    (hnl : fieldInt (field counts 6 3) = .ok 0)
    (hatoms : List.Forall₂ (fun l a => Tucan.molfile_v2000_reader._parse_atom_line envr l = .ok a) atomLines attrs)
    (hbonds : List.Forall₂ (fun l b => Tucan.molfile_v2000_reader._parse_bond_line envr l (atomDict attrs) = .ok b)
      bondLines bonds)
    (hbl : ∀ l ∈ bondLines, lineKind l = none ∧ l ≠ endLine)
    (hitems : ∀ it ∈ items, it.Legal (atomDict attrs))
    (hwf : ∀ a ∈ attrs, a.WF) (hZ : ∀ a ∈ attrs, ∃ z, a.get? "atomic_number" = some z)
    (hends : ∀ b ∈ bonds, b.1.1 ∈ range (attrs.length : Int) ∧ b.1.2 ∈ range (attrs.length : Int))
    (hneg2 : ∀ (i : Nat) (hi : i < attrs.length), ∀ k ∈ ["mass", "rad"], ∀ v,
      specGet (items.filterMap Item.parsed) i attrs[i] k = some v → isNeg v = false)
    (hself2 : ∀ b ∈ bonds, b.1.1 ≠ b.1.2)
    -- the same identity data
    (hlen : attrs.length = C.atoms.length)
    (hsameA : ∀ (i : Nat) (hi : i < attrs.length) a, C.atoms[i]? = some a → ∀ k ∈ idKeys,
      (attrsOf envr a).get? k = specGet (items.filterMap Item.parsed) i attrs[i] k)
    (hsameB : ∀ (i j : Nat) a b, C.atoms[i]? = some a → C.atoms[j]? = some b →
      (C.joined (intOf a.idx) (intOf b.idx) ↔
        ∃ q ∈ bonds, q.1 = ((i : Int), (j : Int)) ∨ q.1 = ((j : Int), (i : Int)))) :
    ∃ g g', Tucan.molfile_reader.graph_from_molfile_text envr rf (join sep (fileLines C D ++ [[]])) = .ok g ∧
      Tucan.molfile_reader.graph_from_molfile_text envr rf' text = .ok g' ∧ fuelBound g' = fuelBound g ∧
      ∀ fuel ≥ fuelBound g, ∀ fuel' ≥ fuelBound g, ∃ s, tucan env₁ fuel g = .ok s ∧ tucan env₂ fuel' g' = .ok s := by
  obtain ⟨g, e, wg, ng, ag, bg⟩ := Reader.graph_from_molfile_text_render_ok envr rf sep hsep C D hok hnb hB hrf h hneg hself
  obtain ⟨g₀, e₀, _, hne₀, _, _, _, _, _, ok⟩ := read_ok envr C h hneg hself hne
  have hfm := Reader.graph_from_molfile_text_render envr rf sep hsep C D hok hnb (fun a ha => (h.wf a ha).shape) hB hrf
  obtain rfl : g₀ = g := Except.ok.inj (e₀.symm.trans (hfm.symm.trans e))
  obtain ⟨g', e', wg', ng', ag', bg'⟩ := Reader.graph_from_molfile_text_v2000 envr rf' text h0 h1 h2 counts atomLines
    bondLines attrs bonds items post hlines hver hna hnb2 hnl hatoms hbonds hbl hitems hwf hZ hends hneg2 hself2
  have hn : g₀.nodeList = g'.nodeList := by rw [ng, ng', hlen]
  have hidx : ∀ n ∈ g₀.nodeList, ∃ (i : Nat) (a : Contracts.V3000.AtomLine), n = (i : Int) ∧ C.atoms[i]? = some a ∧
      i < attrs.length := by
    intro n hn'
    rw [ng, Contracts.Parser.mem_range] at hn'
    obtain ⟨i, rfl⟩ := Int.eq_ofNat_of_zero_le hn'.1
    have hi : i < C.atoms.length := by exact_mod_cast hn'.2
    exact ⟨i, C.atoms[i], rfl, by simp [hi], by rw [hlen]; exact hi⟩
  refine ⟨g₀, g', e, e', tucan_eq_of_agree hs₁ hs₂ hb hcp hpv ok wg' hne₀ hn ?_ ?_⟩
  · apply agree_of_withCode hn
    intro n hn'
    obtain ⟨i, a, rfl, hia, hi⟩ := hidx n hn'
    obtain ⟨new, hnew, hs⟩ := ag' i hi
    refine ⟨_, new, ag i a hia, hnew, ?_⟩
    intro k hk
    rw [hs k]
    exact hsameA i hi a hia k hk
  · apply nbrs_iff_of_nodes wg wg' hn
    intro x hx y hy
    obtain ⟨i, a, rfl, hia, _⟩ := hidx x hx
    obtain ⟨j, b, rfl, hjb, _⟩ := hidx y hy
    rw [bg i j a b hia hjb, bg', hsameB i j a b hia hjb]

/-! ## 5. C09: string → graph → molfile → graph → string -/

/-- position of a node in the node list -/
def posOf (l : List Int) (n : Int) : Int := Int.ofNat (l.idxOf n)

theorem map_posOf (l : List Int) (h : l.Nodup) : l.map (posOf l) = range (l.length : Int) := by
  apply List.ext_getElem
  · simp [range]
  · intro i h1 h2
    simp only [List.getElem_map, posOf, range, Int.toNat_natCast, List.getElem_range]
    rw [List.Nodup.idxOf_getElem h]

theorem posOf_inj {l : List Int} {a b : Int} (ha : a ∈ l) (e : posOf l a = posOf l b) : a = b := by
  unfold posOf at e
  exact (List.idxOf_inj ha).1 (Int.ofNat.inj e)

theorem nodeReadBack_get (env : DepEnv) (a : Attrs) :
    (Writer.nodeReadBack env a).get? "element_symbol" = some (Val.str (Writer.symbolOf a)) ∧
    (Writer.nodeReadBack env a).get? "atomic_number" = some (Val.int (Writer.zOf (Writer.symbolOf a))) ∧
    (Writer.nodeReadBack env a).get? "mass" = (Writer.wMass a).map Val.int ∧
    (Writer.nodeReadBack env a).get? "rad" = (Writer.wRad a).map Val.int := by
  unfold Writer.nodeReadBack Writer.readBack
  exact Reader.mkAtomAttrs_get _ _ _ _ _ _ _ _

theorem zOf_table {s : Str} (hs : s ∈ periodicTable) : Writer.zOf s = atomicNumber s := by
  obtain ⟨n, hn⟩ := Contracts.V3000.atomicNumber_known s (keys_eq_table ▸ hs)
  have h2 := (atomicNumber_ok hn).2
  have h3 : n = atomicNumber s := by simpa using h2
  unfold Writer.zOf
  rw [hn, h3]

/-- what the molfile round trip preserves: `g` has the identity facts, no self-loops and radicals in the
format's range `1..3` -/
theorem writeRead_attrs (env : DepEnv) {g : Graph} (ok : IdOK g)
    (hrad : ∀ i ∈ g.nodeList, ∀ r : Int, g.attr i "rad" = some (Val.int r) → r ≤ 3)
    {n : Int} (hn : n ∈ g.nodeList) {a : Attrs} (ha : g.node.get? n = some a) :
    ∀ k ∈ idKeys, (Writer.nodeReadBack env a).get? k = g.attr n k := by
  have hattr : ∀ k, g.attr n k = a.get? k := fun k => by rw [Graph.attr_eq, ha]; rfl
  obtain ⟨s, hs, e1, e2⟩ := ok.elem n hn
  obtain ⟨r1, r2, r3, r4⟩ := nodeReadBack_get env a
  have hsym : Writer.symbolOf a = s := by
    have : a.get? "element_symbol" = some (Val.str s) := by rw [← hattr]; exact e1
    simp [Writer.symbolOf, this, pyStr]
  intro k hk
  simp only [idKeys, List.mem_cons, List.not_mem_nil, or_false] at hk
  rcases hk with rfl | rfl | rfl | rfl
  · rw [r1, hsym, e1]
  · rw [r2, hsym, zOf_table hs, e2]
  · rw [r3, hattr]
    cases hm : a.get? "mass" with
    | none => simp [Writer.wMass, Writer.intAttr, hm]
    | some v =>
      obtain ⟨z, hz, rfl⟩ := ok.mass n hn v (by rw [hattr]; exact hm)
      have : 0 < z := by omega
      simp [Writer.wMass, Writer.intAttr, hm, this]
  · rw [r4, hattr]
    cases hm : a.get? "rad" with
    | none => simp [Writer.wRad, Writer.intAttr, hm]
    | some v =>
      obtain ⟨z, hz, rfl⟩ := ok.rad n hn v (by rw [hattr]; exact hm)
      have h3 := hrad n hn z (by rw [hattr]; exact hm)
      simp [Writer.wRad, Writer.intAttr, hm, hz, h3]

theorem atomsBack_keys (env : DepEnv) (g : Graph) : (Writer.atomsBack env g).keys = g.nodeList := by
  simp [Writer.atomsBack, Dict.keys, Graph.nodesData, Graph.nodeList, List.map_map, Function.comp_def]

theorem atomsBack_get? (env : DepEnv) (g : Graph) (k : Int) :
    (Writer.atomsBack env g).get? k = (g.node.get? k).map (Writer.nodeReadBack env) :=
  Py.lookup_map_snd g.node.items (fun _ a => Writer.nodeReadBack env a) k

theorem bondsBack_keys (g : Graph) : (Writer.bondsBack g).keys = g.edges := by
  simp [Writer.bondsBack, Dict.keys, Graph.edges_eq, List.map_map, Function.comp_def]

theorem nbrs_iff_edges {g : Graph} (hg : g.WF) (u v : Int) :
    v ∈ g.nbrs u ↔ ((u, v) ∈ g.edges ∨ (v, u) ∈ g.edges) := by
  constructor
  · exact Graph.mem_edges_of_nbrs hg
  · rintro (h | h)
    · exact Graph.mem_edges_imp hg h
    · exact hg.mem_nbrs_symm (Graph.mem_edges_imp hg h)

/-- the atom / bond dictionaries read back from the written file are valid input of `graph_from_molecule` -/
theorem back_molOK (env : DepEnv) {g : Graph} (hg : g.WF) : Reader.MolOK (Writer.atomsBack env g) (Writer.bondsBack g) where
  wf := by unfold Dict.WF; rw [atomsBack_keys]; exact hg.nodup_nodeList
  attrs_wf := by
    intro p hp
    simp only [Writer.atomsBack, List.mem_map] at hp
    obtain ⟨q, _, rfl⟩ := hp
    exact Reader.mkAtomAttrs_wf _ _ _ _ _ _ _ _
  z := by
    intro p hp
    simp only [Writer.atomsBack, List.mem_map] at hp
    obtain ⟨q, _, rfl⟩ := hp
    exact ⟨_, (nodeReadBack_get env q.2).2.1⟩
  ends := by
    intro b hb
    rw [bondsBack_keys] at hb
    rw [atomsBack_keys]
    have h1 := Graph.mem_edges_imp hg hb
    exact ⟨hg.nbr_mem _ _ (hg.mem_nbrs_symm h1), hg.nbr_mem _ _ h1⟩

/-- **the molfile round trip at the dictionary level**: the graph built from the atoms and bonds read back is `g`
renumbered by position in the node list, with element symbol, atomic number, mass, rad, invariant code and
adjacency carried -/
theorem writeRead_iso (env : DepEnv) {g : Graph} (ok : IdOK g)
    (hrad : ∀ i ∈ g.nodeList, ∀ r : Int, g.attr i "rad" = some (Val.int r) → r ≤ 3) :
    ∃ g₂ R, Tucan.graph_utils.graph_from_molecule env (Writer.atomsBack env g) (Writer.bondsBack g) = .ok (g₂, R) ∧
      g₂.WF ∧ InvariantCodeOK g₂ ∧ ∀ k ∈ idKeys, IsIsoOn k (posOf g.nodeList) g g₂ := by
  have hm := back_molOK env ok.wf
  obtain ⟨g₂, R, e, wg₂, ng, ag, bg⟩ :=
    Reader.graph_from_molecule_general env _ _ hm.wf hm.attrs_wf hm.z hm.ends
  rw [atomsBack_keys] at ng ag bg
  have hnode : ∀ n ∈ g.nodeList, ∃ a, g.node.get? n = some a ∧
      g₂.node.get? (posOf g.nodeList n) = some (withCode (Writer.nodeReadBack env a)) := by
    intro n hn
    cases ha : g.node.get? n with
    | none => exact absurd hn ((Dict.get?_eq_none_iff _ _).1 ha)
    | some a =>
      refine ⟨a, rfl, ag n _ ?_⟩
      rw [atomsBack_get?, ha]; rfl
  refine ⟨g₂, R, e, wg₂, graph_from_molecule_codeOK env _ _ hm e, ?_⟩
  intro k hk
  have hne : k ≠ "invariant_code" := by
    intro e; subst e; revert hk; decide
  refine ⟨fun a ha b _ e => posOf_inj ha e, ?_, ?_, ?_⟩
  · rw [ng, map_posOf _ ok.wf.nodup_nodeList]
  · intro n hn
    obtain ⟨a, ha, h2⟩ := hnode n hn
    rw [attr_withCode_ne h2 k hne]
    exact writeRead_attrs env ok hrad hn ha k hk
  · intro n hn
    apply (List.perm_ext_iff_of_nodup (wg₂.nodup_nbrs _) ?_).2
    · intro x
      constructor
      · intro hx
        have hx2 : x ∈ g₂.nodeList := wg₂.nbr_mem _ _ hx
        rw [ng, ← map_posOf _ ok.wf.nodup_nodeList] at hx2
        obtain ⟨v, hv, rfl⟩ := List.mem_map.1 hx2
        have := (bg n hn v hv).1 hx
        rw [bondsBack_keys, ← nbrs_iff_edges ok.wf] at this
        exact List.mem_map.2 ⟨v, this, rfl⟩
      · intro hx
        obtain ⟨v, hv, rfl⟩ := List.mem_map.1 hx
        have hvn : v ∈ g.nodeList := ok.wf.nbr_mem n v hv
        apply (bg n hn v hvn).2
        rw [bondsBack_keys, ← nbrs_iff_edges ok.wf]
        exact hv
    · exact (ok.wf.nodup_nbrs n).map_on (fun a ha b _ e => posOf_inj (ok.wf.nbr_mem n a ha) e)

theorem nodeOk_of_idOK {g : Graph} (ok : IdOK g) : ∀ p ∈ g.nodesData, Writer.NodeOk p.2 := by
  intro p hp
  have hget : g.node.get? p.1 = some p.2 := Dict.get?_of_mem_items ok.wf.node_wf hp
  have hn : p.1 ∈ g.nodeList := Dict.mem_keys_of_get? hget
  have hattr : ∀ k, g.attr p.1 k = p.2.get? k := fun k => by rw [Graph.attr_eq, hget]; rfl
  obtain ⟨s, _, e1, _⟩ := ok.elem p.1 hn
  constructor
  · unfold Dict.contains; rw [← hattr, e1]; rfl
  · intro v hv
    obtain ⟨z, _, rfl⟩ := ok.mass p.1 hn v (by rw [hattr]; exact hv)
    exact ⟨z, rfl⟩

theorem not_neg_atomsBack (env : DepEnv) (g : Graph) : ¬ Reader.NegMolecule (Writer.atomsBack env g) := by
  rintro ⟨p, hp, hneg⟩
  simp only [Writer.atomsBack, List.mem_map] at hp
  obtain ⟨q, _, rfl⟩ := hp
  rw [Reader.negAttr_iff] at hneg
  obtain ⟨_, _, r3, r4⟩ := nodeReadBack_get env q.2
  simp only [r3, r4] at hneg
  rcases hneg with ⟨v, hv, hn⟩ | ⟨v, hv, hn⟩
  · obtain ⟨m, hm, rfl⟩ := Option.map_eq_some_iff.1 hv
    have := (Writer.wMass_spec _ _ hm).2
    rw [Reader.isNeg_int] at hn
    simp only [decide_eq_true_eq] at hn
    omega
  · obtain ⟨m, hm, rfl⟩ := Option.map_eq_some_iff.1 hv
    have := (Writer.wRad_spec _ _ hm).2.1
    rw [Reader.isNeg_int] at hn
    simp only [decide_eq_true_eq] at hn
    omega

theorem not_self_bondsBack {g : Graph} (hg : g.WF) (hl : g.Loopless) : ¬ Reader.SelfBonded (Writer.bondsBack g) := by
  rintro ⟨b, hb, he⟩
  rw [bondsBack_keys] at hb
  obtain ⟨u, v⟩ := b
  simp only at he
  subst he
  exact hl u (Graph.mem_edges_imp hg hb)

/-- **C09 (graph → molfile → graph keeps the TUCAN string).** `g`: a molecule graph with the identity facts
(`IdOK`: parser or reader output), no self-loops, at least one atom, radicals in the format's range `1..3`; the
hypotheses of `Writer.C09` on the writer's environment and fuels. Then `graph_to_molfile` returns a text,
`graph_from_molfile_text` reads it back as a graph `g₂`, and the pipeline gives `g` and `g₂` the same string. -/
theorem C09_tucan {env₁ env₂ : DepEnv} (envw : DepEnv) (hs₁ : env₁.SetLawful) (hs₂ : env₂.SetLawful)
    (hb : BlissLawful env₁) (hcp : env₂.canonicalPermutation = env₁.canonicalPermutation)
    (hpv : env₂.permuteVertices = env₁.permuteVertices)
    {g : Graph} (ok : IdOK g) (hl : g.Loopless) (hne : g.nodeList ≠ [])
    (hrad : ∀ i ∈ g.nodeList, ∀ r : Int, g.attr i "rad" = some (Val.int r) → r ≤ 3)
    (wfuel rfuel : Nat)
    (hn : ∀ p ∈ g.nodesData, Writer.NodeRT envw p) (he : ∀ e ∈ g.edgesData, Writer.EdgeRT e)
    (hna : g.nodesData.length < 10 ^ 4300) (hnb : g.edgesData.length < 10 ^ 4300)
    (hv : Writer.Plain envw.version) (hsP : Writer.Plain envw.nowStamp) (hp : Writer.PlainValues envw g)
    (hf : Writer.maxLen (Writer.logicalLines envw g) / 71 + 1 ≤ wfuel)
    (hf' : (Writer.fileLines envw g).length + 1 ≤ rfuel) :
    ∃ text g₂, Tucan.molfile_writer.graph_to_molfile envw wfuel g false = .ok text ∧
      Tucan.molfile_reader.graph_from_molfile_text envw rfuel text = .ok g₂ ∧ fuelBound g₂ = fuelBound g ∧
      ∀ fuel ≥ fuelBound g, ∀ fuel' ≥ fuelBound g, ∃ s, tucan env₁ fuel g = .ok s ∧ tucan env₂ fuel' g₂ = .ok s := by
  obtain ⟨g₂, R, e, wg₂, cg₂, iso⟩ := writeRead_iso envw ok hrad
  have hiso := isIsoOn_code iso ok.code cg₂
  have fb : fuelBound g₂ = fuelBound g := Contracts.RoundTrip.fuelBound_iso hiso
  refine ⟨_, g₂, Writer.graph_to_molfile_ok envw wfuel g (nodeOk_of_idOK ok) hf, ?_, fb, ?_⟩
  · rw [Reader.graph_from_molfile_text_eq]
    unfold Reader.readSpec
    rw [Writer.C09_splitlines envw g hv hsP hp]
    have h3 : (Writer.fileLines envw g)[3]? = some py!"  0  0  0     0  0            999 V3000" := rfl
    have hw : Reader.lastWord py!"  0  0  0     0  0            999 V3000" = py!"V3000" := by decide
    simp only [h3, hw, if_true]
    rw [Writer.C09_file_roundtrip envw g rfuel (Writer.GraphOk.of_WF ok.wf) hn he hna hnb hf']
    simp only [ok_bind]
    rw [Reader.molGraph_ok envw _ (not_neg_atomsBack envw g) (not_self_bondsBack ok.wf hl), e]
    rfl
  · intro fuel hfu fuel' hfu'
    exact C01_tucan hs₁ hs₂ hb hcp hpv ok.wf wg₂ hne ok.carries_code ok.carries_Z hiso
      (fun key hk n hn' => (iso key hk).attr n hn') ok.codeDetermines fuel fuel' hfu (by rw [fb]; exact hfu')

/-- **C09 (string → graph → molfile → graph → string).** `s`: the TUCAN string the pipeline emits for a molecule `m`
(hypotheses of `C03_fixpoint`) whose radicals are in the molfile format's range `1..3`; `g`: the graph parsed from
`s`; hypotheses of `Writer.C09` for `g`. Then writing `g` as a molfile and reading the text back gives a graph `g₂`
for which the pipeline returns the original string `s`. -/
theorem C09_string (antlr : Str → Option PTree) (hV4 : V4 antlr) {env env₂ : DepEnv} (envp envw : DepEnv)
    (hs : env.SetLawful) (hs₂ : env₂.SetLawful) (hb : BlissLawful env)
    (hcp : env₂.canonicalPermutation = env.canonicalPermutation)
    (hpv : env₂.permuteVertices = env.permuteVertices)
    {m g : Graph} {s : Str} (hm : MolOK m) (hne : m.nodeList ≠ []) (hcode : InvariantCodeOK m)
    (hradm : ∀ i ∈ m.nodeList, ∀ r : Int, m.attr i "rad" = some (Val.int r) → r ≤ 3)
    (fuel : Nat) (hf : fuel ≥ fuelBound m)
    (e : tucan env fuel m = .ok s) (p : graphFromTucan antlr envp s = .ok g)
    (wfuel rfuel : Nat)
    (hn : ∀ p ∈ g.nodesData, Writer.NodeRT envw p) (he : ∀ e ∈ g.edgesData, Writer.EdgeRT e)
    (hnb : g.edgesData.length < 10 ^ 4300)
    (hv : Writer.Plain envw.version) (hsP : Writer.Plain envw.nowStamp) (hp : Writer.PlainValues envw g)
    (hfw : Writer.maxLen (Writer.logicalLines envw g) / 71 + 1 ≤ wfuel)
    (hfr : (Writer.fileLines envw g).length + 1 ≤ rfuel) :
    ∃ text g₂, Tucan.molfile_writer.graph_to_molfile envw wfuel g false = .ok text ∧
      Tucan.molfile_reader.graph_from_molfile_text envw rfuel text = .ok g₂ ∧
      ∀ fuel' ≥ fuelBound m, tucan env₂ fuel' g₂ = .ok s := by
  obtain ⟨⟨π, iso⟩, okg, hne', _, idg, fb, hrun⟩ :=
    C03_fixpoint antlr hV4 envp hs hs hb rfl rfl hm hne hcode fuel hf e p
  have hradg : ∀ i ∈ g.nodeList, ∀ r : Int, g.attr i "rad" = some (Val.int r) → r ≤ 3 := by
    intro i hi r hr
    have r4 := iso "rad" (by decide)
    obtain ⟨a, ha, rfl⟩ := List.mem_map.1 (r4.nodes.mem_iff.1 hi)
    rw [r4.attr a ha] at hr
    exact hradm a ha r hr
  have hna : g.nodesData.length < 10 ^ 4300 := by
    have : g.nodesData.length = g.nodeList.length := by simp [Graph.nodesData, Graph.nodeList, Dict.keys]
    rw [this]; exact okg.small
  obtain ⟨text, g₂, w, r, _, hsame⟩ := C09_tucan envw hs hs₂ hb hcp hpv idg okg.loopless hne' hradg wfuel rfuel
    hn he hna hnb hv hsP hp hfw hfr
  refine ⟨text, g₂, w, r, ?_⟩
  intro fuel' hfu'
  obtain ⟨s', e1, e2⟩ := hsame (fuelBound g) le_rfl fuel' (by rw [fb]; exact hfu')
  rw [hrun (fuelBound g) le_rfl] at e1
  cases e1
  exact e2

/-! ## sanity: the hypotheses are satisfiable, and axioms -/

/-- non-vacuity of `IdOK` / `parsed_ok`: the parser's graph for `H2O/(1-3)(2-3)/(1:mass=2)(3:rad=2)` -/
theorem parsed_ok_water (env : DepEnv) : ∃ g, Tucan.parser.graph_from_tree env (treeOf Contracts.Parser.water) = .ok g ∧
    IdOK g ∧ g.nodeList ≠ [] ∧ g.Loopless := by
  obtain ⟨g, mol, e, hg, R⟩ := Contracts.Parser.graph_from_tree_accepts env _ Contracts.Parser.water_wf
    Contracts.Parser.water_ok
  have hne : mol.atoms ≠ [] := by
    intro h0
    have := denote_atoms_length e
    rw [h0] at this
    revert this
    decide
  obtain ⟨_, h2, _, _, _, _, h7, h8⟩ := parsed_ok Contracts.Parser.water_wf e R hne
  exact ⟨g, hg, h8, h2, h7⟩

#print axioms parsed_ok
#print axioms read_ok
#print axioms graph_from_molecule_codeOK
#print axioms graph_from_molecule_idOK
#print axioms C03_fixpoint_ex
#print axioms C03_fixpoint
#print axioms tucan_of_empty
#print axioms C11_norm
#print axioms C11_norm_text
#print axioms C11_idem
#print axioms C11_idem_text
#print axioms C06_reader
#print axioms C06_reader_text
#print axioms C08_agree
#print axioms C09_tucan
#print axioms C09_string
#print axioms parsed_ok_water

end Contracts.Final
